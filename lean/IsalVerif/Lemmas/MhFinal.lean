import IsalVerif.Lemmas.MhUpdate
/-! The tail of `mh_sha1_finalize_base.c` and the final hash of `sha1_for_mh_sha1.c`:
    the padding they write is the SHA-style padding of the definition. -/
namespace IsalVerif.Mh
open MultiHash
variable {D : Type}

/-! ### More about stores -/

/-- bytes in front of a store are unchanged -/
theorem memcpy_take_le (buf : Bytes) (off : Nat) (src : Bytes) (k : Nat) (hk : k ≤ off) (h : off ≤ buf.length) :
    (memcpy buf off src).take k = buf.take k := by
  have h1 : (buf.take off).length = off := by rw [List.length_take]; omega
  rw [memcpy, List.append_assoc, List.take_append_of_le_length (by omega), List.take_take, Nat.min_eq_left hk]

theorem take_of_take {α : Type} (l : List α) (k n : Nat) (h : k ≤ n) : l.take k = (l.take n).take k := by
  rw [List.take_take, Nat.min_eq_left h]

/-! ### The length field -/

/-- `to_be64(x)` stored to memory = the big-endian bytes of `x` -/
theorem bytesBE64_eq_natBE (w : UInt64) : bytesBE64 w = natBE 8 w.toNat := by
  simp only [bytesBE64, natBE, List.range, List.range.loop, List.map]
  have key : ∀ (s : UInt64) (k : Nat), s.toNat = 8 * k → k < 8 →
      (w >>> s).toUInt8 = UInt8.ofNat (w.toNat / 256 ^ k) := by
    intro s k hs hk
    apply UInt8.toNat_inj.mp
    rw [UInt64.toNat_toUInt8, UInt64.toNat_shiftRight, hs, UInt8.toNat_ofNat', Nat.shiftRight_eq_div_pow,
      Nat.mod_eq_of_lt (by omega : 8 * k < 64), show (256:Nat) = 2^8 by rfl, ← Nat.pow_mul]
  have h0 : w.toUInt8 = UInt8.ofNat (w.toNat / 256 ^ 0) := by
    apply UInt8.toNat_inj.mp; rw [UInt64.toNat_toUInt8, UInt8.toNat_ofNat']; simp
  rw [key 56 7 (by rfl) (by omega), key 48 6 (by rfl) (by omega), key 40 5 (by rfl) (by omega),
    key 32 4 (by rfl) (by omega), key 24 3 (by rfl) (by omega), key 16 2 (by rfl) (by omega),
    key 8 1 (by rfl) (by omega), h0]

/-- `(uint64_t) total_len * 8` never wraps -/
theorem lenInBit (t : UInt32) : bytesBE64 (t.toUInt64 * 8) = natBE 8 (8 * t.toNat) := by
  rw [bytesBE64_eq_natBE, UInt64.toNat_mul, UInt32.toNat_toUInt64]
  have := t.toNat_lt
  congr 1
  simp; omega

theorem natBE_length (k n : Nat) : (natBE k n).length = k := by simp [natBE]

/-! ### Padding = one or two blocks -/

/-- the SHA-style padding (8-byte length field) behind a carried block prefix of `p` bytes, for any block
    size `B`; the side conditions on the number of zero bytes are discharged by `omega` at `B = 64`
    and `B = 1024`. -/
theorem pad_one (B n : Nat) (part : Bytes) (hk : (B - (n + 1 + 8) % B) % B = B - part.length - 9) :
    part ++ mdPad B 8 true n = part ++ [0x80] ++ List.replicate (B - part.length - 9) 0 ++ natBE 8 (8 * n) := by
  simp [mdPad, hk]

theorem pad_two (B n : Nat) (part : Bytes) 
    (hk : (B - (n + 1 + 8) % B) % B = (B - part.length - 1) + (B - 8)) :
    part ++ mdPad B 8 true n =
      (part ++ [0x80] ++ List.replicate (B - part.length - 1) 0) ++ (List.replicate (B - 8) 0 ++ natBE 8 (8 * n)) := by
  simp [mdPad, hk, ← List.replicate_append_replicate]

/-- absorbing data that completes exactly one block -/
theorem absorb_one (f : D → Bytes → D) (d : D) (part rest blk : Bytes) (h : part ++ rest = blk)
    (hl : blk.length = 1024) : (absorb 1024 f ⟨d, part⟩ rest).dig = f d blk := by
  simp only [absorb, h, hl]
  simp only [blocks, List.foldl]
  rw [List.take_of_length_le (by omega)]

/-- absorbing data that completes exactly two blocks -/
theorem absorb_two (f : D → Bytes → D) (d : D) (part rest b1 b2 : Bytes) (h : part ++ rest = b1 ++ b2)
    (h1 : b1.length = 1024) (h2 : b2.length = 1024) :
    (absorb 1024 f ⟨d, part⟩ rest).dig = f (f d b1) b2 := by
  simp only [absorb, h]
  have : (b1 ++ b2).length / 1024 = 2 := by rw [List.length_append, h1, h2]
  rw [this]
  simp only [blocks, List.foldl]
  rw [List.take_left' h1, List.drop_left' h1, List.take_of_length_le (by omega)]


/-! ### The tail function -/

theorem memset_length (buf : Bytes) (off : Nat) (v : UInt8) (n : Nat) (h : off + n ≤ buf.length) :
    (memset buf off v n).length = buf.length := by
  rw [memset, memcpy_length _ _ _ (by rw [List.length_replicate]; exact h)]

theorem memset_take (buf : Bytes) (off : Nat) (v : UInt8) (n : Nat) (h : off ≤ buf.length) :
    (memset buf off v n).take (off + n) = buf.take off ++ List.replicate n v := by
  have := memcpy_take buf off (List.replicate n v) h
  rw [List.length_replicate] at this; exact this

theorem take_replicate_le {α : Type} (a : α) (k m : Nat) (h : k ≤ m) :
    (List.replicate m a).take k = List.replicate k a := by
  rw [List.take_replicate, Nat.min_eq_left h]

/-- length normalisation that never unfolds a `List.replicate <literal>` -/
local macro "len_simp" : tactic =>
  `(tactic| simp only [List.length_append, List.length_replicate, List.length_cons, List.length_nil,
      List.length_take, natBE_length])

/-- `MH_SHA1_TAIL_FUNCTION`: whatever lies behind the valid prefix of the buffer, the interim digests
    end up having absorbed the valid prefix followed by the SHA-style padding for `total_len` (one or
    two 1024-byte blocks), and `digests[]` is `sha1_for_mh_sha1` of their memory image. -/
theorem tail_spec (I : Inner) (blockFn : List (Array UInt32) → Bytes → UInt32 → List (Array UInt32))
    (f : List (Array UInt32) → Bytes → List (Array UInt32)) (hbf : BlockFnIs blockFn f)
    (buf : Bytes) (totalLen : UInt32) (segs : List (Array UInt32)) (hbuf : buf.length = 2048) :
    (tail I blockFn buf totalLen segs).2 =
      ((absorb 1024 f ⟨segs, buf.take (totalLen.toNat % 1024)⟩ (mhPad totalLen.toNat)).dig,
       (shaForMh I (layout I (absorb 1024 f ⟨segs, buf.take (totalLen.toNat % 1024)⟩
          (mhPad totalLen.toNat)).dig) (UInt32.ofNat (4 * I.W * 16))).toList) := by
  have hn := totalLen.toNat_lt
  have hp1 : ((totalLen % 1024).toUInt64).toNat = totalLen.toNat % 1024 := by
    rw [UInt32.toNat_toUInt64, UInt32.toNat_mod]; rfl
  generalize hpe : totalLen.toNat % 1024 = p at hp1 ⊢
  have hp : p < 1024 := by omega
  have hp2 : ((totalLen % 1024).toUInt64 + 1).toNat = p + 1 := by
    rw [UInt64.toNat_add, hp1]; simp; omega
  have hp3 : (1024 - ((totalLen % 1024).toUInt64 + 1)).toNat = 1023 - p := by
    rw [UInt64.toNat_sub_of_le _ _ (by rw [UInt64.le_iff_toNat_le, hp2]; simp; omega), hp2]; simp
  have hone : ∀ (s : List (Array UInt32)) (b : Bytes), b.length = 2048 → blockFn s b 1 = f s (b.take 1024) := by
    intro s b hb; rw [hbf _ _ _ (by rw [hb]; decide) (by rw [hb]; decide)]; simp [blocks]
  have hpart : (buf.take p).length = p := by rw [List.length_take]; omega
  have e1016 : (1024 - 8 : Nat) = 1016 := rfl
  -- the buffer after `partial_buffer[p] = 0x80; memset(partial_buffer + p + 1, 0, 1023 - p)`
  have hb1len : (memcpy buf p [0x80]).length = 2048 := by
    rw [memcpy_length _ _ _ (by len_simp; omega)]; exact hbuf
  have hb2len : (memset (memcpy buf p [0x80]) (p + 1) 0 (1023 - p)).length = 2048 := by
    rw [memset_length _ _ _ _ (by omega)]; exact hb1len
  have hb2 : (memset (memcpy buf p [0x80]) (p + 1) 0 (1023 - p)).take 1024 =
      buf.take p ++ [0x80] ++ List.replicate (1023 - p) 0 := by
    have h1 := memset_take (memcpy buf p [0x80]) (p + 1) 0 (1023 - p) (by omega)
    have h2 := memcpy_take buf p [0x80] (by omega)
    rw [show p + 1 + (1023 - p) = 1024 by omega] at h1
    rw [h1]; rw [show p + [(0x80 : UInt8)].length = p + 1 by rfl] at h2; rw [h2]
  have hlen := lenInBit totalLen
  simp only [tail, hp1, hp2, hp3, e1016, mhPad]
  split
  · -- two blocks
    rename_i hgt
    have hgt' : 1016 < p + 1 := by
      have := UInt64.lt_iff_toNat_lt.mp hgt
      rw [hp2] at this; exact this
    have hz : (memset (memset (memcpy buf p [0x80]) (p + 1) 0 (1023 - p)) 0 0 1024).take 1024
        = List.replicate 1024 0 := by
      have := memset_take (memset (memcpy buf p [0x80]) (p + 1) 0 (1023 - p)) 0 0 1024 (by omega)
      rw [Nat.zero_add, List.take_zero, List.nil_append] at this; exact this
    have hzlen : (memset (memset (memcpy buf p [0x80]) (p + 1) 0 (1023 - p)) 0 0 1024).length = 2048 := by
      rw [memset_length _ _ _ _ (by omega)]; exact hb2len
    have hb4 : (memcpy (memset (memset (memcpy buf p [0x80]) (p + 1) 0 (1023 - p)) 0 0 1024) 1016
        (bytesBE64 (totalLen.toUInt64 * 8))).take 1024 = List.replicate 1016 0 ++ natBE 8 (8 * totalLen.toNat) := by
      have := memcpy_take (memset (memset (memcpy buf p [0x80]) (p + 1) 0 (1023 - p)) 0 0 1024) 1016
        (bytesBE64 (totalLen.toUInt64 * 8)) (by omega)
      rw [hlen, natBE_length] at this
      have this' : (memcpy (memset (memset (memcpy buf p [0x80]) (p + 1) 0 (1023 - p)) 0 0 1024) 1016
          (natBE 8 (8 * totalLen.toNat))).take 1024 = _ := this
      rw [hlen, this', take_of_take _ 1016 1024 (by omega), hz, take_replicate_le _ _ _ (by omega)]
    have hpad := pad_two 1024 totalLen.toNat (buf.take p) (by rw [hpart]; omega)
    rw [hpart, show 1024 - p - 1 = 1023 - p by omega, e1016] at hpad
    rw [absorb_two f segs _ _ _ _ hpad (by len_simp; omega) (by len_simp)]
    have hb4len : (memcpy (memset (memset (memcpy buf p [0x80]) (p + 1) 0 (1023 - p)) 0 0 1024) 1016
        (bytesBE64 (totalLen.toUInt64 * 8))).length = 2048 := by
      rw [memcpy_length _ _ _ (by rw [hlen, natBE_length, hzlen]; decide), hzlen]
    simp only [hone _ _ hb2len, hone _ _ hb4len, hb2, hb4]
  · -- one block
    rename_i hle
    have hle' : p + 1 ≤ 1016 := by
      have : ¬ ((1024 - 8 : UInt64).toNat < ((totalLen % 1024).toUInt64 + 1).toNat) :=
        fun h => hle (UInt64.lt_iff_toNat_lt.mpr h)
      rw [hp2] at this
      have e : (1024 - 8 : UInt64).toNat = 1016 := rfl
      omega
    have hb4 : (memcpy (memset (memcpy buf p [0x80]) (p + 1) 0 (1023 - p)) 1016
        (bytesBE64 (totalLen.toUInt64 * 8))).take 1024 =
        buf.take p ++ [0x80] ++ List.replicate (1015 - p) 0 ++ natBE 8 (8 * totalLen.toNat) := by
      have := memcpy_take (memset (memcpy buf p [0x80]) (p + 1) 0 (1023 - p)) 1016
        (bytesBE64 (totalLen.toUInt64 * 8)) (by omega)
      rw [hlen, natBE_length] at this
      have this' : (memcpy (memset (memcpy buf p [0x80]) (p + 1) 0 (1023 - p)) 1016
          (natBE 8 (8 * totalLen.toNat))).take 1024 = _ := this
      have hmin : min (1016 - (buf.take p ++ [0x80]).length) (1023 - p) = 1015 - p := by len_simp; omega
      rw [hlen, this', take_of_take _ 1016 1024 (by omega), hb2, List.take_append,
        List.take_of_length_le (by len_simp; omega), List.take_replicate, hmin]
    have hpad := pad_one 1024 totalLen.toNat (buf.take p) (by rw [hpart]; omega)
    rw [hpart, show 1024 - p - 9 = 1015 - p by omega] at hpad
    rw [absorb_one f segs _ _ _ hpad (by len_simp; omega)]
    have hb4len : (memcpy (memset (memcpy buf p [0x80]) (p + 1) 0 (1023 - p)) 1016
        (bytesBE64 (totalLen.toUInt64 * 8))).length = 2048 := by
      rw [memcpy_length _ _ _ (by rw [hlen, natBE_length, hb2len]; decide), hb2len]
    simp only [hone _ _ hb4len, hb4]

end IsalVerif.Mh
