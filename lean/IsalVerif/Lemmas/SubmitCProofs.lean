import IsalVerif.Impl.SubmitC
/-! What the bookkeeping prefix of `_<alg>_ctx_mgr_submit_<family>` computes, and that this is the model's
    `rejects` / `accepted` (the scalar part of `HashMB.ctxSubmit`). -/
namespace IsalVerif.SubmitC
open IsalVerif.HashMB

theorem and_shift (x m k : Nat) : x &&& (m <<< k) = ((x >>> k) &&& m) <<< k := by
  apply Nat.eq_of_testBit_eq
  intro i
  simp only [Nat.testBit_and, Nat.testBit_shiftLeft, Nat.testBit_shiftRight]
  by_cases h : k ≤ i
  · simp [h, Nat.add_sub_cancel' h]
  · simp [h]

theorem and_fffc (x : Nat) (h : x < 2^32) : x &&& 4294967292 = x / 4 * 4 := by
  have : (4294967292 : Nat) = (2^30 - 1) <<< 2 := by decide
  rw [this, and_shift, Nat.and_two_pow_sub_one_eq_mod, Nat.shiftRight_eq_div_pow, Nat.shiftLeft_eq]
  have : x / 2^2 % 2^30 = x / 2^2 := Nat.mod_eq_of_lt (by omega)
  rw [this]

theorem and_one (x : Nat) : x &&& 1 = x % 2 := Nat.and_two_pow_sub_one_eq_mod x 1
theorem and_two (x : Nat) : x &&& 2 = x / 2 % 2 * 2 := by
  have h := and_shift x (2^1 - 1) 1
  rw [Nat.and_two_pow_sub_one_eq_mod, Nat.shiftRight_eq_div_pow, Nat.shiftLeft_eq, Nat.shiftLeft_eq] at h
  simpa using h
theorem and_four (x : Nat) : x &&& 4 = x / 4 % 2 * 4 := by
  have h := and_shift x (2^1 - 1) 2
  rw [Nat.and_two_pow_sub_one_eq_mod, Nat.shiftRight_eq_div_pow, Nat.shiftLeft_eq, Nat.shiftLeft_eq] at h
  simpa using h

/-- the accepted-path result of the prefix -/
def acceptSt (fl ln : Nat) (s : St) : St :=
  { error := 0,
    status := if fl / 2 % 2 = 1 then 3 else 1,
    total := ((if fl % 2 = 1 then 0 else s.total) + ln) % 2^64,
    plen := if fl % 2 = 1 then 0 else s.plen,
    inlen := ln, inptr := true, dig := s.dig || decide (fl % 2 = 1) }

/-- what a prefix must compute -/
def PrefixSpec (fl ln : Nat) (s : St) (o : Out) : Prop :=
  o.bad = false ∧
  (if fl / 4 ≠ 0 then o.returned = true ∧ o.s = { s with error := -1 }
   else if s.status % 2 = 1 then o.returned = true ∧ o.s = { s with error := -2 }
   else if s.status / 4 % 2 = 1 ∧ fl % 2 = 0 then o.returned = true ∧ o.s = { s with error := -3 }
   else o.returned = false ∧ o.s = acceptSt fl ln s)

/-- **what the prefix of today's source computes**, for every flags word, length and context state -/
theorem canon_run (fl ln : Nat) (hf : fl < 2^32) (hl : ln < 2^32) (s : St)
    (hst : s.status < 2^32) (ht : s.total < 2^64) (hp : s.plen < 2^32) :
    PrefixSpec fl ln s (run canon fl ln s) := by
  have hfm : fl % 4294967296 = fl := Nat.mod_eq_of_lt (by simpa using hf)
  have hsm : s.status % 4294967296 = s.status := Nat.mod_eq_of_lt (by simpa using hst)
  have e1 : (X.and .flags (.lit 4294967292)).eval fl ln s = fl / 4 * 4 := by
    simp only [X.eval, Nat.reducePow, Nat.reduceMod, hfm, and_fffc _ hf]
  have e2 : ∀ s' : St, s'.status = s.status → (X.and (.fld .status) (.lit 1)).eval fl ln s' = s.status % 2 := by
    intro s' h
    simp only [X.eval, Nat.reducePow, Nat.reduceMod, h, hsm, and_one]
  have e3 : ∀ s' : St, s'.status = s.status →
      (X.land (.and (.fld .status) (.lit 4)) (.lnot (.and .flags (.lit 1)))).eval fl ln s' =
        b2n (s.status / 4 % 2 = 1 ∧ fl % 2 = 0) := by
    intro s' h
    simp only [X.eval, Nat.reducePow, Nat.reduceMod, h, hsm, hfm, and_four, and_one]
    have : (s.status / 4 % 2 * 4 ≠ 0 ∧ b2n (fl % 2 = 0) ≠ 0) ↔ (s.status / 4 % 2 = 1 ∧ fl % 2 = 0) := by
      unfold b2n; constructor
      · rintro ⟨h1, h2⟩; split at h2 <;> simp_all <;> omega
      · rintro ⟨h1, h2⟩; simp [h1, h2]
    simp only [this]
  have e4 : ∀ s' : St, (X.and .flags (.lit 1)).eval fl ln s' = fl % 2 := by
    intro s'
    simp only [X.eval, Nat.reducePow, Nat.reduceMod, hfm, and_one]
  have e5 : ∀ s' : St, (X.ite (.and .flags (.lit 2)) (.lit 3) (.lit 1)).eval fl ln s' = if fl / 2 % 2 = 1 then 3 else 1 := by
    intro s'
    simp only [X.eval, Nat.reducePow, Nat.reduceMod, hfm, and_two]
    by_cases h : fl / 2 % 2 = 1
    · simp [h]
    · have : fl / 2 % 2 = 0 := by omega
      simp [this]
  -- generic facts about the fold
  have hret : ∀ (ps : List P) (o : Out), o.returned = true → ps.foldl (step fl ln) o = o := by
    intro ps; induction ps with
    | nil => intro o _; rfl
    | cons p ps ih => intro o h; rw [List.foldl_cons]; have : step fl ln o p = o := by simp [step, h]
                      rw [this]; exact ih o h
  unfold run canon
  -- first test
  have s1 : step fl ln { s := s } (.rej (.and .flags (.lit 4294967292)) (-1)) =
      if fl / 4 * 4 ≠ 0 then ⟨{ s with error := -1 }, true, false⟩ else { s := s } := by
    simp only [step, e1]; rfl
  rw [List.foldl_cons, s1]
  by_cases c1 : fl / 4 ≠ 0
  · have : fl / 4 * 4 ≠ 0 := by omega
    rw [if_pos this, hret _ _ rfl]; unfold PrefixSpec; rw [if_pos c1]
    exact ⟨rfl, rfl, rfl⟩
  · have c1' : ¬ (fl / 4 * 4 ≠ 0) := by omega
    rw [if_neg c1']; unfold PrefixSpec; rw [if_neg c1]
    have s2 : step fl ln { s := s } (.rej (.and (.fld .status) (.lit 1)) (-2)) =
        if s.status % 2 ≠ 0 then ⟨{ s with error := -2 }, true, false⟩ else { s := s } := by
      simp only [step, e2 s rfl]; rfl
    rw [List.foldl_cons, s2]
    by_cases c2 : s.status % 2 = 1
    · have : s.status % 2 ≠ 0 := by omega
      rw [if_pos this, hret _ _ rfl, if_pos c2]
      exact ⟨rfl, rfl, rfl⟩
    · have c2' : ¬ (s.status % 2 ≠ 0) := by omega
      rw [if_neg c2', if_neg c2]
      have s3 : step fl ln { s := s }
          (.rej (.land (.and (.fld .status) (.lit 4)) (.lnot (.and .flags (.lit 1)))) (-3)) =
          if b2n (s.status / 4 % 2 = 1 ∧ fl % 2 = 0) ≠ 0 then ⟨{ s with error := -3 }, true, false⟩
          else { s := s } := by
        simp only [step, e3 s rfl]; rfl
      rw [List.foldl_cons, s3]
      by_cases c3 : s.status / 4 % 2 = 1 ∧ fl % 2 = 0
      · have : b2n (s.status / 4 % 2 = 1 ∧ fl % 2 = 0) ≠ 0 := by simp [b2n, c3]
        rw [if_pos this, hret _ _ rfl, if_pos c3]
        exact ⟨rfl, rfl, rfl⟩
      · have c3' : ¬ (b2n (s.status / 4 % 2 = 1 ∧ fl % 2 = 0) ≠ 0) := by simp [b2n, c3]
        rw [if_neg c3', if_neg c3]
        -- accepted path: eight plain steps, one at a time
        have hstat3 : (3 : Nat) % 4294967296 = 3 := by decide
        have hstat1 : (1 : Nat) % 4294967296 = 1 := by decide
        have hlm : ln % 4294967296 = ln := Nat.mod_eq_of_lt (by simpa using hl)
        have htm : s.total % 18446744073709551616 = s.total := Nat.mod_eq_of_lt (by simpa using ht)
        have v0 : ∀ st : St, (X.lit 0).eval fl ln st = 0 := fun _ => rfl
        have vl : ∀ st : St, X.len.eval fl ln st = ln := by intro st; simp only [X.eval, Nat.reducePow, hlm]
        have va : ∀ st : St, (X.add (.fld .total) .len).eval fl ln st = (st.total % 2^64 + ln) % 2^64 := by
          intro st; simp only [X.eval, Nat.reducePow, hlm]
        by_cases c4 : fl % 2 = 1
        · have n1 : (1 : Nat) ≠ 0 := by decide
          rw [List.foldl_cons]; simp only [step, Bool.or_self, Bool.false_eq_true, if_false, e4, c4, n1, if_true, ne_eq,
            not_false_eq_true]
          rw [List.foldl_cons]; simp only [step, Bool.or_self, Bool.false_eq_true, if_false, e4, c4, n1, if_true, ne_eq,
            not_false_eq_true, St.put, v0]
          rw [List.foldl_cons]; simp only [step, Bool.or_self, Bool.false_eq_true, if_false, e4, c4, n1, if_true, ne_eq,
            not_false_eq_true, St.put, v0]
          rw [List.foldl_cons]; simp only [step, Bool.or_self, Bool.false_eq_true, if_false]
          rw [List.foldl_cons]; simp only [step, Bool.or_self, Bool.false_eq_true, if_false]
          rw [List.foldl_cons]; simp only [step, Bool.or_self, Bool.false_eq_true, if_false, St.put, vl]
          rw [List.foldl_cons]; simp only [step, Bool.or_self, Bool.false_eq_true, if_false, St.put, e5]
          rw [List.foldl_cons]; simp only [step, Bool.or_self, Bool.false_eq_true, if_false, St.put, va]
          rw [List.foldl_cons, List.foldl_cons, List.foldl_nil]
          simp only [step, Bool.or_self, Bool.false_eq_true, if_false]
          refine ⟨by first | rfl | trivial, by first | rfl | trivial, ?_⟩
          simp only [acceptSt, c4, if_true, Nat.reducePow, Nat.reduceMod, Nat.zero_mod, Nat.zero_add, hlm, decide_true,
            Bool.or_true]
          congr 1
          · split <;> rfl
          · omega
        · have c4' : fl % 2 = 0 := by omega
          have n0 : ¬ ((0 : Nat) ≠ 0) := by decide
          rw [List.foldl_cons]; simp only [step, Bool.or_self, Bool.false_eq_true, if_false, e4, c4', n0]
          rw [List.foldl_cons]; simp only [step, Bool.or_self, Bool.false_eq_true, if_false, e4, c4', n0]
          rw [List.foldl_cons]; simp only [step, Bool.or_self, Bool.false_eq_true, if_false, e4, c4', n0]
          rw [List.foldl_cons]; simp only [step, Bool.or_self, Bool.false_eq_true, if_false]
          rw [List.foldl_cons]; simp only [step, Bool.or_self, Bool.false_eq_true, if_false]
          rw [List.foldl_cons]; simp only [step, Bool.or_self, Bool.false_eq_true, if_false, St.put, vl]
          rw [List.foldl_cons]; simp only [step, Bool.or_self, Bool.false_eq_true, if_false, St.put, e5]
          rw [List.foldl_cons]; simp only [step, Bool.or_self, Bool.false_eq_true, if_false, St.put, va]
          rw [List.foldl_cons, List.foldl_cons, List.foldl_nil]
          simp only [step, Bool.or_self, Bool.false_eq_true, if_false]
          refine ⟨by first | rfl | trivial, by first | rfl | trivial, ?_⟩
          simp only [acceptSt, c4, if_false, Nat.reducePow, hlm, htm, decide_false, Bool.or_false]
          congr 1
          · split <;> rfl
          · omega


/-! ### refinement: the prefix computes the scalar part of the model's `ctxSubmit` -/
variable {D : Type}

/-- the C status word of a model context (`ISAL_HASH_CTX_STS`: PROCESSING = 1, LAST = 2, COMPLETE = 4) -/
def stw (x : Ctx D) : Nat :=
  (if x.processing then 1 else 0) + (if x.last then 2 else 0) + (if x.complete then 4 else 0)

/-- scalar abstraction of a model context -/
def absSt (x : Ctx D) (inptr dig : Bool) : St :=
  { error := x.error, status := stw x, total := x.total, plen := x.part.length, inlen := x.incoming.length,
    inptr := inptr, dig := dig }

/-- **C11 / C15 at the source level**: run on the abstraction of any model context, the prefix of today's source
    takes exactly the branch `HashMB.ctxSubmit` takes; on a rejection it changes the error field and nothing else;
    on acceptance it leaves the scalars of `HashMB.accepted` (error cleared, status, `total_length` advanced modulo
    2^64 after the FIRST reset, partial length, incoming length). -/
theorem prefix_refines (A : Alg D) (x : Ctx D) (data : Bytes) (flags : Nat) (b0 b1 : Bool)
    (hf : flags < 2^32) (hl : data.length < 2^32) (ht : x.total < 2^64) (hp : x.part.length < 2^32) :
    (run canon flags data.length (absSt x b0 b1)).bad = false ∧
    (if flags / 4 ≠ 0 then
       (run canon flags data.length (absSt x b0 b1)).returned = true ∧
       (run canon flags data.length (absSt x b0 b1)).s = absSt { x with error := errInvalidFlags } b0 b1
     else if x.processing then
       (run canon flags data.length (absSt x b0 b1)).returned = true ∧
       (run canon flags data.length (absSt x b0 b1)).s = absSt { x with error := errAlreadyProcessing } b0 b1
     else if x.complete ∧ flags % 2 = 0 then
       (run canon flags data.length (absSt x b0 b1)).returned = true ∧
       (run canon flags data.length (absSt x b0 b1)).s = absSt { x with error := errAlreadyCompleted } b0 b1
     else
       (run canon flags data.length (absSt x b0 b1)).returned = false ∧
       (run canon flags data.length (absSt x b0 b1)).s =
         absSt (accepted A x data flags) true (b1 || decide (flags % 2 = 1))) := by
  have hst : (absSt x b0 b1).status < 2^32 := by
    simp only [absSt, stw]; cases x.processing <;> cases x.last <;> cases x.complete <;> decide
  have h := canon_run flags data.length hf hl (absSt x b0 b1) hst ht hp
  unfold PrefixSpec at h
  obtain ⟨hb, h⟩ := h
  refine ⟨hb, ?_⟩
  have p1 : (absSt x b0 b1).status % 2 = 1 ↔ x.processing = true := by
    simp only [absSt, stw]; cases x.processing <;> cases x.last <;> cases x.complete <;> decide
  have p2 : (absSt x b0 b1).status / 4 % 2 = 1 ↔ x.complete = true := by
    simp only [absSt, stw]; cases x.processing <;> cases x.last <;> cases x.complete <;> decide
  by_cases c1 : flags / 4 ≠ 0
  · rw [if_pos c1] at h ⊢; exact h
  · rw [if_neg c1] at h ⊢
    by_cases c2 : x.processing = true
    · rw [if_pos (p1.mpr c2)] at h; rw [if_pos c2]; exact h
    · rw [if_neg (fun hh => c2 (p1.mp hh))] at h; rw [if_neg c2]
      by_cases c3 : x.complete = true ∧ flags % 2 = 0
      · rw [if_pos ⟨p2.mpr c3.1, c3.2⟩] at h; rw [if_pos c3]; exact h
      · rw [if_neg (fun hh => c3 ⟨p2.mp hh.1, hh.2⟩)] at h; rw [if_neg c3]
        refine ⟨h.1, ?_⟩
        rw [h.2]
        simp only [acceptSt, absSt, accepted, stw]
        by_cases c4 : flags % 2 = 1
        · by_cases c5 : flags / 2 % 2 = 1 <;> simp [c4, c5]
        · by_cases c5 : flags / 2 % 2 = 1 <;> simp [c4, c5]

end IsalVerif.SubmitC

namespace IsalVerif.SubmitC

/-- computable form of `PrefixSpec` (used by the witness search of the check when a translated prefix is no longer
    the proved one, and to state the obligation over the generated table as one equation) -/
def specRun (fl ln : Nat) (s : St) : Out :=
  if fl / 4 ≠ 0 then ⟨{ s with error := -1 }, true, false⟩
  else if s.status % 2 = 1 then ⟨{ s with error := -2 }, true, false⟩
  else if s.status / 4 % 2 = 1 ∧ fl % 2 = 0 then ⟨{ s with error := -3 }, true, false⟩
  else ⟨acceptSt fl ln s, false, false⟩

theorem canon_run_eq (fl ln : Nat) (hf : fl < 2^32) (hl : ln < 2^32) (s : St)
    (hst : s.status < 2^32) (ht : s.total < 2^64) (hp : s.plen < 2^32) :
    run canon fl ln s = specRun fl ln s := by
  have h := canon_run fl ln hf hl s hst ht hp
  unfold PrefixSpec at h
  obtain ⟨hb, h⟩ := h
  unfold specRun
  generalize run canon fl ln s = o at *
  obtain ⟨os, oret, obad⟩ := o
  simp only at hb h
  subst hb
  by_cases c1 : fl / 4 ≠ 0
  · rw [if_pos c1] at h ⊢; obtain ⟨h1, h2⟩ := h; subst h1; subst h2; rfl
  · rw [if_neg c1] at h ⊢
    by_cases c2 : s.status % 2 = 1
    · rw [if_pos c2] at h ⊢; obtain ⟨h1, h2⟩ := h; subst h1; subst h2; rfl
    · rw [if_neg c2] at h ⊢
      by_cases c3 : s.status / 4 % 2 = 1 ∧ fl % 2 = 0
      · rw [if_pos c3] at h ⊢; obtain ⟨h1, h2⟩ := h; subst h1; subst h2; rfl
      · rw [if_neg c3] at h ⊢; obtain ⟨h1, h2⟩ := h; subst h1; subst h2; rfl

/-- boundary grid for the witness search: (flags, len, status, total, plen); `reach = true` keeps to states a
    context can be in (status IDLE / PROCESSING / PROCESSING|LAST / COMPLETE / PROCESSING|COMPLETE, partial length
    below one block) and to lengths a test buffer can have, so that the witness can be replayed on the real function -/
def grid (reach : Bool) : List (Nat × Nat × Nat × Nat × Nat) :=
  let fls := [0, 1, 2, 3, 4, 8, 256, 65536, 2147483648, 2147483649, 4294967295]
  let lns := if reach then [0, 1, 63, 64, 65, 200] else [0, 1, 63, 64, 65, 200, 4294967295]
  let sts := if reach then [0, 4, 1, 3, 5] else [0, 1, 2, 3, 4, 5, 6, 7]
  let tots := [0, 1, 100, 536870911, 536870912, 4294967295, 4294967296, 4294967301, 1152921504606846976,
               18446744073709551615]
  let pls := if reach then [0, 1, 63] else [0, 1, 63, 127]
  fls.flatMap fun fl => lns.flatMap fun ln => sts.flatMap fun st => tots.flatMap fun tot => pls.map fun pl =>
    (fl, ln, st, tot, pl)

/-- first grid point on which a translated prefix and the specification differ -/
def findWitness (reach : Bool) (prog : List P) : Option (Nat × Nat × Nat × Nat × Nat) :=
  (grid reach).find? fun (fl, ln, st, tot, pl) =>
    let s : St := { error := 7, status := st, total := tot, plen := pl, inlen := 9, inptr := false, dig := false }
    let o := run prog fl ln s
    let e := specRun fl ln s
    !(o.bad == e.bad && o.returned == e.returned && decide (o.s = e.s))

end IsalVerif.SubmitC

/-! ### the base family's prefix (`_<alg>_ctx_mgr_submit_base`) -/
namespace IsalVerif.SubmitC
open IsalVerif.HashMB

/-- what the base-family prefix must compute -/
def BasePrefixSpec (fl : Nat) (s : St) (o : Out) : Prop :=
  o.bad = false ∧
  (if fl / 4 ≠ 0 then o.returned = true ∧ o.s = { s with error := -1 }
   else if s.status % 2 = 1 ∧ fl = 3 then o.returned = true ∧ o.s = { s with error := -2 }
   else if s.status / 4 % 2 = 1 ∧ fl % 2 = 0 then o.returned = true ∧ o.s = { s with error := -3 }
   else o.returned = false ∧ o.s = { s with error := 0 })

theorem canonBase_run (fl ln : Nat) (hf : fl < 2^32) (s : St) (hst : s.status < 2^32) :
    BasePrefixSpec fl s (run canonBase fl ln s) := by
  have hfm : fl % 4294967296 = fl := Nat.mod_eq_of_lt (by simpa using hf)
  have hsm : s.status % 4294967296 = s.status := Nat.mod_eq_of_lt (by simpa using hst)
  have e1 : (X.and .flags (.lit 4294967292)).eval fl ln s = fl / 4 * 4 := by
    simp only [X.eval, Nat.reducePow, Nat.reduceMod, hfm, and_fffc _ hf]
  have e2 : (X.land (.and (.fld .status) (.lit 1)) (.eq .flags (.lit 3))).eval fl ln s =
      b2n (s.status % 2 = 1 ∧ fl = 3) := by
    simp only [X.eval, Nat.reducePow, Nat.reduceMod, hsm, hfm, and_one]
    have : (s.status % 2 ≠ 0 ∧ b2n (fl = 3) ≠ 0) ↔ (s.status % 2 = 1 ∧ fl = 3) := by
      unfold b2n; constructor
      · rintro ⟨h1, h2⟩; split at h2 <;> simp_all <;> omega
      · rintro ⟨h1, h2⟩; simp [h1, h2]
    simp only [this]
  have e3 : (X.land (.and (.fld .status) (.lit 4)) (.lnot (.and .flags (.lit 1)))).eval fl ln s =
      b2n (s.status / 4 % 2 = 1 ∧ fl % 2 = 0) := by
    simp only [X.eval, Nat.reducePow, Nat.reduceMod, hsm, hfm, and_four, and_one]
    have : (s.status / 4 % 2 * 4 ≠ 0 ∧ b2n (fl % 2 = 0) ≠ 0) ↔ (s.status / 4 % 2 = 1 ∧ fl % 2 = 0) := by
      unfold b2n; constructor
      · rintro ⟨h1, h2⟩; split at h2 <;> simp_all <;> omega
      · rintro ⟨h1, h2⟩; simp [h1, h2]
    simp only [this]
  have hret : ∀ (ps : List P) (o : Out), o.returned = true → ps.foldl (step fl ln) o = o := by
    intro ps; induction ps with
    | nil => intro o _; rfl
    | cons p ps ih => intro o h; rw [List.foldl_cons]; have : step fl ln o p = o := by simp [step, h]
                      rw [this]; exact ih o h
  unfold run canonBase
  have s1 : step fl ln { s := s } (.rej (.and .flags (.lit 4294967292)) (-1)) =
      if fl / 4 * 4 ≠ 0 then ⟨{ s with error := -1 }, true, false⟩ else { s := s } := by
    simp only [step, e1]; rfl
  rw [List.foldl_cons, s1]
  by_cases c1 : fl / 4 ≠ 0
  · have : fl / 4 * 4 ≠ 0 := by omega
    rw [if_pos this, hret _ _ rfl]; unfold BasePrefixSpec; rw [if_pos c1]
    exact ⟨rfl, rfl, rfl⟩
  · have c1' : ¬ (fl / 4 * 4 ≠ 0) := by omega
    rw [if_neg c1']; unfold BasePrefixSpec; rw [if_neg c1]
    have s2 : step fl ln { s := s } (.rej (.land (.and (.fld .status) (.lit 1)) (.eq .flags (.lit 3))) (-2)) =
        if b2n (s.status % 2 = 1 ∧ fl = 3) ≠ 0 then ⟨{ s with error := -2 }, true, false⟩ else { s := s } := by
      simp only [step, e2]; rfl
    rw [List.foldl_cons, s2]
    by_cases c2 : s.status % 2 = 1 ∧ fl = 3
    · have : b2n (s.status % 2 = 1 ∧ fl = 3) ≠ 0 := by simp [b2n, c2]
      rw [if_pos this, hret _ _ rfl, if_pos c2]
      exact ⟨rfl, rfl, rfl⟩
    · have c2' : ¬ (b2n (s.status % 2 = 1 ∧ fl = 3) ≠ 0) := by simp [b2n, c2]
      rw [if_neg c2', if_neg c2]
      have s3 : step fl ln { s := s }
          (.rej (.land (.and (.fld .status) (.lit 4)) (.lnot (.and .flags (.lit 1)))) (-3)) =
          if b2n (s.status / 4 % 2 = 1 ∧ fl % 2 = 0) ≠ 0 then ⟨{ s with error := -3 }, true, false⟩
          else { s := s } := by
        simp only [step, e3]; rfl
      rw [List.foldl_cons, s3]
      by_cases c3 : s.status / 4 % 2 = 1 ∧ fl % 2 = 0
      · have : b2n (s.status / 4 % 2 = 1 ∧ fl % 2 = 0) ≠ 0 := by simp [b2n, c3]
        rw [if_pos this, hret _ _ rfl, if_pos c3]
        exact ⟨rfl, rfl, rfl⟩
      · have c3' : ¬ (b2n (s.status / 4 % 2 = 1 ∧ fl % 2 = 0) ≠ 0) := by simp [b2n, c3]
        rw [if_neg c3', if_neg c3]
        simp only [List.foldl_cons, List.foldl_nil, step, Bool.or_self, Bool.false_eq_true, if_false]
        exact ⟨by first | rfl | trivial, by first | rfl | trivial, by first | rfl | trivial⟩

/-- the rejections of the base prefix are the model's `baseRejects` -/
theorem base_prefix_refines {D : Type} (x : Ctx D) (flags ln : Nat) (b0 b1 : Bool) (hf : flags < 2^32) :
    (run canonBase flags ln (absSt x b0 b1)).bad = false ∧
    ((run canonBase flags ln (absSt x b0 b1)).returned = baseRejects x flags) ∧
    (baseRejects x flags = false → (run canonBase flags ln (absSt x b0 b1)).s = absSt { x with error := 0 } b0 b1) ∧
    (baseRejects x flags = true → ∃ code, code ≠ 0 ∧
        (run canonBase flags ln (absSt x b0 b1)).s = absSt { x with error := code } b0 b1) := by
  have hst : (absSt x b0 b1).status < 2^32 := by
    simp only [absSt, stw]; cases x.processing <;> cases x.last <;> cases x.complete <;> decide
  have h := canonBase_run flags ln hf (absSt x b0 b1) hst
  unfold BasePrefixSpec at h
  obtain ⟨hb, h⟩ := h
  have p1 : (absSt x b0 b1).status % 2 = 1 ↔ x.processing = true := by
    simp only [absSt, stw]; cases x.processing <;> cases x.last <;> cases x.complete <;> decide
  have p2 : (absSt x b0 b1).status / 4 % 2 = 1 ↔ x.complete = true := by
    simp only [absSt, stw]; cases x.processing <;> cases x.last <;> cases x.complete <;> decide
  refine ⟨hb, ?_⟩
  unfold baseRejects
  by_cases c1 : flags / 4 ≠ 0
  · rw [if_pos c1] at h
    refine ⟨by rw [h.1]; simp [c1], by simp [c1], fun _ => ⟨-1, by decide, h.2⟩⟩
  · rw [if_neg c1] at h
    have c1' : flags / 4 = 0 := by omega
    by_cases c2 : (absSt x b0 b1).status % 2 = 1 ∧ flags = 3
    · rw [if_pos c2] at h
      have hp := p1.mp c2.1
      refine ⟨by rw [h.1]; simp [hp, c2.2], by simp [hp, c2.2], fun _ => ⟨-2, by decide, h.2⟩⟩
    · rw [if_neg c2] at h
      have c2' : ¬ (x.processing = true ∧ flags = 3) := fun hh => c2 ⟨p1.mpr hh.1, hh.2⟩
      by_cases c3 : (absSt x b0 b1).status / 4 % 2 = 1 ∧ flags % 2 = 0
      · rw [if_pos c3] at h
        have hc := p2.mp c3.1
        refine ⟨by rw [h.1]; simp [hc, c3.2], by simp [hc, c3.2], fun _ => ⟨-3, by decide, h.2⟩⟩
      · rw [if_neg c3] at h
        have c3' : ¬ (x.complete = true ∧ flags % 2 = 0) := fun hh => c3 ⟨p2.mpr hh.1, hh.2⟩
        have hA : (x.processing && decide (flags = 3)) = false := by
          cases hp : x.processing with
          | false => rfl
          | true => simp only [Bool.true_and, decide_eq_false_iff_not]; intro hf3; exact c2' ⟨hp, hf3⟩
        have hBc : (x.complete && decide (flags % 2 = 0)) = false := by
          cases hc : x.complete with
          | false => rfl
          | true => simp only [Bool.true_and, decide_eq_false_iff_not]; intro hf2; exact c3' ⟨hc, hf2⟩
        have hrej : (decide (flags / 4 ≠ 0) || (x.processing && decide (flags = 3)) || (x.complete && decide (flags % 2 = 0))) = false := by
          rw [hA, hBc]; simp [c1']
        refine ⟨by rw [h.1, hrej], fun _ => h.2, fun hh => by rw [hrej] at hh; cases hh⟩

end IsalVerif.SubmitC
