import IsalVerif.Spec.Bits
/-! The two bit-level facts behind `Block128` ↔ bytes: `be64 (bytesBE64 w) = w` (checked bit by bit) and
    `(a <<< 8) ||| b = (a <<< 8) ^^^ b` for a zero-extended byte `b`.  Core Lean only. -/
namespace IsalVerif

theorem or_eq_xor_byte (a : UInt64) (b : UInt8) : (a <<< 8) ||| b.toUInt64 = (a <<< 8) ^^^ b.toUInt64 := by
  apply UInt64.eq_of_toBitVec_eq
  simp only [UInt64.toBitVec_or, UInt64.toBitVec_xor, UInt64.toBitVec_shiftLeft, UInt8.toBitVec_toUInt64]
  apply BitVec.eq_of_getLsbD_eq
  intro i hi
  simp only [BitVec.getLsbD_or, BitVec.getLsbD_xor, BitVec.getLsbD_setWidth]
  by_cases h8 : i < 8
  · simp [h8]
  · have : b.toBitVec.getLsbD i = false := BitVec.getLsbD_of_ge _ _ (by omega)
    simp [this]

set_option maxRecDepth 4000 in
/-- big-endian decoding undoes big-endian encoding (checked bit by bit) -/
theorem be64_bytesBE64 (w : UInt64) : be64 (bytesBE64 w) = w := by
  apply UInt64.eq_of_toBitVec_eq
  simp only [be64, bytesBE64, List.foldl_cons, List.foldl_nil, UInt64.toBitVec_or, UInt64.toBitVec_shiftLeft,
    UInt8.toBitVec_toUInt64, UInt64.toBitVec_toUInt8, UInt64.toBitVec_shiftRight]
  apply BitVec.eq_of_getLsbD_eq
  intro i hi
  simp [BitVec.getLsbD_or, BitVec.getLsbD_shiftLeft, BitVec.getLsbD_setWidth, BitVec.getLsbD_ushiftRight]
  have h : i = 0 ∨ i = 1 ∨ i = 2 ∨ i = 3 ∨ i = 4 ∨ i = 5 ∨ i = 6 ∨ i = 7 ∨ i = 8 ∨ i = 9 ∨ i = 10 ∨ i = 11 ∨ i = 12 ∨ i = 13 ∨ i = 14 ∨ i = 15 ∨ i = 16 ∨ i = 17 ∨ i = 18 ∨ i = 19 ∨ i = 20 ∨ i = 21 ∨ i = 22 ∨ i = 23 ∨ i = 24 ∨ i = 25 ∨ i = 26 ∨ i = 27 ∨ i = 28 ∨ i = 29 ∨ i = 30 ∨ i = 31 ∨ i = 32 ∨ i = 33 ∨ i = 34 ∨ i = 35 ∨ i = 36 ∨ i = 37 ∨ i = 38 ∨ i = 39 ∨ i = 40 ∨ i = 41 ∨ i = 42 ∨ i = 43 ∨ i = 44 ∨ i = 45 ∨ i = 46 ∨ i = 47 ∨ i = 48 ∨ i = 49 ∨ i = 50 ∨ i = 51 ∨ i = 52 ∨ i = 53 ∨ i = 54 ∨ i = 55 ∨ i = 56 ∨ i = 57 ∨ i = 58 ∨ i = 59 ∨ i = 60 ∨ i = 61 ∨ i = 62 ∨ i = 63 := by omega
  rcases h with rfl | rfl | rfl | rfl | rfl | rfl | rfl | rfl | rfl | rfl | rfl | rfl | rfl | rfl | rfl | rfl | rfl | rfl | rfl | rfl | rfl | rfl | rfl | rfl | rfl | rfl | rfl | rfl | rfl | rfl | rfl | rfl | rfl | rfl | rfl | rfl | rfl | rfl | rfl | rfl | rfl | rfl | rfl | rfl | rfl | rfl | rfl | rfl | rfl | rfl | rfl | rfl | rfl | rfl | rfl | rfl | rfl | rfl | rfl | rfl | rfl | rfl | rfl | rfl <;> simp


end IsalVerif
