import IsalVerif.Lemmas.MhProofs
/-! The stitched `mh_sha1_murmur3_x64_128`: the mh_sha1 half is `mh_sha1`, the murmur half is
    MurmurHash3_x64_128 of the whole stream (murmur blocks are consumed 64 at a time by the stitched
    block function, the rest — up to 63 blocks and the tail — by finalize from `partial_block_buffer`). -/
namespace IsalVerif.Mh
open MultiHash Murmur3
variable {α : Type}

/-! ### Blocks of blocks -/

theorem blocks_take_ge (B k j : Nat) (l : List α) (h : k * B ≤ j) : blocks B k (l.take j) = blocks B k l := by
  induction k generalizing l j with
  | zero => simp [blocks]
  | succ k ih =>
    rw [Nat.succ_mul] at h
    simp only [blocks]
    rw [List.take_take, Nat.min_eq_left (by omega), List.drop_take, ih (j - B) _ (by omega)]

/-- 64·n murmur blocks of 16 bytes = n blocks of 1024 bytes, each cut into 64 -/
theorem murBlocks_blocks (n : Nat) (inp : Bytes) (h : UInt64 × UInt64) (hl : n * 1024 ≤ inp.length) :
    (blocks 1024 n inp).foldl (fun h blk => (blocks 16 64 blk).foldl murBlock h) h =
      (blocks 16 (n * 64) inp).foldl murBlock h := by
  induction n generalizing inp h with
  | zero => simp [blocks]
  | succ n ih =>
    rw [Nat.succ_mul] at hl
    have hd : n * 1024 ≤ (inp.drop 1024).length := by
      rw [List.length_drop]; exact Nat.le_sub_of_add_le hl
    have hsplit : inp = inp.take 1024 ++ inp.drop 1024 := (List.take_append_drop _ _).symm
    have htl : (inp.take 1024).length = 64 * 16 := by rw [List.length_take]; omega
    rw [show (n + 1) * 64 = 64 + n * 64 by omega]
    conv => rhs; rw [hsplit, blocks_append_exact 16 64 _ _ _ htl, List.foldl_append]
    rw [blocks_succ 1024 n inp, List.foldl_cons]
    exact ih _ _ hd

/-! ### The stitched block function -/

/-- one 1024-byte block through the stitched block function -/
def stitchedSingle (d : StD) (blk : Bytes) : StD :=
  (blockSingle sha1 d.1 blk, (blocks 16 64 blk).foldl murBlock d.2)

theorem foldl_stitched (bs : List Bytes) (d : StD) :
    bs.foldl stitchedSingle d =
      (bs.foldl (blockSingle sha1) d.1, bs.foldl (fun h blk => (blocks 16 64 blk).foldl murBlock h) d.2) := by
  induction bs generalizing d with
  | nil => rfl
  | cons b bs ih => simp only [List.foldl_cons, ih, stitchedSingle]

theorem stitchedBlockSpec_is : BlockFnIs stitchedBlockSpec stitchedSingle := by
  intro d inp n h1 h2
  have hn : (n * 1024 / 16).toNat = n.toNat * 64 := by
    rw [UInt32.toNat_div, UInt32.toNat_mul]
    simp; omega
  rw [foldl_stitched, murBlocks_blocks _ _ _ h1]
  simp only [stitchedBlockSpec, blockSpec, murmurBlocks, hn]

/-! ### The murmur tail -/

theorem wordsLE64_16 (l : Bytes) (h : l.length = 16) : ∃ a b, wordsLE64 l = [a, b] := by
  rcases l with _ | ⟨b0, _ | ⟨b1, _ | ⟨b2, _ | ⟨b3, _ | ⟨b4, _ | ⟨b5, _ | ⟨b6, _ | ⟨b7, _ | ⟨b8, _ | ⟨b9,
    _ | ⟨b10, _ | ⟨b11, _ | ⟨b12, _ | ⟨b13, _ | ⟨b14, _ | ⟨b15, _ | ⟨b16, l⟩⟩⟩⟩⟩⟩⟩⟩⟩⟩⟩⟩⟩⟩⟩⟩⟩ <;>
    first
    | (exfalso; simp only [List.length_cons, List.length_nil] at h; omega)
    | exact ⟨_, _, rfl⟩

/-- `_murmur3_x64_128_tail` = the reference's tail step followed by its finalisation, on the first
    `total_len % 16` bytes at `tail_buffer`, with `total_len` zero-extended from 32 bits -/
theorem murmurTail_eq (tailBuffer : Bytes) (totalLen : UInt32) (hash : UInt64 × UInt64) :
    murmurTail tailBuffer totalLen hash =
      murFinal (murTail hash (tailBuffer.take (totalLen.toNat % 16))) totalLen.toNat := by
  have hk : ((totalLen % 16).toUInt64).toNat = totalLen.toNat % 16 := by
    rw [UInt32.toNat_toUInt64, UInt32.toNat_mod]; rfl
  have hlt : totalLen.toNat % 16 < 16 := Nat.mod_lt _ (by decide)
  have hL : totalLen.toUInt64 = UInt64.ofNat totalLen.toNat := by
    apply UInt64.toNat_inj.mp
    rw [UInt32.toNat_toUInt64, UInt64.toNat_ofNat']
    have := totalLen.toNat_lt; omega
  simp only [murmurTail, hk]
  generalize totalLen.toNat % 16 = k at hlt
  have htl : (tailBuffer.take k).length ≤ k := by rw [List.length_take]; omega
  generalize tailBuffer.take k = t at htl
  -- the zero-padded 16 bytes
  have hB : memcpy (List.replicate 16 (0 : UInt8)) 0 t = t ++ List.replicate (16 - t.length) 0 := by
    unfold memcpy; rw [List.take_zero, List.nil_append, Nat.zero_add, List.drop_replicate]
  have hlen : (t ++ List.replicate (16 - t.length) (0 : UInt8)).length = 16 := by
    rw [List.length_append, List.length_replicate]; omega
  obtain ⟨a, b, hab⟩ := wordsLE64_16 _ hlen
  have x1 : ∀ (h l d : UInt64), h ^^^ (l ^^^ d) = h ^^^ d ^^^ l := by
    intro h l d; rw [UInt64.xor_comm l d, UInt64.xor_assoc]
  simp only [hB, hab, murFinal, murTail, hL, x1]
  rfl

/-! ### init, updates, finalize -/

theorem blocks_add (B a b : Nat) (l : List α) (h : a * B ≤ l.length) :
    blocks B (a + b) l = blocks B a l ++ blocks B b (l.drop (a * B)) := by
  have hpre : (l.take (a * B)).length = a * B := by rw [List.length_take]; omega
  have := blocks_append_exact B a (l.take (a * B)) (l.drop (a * B)) b hpre
  rw [List.take_append_drop, blocks_take_ge B a (a * B) l (Nat.le_refl _)] at this
  exact this

theorem stitchedInit_buf (seed : UInt64) : (stitchedInit seed).partialBuf.length = 2048 :=
  List.length_replicate ..
theorem stitchedInit_total (seed : UInt64) : (stitchedInit seed).totalLength.toNat = 0 := rfl
theorem stitchedInit_abs (seed : UInt64) :
    absS (stitchedInit seed) = ⟨(List.replicate 16 Sha1.init, (seed, seed)), []⟩ := rfl

/-- **mh_sha1_murmur3_x64_128**: init with a seed, any updates, finalize = (mh_sha1, murmur3) of the
    concatenation. -/
theorem murFinalize_updates (seed : UInt64) (parts : List Bytes) (h : parts.flatten.length < 2 ^ 32) :
    murFinalize (parts.foldl murUpdate (murInit seed)) =
      (mhSha1 parts.flatten, murmur3_x64_128 seed parts.flatten) := by
  obtain ⟨r1, r2, _, r4⟩ := updates_refine stitchedBlockSpec stitchedSingle stitchedBlockSpec_is parts
    (stitchedInit seed) (stitchedInit_buf seed) (by rw [stitchedInit_total]; omega)
  simp only [murUpdate, murInit]
  generalize parts.foldl (update stitchedBlockSpec) (stitchedInit seed) = ctx at r1 r2 r4
  generalize parts.flatten = m at h r1 r4
  rw [stitchedInit_total, Nat.zero_add] at r1
  rw [stitchedInit_abs] at r4
  -- what the context holds after the updates
  have hdm := Nat.div_add_mod m.length 1024
  have hml := Nat.mod_lt m.length (show 0 < 1024 by omega)
  have hint : ctx.interim = ((blocks 1024 (m.length / 1024) m).foldl (blockSingle sha1) (List.replicate 16 Sha1.init),
      (blocks 16 (m.length / 1024 * 64) m).foldl murBlock (seed, seed)) := by
    have := congrArg S.dig r4
    simp only [absS, absorb, List.nil_append] at this
    rw [this, foldl_stitched, murBlocks_blocks _ _ _ (by omega)]
  have hpart : ctx.partialBuf.take (m.length % 1024) = m.drop (m.length / 1024 * 1024) := by
    have := congrArg S.part r4
    simp only [absS, absorb, List.nil_append, r1] at this
    exact this
  have hfin : murFinalize ctx =
      ((tail sha1 (blockSpec sha1) ctx.partialBuf ctx.totalLength.toUInt32 ctx.interim.1).2.2,
       murmurTail (ctx.partialBuf.drop (ctx.totalLength % 1024 - ctx.totalLength % 1024 % 16).toNat)
        ctx.totalLength.toUInt32
        (murmurBlocks ctx.interim.2 ctx.partialBuf (ctx.totalLength % 1024 / 16).toUInt32)) := rfl
  rw [hfin]
  have hmh : (tail sha1 (blockSpec sha1) ctx.partialBuf ctx.totalLength.toUInt32 ctx.interim.1).2.2
      = mhSha1 m := by
    -- the mh_sha1 half
    apply tail_digest sha1 sha1_stdOk (by decide) _ _ _ _ r2 r1 h
    rw [hint, hpart]
    simp only [absorb, List.nil_append]
    rfl
  have hmur : murmurTail (ctx.partialBuf.drop (ctx.totalLength % 1024 - ctx.totalLength % 1024 % 16).toNat)
        ctx.totalLength.toUInt32
        (murmurBlocks ctx.interim.2 ctx.partialBuf (ctx.totalLength % 1024 / 16).toUInt32)
      = murmur3_x64_128 seed m := by
    -- the murmur half
    have hp : (ctx.totalLength % 1024).toNat = m.length % 1024 := by rw [UInt64.toNat_mod, r1]; rfl
    have hp16 : ((ctx.totalLength % 1024) % 16).toNat = m.length % 1024 % 16 := by
      rw [UInt64.toNat_mod, hp]; rfl
    have hn : ((ctx.totalLength % 1024 / 16).toUInt32).toNat = m.length % 1024 / 16 := by
      rw [UInt64.toNat_toUInt32, UInt64.toNat_div, hp]
      show m.length % 1024 / 16 % 2 ^ 32 = _
      omega
    have hoff : (ctx.totalLength % 1024 - ctx.totalLength % 1024 % 16).toNat
        = m.length % 1024 - m.length % 1024 % 16 := by
      rw [UInt64.toNat_sub_of_le _ _ (by rw [UInt64.le_iff_toNat_le, hp16, hp]; omega), hp16, hp]
    have hT : ctx.totalLength.toUInt32.toNat = m.length := by rw [UInt64.toNat_toUInt32, r1]; omega
    rw [murmurTail_eq, hT, hoff]
    simp only [murmurBlocks, hn, hint, murmur3_x64_128, chunks]
    -- the murmur blocks: 64 per 1024-byte block, then those in `partial_block_buffer`
    have hblocks : blocks 16 (m.length / 16) m =
        blocks 16 (m.length / 1024 * 64) m ++ blocks 16 (m.length % 1024 / 16) ctx.partialBuf := by
      rw [← blocks_take_ge 16 (m.length % 1024 / 16) (m.length % 1024) ctx.partialBuf (by omega), hpart,
        show m.length / 16 = m.length / 1024 * 64 + m.length % 1024 / 16 by omega,
        blocks_add 16 _ _ m (by omega), show m.length / 1024 * 64 * 16 = m.length / 1024 * 1024 by omega]
    -- the murmur tail
    have htail : (ctx.partialBuf.drop (m.length % 1024 - m.length % 1024 % 16)).take (m.length % 16) =
        m.drop (m.length / 16 * 16) := by
      rw [show m.length % 16 = m.length % 1024 - (m.length % 1024 - m.length % 1024 % 16) by omega,
        ← List.drop_take, hpart, List.drop_drop]
      congr 1; omega
    rw [hblocks, List.foldl_append, htail]
  rw [hmh, hmur]

end IsalVerif.Mh
