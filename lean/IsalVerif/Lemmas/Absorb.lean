import IsalVerif.Spec.Bits
/-! Streaming law: absorbing segments with a carried partial block equals one call on the
    concatenation (`absorb_append`, `absorb_segments`); an implementation-shaped update with the
    three branches of `sha*_ctx_base.c:sha*_update` / `mh_sha1_update_base.c` equals `absorb`. -/
namespace IsalVerif
variable {α D : Type}

theorem blocks_append_exact (B : Nat) (k : Nat) (a b : List α) (n : Nat) (ha : a.length = k * B) :
    blocks B (k + n) (a ++ b) = blocks B k a ++ blocks B n b := by
  induction k generalizing a with
  | zero =>
    have : a = [] := List.length_eq_zero_iff.mp (by simpa using ha)
    subst this; simp [blocks]
  | succ k ih =>
    have hlen : B ≤ a.length := by rw [ha, Nat.succ_mul]; omega
    rw [show k + 1 + n = (k + n) + 1 by omega]
    simp only [blocks]
    rw [List.take_append_of_le_length hlen, List.drop_append_of_le_length hlen]
    rw [ih (a.drop B) (by rw [List.length_drop, ha, Nat.succ_mul]; omega)]
    rfl

structure S (α D : Type) where
  dig : D
  part : List α

def absorb (B : Nat) (f : D → List α → D) (s : S α D) (data : List α) : S α D :=
  let buf := s.part ++ data
  let n := buf.length / B
  { dig := (blocks B n buf).foldl f s.dig, part := buf.drop (n * B) }

theorem absorb_part_lt (B : Nat) (hB : 0 < B) (f : D → List α → D) (s : S α D) (d : List α) :
    (absorb B f s d).part.length < B := by
  simp only [absorb, List.length_drop]
  have := Nat.mod_lt (s.part ++ d).length hB
  have := Nat.div_add_mod (s.part ++ d).length B
  rw [Nat.mul_comm] at this; omega

/-- the fundamental streaming law -/
theorem absorb_append (B : Nat) (hB : 0 < B) (f : D → List α → D) (s : S α D) (a b : List α) :
    absorb B f (absorb B f s a) b = absorb B f s (a ++ b) := by
  simp only [absorb]
  generalize hbuf : s.part ++ a = buf
  have hsplit : buf = buf.take (buf.length / B * B) ++ buf.drop (buf.length / B * B) := (List.take_append_drop _ _).symm
  generalize hn1 : buf.length / B = n1 at *
  generalize hp1 : buf.drop (n1 * B) = p1 at *
  have hpre : (buf.take (n1 * B)).length = n1 * B := by
    rw [List.length_take]; have := Nat.div_mul_le_self buf.length B; rw [hn1] at this; omega
  have hp1len : p1.length = buf.length - n1 * B := by rw [← hp1, List.length_drop]
  have hblk1 : blocks B n1 buf = blocks B n1 (buf.take (n1 * B)) := by
    have := blocks_append_exact B n1 (buf.take (n1*B)) p1 0 hpre
    rw [← hsplit] at this; simpa [blocks] using this
  -- total buffer of the one-shot call
  have htot : s.part ++ (a ++ b) = buf.take (n1 * B) ++ (p1 ++ b) := by
    rw [← List.append_assoc, hbuf, ← List.append_assoc, ← hsplit]
  rw [htot]
  have hlen : (buf.take (n1 * B) ++ (p1 ++ b)).length = n1 * B + (p1 ++ b).length := by
    rw [List.length_append, hpre]
  have hdiv : (buf.take (n1 * B) ++ (p1 ++ b)).length / B = n1 + (p1 ++ b).length / B := by
    rw [hlen, Nat.add_comm, Nat.add_mul_div_right _ _ hB, Nat.add_comm]
  rw [hdiv, blocks_append_exact B n1 _ _ _ hpre, List.foldl_append, ← hblk1]
  congr 1
  rw [Nat.add_mul, ← List.drop_drop, List.drop_left' hpre]

/-- one-shot: digest state after absorbing from empty = fold over the full blocks of the message -/
theorem absorb_oneshot (B : Nat) (f : D → List α → D) (d0 : D) (m : List α) :
    (absorb B f ⟨d0, []⟩ m).dig = (blocks B (m.length / B) m).foldl f d0 := by
  simp [absorb]

theorem absorb_nil (B : Nat) (f : D → List α → D) (s : S α D) (hs : s.part.length < B) :
    absorb B f s [] = s := by
  cases s with
  | mk d p =>
    simp only [absorb, List.append_nil]
    have : p.length / B = 0 := Nat.div_eq_of_lt hs
    simp [this, blocks]

/-- Any segmentation gives the same state as one call on the concatenation. -/
theorem absorb_segments (B : Nat) (hB : 0 < B) (f : D → List α → D) (s : S α D) (hs : s.part.length < B)
    (segs : List (List α)) :
    segs.foldl (absorb B f) s = absorb B f s segs.flatten := by
  induction segs generalizing s with
  | nil => simp [absorb_nil B f s hs]
  | cons x xs ih =>
    simp only [List.foldl, List.flatten_cons]
    rw [ih _ (absorb_part_lt B hB f s x), absorb_append B hB]


/-- update as written in sha256_ctx_base.c:sha256_update (same shape in mh_sha1_update_base.c) -/
def implUpdate (B : Nat) (f : D → List α → D) (s : S α D) (data : List α) : S α D :=
  if s.part.length ≠ 0 ∨ data.length < B then
    let copy := min (B - s.part.length) data.length
    let part' := s.part ++ data.take copy
    let data' := data.drop copy
    if B ≤ part'.length then
      let dig' := f s.dig part'
      let n := data'.length / B
      { dig := (blocks B n data').foldl f dig', part := data'.drop (n * B) }
    else { dig := s.dig, part := part' }
  else
    let n := data.length / B
    { dig := (blocks B n data).foldl f s.dig, part := data.drop (n * B) }

theorem implUpdate_eq_absorb (B : Nat) (hB : 0 < B) (f : D → List α → D) (s : S α D)
    (hs : s.part.length < B) (data : List α) : implUpdate B f s data = absorb B f s data := by
  unfold implUpdate
  split
  · -- buffered path
    simp only []
    split
    · -- partial block completed
      rename_i hfull
      have hcopy : min (B - s.part.length) data.length = B - s.part.length := by
        rw [List.length_append, List.length_take] at hfull; omega
      rw [hcopy] at hfull ⊢
      have hlen1 : (s.part ++ data.take (B - s.part.length)).length = 1 * B := by
        rw [List.length_append, List.length_take] at hfull ⊢; omega
      have hsplit : s.part ++ data = (s.part ++ data.take (B - s.part.length)) ++ data.drop (B - s.part.length) := by
        rw [List.append_assoc, List.take_append_drop]
      simp only [absorb]
      rw [hsplit]
      have hdiv : ((s.part ++ data.take (B - s.part.length)) ++ data.drop (B - s.part.length)).length / B
          = 1 + (data.drop (B - s.part.length)).length / B := by
        rw [List.length_append, hlen1, Nat.add_comm, Nat.add_mul_div_right _ _ hB, Nat.add_comm]
      rw [hdiv, blocks_append_exact B 1 _ _ _ hlen1, List.foldl_append]
      have hone : blocks B 1 (s.part ++ data.take (B - s.part.length)) = [s.part ++ data.take (B - s.part.length)] := by
        simp only [blocks]; rw [List.take_of_length_le (by omega)]
      rw [hone, Nat.add_mul, ← List.drop_drop, List.drop_left' hlen1]
      rfl
    · -- still short of a block: nothing hashed
      rename_i hshort
      have hall : min (B - s.part.length) data.length = data.length := by
        rw [List.length_append, List.length_take] at hshort; omega
      rw [hall, List.take_length] at hshort ⊢
      simp only [absorb]
      have h0 : (s.part ++ data).length / B = 0 := Nat.div_eq_of_lt (by omega)
      rw [h0]; simp [blocks]
  · -- direct path: partial empty and at least one block of data
    rename_i h
    have hp : s.part = [] := List.length_eq_zero_iff.mp (by omega)
    simp [absorb, hp]



end IsalVerif

namespace IsalVerif
variable {α D : Type}

/-- moving a prefix of the incoming data into the partial buffer does not change the result -/
theorem absorb_move (B : Nat) (f : D → List α → D) (d : D) (part data : List α) (k : Nat) :
    absorb B f ⟨d, part ++ data.take k⟩ (data.drop k) = absorb B f ⟨d, part⟩ data := by
  simp only [absorb, List.append_assoc, List.take_append_drop]

/-- a partial buffer that holds exactly one block is hashed first -/
theorem absorb_full_block (B : Nat) (hB : 0 < B) (f : D → List α → D) (d : D) (blk data : List α)
    (hb : blk.length = B) : absorb B f ⟨f d blk, []⟩ data = absorb B f ⟨d, blk⟩ data := by
  have h1 : absorb B f ⟨d, blk⟩ [] = ⟨f d blk, []⟩ := by
    simp only [absorb, List.append_nil, hb, Nat.div_self hB, blocks]
    have : blk.take B = blk := List.take_of_length_le (by omega)
    simp [this, ← hb]
  rw [← h1, absorb_append B hB]; simp

end IsalVerif
