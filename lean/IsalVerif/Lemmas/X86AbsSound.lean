import IsalVerif.Impl.X86Abs
/-!
# Soundness of the X86Abs certificate checker (C19)

`checkFn ctx code entry = true` implies that every execution of `code` under the concrete
semantics `Step` (started at the entry label, any register file, any memory)

* never reaches a `forbidden` / `unsupported` record,
* performs every stack-pointer-relative write (push, call, `mov [rsp+k]`) strictly below the entry
  stack pointer,
* arrives at every exit (`ret`, tail jump, dispatch stub) with `rsp` and every register outside the
  clobber mask holding their entry values.

The proof is the classical one: the abstract state threaded by the checker (certificate states at
labels) over-approximates every reachable concrete state (`Rel`), by induction on the execution.
-/

namespace IsalVerif.X86Abs

/-! ## association lists -/

theorem get_nil (k : Nat) : get [] k = 0 := rfl

theorem get_cons (k v : Nat) (xs : A) (key : Nat) :
    get ((k, v) :: xs) key = if k = key then v else get xs key := by
  simp only [get]
  by_cases h : k = key
  · subst h; simp
  · have : Nat.beq k key = false := by
      cases hb : Nat.beq k key with
      | false => rfl
      | true => exact absurd (Nat.eq_of_beq_eq_true hb) h
    simp [this, h]

theorem get_filterKeys (p : Nat → Bool) (a : A) (key : Nat) :
    get (filterKeys p a) key = if p key then get a key else 0 := by
  induction a with
  | nil => simp [filterKeys, get_nil]
  | cons e xs ih =>
    obtain ⟨k, v⟩ := e
    unfold filterKeys at ih ⊢
    simp only [List.filter]
    by_cases hk : k = key
    · subst hk
      cases hp : p k with
      | true => simp [get_cons]
      | false => simp [hp] at ih; simp [ih]
    · cases hp : p k with
      | true => simp [get_cons, hk, ih]
      | false => simp [get_cons, hk, ih]

theorem nbeq_ne (x k : Nat) : (!Nat.beq x k) = true ↔ x ≠ k := by
  cases hb : Nat.beq x k with
  | true => simp [Nat.eq_of_beq_eq_true hb]
  | false =>
    simp
    intro h; subst h; simp [Nat.beq_refl] at hb

theorem get_put (a : A) (k v key : Nat) :
    get (put a k v) key = if key = k then v else get a key := by
  unfold put
  rw [get_cons, get_filterKeys]
  by_cases h : k = key
  · subst h; simp
  · have h' : key ≠ k := fun e => h e.symm
    have : (!Nat.beq key k) = true := (nbeq_ne key k).2 h'
    simp [h, h', this]

theorem get_mapVals (f : Nat → Nat) (hf : f 0 = 0) (a : A) (key : Nat) :
    get (mapVals f a) key = f (get a key) := by
  induction a with
  | nil => simp [mapVals, get_nil, hf]
  | cons e xs ih =>
    obtain ⟨k, v⟩ := e
    unfold mapVals at ih ⊢
    simp only [List.map, get_cons]
    by_cases hk : k = key <;> simp [hk, ih]

theorem beq_true_iff (a b : Nat) : Nat.beq a b = true ↔ a = b :=
  ⟨Nat.eq_of_beq_eq_true, fun h => by subst h; exact Nat.beq_refl a⟩

theorem ble_true_iff (a b : Nat) : Nat.ble a b = true ↔ a ≤ b :=
  ⟨Nat.le_of_ble_eq_true, Nat.ble_eq_true_of_le⟩

/-- `le post cert`: every certificate entry is either ⊤ or literally present in `post` -/
theorem le_sound {post cert : A} (h : le post cert = true) (key : Nat) :
    get cert key = 0 ∨ get cert key = get post key := by
  unfold le at h
  induction cert with
  | nil => left; rfl
  | cons e xs ih =>
    obtain ⟨k, v⟩ := e
    simp only [List.all_cons, Bool.and_eq_true, Bool.or_eq_true, beq_true_iff] at h
    rw [get_cons]
    by_cases hk : k = key
    · subst hk
      simp only [if_true]
      rcases h.1 with h0 | h1
      · left; exact h0
      · right; exact h1.symm
    · simp only [hk, if_false]
      exact ih h.2

/-! ## value codes -/

theorem mkV?_some {b : Nat} {k : Int} {v : Nat} (h : mkV? b k = some v) :
    v ≠ 0 ∧ baseOf v = b ∧ offOf v = k := by
  unfold mkV? at h
  split at h
  · rename_i u hu
    cases hlt : Nat.blt u W32 with
    | false => simp [hlt] at h
    | true =>
      simp [hlt] at h
      have hu' : u < W32 := by
        have := Nat.le_of_ble_eq_true hlt
        omega
      subst h
      unfold baseOf offOf
      simp only [W32] at hu' ⊢
      refine ⟨by omega, ?_, ?_⟩
      · have : 1 + b * 4294967296 + u - 1 = b * 4294967296 + u := by omega
        rw [this]; omega
      · have : 1 + b * 4294967296 + u - 1 = u + b * 4294967296 := by omega
        rw [this, Nat.add_mul_mod_self_right, Nat.mod_eq_of_lt hu']
        omega
  · simp at h

theorem isStk_true {v : Nat} (h : isStk v = true) : v ≠ 0 ∧ (baseOf v = 4 ∨ 16 ≤ baseOf v) := by
  unfold isStk at h
  simp only [Bool.and_eq_true, Bool.or_eq_true, beq_true_iff, ble_true_iff] at h
  refine ⟨?_, h.2⟩
  intro h0
  have := h.1
  rw [h0] at this
  simp [Nat.beq] at this

theorem slotKey?_some {b : Nat} {k : Int} {key : Nat} (h : slotKey? b k = some key) :
    16 ≤ key ∧ keyBase key = b ∧ keyOff key = k := by
  unfold slotKey? at h
  cases hv : mkV? b k with
  | none => simp [hv] at h
  | some v =>
    simp [hv] at h
    obtain ⟨h0, hb, ho⟩ := mkV?_some hv
    subst h
    unfold keyBase keyOff
    have : v + 15 - 15 = v := by omega
    rw [this]
    exact ⟨by omega, hb, ho⟩

theorem initV_base (r : Nat) : initV r ≠ 0 ∧ baseOf (initV r) = r ∧ offOf (initV r) = 0 := by
  unfold initV baseOf offOf
  simp only [W32, B31]
  refine ⟨by omega, ?_, ?_⟩
  · have : 1 + r * 4294967296 + 2147483648 - 1 = r * 4294967296 + 2147483648 := by omega
    rw [this]; omega
  · have : 1 + r * 4294967296 + 2147483648 - 1 = 2147483648 + r * 4294967296 := by omega
    rw [this, Nat.add_mul_mod_self_right]
    have h2 : (2147483648 : Nat) % 4294967296 = 2147483648 := by decide
    rw [h2]; simp

/-! ## the simulation relation -/

/-- concrete value of a symbolic base: entry value of a register, or the frame valuation `φ` -/
def baseVal (s0 : St) (φ : Nat → Int) (b : Nat) : Int := if b < 16 then s0.regs b else φ (b - 16)
def valI (s0 : St) (φ : Nat → Int) (v : Nat) : Int := baseVal s0 φ (baseOf v) + offOf v
def keyAddr (s0 : St) (φ : Nat → Int) (key : Nat) : Int := baseVal s0 φ (keyBase key) + keyOff key
def ValOK (s0 : St) (φ : Nat → Int) (v : Nat) (x : Int) : Prop := v = 0 ∨ x = valI s0 φ v
def SlotOK (s0 : St) (φ : Nat → Int) (key v : Nat) (mem : Int → Option Int) : Prop :=
  v = 0 ∨ mem (keyAddr s0 φ key) = some (valI s0 φ v)

/-- the abstract state `a` over-approximates the concrete state `s` (entry state `s0`, frames `φ`) -/
def Rel (s0 : St) (φ : Nat → Int) (a : A) (s : St) : Prop :=
  (∀ r, r < 16 → ValOK s0 φ (get a r) (s.regs r)) ∧
  (∀ key, 16 ≤ key → SlotOK s0 φ key (get a key) s.mem)

/-- the frame valuation respects the recorded bounds -/
def FrOK (fr : List (Int × Nat)) (s0 : St) (φ : Nat → Int) : Prop :=
  ∀ i k m, fr[i]? = some (k, m) → s0.regs 4 + k - Int.ofNat m ≤ φ i ∧ φ i ≤ s0.regs 4 + k

theorem bnd_sound {fr s0 φ b l h} (hf : FrOK fr s0 φ) (hb : bnd fr b = some (l, h)) :
    s0.regs 4 + l ≤ baseVal s0 φ b ∧ baseVal s0 φ b ≤ s0.regs 4 + h := by
  unfold bnd at hb
  cases h4 : Nat.beq b 4 with
  | true =>
    have : b = 4 := Nat.eq_of_beq_eq_true h4
    subst this
    simp at hb
    obtain ⟨rfl, rfl⟩ := hb
    simp [baseVal]
  | false =>
    simp only [h4, cond_false] at hb
    cases h16 : Nat.ble 16 b with
    | false => simp [h16] at hb
    | true =>
      simp only [h16, cond_true] at hb
      have hge : 16 ≤ b := Nat.le_of_ble_eq_true h16
      cases hfr : fr[b - 16]? with
      | none => simp [hfr] at hb
      | some km =>
        obtain ⟨k, m⟩ := km
        simp [hfr] at hb
        obtain ⟨rfl, rfl⟩ := hb
        have := hf (b - 16) k m hfr
        have hnot : ¬ b < 16 := by omega
        simp only [baseVal, hnot, if_false, Int.ofNat_eq_natCast] at this ⊢
        omega

theorem rel_le {s0 φ a c s} (hr : Rel s0 φ a s) (hle : le a c = true) : Rel s0 φ c s := by
  constructor
  · intro r hlt
    rcases le_sound hle r with h | h
    · left; exact h
    · rw [h]; exact hr.1 r hlt
  · intro key hk
    rcases le_sound hle key with h | h
    · left; exact h
    · rw [h]; exact hr.2 key hk

/-- filtering keys, while registers / memory change only where the survivors are not concerned -/
theorem rel_filter {s0 φ a s} (p : Nat → Bool) (pc' : Nat) (regs' : Nat → Int) (mem' : Int → Option Int)
    (hr : Rel s0 φ a s)
    (hregs : ∀ r, r < 16 → p r = true → get a r ≠ 0 → regs' r = s.regs r)
    (hmem : ∀ key, 16 ≤ key → p key = true → get a key ≠ 0 → mem' (keyAddr s0 φ key) = s.mem (keyAddr s0 φ key)) :
    Rel s0 φ (filterKeys p a) ⟨pc', regs', mem'⟩ := by
  constructor
  · intro r hlt
    rw [get_filterKeys]
    cases hp : p r with
    | false => left; simp
    | true =>
      simp only [if_true]
      by_cases h0 : get a r = 0
      · left; exact h0
      · rcases hr.1 r hlt with h | h
        · exact absurd h h0
        · right; show regs' r = _; rw [hregs r hlt hp h0]; exact h
  · intro key hk
    rw [get_filterKeys]
    cases hp : p key with
    | false => left; simp
    | true =>
      simp only [if_true]
      by_cases h0 : get a key = 0
      · left; exact h0
      · rcases hr.2 key hk with h | h
        · exact absurd h h0
        · right; show mem' _ = _; rw [hmem key hk hp h0]; exact h

theorem rel_put_reg {s0 φ a s} (d v : Nat) (x : Int) (pc' : Nat) (hd : d < 16)
    (hr : Rel s0 φ a s) (hv : ValOK s0 φ v x) :
    Rel s0 φ (put a d v) ⟨pc', upd s.regs d x, s.mem⟩ := by
  constructor
  · intro r hlt
    rw [get_put]
    by_cases h : r = d
    · subst h; simpa [upd] using hv
    · simp only [h, if_false, upd]; exact hr.1 r hlt
  · intro key hk
    rw [get_put]
    have : key ≠ d := by omega
    simp only [this, if_false]; exact hr.2 key hk

theorem rel_put_slot {s0 φ a s} (key x : Nat) (hk : 16 ≤ key)
    (hr : Rel s0 φ a s) (hx : SlotOK s0 φ key x s.mem) :
    Rel s0 φ (put a key x) s := by
  constructor
  · intro r hlt
    rw [get_put]
    have : r ≠ key := by omega
    simp only [this, if_false]; exact hr.1 r hlt
  · intro key' hk'
    rw [get_put]
    by_cases h : key' = key
    · subst h; simpa using hx
    · simp only [h, if_false]; exact hr.2 key' hk'

theorem rel_pc {s0 φ a s} (pc' : Nat) (hr : Rel s0 φ a s) : Rel s0 φ a ⟨pc', s.regs, s.mem⟩ := hr

/-! ## memory -/

theorem memKill_frame (m : Int → Option Int) (lo hi x : Int) (h : x + 8 ≤ lo ∨ hi ≤ x) :
    memKill m lo hi x = m x := by
  unfold memKill
  have : ¬ (lo < x + 8 ∧ x < hi) := by omega
  simp [this]

theorem memStore_frame (m : Int → Option Int) (addr x : Int) (v : Option Int) (h : x + 8 ≤ addr ∨ addr + 8 ≤ x) :
    memStore m addr v x = m x := by
  unfold memStore
  have : x ≠ addr := by omega
  simp only [this, if_false]
  exact memKill_frame m addr (addr + 8) x h

theorem memStore_self (m : Int → Option Int) (addr : Int) (v : Option Int) : memStore m addr v addr = v := by
  simp [memStore]

theorem disjoint_sound {fr s0 φ b l h} {o sz : Int} {key : Nat} (hf : FrOK fr s0 φ) (hb : bnd fr b = some (l, h))
    (hk : 16 ≤ key) (hd : disjointFrom fr b o sz l h key = true) :
    keyAddr s0 φ key + 8 ≤ baseVal s0 φ b + o ∨ baseVal s0 φ b + o + sz ≤ keyAddr s0 φ key := by
  unfold disjointFrom at hd
  have h15 : Nat.ble key 15 = false := by
    cases hh : Nat.ble key 15 with
    | false => rfl
    | true => have := Nat.le_of_ble_eq_true hh; omega
  simp only [h15, Bool.false_or] at hd
  have hbb := bnd_sound hf hb
  unfold keyAddr
  cases hbe : Nat.beq (keyBase key) b with
  | true =>
    have : keyBase key = b := Nat.eq_of_beq_eq_true hbe
    simp only [hbe, cond_true, Bool.or_eq_true, decide_eq_true_eq] at hd
    rw [this]; omega
  | false =>
    simp only [hbe, cond_false] at hd
    cases hb' : bnd fr (keyBase key) with
    | none => simp [hb'] at hd
    | some lh =>
      obtain ⟨l', h'⟩ := lh
      simp only [hb', Bool.or_eq_true, decide_eq_true_eq] at hd
      have := bnd_sound hf hb'
      omega

theorem aboveSp_sound {fr s0 φ b l h} {o : Int} {key : Nat} (hf : FrOK fr s0 φ) (hb : bnd fr b = some (l, h))
    (hd : aboveSp fr b o h key = true) :
    baseVal s0 φ b + o ≤ keyAddr s0 φ key := by
  unfold aboveSp at hd
  have hbb := bnd_sound hf hb
  unfold keyAddr
  cases hbe : Nat.beq (keyBase key) b with
  | true =>
    have : keyBase key = b := Nat.eq_of_beq_eq_true hbe
    simp only [hbe, cond_true, decide_eq_true_eq] at hd
    rw [this]; omega
  | false =>
    simp only [hbe, cond_false] at hd
    cases hb' : bnd fr (keyBase key) with
    | none => simp [hb'] at hd
    | some lh =>
      obtain ⟨l', h'⟩ := lh
      simp only [hb', decide_eq_true_eq] at hd
      have := bnd_sound hf hb'
      omega

/-- facts about a decoded abstract stack pointer -/
theorem spOf_sound {ctx : Ctx} {s0 φ a s b o l h} (hsp : spOf ctx a = some (b, o, l, h))
    (hr : Rel s0 φ a s) :
    isStk (get a 4) = true ∧ baseOf (get a 4) = b ∧ offOf (get a 4) = o ∧ bnd ctx.frames b = some (l, h) ∧
    s.regs 4 = baseVal s0 φ b + o := by
  unfold spOf at hsp
  simp only at hsp
  cases hs : isStk (get a 4) with
  | false => simp [hs] at hsp
  | true =>
    simp only [hs, cond_true] at hsp
    cases hb : bnd ctx.frames (baseOf (get a 4)) with
    | none => simp [hb] at hsp
    | some lh =>
      obtain ⟨l', h'⟩ := lh
      simp [hb] at hsp
      obtain ⟨rfl, rfl, rfl, rfl⟩ := hsp
      refine ⟨rfl, rfl, rfl, hb, ?_⟩
      have h0 := (isStk_true hs).1
      rcases hr.1 4 (by omega) with h | h
      · exact absurd h h0
      · exact h

/-- a tracked write without a tracked value (kill) -/
theorem doStore_none {ctx : Ctx} {s0 φ a s v a'} {k sz : Int} (h : doStore ctx a v k sz none = some a')
    (hf : FrOK ctx.frames s0 φ) (hr : Rel s0 φ a s) :
    valI s0 φ v + k + sz ≤ s0.regs 4 ∧
    ∀ pc' mem', (∀ x, (x + 8 ≤ valI s0 φ v + k ∨ valI s0 φ v + k + sz ≤ x) → mem' x = s.mem x) →
      Rel s0 φ a' ⟨pc', s.regs, mem'⟩ := by
  unfold doStore at h
  cases hb : bnd ctx.frames (baseOf v) with
  | none => simp [hb] at h
  | some lh =>
    obtain ⟨l, hh⟩ := lh
    simp only [hb] at h
    cases hc : decide (hh + (offOf v + k) + sz ≤ 0) with
    | false => simp [hc] at h
    | true =>
      simp only [hc, cond_true, Option.some.injEq] at h
      have hle : hh + (offOf v + k) + sz ≤ 0 := of_decide_eq_true hc
      have hbb := bnd_sound hf hb
      constructor
      · unfold valI; omega
      · intro pc' mem' hmem
        subst h
        apply rel_filter _ pc' s.regs mem' hr
        · intros; rfl
        · intro key hk hp _
          apply hmem
          have := disjoint_sound hf hb hk hp
          unfold valI; omega

/-- a tracked qword store of a tracked value -/
theorem doStore_some {ctx : Ctx} {s0 φ a s v a' x} {k : Int} (h : doStore ctx a v k 8 (some x) = some a')
    (hf : FrOK ctx.frames s0 φ) (hr : Rel s0 φ a s) :
    valI s0 φ v + k + 8 ≤ s0.regs 4 ∧
    ∀ pc' mem' (y : Int), (∀ z, (z + 8 ≤ valI s0 φ v + k ∨ valI s0 φ v + k + 8 ≤ z) → mem' z = s.mem z) →
      mem' (valI s0 φ v + k) = some y → ValOK s0 φ x y →
      Rel s0 φ a' ⟨pc', s.regs, mem'⟩ := by
  unfold doStore at h
  cases hb : bnd ctx.frames (baseOf v) with
  | none => simp [hb] at h
  | some lh =>
    obtain ⟨l, hh⟩ := lh
    simp only [hb] at h
    cases hc : decide (hh + (offOf v + k) + 8 ≤ 0) with
    | false => simp [hc] at h
    | true =>
      simp only [hc, cond_true] at h
      have hle : hh + (offOf v + k) + 8 ≤ 0 := of_decide_eq_true hc
      have hbb := bnd_sound hf hb
      constructor
      · unfold valI; omega
      · intro pc' mem' y hmem hself hxy
        cases hkey : slotKey? (baseOf v) (offOf v + k) with
        | none => simp [hkey] at h
        | some key =>
          simp only [hkey, Option.some.injEq] at h
          subst h
          obtain ⟨hk16, hkb, hko⟩ := slotKey?_some hkey
          have hr1 : Rel s0 φ (filterKeys (disjointFrom ctx.frames (baseOf v) (offOf v + k) 8 l hh) a) ⟨pc', s.regs, mem'⟩ := by
            apply rel_filter _ pc' s.regs mem' hr
            · intros; rfl
            · intro key' hk hp _
              apply hmem
              have := disjoint_sound hf hb hk hp
              unfold valI; omega
          apply rel_put_slot key x hk16 hr1
          rcases hxy with h0 | h1
          · left; exact h0
          · right
            show mem' (keyAddr s0 φ key) = _
            have : keyAddr s0 φ key = valI s0 φ v + k := by
              unfold keyAddr valI; rw [hkb, hko]; omega
            rw [this, hself, h1]

/-! ## one step -/

theorem labelIdx_get {code : List Instr} {t j : Nat} (h : labelIdx code t = some j) :
    code[j]? = some (.label t) := by
  induction code generalizing j with
  | nil => simp [labelIdx] at h
  | cons i is ih =>
    cases i with
    | label id =>
      simp only [labelIdx] at h
      by_cases hid : id = t
      · subst hid; simp at h; subst h; simp
      · simp only [hid, if_false, Option.map_eq_some_iff] at h
        obtain ⟨j', hj', rfl⟩ := h
        simpa using ih hj'
    | _ =>
      simp only [labelIdx, Option.map_eq_some_iff] at h
      obtain ⟨j', hj', rfl⟩ := h
      simpa using ih hj'

/-- value read from a tracked slot -/
theorem slotVal_ok {s0 φ a s} (hr : Rel s0 φ a s) (b : Nat) (o x : Int)
    (hx : ∀ y, s.mem (baseVal s0 φ b + o) = some y → x = y) : ValOK s0 φ (slotVal a b o) x := by
  unfold slotVal
  cases hk : slotKey? b o with
  | none => left; rfl
  | some key =>
    obtain ⟨h16, hb, ho⟩ := slotKey?_some hk
    simp only
    rcases hr.2 key h16 with h | h
    · left; exact h
    · right
      apply hx
      have : keyAddr s0 φ key = baseVal s0 φ b + o := by unfold keyAddr; rw [hb, ho]
      rw [← this]; exact h

/-- a register holding a non-⊤ code has the value the code denotes -/
theorem reg_val {s0 φ a s} (hr : Rel s0 φ a s) (r : Nat) (hlt : r < 16) (h0 : get a r ≠ 0) :
    s.regs r = valI s0 φ (get a r) := by
  rcases hr.1 r hlt with h | h
  · exact absurd h h0
  · exact h

/-- stack-pointer relative writes land below the entry stack pointer -/
def StoreBelow (s0 s : St) : Instr → Prop
  | .push _ => s.regs 4 ≤ s0.regs 4
  | .pushAny => s.regs 4 ≤ s0.regs 4
  | .call _ => s.regs 4 ≤ s0.regs 4
  | .store b k _ => s.regs b + k + 8 ≤ s0.regs 4
  | .storeK b k sz => s.regs b + k + sz ≤ s0.regs 4
  | _ => True

/-- where a step may land: the next record with a threaded state, or a label with its certificate -/
def Post (ctx : Ctx) (code : List Instr) (s0 : St) (pc : Nat) (st' : Option A) (s' : St) : Prop :=
  (s'.pc = pc + 1 ∧ ∃ a' φ', st' = some a' ∧ FrOK ctx.frames s0 φ' ∧ Rel s0 φ' a' s') ∨
  (∃ t c φ', code[s'.pc]? = some (.label t) ∧ ctx.cert t = some c ∧ FrOK ctx.frames s0 φ' ∧ Rel s0 φ' c s')

/-- how a step may change the frame valuation: only `and rsp` establishes (re-values) a frame, and only its own -/
def FrStep (i : Instr) (φ φ' : Nat → Int) : Prop := ∀ j, (∀ m, i ≠ .andRsp j m) → φ' j = φ j

theorem FrStep.rfl (i : Instr) (φ : Nat → Int) : FrStep i φ φ := fun _ _ => Eq.refl _

/-- `Post` with the frame valuation after the step related to the one before (used by engine Scrub, which
keeps its own facts about stack regions relative to the same frames) -/
def PostF (ctx : Ctx) (code : List Instr) (s0 : St) (pc : Nat) (i : Instr) (φ : Nat → Int) (st' : Option A) (s' : St) : Prop :=
  (s'.pc = pc + 1 ∧ ∃ a' φ', st' = some a' ∧ FrOK ctx.frames s0 φ' ∧ FrStep i φ φ' ∧ Rel s0 φ' a' s') ∨
  (∃ t c φ', code[s'.pc]? = some (.label t) ∧ ctx.cert t = some c ∧ FrOK ctx.frames s0 φ' ∧ FrStep i φ φ' ∧ Rel s0 φ' c s')

theorem PostF.post {ctx : Ctx} {code : List Instr} {s0 : St} {pc : Nat} {i : Instr} {φ : Nat → Int} {st' : Option A} {s' : St}
    (h : PostF ctx code s0 pc i φ st' s') : Post ctx code s0 pc st' s' := by
  rcases h with ⟨h1, a', φ', h2, h3, _, h4⟩ | ⟨t, c, φ', h1, h2, h3, _, h4⟩
  · exact Or.inl ⟨h1, a', φ', h2, h3, h4⟩
  · exact Or.inr ⟨t, c, φ', h1, h2, h3, h4⟩

theorem ble15 {r : Nat} (h : Nat.ble r 15 = true) : r < 16 := by
  have := Nat.le_of_ble_eq_true h; omega

theorem ble15_false {r : Nat} (h : 16 ≤ r) : Nat.ble r 15 = false := by
  cases hh : Nat.ble r 15 with
  | false => rfl
  | true => have := Nat.le_of_ble_eq_true hh; omega

theorem ble16_false {r : Nat} (h : r < 16) : Nat.ble 16 r = false := by
  cases hh : Nat.ble 16 r with
  | false => rfl
  | true => have := Nat.le_of_ble_eq_true hh; omega

theorem ble16_true {r : Nat} (h : 16 ≤ r) : Nat.ble 16 r = true := Nat.ble_eq_true_of_le h

theorem baseVal_frame (s0 : St) (φ : Nat → Int) (f : Nat) (x : Int) (b : Nat) (hb : b ≠ 16 + f) :
    baseVal s0 (fun i => if i = f then x else φ i) b = baseVal s0 φ b := by
  unfold baseVal
  by_cases h : b < 16
  · simp [h]
  · have : b - 16 ≠ f := by omega
    simp [h, this]

/-- `and rsp` re-establishes frame `f`: everything that mentions the old frame is dropped first -/
theorem rel_newframe {s0 φ a s} (hr : Rel s0 φ a s) (f : Nat) (x : Int) :
    Rel s0 (fun i => if i = f then x else φ i)
      (mapVals (fun v => bif Nat.beq (baseOf v) (16 + f) then 0 else v)
        (filterKeys (fun key => Nat.ble key 15 || !Nat.beq (keyBase key) (16 + f)) a)) s := by
  have hg0 : (fun v => bif Nat.beq (baseOf v) (16 + f) then 0 else v) 0 = 0 := by
    simp only; cases Nat.beq (baseOf 0) (16 + f) <;> rfl
  have hmv := get_mapVals (fun v => bif Nat.beq (baseOf v) (16 + f) then 0 else v) hg0
  constructor
  · intro r hlt
    rw [hmv, get_filterKeys]
    have h15 : Nat.ble r 15 = true := Nat.ble_eq_true_of_le (by omega)
    simp only [h15, Bool.true_or, if_true]
    cases hb : Nat.beq (baseOf (get a r)) (16 + f) with
    | true => left; rfl
    | false =>
      simp only [cond_false]
      have hne : baseOf (get a r) ≠ 16 + f := fun e => by rw [e, Nat.beq_refl] at hb; cases hb
      rcases hr.1 r hlt with h | h
      · left; exact h
      · right; rw [h]; unfold valI; rw [baseVal_frame s0 φ f x _ hne]
  · intro key hk
    rw [hmv, get_filterKeys]
    simp only [ble15_false hk, Bool.false_or]
    cases hkb : Nat.beq (keyBase key) (16 + f) with
    | true => left; simp only [Bool.not_true]; exact hg0
    | false =>
      simp only [Bool.not_false, if_true]
      have hkne : keyBase key ≠ 16 + f := fun e => by rw [e, Nat.beq_refl] at hkb; cases hkb
      cases hb : Nat.beq (baseOf (get a key)) (16 + f) with
      | true => left; rfl
      | false =>
        simp only [cond_false]
        have hne : baseOf (get a key) ≠ 16 + f := fun e => by rw [e, Nat.beq_refl] at hb; cases hb
        rcases hr.2 key hk with h | h
        · left; exact h
        · right
          unfold keyAddr valI at h ⊢
          rw [baseVal_frame s0 φ f x _ hkne, baseVal_frame s0 φ f x _ hne]; exact h

theorem step1_soundF {ctx : Ctx} {code : List Instr} {s0 : St} {φ : Nat → Int} {a : A} {s s' : St} {i : Instr}
    {st' : Option A}
    (hstep : Step ctx.tab code s s') (hi : code[s.pc]? = some i) (h1 : step1 ctx i a = some st')
    (hf : FrOK ctx.frames s0 φ) (hr : Rel s0 φ a s) :
    PostF ctx code s0 s.pc i φ st' s' ∧ StoreBelow s0 s i := by
  cases hstep with
  | plain regs' hi' hregs =>
    rename_i w sb
    rw [hi] at hi'; cases hi'
    simp only [step1] at h1
    cases hc : (bit w 4 || !sbOK a sb) with
    | true => simp [hc] at h1
    | false =>
      simp only [hc, cond_false, Option.some.injEq] at h1
      subst h1
      refine ⟨Or.inl ⟨rfl, _, φ, rfl, hf, FrStep.rfl _ _, ?_⟩, trivial⟩
      apply rel_filter _ _ regs' s.mem hr
      · intro r hlt hp _
        simp only [ble16_false hlt, Bool.false_or, Bool.not_eq_true'] at hp
        exact hregs r hp
      · intros; rfl
  | label hi' =>
    rw [hi] at hi'; cases hi'
    simp [step1] at h1
  | jmp hi' hl =>
    rename_i t j
    rw [hi] at hi'; cases hi'
    simp only [step1] at h1
    cases hc : ctx.cert t with
    | none => simp [hc] at h1
    | some c =>
      simp only [hc] at h1
      cases hle : le a c with
      | false => simp [hle] at h1
      | true =>
        exact ⟨Or.inr ⟨t, c, φ, labelIdx_get hl, hc, hf, FrStep.rfl _ _, rel_le hr hle⟩, trivial⟩
  | jccT hi' hl =>
    rename_i t j
    rw [hi] at hi'; cases hi'
    simp only [step1] at h1
    cases hc : ctx.cert t with
    | none => simp [hc] at h1
    | some c =>
      simp only [hc] at h1
      cases hle : le a c with
      | false => simp [hle] at h1
      | true =>
        exact ⟨Or.inr ⟨t, c, φ, labelIdx_get hl, hc, hf, FrStep.rfl _ _, rel_le hr hle⟩, trivial⟩
  | jccF hi' =>
    rename_i t
    rw [hi] at hi'; cases hi'
    simp only [step1] at h1
    cases hc : ctx.cert t with
    | none => simp [hc] at h1
    | some c =>
      simp only [hc] at h1
      cases hle : le a c with
      | false => simp [hle] at h1
      | true =>
        simp only [hle, cond_true, Option.some.injEq] at h1
        subst h1
        exact ⟨Or.inl ⟨rfl, a, φ, rfl, hf, FrStep.rfl _ _, hr⟩, trivial⟩
  | call regs' hi' hregs hsp =>
    rename_i g
    rw [hi] at hi'; cases hi'
    simp only [step1] at h1
    cases hm : bit (ctx.tab g) 4 with
    | true => simp [hm] at h1
    | false =>
      simp only [hm, cond_false] at h1
      cases hs : spOf ctx a with
      | none => simp [hs] at h1
      | some q =>
        obtain ⟨b, o, l, h⟩ := q
        simp only [hs] at h1
        cases hd : decide (h + o ≤ 0) with
        | false => simp [hd] at h1
        | true =>
          simp only [hd, cond_true, Option.some.injEq] at h1
          subst h1
          have hle : h + o ≤ 0 := of_decide_eq_true hd
          obtain ⟨_, _, _, hb, hsv⟩ := spOf_sound hs hr
          have hbb := bnd_sound hf hb
          refine ⟨Or.inl ⟨rfl, _, φ, rfl, hf, FrStep.rfl _ _, ?_⟩, ?_⟩
          · apply rel_filter _ _ regs' _ hr
            · intro r hlt hp _
              have : Nat.ble r 15 = true := Nat.ble_eq_true_of_le (by omega)
              simp only [this, cond_true, Bool.not_eq_true'] at hp
              exact hregs r hp
            · intro key hk hp _
              simp only [ble15_false hk, cond_false] at hp
              have := aboveSp_sound hf hb hp
              have hn : ¬ keyAddr s0 φ key < s.regs RSP := by show ¬ _ < s.regs 4; omega
              simp only [hn, if_false]
          · show s.regs 4 ≤ s0.regs 4; omega
  | push hi' =>
    rename_i r
    rw [hi] at hi'; cases hi'
    simp only [step1] at h1
    cases hg : Nat.ble r 15 with
    | false => simp [hg] at h1
    | true =>
      simp only [hg, Bool.not_true, cond_false] at h1
      cases hs : spOf ctx a with
      | none => simp [hs] at h1
      | some q =>
        obtain ⟨b, o, l, h⟩ := q
        simp only [hs] at h1
        obtain ⟨hstk, hbase, hoff, hb, hsv⟩ := spOf_sound hs hr
        cases hv : mkV? b (o - 8) with
        | none => simp [hv] at h1
        | some v' =>
          cases hds : doStore ctx a (get a 4) (-8) 8 (some (get a r)) with
          | none => simp [hv, hds] at h1
          | some a1 =>
            simp only [hv, hds, Option.some.injEq] at h1
            subst h1
            obtain ⟨hbelow, hrel⟩ := doStore_some hds hf hr
            have hval : valI s0 φ (get a 4) = s.regs 4 := by
              unfold valI; rw [hbase, hoff]; exact hsv.symm
            rw [hval] at hbelow hrel
            obtain ⟨_, hvb, hvo⟩ := mkV?_some hv
            refine ⟨Or.inl ⟨rfl, _, φ, rfl, hf, FrStep.rfl _ _, ?_⟩, ?_⟩
            · have h2 := hrel (s.pc + 1) (memStore s.mem (s.regs 4 - 8) (some (s.regs r))) (s.regs r)
                (by intro z hz; apply memStore_frame; omega)
                (by have : s.regs 4 + -8 = s.regs 4 - 8 := by omega
                    rw [this]; exact memStore_self _ _ _)
                (hr.1 r (ble15 hg))
              apply rel_put_reg 4 v' (s.regs 4 - 8) (s.pc + 1) (by omega) h2
              right; unfold valI; rw [hvb, hvo]; omega
            · show s.regs 4 ≤ s0.regs 4; omega
  | pushAny v hi' =>
    rw [hi] at hi'; cases hi'
    simp only [step1] at h1
    cases hs : spOf ctx a with
    | none => simp [hs] at h1
    | some q =>
      obtain ⟨b, o, l, h⟩ := q
      simp only [hs] at h1
      obtain ⟨hstk, hbase, hoff, hb, hsv⟩ := spOf_sound hs hr
      cases hv : mkV? b (o - 8) with
      | none => simp [hv] at h1
      | some v' =>
        cases hds : doStore ctx a (get a 4) (-8) 8 none with
        | none => simp [hv, hds] at h1
        | some a1 =>
          simp only [hv, hds, Option.some.injEq] at h1
          subst h1
          obtain ⟨hbelow, hrel⟩ := doStore_none hds hf hr
          have hval : valI s0 φ (get a 4) = s.regs 4 := by
            unfold valI; rw [hbase, hoff]; exact hsv.symm
          rw [hval] at hbelow hrel
          obtain ⟨_, hvb, hvo⟩ := mkV?_some hv
          refine ⟨Or.inl ⟨rfl, _, φ, rfl, hf, FrStep.rfl _ _, ?_⟩, ?_⟩
          · have h2 := hrel (s.pc + 1) (memStore s.mem (s.regs 4 - 8) v)
              (by intro z hz; apply memStore_frame; omega)
            apply rel_put_reg 4 v' (s.regs 4 - 8) (s.pc + 1) (by omega) h2
            right; unfold valI; rw [hvb, hvo]; omega
          · show s.regs 4 ≤ s0.regs 4; omega
  | pop x hi' hx =>
    rename_i r
    rw [hi] at hi'; cases hi'
    simp only [step1] at h1
    cases hg : (Nat.beq r 4 || !Nat.ble r 15) with
    | true => simp [hg] at h1
    | false =>
      simp only [hg, cond_false] at h1
      simp only [Bool.or_eq_false_iff, Bool.not_eq_false'] at hg
      cases hs : spOf ctx a with
      | none => simp [hs] at h1
      | some q =>
        obtain ⟨b, o, l, h⟩ := q
        simp only [hs] at h1
        obtain ⟨hstk, hbase, hoff, hb, hsv⟩ := spOf_sound hs hr
        cases hv : mkV? b (o + 8) with
        | none => simp [hv] at h1
        | some v' =>
          simp only [hv, Option.some.injEq] at h1
          subst h1
          obtain ⟨_, hvb, hvo⟩ := mkV?_some hv
          refine ⟨Or.inl ⟨rfl, _, φ, rfl, hf, FrStep.rfl _ _, ?_⟩, trivial⟩
          have hsl : ValOK s0 φ (slotVal a b o) x := slotVal_ok hr b o x (by rw [← hsv]; exact hx)
          have h2 := rel_put_reg r _ x (s.pc + 1) (ble15 hg.2) hr hsl
          apply rel_put_reg 4 v' (s.regs RSP + 8) (s.pc + 1) (by omega) h2
          right; unfold valI; rw [hvb, hvo]; show s.regs 4 + 8 = _; omega
  | addRsp hi' =>
    rename_i k
    rw [hi] at hi'; cases hi'
    simp only [step1] at h1
    cases hs : spOf ctx a with
    | none => simp [hs] at h1
    | some q =>
      obtain ⟨b, o, l, h⟩ := q
      simp only [hs] at h1
      obtain ⟨hstk, hbase, hoff, hb, hsv⟩ := spOf_sound hs hr
      cases hv : mkV? b (o + k) with
      | none => simp [hv] at h1
      | some v' =>
        simp only [hv, Option.some.injEq] at h1
        subst h1
        obtain ⟨_, hvb, hvo⟩ := mkV?_some hv
        refine ⟨Or.inl ⟨rfl, _, φ, rfl, hf, FrStep.rfl _ _, ?_⟩, trivial⟩
        apply rel_put_reg 4 v' (s.regs RSP + k) (s.pc + 1) (by omega) hr
        right; unfold valI; rw [hvb, hvo]; show s.regs 4 + k = _; omega
  | andRsp d hi' hd0 hdm =>
    rename_i f m
    rw [hi] at hi'; cases hi'
    simp only [step1] at h1
    cases hc : (!Nat.beq (get a 4) 0 && Nat.beq (baseOf (get a 4)) 4) with
    | false => simp [hc] at h1
    | true =>
      simp only [hc, cond_true] at h1
      simp only [Bool.and_eq_true, Bool.not_eq_true', beq_true_iff] at hc
      have hv0 : get a 4 ≠ 0 := fun e => by rw [e] at hc; simp [Nat.beq] at hc
      cases hfr : ctx.frames[f]? with
      | none => simp [hfr] at h1
      | some km =>
        obtain ⟨k, m'⟩ := km
        simp only [hfr] at h1
        cases hkm : (decide (k = offOf (get a 4)) && Nat.beq m' m) with
        | false => simp [hkm] at h1
        | true =>
          simp only [hkm, cond_true, Option.some.injEq] at h1
          subst h1
          simp only [Bool.and_eq_true, decide_eq_true_eq, beq_true_iff] at hkm
          obtain ⟨hk, hm⟩ := hkm
          subst hm
          have hsp : s.regs 4 = s0.regs 4 + k := by
            have := reg_val hr 4 (by omega) hv0
            unfold valI at this; rw [hc.2] at this
            simp only [baseVal] at this
            omega
          refine ⟨Or.inl ⟨rfl, _, (fun i => if i = f then s.regs 4 - d else φ i), rfl, ?_, ?_, ?_⟩, trivial⟩
          · intro i k' m'' hi2
            by_cases hif : i = f
            · subst hif
              rw [hfr] at hi2; cases hi2
              simp only [if_true, Int.ofNat_eq_natCast] at hdm ⊢
              omega
            · simp only [hif, if_false]; exact hf i k' m'' hi2
          · intro j hj
            by_cases hjf : j = f
            · subst hjf; exact absurd rfl (hj _)
            · simp only [hjf, if_false]
          · have h2 := rel_newframe hr f (s.regs 4 - d)
            apply rel_put_reg 4 _ (s.regs RSP - d) (s.pc + 1) (by omega) h2
            right
            obtain ⟨_, hb, ho⟩ := initV_base (16 + f)
            unfold valI; rw [hb, ho]
            have : ¬ (16 + f < 16) := by omega
            simp [baseVal, this]
  | movRR hi' =>
    rename_i d r
    rw [hi] at hi'; cases hi'
    simp only [step1] at h1
    cases hg : (!Nat.ble d 15 || !Nat.ble r 15 || (Nat.beq d 4 && !isStk (get a r))) with
    | true => simp [hg] at h1
    | false =>
      simp only [hg, cond_false, Option.some.injEq] at h1
      subst h1
      simp only [Bool.or_eq_false_iff, Bool.not_eq_false'] at hg
      refine ⟨Or.inl ⟨rfl, _, φ, rfl, hf, FrStep.rfl _ _, ?_⟩, trivial⟩
      exact rel_put_reg d _ (s.regs r) (s.pc + 1) (ble15 hg.1.1) hr (hr.1 r (ble15 hg.1.2))
  | lea hi' =>
    rename_i d b k
    rw [hi] at hi'; cases hi'
    simp only [step1] at h1
    generalize hv' : (bif Nat.beq (get a b) 0 then 0 else (mkV? (baseOf (get a b)) (offOf (get a b) + k)).getD 0) = v' at h1
    cases hg : (!Nat.ble d 15 || !Nat.ble b 15 || (Nat.beq d 4 && !isStk v')) with
    | true => simp [hg] at h1
    | false =>
      simp only [hg, cond_false, Option.some.injEq] at h1
      subst h1
      simp only [Bool.or_eq_false_iff, Bool.not_eq_false'] at hg
      refine ⟨Or.inl ⟨rfl, _, φ, rfl, hf, FrStep.rfl _ _, ?_⟩, trivial⟩
      apply rel_put_reg d _ (s.regs b + k) (s.pc + 1) (ble15 hg.1.1) hr
      cases h0 : Nat.beq (get a b) 0 with
      | true => simp only [h0, cond_true] at hv'; left; exact hv'.symm
      | false =>
        simp only [h0, cond_false] at hv'
        have hne : get a b ≠ 0 := fun e => by rw [e] at h0; simp [Nat.beq] at h0
        cases hm : mkV? (baseOf (get a b)) (offOf (get a b) + k) with
        | none => simp [hm] at hv'; left; exact hv'.symm
        | some v'' =>
          simp [hm] at hv'; subst hv'
          obtain ⟨_, hvb, hvo⟩ := mkV?_some hm
          right
          have := reg_val hr b (ble15 hg.1.2) hne
          unfold valI at this ⊢; rw [hvb, hvo]; omega
  | load x hi' hx =>
    rename_i d b k
    rw [hi] at hi'; cases hi'
    simp only [step1] at h1
    generalize hv' : (bif isStk (get a b) then slotVal a (baseOf (get a b)) (offOf (get a b) + k) else 0) = v' at h1
    cases hg : (!Nat.ble d 15 || !Nat.ble b 15 || (Nat.beq d 4 && !isStk v')) with
    | true => simp [hg] at h1
    | false =>
      simp only [hg, cond_false, Option.some.injEq] at h1
      subst h1
      simp only [Bool.or_eq_false_iff, Bool.not_eq_false'] at hg
      refine ⟨Or.inl ⟨rfl, _, φ, rfl, hf, FrStep.rfl _ _, ?_⟩, trivial⟩
      apply rel_put_reg d _ x (s.pc + 1) (ble15 hg.1.1) hr
      cases hs : isStk (get a b) with
      | false => simp only [hs, cond_false] at hv'; left; exact hv'.symm
      | true =>
        simp only [hs, cond_true] at hv'; subst hv'
        have hne := (isStk_true hs).1
        have := reg_val hr b (ble15 hg.1.2) hne
        apply slotVal_ok hr
        intro y hy; apply hx
        unfold valI at this
        rw [this]
        have e : baseVal s0 φ (baseOf (get a b)) + offOf (get a b) + k = baseVal s0 φ (baseOf (get a b)) + (offOf (get a b) + k) := by omega
        rw [e]; exact hy
  | store hi' =>
    rename_i b k r
    rw [hi] at hi'; cases hi'
    simp only [step1] at h1
    cases hg : (isStk (get a b) && Nat.ble b 15 && Nat.ble r 15) with
    | false => simp [hg] at h1
    | true =>
      simp only [hg, cond_true, Option.map_eq_some_iff] at h1
      obtain ⟨a1, hds, rfl⟩ := h1
      simp only [Bool.and_eq_true] at hg
      have hne := (isStk_true hg.1.1).1
      have hval := reg_val hr b (ble15 hg.1.2) hne
      obtain ⟨hbelow, hrel⟩ := doStore_some hds hf hr
      rw [← hval] at hbelow hrel
      refine ⟨Or.inl ⟨rfl, _, φ, rfl, hf, FrStep.rfl _ _, ?_⟩, hbelow⟩
      exact hrel (s.pc + 1) _ (s.regs r) (by intro z hz; exact memStore_frame _ _ _ _ hz)
        (memStore_self _ _ _) (hr.1 r (ble15 hg.2))
  | storeK hi' =>
    rename_i b k sz
    rw [hi] at hi'; cases hi'
    simp only [step1] at h1
    cases hg : (isStk (get a b) && Nat.ble b 15) with
    | false => simp [hg] at h1
    | true =>
      simp only [hg, cond_true, Option.map_eq_some_iff] at h1
      obtain ⟨a1, hds, rfl⟩ := h1
      simp only [Bool.and_eq_true] at hg
      have hne := (isStk_true hg.1).1
      have hval := reg_val hr b (ble15 hg.2) hne
      obtain ⟨hbelow, hrel⟩ := doStore_none hds hf hr
      rw [← hval] at hbelow hrel
      simp only [Int.ofNat_eq_natCast] at hbelow hrel
      refine ⟨Or.inl ⟨rfl, _, φ, rfl, hf, FrStep.rfl _ _, ?_⟩, hbelow⟩
      exact hrel (s.pc + 1) _ (by intro z hz; exact memKill_frame _ _ _ _ hz)
  | storeIdx hi' =>
    rw [hi] at hi'; cases hi'
    simp only [step1, Option.some.injEq] at h1
    subst h1
    exact ⟨Or.inl ⟨rfl, a, φ, rfl, hf, FrStep.rfl _ _, hr⟩, trivial⟩
  | storeStatic hi' =>
    rename_i t
    rw [hi] at hi'; cases hi'
    simp only [step1] at h1
    cases hc : ctx.allow t with
    | false => simp [hc] at h1
    | true =>
      simp only [hc, cond_true, Option.some.injEq] at h1
      subst h1
      exact ⟨Or.inl ⟨rfl, a, φ, rfl, hf, FrStep.rfl _ _, hr⟩, trivial⟩
  | leave x hi' hx =>
    rw [hi] at hi'; cases hi'
    simp only [step1] at h1
    cases hs : isStk (get a 5) with
    | false => simp [hs] at h1
    | true =>
      simp only [hs, cond_true] at h1
      cases hv : mkV? (baseOf (get a 5)) (offOf (get a 5) + 8) with
      | none => simp [hv] at h1
      | some v' =>
        simp only [hv, Option.some.injEq] at h1
        subst h1
        obtain ⟨_, hvb, hvo⟩ := mkV?_some hv
        have hne := (isStk_true hs).1
        have hval := reg_val hr 5 (by omega) hne
        refine ⟨Or.inl ⟨rfl, _, φ, rfl, hf, FrStep.rfl _ _, ?_⟩, trivial⟩
        have h2 := rel_put_reg 4 v' (s.regs RBP + 8) (s.pc + 1) (by omega) hr
          (by right; unfold valI at hval ⊢; rw [hvb, hvo]; show s.regs 5 + 8 = _; omega)
        apply rel_put_reg 5 _ x (s.pc + 1) (by omega) h2
        apply slotVal_ok hr
        intro y hy; apply hx
        unfold valI at hval
        show s.mem (s.regs 5) = some y
        rw [hval]; exact hy

theorem step1_sound {ctx : Ctx} {code : List Instr} {s0 : St} {φ : Nat → Int} {a : A} {s s' : St} {i : Instr}
    {st' : Option A}
    (hstep : Step ctx.tab code s s') (hi : code[s.pc]? = some i) (h1 : step1 ctx i a = some st')
    (hf : FrOK ctx.frames s0 φ) (hr : Rel s0 φ a s) :
    Post ctx code s0 s.pc st' s' ∧ StoreBelow s0 s i :=
  let h := step1_soundF hstep hi h1 hf hr
  ⟨h.1.post, h.2⟩

/-! ## the threaded checker -/

/-- threaded state after a prefix of records (`none` = the checker rejected) -/
def runSt (ctx : Ctx) : List Instr → Option A → Option (Option A)
  | [], st => some st
  | i :: is, st =>
    match nextSt ctx i st with
    | none => none
    | some st' => runSt ctx is st'

theorem chk_split {ctx : Ctx} (l1 l2 : List Instr) (st : Option A) (h : chk ctx (l1 ++ l2) st = true) :
    ∃ st1, runSt ctx l1 st = some st1 ∧ chk ctx l2 st1 = true := by
  induction l1 generalizing st with
  | nil => exact ⟨st, rfl, h⟩
  | cons i is ih =>
    simp only [List.cons_append, chk] at h
    cases hn : nextSt ctx i st with
    | none => simp [hn] at h
    | some st' =>
      simp only [hn] at h
      obtain ⟨st1, h1, h2⟩ := ih st' h
      exact ⟨st1, by simp [runSt, hn, h1], h2⟩

theorem runSt_snoc {ctx : Ctx} (l : List Instr) (i : Instr) (st st1 st2 : Option A)
    (h1 : runSt ctx l st = some st1) (h2 : nextSt ctx i st1 = some st2) :
    runSt ctx (l ++ [i]) st = some st2 := by
  induction l generalizing st with
  | nil => simp [runSt] at h1; subst h1; simp [runSt, h2]
  | cons j js ih =>
    simp only [runSt] at h1
    cases hn : nextSt ctx j st with
    | none => simp [hn] at h1
    | some st' =>
      simp only [hn] at h1
      simp only [List.cons_append, runSt, hn]
      exact ih st' h1

/-- what the successful check says about position `pc` -/
theorem at_pc {ctx : Ctx} {code : List Instr} (hc : chk ctx code none = true) {pc : Nat} {i : Instr}
    (hi : code[pc]? = some i) :
    ∃ st1 st2, runSt ctx (code.take pc) none = some st1 ∧ nextSt ctx i st1 = some st2 ∧
      chk ctx (code.drop (pc + 1)) st2 = true ∧ runSt ctx (code.take (pc + 1)) none = some st2 := by
  obtain ⟨hlt, hget⟩ := List.getElem?_eq_some_iff.mp hi
  have hsplit : code = code.take pc ++ (i :: code.drop (pc + 1)) := by
    rw [← hget, ← List.drop_eq_getElem_cons hlt, List.take_append_drop]
  have hc' := hc
  rw [hsplit] at hc'
  obtain ⟨st1, h1, h2⟩ := chk_split _ _ _ hc'
  simp only [chk] at h2
  cases hn : nextSt ctx i st1 with
  | none => simp [hn] at h2
  | some st2 =>
    simp only [hn] at h2
    refine ⟨st1, st2, h1, hn, h2, ?_⟩
    have : code.take (pc + 1) = code.take pc ++ [i] := by
      rw [List.take_add_one, hi]; rfl
    rw [this]
    exact runSt_snoc _ _ _ _ _ h1 hn

theorem nextSt_nonlabel {ctx : Ctx} {i : Instr} (hnl : ∀ t, i ≠ .label t) (a : A) :
    nextSt ctx i (some a) = step1 ctx i a := by
  cases i <;> first | rfl | exact absurd rfl (hnl _)

theorem nextSt_none_nonlabel {ctx : Ctx} {i : Instr} (hnl : ∀ t, i ≠ .label t) :
    nextSt ctx i none = none := by
  cases i <;> first | rfl | exact absurd rfl (hnl _)

theorem nextSt_label {ctx : Ctx} {t : Nat} {st st2 : Option A} (h : nextSt ctx (.label t) st = some st2) :
    ∃ c, ctx.cert t = some c ∧ st2 = some c ∧ ∀ a, st = some a → le a c = true := by
  simp only [nextSt] at h
  cases hc : ctx.cert t with
  | none => simp [hc] at h
  | some c =>
    simp only [hc] at h
    cases st with
    | none =>
      simp at h
      exact ⟨c, rfl, h.symm, by intro a ha; cases ha⟩
    | some a =>
      simp only at h
      cases hle : le a c with
      | false => simp [hle] at h
      | true =>
        simp [hle] at h
        exact ⟨c, rfl, h.symm, by intro a' ha'; cases ha'; exact hle⟩

/-- the invariant: certificate at labels, threaded state elsewhere -/
def Inv (ctx : Ctx) (code : List Instr) (s0 s : St) : Prop :=
  (∀ t, code[s.pc]? = some (.label t) →
      ∃ φ c, FrOK ctx.frames s0 φ ∧ ctx.cert t = some c ∧ Rel s0 φ c s) ∧
  (∀ i, code[s.pc]? = some i → (∀ t, i ≠ .label t) →
      ∃ φ a, FrOK ctx.frames s0 φ ∧ runSt ctx (code.take s.pc) none = some (some a) ∧ Rel s0 φ a s)

/-- falling through to the next record -/
theorem land {ctx : Ctx} {code : List Instr} (hc : chk ctx code none = true) {s0 s' : St} {φ a' pc}
    (hrun : runSt ctx (code.take (pc + 1)) none = some (some a')) (hf : FrOK ctx.frames s0 φ)
    (hr : Rel s0 φ a' s') (hpc : s'.pc = pc + 1) : Inv ctx code s0 s' := by
  constructor
  · intro t ht
    rw [hpc] at ht
    obtain ⟨st1, st2, h1, h2, _, _⟩ := at_pc hc ht
    rw [hrun] at h1; cases h1
    obtain ⟨c, hcc, _, hle⟩ := nextSt_label h2
    exact ⟨φ, c, hf, hcc, rel_le hr (hle a' rfl)⟩
  · intro i _ _
    exact ⟨φ, a', hf, by rw [hpc]; exact hrun, hr⟩

theorem step_instr {tab : Nat → Nat} {code : List Instr} {s s' : St} (h : Step tab code s s') :
    ∃ i, code[s.pc]? = some i := by
  cases h <;> exact ⟨_, by assumption⟩

theorem step_label {tab : Nat → Nat} {code : List Instr} {s s' : St} {t : Nat} (h : Step tab code s s')
    (hi : code[s.pc]? = some (.label t)) : s' = ⟨s.pc + 1, s.regs, s.mem⟩ := by
  cases h <;> simp_all

theorem inv_step {ctx : Ctx} {code : List Instr} (hc : chk ctx code none = true) {s0 b c : St}
    (hinv : Inv ctx code s0 b) (hstep : Step ctx.tab code b c) : Inv ctx code s0 c := by
  obtain ⟨i, hi⟩ := step_instr hstep
  by_cases hl : ∃ t, i = .label t
  · obtain ⟨t, rfl⟩ := hl
    obtain ⟨φ, cst, hf, hcert, hr⟩ := hinv.1 t hi
    obtain ⟨st1, st2, _, h2, _, h4⟩ := at_pc hc hi
    obtain ⟨c', hcc, rfl, _⟩ := nextSt_label h2
    rw [hcert] at hcc; cases hcc
    have hc' := step_label hstep hi
    subst hc'
    exact land hc h4 hf hr rfl
  · have hnl : ∀ t, i ≠ .label t := fun t e => hl ⟨t, e⟩
    obtain ⟨φ, a, hf, hrun, hr⟩ := hinv.2 i hi hnl
    obtain ⟨st1, st2, h1, h2, _, h4⟩ := at_pc hc hi
    rw [hrun] at h1; cases h1
    rw [nextSt_nonlabel hnl] at h2
    obtain ⟨hpost, _⟩ := step1_sound hstep hi h2 hf hr
    rcases hpost with ⟨hpc, a', φ', rfl, hf', hr'⟩ | ⟨t, cst, φ', hlab, hcert, hf', hr'⟩
    · exact land hc h4 hf' hr' hpc
    · constructor
      · intro t' ht'
        rw [hlab] at ht'; cases ht'
        exact ⟨φ', cst, hf', hcert, hr'⟩
      · intro i' hi' hnl'
        rw [hlab] at hi'; cases hi'
        exact absurd rfl (hnl' t)

/-! ## initial state -/

theorem get_map_init (l : List Nat) (key : Nat) :
    get (l.map (fun r => (r, initV r))) key = if key ∈ l then initV key else 0 := by
  induction l with
  | nil => simp [get_nil]
  | cons x xs ih =>
    simp only [List.map, get_cons, ih, List.mem_cons]
    by_cases h : x = key
    · subst h; simp
    · have h' : ¬ key = x := fun e => h e.symm
      simp [h, h']

/-- the frame valuation used before any `and rsp` has been executed -/
def phi0 (fr : List (Int × Nat)) (s0 : St) : Nat → Int :=
  fun i => match fr[i]? with | some (k, _) => s0.regs 4 + k | none => 0

theorem frOK_phi0 (fr : List (Int × Nat)) (s0 : St) : FrOK fr s0 (phi0 fr s0) := by
  intro i k m h
  simp only [phi0, h, Int.ofNat_eq_natCast]
  omega

theorem rel_init (s0 : St) (φ : Nat → Int) : Rel s0 φ initA s0 := by
  constructor
  · intro r hlt
    unfold initA
    rw [get_map_init]
    have : r ∈ List.range 16 := List.mem_range.mpr hlt
    simp only [this, if_true]
    right
    obtain ⟨_, hb, ho⟩ := initV_base r
    unfold valI; rw [hb, ho]; simp [baseVal, hlt]
  · intro key hk
    unfold initA
    rw [get_map_init]
    have : ¬ key ∈ List.range 16 := by rw [List.mem_range]; omega
    simp only [this, if_false]
    left; rfl

/-- every reachable state satisfies the invariant -/
theorem invariant {ctx : Ctx} {code : List Instr} {entry : Nat} (h : checkFn ctx code entry = true)
    {s0 s : St} (h0 : labelIdx code entry = some s0.pc) (hs : Steps ctx.tab code s0 s) :
    Inv ctx code s0 s := by
  unfold checkFn at h
  simp only [Bool.and_eq_true] at h
  obtain ⟨⟨hinit, _⟩, hc⟩ := h
  induction hs with
  | refl =>
    have hlab := labelIdx_get h0
    cases hce : ctx.cert entry with
    | none => simp [hce] at hinit
    | some c =>
      simp only [hce] at hinit
      constructor
      · intro t ht
        rw [hlab] at ht; cases ht
        exact ⟨phi0 ctx.frames s0, c, frOK_phi0 _ _, hce, rel_le (rel_init s0 _) hinit⟩
      · intro i hi hnl
        rw [hlab] at hi; cases hi
        exact absurd rfl (hnl entry)
  | tail _ hstep ih => exact inv_step hc ih hstep

/-! ## the soundness theorem -/

/-- control is about to leave the function: `ret`, tail jump, or dispatch stub -/
def AtExit (code : List Instr) (s : St) : Prop :=
  code[s.pc]? = some .ret ∨ code[s.pc]? = some .tailInd ∨ ∃ g, code[s.pc]? = some (.tail g)

theorem exitOK_sound {s0 φ a s mask} (h : exitOK a mask = true) (hr : Rel s0 φ a s) :
    s.regs 4 = s0.regs 4 ∧ ∀ r, r < 16 → r ≠ 4 → bit mask r = false → s.regs r = s0.regs r := by
  unfold exitOK at h
  simp only [Bool.and_eq_true, beq_true_iff, List.all_eq_true, List.mem_range, Bool.or_eq_true] at h
  obtain ⟨h4, hall⟩ := h
  have key : ∀ r, r < 16 → get a r = initV r → s.regs r = s0.regs r := by
    intro r hlt he
    obtain ⟨h0, hb, ho⟩ := initV_base r
    have := reg_val hr r hlt (by rw [he]; exact h0)
    rw [this, he]; unfold valI; rw [hb, ho]; simp [baseVal, hlt]
  refine ⟨key 4 (by omega) h4, ?_⟩
  intro r hlt hne hbit
  rcases hall r hlt with (h1 | h2) | h3
  · exact absurd h1 hne
  · rw [hbit] at h2; cases h2
  · exact key r hlt h3

/-- **Soundness of the certificate checker.**  If `checkFn` accepts, then in every state `s` reachable
from an entry state `s0` (pc at the entry label; registers and memory arbitrary):
1. the current record is neither `forbidden` nor `unsupported`;
2. if the current record writes the stack (push / call / tracked store) it writes strictly below the
   entry stack pointer;
3. if the current record is an exit (`ret`, tail jump, dispatch stub), `rsp` and every register outside
   the clobber mask hold their entry values;
4. a tail jump only targets functions whose clobber summary is included in this function's. -/
theorem checkFn_sound {ctx : Ctx} {code : List Instr} {entry : Nat} (h : checkFn ctx code entry = true)
    {s0 s : St} (h0 : labelIdx code entry = some s0.pc) (hs : Steps ctx.tab code s0 s) :
    (∀ i, code[s.pc]? = some i → i ≠ .forbidden ∧ i ≠ .unsupported) ∧
    (∀ i s', code[s.pc]? = some i → Step ctx.tab code s s' → StoreBelow s0 s i) ∧
    (AtExit code s → s.regs 4 = s0.regs 4 ∧
        ∀ r, r < 16 → r ≠ 4 → bit ctx.mask r = false → s.regs r = s0.regs r) ∧
    (∀ g, code[s.pc]? = some (.tail g) → subMask (ctx.tab g) ctx.mask = true) := by
  have hinv := invariant h h0 hs
  have hc : chk ctx code none = true := by
    unfold checkFn at h; simp only [Bool.and_eq_true] at h; exact h.2
  -- the threaded state and the accepted transfer at a non-label record
  have core : ∀ i, code[s.pc]? = some i → (∀ t, i ≠ .label t) →
      ∃ φ a st2, FrOK ctx.frames s0 φ ∧ Rel s0 φ a s ∧ step1 ctx i a = some st2 := by
    intro i hi hnl
    obtain ⟨φ, a, hf, hrun, hr⟩ := hinv.2 i hi hnl
    obtain ⟨st1, st2, h1, h2, _, _⟩ := at_pc hc hi
    rw [hrun] at h1; cases h1
    rw [nextSt_nonlabel hnl] at h2
    exact ⟨φ, a, st2, hf, hr, h2⟩
  refine ⟨?_, ?_, ?_, ?_⟩
  · intro i hi
    constructor
    · intro e; subst e
      obtain ⟨_, _, _, _, _, h2⟩ := core _ hi (by intro t e; cases e)
      simp [step1] at h2
    · intro e; subst e
      obtain ⟨_, _, _, _, _, h2⟩ := core _ hi (by intro t e; cases e)
      simp [step1] at h2
  · intro i s' hi hstep
    by_cases hl : ∃ t, i = .label t
    · obtain ⟨t, rfl⟩ := hl; trivial
    · have hnl : ∀ t, i ≠ .label t := fun t e => hl ⟨t, e⟩
      obtain ⟨φ, a, st2, hf, hr, h2⟩ := core i hi hnl
      exact (step1_sound hstep hi h2 hf hr).2
  · intro hex
    rcases hex with hi | hi | ⟨g, hi⟩
    · obtain ⟨φ, a, st2, hf, hr, h2⟩ := core _ hi (by intro t e; cases e)
      simp only [step1] at h2
      cases he : exitOK a ctx.mask with
      | false => simp [he] at h2
      | true => exact exitOK_sound he hr
    · obtain ⟨φ, a, st2, hf, hr, h2⟩ := core _ hi (by intro t e; cases e)
      simp only [step1] at h2
      cases he : exitOK a ctx.mask with
      | false => simp [he] at h2
      | true => exact exitOK_sound he hr
    · obtain ⟨φ, a, st2, hf, hr, h2⟩ := core _ hi (by intro t e; cases e)
      simp only [step1] at h2
      cases he : exitOK a ctx.mask with
      | false => simp [he] at h2
      | true => exact exitOK_sound he hr
  · intro g hi
    obtain ⟨φ, a, st2, hf, hr, h2⟩ := core _ hi (by intro t e; cases e)
    simp only [step1] at h2
    cases he : (exitOK a ctx.mask && subMask (ctx.tab g) ctx.mask) with
    | false => simp [he] at h2
    | true => simp only [Bool.and_eq_true] at he; exact he.2

/-- C18, syntactic part: every `storeStatic` record of an accepted function targets an allowed symbol
(no reachability argument needed: the checker visits every record) -/
theorem checkFn_static {ctx : Ctx} {code : List Instr} {entry : Nat} (h : checkFn ctx code entry = true)
    {pc t : Nat} (hi : code[pc]? = some (.storeStatic t)) : ctx.allow t = true := by
  have hc : chk ctx code none = true := by
    unfold checkFn at h; simp only [Bool.and_eq_true] at h; exact h.2
  obtain ⟨st1, st2, _, h2, _, _⟩ := at_pc hc hi
  cases st1 with
  | none => simp [nextSt] at h2
  | some a =>
    simp only [nextSt, step1] at h2
    cases ha : ctx.allow t with
    | true => rfl
    | false => simp [ha] at h2

/-- likewise no record of an accepted function is `forbidden` or `unsupported`, reachable or not -/
theorem checkFn_noForbidden {ctx : Ctx} {code : List Instr} {entry : Nat} (h : checkFn ctx code entry = true)
    {pc : Nat} {i : Instr} (hi : code[pc]? = some i) : i ≠ .forbidden ∧ i ≠ .unsupported := by
  have hc : chk ctx code none = true := by
    unfold checkFn at h; simp only [Bool.and_eq_true] at h; exact h.2
  obtain ⟨st1, st2, _, h2, _, _⟩ := at_pc hc hi
  constructor <;> intro e <;> subst e <;> cases st1 <;> simp [nextSt, step1] at h2

/-- the SysV instance: callee-saved registers -/
theorem sysv_callee_saved (r : Nat) (hr : r ∈ calleeSaved) : r < 16 ∧ r ≠ 4 ∧ bit sysvMask r = false := by
  simp only [calleeSaved, List.mem_cons, List.mem_nil_iff, or_false] at hr
  rcases hr with rfl | rfl | rfl | rfl | rfl | rfl <;> decide

end IsalVerif.X86Abs
