import IsalVerif.Lemmas.CtxLayer
/-! Histories of API calls on one manager, with the abstract per-context streams as ghost state. -/
namespace IsalVerif.HashMB
variable {D : Type}

inductive Op where
  | submit (c : Cid) (data : Bytes) (flags : Nat)
  | flush

structure World (D : Type) where
  m : M D
  sp : Cid → SpecCtx

/-- one API call; the ghost stream of a context changes only by an *accepted* submit -/
def step (P : Params) (A : Alg D) (w : World D) : Op → Option (World D × Option Cid)
  | .submit c data flags =>
    match ctxSubmit A w.m c data flags with
    | none => none
    | some res =>
      some ({ m := res.1,
              sp := if rejects (w.m.ctxs c) flags then w.sp
                    else fun j => if j = c then specSubmit (w.sp c) data flags else w.sp j }, res.2)
  | .flush =>
    match ctxFlush P A (flushFuel w.m) w.m with
    | none => none
    | some res => some ({ m := res.1, sp := w.sp }, res.2)

def run (P : Params) (A : Alg D) : World D → List Op → Option (World D)
  | w, [] => some w
  | w, op :: ops => match step P A w op with
    | none => none
    | some r => run P A r.1 ops

/-- `isal_hash_ctx_init` on every context + `*_ctx_mgr_init`; the digest words are whatever was in
    memory (`garbage`) -/
def world0 (P : Params) (garbage : Cid → D) : World D :=
  { m := mgrInit P (fun c => { dig := garbage c, complete := true }), sp := fun _ => none }

structure Good (A : Alg D) (w : World D) : Prop where
  inv : Inv A w.m
  rel : ∀ j, Rel A (w.m.ctxs j) (w.sp j)

theorem world0_good (P : Params) (hP : 0 < P.nl) (A : Alg D) (hB : 0 < A.B) (g : Cid → D) :
    Good A (world0 P g) := by
  refine ⟨⟨mgrInit_ok P hP _ (fun _ => rfl), fun j => ?_, fun j h => ?_⟩, fun j => ?_⟩
  · simp [world0, mgrInit, Shape, hB]
  · simp [world0, mgrInit] at h
  · simp [world0, mgrInit, Rel]

theorem step_good (P : Params) (A : Alg D) (hB : 0 < A.B) (w : World D) (op : Op)
    (r : World D × Option Cid) (h : step P A w op = some r) (hg : Good A w) : Good A r.1 := by
  cases op with
  | submit c data flags =>
    simp only [step] at h
    cases hs : ctxSubmit A w.m c data flags with
    | none => rw [hs] at h; cases h
    | some res =>
      rw [hs] at h; simp only [Option.some.injEq] at h; subst h
      cases hrej : rejects (w.m.ctxs c) flags with
      | true =>
        obtain ⟨e, _, he⟩ := ctxSubmit_rejected A w.m c data flags hrej
        rw [he] at hs; cases hs
        exact ⟨setErr_inv A w.m c e hg.inv, by simpa using setErr_rel A w.m c e w.sp hg.rel⟩
      | false =>
        have := ctxSubmit_accepted A hB w.m c data flags res hrej hs hg.inv w.sp hg.rel
        exact ⟨this.inv, by simpa using this.rel⟩
  | flush =>
    simp only [step] at h
    cases hs : ctxFlush P A (flushFuel w.m) w.m with
    | none => rw [hs] at h; cases h
    | some res =>
      rw [hs] at h; simp only [Option.some.injEq] at h; subst h
      have := ctxFlush_post P A hB w.sp _ w.m res hs hg.inv hg.rel
      exact ⟨this.inv, this.rel⟩

theorem run_good (P : Params) (A : Alg D) (hB : 0 < A.B) :
    ∀ (ops : List Op) (w w' : World D), run P A w ops = some w' → Good A w → Good A w' := by
  intro ops
  induction ops with
  | nil => intro w w' h hg; simp [run] at h; subst h; exact hg
  | cons op ops ih =>
    intro w w' h hg
    simp only [run] at h
    cases hs : step P A w op with
    | none => rw [hs] at h; cases h
    | some r => rw [hs] at h; exact ih r.1 w' h (step_good P A hB w op r hs hg)

/-- what `Good` says about a context that is not in flight -/
theorem good_idle (A : Alg D) (w : World D) (hg : Good A w) (c : Cid)
    (hp : (w.m.ctxs c).processing = false) (b : Bytes) (closed : Bool) (hsp : w.sp c = some (b, closed)) :
    (w.m.ctxs c).complete = closed ∧ (w.m.ctxs c).total = b.length % 2^64 ∧
    (if closed then (w.m.ctxs c).dig = (target A b true).dig
     else (⟨(w.m.ctxs c).dig, (w.m.ctxs c).part⟩ : S UInt8 D) = absorb A.B A.f ⟨A.init, []⟩ b) := by
  have hr := hg.rel c
  rw [hsp] at hr
  obtain ⟨h1, h2, h3⟩ := hr
  have hsh := hg.inv.shape c
  have hl := hg.inv.idle_lane c hp
  have hlast : (w.m.ctxs c).last = false := (hsh.2.2.2 hp).1
  rw [hlast, Bool.false_or] at h3
  refine ⟨h3, h1, ?_⟩
  cases closed with
  | true =>
    simp only [if_true]
    have : settle A (w.m.ctxs c) = ⟨(w.m.ctxs c).dig, []⟩ := by simp [settle, hl, h3, hp]
    rw [this] at h2
    exact congrArg S.dig h2
  | false =>
    simp only [Bool.false_eq_true, if_false]
    rw [settle_idle A _ hsh hl hp h3] at h2
    simpa [target] using h2

end IsalVerif.HashMB
