import IsalVerif.Impl.HashMB
import IsalVerif.Lemmas.Absorb
/-!
# The settle abstraction

`settle A x` is the value context `x` *will* have once all its pending work is done: finish the
blocks still in its lane, absorb its `incoming` bytes, and if LAST is latched fold the padding
blocks and apply the final transform.  Every internal step of the manager — running the kernel,
retiring the minimum lane, `mgrSubmit`, `mgrFlush`, the whole `resubmit` loop — is settle-neutral
for every context.  Only a user submit changes `settle`, and it changes it by `absorb`.
-/
namespace IsalVerif.HashMB
variable {D : Type}

def pad (A : Alg D) (part : Bytes) (total : Nat) : List Bytes := hashPad A.B A.L A.lenBE part total

def settle (A : Alg D) (x : Ctx D) : S UInt8 D :=
  let d1 := match x.lane with | some (d, bs) => bs.foldl A.f d | none => x.dig
  if x.complete then (if x.processing then ⟨A.fin d1, []⟩ else ⟨d1, []⟩)
  else
    let s2 := absorb A.B A.f ⟨d1, x.part⟩ x.incoming
    if x.last then ⟨A.fin ((pad A s2.part x.total).foldl A.f s2.dig), []⟩ else s2

theorem settle_advance (A : Alg D) (k : Nat) (x : Ctx D) :
    settle A (advance A.f k x) = settle A x := by
  unfold advance
  cases hl : x.lane with
  | none => simp
  | some p =>
    obtain ⟨d, bs⟩ := p
    simp only [settle]
    have : (bs.drop k).foldl A.f ((bs.take k).foldl A.f d) = bs.foldl A.f d := by
      rw [← List.foldl_append, List.take_append_drop]
    simp [hl, this]

theorem pickMin_spec (m : M D) (k : Nat) (l : List Cid) (c : Cid) (h : pickMin m k l = some c) :
    c ∈ l ∧ laneLen (m.ctxs c) = k := by
  induction l with
  | nil => simp [pickMin] at h
  | cons x xs ih =>
    simp only [pickMin] at h
    split at h
    · cases h; exact ⟨List.mem_cons_self, by assumption⟩
    · obtain ⟨h1, h2⟩ := ih h; exact ⟨List.mem_cons_of_mem _ h1, h2⟩

/-- fields that only the context layer writes -/
def sameUser (x y : Ctx D) : Prop :=
  x.part = y.part ∧ x.incoming = y.incoming ∧ x.last = y.last ∧ x.complete = y.complete ∧
  x.total = y.total ∧ x.processing = y.processing ∧ x.error = y.error

theorem sameUser_refl (x : Ctx D) : sameUser x x := by simp [sameUser]

theorem advance_sameUser (f : D → Bytes → D) (k : Nat) (x : Ctx D) : sameUser (advance f k x) x := by
  unfold advance; split <;> simp [sameUser]

/-- the context map after running the kernel (`all` lanes or only lane `c`) -/
def ranCtxs (f : D → Bytes → D) (all : Bool) (m : M D) (k : Nat) (c : Cid) : Cid → Ctx D := fun j =>
  if (all && decide (j ∈ occupied m)) || decide (j = c) then advance f k (m.ctxs j) else m.ctxs j

theorem retireMin_eq (f : D → Bytes → D) (all : Bool) (m : M D) :
    retireMin f all m =
      match pickMin m (minLen m (occupied m)) (occupied m) with
      | none => (m, none)
      | some c => (retire m (ranCtxs f all m (minLen m (occupied m)) c) c, some c) := rfl

theorem ranCtxs_settle (A : Alg D) (all : Bool) (m : M D) (k : Nat) (c j : Cid) :
    settle A (ranCtxs A.f all m k c j) = settle A (m.ctxs j) := by
  unfold ranCtxs; split
  · exact settle_advance A k _
  · rfl

theorem ranCtxs_sameUser (f : D → Bytes → D) (all : Bool) (m : M D) (k : Nat) (c j : Cid) :
    sameUser (ranCtxs f all m k c j) (m.ctxs j) := by
  unfold ranCtxs; split
  · exact advance_sameUser f k _
  · exact sameUser_refl _

/-- retiring the minimum lane does not change what any context will settle to -/
theorem retireMin_settle (A : Alg D) (all : Bool) (m : M D) (j : Cid) :
    settle A ((retireMin A.f all m).1.ctxs j) = settle A (m.ctxs j) := by
  rw [retireMin_eq]
  cases hp : pickMin m (minLen m (occupied m)) (occupied m) with
  | none => rfl
  | some c =>
    obtain ⟨hmem, hlen⟩ := pickMin_spec m _ _ c hp
    simp only [retire]
    by_cases hjc : j = c
    · subst hjc
      simp only [if_true]
      -- the retired lane ran and has exactly k blocks: after the run nothing is left
      have hran : ranCtxs A.f all m (minLen m (occupied m)) j j = advance A.f (minLen m (occupied m)) (m.ctxs j) := by
        unfold ranCtxs; simp
      rw [hran]
      unfold advance
      cases hl : (m.ctxs j).lane with
      | none => simp [settle, hl]
      | some p =>
        obtain ⟨d, bs⟩ := p
        have hk : bs.length = minLen m (occupied m) := by simpa [laneLen, hl] using hlen
        have h1 : bs.take (minLen m (occupied m)) = bs := by rw [← hk]; exact List.take_length
        have h2 : bs.drop (minLen m (occupied m)) = [] := by rw [← hk]; exact List.drop_length
        simp [settle, hl, h1]
    · simp only [hjc, if_false]
      exact ranCtxs_settle A all m _ c j

theorem retireMin_sameUser (f : D → Bytes → D) (all : Bool) (m : M D) (j : Cid) :
    sameUser ((retireMin f all m).1.ctxs j) (m.ctxs j) := by
  rw [retireMin_eq]
  cases hp : pickMin m (minLen m (occupied m)) (occupied m) with
  | none => exact sameUser_refl _
  | some c =>
    simp only [retire]
    have h := ranCtxs_sameUser f all m (minLen m (occupied m)) c
    by_cases hjc : j = c
    · subst hjc
      simp only [if_true]
      have := h j
      simpa [sameUser] using this
    · simp only [hjc, if_false]; exact h j

theorem retireMin_ret (f : D → Bytes → D) (all : Bool) (m : M D) (r : Cid)
    (h : (retireMin f all m).2 = some r) : ((retireMin f all m).1.ctxs r).lane = none := by
  rw [retireMin_eq] at h ⊢
  cases hp : pickMin m (minLen m (occupied m)) (occupied m) with
  | none => simp [hp] at h
  | some c => simp [hp] at h ⊢; subst h; simp [retire]

theorem mgrSubmit_settle (A : Alg D) (m : M D) (c : Cid) (bs : List Bytes) (hfree : m.free ≠ [])
    (j : Cid) :
    settle A ((mgrSubmit A.f m c bs).1.ctxs j) =
      settle A (if j = c then { m.ctxs c with lane := some ((m.ctxs c).dig, bs) } else m.ctxs j) := by
  unfold mgrSubmit
  cases hf : m.free with
  | nil => exact absurd hf hfree
  | cons i fr =>
    simp only []
    split
    · rw [retireMin_settle]; simp [placed]
    · simp [placed]

theorem placed_sameUser (m : M D) (c : Cid) (bs) (i fr) (j : Cid) :
    sameUser ((placed m c bs i fr).ctxs j) (m.ctxs j) := by
  by_cases hjc : j = c
  · subst hjc; simp [sameUser, placed]
  · simp [sameUser, placed, hjc]

theorem sameUser_trans {x y z : Ctx D} (h1 : sameUser x y) (h2 : sameUser y z) : sameUser x z := by
  obtain ⟨a1, a2, a3, a4, a5, a6, a7⟩ := h1
  obtain ⟨b1, b2, b3, b4, b5, b6, b7⟩ := h2
  exact ⟨a1.trans b1, a2.trans b2, a3.trans b3, a4.trans b4, a5.trans b5, a6.trans b6, a7.trans b7⟩

theorem mgrSubmit_sameUser (f : D → Bytes → D) (m : M D) (c : Cid) (bs) (j : Cid) :
    sameUser ((mgrSubmit f m c bs).1.ctxs j) (m.ctxs j) := by
  unfold mgrSubmit
  cases hf : m.free with
  | nil => exact sameUser_refl _
  | cons i fr =>
    simp only []
    split
    · exact sameUser_trans (retireMin_sameUser f true _ j) (placed_sameUser m c bs i fr j)
    · exact placed_sameUser m c bs i fr j

theorem mgrSubmit_ret (f : D → Bytes → D) (m : M D) (c : Cid) (bs) (r : Cid)
    (h : (mgrSubmit f m c bs).2 = some r) : ((mgrSubmit f m c bs).1.ctxs r).lane = none := by
  unfold mgrSubmit at h ⊢
  cases hf : m.free with
  | nil => simp [hf] at h
  | cons i fr =>
    simp only [hf] at h ⊢
    split at h
    · rename_i hc; rw [if_pos hc]; exact retireMin_ret f true _ r h
    · cases h

theorem mgrFlush_settle (P : Params) (A : Alg D) (m : M D) (j : Cid) :
    settle A ((mgrFlush P A.f m).1.ctxs j) = settle A (m.ctxs j) := by
  unfold mgrFlush
  simp only []
  split
  · rfl
  · exact retireMin_settle A _ m j

theorem mgrFlush_sameUser (P : Params) (f : D → Bytes → D) (m : M D) (j : Cid) :
    sameUser ((mgrFlush P f m).1.ctxs j) (m.ctxs j) := by
  unfold mgrFlush
  simp only []
  split
  · exact sameUser_refl _
  · exact retireMin_sameUser f _ m j

theorem mgrFlush_ret (P : Params) (f : D → Bytes → D) (m : M D) (r : Cid)
    (h : (mgrFlush P f m).2 = some r) : ((mgrFlush P f m).1.ctxs r).lane = none := by
  unfold mgrFlush at h ⊢
  simp only [] at h ⊢
  split at h
  · cases h
  · rename_i hc; simp only [hc, if_false]; exact retireMin_ret f _ m r h

/-- side invariant of the context layer -/
def Shape (B : Nat) (x : Ctx D) : Prop :=
  x.part.length < B ∧ (x.part ≠ [] → x.incoming = []) ∧ (x.complete = true → x.incoming = []) ∧
  (x.processing = false → x.last = false ∧ x.incoming = [])

theorem shape_of_sameUser {B : Nat} {x y : Ctx D} (h : sameUser x y) (hy : Shape B y) : Shape B x := by
  obtain ⟨h1, h2, h3, h4, _, h6, _⟩ := h
  unfold Shape at *; rw [h1, h2, h3, h4, h6]; exact hy

end IsalVerif.HashMB
