import IsalVerif.Impl.SelfTestGeneric
import IsalVerif.Lemmas.SelfTestProofs
/-!
# C17, portable implementation — proofs about the abstract protocol of `fips/self_tests_generic.c`

Same structure as `Lemmas/SelfTestProofs.lean` (the x86 protocol), re-proved for the transition system of
`Impl/SelfTestGeneric.lean`:

* safety: an inductive invariant `PInv`, valid for any number of threads, any interleaving, any sequence
  `cfg` of early-out comparisons with verdicts, and **any** return values of the self-test functions (the
  winner publishes a constant, so no 0/1 hypothesis is needed here);
* stability of the published verdict;
* liveness: a potential function that strictly decreases whenever a thread that is neither finished nor
  waiting on `RUNNING` is scheduled; a waiting thread implies an unfinished, unblocked winner.

Ghost `owner` names the thread whose compare-and-swap succeeded; `uniq` says every thread in a winner state
*is* the owner; the ghost counters are pinned by the owner's control state (`okPC`).
-/
namespace IsalVerif.SelfTestGeneric
open IsalVerif.SelfTest (errSelfTest codeOf get_set set_get_self set_get_ne set_same replicate_get mod2_mem)

/-- control states of the thread that won the claim and has not yet published -/
def isWinner : PC → Bool
  | .runAes | .inAes | .runSha | .inSha | .pubFail | .pubOk => true
  | _ => false

/-- ghost counters of a finished, failed run: AES ran once; SHA ran at most once and is not running;
    exactly one non-zero return value -/
def failedGh (h : Ghost) : Prop :=
  h.aesIn = 1 ∧ h.aesOut = 1 ∧ h.shaIn = h.shaOut ∧ h.shaIn ≤ 1 ∧ h.fails = 1

/-- what always holds of the counters -/
def ghOk (h : Ghost) : Prop :=
  h.aesIn ≤ 1 ∧ h.aesOut ≤ h.aesIn ∧ h.shaIn ≤ h.aesOut ∧ h.shaOut ≤ h.shaIn ∧ h.fails ≤ 1

/-- what a thread in state `pc` knows about the shared state -/
def okPC (status : Nat) (h : Ghost) : PC → Prop
  | .fast kss => ∀ ks ∈ kss, ∀ k ∈ ks, k = 0 ∨ k = 1
  | .wait => status ≠ 2
  | .final => status = 0 ∨ status = 1
  | .runAes => status = 3 ∧ h = ⟨0, 0, 0, 0, 0⟩
  | .inAes => status = 3 ∧ h = ⟨1, 0, 0, 0, 0⟩
  | .runSha => status = 3 ∧ h = ⟨1, 1, 0, 0, 0⟩
  | .inSha => status = 3 ∧ h = ⟨1, 1, 1, 0, 0⟩
  | .pubOk => status = 3 ∧ h = ⟨1, 1, 1, 1, 0⟩
  | .pubFail => status = 3 ∧ failedGh h
  | .retn v => (status = 0 ∨ status = 1) ∧ v = codeOf status
  | .done v => (status = 0 ∨ status = 1) ∧ v = codeOf status

/-- the inductive invariant -/
structure PInv (g : G) : Prop where
  st   : g.status = 0 ∨ g.status = 1 ∨ g.status = 2 ∨ g.status = 3
  own  : g.status ≠ 3 → g.owner = none
  own3 : g.status = 3 → ∃ (i : Nat) (pc : PC), g.owner = some i ∧ g.th[i]? = some pc ∧ isWinner pc = true
  uniq : ∀ (j : Nat) (pc : PC), g.th[j]? = some pc → isWinner pc = true → g.owner = some j
  e2   : g.status = 2 → g.gh = ⟨0, 0, 0, 0, 0⟩
  e0   : g.status = 0 → g.gh = ⟨1, 1, 1, 1, 0⟩
  e1   : g.status = 1 → failedGh g.gh
  ent  : ghOk g.gh
  loc  : ∀ (j : Nat) (pc : PC), g.th[j]? = some pc → okPC g.status g.gh pc

@[simp] theorem Ghost.apply_tau (h : Ghost) : h.apply .tau = h := rfl

theorem init_inv {cfg : List (List Nat)} (hcfg : cfgOk cfg) (n : Nat) : PInv (G.init cfg n) where
  st := by simp [G.init]
  own := by simp [G.init]
  own3 := by simp [G.init]
  uniq := by
    intro j pc h hw
    have := replicate_get h; subst this; simp [isWinner] at hw
  e2 := by simp [G.init]
  e0 := by simp [G.init]
  e1 := by simp [G.init]
  ent := by simp [G.init, ghOk]
  loc := by
    intro j pc h
    have := replicate_get h; subst this; exact hcfg

/-- a non-winner thread's local knowledge survives the global changes made by the winner -/
theorem others_ok {s s' : Nat} {h h' : Ghost} {pc : PC} (hl : okPC s h pc) (hnw : isWinner pc = false)
    (hch : (s = 2 ∧ s' = 3) ∨ (s = 3 ∧ s' = 3) ∨ (s = 3 ∧ (s' = 0 ∨ s' = 1))) :
    okPC s' h' pc := by
  cases pc with
  | fast ks => exact hl
  | wait => simp only [okPC] at hl ⊢; omega
  | final => simp only [okPC] at hl ⊢; omega
  | retn v => simp only [okPC] at hl ⊢; omega
  | done v => simp only [okPC] at hl ⊢; omega
  | runAes => simp [isWinner] at hnw
  | inAes => simp [isWinner] at hnw
  | runSha => simp [isWinner] at hnw
  | inSha => simp [isWinner] at hnw
  | pubFail => simp [isWinner] at hnw
  | pubOk => simp [isWinner] at hnw

/-- steps that move one thread and leave status, counters and owner alone -/
theorem local_inv {g : G} {i : Nat} {old new : PC} (h : PInv g) (hi : g.th[i]? = some old)
    (hw : isWinner new = isWinner old) (hok : okPC g.status g.gh new) :
    PInv { g with th := g.th.set i new } where
  st := h.st
  own := h.own
  own3 := by
    intro h3
    obtain ⟨k, pc, hk, hpc, hwin⟩ := h.own3 h3
    by_cases hki : k = i
    · subst hki
      have : pc = old := by rw [hi] at hpc; exact (Option.some.inj hpc).symm
      subst this
      exact ⟨k, new, hk, set_get_self hi, by rw [hw]; exact hwin⟩
    · exact ⟨k, pc, hk, by show (g.th.set i new)[k]? = some pc; rw [set_get_ne hki]; exact hpc, hwin⟩
  uniq := by
    intro j pc hj hwin
    rcases get_set hj with ⟨rfl, rfl⟩ | ⟨_, hj'⟩
    · exact h.uniq j old hi (by rw [← hw]; exact hwin)
    · exact h.uniq j pc hj' hwin
  e2 := h.e2
  e0 := h.e0
  e1 := h.e1
  ent := h.ent
  loc := by
    intro j pc hj
    rcases get_set hj with ⟨rfl, rfl⟩ | ⟨_, hj'⟩
    · exact hok
    · exact h.loc j pc hj'

/-- under `PInv`, a thread other than the owner is not in a winner state -/
theorem not_winner {g : G} (h : PInv g) {j k : Nat} {pc : PC} (hj : g.th[j]? = some pc)
    (hown : g.owner = some k ∨ g.owner = none) (hne : g.owner = some k → j ≠ k) : isWinner pc = false := by
  cases hw : isWinner pc with
  | false => rfl
  | true =>
    have := h.uniq j pc hj hw
    rcases hown with ho | ho
    · rw [ho] at this; exact absurd (Option.some.inj this).symm (hne ho)
    · rw [ho] at this; cases this

/-- a step of the winner that stays a winner: status stays RUNNING, only the counters move -/
theorem winner_inv {g : G} {i : Nat} {old new : PC} {gh' : Ghost} (h : PInv g) (hi : g.th[i]? = some old)
    (hwo : isWinner old = true) (hwn : isWinner new = true) (h3 : g.status = 3)
    (hok : okPC 3 gh' new) (hent : ghOk gh') :
    PInv { g with gh := gh', th := g.th.set i new } := by
  have hown := h.uniq i old hi hwo
  refine ⟨h.st, h.own, ?_, ?_, ?_, ?_, ?_, hent, ?_⟩
  · intro _; exact ⟨i, new, hown, set_get_self hi, hwn⟩
  · intro j pc hj hwin
    rcases get_set hj with ⟨rfl, rfl⟩ | ⟨_, hj'⟩
    · exact hown
    · exact h.uniq j pc hj' hwin
  · intro h2; simp only at h2; omega
  · intro h0; simp only at h0; omega
  · intro h1; simp only at h1; omega
  · intro j pc hj
    rcases get_set hj with ⟨rfl, rfl⟩ | ⟨hne, hj'⟩
    · show okPC g.status gh' _; rw [h3]; exact hok
    · exact others_ok (h.loc j pc hj') (not_winner h hj' (Or.inl hown) (fun _ => hne)) (Or.inr (Or.inl ⟨h3, h3⟩))

/-- the winner publishes verdict `v` -/
theorem publish_inv {g : G} {i : Nat} {old : PC} {v r : Nat} (h : PInv g) (hi : g.th[i]? = some old)
    (hwo : isWinner old = true) (h3 : g.status = 3) (hv : v = 0 ∨ v = 1) (hr : r = codeOf v)
    (h0 : v = 0 → g.gh = ⟨1, 1, 1, 1, 0⟩) (h1 : v = 1 → failedGh g.gh) :
    PInv { g with status := v, owner := none, th := g.th.set i (.retn r) } := by
  have hown := h.uniq i old hi hwo
  refine ⟨by simp only; omega, fun _ => rfl, ?_, ?_, ?_, h0, h1, h.ent, ?_⟩
  · intro hv3; simp only at hv3; omega
  · intro j pc hj hwin
    rcases get_set hj with ⟨rfl, rfl⟩ | ⟨hne, hj'⟩
    · simp [isWinner] at hwin
    · have := not_winner h hj' (Or.inl hown) (fun _ => hne); rw [this] at hwin; cases hwin
  · intro h2; simp only at h2; omega
  · intro j pc hj
    rcases get_set hj with ⟨rfl, rfl⟩ | ⟨hne, hj'⟩
    · exact ⟨hv, hr⟩
    · exact others_ok (h.loc j pc hj') (not_winner h hj' (Or.inl hown) (fun _ => hne)) (Or.inr (Or.inr ⟨h3, hv⟩))

theorem codeOf_01 {k : Nat} (hk : k = 0 ∨ k = 1) : codeOf k = 0 ∨ codeOf k = errSelfTest := by
  rcases hk with rfl | rfl <;> simp [codeOf]

/-- **the invariant is inductive** — for any return values of the self-test functions -/
theorem step_inv {vals : List Nat} {g g' : G} (h : PInv g) (hs : Step vals g g') : PInv g' := by
  cases hs with
  | @mk i pc c o hi hc ht =>
  have hl := h.loc i pc hi
  cases pc with
  | fast ks =>
    cases ks with
    | nil =>
      -- (B) the compare-and-swap
      simp only [tstep] at ht
      split at ht
      · rename_i h2
        simp only [Option.some.injEq] at ht; subst ht
        have hnone := h.own (by omega)
        have he := h.e2 h2
        refine ⟨by simp [G.apply], by simp [G.apply], ?_, ?_, by simp [G.apply], by simp [G.apply],
          by simp [G.apply], by simpa [G.apply] using h.ent, ?_⟩
        · intro _; exact ⟨i, .runAes, by simp [G.apply, newOwner, h2], set_get_self hi, rfl⟩
        · intro j pc hj hwin
          rcases get_set hj with ⟨rfl, rfl⟩ | ⟨_, hj'⟩
          · simp [G.apply, newOwner, h2]
          · have := h.uniq j pc hj' hwin; rw [hnone] at this; cases this
        · intro j pc hj
          rcases get_set hj with ⟨rfl, rfl⟩ | ⟨_, hj'⟩
          · simp [G.apply, okPC, he]
          · exact others_ok (h.loc j pc hj') (not_winner (k := 0) h hj' (Or.inr hnone) (by rw [hnone]; intro x; cases x))
              (Or.inl ⟨h2, rfl⟩)
      · rename_i h2
        simp only [Option.some.injEq] at ht; subst ht
        have : g.apply i (.fast []) ⟨.wait, g.status, .tau⟩ = { g with th := g.th.set i .wait } := by
          simp [G.apply, newOwner, h2]
        rw [this]; exact local_inv h hi rfl h2
    | cons k ks =>
      -- (F) an early-out load
      simp only [tstep, Option.some.injEq] at ht; subst ht
      simp only [okPC] at hl
      have : g.apply i (.fast (k :: ks)) ⟨if g.status ∈ k then .retn (codeOf g.status) else .fast ks, g.status, .tau⟩
          = { g with th := g.th.set i (if g.status ∈ k then .retn (codeOf g.status) else .fast ks) } := by
        simp [G.apply, newOwner]
      rw [this]
      by_cases hk : g.status ∈ k
      · rw [if_pos hk]
        exact local_inv h hi rfl ⟨hl k (List.mem_cons_self) _ hk, rfl⟩
      · rw [if_neg hk]
        exact local_inv h hi rfl (fun k' hk' => hl k' (List.mem_cons_of_mem _ hk'))
  | runAes =>
    simp only [tstep, Option.some.injEq] at ht; subst ht
    simp only [okPC] at hl
    have : g.apply i .runAes ⟨.inAes, g.status, .enterAes⟩
        = { g with gh := g.gh.apply .enterAes, th := g.th.set i .inAes } := by simp [G.apply, newOwner]
    rw [this]
    exact winner_inv h hi rfl rfl hl.1 ⟨rfl, by rw [hl.2]; rfl⟩ (by rw [hl.2]; simp [ghOk, Ghost.apply])
  | inAes =>
    simp only [tstep, Option.some.injEq] at ht; subst ht
    simp only [okPC] at hl
    have : g.apply i .inAes ⟨if c = 0 then .runSha else .pubFail, g.status, .retAes c⟩
        = { g with gh := g.gh.apply (.retAes c), th := g.th.set i (if c = 0 then .runSha else .pubFail) } := by
      simp [G.apply, newOwner]
    rw [this]
    by_cases hc0 : c = 0
    · rw [if_pos hc0]
      exact winner_inv h hi rfl rfl hl.1 ⟨rfl, by rw [hl.2]; simp [Ghost.apply, hc0]⟩
        (by rw [hl.2]; simp [ghOk, Ghost.apply, hc0])
    · rw [if_neg hc0]
      exact winner_inv h hi rfl rfl hl.1 ⟨rfl, by rw [hl.2]; simp [failedGh, Ghost.apply, hc0]⟩
        (by rw [hl.2]; simp [ghOk, Ghost.apply, hc0])
  | runSha =>
    simp only [tstep, Option.some.injEq] at ht; subst ht
    simp only [okPC] at hl
    have : g.apply i .runSha ⟨.inSha, g.status, .enterSha⟩
        = { g with gh := g.gh.apply .enterSha, th := g.th.set i .inSha } := by simp [G.apply, newOwner]
    rw [this]
    exact winner_inv h hi rfl rfl hl.1 ⟨rfl, by rw [hl.2]; rfl⟩ (by rw [hl.2]; simp [ghOk, Ghost.apply])
  | inSha =>
    simp only [tstep, Option.some.injEq] at ht; subst ht
    simp only [okPC] at hl
    have : g.apply i .inSha ⟨if c = 0 then .pubOk else .pubFail, g.status, .retSha c⟩
        = { g with gh := g.gh.apply (.retSha c), th := g.th.set i (if c = 0 then .pubOk else .pubFail) } := by
      simp [G.apply, newOwner]
    rw [this]
    by_cases hc0 : c = 0
    · rw [if_pos hc0]
      exact winner_inv h hi rfl rfl hl.1 ⟨rfl, by rw [hl.2]; simp [Ghost.apply, hc0]⟩
        (by rw [hl.2]; simp [ghOk, Ghost.apply, hc0])
    · rw [if_neg hc0]
      exact winner_inv h hi rfl rfl hl.1 ⟨rfl, by rw [hl.2]; simp [failedGh, Ghost.apply, hc0]⟩
        (by rw [hl.2]; simp [ghOk, Ghost.apply, hc0])
  | pubFail =>
    simp only [tstep, Option.some.injEq] at ht; subst ht
    simp only [okPC] at hl
    have : g.apply i .pubFail ⟨.retn errSelfTest, 1, .tau⟩
        = { g with status := 1, owner := none, th := g.th.set i (.retn errSelfTest) } := by
      simp [G.apply, newOwner]
    rw [this]
    exact publish_inv h hi rfl hl.1 (Or.inr rfl) rfl (by intro h01; cases h01) (fun _ => hl.2)
  | pubOk =>
    simp only [tstep, Option.some.injEq] at ht; subst ht
    simp only [okPC] at hl
    have : g.apply i .pubOk ⟨.retn 0, 0, .tau⟩
        = { g with status := 0, owner := none, th := g.th.set i (.retn 0) } := by
      simp [G.apply, newOwner]
    rw [this]
    exact publish_inv h hi rfl hl.1 (Or.inl rfl) rfl (fun _ => hl.2) (by intro h01; cases h01)
  | wait =>
    simp only [tstep, Option.some.injEq] at ht; subst ht
    simp only [okPC] at hl
    have : g.apply i .wait ⟨if g.status = 3 then .wait else .final, g.status, .tau⟩
        = { g with th := g.th.set i (if g.status = 3 then .wait else .final) } := by
      simp [G.apply, newOwner]
    rw [this]
    by_cases h3 : g.status = 3
    · rw [if_pos h3]; exact local_inv h hi rfl (by simp [okPC, h3])
    · rw [if_neg h3]
      refine local_inv h hi rfl ?_
      simp only [okPC]; have := h.st; omega
  | final =>
    simp only [tstep, Option.some.injEq] at ht; subst ht
    simp only [okPC] at hl
    have : g.apply i .final ⟨.retn (codeOf g.status), g.status, .tau⟩
        = { g with th := g.th.set i (.retn (codeOf g.status)) } := by
      simp [G.apply, newOwner]
    rw [this]; exact local_inv h hi rfl ⟨hl, rfl⟩
  | retn v =>
    simp only [tstep, Option.some.injEq] at ht; subst ht
    simp only [okPC] at hl
    have : g.apply i (.retn v) ⟨.done v, g.status, .tau⟩ = { g with th := g.th.set i (.done v) } := by
      simp [G.apply, newOwner]
    rw [this]; exact local_inv h hi rfl hl
  | done v => simp [tstep] at ht

theorem reach_inv {cfg : List (List Nat)} (hcfg : cfgOk cfg) {vals : List Nat} {n : Nat} {g : G}
    (h : Reach cfg vals n g) : PInv g := by
  induction h with
  | init => exact init_inv hcfg n
  | step _ hs ih => exact step_inv ih hs

/-! ### stability of the published verdict -/

/-- once a verdict is published nothing changes the status word or the counters any more -/
theorem step_published {vals : List Nat} {g g' : G} (h : PInv g) (hs : Step vals g g')
    (hp : g.status = 0 ∨ g.status = 1) : g'.status = g.status ∧ g'.gh = g.gh := by
  cases hs with
  | @mk i pc c o hi hc ht =>
  have hl := h.loc i pc hi
  cases pc with
  | fast ks =>
    cases ks with
    | nil =>
      simp only [tstep] at ht
      split at ht
      · omega
      · simp only [Option.some.injEq] at ht; subst ht; simp [G.apply]
    | cons k ks => simp only [tstep, Option.some.injEq] at ht; subst ht; simp [G.apply]
  | done v => simp [tstep] at ht
  | wait => simp only [tstep, Option.some.injEq] at ht; subst ht; simp [G.apply]
  | final => simp only [tstep, Option.some.injEq] at ht; subst ht; simp [G.apply]
  | retn v => simp only [tstep, Option.some.injEq] at ht; subst ht; simp [G.apply]
  | runAes => simp only [okPC] at hl; omega
  | inAes => simp only [okPC] at hl; omega
  | runSha => simp only [okPC] at hl; omega
  | inSha => simp only [okPC] at hl; omega
  | pubFail => simp only [okPC] at hl; omega
  | pubOk => simp only [okPC] at hl; omega

theorem steps_inv {vals : List Nat} {g g' : G} (h : PInv g) (hs : Steps vals g g') : PInv g' := by
  induction hs with
  | refl => exact h
  | step _ hs ih => exact step_inv ih hs

theorem steps_published {vals : List Nat} {g g' : G} (h : PInv g)
    (hs : Steps vals g g') (hp : g.status = 0 ∨ g.status = 1) : g'.status = g.status ∧ g'.gh = g.gh := by
  induction hs with
  | refl => exact ⟨rfl, rfl⟩
  | step hss hs ih =>
    have := step_published (steps_inv h hss) hs (by rw [ih.1]; exact hp)
    exact ⟨this.1.trans ih.1, this.2.trans ih.2⟩

/-- a thread that has returned stays returned with the same value -/
theorem step_done {vals : List Nat} {g g' : G} (hs : Step vals g g') {j v : Nat}
    (hj : g.th[j]? = some (.done v)) : g'.th[j]? = some (.done v) := by
  cases hs with
  | @mk i pc c o hi hc ht =>
  by_cases hji : j = i
  · subst hji; rw [hi] at hj; cases hj; simp [tstep] at ht
  · show (g.th.set i o.pc)[j]? = _; rw [set_get_ne hji]; exact hj

theorem steps_done {vals : List Nat} {g g' : G} (hs : Steps vals g g') {j v : Nat}
    (hj : g.th[j]? = some (.done v)) : g'.th[j]? = some (.done v) := by
  induction hs with
  | refl => exact hj
  | step _ hs ih => exact step_done hs ih

/-! ### liveness under a fair scheduler -/

theorem fireWith_step {vals : List Nat} (g : G) (i c : Nat) (hc : c ∈ vals) :
    fireWith g i c = g ∨ Step vals g (fireWith g i c) := by
  unfold fireWith
  split
  · split
    · right; exact Step.mk ‹_› hc ‹_›
    · left; rfl
  · left; rfl

theorem fire_step (g : G) (i c : Nat) : fire g i c = g ∨ Step [0, 1] g (fire g i c) :=
  fireWith_step g i (c % 2) (mod2_mem c)

theorem fire_inv {g : G} (h : PInv g) (i c : Nat) : PInv (fire g i c) := by
  rcases fire_step g i c with he | hs
  · rw [he]; exact h
  · exact step_inv h hs

/-- remaining steps of a thread, not counting iterations of the wait loop -/
def rank : PC → Nat
  | .fast ks => 9 + ks.length | .runAes => 8 | .inAes => 7 | .runSha => 6 | .inSha => 5
  | .pubFail => 4 | .pubOk => 4 | .wait => 3 | .final => 2 | .retn _ => 1 | .done _ => 0

def pot (l : List PC) : Nat := (l.map rank).sum

theorem pot_set {l : List PC} {i : Nat} {old : PC} (new : PC) (h : l[i]? = some old) :
    pot (l.set i new) + rank old = pot l + rank new := by
  induction l generalizing i with
  | nil => simp at h
  | cons x xs ih =>
    cases i with
    | zero => simp at h; subst h; simp [pot]; omega
    | succ k =>
      simp at h
      have := ih h
      simp [pot] at this ⊢; omega

/-- thread state `pc` is waiting on `SELF_TEST_RUNNING` -/
def blocked (g : G) (pc : PC) : Bool := pc = PC.wait && g.status = 3

/-- every thread step lowers the thread's rank, except waiting on `RUNNING` -/
theorem tstep_rank {pc : PC} {s c : Nat} {o : TOut} (h : tstep pc s c = some o) :
    rank o.pc < rank pc ∨ (pc = .wait ∧ s = 3 ∧ o = ⟨.wait, s, .tau⟩) := by
  cases pc with
  | fast ks =>
    cases ks with
    | nil =>
      simp only [tstep] at h
      split at h <;> (simp only [Option.some.injEq] at h; subst h; left; simp [rank])
    | cons k ks =>
      simp only [tstep, Option.some.injEq] at h; subst h; left
      show rank (if s ∈ k then .retn (codeOf s) else .fast ks) < 9 + (ks.length + 1)
      split <;> simp [rank] <;> omega
  | wait =>
    simp only [tstep, Option.some.injEq] at h; subst h
    by_cases h3 : s = 3
    · right; simp [h3]
    · left; simp [h3, rank]
  | inAes => simp only [tstep, Option.some.injEq] at h; subst h; left; show rank (if _ then _ else _) < 7; split <;> simp [rank]
  | inSha => simp only [tstep, Option.some.injEq] at h; subst h; left; show rank (if _ then _ else _) < 5; split <;> simp [rank]
  | done v => simp [tstep] at h
  | runAes => simp only [tstep, Option.some.injEq] at h; subst h; left; simp [rank]
  | runSha => simp only [tstep, Option.some.injEq] at h; subst h; left; simp [rank]
  | pubFail => simp only [tstep, Option.some.injEq] at h; subst h; left; simp [rank]
  | pubOk => simp only [tstep, Option.some.injEq] at h; subst h; left; simp [rank]
  | final => simp only [tstep, Option.some.injEq] at h; subst h; left; simp [rank]
  | retn v => simp only [tstep, Option.some.injEq] at h; subst h; left; simp [rank]

/-- a firing strictly lowers the potential, unless the thread is absent, finished, or waiting on
    `RUNNING` (in which case nothing changes) -/
theorem fire_pot (g : G) (i c : Nat) :
    pot (fire g i c).th < pot g.th ∨
    (fire g i c = g ∧ ∀ pc, g.th[i]? = some pc → (notDone pc = false ∨ blocked g pc = true)) := by
  unfold fire fireWith
  split
  · rename_i pc hi
    split
    · rename_i o ht
      rcases tstep_rank ht with hlt | ⟨rfl, h3, rfl⟩
      · left; have := pot_set o.pc hi; simp only [G.apply]; omega
      · right
        refine ⟨?_, fun pc hpc => ?_⟩
        · have hs := set_same hi
          cases g; simp_all [G.apply, newOwner]
        · rw [hi] at hpc; cases hpc; right; simp [blocked, h3]
    · rename_i ht
      right; refine ⟨rfl, fun pc' hpc => ?_⟩
      rw [hi] at hpc; cases hpc
      cases pc with
      | done v => left; rfl
      | fast ks => cases ks <;> simp [tstep] at ht; split at ht <;> cases ht
      | _ => simp [tstep] at ht
  · rename_i h; right; refine ⟨rfl, fun pc hpc => ?_⟩; rw [h] at hpc; cases hpc

section
variable {cfg : List (List Nat)} (hcfg : cfgOk cfg)
include hcfg

theorem run_inv (n : Nat) (σ o : Nat → Nat) (t : Nat) : PInv (run cfg n σ o t) := by
  induction t with
  | zero => exact init_inv hcfg n
  | succ t ih => exact fire_inv ih _ _
end

theorem run_reach (cfg : List (List Nat)) (n : Nat) (σ o : Nat → Nat) (t : Nat) : Reach cfg [0, 1] n (run cfg n σ o t) := by
  induction t with
  | zero => exact Reach.init
  | succ t ih =>
    rcases fire_step (run cfg n σ o t) (σ t) (o t) with he | hs
    · show Reach _ _ _ (fire _ _ _); rw [he]; exact ih
    · exact Reach.step ih hs

theorem step_len {vals : List Nat} {g g' : G} (hs : Step vals g g') : g'.th.length = g.th.length := by
  cases hs; simp [G.apply]

theorem reach_len {cfg : List (List Nat)} {vals : List Nat} {n : Nat} {g : G} (h : Reach cfg vals n g) : g.th.length = n := by
  induction h with
  | init => simp [G.init]
  | step _ hs ih => rw [step_len hs]; exact ih

theorem run_len (cfg : List (List Nat)) (n : Nat) (σ o : Nat → Nat) (t : Nat) : (run cfg n σ o t).th.length = n :=
  reach_len (run_reach cfg n σ o t)

/-- over any interval either the potential dropped somewhere, or the state is unchanged -/
theorem interval (cfg : List (List Nat)) (n : Nat) (σ o : Nat → Nat) (t d : Nat) :
    (∃ t', t < t' ∧ t' ≤ t + d ∧ pot (run cfg n σ o t').th < pot (run cfg n σ o t).th) ∨
      run cfg n σ o (t + d) = run cfg n σ o t := by
  induction d with
  | zero => right; rfl
  | succ d ih =>
    rcases ih with ⟨t', h1, h2, h3⟩ | heq
    · left; exact ⟨t', h1, by omega, h3⟩
    · rcases fire_pot (run cfg n σ o (t + d)) (σ (t + d)) (o (t + d)) with hlt | ⟨he, _⟩
      · left; refine ⟨t + d + 1, by omega, by omega, ?_⟩
        have : pot (fire (run cfg n σ o (t + d)) (σ (t + d)) (o (t + d))).th < pot (run cfg n σ o t).th := by
          rw [heq] at hlt ⊢; exact hlt
        exact this
      · right
        have : fire (run cfg n σ o (t + d)) (σ (t + d)) (o (t + d)) = run cfg n σ o t := by rw [he, heq]
        exact this

/-- if some thread is unfinished, the potential eventually drops -/
theorem eventually_drops {cfg : List (List Nat)} (hcfg : cfgOk cfg) (n : Nat) (σ o : Nat → Nat) (hf : Fair cfg n σ o) (t : Nat)
    (hnd : ¬ allDone (run cfg n σ o t)) :
    ∃ t', t < t' ∧ pot (run cfg n σ o t').th < pot (run cfg n σ o t).th := by
  have hex : ∃ (j : Nat) (pc : PC), (run cfg n σ o t).th[j]? = some pc ∧ notDone pc = true := by
    unfold allDone at hnd
    obtain ⟨pc, hpc'⟩ := Classical.not_forall.mp hnd
    obtain ⟨hmem, hpc⟩ := Classical.not_imp.mp hpc'
    obtain ⟨j, hj⟩ := List.getElem?_of_mem hmem
    exact ⟨j, pc, hj, by simpa using hpc⟩
  obtain ⟨j, pc, hj, hpc⟩ := hex
  obtain ⟨t1, ht1, hσ1⟩ := hf j pc t hj hpc
  obtain ⟨d1, rfl⟩ : ∃ d, t1 = t + d := ⟨t1 - t, by omega⟩
  rcases interval cfg n σ o t d1 with ⟨t', h1, _, h3⟩ | heq1
  · exact ⟨t', h1, h3⟩
  rcases fire_pot (run cfg n σ o (t + d1)) (σ (t + d1)) (o (t + d1)) with hlt | ⟨he, hblk⟩
  · refine ⟨t + d1 + 1, by omega, ?_⟩
    have : pot (fire (run cfg n σ o (t + d1)) (σ (t + d1)) (o (t + d1))).th < pot (run cfg n σ o t).th := by
      rw [heq1] at hlt ⊢; exact hlt
    exact this
  -- j is blocked: waiting with status = 3, so an unfinished winner w exists
  rw [heq1, hσ1] at hblk
  have hb := hblk pc hj
  rcases hb with hb | hb
  · rw [hpc] at hb; cases hb
  have h3 : (run cfg n σ o t).status = 3 := by simp [blocked] at hb; exact hb.2
  obtain ⟨w, wpc, _, hw, hwin⟩ := (run_inv hcfg n σ o t).own3 h3
  have hwnd : notDone wpc = true := by cases wpc <;> simp [isWinner, notDone] at hwin ⊢
  have hstate1 : run cfg n σ o (t + d1 + 1) = run cfg n σ o t := by
    have : fire (run cfg n σ o (t + d1)) (σ (t + d1)) (o (t + d1)) = run cfg n σ o t := by rw [he, heq1]
    exact this
  obtain ⟨t2, ht2, hσ2⟩ := hf w wpc (t + d1 + 1) (by rw [hstate1]; exact hw) hwnd
  obtain ⟨d2, rfl⟩ : ∃ d, t2 = t + d1 + 1 + d := ⟨t2 - (t + d1 + 1), by omega⟩
  rcases interval cfg n σ o (t + d1 + 1) d2 with ⟨t', h1, _, h3'⟩ | heq2
  · exact ⟨t', by omega, by rw [hstate1] at h3'; exact h3'⟩
  rcases fire_pot (run cfg n σ o (t + d1 + 1 + d2)) (σ (t + d1 + 1 + d2)) (o (t + d1 + 1 + d2)) with hlt | ⟨_, hblk2⟩
  · refine ⟨t + d1 + 1 + d2 + 1, by omega, ?_⟩
    have : pot (fire (run cfg n σ o (t + d1 + 1 + d2)) (σ (t + d1 + 1 + d2)) (o (t + d1 + 1 + d2))).th
        < pot (run cfg n σ o t).th := by
      rw [heq2, hstate1] at hlt ⊢; exact hlt
    exact this
  · exfalso
    rw [heq2, hstate1, hσ2] at hblk2
    rcases hblk2 wpc hw with hb2 | hb2
    · rw [hwnd] at hb2; cases hb2
    · cases wpc <;> simp [isWinner, blocked] at hwin hb2

/-- under a fair schedule every thread returns -/
theorem all_finish {cfg : List (List Nat)} (hcfg : cfgOk cfg) (n : Nat) (σ o : Nat → Nat) (hf : Fair cfg n σ o) :
    ∃ t, allDone (run cfg n σ o t) := by
  suffices h : ∀ m t, pot (run cfg n σ o t).th ≤ m → ∃ t', allDone (run cfg n σ o t') from h _ 0 (Nat.le_refl _)
  intro m
  induction m with
  | zero =>
    intro t hm
    refine ⟨t, ?_⟩
    by_cases hd : allDone (run cfg n σ o t)
    · exact hd
    · obtain ⟨t', _, hlt⟩ := eventually_drops hcfg n σ o hf t hd; omega
  | succ m ih =>
    intro t hm
    by_cases hd : allDone (run cfg n σ o t)
    · exact ⟨t, hd⟩
    · obtain ⟨t', _, hlt⟩ := eventually_drops hcfg n σ o hf t hd
      exact ih t' (by omega)

/-- finished is final: once all threads have returned the state no longer changes -/
theorem allDone_fire {g : G} (h : allDone g) (i c : Nat) : fire g i c = g := by
  unfold fire fireWith
  split
  · rename_i pc hi
    have := h pc (List.mem_of_getElem? hi)
    cases pc <;> simp [notDone] at this
    simp [tstep]
  · rfl

theorem allDone_stable (cfg : List (List Nat)) (n : Nat) (σ o : Nat → Nat) {t : Nat} (h : allDone (run cfg n σ o t)) (d : Nat) :
    run cfg n σ o (t + d) = run cfg n σ o t := by
  induction d with
  | zero => rfl
  | succ d ih =>
    show fire (run cfg n σ o (t + d)) _ _ = _
    rw [ih]; exact allDone_fire h _ _

theorem stronglyFair_fair {cfg : List (List Nat)} {n : Nat} {σ : Nat → Nat} (h : StronglyFair n σ) (o : Nat → Nat) :
    Fair cfg n σ o := by
  intro i pc t hi _
  have hlt : i < n := by
    have := (List.getElem?_eq_some_iff.mp hi).1; rwa [run_len] at this
  exact h i hlt t

end IsalVerif.SelfTestGeneric
