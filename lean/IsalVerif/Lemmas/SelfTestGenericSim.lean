import IsalVerif.Impl.SelfTestGenericMachine
import IsalVerif.Lemmas.SelfTestGenericProofs
/-!
# C17, portable implementation — soundness of the simulation checker

`closed cfg P S = true` makes `S` a (stuttering) simulation relation between the thread-local states of
the instruction-level machine running `P` and the control states of the abstract protocol of
`Impl/SelfTestGeneric.lean` with early-out comparisons `cfg`, *for status words in {0,1,2,3} and self-test
outcomes in {0,1}*.  Along any machine execution we carry an abstract execution related by `Rel`; the
abstract invariant `PInv` bounds the status word, which licenses the next use of the check.  Hence every
reachable machine state is related to a reachable abstract state (`sim_reach`) and inherits the safety
theorems (`machine_safe`, `machine_stable`).  (Same proof as `Lemmas/SelfTestSim.lean`.)
-/
namespace IsalVerif.SelfTestGeneric
open IsalVerif.SelfTest (codeOf get_set set_get_self set_get_ne replicate_get)

/-- the machine state `cg` is represented by the abstract state `ag` -/
structure Rel (S : List (Local × PC)) (cg : CG) (ag : G) : Prop where
  status : cg.status = ag.status
  gh : cg.gh = ag.gh
  th : ∀ (i : Nat) (l : Local), cg.th[i]? = some l → ∃ p, ag.th[i]? = some p ∧ (l, p) ∈ S

/-! ### what the boolean check says -/

theorem closed_init {cfg : List (List Nat)} {P : Program} {S : List (Local × PC)} (h : closed cfg P S = true) :
    P.initStatus = 2 ∧ cfgOk cfg ∧ (Local.init, PC.fast cfg) ∈ S := by
  simp only [closed, Bool.and_eq_true, beq_iff_eq, List.contains_iff_mem, decide_eq_true_eq] at h
  exact ⟨h.1.1.1, h.1.1.2, h.1.2⟩

theorem closed_pair {cfg : List (List Nat)} {P : Program} {S : List (Local × PC)} (h : closed cfg P S = true) {e : Local × PC}
    (he : e ∈ S) : pairOk P S e = true := by
  simp only [closed, Bool.and_eq_true, List.all_eq_true] at h
  exact h.2 e he

theorem pairOk_res {P : Program} {S : List (Local × PC)} {e : Local × PC} (h : pairOk P S e = true)
    {v : Nat} (hr : e.1.res = some v) : e.2 = .done v := by
  simp only [pairOk, hr, beq_iff_eq] at h; exact h

theorem pairOk_step {P : Program} {S : List (Local × PC)} {e : Local × PC} (h : pairOk P S e = true)
    (hr : e.1.res = none) {s v : Nat} (hs : s ∈ statusDom) (hv : v ∈ outcomeDom) :
    ∃ e', simStep P e s v = some e' ∧ e' ∈ S := by
  simp only [pairOk, hr, Bool.and_eq_true, List.all_eq_true] at h
  have := h.2 s hs v hv
  split at this
  · rename_i e' he'; exact ⟨e', he', by simpa using this⟩
  · cases this

theorem pairOk_live {P : Program} {S : List (Local × PC)} {e : Local × PC} (h : pairOk P S e = true)
    (hr : e.1.res = none) : notDone e.2 = true ∧ localBound P localFuel e = true := by
  simp only [pairOk, hr, Bool.and_eq_true] at h
  exact h.1

/-- meaning of a successful joint step -/
theorem simStep_spec {P : Program} {l l' : Local} {p p' : PC} {s v : Nat}
    (h : simStep P (l, p) s v = some (l', p')) :
    ∃ s' ev, cstep P l s v = some (l', s', ev) ∧
      ((visible P l = false ∧ p' = p ∧ s' = s ∧ ev = .tau) ∨
       (visible P l = true ∧ ∃ o, tstep p s v = some o ∧ o.status = s' ∧ o.ev = ev ∧ p' = o.pc)) := by
  unfold simStep at h
  split at h
  · cases h
  · rename_i l1 s' ev hc
    refine ⟨s', ev, ?_⟩
    split at h
    · rename_i hvis
      split at h
      · rename_i o ht
        split at h
        · rename_i hcond
          simp only [Option.some.injEq, Prod.mk.injEq] at h
          obtain ⟨rfl, rfl⟩ := h
          exact ⟨hc, Or.inr ⟨hvis, o, ht, hcond.1, hcond.2, rfl⟩⟩
        · cases h
      · cases h
    · rename_i hvis
      split at h
      · rename_i hcond
        simp only [Option.some.injEq, Prod.mk.injEq] at h
        obtain ⟨rfl, rfl⟩ := h
        exact ⟨hc, Or.inl ⟨by simpa using hvis, rfl, hcond.1, hcond.2⟩⟩
      · cases h

theorem cstep_res_none {P : Program} {l : Local} {s v : Nat} {r} (h : cstep P l s v = some r) : l.res = none := by
  unfold cstep at h
  split at h
  · cases h
  · rename_i hn; cases hr : l.res with
    | none => rfl
    | some x => simp [hr] at hn

theorem mem_statusDom {s : Nat} (h : s = 0 ∨ s = 1 ∨ s = 2 ∨ s = 3) : s ∈ statusDom := by
  rcases h with rfl | rfl | rfl | rfl <;> simp [statusDom]

theorem mem_outcomeDom {v : Nat} (h : v = 0 ∨ v = 1) : v ∈ outcomeDom := by
  rcases h with rfl | rfl <;> simp [outcomeDom]

/-! ### the simulation -/

theorem rel_init {cfg : List (List Nat)} {P : Program} {S : List (Local × PC)} (h : closed cfg P S = true) (n : Nat) :
    Rel S (CG.init P n) (G.init cfg n) where
  status := by simp [CG.init, G.init, (closed_init h).1]
  gh := rfl
  th := by
    intro i l hi
    have hl : l = Local.init := replicate_get hi
    have hlt : i < n := by
      have := (List.getElem?_eq_some_iff.mp hi).1; simpa [CG.init] using this
    subst hl
    exact ⟨.fast cfg, by simp [G.init, hlt], (closed_init h).2.2⟩

/-- one machine instruction is matched by no abstract step (thread-local instruction) or by exactly
    one abstract step (visible instruction) -/
theorem sim_step {cfg : List (List Nat)} {P : Program} {S : List (Local × PC)} (hc : closed cfg P S = true) {vals : List Nat}
    (hv : ∀ v ∈ vals, v = 0 ∨ v = 1) {cg cg' : CG} {ag : G} (hinv : PInv ag) (hR : Rel S cg ag)
    (hs : CStep P vals cg cg') : ∃ ag', (ag' = ag ∨ Step vals ag ag') ∧ Rel S cg' ag' := by
  cases hs with
  | @mk i l l' v s' ev hi hvv hstep =>
  obtain ⟨p, hp, hmem⟩ := hR.th i l hi
  have hpair := closed_pair hc hmem
  have hst : cg.status ∈ statusDom := mem_statusDom (by rw [hR.status]; exact hinv.st)
  obtain ⟨⟨l1, p'⟩, hsim, hmem'⟩ := pairOk_step hpair (cstep_res_none hstep) hst (mem_outcomeDom (hv v hvv))
  obtain ⟨s1, ev1, hstep1, hcase⟩ := simStep_spec hsim
  rw [hstep] at hstep1
  simp only [Option.some.injEq, Prod.mk.injEq] at hstep1
  obtain ⟨rfl, rfl, rfl⟩ := hstep1
  rcases hcase with ⟨_, rfl, rfl, rfl⟩ | ⟨_, o, ht, rfl, rfl, rfl⟩
  · -- thread-local instruction: stutter
    refine ⟨ag, Or.inl rfl, ⟨hR.status, by simpa using hR.gh, ?_⟩⟩
    intro j lj hj
    rcases get_set hj with ⟨rfl, rfl⟩ | ⟨_, hj'⟩
    · exact ⟨p', hp, hmem'⟩
    · exact hR.th j lj hj'
  · -- visible instruction: the abstract thread takes its step
    rw [hR.status] at ht
    refine ⟨ag.apply i p o, Or.inr (Step.mk hp hvv ht), ⟨rfl, ?_, ?_⟩⟩
    · show cg.gh.apply _ = ag.gh.apply _; rw [hR.gh]
    · intro j lj hj
      rcases get_set hj with ⟨rfl, rfl⟩ | ⟨hne, hj'⟩
      · exact ⟨o.pc, set_get_self hp, hmem'⟩
      · obtain ⟨q, hq, hqm⟩ := hR.th j lj hj'
        exact ⟨q, by show (ag.th.set i o.pc)[j]? = some q; rw [set_get_ne hne]; exact hq, hqm⟩

/-- every reachable machine state is represented by a reachable abstract state -/
theorem sim_reach {cfg : List (List Nat)} {P : Program} {S : List (Local × PC)} (hc : closed cfg P S = true) {vals : List Nat}
    (hv : ∀ v ∈ vals, v = 0 ∨ v = 1) {n : Nat} {cg : CG} (h : CReach P vals n cg) :
    ∃ ag, Reach cfg vals n ag ∧ Rel S cg ag := by
  induction h with
  | init => exact ⟨G.init cfg n, Reach.init, rel_init hc n⟩
  | step _ hs ih =>
    obtain ⟨ag, hreach, hR⟩ := ih
    obtain ⟨ag', hor, hR'⟩ := sim_step hc hv (reach_inv (closed_init hc).2.1 hreach) hR hs
    rcases hor with rfl | hstep
    · exact ⟨ag', hreach, hR'⟩
    · exact ⟨ag', Reach.step hreach hstep, hR'⟩

/-! ### the safety theorems, transported to the instruction-level machine -/

/-- **machine-level safety**: for any program accepted by `simCheck`, any number of threads, any
    interleaving of their *instructions*: each self-test function is called at most once, SHA only after AES
    returned, at most one non-zero return value (`ghOk`); the status word is one of the four encodings; and
    a thread that has returned `v` from `isal_self_tests` did so after the verdict was published, `v` is the
    code of the published verdict, and the ghost counters are those of a finished run: verdict OK means both
    functions were called once, have returned, and returned 0; verdict FAIL means AES was called once and
    returned, SHA was called at most once and is not running, and exactly one of them returned non-zero. -/
theorem machine_safe {P : Program} (hc : simCheck P = true) {vals : List Nat}
    (hv : ∀ v ∈ vals, v = 0 ∨ v = 1) {n : Nat} {cg : CG} (h : CReach P vals n cg) :
    ghOk cg.gh ∧
    (cg.status = 0 ∨ cg.status = 1 ∨ cg.status = 2 ∨ cg.status = 3) ∧
    ∀ (j : Nat) (l : Local) (v : Nat), cg.th[j]? = some l → l.res = some v →
      (cg.status = 0 ∨ cg.status = 1) ∧ v = codeOf cg.status ∧
      (cg.status = 0 → cg.gh = ⟨1, 1, 1, 1, 0⟩) ∧ (cg.status = 1 → failedGh cg.gh) := by
  obtain ⟨ag, hreach, hR⟩ := sim_reach hc hv h
  have hinv := reach_inv (closed_init hc).2.1 hreach
  rw [hR.status, hR.gh]
  refine ⟨hinv.ent, hinv.st, fun j l v hj hres => ?_⟩
  obtain ⟨p, hp, hmem⟩ := hR.th j l hj
  have hd := pairOk_res (closed_pair hc hmem) hres
  simp only at hd; subst hd
  have hl := hinv.loc j _ hp
  simp only [okPC] at hl
  exact ⟨hl.1, hl.2, hinv.e0, hinv.e1⟩

/-- **machine-level stability**: once a verdict is in the status word no instruction of any thread
    changes the word or the counters (in particular nobody overwrites the verdict or runs a test again) -/
theorem machine_stable {P : Program} (hc : simCheck P = true) {vals : List Nat}
    (hv : ∀ v ∈ vals, v = 0 ∨ v = 1) {n : Nat} {cg cg' : CG} (h : CReach P vals n cg)
    (hp : cg.status = 0 ∨ cg.status = 1) (hs : CStep P vals cg cg') :
    cg'.status = cg.status ∧ cg'.gh = cg.gh := by
  obtain ⟨ag, hreach, hR⟩ := sim_reach hc hv h
  have hinv := reach_inv (closed_init hc).2.1 hreach
  obtain ⟨ag', hor, hR'⟩ := sim_step hc hv hinv hR hs
  rw [hR'.status, hR'.gh, hR.status, hR.gh]
  rcases hor with rfl | hstep
  · exact ⟨rfl, rfl⟩
  · exact step_published hinv hstep (by rw [← hR.status]; exact hp)

/-! ### executable schedules are executions -/

theorem cfire_reach {P : Program} {vals : List Nat} {n : Nat} {g : CG} (h : CReach P vals n g)
    (i : Nat) {v : Nat} (hv : v ∈ vals) : CReach P vals n (cfire P g i v) := by
  unfold cfire
  split
  · split
    · exact CReach.step h (CStep.mk ‹_› hv ‹_›)
    · exact h
  · exact h

theorem cfireN_reach {P : Program} {vals : List Nat} {n : Nat} {g : CG} (h : CReach P vals n g)
    (i : Nat) {v : Nat} (hv : v ∈ vals) (k : Nat) : CReach P vals n (cfireN P g i v k) := by
  induction k generalizing g with
  | zero => exact h
  | succ k ih => exact ih (cfire_reach h i hv)

theorem crunList_reach {P : Program} {vals : List Nat} {n : Nat} {g : CG} (h : CReach P vals n g)
    (sched : List (Nat × Nat × Nat)) (hs : ∀ x ∈ sched, x.2.2 ∈ vals) :
    CReach P vals n (crunList P g sched) := by
  induction sched generalizing g with
  | nil => exact h
  | cons x rest ih =>
    obtain ⟨i, k, v⟩ := x
    exact ih (cfireN_reach h i (hs (i, k, v) List.mem_cons_self) k)
      (fun y hy => hs y (List.mem_cons_of_mem _ hy))

end IsalVerif.SelfTestGeneric
