import IsalVerif.Gen.MhInit
import IsalVerif.Lemmas.MhInitCProofs
/-!
  Per-run obligations over `Gen/MhInit.lean` (regenerated from the current tree by `tools/gen_mhinit.py`): the three
  multi-hash init functions, as the source reads now, are the programs whose meaning `Lemmas/MhInitCProofs.lean` gives
  (the initial contexts of the streaming model; in the stitched variant both murmur state words are the seed).
-/
namespace IsalVerif.GenProps.MhInit
open IsalVerif IsalVerif.MhInitC

/-- THE PER-RUN OBLIGATION -/
theorem all_canon : Gen.MhInit.all.all (fun x =>
    match paramsOf x.fn with
    | some (hs, m) => decide (x.prog = canon hs m)
    | none => false) = true := by decide

theorem all_present : ["_mh_sha1_init", "_mh_sha256_init", "_mh_sha1_murmur3_x64_128_init"].all
    (fun n => Gen.MhInit.all.any (fun x => decide (x.fn = n))) = true := by decide

/-- the stitched init of the current tree: for every seed, zeroed context, SHA-1 initial value in all 16 segments, both
    murmur words = seed -/
theorem stitched_init_current (x : Src) (hx : x ∈ Gen.MhInit.all) (hn : x.fn = "_mh_sha1_murmur3_x64_128_init")
    (seed : UInt64) : ∃ s, (run x.prog).res = some (s, 0) ∧ s.zeroed = true ∧
      (Mh.stitchedInit seed).interim = (interimOf s 5, murOf s seed) := by
  have h := List.all_eq_true.mp all_canon x hx
  have hp : paramsOf x.fn = some (sha1H, true) := by rw [hn]; decide
  rw [hp] at h
  rw [of_decide_eq_true h]
  exact canon_stitched seed

theorem mh_init_current (x : Src) (hx : x ∈ Gen.MhInit.all) :
    (x.fn = "_mh_sha1_init" → ∃ s, (run x.prog).res = some (s, 0) ∧ s.zeroed = true ∧ s.mur = [] ∧
      interimOf s 5 = (Mh.init MultiHash.sha1).interim) ∧
    (x.fn = "_mh_sha256_init" → ∃ s, (run x.prog).res = some (s, 0) ∧ s.zeroed = true ∧ s.mur = [] ∧
      interimOf s 8 = (Mh.init MultiHash.sha256).interim) := by
  have h := List.all_eq_true.mp all_canon x hx
  constructor
  · intro hn
    have hp : paramsOf x.fn = some (sha1H, false) := by rw [hn]; decide
    rw [hp] at h
    rw [of_decide_eq_true h]
    exact canon_sha1
  · intro hn
    have hp : paramsOf x.fn = some (sha256H, false) := by rw [hn]; decide
    rw [hp] at h
    rw [of_decide_eq_true h]
    exact canon_sha256

end IsalVerif.GenProps.MhInit
