import IsalVerif.Gen.TopUp
import IsalVerif.Lemmas.TopUpCProofs
/-!
  Per-run obligations over `Gen/TopUp.lean` (regenerated from the current tree by `tools/gen_topup.py`): the block of
  `_<alg>_ctx_mgr_submit_<family>` that tops up / completes the carried partial block, as the source reads now,
  computes the first half of the model's `HashMB.submitTail` for every partial length below a block and every
  caller buffer: bytes appended to the partial buffer, the caller's remaining bytes, the partial length reset to 0
  and one block submitted from the partial buffer exactly when it became full (C01, C06).
-/
namespace IsalVerif.GenProps.TopUp
open IsalVerif IsalVerif.TopUpC IsalVerif.HashMB

def blockOf : String → Option Nat
  | "sha1" => some 64 | "sha256" => some 64 | "sha512" => some 128 | "md5" => some 64 | "sm3" => some 64
  | _ => none

def srcOk (x : Src) : Bool :=
  match blockOf x.alg with
  | some B => decide (x.prog = canon B)
  | none => false

/-- THE PER-RUN OBLIGATION -/
theorem all_canon : Gen.TopUp.all.all srcOk = true := by decide

theorem all_count : 23 ≤ Gen.TopUp.all.length := by decide

theorem topup_current (x : Src) (hx : x ∈ Gen.TopUp.all) :
    ∃ B, blockOf x.alg = some B ∧
      ∀ (s : ResubmitC.St) (len : Nat), len < 2^32 → len = s.incoming.length → s.inlen = len → s.locs 0 = len →
        s.plen = s.part.length → s.plen < B → (run x.prog { s := s }).obs = topSpec B s len := by
  have h := List.all_eq_true.mp all_canon x hx
  unfold srcOk at h
  split at h
  · rename_i B hs
    refine ⟨B, hs, ?_⟩
    intro s len h1 h2 h3 h4 h5 h6
    rw [of_decide_eq_true h]
    have hB : B = 64 ∨ B = 128 := by
      unfold blockOf at hs
      split at hs <;> simp only [Option.some.injEq, reduceCtorEq] at hs <;> (subst hs; simp)
    exact canon_topup B hB s len h1 h2 h3 h4 h5 h6
  · cases h

end IsalVerif.GenProps.TopUp
