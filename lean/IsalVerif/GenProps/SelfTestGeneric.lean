import IsalVerif.Gen.SelfTestGeneric
import IsalVerif.Props.C17Generic
/-!
# C17, portable gate — per-run obligations over the regenerated `isal_self_tests` of `self_tests_generic.o`

Re-evaluated by the kernel on every run, over `Gen/SelfTestGeneric.lean` (translated from the
`FIPS_MODE=y arch=noarch` build of the current tree):

* `sim_ok` — the instruction sequence of `isal_self_tests`, executed by the instruction-level machine of
  `Impl/SelfTestGenericMachine.lean`, refines the abstract protocol of `Impl/SelfTestGeneric.lean`:
  `simCheck` explores all (machine state, abstract state) pairs and checks the step correspondence.  Nothing
  is pinned to a reference listing: a different register allocation, block layout, order / number of
  early-out loads is accepted as long as the protocol is the same; an unsupported instruction, a claim by
  `xchg` instead of `lock cmpxchg`, a missing publishing store, a loser that returns without waiting, an
  early-out on a value that is not a verdict, a wrong constant … make it fail.
* `closed_world_ok` — this really is the portable configuration (`isal_self_tests` is defined by
  `self_tests_generic.o` alone, no object or symbol of the x86 gate is in the library), nobody else can touch
  the status word (file-local symbol, referenced only from inside `isal_self_tests`) or call the self-test
  functions (imported by `self_tests_generic.o` only), the self-test objects import no gated `isal_*`
  entry point (which would re-enter the gate and deadlock), and — two facts the x86 object code cannot show —
  the C source declares the status word `static atomic_int` and uses no memory order weaker than
  `memory_order_seq_cst` (the model is sequentially consistent; other targets compile weaker orders
  differently).
* `return_values_ok` — `_aes_self_tests` / `_sha_self_tests` return 0 or 1 (extracted from the C sources; the
  machine check ranges over these two outcomes).
-/
namespace IsalVerif.GenProps.SelfTestGeneric
open IsalVerif.SelfTest (codeOf wordOfInt)
open IsalVerif.SelfTestGeneric IsalVerif.Gen.SelfTestGeneric

def closedWorld : Bool :=
  gateDefiners == ["self_tests_generic.o"] && x86GateObjects.isEmpty &&
  statusSymbolLocal && strayStatusRefs.isEmpty && selfTestIsalImports.isEmpty &&
  importers.length == 2 && (importers.all fun e => e.2 == ["self_tests_generic.o"]) &&
  statusDeclAtomic && sourceMemoryOrders.all (· == "memory_order_seq_cst")

/-- rows of the return table that violate the 0/1 contract -/
def offending : List (String × Int × String) := returnTable.filter fun r => r.2.1 != 0 && r.2.1 != 1

-- diagnostics: when a check fails, say which and name the instructions that do not match the protocol
#eval show IO Unit from do
  unless simCheck program do
    throw <| IO.userError <| "C17 (portable gate) obligation sim_ok FAILS — the translated instruction sequence of " ++
      "isal_self_tests (self_tests_generic.o) does not refine the protocol; early-out comparisons guessed: " ++
      toString (guessCfg program) ++ "; mismatching (function, instruction index, abstract state): " ++
      toString (repr (simFailures program)) ++ s!"; initial status word {initialStatus}"
  unless closedWorld do
    throw <| IO.userError s!"C17 (portable gate) closed-world check FAILS: gateDefiners={gateDefiners} x86GateObjects={x86GateObjects} statusSymbolLocal={statusSymbolLocal} strayStatusRefs={strayStatusRefs} selfTestIsalImports={selfTestIsalImports} importers={importers} statusDeclAtomic={statusDeclAtomic} sourceMemoryOrders={sourceMemoryOrders}"
  unless offending.isEmpty do
    let lines := offending.map fun r => s!"  {r.1} can return {r.2.1}   [{r.2.2}]"
    throw <| IO.userError <| "C17 (portable gate) obligation return_values_ok FAILS — self-test return values outside {0,1}:\n" ++
      String.intercalate "\n" lines

/-- **obligation: the compiled code refines the protocol** -/
theorem sim_ok : simCheck program = true := by decide +kernel

/-- **closed world** -/
theorem closed_world_ok : closedWorld = true := by decide

/-- the return table and the value lists used in the theorems are the same data -/
theorem return_table_consistent :
    (returnTable.filter (·.1 == "_aes_self_tests")).map (·.2.1) = aesReturnValues ∧
    (returnTable.filter (·.1 == "_sha_self_tests")).map (·.2.1) = shaReturnValues ∧
    returnTable.all (fun r => r.1 == "_aes_self_tests" || r.1 == "_sha_self_tests") = true := by decide

/-- **obligation: the self-test functions return 0 or 1** -/
theorem return_values_ok : ∀ v ∈ selfTestReturnValues, v = 0 ∨ v = 1 := by decide

/-- the 32-bit words the self-test functions can return -/
def retWords : List Nat := selfTestReturnValues.map wordOfInt

theorem retWords_01 : ∀ w ∈ retWords, w = 0 ∨ w = 1 := by
  intro w hw
  simp only [retWords, List.mem_map] at hw
  obtain ⟨v, hv, rfl⟩ := hw
  rcases return_values_ok v hv with rfl | rfl
  · left; decide
  · right; decide

/-- **C17 for the compiled portable gate of the current tree**: for any number of threads and any
    interleaving of the *instructions* of `isal_self_tests`, with the self-test functions returning any of
    their possible values: each self-test function is called at most once (SHA only after AES returned, at
    most one failure); a thread that has returned `v` did so after a verdict was published, `v` is the code
    of that verdict, and the tests have finished with exactly that outcome; a published verdict is never
    overwritten and no test is run again. -/
theorem C17_generic_generated {n : Nat} {cg : CG} (h : CReach program retWords n cg) :
    (ghOk cg.gh ∧
     (cg.status = 0 ∨ cg.status = 1 ∨ cg.status = 2 ∨ cg.status = 3) ∧
     ∀ (j : Nat) (l : Local) (v : Nat), cg.th[j]? = some l → l.res = some v →
       (cg.status = 0 ∨ cg.status = 1) ∧ v = codeOf cg.status ∧
       (cg.status = 0 → cg.gh = ⟨1, 1, 1, 1, 0⟩) ∧ (cg.status = 1 → failedGh cg.gh)) ∧
    (∀ cg', (cg.status = 0 ∨ cg.status = 1) → CStep program retWords cg cg' →
       cg'.status = cg.status ∧ cg'.gh = cg.gh) :=
  C17_generic_machine sim_ok retWords_01 h

/-- **C17 (4) for the compiled portable gate**: under any schedule of single instructions that keeps
    scheduling the threads that have not returned, with self-test outcomes in {0,1}, all threads return. -/
theorem C17_generic_generated_live (n : Nat) (σ o : Nat → Nat) (hf : CFair program n σ o) :
    ∃ t, (crun program n σ o t).allReturned ∧ CReach program [0, 1] n (crun program n σ o t) :=
  C17_generic_machine_live sim_ok n σ o hf

/-- the early-out comparisons of the current code are with verdicts only -/
theorem fast_path_ok : cfgOk (guessCfg program) := (closed_init sim_ok).2.1

/-! Non-vacuity on the compiled code.  The schedules are independent of the instruction layout: "thread 0
runs until it is inside `_aes_self_tests`", then whole time slices of 200 instructions (a thread that
returns earlier stops; a waiting thread just goes round its loop). -/

/-- 3 threads, tests pass: thread 0 claims and enters the AES self test; thread 1 arrives, loses the claim and
    waits; thread 0 finishes and publishes; thread 1 leaves the loop; thread 2 arrives after publication.
    All return 0, each self-test function ran once. -/
example : ∃ cg, CReach program [0, 1] 3 cg ∧ cg.gh = ⟨1, 1, 1, 1, 0⟩ ∧ cg.status = 0 ∧
    cg.th.map (·.res) = [some 0, some 0, some 0] := by
  refine ⟨crunList program (cfireUntil program insideAes (CG.init program 3) 0 0 100)
    [(1, 200, 0), (0, 200, 0), (1, 200, 0), (2, 200, 0)],
    crunList_reach (cfireUntil_reach CReach.init _ _ (by decide) _) _ (by decide), ?_⟩
  decide +kernel

/-- while thread 0 is inside the AES self test, thread 1 (200 instructions later) is still waiting: nobody
    returns before the verdict -/
example : (crunList program (cfireUntil program insideAes (CG.init program 2) 0 0 100) [(1, 200, 0)]).th.map (·.res)
    = [none, none] := by decide +kernel

/-- failing AES self test: SHA is not run, everybody is refused (thread 1 waited, thread 2 came later) -/
example : ∃ cg, CReach program [0, 1] 3 cg ∧ cg.gh = ⟨1, 1, 0, 0, 1⟩ ∧ cg.status = 1 ∧
    cg.th.map (·.res) = [some 2016, some 2016, some 2016] := by
  refine ⟨crunList program (cfireUntil program insideAes (CG.init program 3) 0 0 100)
    [(1, 200, 0), (0, 200, 1), (1, 200, 0), (2, 200, 0)],
    crunList_reach (cfireUntil_reach CReach.init _ _ (by decide) _) _ (by decide), ?_⟩
  decide +kernel

/-- failing SHA self test -/
example : ∃ cg, CReach program [0, 1] 2 cg ∧ cg.gh = ⟨1, 1, 1, 1, 1⟩ ∧ cg.status = 1 ∧
    cg.th.map (·.res) = [some 2016, some 2016] := by
  refine ⟨crunList program (cfireUntil program insideAes (CG.init program 2) 0 0 100)
    [(1, 200, 0), (0, 1, 0), (0, 200, 1), (1, 200, 0)],
    crunList_reach (cfireUntil_reach CReach.init _ _ (by decide) _) _ (by decide), ?_⟩
  decide +kernel

end IsalVerif.GenProps.SelfTestGeneric
