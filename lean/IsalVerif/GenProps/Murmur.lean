import IsalVerif.Gen.Murmur
import IsalVerif.Lemmas.MurCProofs
/-!
  Per-run obligations over `Gen/Murmur.lean` (regenerated from the current tree by `tools/gen_murmur.py`): the 64-bit
  arithmetic of `_murmur3_x64_128_block` (loop body, helpers inlined) and of `_murmur3_x64_128_tail`, as the source
  reads now, are the programs `MurC.canonBlock` / `MurC.canonTail`, whose meaning `Lemmas/MurCProofs.lean` gives: one
  loop iteration is the body step of MurmurHash3_x64_128 (`Murmur3.murBlock`), and the tail arithmetic is that of
  `Mh.murmurTail`, the model the C10 theorems are about.  The statements around the arithmetic (loop frame, byte
  gathering) are compared by the translator with their shape today (`frame`).
-/
namespace IsalVerif.GenProps.Murmur
open IsalVerif IsalVerif.MurC

def expected (fn : String) : Option (List A) :=
  if fn = "_murmur3_x64_128_block" then some canonBlock
  else if fn = "_murmur3_x64_128_tail" then some canonTail
  else none

/-- THE PER-RUN OBLIGATION -/
theorem all_canon : Gen.Murmur.all.all (fun x => x.frame && decide (some x.prog = expected x.fn)) = true := by decide

theorem both_present : ["_murmur3_x64_128_block", "_murmur3_x64_128_tail"].all
    (fun n => Gen.Murmur.all.any (fun x => decide (x.fn = n))) = true := by decide

/-- the block function of the current tree: one iteration is the MurmurHash3_x64_128 body step -/
theorem murblock_current (x : Src) (hx : x ∈ Gen.Murmur.all) (hn : x.fn = "_murmur3_x64_128_block")
    (h : UInt64 × UInt64) (block : Bytes) (k1 k2 : UInt64) (rest : List UInt64)
    (hw : wordsLE64 block = k1 :: k2 :: rest) (len : UInt64) :
    Murmur3.murBlock h block = ((run x.prog ⟨0, 0, h.1, h.2⟩ k1 k2 len).h0, (run x.prog ⟨0, 0, h.1, h.2⟩ k1 k2 len).h1) := by
  have h1 := List.all_eq_true.mp all_canon x hx
  simp only [Bool.and_eq_true, decide_eq_true_eq, expected, hn] at h1
  have h2 : x.prog = canonBlock := by simpa using h1.2
  rw [h2]
  exact canon_block_step h block k1 k2 rest hw len

/-- the tail function of the current tree: its arithmetic is that of the C10 model -/
theorem murtail_current (x : Src) (hx : x ∈ Gen.Murmur.all) (hn : x.fn = "_murmur3_x64_128_tail")
    (k1 k2 len : UInt64) (hash : UInt64 × UInt64) :
    tailArith k1 k2 len hash = ((run x.prog ⟨0, 0, hash.1, hash.2⟩ k1 k2 len).h0, (run x.prog ⟨0, 0, hash.1, hash.2⟩ k1 k2 len).h1) := by
  have h1 := List.all_eq_true.mp all_canon x hx
  simp only [Bool.and_eq_true, decide_eq_true_eq, expected, hn] at h1
  have h2 : x.prog = canonTail := by simpa using h1.2
  rw [h2]
  exact canon_tail_arith k1 k2 len hash

/-- the whole loop of the block function of the current tree is the model's `murmurBlocks` (C10) -/
theorem murloop_current (x : Src) (hx : x ∈ Gen.Murmur.all) (hn : x.fn = "_murmur3_x64_128_block")
    (h : UInt64 × UInt64) (input : Bytes) (n : UInt32) :
    Mh.murmurBlocks h input n = (blocks 16 n.toNat input).foldl (iter x.prog) h := by
  have h1 := List.all_eq_true.mp all_canon x hx
  simp only [Bool.and_eq_true, decide_eq_true_eq, expected, hn] at h1
  have h2 : x.prog = canonBlock := by simpa using h1.2
  rw [h2]
  exact canon_block_loop _ h

end IsalVerif.GenProps.Murmur
