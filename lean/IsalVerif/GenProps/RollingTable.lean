import IsalVerif.Spec.RollingTable
import IsalVerif.Gen.RollingTable
/-! The table found in the current source tree (regenerated on every run by
`tools/gen_rolling_table.py`) is the pinned table the C09 specification is written against. -/
namespace IsalVerif.GenProps

theorem rollingTable_pinned : Gen.genRollingTable = Spec.rollingTable := rfl

end IsalVerif.GenProps
