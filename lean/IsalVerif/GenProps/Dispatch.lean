import IsalVerif.Gen.Dispatch
import IsalVerif.Lemmas.DispatchCheckSound
import IsalVerif.Lemmas.DispatchFamily
/-! Per-run obligations over the regenerated resolver programs (C12), and their meaning. -/
namespace IsalVerif.GenProps.Dispatch
open IsalVerif.Dispatch IsalVerif.Gen.Dispatch

def minBitsOf (e : Entry) : List Bit := if e.aesMin then aesMinBits else []

/-- one entry point: interface stub has the expected shape and every resolver path binds to code
    whose ISA needs follow from the path's conditions -/
def entryOk (e : Entry) : Bool :=
  e.stub == "call;jmp[cell]" && checkResolver e.prog need (minBitsOf e)

def failing : List String := (entries.filter (fun e => !entryOk e)).map (·.name)

/-- entry points of one shared object are the same resolver up to the family of the symbols loaded -/
def groupOk : Bool :=
  entries.all fun e1 => entries.all fun e2 =>
    e1.group == "" || e1.group != e2.group || sameSkeleton famOf famOf e1.prog e2.prog

/-- the two obligations re-evaluated by the kernel on every run -/
theorem dispatch_exec_ok : failing = [] := by decide +kernel
theorem dispatch_family_ok : groupOk = true := by decide +kernel

/-- **C12 (1)** every dispatched entry point, under every architecturally consistent configuration
    (and the stated conventions / documented minimum), binds to a symbol all of whose reachable
    instructions belong to ISA classes available in that configuration, and the resolver itself executes
    no instruction that is undefined there (XGETBV only with CPUID.1:ECX.OSXSAVE set) -/
theorem C12_exec (e : Entry) (he : e ∈ entries) (cfg : Cfg) (hc : Consistent cfg) (hv : Conventions cfg)
    (hmin : ∀ b ∈ minBitsOf e, bitSet cfg b = true) :
    ∃ s, select e.prog cfg = some (.sym s) ∧ (∀ i ∈ need s, Avail cfg i) ∧
      (run cfg e.prog (4 * e.prog.length) c0).ud = false := by
  have hok : entryOk e = true := by
    cases h : entryOk e with
    | true => rfl
    | false =>
      have : e.name ∈ failing := by
        simp only [failing, List.mem_map, List.mem_filter]
        exact ⟨e, ⟨he, by simp [h]⟩, rfl⟩
      rw [dispatch_exec_ok] at this; cases this
  simp only [entryOk, Bool.and_eq_true] at hok
  exact checkResolver_sound e.prog need (minBitsOf e) hok.2 cfg hc hv hmin

/-- **C12 (2)** entry points operating on one shared object bind to the same family -/
theorem C12_family (e1 e2 : Entry) (h1 : e1 ∈ entries) (h2 : e2 ∈ entries) (hg : e1.group ≠ "")
    (hsame : e1.group = e2.group) (cfg : Cfg) :
    (select e1.prog cfg).map (renameVal famOf) = (select e2.prog cfg).map (renameVal famOf) := by
  have h := dispatch_family_ok
  simp only [groupOk, List.all_eq_true] at h
  have := h e1 h1 e2 h2
  simp only [Bool.or_eq_true, beq_iff_eq, bne_iff_ne, ne_eq] at this
  rcases this with (hx | hx) | hx
  · exact absurd hx hg
  · exact absurd hsame hx
  · exact sameSkeleton_sound famOf famOf e1.prog e2.prog hx cfg

end IsalVerif.GenProps.Dispatch
