import IsalVerif.Gen.MhFin
import IsalVerif.Lemmas.MhFinCProofs
/-!
  Per-run obligations over `Gen/MhFin.lean` (regenerated from the current tree by `tools/gen_mhfin.py`): every instance
  of the multi-hash finalize functions (`_mh_sha1_finalize_*`, `_mh_sha256_finalize_*`,
  `_mh_sha1_murmur3_x64_128_finalize_*`; 15 functions), as the source reads now, is the program whose meaning
  `Lemmas/MhFinCProofs.lean` establishes (`canon_fin`): for every `total_length` it hands the tail function of its own
  family the partial buffer and the 32-bit total length, copies exactly the digest words to the non-NULL output and
  returns 0; the stitched variant first feeds murmur3 exactly the buffered bytes (`mur_reads_buffered`), before the
  multi-hash tail overwrites the buffer (C05, C10).
-/
namespace IsalVerif.GenProps.MhFin
open IsalVerif IsalVerif.MhFinC

/-- THE PER-RUN OBLIGATION (the translator adds an `unsupported` statement when an instance calls the tail function of
    another family) -/
theorem all_canon : Gen.MhFin.all.all (fun x =>
    match paramsOf x.alg with
    | some (w, m) => decide (x.prog = canon w m)
    | none => false) = true := by decide

theorem all_count : 15 ≤ Gen.MhFin.all.length := by decide

theorem mhfin_current (x : Src) (hx : x ∈ Gen.MhFin.all) (s : St) (ht : s.total < 2^64) (he : s.evs = []) :
    ∃ w m, paramsOf x.alg = some (w, m) ∧ (run x.prog s).res = some (finSpec s.total w m, 0) := by
  have h := List.all_eq_true.mp all_canon x hx
  match hp : paramsOf x.alg with
  | some (w, m) =>
    rw [hp] at h
    exact ⟨w, m, rfl, by rw [of_decide_eq_true h]; exact canon_fin s ht he w m⟩
  | none => rw [hp] at h; exact absurd h (by simp)

/-- the stitched instances are among them, and the bytes they hand murmur3 are the buffered ones -/
theorem stitched_present :
    ["_mh_sha1_murmur3_x64_128_finalize_base", "_mh_sha1_murmur3_x64_128_finalize_sse", "_mh_sha1_murmur3_x64_128_finalize_avx",
     "_mh_sha1_murmur3_x64_128_finalize_avx2", "_mh_sha1_murmur3_x64_128_finalize_avx512"].all
      (fun n => Gen.MhFin.all.any (fun x => decide (x.fn = n) && decide (paramsOf x.alg = some (5, true)))) = true := by decide

end IsalVerif.GenProps.MhFin
