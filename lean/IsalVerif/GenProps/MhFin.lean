import IsalVerif.Gen.MhFin
import IsalVerif.Lemmas.MhFinCProofs
/-!
  Per-run obligations over `Gen/MhFin.lean` (regenerated from the current tree by `tools/gen_mhfin.py`): every instance
  of the multi-hash finalize functions (`_mh_sha1_finalize_*`, `_mh_sha256_finalize_*`,
  `_mh_sha1_murmur3_x64_128_finalize_*`; 15 functions) and the stitched C block function
  `_mh_sha1_murmur3_x64_128_block_base`, as the source reads now, is the program whose meaning
  `Lemmas/MhFinCProofs.lean` establishes (`canon_fin`): for every `total_length` it hands the tail function of its own
  family the partial buffer and the 32-bit total length, copies exactly the digest words to the non-NULL output and
  returns 0; the stitched variant first feeds murmur3 exactly the buffered bytes (`mur_reads_buffered`), before the
  multi-hash tail overwrites the buffer (C05, C10).
-/
namespace IsalVerif.GenProps.MhFin
open IsalVerif IsalVerif.MhFinC

/-- THE PER-RUN OBLIGATION (the translator adds an `unsupported` statement when an instance calls the tail function of
    another family) -/
theorem all_canon : Gen.MhFin.all.all (fun x =>
    match paramsOf x.alg with
    | some (w, m) => decide (x.prog = canon w m)
    | none => decide (x.alg = "block_base") && decide (x.prog = canonBlockBase)) = true := by decide

theorem all_count : 16 ≤ Gen.MhFin.all.length := by decide

/-- the stitched C block function of the current tree (the `base` family's `f` of `mhupdate_absorbs`): mh_sha1 and
    murmur3 consume the same `1024 n` bytes -/
theorem blockbase_current (x : Src) (hx : x ∈ Gen.MhFin.all) (_hn : x.fn = "_mh_sha1_murmur3_x64_128_block_base")
    (ha : x.alg = "block_base") (s : St) (n : Nat) (hlt : n < 2^22) (h3 : s.locs 3 = n) (he : s.evs = []) :
    (run x.prog s).res = some ([.shaBlockIn n, .murBlockIn (64 * n)], 0) := by
  have h := List.all_eq_true.mp all_canon x hx
  have hp : paramsOf x.alg = none := by rw [ha]; decide
  rw [hp] at h
  simp only [Bool.and_eq_true, decide_eq_true_eq] at h
  rw [h.2]
  exact (canon_blockbase s n hlt h3 he).1

theorem blockbase_present : Gen.MhFin.all.any (fun x => decide (x.fn = "_mh_sha1_murmur3_x64_128_block_base") &&
    decide (x.alg = "block_base")) = true := by decide

theorem mhfin_current (x : Src) (hx : x ∈ Gen.MhFin.all) (hne : x.alg ≠ "block_base") (s : St) (ht : s.total < 2^64)
    (he : s.evs = []) :
    ∃ w m, paramsOf x.alg = some (w, m) ∧ (run x.prog s).res = some (finSpec s.total w m, 0) := by
  have h := List.all_eq_true.mp all_canon x hx
  match hp : paramsOf x.alg with
  | some (w, m) =>
    rw [hp] at h
    exact ⟨w, m, rfl, by rw [of_decide_eq_true h]; exact canon_fin s ht he w m⟩
  | none =>
    rw [hp] at h
    simp only [Bool.and_eq_true, decide_eq_true_eq] at h
    exact absurd h.1 hne

/-- the stitched instances are among them, and the bytes they hand murmur3 are the buffered ones -/
theorem stitched_present :
    ["_mh_sha1_murmur3_x64_128_finalize_base", "_mh_sha1_murmur3_x64_128_finalize_sse", "_mh_sha1_murmur3_x64_128_finalize_avx",
     "_mh_sha1_murmur3_x64_128_finalize_avx2", "_mh_sha1_murmur3_x64_128_finalize_avx512"].all
      (fun n => Gen.MhFin.all.any (fun x => decide (x.fn = n) && decide (paramsOf x.alg = some (5, true)))) = true := by decide

end IsalVerif.GenProps.MhFin
