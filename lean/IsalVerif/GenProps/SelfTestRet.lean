import IsalVerif.GenProps.SelfTest
/-!
# C17 — per-run obligation (c): the self-test functions return 0 or 1

`isal_self_tests` stores `_aes_self_tests() | _sha_self_tests()` in the status word unchanged, and the
protocol (and `fips/internal_fips.h`) relies on that word being 0 or 1.  The translator extracts the
possible return values from the C sources (`Gen.returnTable`, 999 = expression not understood).

On a tree with defect D2 (`fips/sha_self_tests.c` returns -1) this file does not compile: the `#eval`
below reports which function returns which value and where, and `return_values_ok` fails.
-/
namespace IsalVerif.GenProps.SelfTest
open IsalVerif.SelfTest IsalVerif.Gen.SelfTest

/-- rows of the return table that violate the 0/1 contract -/
def offending : List (String × Int × String) := returnTable.filter fun r => r.2.1 != 0 && r.2.1 != 1

-- human-readable report: an error naming the offending functions and values when non-empty
#eval show IO Unit from do
  unless offending.isEmpty do
    let lines := offending.map fun r => s!"  {r.1} can return {r.2.1}   [{r.2.2}]"
    throw <| IO.userError <| "C17 obligation (c) FAILS — self-test return values outside {0,1} (defect D2: " ++
      "the value is OR-ed into the status word, which then is neither a verdict nor NOT_DONE/RUNNING; " ++
      "see Props/C17.lean C17_D2_hypothesis_necessary):\n" ++ String.intercalate "\n" lines

/-- the return table and the value lists used in the theorems are the same data -/
theorem return_table_consistent :
    (returnTable.filter (·.1 == "_aes_self_tests")).map (·.2.1) = aesReturnValues ∧
    (returnTable.filter (·.1 == "_sha_self_tests")).map (·.2.1) = shaReturnValues ∧
    returnTable.all (fun r => r.1 == "_aes_self_tests" || r.1 == "_sha_self_tests") = true := by decide

/-- **obligation (c)** -/
theorem return_values_ok : ∀ v ∈ selfTestReturnValues, v = 0 ∨ v = 1 := by decide

/-- **C17 for the compiled code of the current tree** (unconditional): for any number of threads and any
    interleaving of the instructions of `isal_self_tests`, `asm_check_self_tests_status`,
    `asm_set_self_tests_status`, with the self-test functions returning any of their possible values. -/
theorem C17_generated {n : Nat} {cg : CG} (h : CReach program retWords n cg) :
    (cg.entered ≤ 1 ∧ cg.completed ≤ cg.entered ∧
     (cg.status = 0 ∨ cg.status = 1 ∨ cg.status = 2 ∨ cg.status = 3) ∧
     ∀ (j : Nat) (l : Local) (v : Nat), cg.th[j]? = some l → l.res = some v →
       (cg.status = 0 ∨ cg.status = 1) ∧ v = codeOf cg.status ∧ cg.entered = 1 ∧ cg.completed = 1) ∧
    (∀ cg', (cg.status = 0 ∨ cg.status = 1) → CStep program retWords cg cg' →
       cg'.status = cg.status ∧ cg'.entered = cg.entered ∧ cg'.completed = cg.completed) :=
  C17_generated_if return_values_ok h

end IsalVerif.GenProps.SelfTest
