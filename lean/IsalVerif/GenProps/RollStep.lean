import IsalVerif.Gen.RollStep
import IsalVerif.Lemmas.RollCProofs
/-!
  Per-run obligations over `Gen/RollStep.lean` (regenerated from the current tree by `tools/gen_rollstep.py`): the
  rolling-hash step as `rolling_hash2.c` reads now - in both scan loops of `_rolling_hash2_run_until_base`, in `hash_fn`
  and in the reset loop - is the program whose value `Lemmas/RollCProofs.lean` identifies with the step of the
  hand-written model (`Impl/RollingRun.lean`: `hashFn_eq`, `untilLoop_unfold`, `resetLoop_unfold`), and the exit tests
  are `(h & mask) == 0` / `== trigger` (C09).
-/
namespace IsalVerif.GenProps.RollStep
open IsalVerif IsalVerif.MurC IsalVerif.RollC

/-- THE PER-RUN OBLIGATION -/
theorem all_canon : Gen.RollStep.all.all (fun x => x.frame && decide (some (x.prog, x.test) = expected x.name)) = true := by
  decide

theorem all_present : ["until0", "until1", "hash_fn", "reset"].all
    (fun n => Gen.RollStep.all.any (fun x => decide (x.name = n))) = true := by decide

/-- every scan / `hash_fn` step of the current source computes `rol1 h ^^^ (T1[new] ^^^ T2[old])` -/
theorem step_current (x : RollC.Src) (hx : x ∈ Gen.RollStep.all) (hn : x.name = "until0" ∨ x.name = "until1" ∨ x.name = "hash_fn")
    (h a b : UInt64) : stepVal x.prog h a b = Impl.Rolling.rol1 h ^^^ (a ^^^ b) := by
  have h1 := List.all_eq_true.mp all_canon x hx
  simp only [Bool.and_eq_true, decide_eq_true_eq] at h1
  have h2 : x.prog = canonStep := by
    rcases hn with hn | hn | hn <;> (rw [hn] at h1; have := h1.2; simp [expected] at this; exact this.1)
  rw [h2]
  exact canonStep_val h a b

/-- the scan loops of the current source, as whole loops, are the model's `untilLoop` (C09) -/
theorem scan_current (x : RollC.Src) (hx : x ∈ Gen.RollStep.all) (hn : x.name = "until0" ∨ x.name = "until1")
    (hit : UInt64 → Bool) (max : Nat) (t1 t2 : UInt8 → UInt64) (b1 b2 : Impl.Rolling.Ptr) (i : Nat) (h : UInt64) :
    Impl.Rolling.untilLoop hit max t1 t2 b1 b2 i h = untilLoopP x.prog hit max t1 t2 b1 b2 i h := by
  have h1 := List.all_eq_true.mp all_canon x hx
  simp only [Bool.and_eq_true, decide_eq_true_eq] at h1
  have h2 : x.prog = canonStep := by
    rcases hn with hn | hn <;> (rw [hn] at h1; have := h1.2; simp [expected] at this; exact this.1)
  rw [h2]
  exact untilLoop_eq hit max t1 t2 b1 b2 i h

end IsalVerif.GenProps.RollStep
