import IsalVerif.Gen.HashPad
import IsalVerif.Lemmas.PadCProofs
import IsalVerif.Spec.Sha1
import IsalVerif.Spec.Sha256
import IsalVerif.Spec.Sha512
import IsalVerif.Spec.Md5
import IsalVerif.Spec.Sm3
/-!
  Per-run obligations over `Gen/HashPad.lean` (regenerated from the current tree by `tools/gen_hashpad.py`):
  the `hash_pad` of every `*_ctx_<family>.c` file, as the source reads now, computes the model's `hashPad`
  (which `Lemmas/PadSpec.lean` proves to be the standard's padding) for EVERY running total and EVERY previous
  content of the pad buffer, never stores outside `padblock[0 .. 2B)`, and returns the block count the model hands
  to the manager.  Block size, length-field size and byte order are those of the executable standards.
-/
namespace IsalVerif.GenProps.HashPad
open IsalVerif IsalVerif.PadC IsalVerif.HashMB

/-- (block bytes, length-field bytes, big-endian length) per algorithm -/
def specOf : String → Option (Nat × Nat × Bool)
  | "sha1" => some (64, 8, true)
  | "sha256" => some (64, 8, true)
  | "sha512" => some (128, 16, true)
  | "md5" => some (64, 8, false)
  | "sm3" => some (64, 8, true)
  | _ => none

/-- `specOf` is read off the executable standards -/
theorem specOf_is_standard :
    specOf "sha1" = some (Sha1.alg.B, Sha1.alg.L, Sha1.alg.lenBE) ∧
    specOf "sha256" = some (Sha256.alg.B, Sha256.alg.L, Sha256.alg.lenBE) ∧
    specOf "sha512" = some (Sha512.alg.B, Sha512.alg.L, Sha512.alg.lenBE) ∧
    specOf "md5" = some (Md5.alg.B, Md5.alg.L, Md5.alg.lenBE) ∧
    specOf "sm3" = some (Sm3.alg.B, Sm3.alg.L, Sm3.alg.lenBE) := by
  refine ⟨rfl, rfl, rfl, rfl, rfl⟩

def lg : Nat → Nat
  | 128 => 7
  | _ => 6

def srcOk (x : Src) : Bool :=
  match specOf x.alg with
  | some (B, L, be) => decide (x.prog = canonProg B L (lg B) be)
  | none => false

/-- THE PER-RUN OBLIGATION: every translated `hash_pad` is the skeleton with the expressions whose meaning
    `Lemmas/PadCProofs.lean` establishes (`canon64`, `canon128`). -/
theorem all_canon : Gen.HashPad.all.all srcOk = true := by decide

/-- at least the 23 SIMD context files were translated (an empty table would make `all_canon` vacuous) -/
theorem all_count : 23 ≤ Gen.HashPad.all.length := by decide

theorem canon_correct (B L : Nat) (be : Bool) (alg : String) (h : specOf alg = some (B, L, be))
    (t : Nat) (buf : Bytes) (hbuf : buf.length = 2 * B) :
    result B (canonProg B L (lg B) be) t buf = some (hashPad B L be buf t) := by
  unfold specOf at h
  split at h <;> simp only [Option.some.injEq, Prod.mk.injEq, reduceCtorEq] at h
  all_goals obtain ⟨rfl, rfl, rfl⟩ := h
  · exact canon64_correct true t buf hbuf
  · exact canon64_correct true t buf hbuf
  · exact canon128_correct t buf hbuf
  · exact canon64_correct false t buf hbuf
  · exact canon64_correct true t buf hbuf

/-- **hash_pad of the current source = the model's padding, for all totals and all stale buffer contents** -/
theorem hashpad_current (x : Src) (hx : x ∈ Gen.HashPad.all) :
    ∃ B L be, specOf x.alg = some (B, L, be) ∧
      ∀ (t : Nat) (buf : Bytes), buf.length = 2 * B → result B x.prog t buf = some (hashPad B L be buf t) := by
  have h := List.all_eq_true.mp all_canon x hx
  unfold srcOk at h
  split at h
  · rename_i B L be hs
    refine ⟨B, L, be, hs, ?_⟩
    intro t buf hbuf
    rw [of_decide_eq_true h]
    exact canon_correct B L be x.alg hs t buf hbuf
  · cases h

/-- C20's clause for the padding: what the buffer held beyond the stream tail does not matter -/
theorem hashpad_current_junk (x : Src) (hx : x ∈ Gen.HashPad.all) :
    ∃ B L be, specOf x.alg = some (B, L, be) ∧
      ∀ (t : Nat) (part junk junk' : Bytes), part.length = t % 2^64 &&& (B - 1) →
        (part ++ junk).length = 2 * B → (part ++ junk').length = 2 * B →
        result B x.prog t (part ++ junk) = result B x.prog t (part ++ junk') := by
  obtain ⟨B, L, be, hs, h⟩ := hashpad_current x hx
  refine ⟨B, L, be, hs, ?_⟩
  intro t part junk junk' hp h1 h2
  rw [h t _ h1, h t _ h2, hashPad_junk B L be part junk junk' t hp]

/-- **source → standard**: on a pad buffer holding the stream tail (and anything behind it), `hash_pad` of every
    context-layer file of the current tree hands the manager exactly the blocks of `tail ++ pad(n)`, the padding of
    FIPS 180-4 §5.1 / RFC 1321 §3.1 / GB/T 32905 for a stream of `n < 2^61` bytes (`mdPad` is what the executable
    standards in `Spec/` use). -/
theorem hashpad_is_standard (x : Src) (hx : x ∈ Gen.HashPad.all) :
    ∃ B L be, specOf x.alg = some (B, L, be) ∧
      ∀ (n : Nat) (tail junk : Bytes), n < 2^61 → tail.length = n % B → (tail ++ junk).length = 2 * B →
        ∃ t, (tail ++ mdPad B L be n).length = t * B ∧
          result B x.prog n (tail ++ junk) = some (blocks B t (tail ++ mdPad B L be n)) := by
  obtain ⟨B, L, be, hs, h⟩ := hashpad_current x hx
  refine ⟨B, L, be, hs, ?_⟩
  intro n tail junk hn ht hlen
  have hn64 : n % 2^64 = n := Nat.mod_eq_of_lt (by omega)
  have hcases : (B = 64 ∧ L = 8) ∨ (B = 128 ∧ L = 16 ∧ be = true) := by
    unfold specOf at hs
    split at hs <;> simp only [Option.some.injEq, Prod.mk.injEq, reduceCtorEq] at hs <;>
      (obtain ⟨rfl, rfl, rfl⟩ := hs; simp)
  have hjunk : hashPad B L be (tail ++ junk) n = hashPad B L be tail n := by
    have hi0 : n % 2^64 &&& (B - 1) = tail.length := by
      rcases hcases with ⟨rfl, _⟩ | ⟨rfl, _⟩
      · rw [hn64, ht, show (64 - 1 : Nat) = 63 from rfl, and63]
      · rw [hn64, ht, show (128 - 1 : Nat) = 127 from rfl, and127]
    simp only [hashPad, hi0, List.take_left', List.take_length]
  rw [h n _ hlen, hjunk]
  rcases hcases with ⟨rfl, rfl⟩ | ⟨rfl, rfl, rfl⟩
  · obtain ⟨t, h1, h2⟩ := hashPad64 be tail n hn ht
    exact ⟨t, h1, by rw [hn64] at h2; rw [h2]⟩
  · obtain ⟨t, h1, h2⟩ := hashPad128 tail n hn ht
    exact ⟨t, h1, by rw [hn64] at h2; rw [h2]⟩

end IsalVerif.GenProps.HashPad
