import IsalVerif.Gen.Resubmit
import IsalVerif.Lemmas.ResubmitCProofs
import IsalVerif.Spec.Sha1
import IsalVerif.Spec.Sha256
import IsalVerif.Spec.Sha512
import IsalVerif.Spec.Md5
import IsalVerif.Spec.Sm3
/-!
  Per-run obligations over `Gen/Resubmit.lean` (regenerated from the current tree by `tools/gen_resubmit.py`): the body
  of the `while (ctx)` loop of `<alg>_ctx_mgr_resubmit` in every SIMD-family context-layer file, as the source reads
  now, takes in every context state exactly the decision of one unfolding of the model's `HashMB.resubmit`:
  hand back a completed context with status COMPLETE (SM3: digest words byte-swapped), or stash the sub-block tail
  of the caller's buffer and submit its whole blocks, or pad and submit the final block(s) with status
  PROCESSING|COMPLETE, or hand the context back IDLE (C01, C06).
-/
namespace IsalVerif.GenProps.Resubmit
open IsalVerif IsalVerif.ResubmitC IsalVerif.HashMB

/-- (block bytes, log2, digest byte-swapped on completion) per algorithm -/
def paramsOf : String → Option (Nat × Nat × Bool)
  | "sha1" => some (64, 6, false)
  | "sha256" => some (64, 6, false)
  | "sha512" => some (128, 7, false)
  | "md5" => some (64, 6, false)
  | "sm3" => some (64, 6, true)
  | _ => none

/-- the block sizes are those of the executable standards -/
theorem paramsOf_is_standard :
    (paramsOf "sha1").map (·.1) = some Sha1.alg.B ∧ (paramsOf "sha256").map (·.1) = some Sha256.alg.B ∧
    (paramsOf "sha512").map (·.1) = some Sha512.alg.B ∧ (paramsOf "md5").map (·.1) = some Md5.alg.B ∧
    (paramsOf "sm3").map (·.1) = some Sm3.alg.B := by
  refine ⟨rfl, rfl, rfl, rfl, rfl⟩

def srcOk (x : Src) : Bool :=
  match paramsOf x.alg with
  | some (B, lg, fin) => decide (x.prog = canon B lg fin)
  | none => false

/-- THE PER-RUN OBLIGATION -/
theorem all_canon : Gen.Resubmit.all.all srcOk = true := by decide

theorem all_count : 23 ≤ Gen.Resubmit.all.length := by decide

/-- every SIMD-family resubmit loop body of the current source = `iterSpec` (which `iter_refines` shows to be the
    decision of `HashMB.resubmit`, `resubmit_eq_iterModel`) -/
theorem resubmit_current (x : Src) (hx : x ∈ Gen.Resubmit.all) :
    ∃ B lg fin, paramsOf x.alg = some (B, lg, fin) ∧
      ∀ (padN : Nat) (s : St), s.status < 2^32 → s.plen < 2^32 → s.inlen < 2^32 → s.inlen = s.incoming.length →
        padN < 2^32 → (run padN x.prog s).obs = iterSpec B fin padN s := by
  have h := List.all_eq_true.mp all_canon x hx
  unfold srcOk at h
  split at h
  · rename_i B lg fin hs
    refine ⟨B, lg, fin, hs, ?_⟩
    intro padN s h1 h2 h3 h4 h5
    rw [of_decide_eq_true h]
    have hB : (B = 64 ∧ lg = 6) ∨ (B = 128 ∧ lg = 7) := by
      unfold paramsOf at hs
      split at hs <;> simp only [Option.some.injEq, Prod.mk.injEq, reduceCtorEq] at hs <;>
        (obtain ⟨rfl, rfl, rfl⟩ := hs; simp)
    exact canon_iter padN B lg fin hB s h1 h2 h3 h4 h5
  · cases h

end IsalVerif.GenProps.Resubmit
