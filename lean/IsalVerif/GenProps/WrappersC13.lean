/- PER-RUN obligations of C13 over the generated FIPS table (see GenProps/Wrappers.lean). -/
import IsalVerif.GenProps.Wrappers

namespace IsalVerif.GenProps.Wrappers
open IsalVerif.Wrapper IsalVerif.Wrapper.Obl IsalVerif.ApiDomain
open IsalVerif.Gen

theorem nonapproved_ok : failingNonApproved = [] := by decide +kernel
theorem gate_ok : failingGate = [] := by decide +kernel                 -- D1
theorem xts_ok : failingXts = [] := by decide +kernel                   -- F6

/-- C13 for the FIPS table of the current tree (all clauses; see Props/C13.lean). -/
theorem C13_current :
    (∀ p ∈ joined WrappersFips.entries, p.2.cls = .approved → ∀ env : Env, env.gatePasses = false →
      (p.1.run env).ret ≠ 0 ∧ (p.1.run env).work = [] ∧
      (preGateQuiet env p.1.body = true → (p.1.run env).ret = ERR_SELF_TEST) ∧
      (env.selfTest = .failed → (p.1.run env).effects.all Effect.isRead = true ∧
        (noMemcmp p.1.body = true → (p.1.run env).effects = []))) ∧
    (∀ p ∈ joined WrappersFips.entries, p.2.cls = .approved → ∀ env : Env, env.selfTest = .notRun →
      ∀ pre e post, (p.1.run env).effects = pre ++ e :: post → e.isWork = true →
        Effect.selfTests ∈ pre) ∧
    (∀ p ∈ joined WrappersFips.entries, p.2.cls = .nonApproved → ∀ env : Env,
      p.1.run env = ⟨ERR_FIPS_INVALID_ALGO, []⟩) ∧
    (∀ p ∈ joined WrappersFips.entries, ∀ keys, p.2.xtsKeys = some keys → ∀ env : Env,
      env.sameKey keys → argsQuiet env p.1.body = true →
      (p.1.run env).ret = ERR_XTS_SAME_KEYS ∧ (p.1.run env).work = []) :=
  ⟨Props.C13.approved_fail_closed _ gate_ok, Props.C13.approved_tests_first _ gate_ok,
   Props.C13.nonApproved_refused _ nonapproved_ok, Props.C13.xts_same_key_refused _ xts_ok⟩

end IsalVerif.GenProps.Wrappers
