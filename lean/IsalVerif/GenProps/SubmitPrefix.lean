import IsalVerif.Gen.SubmitPrefix
import IsalVerif.Lemmas.SubmitCProofs
/-!
  Per-run obligations over `Gen/SubmitPrefix.lean` (regenerated from the current tree by `tools/gen_submit.py`):
  the bookkeeping prefix of every `_<alg>_ctx_mgr_submit_<family>` (23 SIMD-family files), as the source reads now,
  is the prefix whose meaning `Lemmas/SubmitCProofs.lean` establishes for every flags word, every length and every
  context state: the three rejections store the error code and return without any other change (C11, C16), an
  accepted submit clears the error (C11 "no later valid call is reported as failed"), and `total_length` is
  reset on FIRST and advanced by `len` modulo 2^64 (C15).
-/
namespace IsalVerif.GenProps.SubmitPrefix
open IsalVerif IsalVerif.SubmitC IsalVerif.HashMB

/-- THE PER-RUN OBLIGATION -/
theorem all_canon : Gen.SubmitPrefix.all.all (fun x => decide (x.prog = canon)) = true := by decide

theorem all_count : 23 ≤ Gen.SubmitPrefix.all.length := by decide

/-- every SIMD-family submit of the current source, on every input and state, computes the scalar part of
    `HashMB.ctxSubmit` -/
theorem submit_prefix_current {D : Type} (x : Src) (hx : x ∈ Gen.SubmitPrefix.all)
    (A : Alg D) (c : Ctx D) (data : Bytes) (flags : Nat) (b0 b1 : Bool)
    (hf : flags < 2^32) (hl : data.length < 2^32) (ht : c.total < 2^64) (hp : c.part.length < 2^32) :
    (run x.prog flags data.length (absSt c b0 b1)).bad = false ∧
    (if flags / 4 ≠ 0 then
       (run x.prog flags data.length (absSt c b0 b1)).returned = true ∧
       (run x.prog flags data.length (absSt c b0 b1)).s = absSt { c with error := errInvalidFlags } b0 b1
     else if c.processing then
       (run x.prog flags data.length (absSt c b0 b1)).returned = true ∧
       (run x.prog flags data.length (absSt c b0 b1)).s = absSt { c with error := errAlreadyProcessing } b0 b1
     else if c.complete ∧ flags % 2 = 0 then
       (run x.prog flags data.length (absSt c b0 b1)).returned = true ∧
       (run x.prog flags data.length (absSt c b0 b1)).s = absSt { c with error := errAlreadyCompleted } b0 b1
     else
       (run x.prog flags data.length (absSt c b0 b1)).returned = false ∧
       (run x.prog flags data.length (absSt c b0 b1)).s =
         absSt (accepted A c data flags) true (b1 || decide (flags % 2 = 1))) := by
  have h := of_decide_eq_true (List.all_eq_true.mp all_canon x hx)
  rw [h]
  exact prefix_refines A c data flags b0 b1 hf hl ht hp

/-- per-run obligation for the 5 base files -/
theorem all_canon_base : Gen.SubmitPrefix.allBase.all (fun x => decide (x.prog = canonBase)) = true := by decide

theorem all_count_base : 5 ≤ Gen.SubmitPrefix.allBase.length := by decide

/-- every base-family submit of the current source: the three rejections are the model's `baseRejects`, a rejection
    stores a non-zero error code and nothing else, an accepted submit clears the error before any hashing -/
theorem base_prefix_current {D : Type} (x : Src) (hx : x ∈ Gen.SubmitPrefix.allBase)
    (c : Ctx D) (flags ln : Nat) (b0 b1 : Bool) (hf : flags < 2^32) :
    (run x.prog flags ln (absSt c b0 b1)).bad = false ∧
    ((run x.prog flags ln (absSt c b0 b1)).returned = baseRejects c flags) ∧
    (baseRejects c flags = false → (run x.prog flags ln (absSt c b0 b1)).s = absSt { c with error := 0 } b0 b1) ∧
    (baseRejects c flags = true → ∃ code, code ≠ 0 ∧
        (run x.prog flags ln (absSt c b0 b1)).s = absSt { c with error := code } b0 b1) := by
  have h := of_decide_eq_true (List.all_eq_true.mp all_canon_base x hx)
  rw [h]
  exact base_prefix_refines c flags ln b0 b1 hf

end IsalVerif.GenProps.SubmitPrefix
