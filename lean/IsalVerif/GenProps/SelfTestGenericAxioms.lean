import Lean
import IsalVerif.GenProps.SelfTestGeneric
/-!
# C17, portable gate — axiom audit (enforced)

`lake build IsalVerif.GenProps.SelfTestGenericAxioms` fails if any of the theorems below depends on an axiom
other than `propext`, `Classical.choice`, `Quot.sound` (so: no placeholder proofs, no compiler-evaluated
decision procedures, no external certificates, no user-declared axioms).
-/
open Lean Elab Command in
/-- `#assert_axioms t₁ t₂ …` — fail unless each `tᵢ` depends on standard axioms only -/
elab "#assert_axioms " ids:ident+ : command => do
  for id in ids do
    let n ← liftCoreM <| realizeGlobalConstNoOverloadWithInfo id
    let ax ← liftCoreM <| Lean.collectAxioms n
    for a in ax do
      unless a == ``propext || a == ``Classical.choice || a == ``Quot.sound do
        throwError "{n} depends on the non-standard axiom {a}"
    logInfo m!"{n}: {ax.toList}"

namespace IsalVerif
open SelfTestGeneric GenProps.SelfTestGeneric

#assert_axioms
  C17_generic_once C17_generic_no_early_return C17_generic_success_means_passed C17_generic_agree
  C17_generic_verdict_stable C17_generic_live C17_generic_live_strong C17_generic_run_reach C17_generic_final
  C17_generic_machine C17_generic_machine_live C17_generic_cfg_hypothesis_necessary
  exchangeWitness_sound exchange_rejected C17_generic_cas_necessary
  sim_ok closed_world_ok return_table_consistent return_values_ok
  C17_generic_generated C17_generic_generated_live fast_path_ok

end IsalVerif
