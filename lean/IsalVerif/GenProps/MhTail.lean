import IsalVerif.Gen.MhTail
import IsalVerif.Lemmas.MhTailCProofs
/-!
  Per-run obligations over `Gen/MhTail.lean` (regenerated from the current tree by `tools/gen_mhupdate.py`): every instance of
  the multi-hash tail function (`_mh_sha1_tail_{base,sse,avx,avx2,avx512}`, `_mh_sha256_tail_*`), as the source reads
  now, hashes exactly `tailBlocks` - the partial block with 0x80, zeros and the 64-bit big-endian bit length of the
  (32-bit) total, in one block or two - with the block function of its own family, and then runs the outer hash over
  the 4·W·16 bytes of interim digests (C05, C10: the tail is shared with the stitched murmur finalize).
-/
namespace IsalVerif.GenProps.MhTail
open IsalVerif IsalVerif.MhTailC

/-- bytes of interim digests read by the outer hash: 4 · (digest words) · 16 segments -/
def outerBytes : String → Nat
  | "_mh_sha256_tail_base" => 512 | "_mh_sha256_tail_sse" => 512 | "_mh_sha256_tail_avx" => 512
  | "_mh_sha256_tail_avx2" => 512 | "_mh_sha256_tail_avx512" => 512
  | _ => 320

/-- THE PER-RUN OBLIGATION -/
theorem all_canon : Gen.MhTail.all.all (fun x => decide (x.prog = canon (outerBytes x.fn))) = true := by decide

theorem all_count : 10 ≤ Gen.MhTail.all.length := by decide

theorem mhtail_current (x : Src) (hx : x ∈ Gen.MhTail.all) (s : St) (h0 : s.locs 0 < 2^32) (hp : s.part.length = 2048)
    (hc : s.calls = []) (hf : s.final = none) :
    (run x.prog s).res = some (tailBlocks (s.locs 0) s.part, some (outerBytes x.fn)) := by
  have h := of_decide_eq_true (List.all_eq_true.mp all_canon x hx)
  rw [h]
  exact canon_tail _ s h0 hp hc hf

/-- **source → definition**: the bytes every tail function of the current tree feeds to the block function are the
    bytes of the partial block followed by the multi-hash definition's padding (`MultiHash.mhPad n = mdPad 1024 8 true n`)
    of a stream of `n < 2^32` bytes -/
theorem mhtail_is_standard (x : Src) (hx : x ∈ Gen.MhTail.all) (s : St) (h0 : s.locs 0 < 2^32) (hp : s.part.length = 2048)
    (hc : s.calls = []) (hf : s.final = none) :
    ∃ blocks, (run x.prog s).res = some (blocks, some (outerBytes x.fn)) ∧
      blocks.flatten = s.part.take (s.locs 0 % 1024) ++ mdPad 1024 8 true (s.locs 0) :=
  ⟨_, mhtail_current x hx s h0 hp hc hf, tailBlocks_is_standard _ _ hp⟩

end IsalVerif.GenProps.MhTail
