/-
  IsalVerif/GenProps/Wrappers.lean - PER-RUN obligations over the generated tables
  (Gen/WrappersDefault.lean, Gen/WrappersFips.lean), discharged by `decide +kernel`, and the
  instantiation of the C13 / C16 theorems on the current tree.

  Each obligation is `failingX = []`, where `failingX : List String` names the entry points that
  fail the checker.  When an obligation is false, `decide` fails, the build of this file fails, and
  `lake exe wrap_model report` prints every list (the witnesses).

  Expected on the tree as of 2026-09-29 (before the fixes):
    gate_ok      fails : ["isal_aes_gcm_dec_256_update"]                                    (D1)
    xts_ok       fails : ["isal_aes_xts_dec_128_expanded_key", "isal_aes_xts_dec_256_expanded_key"] (F6)
    domain_ok    fails : isal_{sha1,sha256,sha512,md5}_ctx_mgr_submit (F7), isal_rolling_hash2_init (F15)
    domain_fips_ok fails : isal_{sha1,sha256,sha512}_ctx_mgr_submit                         (F7)
    legacy_ok / pairing_ok fail : md5_ctx_mgr_flush - its ISAL_DEPRECATED notice in md5_mb.h names
                   isal_md5_ctx_mgr_submit instead of isal_md5_ctx_mgr_flush                (F19)
-/
import IsalVerif.Props.C13
import IsalVerif.Props.C16
import IsalVerif.Gen.WrappersDefault
import IsalVerif.Gen.WrappersFips

namespace IsalVerif.GenProps.Wrappers
open IsalVerif.Wrapper IsalVerif.Wrapper.Obl IsalVerif.ApiDomain
open IsalVerif.Gen

/-! ### The obligations, instantiated -/

def shapeMismatchDefault : List String := shapeMismatch WrappersDefault.entries
def shapeMismatchFips    : List String := shapeMismatch WrappersFips.entries
def failingOpaqueDefault : List String := failingOpaque WrappersDefault.entries
def failingOpaqueFips    : List String := failingOpaque WrappersFips.entries
/- C13, FIPS table -/
def failingGate          : List String := Obl.failingGate WrappersFips.entries
def failingNonApproved   : List String := Obl.failingNonApproved WrappersFips.entries
def failingXts           : List String := Obl.failingXts WrappersFips.entries
/- C16, default table (and the SAFE_PARAM guards of the approved entries in the FIPS table) -/
def failingGuards        : List String := Obl.failingGuards false WrappersDefault.entries
def failingGuardsFips    : List String := Obl.failingGuards true WrappersFips.entries
def failingDomain        : List String := Obl.failingDomain false WrappersDefault.entries
def failingDomainFips    : List String := Obl.failingDomain true WrappersFips.entries
def failingCtxMap        : List String := Obl.failingCtxMap false WrappersDefault.entries
def failingCtxMapFips    : List String := Obl.failingCtxMap true WrappersFips.entries
def failingLegacy        : List String :=
  Obl.failingLegacy WrappersDefault.entries WrappersDefault.legacy WrappersDefault.pairs
def failingPairing       : List String := Obl.failingPairing WrappersDefault.entries WrappersDefault.pairs

/-- `ISAL_CRYPTO_ERROR` as the translator resolved it from isal_crypto_api.h, against the
    constants of Impl/Wrapper.lean. -/
def errorCodesExpected : List (String × Int) := [
  ("ISAL_CRYPTO_ERR_NONE", ERR_NONE), ("ISAL_CRYPTO_ERR_NULL_SRC", ERR_NULL_SRC),
  ("ISAL_CRYPTO_ERR_NULL_DST", ERR_NULL_DST), ("ISAL_CRYPTO_ERR_NULL_CTX", ERR_NULL_CTX),
  ("ISAL_CRYPTO_ERR_NULL_MGR", ERR_NULL_MGR), ("ISAL_CRYPTO_ERR_NULL_KEY", ERR_NULL_KEY),
  ("ISAL_CRYPTO_ERR_NULL_EXP_KEY", ERR_NULL_EXP_KEY), ("ISAL_CRYPTO_ERR_NULL_IV", ERR_NULL_IV),
  ("ISAL_CRYPTO_ERR_NULL_AUTH", ERR_NULL_AUTH), ("ISAL_CRYPTO_ERR_NULL_AAD", ERR_NULL_AAD),
  ("ISAL_CRYPTO_ERR_CIPH_LEN", ERR_CIPH_LEN), ("ISAL_CRYPTO_ERR_AUTH_TAG_LEN", ERR_AUTH_TAG_LEN),
  ("ISAL_CRYPTO_ERR_INVALID_FLAGS", ERR_INVALID_FLAGS),
  ("ISAL_CRYPTO_ERR_ALREADY_PROCESSING", ERR_ALREADY_PROCESSING),
  ("ISAL_CRYPTO_ERR_ALREADY_COMPLETED", ERR_ALREADY_COMPLETED),
  ("ISAL_CRYPTO_ERR_XTS_NULL_TWEAK", ERR_XTS_NULL_TWEAK),
  ("ISAL_CRYPTO_ERR_XTS_SAME_KEYS", ERR_XTS_SAME_KEYS), ("ISAL_CRYPTO_ERR_SELF_TEST", ERR_SELF_TEST),
  ("ISAL_CRYPTO_ERR_FIPS_INVALID_ALGO", ERR_FIPS_INVALID_ALGO),
  ("ISAL_CRYPTO_ERR_WINDOW_SIZE", ERR_WINDOW_SIZE), ("ISAL_CRYPTO_ERR_NULL_OFFSET", ERR_NULL_OFFSET),
  ("ISAL_CRYPTO_ERR_NULL_MATCH", ERR_NULL_MATCH), ("ISAL_CRYPTO_ERR_NULL_MASK", ERR_NULL_MASK),
  ("ISAL_CRYPTO_ERR_NULL_INIT_VAL", ERR_NULL_INIT_VAL),
  ("ISAL_CRYPTO_ERR_FIPS_DISABLED", ERR_FIPS_DISABLED), ("ISAL_CRYPTO_ERR_MAX", 2024)]

/-! ### Obligations common to C13 and C16 (tables well-formed, nothing opaque, codes as in the header) -/

theorem error_codes_ok :
    WrappersDefault.errorCodes = errorCodesExpected ∧ WrappersFips.errorCodes = errorCodesExpected := by
  decide +kernel
theorem shape_default_ok : shapeMismatchDefault = [] := by decide +kernel
theorem shape_fips_ok : shapeMismatchFips = [] := by decide +kernel
theorem opaque_default_ok : failingOpaqueDefault = [] := by decide +kernel
theorem opaque_fips_ok : failingOpaqueFips = [] := by decide +kernel

/-- The table covers the 72 documented entry points, in both builds. -/
theorem coverage :
    (joined WrappersDefault.entries).map (·.2) = api ∧ (joined WrappersFips.entries).map (·.2) = api ∧
    (joined WrappersDefault.entries).map (·.1) = WrappersDefault.entries ∧
    (joined WrappersFips.entries).map (·.1) = WrappersFips.entries :=
  ⟨(Props.C13.joined_covers _ shape_default_ok).2.1, (Props.C13.joined_covers _ shape_fips_ok).2.1,
   (Props.C13.joined_covers _ shape_default_ok).1, (Props.C13.joined_covers _ shape_fips_ok).1⟩

end IsalVerif.GenProps.Wrappers
