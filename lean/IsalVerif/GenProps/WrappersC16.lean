/- PER-RUN obligations of C16 over the generated default table (and the SAFE_PARAM guards of the FIPS table). -/
import IsalVerif.GenProps.Wrappers

namespace IsalVerif.GenProps.Wrappers
open IsalVerif.Wrapper IsalVerif.Wrapper.Obl IsalVerif.ApiDomain
open IsalVerif.Gen

theorem guards_ok : failingGuards = [] := by decide +kernel
theorem guards_fips_ok : failingGuardsFips = [] := by decide +kernel
theorem ctxmap_ok : failingCtxMap = [] := by decide +kernel
theorem ctxmap_fips_ok : failingCtxMapFips = [] := by decide +kernel
theorem domain_ok : failingDomain = [] := by decide +kernel             -- F7, F15
theorem domain_fips_ok : failingDomainFips = [] := by decide +kernel    -- F7
theorem legacy_ok : failingLegacy = [] := by decide +kernel             -- F19
theorem pairing_ok : failingPairing = [] := by decide +kernel           -- F19

/-- C16 for the default table of the current tree (all clauses; see Props/C16.lean). -/
theorem C16_current :
    (∀ p ∈ joined WrappersDefault.entries, p.2.cls ≠ .service → ∀ env : Env, ¬ p.2.inDomain env →
      (p.1.run env).ret ≠ 0 ∧ (p.1.run env).ret ∈ p.2.violatedCodes env ∧
      (p.1.run env).effects = []) ∧
    (∀ p ∈ joined WrappersDefault.entries, p.2.cls ≠ .service → ∀ env : Env, p.2.inDomain env →
      CalleeOk env → (p.1.run env).ret = 0) ∧
    (∀ p ∈ joined WrappersDefault.entries, p.2.cls ≠ .service → ∀ env : Env,
      ∀ e ∈ (p.1.run env).effects, ∀ q ∈ e.uses p.1.params,
        ∃ c ∈ guardConds p.1.body, q ∈ c.nullTested ∧ c.eval env = false) ∧
    (∀ pr ∈ WrappersDefault.pairs, ∃ l i, findEntry WrappersDefault.legacy pr.1 = some l ∧
      findEntry WrappersDefault.entries pr.2 = some i ∧
      ∃ sym args, ∃ f : Arg → Arg,
        (∀ env, quiet env i.body = true → (run i.body env).calls = [.call sym args]) ∧
        (∀ env, (run l.body env).calls = [.call sym (args.map f)])) :=
  ⟨Props.C16.reject _ domain_ok, Props.C16.accept _ domain_ok,
   Props.C16.pointers_tested_before_use _ guards_ok,
   Props.C16.legacy_same_call _ _ _ legacy_ok⟩

end IsalVerif.GenProps.Wrappers
