import IsalVerif.Gen.SelfTest
import IsalVerif.Props.C17
/-!
# C17 — per-run obligations (a), (b) over the regenerated self-test programs

Re-evaluated by the kernel on every run, over `Gen/SelfTest.lean`:

* `sim_ok` — **(a)+(b)**: the instruction sequences of `asm_check_self_tests_status`,
  `asm_set_self_tests_status` and `isal_self_tests`, executed by the instruction-level machine, refine the
  abstract protocol: `simCheck` explores all (machine state, abstract state) pairs and checks the step
  correspondence (see `Impl/SelfTestMachine.lean`).  Nothing is pinned to a reference listing: a different
  register allocation or block layout is accepted as long as the protocol is the same; any unsupported
  instruction, wrong constant, missing `lock`, swapped branch … makes it fail.
  This covers: status encodings (initial word 2), what `check` returns in each case, the spin loop, that the
  stored word is `_aes_self_tests() | _sha_self_tests()`, and the winner/loser control flow with return
  codes 0 / 2016 of `isal_self_tests`.
* `closed_world_ok` — nobody else can touch the status word or call the internal functions: the word is a
  file-local symbol referenced only from the two assembly functions, and the four internal functions are
  imported by `self_tests.o` only; the self-test objects import no gated `isal_*` entry point.

Obligation (c) — return values of the self-test functions — lives in `GenProps/SelfTestRet.lean` so that
its failure (defect D2) is reported separately.
-/
namespace IsalVerif.GenProps.SelfTest
open IsalVerif.SelfTest IsalVerif.Gen.SelfTest

-- diagnostics: when the check fails, name the instructions that do not match the protocol
#eval show IO Unit from do
  unless simCheck program do
    throw <| IO.userError <| "C17 obligation (a)/(b) FAILS — the translated instruction sequences do not refine the " ++
      "protocol; mismatching (function, instruction index, abstract state): " ++ toString (repr (simFailures program)) ++
      s!"; initial status word {initialStatus}"
  unless statusSymbolLocal && strayStatusRefs.isEmpty && selfTestIsalImports.isEmpty do
    throw <| IO.userError s!"C17 closed-world check FAILS: statusSymbolLocal={statusSymbolLocal} strayStatusRefs={strayStatusRefs} selfTestIsalImports={selfTestIsalImports} importers={importers}"

/-- **obligation (a)+(b)** -/
theorem sim_ok : simCheck program = true := by decide +kernel

def closedWorld : Bool :=
  statusSymbolLocal && strayStatusRefs.isEmpty && selfTestIsalImports.isEmpty &&
  importers.length == 4 && importers.all fun e => e.2 == ["self_tests.o"]

/-- **closed world** -/
theorem closed_world_ok : closedWorld = true := by decide

/-- the 32-bit words the self-test functions can return, from the extracted C return values -/
def retWords : List Nat := selfTestReturnValues.map wordOfInt

theorem retWords_01 (hret : ∀ v ∈ selfTestReturnValues, v = 0 ∨ v = 1) : ∀ w ∈ retWords, w = 0 ∨ w = 1 := by
  intro w hw
  simp only [retWords, List.mem_map] at hw
  obtain ⟨v, hv, rfl⟩ := hw
  rcases hret v hv with rfl | rfl
  · left; decide
  · right; decide

/-- **C17 for the compiled code**, conditional on obligation (c): any number of threads, any interleaving
    of the instructions of the three translated functions. -/
theorem C17_generated_if (hret : ∀ v ∈ selfTestReturnValues, v = 0 ∨ v = 1) {n : Nat} {cg : CG}
    (h : CReach program retWords n cg) :
    (cg.entered ≤ 1 ∧ cg.completed ≤ cg.entered ∧
     (cg.status = 0 ∨ cg.status = 1 ∨ cg.status = 2 ∨ cg.status = 3) ∧
     ∀ (j : Nat) (l : Local) (v : Nat), cg.th[j]? = some l → l.res = some v →
       (cg.status = 0 ∨ cg.status = 1) ∧ v = codeOf cg.status ∧ cg.entered = 1 ∧ cg.completed = 1) ∧
    (∀ cg', (cg.status = 0 ∨ cg.status = 1) → CStep program retWords cg cg' →
       cg'.status = cg.status ∧ cg'.entered = cg.entered ∧ cg'.completed = cg.completed) :=
  C17_machine sim_ok (retWords_01 hret) h

/-- **C17 (4) for the compiled code**: under any schedule of single instructions that keeps scheduling the
    threads that have not returned, with self-test outcomes in {0,1}, all threads return. -/
theorem C17_generated_live (n : Nat) (σ o : Nat → Nat) (hf : CFair program n σ o) :
    ∃ t, (crun program n σ o t).allReturned ∧ CReach program [0, 1] n (crun program n σ o t) :=
  C17_machine_live sim_ok n σ o hf

/-- D2 on the compiled code (independent of what the C sources return today): *if* `_sha_self_tests` can
    return -1, then the translated instruction sequences themselves run the self tests twice — thread 0
    executes its whole call (AES 0, then SHA -1), then thread 1 executes its whole call (both 0). -/
def d2MachineSchedule : List (Nat × Nat × Nat) := [(0, 17, 0), (0, 40, 4294967295), (1, 80, 0)]

theorem D2_on_generated_code :
    ∃ cg, CReach program [0, 4294967295] 2 cg ∧ cg.entered = 2 ∧ cg.completed = 2 ∧
      cg.th.map (·.res) = [some 2016, some 0] := by
  refine ⟨crunList program (CG.init program 2) d2MachineSchedule,
    crunList_reach CReach.init _ (by decide), ?_⟩
  decide +kernel

/-- non-vacuity on the compiled code: 3 threads interleaved instruction by instruction, tests pass, all
    return 0, tests entered once -/
example : ∃ cg, CReach program [0, 1] 3 cg ∧ cg.entered = 1 ∧ cg.status = 0 ∧
    cg.th.map (·.res) = [some 0, some 0, some 0] := by
  refine ⟨crunList program (CG.init program 3)
    [(0, 5, 0), (1, 7, 0), (0, 4, 0), (1, 9, 0), (0, 30, 0), (1, 3, 0), (2, 40, 0), (1, 40, 0), (0, 40, 0)],
    crunList_reach CReach.init _ (by decide), ?_⟩
  decide +kernel

end IsalVerif.GenProps.SelfTest
