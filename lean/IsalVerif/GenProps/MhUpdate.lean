import IsalVerif.Gen.MhUpdate
import IsalVerif.Lemmas.MhCProofs
/-!
  Per-run obligations over `Gen/MhUpdate.lean` (regenerated from the current tree by `tools/gen_mhupdate.py`): every
  instance of the multi-hash update template (`_mh_sha1_update_{base,sse,avx,avx2,avx512}`, `_mh_sha256_update_*`,
  `_mh_sha1_murmur3_x64_128_update_*`), as
  the source reads now, is the program whose meaning `Lemmas/MhCProofs.lean` establishes (`canon_mh_update`): for every
  context state and every input shorter than 2^32 − 1024 bytes it advances `total_length` by the input length, calls
  the block function of its own family on exactly the completed carried block and on the whole blocks of the input, in
  that order, and leaves exactly the unhashed tail in the partial buffer (C05: the digest does not depend on how the
  stream was cut into update calls).
-/
namespace IsalVerif.GenProps.MhUpdate
open IsalVerif IsalVerif.MhC

/-- THE PER-RUN OBLIGATION (the translator adds an `unsupported` statement when an instance calls the block function
    of another family) -/
theorem all_canon : Gen.MhUpdate.all.all (fun x => decide (x.prog = canon)) = true := by decide

theorem all_count : 15 ≤ Gen.MhUpdate.all.length := by decide

/-- the stitched mh_sha1 + murmur3 update (C10) is among the instances: same template, the block function takes the
    murmur state as one more pointer -/
theorem stitched_present :
    ["_mh_sha1_murmur3_x64_128_update_base", "_mh_sha1_murmur3_x64_128_update_sse", "_mh_sha1_murmur3_x64_128_update_avx",
     "_mh_sha1_murmur3_x64_128_update_avx2", "_mh_sha1_murmur3_x64_128_update_avx512"].all
      (fun n => Gen.MhUpdate.all.any (fun x => decide (x.fn = n))) = true := by decide

theorem mhupdate_current (x : Src) (hx : x ∈ Gen.MhUpdate.all) (s : St) (ht : s.total < 2^64)
    (hl : s.input.length + 1024 < 2^32) (h0 : s.locs 0 = s.input.length) (h3 : s.locs 3 = 0) (hc : s.calls = [])
    (hp : s.part.length = 2048) :
    (run x.prog s).res = some (mhSpec s.total s.part s.input) := by
  have h := of_decide_eq_true (List.all_eq_true.mp all_canon x hx)
  rw [h]
  exact canon_mh_update s ht hl h0 h3 hc hp

/-- **source → streaming law**: every update instance of the current tree, run on any context and input, leaves the
    abstract state (interim digests folded over the blocks it handed to the block function, valid prefix of the partial
    buffer) that `absorb` prescribes - the law from which the segmentation-independence theorems of C05 are derived -/
theorem mhupdate_absorbs {D : Type} (f : D → Bytes → D) (d : D) (x : Src) (hx : x ∈ Gen.MhUpdate.all) (s : St)
    (hl : s.input.length + 1024 < 2^32) (h64 : s.total + s.input.length < 2^64)
    (h0 : s.locs 0 = s.input.length) (h3 : s.locs 3 = 0) (hc : s.calls = []) (hp : s.part.length = 2048) :
    ∃ r, (run x.prog s).res = some r ∧
      absOf f d r = absorb 1024 f ⟨d, s.part.take (s.total % 1024)⟩ s.input :=
  ⟨_, mhupdate_current x hx s (by omega) hl h0 h3 hc hp, mhSpec_absorb f d _ _ _ hp h64⟩

end IsalVerif.GenProps.MhUpdate
