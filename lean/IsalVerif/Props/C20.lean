import IsalVerif.Props.C15
/-!
# C20 — results depend on declared inputs only

Model side: the implementation-level models carry the API-undefined state explicitly as
parameters — the digest words a context holds before FIRST (`world0 P g`), what `GCM_INIT` happens
to store in `partial_block_enc_key` (`GcmStream.init … garbage`) — and the theorems show the
results do not depend on them.  (GCM: `Props/C20Gcm.lean`.)  Tie: every correspondence harness is
re-run with objects allocated from differently poisoned memory and every call made through
`harness/tramp.asm`, which randomises the caller-saved GPRs that carry no argument, zmm0-31, k1-k7,
the arithmetic flags and the 64 KiB of dead stack; the result streams must be identical to the
unpoisoned run and to the model.
-/
namespace IsalVerif.HashMB
variable {D : Type}

/-- hash: two executions of the same history from managers whose contexts held different garbage
    agree on every API-defined field of every context that is not in flight (digest, unhashed
    tail, total, complete flag) — each is the function of the context's stream given by C01/C15 -/
theorem C20_hash (P : Params) (hP : 0 < P.nl) (A : Alg D) (hA : AlgOk A) (g₁ g₂ : Cid → D) (ops : List Op)
    (w₁ w₂ : World D) (h₁ : run P A (world0 P g₁) ops = some w₁) (h₂ : run P A (world0 P g₂) ops = some w₂)
    (c : Cid) (b : Bytes) (closed : Bool) (hs₁ : w₁.sp c = some (b, closed)) (hs₂ : w₂.sp c = some (b, closed))
    (hi₁ : (w₁.m.ctxs c).processing = false) (hi₂ : (w₂.m.ctxs c).processing = false) (hlen : b.length < 2^61) :
    (w₁.m.ctxs c).complete = (w₂.m.ctxs c).complete ∧ (w₁.m.ctxs c).total = (w₂.m.ctxs c).total ∧
    (closed = true → (w₁.m.ctxs c).dig = (w₂.m.ctxs c).dig) ∧
    (closed = false → (w₁.m.ctxs c).dig = (w₂.m.ctxs c).dig ∧ (w₁.m.ctxs c).part = (w₂.m.ctxs c).part) := by
  have a₁ := C01 P hP A hA g₁ ops w₁ h₁ c b closed hs₁ hi₁ hlen
  have a₂ := C01 P hP A hA g₂ ops w₂ h₂ c b closed hs₂ hi₂ hlen
  have t₁ := (C15 P hP A hA g₁ ops w₁ h₁ c b closed hs₁ hi₁ hlen).1
  have t₂ := (C15 P hP A hA g₂ ops w₂ h₂ c b closed hs₂ hi₂ hlen).1
  refine ⟨a₁.1.trans a₂.1.symm, t₁.trans t₂.symm, fun hc => (a₁.2.1 hc).trans (a₂.2.1 hc).symm, fun hc => ?_⟩
  have e₁ := a₁.2.2 hc
  have e₂ := a₂.2.2 hc
  have := e₁.trans e₂.symm
  exact ⟨congrArg S.dig this, congrArg S.part this⟩

/-- FIRST defines digest, total and partial length before anything is read: a context restarted
    with FIRST/ENTIRE forgets whatever it held — garbage or a previous message -/
theorem C20_first_defines (A : Alg D) (x y : Ctx D) (data : Bytes) (flags : Nat) (hf : flags % 2 = 1)
    (hl : x.lane = y.lane) :
    accepted A x data flags = accepted A y data flags := by
  unfold accepted
  simp only [hf, if_true]
  simp [hl]

end IsalVerif.HashMB
