import IsalVerif.Lemmas.BaseFamily
import IsalVerif.Props.C11
/-!
# C01 for the synchronous base family (`*_ctx_base.c`)

The base family (bound by the dispatcher on CPUs without SSE4.1, and the reference the other families
are compared with) has its own update code and its own padding code.  This file proves for it what
`Props/C01.lean` proves for the multi-buffer families: after any history of valid or rejected
submits, a context whose stream was closed by LAST holds the standard digest of the concatenation of
its segments since FIRST, and an open one holds `absorb` of it (digest after the whole blocks + the
carried tail).  Lanes are never used: every context is idle between calls.
-/
namespace IsalVerif.HashMB
variable {D : Type}

theorem absorb_part_len (B : Nat) (hB : 0 < B) (f : D → Bytes → D) (d : D) (b : Bytes) :
    (absorb B f ⟨d, []⟩ b).part.length = b.length % B := by
  simp only [absorb, List.nil_append, List.length_drop]
  have := Nat.div_add_mod b.length B
  rw [Nat.mul_comm] at this; omega

theorem mod_pow64_mod (n B : Nat) (hB : B = 64 ∨ B = 128) : n % 2^64 % B = n % B := by
  rcases hB with h | h <;> subst h <;> omega

/-- one accepted base submit keeps the context related to its stream -/
theorem baseAccepted_rel (A : Alg D) (hA : AlgOk A) (x : Ctx D) (sp : SpecCtx) (data : Bytes) (flags : Nat)
    (hrel : Rel A x sp) (hsh : Shape A.B x) (hl : x.lane = none) (hp : x.processing = false)
    (hacc : baseRejects x flags = false)
    (hlen : ∀ b cl, specSubmit sp data flags = some (b, cl) → b.length < 2^64 - 128) :
    Rel A (baseAccepted A x data flags) (specSubmit sp data flags) ∧ Shape A.B (baseAccepted A x data flags) ∧
    (baseAccepted A x data flags).lane = none ∧ (baseAccepted A x data flags).processing = false ∧
    (baseAccepted A x data flags).error = 0 := by
  have hB : 0 < A.B := by rcases hA with ⟨h, _⟩ | ⟨h, _⟩ <;> omega
  have hB' : A.B = 64 ∨ A.B = 128 := by rcases hA with ⟨h, _⟩ | ⟨h, _⟩ <;> simp [h]
  have hinc : x.incoming = [] := (hsh.2.2.2 hp).2
  have hlast : x.last = false := (hsh.2.2.2 hp).1
  simp only [baseRejects, Bool.or_eq_false_iff, decide_eq_false_iff_not, Bool.and_eq_false_imp, Decidable.not_not,
    decide_eq_true_eq] at hacc
  obtain ⟨⟨h1, _⟩, h3⟩ := hacc
  have hfl : flags < 4 := by omega
  -- the context after update, for a start state `y` related to stream `b0`
  have upd : ∀ (y : Ctx D) (b0 : Bytes), sOf y = absorb A.B A.f ⟨A.init, []⟩ b0 → y.total = b0.length % 2^64 →
      y.lane = none → y.incoming = [] →
      let u := baseUpdate A y data
      sOf u = absorb A.B A.f ⟨A.init, []⟩ (b0 ++ data) ∧ u.total = (b0 ++ data).length % 2^64 ∧
      u.part.length < A.B ∧ u.lane = none ∧ u.incoming = [] ∧ u.processing = false ∧ u.last = false ∧
      u.complete = false ∧ u.error = y.error := by
    intro y b0 hy ht hyl hyi
    have hylt : y.part.length < A.B := by
      have := congrArg S.part hy
      simp only [sOf] at this; rw [this]; exact absorb_part_lt A.B hB A.f _ _
    have hc := baseUpdate_core A hB y hylt data
    rw [hy, absorb_append A.B hB] at hc
    obtain ⟨f1, f2, f3, f4, f5, f6, f7⟩ := baseUpdate_fields A y data
    refine ⟨hc, ?_, ?_, f5.trans hyl, f6.trans hyi, f2, f3, f4, f7⟩
    · rw [f1, ht, List.length_append]; omega
    · have := congrArg S.part hc
      simp only [sOf] at this; rw [this]; exact absorb_part_lt A.B hB A.f _ _
  -- an open context is related to its stream
  have openRel : ∀ (u : Ctx D) (b : Bytes), sOf u = absorb A.B A.f ⟨A.init, []⟩ b → u.total = b.length % 2^64 →
      u.part.length < A.B → u.lane = none → u.incoming = [] → u.processing = false → u.last = false →
      u.complete = false → Rel A u (some (b, false)) ∧ Shape A.B u := by
    intro u b hu ht hlt hul hui hup hula huc
    have hshape : Shape A.B u := ⟨hlt, fun _ => hui, fun _ => hui, fun _ => ⟨hula, hui⟩⟩
    refine ⟨⟨ht, ?_, by simp [hula, huc]⟩, hshape⟩
    rw [settle_idle A u hshape hul hup huc]
    simp only [target, Bool.false_eq_true, if_false]
    exact hu
  -- a closed context is related to its stream
  have closedRel : ∀ (u : Ctx D) (b : Bytes), sOf u = absorb A.B A.f ⟨A.init, []⟩ b → u.total = b.length % 2^64 →
      u.lane = none → u.incoming = [] → b.length < 2^64 - 128 →
      Rel A (baseFinal A u) (some (b, true)) ∧ Shape A.B (baseFinal A u) := by
    intro u b hu ht hul hui hbl
    have hpart : u.part = (absorb A.B A.f ⟨A.init, []⟩ b).part := by
      have := congrArg S.part hu; simpa [sOf] using this
    have hdig : u.dig = (absorb A.B A.f ⟨A.init, []⟩ b).dig := by
      have := congrArg S.dig hu; simpa [sOf] using this
    have hplen : u.part.length = u.total % A.B := by
      rw [hpart, absorb_part_len A.B hB, ht, mod_pow64_mod _ _ hB']
    have htl : u.total < 2^64 - 128 := by rw [ht, Nat.mod_eq_of_lt (by omega)]; exact hbl
    have hfin := baseFinal_blocks A (by exact hA) u htl hplen
    obtain ⟨g1, g2, g3, g4, g5, _, g7, g8⟩ := baseFinal_fields A u
    have hshape : Shape A.B (baseFinal A u) := by
      refine ⟨?_, fun _ => g8.trans hui, fun _ => g8.trans hui, fun _ => ⟨g3, g8.trans hui⟩⟩
      rw [g7, hpart]; exact absorb_part_lt A.B hB A.f _ _
    refine ⟨⟨g1.trans ht, ?_, by simp [g4]⟩, hshape⟩
    simp only [settle, g5, hul, g4, g2, if_true, Bool.false_eq_true, if_false, target]
    rw [hfin, hpart, hdig, ht]
    rfl
  have hinitS : ∀ z : Ctx D, sOf (baseInit A z) = absorb A.B A.f ⟨A.init, []⟩ [] := by
    intro z; simp [sOf, baseInit, absorb, blocks]
  -- state of the submitted context as a stream
  have hx0 : ∀ b cl, sp = some (b, cl) → x.complete = false →
      sOf x = absorb A.B A.f ⟨A.init, []⟩ b ∧ x.total = b.length % 2^64 := by
    intro b cl hsp hc
    rw [hsp] at hrel
    obtain ⟨r1, r2, r3⟩ := hrel
    rw [hlast, hc] at r3
    have hcl : cl = false := by simpa using r3.symm
    subst hcl
    rw [settle_idle A x hsh hl hp hc] at r2
    simp only [target, Bool.false_eq_true, if_false] at r2
    exact ⟨r2, r1⟩
  match hfm : flags, hfl with
  | 1, _ =>
    rw [show baseAccepted A x data 1 = baseUpdate A (baseInit A { x with error := 0 }) data from rfl]
    have hs : specSubmit sp data 1 = some (data, false) := by simp [specSubmit]
    obtain ⟨u1, u2, u3, u4, u5, u6, u7, u8, u9⟩ :=
      upd (baseInit A { x with error := 0 }) [] (hinitS _) (by simp [baseInit]) (by simp [baseInit, hl]) (by simp [baseInit, hinc])
    simp only [List.nil_append] at u1 u2
    obtain ⟨r, s⟩ := openRel _ data u1 u2 u3 u4 u5 u6 u7 u8
    rw [hs]
    exact ⟨r, s, u4, u6, by rw [u9]; simp [baseInit]⟩
  | 0, _ =>
    rw [show baseAccepted A x data 0 = baseUpdate A { x with error := 0 } data from rfl]
    have hc : x.complete = false := by
      cases hxc : x.complete with
      | false => rfl
      | true => exact absurd rfl (h3 hxc)
    cases hsp : sp with
    | none => rw [hsp] at hrel; rw [hrel.1] at hc; cases hc
    | some p =>
      obtain ⟨b, cl⟩ := p
      obtain ⟨e1, e2⟩ := hx0 b cl hsp hc
      have hs : specSubmit (some (b, cl)) data 0 = some (b ++ data, false) := by simp [specSubmit]
      obtain ⟨u1, u2, u3, u4, u5, u6, u7, u8, u9⟩ :=
        upd { x with error := 0 } b (by simpa [sOf] using e1) (by simpa using e2) (by simpa using hl) (by simpa using hinc)
      obtain ⟨r, s⟩ := openRel _ (b ++ data) u1 u2 u3 u4 u5 u6 u7 u8
      rw [hs]
      exact ⟨r, s, u4, u6, by rw [u9]⟩
  | 2, _ =>
    rw [show baseAccepted A x data 2 = baseFinal A (baseUpdate A { x with error := 0 } data) from rfl]
    have hc : x.complete = false := by
      cases hxc : x.complete with
      | false => rfl
      | true => exact absurd rfl (h3 hxc)
    cases hsp : sp with
    | none => rw [hsp] at hrel; rw [hrel.1] at hc; cases hc
    | some p =>
      obtain ⟨b, cl⟩ := p
      obtain ⟨e1, e2⟩ := hx0 b cl hsp hc
      have hs : specSubmit (some (b, cl)) data 2 = some (b ++ data, true) := by simp [specSubmit]
      obtain ⟨u1, u2, u3, u4, u5, u6, u7, u8, u9⟩ :=
        upd { x with error := 0 } b (by simpa [sOf] using e1) (by simpa using e2) (by simpa using hl) (by simpa using hinc)
      have hbl := hlen (b ++ data) true (by rw [hsp, hs])
      obtain ⟨r, s⟩ := closedRel _ (b ++ data) u1 u2 u4 u5 hbl
      obtain ⟨g1, g2, g3, g4, g5, g6, g7, g8⟩ := baseFinal_fields A (baseUpdate A { x with error := 0 } data)
      rw [hs]
      exact ⟨r, s, g5.trans u4, g2, by rw [g6, u9]⟩
  | 3, _ =>
    rw [show baseAccepted A x data 3 = baseFinal A (baseUpdate A (baseInit A { x with error := 0 }) data) from rfl]
    have hs : specSubmit sp data 3 = some (data, true) := by simp [specSubmit]
    obtain ⟨u1, u2, u3, u4, u5, u6, u7, u8, u9⟩ :=
      upd (baseInit A { x with error := 0 }) [] (hinitS _) (by simp [baseInit]) (by simp [baseInit, hl]) (by simp [baseInit, hinc])
    simp only [List.nil_append] at u1 u2
    have hbl := hlen data true hs
    obtain ⟨r, s⟩ := closedRel _ data u1 u2 u4 u5 hbl
    obtain ⟨g1, g2, g3, g4, g5, g6, g7, g8⟩ := baseFinal_fields A (baseUpdate A (baseInit A { x with error := 0 }) data)
    rw [hs]
    exact ⟨r, s, g5.trans u4, g2, by rw [g6, u9]; simp [baseInit]⟩

/-! ### histories of base-family calls -/

/-- one call of the base family; the ghost stream changes only by an accepted submit -/
def baseStep (A : Alg D) (w : World D) (op : Cid × Bytes × Nat) : World D :=
  { m := (baseSubmit A w.m op.1 op.2.1 op.2.2).1,
    sp := if baseRejects (w.m.ctxs op.1) op.2.2 then w.sp
          else fun j => if j = op.1 then specSubmit (w.sp op.1) op.2.1 op.2.2 else w.sp j }

def baseRun (A : Alg D) : World D → List (Cid × Bytes × Nat) → World D
  | w, [] => w
  | w, op :: ops => baseRun A (baseStep A w op) ops

/-- no context is in a lane or marked PROCESSING (always true between calls of the base family) -/
def AllIdle (w : World D) : Prop := ∀ j, (w.m.ctxs j).lane = none ∧ (w.m.ctxs j).processing = false

/-- every stream is shorter than 2^64 - 128 bytes (the running total is a `uint64_t`) -/
def Bounded (w : World D) : Prop := ∀ j b cl, w.sp j = some (b, cl) → b.length < 2^64 - 128

/-- the bound holds after every call of the history -/
def BoundedRun (A : Alg D) : World D → List (Cid × Bytes × Nat) → Prop
  | _, [] => True
  | w, op :: ops => Bounded (baseStep A w op) ∧ BoundedRun A (baseStep A w op) ops

theorem baseStep_good (A : Alg D) (hA : AlgOk A) (w : World D) (op : Cid × Bytes × Nat) (hg : Good A w)
    (hi : AllIdle w) (hb : Bounded (baseStep A w op)) : Good A (baseStep A w op) ∧ AllIdle (baseStep A w op) := by
  obtain ⟨c, data, flags⟩ := op
  cases hrej : baseRejects (w.m.ctxs c) flags with
  | true =>
    obtain ⟨e, _, he⟩ := C11_base_reject A w.m c data flags hrej
    have hm : (baseStep A w (c, data, flags)).m = setCtx w.m c { w.m.ctxs c with error := e } := by
      simp only [baseStep, he]
    have hsp : (baseStep A w (c, data, flags)).sp = w.sp := by simp only [baseStep, hrej, if_true]
    refine ⟨⟨?_, ?_⟩, ?_⟩
    · rw [hm]; exact setErr_inv A w.m c e hg.inv
    · intro j; rw [hm, hsp]; exact setErr_rel A w.m c e w.sp hg.rel j
    · intro j; rw [hm]
      by_cases hj : j = c
      · subst hj; simpa [setCtx] using hi j
      · simpa [setCtx, hj] using hi j
  | false =>
    have hsub : (baseSubmit A w.m c data flags).1 = setCtx w.m c (baseAccepted A (w.m.ctxs c) data flags) := by
      simp only [baseRejects, Bool.or_eq_false_iff, decide_eq_false_iff_not, Bool.and_eq_false_imp, Decidable.not_not,
        decide_eq_true_eq] at hrej
      obtain ⟨⟨h1, h2⟩, h3⟩ := hrej
      unfold baseSubmit
      simp only []
      rw [if_neg (by simpa using h1), if_neg (by intro ⟨a, b⟩; exact h2 a b), if_neg (by intro ⟨a, b⟩; exact h3 a b)]
    have hm : (baseStep A w (c, data, flags)).m = setCtx w.m c (baseAccepted A (w.m.ctxs c) data flags) := by
      simp only [baseStep, hsub]
    have hsp : (baseStep A w (c, data, flags)).sp = fun j => if j = c then specSubmit (w.sp c) data flags else w.sp j := by
      simp only [baseStep, hrej, Bool.false_eq_true, if_false]
    have hlen : ∀ b cl, specSubmit (w.sp c) data flags = some (b, cl) → b.length < 2^64 - 128 := by
      intro b cl h
      apply hb c b cl
      rw [hsp]; simp [h]
    obtain ⟨r, sh, l, p, _⟩ := baseAccepted_rel A hA (w.m.ctxs c) (w.sp c) data flags (hg.rel c) (hg.inv.shape c)
      (hi c).1 (hi c).2 hrej hlen
    refine ⟨⟨⟨?_, ?_, ?_⟩, ?_⟩, ?_⟩
    · rw [hm]; exact setCtx_ok' w.m c _ hg.inv.ok (l.trans (hi c).1.symm) (p.trans (hi c).2.symm)
    · intro j; rw [hm]
      by_cases hj : j = c
      · subst hj; simpa [setCtx] using sh
      · simpa [setCtx, hj] using hg.inv.shape j
    · intro j hj; rw [hm] at hj
      by_cases hjc : j = c
      · subst hjc; simp only [setCtx, if_true] at hj; rw [p] at hj; cases hj
      · simp only [setCtx, hjc, if_false] at hj; rw [(hi j).2] at hj; cases hj
    · intro j; rw [hm, hsp]
      by_cases hj : j = c
      · subst hj; simpa [setCtx] using r
      · simpa [setCtx, hj] using hg.rel j
    · intro j; rw [hm]
      by_cases hj : j = c
      · subst hj; simpa [setCtx] using And.intro l p
      · simpa [setCtx, hj] using hi j

theorem baseRun_good (A : Alg D) (hA : AlgOk A) : ∀ (ops : List (Cid × Bytes × Nat)) (w : World D),
    Good A w → AllIdle w → BoundedRun A w ops → Good A (baseRun A w ops) ∧ AllIdle (baseRun A w ops) := by
  intro ops
  induction ops with
  | nil => intro w hg hi _; exact ⟨hg, hi⟩
  | cons op ops ih =>
    intro w hg hi hb
    obtain ⟨hb1, hb2⟩ := hb
    obtain ⟨g, i⟩ := baseStep_good A hA w op hg hi hb1
    exact ih _ g i hb2

/-- **C01 for the base family.**  After any history of base-family submits (valid or rejected, any
    number of contexts, any segmentation) from freshly initialised contexts, a context whose stream `b`
    (the concatenation of its segments since FIRST) was closed by LAST holds the standard digest of `b`,
    and an open one holds the digest after the whole blocks of `b` and carries its tail. -/
theorem C01_base (P : Params) (hP : 0 < P.nl) (A : Alg D) (hA : AlgOk A) (g : Cid → D)
    (ops : List (Cid × Bytes × Nat)) (hb : BoundedRun A (world0 P g) ops) (c : Cid) (b : Bytes) (closed : Bool)
    (hsp : (baseRun A (world0 P g) ops).sp c = some (b, closed)) :
    let x := (baseRun A (world0 P g) ops).m.ctxs c
    x.processing = false ∧ x.complete = closed ∧ x.total = b.length % 2^64 ∧
    (if closed then
        (b.length < 2^61 → x.dig = A.fin ((chunks A.B (b ++ mdPad A.B A.L A.lenBE b.length)).foldl A.f A.init))
     else (⟨x.dig, x.part⟩ : S UInt8 D) = absorb A.B A.f ⟨A.init, []⟩ b) := by
  have hB : 0 < A.B := by rcases hA with ⟨h, _⟩ | ⟨h, _⟩ <;> omega
  have hi0 : AllIdle (world0 P g) := by intro j; simp [world0, mgrInit]
  obtain ⟨hg, hi⟩ := baseRun_good A hA ops _ (world0_good P hP A hB g) hi0 hb
  obtain ⟨h1, h2, h3⟩ := good_idle A _ hg c (hi c).2 b closed hsp
  refine ⟨(hi c).2, h1, h2, ?_⟩
  cases closed with
  | true =>
    simp only [if_true] at h3 ⊢
    intro hlt
    rw [h3, target_closed A hA b hlt]
  | false => simpa using h3

/-- **C06 for the base family**: every submit hands the submitted context straight back (the family is
    synchronous: nothing is ever held), it is not marked PROCESSING and sits in no lane; flush has
    nothing to return (`_ctx_mgr_flush_base` returns NULL). -/
theorem C06_base (P : Params) (hP : 0 < P.nl) (A : Alg D) (hA : AlgOk A) (g : Cid → D)
    (ops : List (Cid × Bytes × Nat)) (hb : BoundedRun A (world0 P g) ops) (c : Cid) (data : Bytes) (flags : Nat) :
    (baseSubmit A (baseRun A (world0 P g) ops).m c data flags).2 = some c ∧
    (∀ j, ((baseRun A (world0 P g) ops).m.ctxs j).processing = false ∧ ((baseRun A (world0 P g) ops).m.ctxs j).lane = none) ∧
    occupied (baseRun A (world0 P g) ops).m = [] := by
  have hB : 0 < A.B := by rcases hA with ⟨h, _⟩ | ⟨h, _⟩ <;> omega
  have hi0 : AllIdle (world0 P g) := by intro j; simp [world0, mgrInit]
  obtain ⟨hg, hi⟩ := baseRun_good A hA ops _ (world0_good P hP A hB g) hi0 hb
  refine ⟨?_, fun j => ⟨(hi j).2, (hi j).1⟩, ?_⟩
  · unfold baseSubmit; simp only []; split
    · rfl
    · split
      · rfl
      · split <;> rfl
  · rw [occupied_eq_nil]
    intro j hj
    exact (hg.inv.ok.coh j hj).1 (hi j).1

end IsalVerif.HashMB
