import IsalVerif.Props.AesLaws
/-!
# C04 — AES key expansion equals FIPS-197; AES-CBC equals SP 800-38A

Per-call correspondence of `_aes_keyexp_{128,192,256}_{sse,avx}`, `_aes_cbc_enc_*_{x4,x8}`,
`_aes_cbc_dec_*_{sse,avx,vaes_avx512}` + public API with `Spec/Aes.lean`, `Spec/Cbc.lean` (and
OpenSSL); proved here: the laws of the specification the statement names.
-/
namespace IsalVerif.C04
open IsalVerif AesLaws Aes

/-- key expansion yields Nr+1 round keys of 16 bytes (11 / 13 / 15 for 128 / 192 / 256-bit keys) -/
theorem C04_schedule_shape (key : Bytes) :
    (keyExpansion key).length = rounds key.length + 1 ∧ ∀ k ∈ keyExpansion key, k.length = 16 :=
  aes_keyExpansion_wf key

/-- the decryption schedule (reversed, InvMixColumns on the inner round keys) used with the
    equivalent inverse cipher of FIPS-197 §5.3.5 is the inverse cipher -/
theorem C04_dec_schedule (rks : List Bytes) (b : Bytes) (hk : ∀ k ∈ rks, k.length = 16) (hb : b.length = 16) :
    eqInvCipher (decSchedule rks) b = invCipher rks b ∧ invCipher rks (cipher rks b) = b :=
  ⟨aes_eqInvCipher rks b hk hb, aes_invCipher_cipher rks b hk hb⟩

/-- CBC decryption inverts CBC encryption for every length that is a multiple of 16 -/
theorem C04_cbc_roundtrip (rks : List Bytes) (iv pt : Bytes) (hk : ∀ k ∈ rks, k.length = 16)
    (hiv : iv.length = 16) (hpt : pt.length % 16 = 0) : Cbc.cbcDec rks iv (Cbc.cbcEnc rks iv pt) = pt :=
  cbc_dec_enc rks iv pt hk hiv hpt

/-- decrypting with the library's decryption schedule = the specification's decryption -/
theorem C04_cbc_dec_schedule (rks : List Bytes) (iv ct : Bytes) (hk : ∀ k ∈ rks, k.length = 16) :
    Cbc.cbcDecEq (decSchedule rks) iv ct = Cbc.cbcDec rks iv ct := cbc_decEq rks iv ct hk

/-- chaining across loop iterations: decrypting g blocks at a time (8 or 16 in the assembly), each
    group taking the previous group's last ciphertext block as IV, is CBC decryption — any g ≥ 1 -/
theorem C04_cbc_by_groups (g : Nat) (rks : List Bytes) (iv ct : Bytes) (hg : 1 ≤ g) (hct : ct.length % 16 = 0) :
    Cbc.cbcDecByGroups g rks iv ct = Cbc.cbcDec rks iv ct := cbc_dec_by_groups g rks iv ct hg hct

end IsalVerif.C04
