import IsalVerif.Lemmas.ScrubSound
import IsalVerif.GenProps.Scrub.All
/-!
# C14 — SAFE_DATA: no key material left in vector registers or dead stack after AES calls (static clause)

`c14` : for every function of the AES objects that is listed in the generated index (= passes the check), on every
execution of the taint-instrumented semantics from its entry label to ANY exit (`ret`, tail jump, dispatch stub):
no vector part (all 32 registers, all 512 bits) is tainted, every vector part outside the function's summary
holds the caller's value or zero, and no stack byte is tainted.

`c14_Z` : for the functions whose summary is `0` (rules Z, ZD, ZD2) every vector register is untouched or zero.
`c14_no_declass` : a function not marked `declass` contains no declassifying record and no xor bookkeeping
(rules Z and T are pure).

What "tainted" means is fixed by `Scrub.FlowG` (Impl/Scrub.lean); what the records mean is fixed by the
translator tables (tools/x86tab.py, tools/scrubtab.py).  See README.md for the trusted base.
-/

namespace IsalVerif.Props.C14
open IsalVerif.X86Abs IsalVerif.Scrub IsalVerif.Gen.Scrub IsalVerif.GenProps.Scrub

theorem listed_checked {o : String × List SFunc} (ho : o ∈ objects) {d : SFunc} (hd : d ∈ o.2) :
    checkSFunc Tables.gtab Tables.vtab Tables.sigs d = true := by
  have h := all_objects
  rw [List.all_eq_true] at h
  have h1 := h o ho
  unfold checkSObj at h1
  rw [List.all_eq_true] at h1
  exact h1 d hd

/-- **C14 (static clause).** -/
theorem c14 {o : String × List SFunc} (ho : o ∈ objects) {d : SFunc} (hd : d ∈ o.2)
    {s0 s : SSt} (h0 : labelIdx (bcode d.prog) d.entry = some s0.x.pc)
    (hi0 : GInit (sigOf Tables.sigs d.gid) s0.gh)
    (hs : SSteps (sumOf Tables.gtab) (vsumOf Tables.vtab) d.prog s0 s)
    (hex : AtExit (bcode d.prog) s.x) :
    ∃ cm, vsumOf Tables.vtab d.gid = some cm ∧
      (∀ p, cm.testBit p = false → s.gh.vec p = s0.gh.vec p ∨ s.gh.vec p = VV.zero) ∧
      (∀ p, (s.gh.vec p).t = false) ∧
      (∀ y, s.gh.stk y = false) := by
  have hc := listed_checked ho hd
  unfold checkSFunc at hc
  simp only [Bool.and_eq_true] at hc
  obtain ⟨⟨hsome, _⟩, hchk⟩ := hc
  cases hv : vsumOf Tables.vtab d.gid with
  | none => rw [hv] at hsome; cases hsome
  | some cm =>
    have := checkScrub_sound hchk h0 hi0 hs hex
    refine ⟨cm, rfl, ?_, this.2.1, this.2.2.1⟩
    have h1 := this.1
    simp only [SFunc.gctx, hv, Option.getD_some] at h1
    exact h1

/-- the conservative rule: a function with summary `0` leaves every vector register untouched or zero -/
theorem c14_Z {o : String × List SFunc} (ho : o ∈ objects) {d : SFunc} (hd : d ∈ o.2)
    (hz : vsumOf Tables.vtab d.gid = some 0)
    {s0 s : SSt} (h0 : labelIdx (bcode d.prog) d.entry = some s0.x.pc)
    (hi0 : GInit (sigOf Tables.sigs d.gid) s0.gh)
    (hs : SSteps (sumOf Tables.gtab) (vsumOf Tables.vtab) d.prog s0 s)
    (hex : AtExit (bcode d.prog) s.x) :
    (∀ p, s.gh.vec p = s0.gh.vec p ∨ s.gh.vec p = VV.zero) ∧ (∀ y, s.gh.stk y = false) := by
  obtain ⟨cm, hcm, h1, _, h3⟩ := c14 ho hd h0 hi0 hs hex
  rw [hz] at hcm; cases hcm
  exact ⟨fun p => h1 p (Nat.zero_testBit p), h3⟩

/-- functions checked without rule "D" / "D2" / "X" contain no declassifying record and no xor bookkeeping -/
theorem c14_no_declass {o : String × List SFunc} (ho : o ∈ objects) {d : SFunc} (hd : d ∈ o.2)
    (hnd : d.declass = false) {i : SInstr} (hi : i ∈ d.prog) : i.g.dc = false ∧ i.g.xm = 0 := by
  have hc := listed_checked ho hd
  unfold checkSFunc at hc
  simp only [Bool.and_eq_true, Bool.or_eq_true] at hc
  obtain ⟨⟨_, hdc⟩, _⟩ := hc
  rcases hdc with h | h
  · rw [hnd] at h; cases h
  · unfold noDC at h
    rw [List.all_eq_true] at h
    have := h i hi
    simp only [Bool.and_eq_true, Bool.not_eq_true'] at this
    exact ⟨this.1, Nat.eq_of_beq_eq_true this.2⟩

/-- tail jumps and dispatch stubs of a listed function only target summaries included in its own -/
theorem c14_tail {o : String × List SFunc} (ho : o ∈ objects) {d : SFunc} (hd : d ∈ o.2)
    {s0 s : SSt} (h0 : labelIdx (bcode d.prog) d.entry = some s0.x.pc)
    (hi0 : GInit (sigOf Tables.sigs d.gid) s0.gh)
    (hs : SSteps (sumOf Tables.gtab) (vsumOf Tables.vtab) d.prog s0 s) (hex : AtExit (bcode d.prog) s.x) :
    (∀ f, (bcode d.prog)[s.x.pc]? = some (.tail f) →
        ∃ m, vsumOf Tables.vtab f = some m ∧ ∀ p, m.testBit p = true → ((vsumOf Tables.vtab d.gid).getD 0).testBit p = true) ∧
    ((bcode d.prog)[s.x.pc]? = some .tailInd →
        ∃ m, d.indcm = some m ∧ ∀ p, m.testBit p = true → ((vsumOf Tables.vtab d.gid).getD 0).testBit p = true) := by
  have hc := listed_checked ho hd
  unfold checkSFunc at hc
  simp only [Bool.and_eq_true] at hc
  have := checkScrub_sound hc.2 h0 hi0 hs hex
  exact ⟨this.2.2.2.1, this.2.2.2.2⟩

/-! ## Non-vacuity: tiny hand-written functions

Registers: rdi = 7 is the key pointer (`sig = 0x80`).  Parts: xmm1 low = bit 1, upper bits of zmm1 = bit 33. -/

def exCtx : Ctx :=
  { cert := fun t => if t = 0 ∨ t = 1 then some initA else none, tab := fun _ => sysvMask, mask := sysvMask, frames := [],
    allow := fun _ => true }

def exG (certs : List (Nat × G)) : GCtx :=
  { gcert := fun t => (certs.find? (fun e => e.1 == t)).map (·.2), vtab := fun _ => none, sigs := fun _ => 0, cm := 0,
    indcm := none, sig := 0x80 }

def g0 : G := initG 0x80

/-- `movdqu xmm1,[rdi]` : legacy load of 16 key bytes -/
def ldKeyX : SInstr := .gen (.plain 0 0) { vecGI 0 0x2 0 with mkd := 1, ma := 0x80 }
/-- `vmovdqu ymm1,[rdi]` : VEX load of 32 key bytes, writes the low AND the upper part of register 1 -/
def ldKeyY : SInstr := .gen (.plain 0 0) { vecGI 0 0x200000002 0 with mkd := 1, ma := 0x80 }
/-- `pxor xmm0,xmm1` : use the key -/
def useKey : SInstr := .vec 0 0x1 0x3
/-- `pxor xmm1,xmm1`, `pxor xmm0,xmm0` : legacy zeroing idiom, low 128 bits only -/
def pxor1 : SInstr := .vec 0x2 0 0
def pxor0 : SInstr := .vec 0x1 0 0
/-- `vpxor xmm1,xmm1,xmm1` : VEX zeroing idiom, clears all 512 bits -/
def vpxor1 : SInstr := .vec 0x200000002 0 0
def lab (t : Nat) : SInstr := .gen (.label t) (vecGI 0 0 0)
def retI : SInstr := .gen .ret (vecGI 0 0 0)

/-- loads a key into xmm1, uses it, returns WITHOUT clearing: rejected -/
example : checkScrub exCtx (exG [(0, g0)]) [lab 0, ldKeyX, useKey, retI] 0 = false := by decide
/-- the scrubbed version (legacy code touches only the low 128 bits, so `pxor` is enough): accepted -/
example : checkScrub exCtx (exG [(0, g0)]) [lab 0, ldKeyX, useKey, pxor1, pxor0, retI] 0 = true := by decide
/-- clearing only the key register and not the register computed from it: rejected -/
example : checkScrub exCtx (exG [(0, g0)]) [lab 0, ldKeyX, useKey, pxor1, retI] 0 = false := by decide
/-- the function used ymm1; a legacy `pxor xmm1,xmm1` leaves bits 128..255 of the key in place: rejected -/
example : checkScrub exCtx (exG [(0, g0)]) [lab 0, ldKeyY, useKey, pxor1, pxor0, retI] 0 = false := by decide
/-- the same with the VEX idiom `vpxor xmm1,xmm1,xmm1` (clears bits 128..511): accepted -/
example : checkScrub exCtx (exG [(0, g0)]) [lab 0, ldKeyY, useKey, vpxor1, pxor0, retI] 0 = true := by decide

/-- an early exit that jumps over the scrub: rejected (the certificate at label 1 cannot be both implied by the
dirty state at the jump and clean at the `ret`) -/
def jcc1 : SInstr := .gen (.jcc 1) (vecGI 0 0 0)
example : checkScrub exCtx (exG [(0, g0), (1, g0)]) [lab 0, ldKeyX, useKey, jcc1, pxor1, pxor0, lab 1, retI] 0 = false := by decide
example : checkScrub exCtx (exG [(0, g0), (1, { g0 with vw := 0x3, vt := 0x3 })])
    [lab 0, ldKeyX, useKey, jcc1, pxor1, pxor0, lab 1, retI] 0 = false := by decide
/-- with the jump placed after the scrub: accepted -/
example : checkScrub exCtx (exG [(0, g0), (1, g0)]) [lab 0, ldKeyX, useKey, pxor1, pxor0, jcc1, lab 1, retI] 0 = true := by decide

/-- stack: `movdqa [rsp-24],xmm1` spills the key below the stack pointer; returning like that is rejected,
overwriting the slot with the zeroed register first is accepted; overwriting only half of it is rejected -/
def spill1 : SInstr := .gen (.storeK 4 (-24) 16) (vecGI 0 0 0x2)
def spill1half : SInstr := .gen (.storeK 4 (-24) 8) (vecGI 0 0 0x2)
example : checkScrub exCtx (exG [(0, g0)]) [lab 0, ldKeyX, spill1, pxor1, retI] 0 = false := by decide
example : checkScrub exCtx (exG [(0, g0)]) [lab 0, ldKeyX, spill1, pxor1, spill1, retI] 0 = true := by decide
example : checkScrub exCtx (exG [(0, g0)]) [lab 0, ldKeyX, spill1, pxor1, spill1half, retI] 0 = false := by decide

/-- a tainted GPR pushed to the stack dirties the slot (`mov rax,[rdi]; push rax; pop rax; ret`): rejected -/
def ldGpr : SInstr := .gen (.plain 1 0) { vecGI 0 0 0 with gw := 1, mkd := 1, ma := 0x80 }
def pushRax : SInstr := .gen (.push 0) { vecGI 0 0 0 with gr := 1 }
def popRax : SInstr := .gen (.pop 0) { vecGI 0 0 0 with gw := 1, mkd := 2, mb := 4, mo := 0, msz := 8 }
example : checkScrub exCtx (exG [(0, g0)]) [lab 0, ldGpr, pushRax, popRax, retI] 0 = false := by decide
/-- a dirty GPR alone is not a violation -/
example : checkScrub exCtx (exG [(0, g0)]) [lab 0, ldGpr, retI] 0 = true := by decide

/-- rule "X" (xor cancellation): `vpxor xmm2,xmm1,[rsi]` (xmm2 := key XOR data; records the fact), `vpxor xmm3,xmm2,xmm1`
(xmm3 := (key XOR data) XOR key = data): xmm3 is as clean as the data.  Clearing xmm1 and xmm2 then suffices under
rule T (summary `cm` = {xmm3}); if xmm1 is overwritten between the two (fact forgotten) xmm3 stays tainted -/
def xorEst : SInstr := .gen (.plain 0 0) { vecGI 0x400000000 0x4 0x2 with mkd := 1, ma := 0x40, xm := 1, xa := 2, xb := 1, xo := 64 }
def xorCan : SInstr := .gen (.plain 0 0) { vecGI 0x800000000 0x8 0x6 with xm := 2, xa := 2, xb := 1 }
def vpxor2 : SInstr := .vec 0x400000004 0 0
def exGT : GCtx := { exG [(0, g0)] with cm := 0x8 }
example : checkScrub exCtx exGT [lab 0, ldKeyX, xorEst, xorCan, vpxor1, vpxor2, retI] 0 = true := by decide
example : checkScrub exCtx exGT [lab 0, ldKeyX, xorEst, ldKeyX, xorCan, vpxor1, vpxor2, retI] 0 = false := by decide
/-- without the bookkeeping (`xm = 0`) the same code is rejected -/
def xorCan0 : SInstr := .gen (.plain 0 0) (vecGI 0x800000000 0x8 0x6)
example : checkScrub exCtx exGT [lab 0, ldKeyX, xorEst, xorCan0, vpxor1, vpxor2, retI] 0 = false := by decide

/-- a record the translator does not know is rejected -/
example : checkScrub exCtx (exG [(0, g0)]) [lab 0, .gen .unsupported (vecGI 0 0 0), retI] 0 = false := by decide

end IsalVerif.Props.C14
