import IsalVerif.Lemmas.MhProofs
/-! # C05 — the multi-hash functions compute the multi-hash definition, however the stream is cut

    "For any byte stream shorter than 2^32 bytes fed through init, any sequence of update calls and one
    finalize, the digest equals the multi-hash definition: the stream is padded in SHA style to a multiple
    of 1024 bytes, its 32-bit words are dealt round-robin to 16 segments each hashed with SHA-1 (resp.
    SHA-256) without further padding, and the 16 segment digests are hashed once more with standard SHA-1
    (resp. SHA-256).  The digest does not depend on how the stream was cut into update calls."

    * the definition: `MultiHash.mhSha1`, `MultiHash.mhSha256` (`Spec/MultiHash.lean`);
    * the code: `Mh.mhSha1Init/Update/Finalize` (`Impl/MhStream.lean`), the statement-by-statement model
      of `mh_sha1.c`, `mh_sha1_update_base.c`, `mh_sha1_finalize_base.c`, `sha1_for_mh_sha1.c` (and the
      `mh_sha256` twins) with the block function specified as 16 independent compression chains;
      the harness `drv_mh` checks that model against every SIMD family of the built library.

    `parts` is the list of buffers passed to the successive update calls; empty buffers are allowed
    and the list may be empty.  The hypothesis `< 2^32` is used in two places: in finalize (which hashes
    `(uint32_t) total_length` into the padding), and in update to know that the `uint32_t` expression
    `len + partial_block_len` does not wrap (that alone would hold under the weaker condition that every
    single call has `len ≤ 2^32 - 1024`). -/
namespace IsalVerif
open Mh MultiHash

/-- mh_sha1: init, any cutting into updates, finalize = the multi-hash SHA-1 of the whole stream. -/
theorem C05_sha1 (parts : List Bytes) (h : parts.flatten.length < 2 ^ 32) :
    mhSha1Finalize (parts.foldl mhSha1Update mhSha1Init) = mhSha1 parts.flatten :=
  finalize_updates sha1 sha1_stdOk (by decide) parts h

/-- mh_sha256: the same with SHA-256 inside. -/
theorem C05_sha256 (parts : List Bytes) (h : parts.flatten.length < 2 ^ 32) :
    mhSha256Finalize (parts.foldl mhSha256Update mhSha256Init) = mhSha256 parts.flatten :=
  finalize_updates sha256 sha256_stdOk (by decide) parts h

/-- Cut independence, spelled out: two cuttings of the same stream give the same digest. -/
theorem C05_cut_independent (parts parts' : List Bytes) (he : parts.flatten = parts'.flatten)
    (h : parts.flatten.length < 2 ^ 32) :
    mhSha1Finalize (parts.foldl mhSha1Update mhSha1Init) =
      mhSha1Finalize (parts'.foldl mhSha1Update mhSha1Init) ∧
    mhSha256Finalize (parts.foldl mhSha256Update mhSha256Init) =
      mhSha256Finalize (parts'.foldl mhSha256Update mhSha256Init) := by
  rw [C05_sha1 parts h, C05_sha256 parts h, C05_sha1 parts' (he ▸ h), C05_sha256 parts' (he ▸ h), he]
  exact ⟨rfl, rfl⟩

/-! Non-vacuity: the hypotheses are satisfiable by a stream cut in three (one cut empty), and the
    theorem then speaks about concrete values (the executable definition itself is cross-checked
    against an OpenSSL-based computation by the `oracle` monitor of `harness/drv_mh.c`). -/
example : mhSha1Finalize ([[1, 2, 3], [], [4]].foldl mhSha1Update mhSha1Init) = mhSha1 [1, 2, 3, 4] :=
  C05_sha1 [[1, 2, 3], [], [4]] (by decide)
example : mhSha256Finalize ([[1, 2, 3], [], [4]].foldl mhSha256Update mhSha256Init) = mhSha256 [1, 2, 3, 4] :=
  C05_sha256 [[1, 2, 3], [], [4]] (by decide)

end IsalVerif
