import IsalVerif.Lemmas.GcmStreamLaws
/-! Property C20 ("results depend on declared inputs only") for streaming GCM: the bytes that `GCM_INIT`
    happens to leave in `partial_block_enc_key` (`garbage` of `GcmStream.init`, API-undefined) influence
    neither the outputs, nor the tag, nor any API-defined context field.  Final theorems only; proofs and
    the definitions `runG`, `streamWithG`, `SameApi` are in `Lemmas/GcmStreamLaws.lean`.

    `GcmStream.runG g lz rks dec iv aad parts` is the fold of `update … lz` over `parts` from `init rks iv aad g`
    (final context, all output bytes); `streamWithG g lz …` adds `finalize`.  `SameApi c₁ c₂` says that `c₁`, `c₂`
    agree on `aadHash`, `aadLen`, `inLen`, `origIV`, `curCount`, `pbLen`, and on the whole of `pbEncKey` when
    `pbLen ≠ 0` (which is more than the API-defined part `pbEncKey.drop pbLen`). -/
namespace IsalVerif.C20Gcm
open Aes Gcm GcmStream

/-- Whatever `init` stores in `pbEncKey`, streaming equals the one-shot specification (either `lazy256` flag,
    encryption or decryption; well-formed key schedule, 12-byte IV). -/
theorem C20_gcm (rks : List Bytes) (hk : ∀ k ∈ rks, k.length = 16) (iv aad : Bytes) (hiv : iv.length = 12)
    (parts : List Bytes) (t : Nat) (dec lz : Bool) (g : Bytes) :
    streamWithG g lz rks dec iv aad parts t =
      (if dec then gcmDecExp rks iv aad parts.flatten t else gcmEncExp rks iv aad parts.flatten t) :=
  streamWithG_eq hk hiv g lz dec aad parts t

/-- Non-interference: output bytes and tag do not depend on the garbage.  Proved by a direct simulation, so it
    needs *no* hypothesis on the key schedule or the IV. -/
theorem C20_gcm_noninterference (rks : List Bytes) (iv aad : Bytes) (parts : List Bytes) (t : Nat)
    (dec lz : Bool) (g₁ g₂ : Bytes) :
    streamWithG g₁ lz rks dec iv aad parts t = streamWithG g₂ lz rks dec iv aad parts t := by
  obtain ⟨ho, hs⟩ := runG_sameApi g₁ g₂ lz rks dec iv aad parts
  unfold streamWithG
  rw [ho, finalize_sameApi rks hs t]

/-- Per-update version: after any sequence of updates the output bytes and every API-defined context field
    are independent of the garbage (again no hypothesis on `rks`, `iv` or the lengths). -/
theorem C20_gcm_context (rks : List Bytes) (iv aad : Bytes) (parts : List Bytes) (dec lz : Bool)
    (g₁ g₂ : Bytes) :
    let r₁ := runG g₁ lz rks dec iv aad parts
    let r₂ := runG g₂ lz rks dec iv aad parts
    r₁.2 = r₂.2 ∧
    r₁.1.aadHash = r₂.1.aadHash ∧ r₁.1.aadLen = r₂.1.aadLen ∧ r₁.1.inLen = r₂.1.inLen ∧
    r₁.1.origIV = r₂.1.origIV ∧ r₁.1.curCount = r₂.1.curCount ∧ r₁.1.pbLen = r₂.1.pbLen ∧
    (r₁.1.pbLen ≠ 0 → r₁.1.pbEncKey = r₂.1.pbEncKey ∧
      r₁.1.pbEncKey.drop r₁.1.pbLen = r₂.1.pbEncKey.drop r₂.1.pbLen) := by
  obtain ⟨ho, hs⟩ := runG_sameApi g₁ g₂ lz rks dec iv aad parts
  refine ⟨ho, hs.aadHash, hs.aadLen, hs.inLen, hs.origIV, hs.curCount, hs.pbLen, fun h => ?_⟩
  exact ⟨hs.pbEncKey h, by rw [hs.pbEncKey h, hs.pbLen]⟩

/-- each single `update` preserves agreement on the API-defined fields and gives the same output -/
theorem C20_gcm_update (rks : List Bytes) (dec : Bool) (c₁ c₂ : Ctx) (h : SameApi c₁ c₂) (data : Bytes)
    (lz : Bool) :
    (update rks dec c₁ data lz).2 = (update rks dec c₂ data lz).2 ∧
    SameApi (update rks dec c₁ data lz).1 (update rks dec c₂ data lz).1 :=
  update_sameApi rks dec h data lz

/-- the statements are not vacuous: different garbage really gives different contexts (after `init`, and still
    after an update that ends on a block boundary), so `pbEncKey` had to be excluded at `pbLen = 0` -/
example : (init [] [] [] [1]).pbEncKey ≠ (init [] [] [] [2]).pbEncKey := by decide
example : (runG [1] false [] false [] [] [[]]).1.pbEncKey ≠ (runG [2] false [] false [] [] [[]]).1.pbEncKey := by
  decide

/-- `streamWith` (and hence `stream`, `streamLazy`) is the instance `garbage = 0¹²⁸` -/
example : @streamWith = streamWithG (List.replicate 16 0) := streamWith_eq_streamWithG

end IsalVerif.C20Gcm
