import IsalVerif.Lemmas.SelfTestGenericProofs
import IsalVerif.Lemmas.SelfTestGenericSim
import IsalVerif.Lemmas.SelfTestGenericLive
/-!
# C17 for the portable gate `fips/self_tests_generic.c`

"In a FIPS-mode build, however many threads make their first library call at the same time and however
they interleave, the self-tests execute exactly once, no thread's call returns success or starts
cryptographic work before the self-tests have finished, every thread observes the same verdict from then
on, and no thread waits forever."

`Props/C17.lean` proves this for the x86 gate (`self_tests.c` + `asm_self_tests.asm`).  This file proves the
same set of theorems for the C11-atomics gate used by every other target (aarch64, `arch=noarch`), over a
**second abstract model** (`Impl/SelfTestGeneric.lean`) with its own invariant (`Lemmas/SelfTestGenericProofs.lean`).

Setting: `n` threads, each making one call of `isal_self_tests`; a thread may begin arbitrarily late (threads
still in `PC.fast cfg` are the "later calls").  `Reach cfg vals n g`: `g` is reachable by *some* interleaving
of the atomic steps; `cfg` = for each early-out load the values it returns on (`[[0], [1]]` in the current source);
`vals` = the values the self-test functions can return.  The theorems are for all `n`, all interleavings,
all `cfg` consisting of verdicts, and — unlike for the x86 gate — **all** `vals` (this gate publishes a
constant, so defect D2 cannot arise).  Ghost counters `g.gh`: calls of / returns from `_aes_self_tests`,
`_sha_self_tests`, and the number of non-zero return values.

That the compiled code implements the abstract steps is the per-run obligation
`GenProps/SelfTestGeneric.lean` (`simCheck`), whose soundness theorems are `C17_generic_machine` (safety)
and `C17_generic_machine_live` (liveness) below.
-/
namespace IsalVerif.SelfTestGeneric
open IsalVerif.SelfTest (errSelfTest codeOf)

/-- **C17 (1) at most once / exactly once.**  In every reachable state each self-test function has been
    called at most once, `_sha_self_tests` only after `_aes_self_tests` returned, and at most one of them
    returned non-zero; as soon as some thread has returned, `_aes_self_tests` has been called exactly once and
    has returned, and `_sha_self_tests` is not running. -/
theorem C17_generic_once {cfg : List (List Nat)} (hcfg : cfgOk cfg) {vals : List Nat} {n : Nat} {g : G}
    (h : Reach cfg vals n g) :
    (g.gh.aesIn ≤ 1 ∧ g.gh.aesOut ≤ g.gh.aesIn ∧ g.gh.shaIn ≤ g.gh.aesOut ∧ g.gh.shaOut ≤ g.gh.shaIn ∧ g.gh.fails ≤ 1) ∧
    ((∃ (j v : Nat), g.th[j]? = some (PC.done v)) → g.gh.aesIn = 1 ∧ g.gh.aesOut = 1 ∧ g.gh.shaOut = g.gh.shaIn) := by
  have hi := reach_inv hcfg h
  refine ⟨hi.ent, fun ⟨j, v, hj⟩ => ?_⟩
  have := hi.loc j _ hj
  simp only [okPC] at this
  rcases this.1 with h0 | h1
  · rw [hi.e0 h0]; exact ⟨rfl, rfl, rfl⟩
  · obtain ⟨a, b, c, _, _⟩ := hi.e1 h1; exact ⟨a, b, c.symm⟩

/-- **C17 (2) nobody returns before the verdict is published.**  A thread that has returned `v` — or is
    past its last access to the status word and about to return `v` — sees a published status word
    (0 or 1, no longer NOT_DONE/RUNNING); `v` is the return code of that status (0 iff `DONE_AND_OK`); and
    the self tests have finished: verdict OK ⇒ both functions were called exactly once, have returned and
    returned 0; verdict FAIL ⇒ `_aes_self_tests` was called once and has returned, `_sha_self_tests` was
    called at most once and is not running, exactly one of them returned non-zero. -/
theorem C17_generic_no_early_return {cfg : List (List Nat)} (hcfg : cfgOk cfg) {vals : List Nat} {n : Nat} {g : G}
    (h : Reach cfg vals n g) (j v : Nat) (hj : g.th[j]? = some (.done v) ∨ g.th[j]? = some (.retn v)) :
    (g.status = 0 ∨ g.status = 1) ∧ v = codeOf g.status ∧
    (g.status = 0 → g.gh = ⟨1, 1, 1, 1, 0⟩) ∧ (g.status = 1 → failedGh g.gh) := by
  have hi := reach_inv hcfg h
  have : (g.status = 0 ∨ g.status = 1) ∧ v = codeOf g.status := by
    rcases hj with hj | hj <;> (have := hi.loc j _ hj; simpa only [okPC] using this)
  exact ⟨this.1, this.2, hi.e0, hi.e1⟩

/-- a call returns 0 (success) only if the published status is `SELF_TEST_DONE_AND_OK`, and then both
    self-test functions ran exactly once and both returned 0 -/
theorem C17_generic_success_means_passed {cfg : List (List Nat)} (hcfg : cfgOk cfg) {vals : List Nat} {n : Nat} {g : G}
    (h : Reach cfg vals n g) (j : Nat) (hj : g.th[j]? = some (.done 0)) :
    g.status = 0 ∧ g.gh = ⟨1, 1, 1, 1, 0⟩ := by
  obtain ⟨hs, hc, h0, _⟩ := C17_generic_no_early_return hcfg h j 0 (Or.inl hj)
  rcases hs with h0' | h1
  · exact ⟨h0', h0 h0'⟩
  · rw [h1] at hc; simp [codeOf] at hc

/-- **C17 (3a) one verdict.**  Any two threads that have returned, returned the same value. -/
theorem C17_generic_agree {cfg : List (List Nat)} (hcfg : cfgOk cfg) {vals : List Nat} {n : Nat} {g : G}
    (h : Reach cfg vals n g) (j k v w : Nat) (hj : g.th[j]? = some (.done v)) (hk : g.th[k]? = some (.done w)) :
    v = w := by
  rw [(C17_generic_no_early_return hcfg h j v (Or.inl hj)).2.1, (C17_generic_no_early_return hcfg h k w (Or.inl hk)).2.1]

/-- **C17 (3b) the verdict is final.**  Once the status word holds a verdict, no further steps of any
    threads ever change it (nobody overwrites it — this is what an `atomic_exchange` claim breaks) or call a
    self-test function again; threads that have returned stay returned; and whoever returns later returns
    the code of that same verdict. -/
theorem C17_generic_verdict_stable {cfg : List (List Nat)} (hcfg : cfgOk cfg) {vals : List Nat} {n : Nat} {g g' : G}
    (h : Reach cfg vals n g) (hp : g.status = 0 ∨ g.status = 1) (hs : Steps vals g g') :
    g'.status = g.status ∧ g'.gh = g.gh ∧
    (∀ (j v : Nat), g.th[j]? = some (PC.done v) → g'.th[j]? = some (PC.done v)) ∧
    (∀ (j v : Nat), g'.th[j]? = some (PC.done v) → v = codeOf g.status) := by
  have hi := reach_inv hcfg h
  have hst := steps_published hi hs hp
  have hi' := steps_inv hi hs
  refine ⟨hst.1, hst.2, fun j v hj => steps_done hs hj, fun j v hj => ?_⟩
  have := hi'.loc j _ hj
  simp only [okPC] at this
  rw [← hst.1]; exact this.2

/-- **C17 (4) nobody waits forever.**  Under every schedule that keeps scheduling each thread that has
    not yet returned (weak fairness), and with self-test runs that terminate (entering and leaving a test
    function are single steps), there is a time at which all `n` threads have returned, and nothing
    changes afterwards.  `o` is the outcome oracle (pass/fail of each test function). -/
theorem C17_generic_live {cfg : List (List Nat)} (hcfg : cfgOk cfg) (n : Nat) (σ o : Nat → Nat) (hf : Fair cfg n σ o) :
    ∃ t, allDone (run cfg n σ o t) ∧ ∀ d, run cfg n σ o (t + d) = run cfg n σ o t := by
  obtain ⟨t, ht⟩ := all_finish hcfg n σ o hf
  exact ⟨t, ht, allDone_stable cfg n σ o ht⟩

/-- the same for schedules in which every thread is scheduled infinitely often -/
theorem C17_generic_live_strong {cfg : List (List Nat)} (hcfg : cfgOk cfg) (n : Nat) (σ o : Nat → Nat)
    (hf : StronglyFair n σ) :
    ∃ t, allDone (run cfg n σ o t) ∧ ∀ d, run cfg n σ o (t + d) = run cfg n σ o t :=
  C17_generic_live hcfg n σ o (stronglyFair_fair hf o)

/-- every state of a scheduled run is a reachable state, so (1)–(3) apply to it -/
theorem C17_generic_run_reach (cfg : List (List Nat)) (n : Nat) (σ o : Nat → Nat) (t : Nat) :
    Reach cfg [0, 1] n (run cfg n σ o t) :=
  run_reach cfg n σ o t

/-- the final state of a fair run with at least one thread: a verdict is published, the self tests ran
    (exactly once, to completion), every thread returned the code of the published verdict -/
theorem C17_generic_final {cfg : List (List Nat)} (hcfg : cfgOk cfg) (n : Nat) (hn : 1 ≤ n) (σ o : Nat → Nat)
    (hf : Fair cfg n σ o) :
    ∃ t, ((run cfg n σ o t).status = 0 ∨ (run cfg n σ o t).status = 1) ∧
      (run cfg n σ o t).gh.aesIn = 1 ∧ (run cfg n σ o t).gh.aesOut = 1 ∧
      (run cfg n σ o t).gh.shaOut = (run cfg n σ o t).gh.shaIn ∧
      ((run cfg n σ o t).status = 0 → (run cfg n σ o t).gh = ⟨1, 1, 1, 1, 0⟩) ∧
      ∀ j, j < n → (run cfg n σ o t).th[j]? = some (.done (codeOf (run cfg n σ o t).status)) := by
  obtain ⟨t, ht, _⟩ := C17_generic_live hcfg n σ o hf
  have hr := run_reach cfg n σ o t
  have hlen := run_len cfg n σ o t
  have hall : ∀ j, j < n → ∃ v, (run cfg n σ o t).th[j]? = some (.done v) := by
    intro j hj
    have hlt : j < (run cfg n σ o t).th.length := by omega
    have hmem := ht _ (List.getElem_mem hlt)
    cases hpc : (run cfg n σ o t).th[j] with
    | done v => exact ⟨v, by rw [List.getElem?_eq_getElem hlt, hpc]⟩
    | _ => rw [hpc] at hmem; simp [notDone] at hmem
  obtain ⟨v0, h0⟩ := hall 0 (by omega)
  obtain ⟨hs, _, he0, _⟩ := C17_generic_no_early_return hcfg hr 0 v0 (Or.inl h0)
  obtain ⟨_, ho⟩ := C17_generic_once hcfg hr
  obtain ⟨a, b, c⟩ := ho ⟨0, v0, h0⟩
  refine ⟨t, hs, a, b, c, he0, fun j hj => ?_⟩
  obtain ⟨v, hjv⟩ := hall j hj
  rw [hjv, (C17_generic_no_early_return hcfg hr j v (Or.inl hjv)).2.1]

/-- **C17, instruction level.**  For any program over the mini-ISA accepted by `simCheck` (the per-run
    obligation on the program regenerated from `self_tests_generic.o`), any number of threads and any
    interleaving of single *instructions*, self-test functions returning 0 or 1: (1) and (2) hold of the
    machine, and (3b) in one-step form (which extends to all later states because they are reachable too). -/
theorem C17_generic_machine {P : Program} (hc : simCheck P = true) {vals : List Nat}
    (hv : ∀ v ∈ vals, v = 0 ∨ v = 1) {n : Nat} {cg : CG} (h : CReach P vals n cg) :
    (ghOk cg.gh ∧
     (cg.status = 0 ∨ cg.status = 1 ∨ cg.status = 2 ∨ cg.status = 3) ∧
     ∀ (j : Nat) (l : Local) (v : Nat), cg.th[j]? = some l → l.res = some v →
       (cg.status = 0 ∨ cg.status = 1) ∧ v = codeOf cg.status ∧
       (cg.status = 0 → cg.gh = ⟨1, 1, 1, 1, 0⟩) ∧ (cg.status = 1 → failedGh cg.gh)) ∧
    (∀ cg', (cg.status = 0 ∨ cg.status = 1) → CStep P vals cg cg' → cg'.status = cg.status ∧ cg'.gh = cg.gh) :=
  ⟨machine_safe hc hv h, fun _ hp hs => machine_stable hc hv h hp hs⟩

/-- **C17 (4), instruction level.**  For any program accepted by `simCheck`, `n` threads scheduled
    instruction by instruction by `σ`, self-test outcomes `o t % 2 ∈ {0,1}`: if every thread that has not
    returned keeps being scheduled, there is an instant at which all threads have returned from
    `isal_self_tests`; that state is reachable, so `C17_generic_machine` applies to it. -/
theorem C17_generic_machine_live {P : Program} (hc : simCheck P = true) (n : Nat) (σ o : Nat → Nat)
    (hf : CFair P n σ o) :
    ∃ t, (crun P n σ o t).allReturned ∧ CReach P [0, 1] n (crun P n σ o t) := by
  obtain ⟨t, ht⟩ := machine_live hc n σ o hf
  exact ⟨t, ht, crun_reach P n σ o t⟩

/-! ### layout-independent schedules (for non-vacuity examples on regenerated code) -/

/-- thread `i` executes instructions until its local state satisfies `stop` (at most `k` instructions) -/
def cfireUntil (P : Program) (stop : Local → Bool) (g : CG) (i v : Nat) : Nat → CG
  | 0 => g
  | k+1 =>
    match g.th[i]? with
    | some l => if stop l then g else cfireUntil P stop (cfire P g i v) i v k
    | none => g

theorem cfireUntil_reach {P : Program} {vals : List Nat} {n : Nat} {g : CG} (h : CReach P vals n g)
    (stop : Local → Bool) (i : Nat) {v : Nat} (hv : v ∈ vals) (k : Nat) :
    CReach P vals n (cfireUntil P stop g i v k) := by
  induction k generalizing g with
  | zero => exact h
  | succ k ih =>
    unfold cfireUntil
    split
    · split
      · exact h
      · exact ih (cfire_reach h i hv)
    · exact h

/-- the thread is inside `_aes_self_tests` -/
def insideAes (l : Local) : Bool := l.fn == .aes

/-! ### the hypothesis on the early-out comparisons is necessary -/

theorem runList_reach {cfg : List (List Nat)} {vals : List Nat} {n : Nat} {g : G} (h : Reach cfg vals n g) (sched : List (Nat × Nat))
    (hs : ∀ x ∈ sched, x.2 ∈ vals) : Reach cfg vals n (runList g sched) := by
  induction sched generalizing g with
  | nil => exact h
  | cons x rest ih =>
    obtain ⟨i, c⟩ := x
    have hc : c ∈ vals := hs (i, c) List.mem_cons_self
    have hrest : ∀ y ∈ rest, y.2 ∈ vals := fun y hy => hs y (List.mem_cons_of_mem _ hy)
    rcases fireWith_step g i c hc with he | hstep
    · show Reach cfg vals n (runList (fireWith g i c) rest); rw [he]; exact ih h hrest
    · exact ih (Reach.step h hstep) hrest

/-- If an early-out load compared with RUNNING (3) instead of a verdict, the protocol — which answers such
    a hit with the code of the value compared with — would let a second caller return (here: a refusal)
    while the winner is still inside `_aes_self_tests`, and disagree with the verdict published later. -/
theorem C17_generic_cfg_hypothesis_necessary :
    (∃ g, Reach [[3], [1]] [0, 1] 2 g ∧ g.th = [.inAes, .done errSelfTest] ∧ g.status = 3 ∧ g.gh.aesOut = 0) ∧
    (∃ g, Reach [[3], [1]] [0, 1] 2 g ∧ g.th = [.done 0, .done errSelfTest] ∧ g.status = 0) := by
  refine ⟨⟨runList (G.init [[3], [1]] 2) [(0,0), (0,0), (0,0), (0,0), (1,0), (1,0)],
    runList_reach Reach.init _ (by decide), by decide⟩,
    ⟨runList (G.init [[3], [1]] 2) [(0,0), (0,0), (0,0), (0,0), (1,0), (1,0), (0,0), (0,0), (0,0), (0,0), (0,0), (0,0)],
    runList_reach Reach.init _ (by decide), by decide⟩⟩

/-! ### states from which a thread never returns (used to exhibit what a broken claim does) -/

/-- any number of further instructions of any threads -/
inductive CSteps (P : Program) (vals : List Nat) : CG → CG → Prop where
  | refl {g} : CSteps P vals g g
  | step {g g' g''} : CSteps P vals g g' → CStep P vals g' g'' → CSteps P vals g g''

/-- all one-instruction successors of `g` by threads `< n` with outcomes in `vals` -/
def csuccs (P : Program) (vals : List Nat) (n : Nat) (g : CG) : List CG :=
  (List.range n).flatMap fun i => vals.map fun v => cfire P g i v

/-- `S` is closed under instructions of `n` threads -/
def orbitClosed (P : Program) (vals : List Nat) (n : Nat) (S : List CG) : Bool :=
  S.all fun g => g.th.length == n && (csuccs P vals n g).all S.contains

/-- worklist closure of `{g}` under `csuccs` -/
def orbitLoop (P : Program) (vals : List Nat) (n : Nat) : Nat → List CG → List CG → List CG
  | 0, _, seen => seen
  | _, [], seen => seen
  | fuel+1, g :: work, seen =>
    let new := ((csuccs P vals n g).eraseDups).filter fun x => !seen.contains x
    orbitLoop P vals n fuel (work ++ new) (seen ++ new)

def orbit (P : Program) (vals : List Nat) (n : Nat) (g : CG) (fuel : Nat := 2000) : List CG :=
  orbitLoop P vals n fuel [g] [g]

theorem orbit_step {P : Program} {vals : List Nat} {n : Nat} {S : List CG} (hc : orbitClosed P vals n S = true)
    {g g' : CG} (hg : g ∈ S) (hs : CStep P vals g g') : g' ∈ S := by
  cases hs with
  | @mk i l l' v s' ev hi hv hstep =>
  simp only [orbitClosed, List.all_eq_true, Bool.and_eq_true, beq_iff_eq, List.contains_iff_mem] at hc
  obtain ⟨hlen, hall⟩ := hc g hg
  have hlt : i < n := by rw [← hlen]; exact (List.getElem?_eq_some_iff.mp hi).1
  refine hall _ ?_
  simp only [csuccs, List.mem_flatMap, List.mem_range, List.mem_map]
  refine ⟨i, hlt, v, hv, ?_⟩
  simp [cfire, hi, hstep]

/-- every state reachable from a member of a closed set is in the set -/
theorem orbit_steps {P : Program} {vals : List Nat} {n : Nat} {S : List CG} (hc : orbitClosed P vals n S = true)
    {g g' : CG} (hg : g ∈ S) (hs : CSteps P vals g g') : g' ∈ S := by
  induction hs with
  | refl => exact hg
  | step _ hs ih => exact orbit_step hc ih hs

/-! ### why the claim must be a compare-and-swap: the `atomic_exchange` variant

`exchangeProgram` is `isal_self_tests` as compiled (gcc 12.2, -O2, `FIPS_MODE=y arch=noarch`) from
`self_tests_generic.c` with the claim rewritten to
`if (atomic_exchange(&status, RUNNING) == NOT_DONE)` ("whoever swaps out NOT_DONE runs the tests").
It is kept here as a frozen listing so that the counterexample is checked in every build; the teeth test
(`tools/teeth_generic.py`) re-checks the same witness on the freshly compiled variant. -/

/-- Witness schedule (thread, number of instructions, self-test outcome):
    thread 0 claims and enters `_aes_self_tests`; thread 1 executes both early-out loads (they read
    RUNNING) and is preempted in front of its `xchg`; thread 0 finishes both tests (passed), publishes
    DONE_AND_OK and returns 0; thread 1 resumes: its `xchg` overwrites the verdict with RUNNING and it
    enters the wait loop; thread 2, a later caller, arrives, reads RUNNING and waits as well. -/
def exchangeSchedule : List (Nat × Nat × Nat) := [(0, 14, 0), (1, 8, 0), (0, 40, 0), (1, 8, 0), (2, 16, 0)]

/-- what the witness shows of a state: tests passed and are over, thread 0 was told so, the status word says
    RUNNING, threads 1 and 2 have not returned -/
def stuckState (g : CG) : Bool :=
  g.status == 3 && g.gh == ⟨1, 1, 1, 1, 0⟩ && g.th.map (·.res) == [some 0, none, none]

/-- executable check of the witness on a program `P` -/
def exchangeWitnessOk (P : Program) : Bool :=
  let g := crunList P (CG.init P 3) exchangeSchedule
  let S := orbit P [0, 1] 3 g
  S.contains g && orbitClosed P [0, 1] 3 S && S.all stuckState

/-- If the check succeeds there is a reachable state of three threads in which the self tests have run once
    and passed and thread 0 has returned success, and from which **no continuation whatsoever** — any
    number of instructions of any threads, any outcomes — lets thread 1 or the later caller thread 2
    return: the status word stays RUNNING forever. -/
theorem exchangeWitness_sound {P : Program} (h : exchangeWitnessOk P = true) :
    ∃ g, CReach P [0, 1] 3 g ∧ stuckState g = true ∧ ∀ g', CSteps P [0, 1] g g' → stuckState g' = true := by
  simp only [exchangeWitnessOk, Bool.and_eq_true, List.contains_iff_mem, List.all_eq_true] at h
  obtain ⟨⟨hg, hc⟩, hall⟩ := h
  exact ⟨_, crunList_reach CReach.init _ (by decide), hall _ hg, fun g' hs => hall _ (orbit_steps hc hg hs)⟩

def exchangeProgram : Program := ⟨[
  .load .a, .testRR .a .a, .jne 5, .xorSelf .a, .ret,            --  0.. 4  early-out 1 (== OK)
  .load .a, .cmpImm .a 1, .je 37,                                --  5.. 7  early-out 2 (== FAIL)
  .subRsp 1, .movImm .a 3, .xchgMem .a, .cmpImm .a 2, .jne 16, .jmp 25,   --  8..13  claim by xchg
  .movImm .di 1, .callSleep,                                     -- 14..15  usleep(1)
  .load .a, .cmpImm .a 3, .je 14,                                -- 16..18  while (status == RUNNING)
  .load .a, .testRR .a .a, .jne 35, .xorSelf .a, .addRsp 1, .ret, -- 19..24 final load, return 0
  .call .aes, .testRR .a .a, .jne 33, .call .sha, .testRR .a .a, .jne 33,  -- 25..30
  .xchgMem .a, .jmp 22,                                          -- 31..32  publish OK
  .movImm .a 1, .xchgMem .a, .movImm .a 2016, .jmp 23,           -- 33..36  publish FAIL
  .movImm .a 2016, .ret], 2⟩                                     -- 37..38

/-- the checker rejects the exchange variant … -/
theorem exchange_rejected : simCheck exchangeProgram = false := by decide +kernel

/-- … and rightly so: **with an `atomic_exchange` claim C17 fails** ("no thread waits forever", "every thread
    observes the same verdict from then on"). -/
theorem C17_generic_cas_necessary :
    ∃ g, CReach exchangeProgram [0, 1] 3 g ∧ stuckState g = true ∧
      ∀ g', CSteps exchangeProgram [0, 1] g g' → stuckState g' = true :=
  exchangeWitness_sound (by decide +kernel)

end IsalVerif.SelfTestGeneric
