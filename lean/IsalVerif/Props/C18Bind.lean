import IsalVerif.Impl.BindRace
import IsalVerif.GenProps.Dispatch
/-!
# C18 (binding clause) — first calls racing with other first calls bind correctly

For every dispatched entry point of the current tree (`Gen.Dispatch.entries`, regenerated from the
disassembly on every run) and every CPU/OS configuration: the resolver's result `select e.prog cfg`
depends on the configuration only (it is a pure function in the model, and the translator emits
`.unsupported` for any instruction that reads memory or caller state), the interface stub has the
shape `e: jmp [cell]`, `e_mbinit: call e_dispatch_init; jmp [cell]` (`entryOk`, re-evaluated by the
kernel), and the resolver's only store is to this entry's own cell.  Under any interleaving of any
number of threads making their first call (`BindRace.Reach`): the cell only ever holds the init stub
or that one target, every thread ends up running that target, nobody is ever blocked, and each
thread needs at most four of its own steps.

Atomicity of the single 8-byte load / store of the cell is the modelling assumption (an aligned
access, or any access that does not straddle a cache line, on x86-64); `.data` of the
`*_multibinary.o` objects is only 4-byte aligned, so alignment of the cells is a property of the
final link, checked for the harness executables by `harness/drv_threads.c`, not of the library.
-/
namespace IsalVerif.Props.C18
open IsalVerif.Dispatch IsalVerif.BindRace IsalVerif.Gen.Dispatch IsalVerif.GenProps.Dispatch

/-- every entry point's interface stub has the `call resolver; jmp [cell]` shape -/
theorem c18_stub_shape (e : Entry) (he : e ∈ entries) : e.stub = "call;jmp[cell]" := by
  have hok : entryOk e = true := by
    cases h : entryOk e with
    | true => rfl
    | false =>
      have : e.name ∈ failing := by
        simp only [failing, List.mem_map, List.mem_filter]
        exact ⟨e, ⟨he, by simp [h]⟩, rfl⟩
      rw [dispatch_exec_ok] at this; cases this
  simp only [entryOk, Bool.and_eq_true, beq_iff_eq] at hok
  exact hok.1

/-- **C18 (racing first calls)**: safety under every interleaving -/
theorem c18_bind_race (e : Entry) (_he : e ∈ entries) (cfg : Cfg) (target : Val)
    (_ht : select e.prog cfg = some target) (n : Nat) (g : G) (h : Reach target n g) :
    (g.cell = none ∨ g.cell = some target) ∧
    (∀ (j : Nat) (v : Val), g.th[j]? = some (PC.running v) → v = target) ∧
    ((∃ (j : Nat) (v : Val), g.th[j]? = some (PC.running v)) → g.cell = some target) := by
  have hi := reach_inv target n g h
  exact ⟨hi.1, hi.2.1, hi.2.2.2.2⟩

/-- …nobody is ever blocked, and every step strictly decreases the (≤ 4) steps a thread has left -/
theorem c18_bind_progress (target : Val) (n : Nat) (g : G) (h : Reach target n g) (j : Nat) (pc : PC)
    (hj : g.th[j]? = some pc) (hnot : ∀ v, pc ≠ PC.running v) :
    ∃ r, tstep target g.cell pc = some r ∧ rank r.2 < rank pc ∧ rank pc ≤ 4 := by
  obtain ⟨r, hr⟩ := progress target n g h j pc hj hnot
  refine ⟨r, hr, tstep_rank target g.cell pc r hr, ?_⟩
  cases pc <;> simp [rank]

/-- non-vacuity: two threads, the second starts while the first is inside the resolver; both resolve,
    both store, both run the target -/
example : ∃ g, Reach (.sym 7) 2 g ∧ g.th = [PC.running (.sym 7), PC.running (.sym 7)] ∧ g.cell = some (.sym 7) := by
  let t : Val := .sym 7
  have s0 : Reach t 2 ⟨none, [PC.start, PC.start]⟩ := Reach.init
  have s1 := Reach.step s0 (Step.mk _ 0 PC.start PC.resolving none rfl rfl)
  have s2 := Reach.step s1 (Step.mk _ 1 PC.start PC.resolving none rfl rfl)
  have s3 := Reach.step s2 (Step.mk _ 0 PC.resolving (PC.resolved t) none rfl rfl)
  have s4 := Reach.step s3 (Step.mk _ 0 (PC.resolved t) PC.rejump (some t) rfl rfl)
  have s5 := Reach.step s4 (Step.mk _ 1 PC.resolving (PC.resolved t) (some t) rfl rfl)
  have s6 := Reach.step s5 (Step.mk _ 0 PC.rejump (PC.running t) (some t) rfl rfl)
  have s7 := Reach.step s6 (Step.mk _ 1 (PC.resolved t) PC.rejump (some t) rfl rfl)
  have s8 := Reach.step s7 (Step.mk _ 1 PC.rejump (PC.running t) (some t) rfl rfl)
  exact ⟨_, s8, rfl, rfl⟩

end IsalVerif.Props.C18
