import IsalVerif.Props.AesLaws
/-!
# C03 — AES-XTS equals IEEE 1619 incl. ciphertext stealing; expanded-key forms agree

Per-call correspondence of all 24 family symbols + public API with `Spec/Xts.lean` (and OpenSSL);
proved here: the laws of the specification the statement names.
-/
namespace IsalVerif.C03
open IsalVerif AesLaws

/-- decryption with the same keys and tweak restores the plaintext for every length ≥ 16,
    ciphertext stealing (length not a multiple of 16) included -/
theorem C03_roundtrip (k2 k1 tw pt : Bytes) (htw : tw.length = 16) (hpt : 16 ≤ pt.length) :
    Xts.xtsDec k2 k1 tw (Xts.xtsEnc k2 k1 tw pt) = pt := xts_dec_enc k2 k1 tw pt htw hpt

theorem C03_length (k2 k1 tw pt : Bytes) (htw : tw.length = 16) (hpt : 16 ≤ pt.length) :
    (Xts.xtsEnc k2 k1 tw pt).length = pt.length := xts_enc_length k2 k1 tw pt htw hpt

/-- the pre-expanded-key entry points compute the same function as the raw-key ones -/
theorem C03_expanded_enc (k2 k1 tw pt : Bytes) :
    Xts.xtsEncExp (Aes.keyExpansion k2) (Aes.keyExpansion k1) tw pt = Xts.xtsEnc k2 k1 tw pt :=
  xts_encExp k2 k1 tw pt

theorem C03_expanded_dec (k2 k1 tw ct : Bytes) (htw : tw.length = 16) :
    Xts.xtsDecExp (Aes.keyExpansion k2) (Aes.decSchedule (Aes.keyExpansion k1)) tw ct = Xts.xtsDec k2 k1 tw ct :=
  xts_decExp k2 k1 tw ct htw

end IsalVerif.C03
