import IsalVerif.Lemmas.AesInv
import IsalVerif.Lemmas.AesKeys
import IsalVerif.Lemmas.CbcLaws
import IsalVerif.Lemmas.GcmLaws
import IsalVerif.Lemmas.XtsLaws
/-! Algebraic laws of the executable block-cipher specifications in `Spec/` (AES, CBC, GCM, XTS): the
    final property theorems only; all proofs are in `Lemmas/`.

    Hypotheses.  A key schedule `rks` is *well formed* when every round key has 16 bytes
    (`∀ k ∈ rks, k.length = 16`); nothing is assumed about the number of round keys (the laws hold for any
    number, including the FIPS-197 values 11 / 13 / 15).  `keyExpansion key` is well formed for **every**
    `key` (`aes_keyExpansion_wf`), so the laws stated on raw keys (GCM, XTS) need no key hypothesis.

    Each theorem is followed by an `example` instantiating its hypotheses on concrete data, so that no
    statement is vacuous. -/
namespace IsalVerif.AesLaws
open Aes

/-! ### concrete data for the examples -/

/-- FIPS-197 Appendix C.1: AES-128 key, plaintext and ciphertext -/
def key128 : Bytes := [0x00,0x01,0x02,0x03,0x04,0x05,0x06,0x07,0x08,0x09,0x0a,0x0b,0x0c,0x0d,0x0e,0x0f]
def block : Bytes := [0x00,0x11,0x22,0x33,0x44,0x55,0x66,0x77,0x88,0x99,0xaa,0xbb,0xcc,0xdd,0xee,0xff]
def blockCt : Bytes := [0x69,0xc4,0xe0,0xd8,0x6a,0x7b,0x04,0x30,0xd8,0xcd,0xb7,0x80,0x70,0xb4,0xc5,0x5a]
/-- FIPS-197 Appendix C.3: AES-256 key -/
def key256 : Bytes := key128 ++ [0x10,0x11,0x12,0x13,0x14,0x15,0x16,0x17,0x18,0x19,0x1a,0x1b,0x1c,0x1d,0x1e,0x1f]
/-- a 12-byte IV and a 37-byte message (two whole blocks and a 5-byte tail) -/
def iv12 : Bytes := [0xca,0xfe,0xba,0xbe,0xfa,0xce,0xdb,0xad,0xde,0xca,0xf8,0x88]
def msg37 : Bytes := block ++ blockCt ++ [1, 2, 3, 4, 5]
def msg32 : Bytes := block ++ blockCt

/-- the specification does compute FIPS-197 Appendix C.1 (kernel evaluation) -/
example : cipher (keyExpansion key128) block = blockCt := by decide +kernel

/-! ### 0. KeyExpansion is well formed (FIPS-197 §5.2) -/

/-- `KeyExpansion` produces `Nr + 1` round keys of 16 bytes each, for every key. -/
theorem aes_keyExpansion_wf (key : Bytes) :
    (keyExpansion key).length = rounds key.length + 1 ∧ ∀ k ∈ keyExpansion key, k.length = 16 :=
  ⟨keyExpansion_length key, keyExpansion_mem_length key⟩

/-- 11 / 13 / 15 round keys for AES-128 / 192 / 256. -/
theorem aes_keyExpansion_length_128_192_256 (key : Bytes) :
    (key.length = 16 → (keyExpansion key).length = 11) ∧
    (key.length = 24 → (keyExpansion key).length = 13) ∧
    (key.length = 32 → (keyExpansion key).length = 15) := by
  refine ⟨fun h => ?_, fun h => ?_, fun h => ?_⟩ <;> rw [keyExpansion_length, h] <;> rfl

/-- the decryption schedule has as many round keys as the encryption schedule -/
theorem aes_decSchedule_length (rks : List Bytes) : (decSchedule rks).length = rks.length :=
  decSchedule_length rks

example : (keyExpansion key128).length = 11 := (aes_keyExpansion_length_128_192_256 key128).1 rfl
example : (keyExpansion key256).length = 15 := (aes_keyExpansion_length_128_192_256 key256).2.2 rfl

/-! ### 1. InvCipher is the inverse of Cipher (FIPS-197 §5.1, §5.3) -/

/-- `InvCipher(Cipher(b)) = b` for a well-formed schedule and a 16-byte block. -/
theorem aes_invCipher_cipher (rks : List Bytes) (b : Bytes) (hk : ∀ k ∈ rks, k.length = 16)
    (hb : b.length = 16) : invCipher rks (cipher rks b) = b :=
  invCipher_cipher hk hb

/-- `Cipher(InvCipher(b)) = b` for a well-formed schedule and a 16-byte block. -/
theorem aes_cipher_invCipher (rks : List Bytes) (b : Bytes) (hk : ∀ k ∈ rks, k.length = 16)
    (hb : b.length = 16) : cipher rks (invCipher rks b) = b :=
  cipher_invCipher hk hb

/-- On raw keys: `decryptBlock key (encryptBlock key b) = b` and conversely, for every key. -/
theorem aes_decryptBlock_encryptBlock (key b : Bytes) (hb : b.length = 16) :
    decryptBlock key (encryptBlock key b) = b ∧ encryptBlock key (decryptBlock key b) = b :=
  ⟨invCipher_cipher (keyExpansion_mem_length key) hb, cipher_invCipher (keyExpansion_mem_length key) hb⟩

/-- `Cipher` and `InvCipher` map 16-byte blocks to 16-byte blocks. -/
theorem aes_cipher_length (rks : List Bytes) (b : Bytes) (hk : ∀ k ∈ rks, k.length = 16)
    (hb : b.length = 16) : (cipher rks b).length = 16 ∧ (invCipher rks b).length = 16 :=
  ⟨cipher_length hk hb, invCipher_length hk hb⟩

example : invCipher (keyExpansion key128) (cipher (keyExpansion key128) block) = block :=
  aes_invCipher_cipher _ _ (aes_keyExpansion_wf key128).2 (by decide)
example : cipher (keyExpansion key256) (invCipher (keyExpansion key256) block) = block :=
  aes_cipher_invCipher _ _ (aes_keyExpansion_wf key256).2 (by decide)

/-! ### 2. The equivalent inverse cipher (FIPS-197 §5.3.5) -/

/-- `EqInvCipher` on the modified schedule `decSchedule rks` computes `InvCipher` on `rks`. -/
theorem aes_eqInvCipher (rks : List Bytes) (b : Bytes) (hk : ∀ k ∈ rks, k.length = 16)
    (hb : b.length = 16) : eqInvCipher (decSchedule rks) b = invCipher rks b :=
  eqInvCipher_decSchedule hk hb

example : eqInvCipher (decSchedule (keyExpansion key128)) blockCt = invCipher (keyExpansion key128) blockCt :=
  aes_eqInvCipher _ _ (aes_keyExpansion_wf key128).2 (by decide)

/-! ### 3. CBC (SP 800-38A §6.2) -/

/-- CBC decryption inverts CBC encryption (whole blocks, 16-byte IV, well-formed schedule). -/
theorem cbc_dec_enc (rks : List Bytes) (iv pt : Bytes) (hk : ∀ k ∈ rks, k.length = 16)
    (hiv : iv.length = 16) (hpt : pt.length % 16 = 0) : Cbc.cbcDec rks iv (Cbc.cbcEnc rks iv pt) = pt :=
  Cbc.cbcDec_cbcEnc hk hiv hpt

/-- CBC decryption through the equivalent inverse cipher equals CBC decryption through `InvCipher`
    (any `iv`, any `ct`). -/
theorem cbc_decEq (rks : List Bytes) (iv ct : Bytes) (hk : ∀ k ∈ rks, k.length = 16) :
    Cbc.cbcDecEq (decSchedule rks) iv ct = Cbc.cbcDec rks iv ct :=
  Cbc.cbcDecEq_decSchedule hk iv ct

/-- "By-`g`" decryption: decrypting consecutive groups of `g` blocks, each group with the last
    ciphertext block of the previous group as IV (`Cbc.cbcDecByGroups`, defined in `Lemmas/CbcLaws.lean`),
    equals decrypting the whole ciphertext at once.  Holds for every `g` (stated for `g ≥ 1` as the
    description requires; `g = 0` is defined as a single group), any schedule and any `iv`. -/
theorem cbc_dec_by_groups (g : Nat) (rks : List Bytes) (iv ct : Bytes) (_hg : 1 ≤ g)
    (hct : ct.length % 16 = 0) : Cbc.cbcDecByGroups g rks iv ct = Cbc.cbcDec rks iv ct :=
  Cbc.cbcDecByGroups_eq g rks iv ct hct

example : Cbc.cbcDec (keyExpansion key128) block (Cbc.cbcEnc (keyExpansion key128) block msg32) = msg32 :=
  cbc_dec_enc _ _ _ (aes_keyExpansion_wf key128).2 (by decide) (by decide)
example : Cbc.cbcDecByGroups 1 (keyExpansion key128) block msg32 = Cbc.cbcDec (keyExpansion key128) block msg32 :=
  cbc_dec_by_groups 1 _ _ _ (by decide) (by decide)

/-! ### 4. GCM (SP 800-38D §7), 96-bit IV -/

/-- Decrypting a GCM ciphertext returns the plaintext (any key, AAD, plaintext length and tag length). -/
theorem gcm_dec_enc_plaintext (key iv aad pt : Bytes) (t : Nat) (hiv : iv.length = 12) :
    (Gcm.gcmDec key iv aad (Gcm.gcmEnc key iv aad pt t).1 t).1 = pt :=
  Gcm.gcmDec_gcmEnc_fst key hiv aad pt t

/-- ... and recomputes the same tag. -/
theorem gcm_dec_enc_tag (key iv aad pt : Bytes) (t : Nat) :
    (Gcm.gcmDec key iv aad (Gcm.gcmEnc key iv aad pt t).1 t).2 = (Gcm.gcmEnc key iv aad pt t).2 :=
  Gcm.gcmDec_gcmEnc_snd key iv aad pt t

/-- Tag truncation: the `t`-byte tag (`t ≤ 16`) is the `t`-byte prefix of the 16-byte tag; the ciphertext does
    not depend on the tag length. -/
theorem gcm_tag_truncation (key iv aad pt : Bytes) (t : Nat) (ht : t ≤ 16) :
    (Gcm.gcmEnc key iv aad pt t).2 = ((Gcm.gcmEnc key iv aad pt 16).2).take t ∧
    (Gcm.gcmEnc key iv aad pt t).1 = (Gcm.gcmEnc key iv aad pt 16).1 :=
  ⟨Gcm.tag_take _ _ _ _ ht, rfl⟩

/-- Lengths: the ciphertext is as long as the plaintext and the tag has exactly `t ≤ 16` bytes. -/
theorem gcm_lengths (key iv aad pt : Bytes) (t : Nat) (hiv : iv.length = 12) (ht : t ≤ 16) :
    (Gcm.gcmEnc key iv aad pt t).1.length = pt.length ∧ (Gcm.gcmEnc key iv aad pt t).2.length = t :=
  ⟨Gcm.gcmEnc_fst_length key hiv aad pt t, Gcm.tag_length (keyExpansion_mem_length key) hiv aad _ ht⟩

example : (Gcm.gcmDec key128 iv12 block (Gcm.gcmEnc key128 iv12 block msg37 12).1 12).1 = msg37 :=
  gcm_dec_enc_plaintext _ _ _ _ _ (by decide)
example : (Gcm.gcmEnc key256 iv12 block msg37 8).2 = ((Gcm.gcmEnc key256 iv12 block msg37 16).2).take 8 :=
  (gcm_tag_truncation _ _ _ _ 8 (by decide)).1

/-! ### 5. XTS (IEEE 1619 §5) -/

/-- XTS decryption inverts XTS encryption for every data unit of at least 16 bytes, *including* the
    ciphertext-stealing case `pt.length % 16 ≠ 0` (any keys `k2`, `k1`; 16-byte tweak). -/
theorem xts_dec_enc (k2 k1 tw pt : Bytes) (htw : tw.length = 16) (hpt : 16 ≤ pt.length) :
    Xts.xtsDec k2 k1 tw (Xts.xtsEnc k2 k1 tw pt) = pt :=
  Xts.xtsDec_xtsEnc k2 k1 htw hpt

/-- XTS encryption preserves the length. -/
theorem xts_enc_length (k2 k1 tw pt : Bytes) (htw : tw.length = 16) (hpt : 16 ≤ pt.length) :
    (Xts.xtsEnc k2 k1 tw pt).length = pt.length :=
  Xts.xtsEnc_length k2 k1 htw hpt

/-- Expanded-key encryption on `keyExpansion` schedules is `xtsEnc`. -/
theorem xts_encExp (k2 k1 tw pt : Bytes) :
    Xts.xtsEncExp (keyExpansion k2) (keyExpansion k1) tw pt = Xts.xtsEnc k2 k1 tw pt :=
  Xts.xtsEncExp_keyExpansion k2 k1 tw pt

/-- Expanded-key decryption with the *decryption* schedule of the data key (equivalent inverse cipher) is
    `xtsDec` (which uses the straightforward inverse cipher); any ciphertext length. -/
theorem xts_decExp (k2 k1 tw ct : Bytes) (htw : tw.length = 16) :
    Xts.xtsDecExp (keyExpansion k2) (decSchedule (keyExpansion k1)) tw ct = Xts.xtsDec k2 k1 tw ct :=
  Xts.xtsDecExp_keyExpansion k2 k1 htw ct

/-- ciphertext stealing is exercised: 37 = 2·16 + 5 bytes -/
example : msg37.length % 16 ≠ 0 := by decide
example : Xts.xtsDec blockCt key128 block (Xts.xtsEnc blockCt key128 block msg37) = msg37 :=
  xts_dec_enc _ _ _ _ (by decide) (by decide)
example : Xts.xtsDecExp (keyExpansion blockCt) (decSchedule (keyExpansion key128)) block msg37
    = Xts.xtsDec blockCt key128 block msg37 :=
  xts_decExp _ _ _ _ (by decide)

end IsalVerif.AesLaws
