import IsalVerif.Props.C06
import IsalVerif.Lemmas.BaseFamily
/-!
# C11 — a rejected hash submit changes nothing and poisons no later call

Model: `Impl/HashMB.lean` (`ctxSubmit`: the three tests precede every store) and the public
wrapper's post-call mapping of the handed-back context's `error` field to the return code
(`isalCode`, following `*_mb/*_mb.c:isal_*_ctx_mgr_submit`).
-/
namespace IsalVerif.HashMB
variable {D : Type}

/-- the error code a rejected submit must carry -/
def rejectCode (x : Ctx D) (flags : Nat) : Int :=
  if flags / 4 ≠ 0 then errInvalidFlags
  else if x.processing then errAlreadyProcessing else errAlreadyCompleted

/-- (1) a submit with flags outside FIRST/UPDATE/LAST/ENTIRE, on a context still being processed,
    or continuing a completed context is handed straight back with the matching error code and
    nothing else in the whole manager changes. -/
theorem C11_reject (A : Alg D) (m : M D) (c : Cid) (data : Bytes) (flags : Nat)
    (hrej : rejects (m.ctxs c) flags = true) :
    ctxSubmit A m c data flags =
      some (setCtx m c { m.ctxs c with error := rejectCode (m.ctxs c) flags }, some c) := by
  unfold ctxSubmit rejectCode
  simp only [rejects, Bool.or_eq_true, decide_eq_true_eq, Bool.and_eq_true] at hrej
  by_cases h1 : flags / 4 ≠ 0
  · simp [h1]
  · by_cases h2 : (m.ctxs c).processing = true
    · simp [h1, h2]
    · have h3 : (m.ctxs c).complete = true ∧ flags % 2 = 0 := by
        rcases hrej with (h | h) | h
        · exact absurd h h1
        · exact absurd h h2
        · exact h
      simp [h1, h2, h3]

/-- what "changes nothing else" means: lanes, free-lane stack, every other context, and every
    field of the rejected context except `error` are as before; the abstract streams too. -/
theorem C11_unchanged (P : Params) (A : Alg D) (w : World D) (c : Cid) (data : Bytes) (flags : Nat)
    (hrej : rejects (w.m.ctxs c) flags = true) :
    ∃ w', step P A w (.submit c data flags) = some (w', some c) ∧
      w'.sp = w.sp ∧ w'.m.slots = w.m.slots ∧ w'.m.free = w.m.free ∧
      (∀ j, j ≠ c → w'.m.ctxs j = w.m.ctxs j) ∧
      w'.m.ctxs c = { w.m.ctxs c with error := rejectCode (w.m.ctxs c) flags } ∧
      rejectCode (w.m.ctxs c) flags ≠ 0 := by
  refine ⟨{ m := setCtx w.m c { w.m.ctxs c with error := rejectCode (w.m.ctxs c) flags }, sp := w.sp },
    ?_, rfl, rfl, rfl, ?_, ?_, ?_⟩
  · simp only [step, C11_reject A w.m c data flags hrej, hrej, if_true]
  · intro j hj; simp [setCtx, hj]
  · simp [setCtx]
  · unfold rejectCode; split
    · decide
    · split <;> decide

/-- (2) rejected submits may be injected anywhere: every history — with any number of rejected
    calls at any points — keeps the invariant under which C01 and C06 hold, so all other jobs still
    complete with correct digests and the rejected context can be continued or restarted. -/
theorem C11_history (P : Params) (hP : 0 < P.nl) (A : Alg D) (hA : AlgOk A) (g : Cid → D) (ops : List Op)
    (w : World D) (hrun : run P A (world0 P g) ops = some w) : Good A w := by
  have hB : 0 < A.B := by rcases hA with ⟨h, _⟩ | ⟨h, _⟩ <;> omega
  exact run_good P A hB ops _ w hrun (world0_good P hP A hB g)

/-- `isal_*_ctx_mgr_submit`: the return code computed after the call from the context handed back
    (`ISAL_CRYPTO_ERR_INVALID_FLAGS` = 2011, `…_ALREADY_PROCESSING` = 2012, `…_ALREADY_COMPLETED` = 2013) -/
def mapErr (e : Int) : Nat :=
  if e = errInvalidFlags then 2011 else if e = errAlreadyProcessing then 2012
  else if e = errAlreadyCompleted then 2013 else 0

/-- the wrapper as it is in the tree (after `fix:` 6fe72f6): the mapped error is reported only when
    the context handed back is the one submitted by this call -/
def isalCode (m' : M D) (submitted : Cid) (ret : Option Cid) : Nat :=
  match ret with
  | some c' => if c' = submitted ∧ (m'.ctxs c').error ≠ 0 then mapErr (m'.ctxs c').error else 0
  | none => 0

/-- the wrapper before the fix: the error of *whichever* context came back was reported (defect D3) -/
def isalCodeUnfixed (m' : M D) (_submitted : Cid) (ret : Option Cid) : Nat :=
  match ret with
  | some c' => if (m'.ctxs c').error ≠ 0 then mapErr (m'.ctxs c').error else 0
  | none => 0

/-- (4) **no poisoning**: every valid (accepted) submit returns 0, whatever rejections happened
    before and whichever context it hands back. -/
theorem C11_nopoison (A : Alg D) (hB : 0 < A.B) (m : M D) (c : Cid) (data : Bytes) (flags : Nat)
    (res : M D × Option Cid) (hacc : rejects (m.ctxs c) flags = false)
    (hres : ctxSubmit A m c data flags = some res) (hinv : Inv A m) (sp : Cid → SpecCtx)
    (hrel : ∀ j, Rel A (m.ctxs j) (sp j)) :
    isalCode res.1 c res.2 = 0 := by
  have post := ctxSubmit_accepted A hB m c data flags res hacc hres hinv sp hrel
  unfold isalCode
  cases hr : res.2 with
  | none => rfl
  | some c' =>
    simp only []
    have := post.err c'
    by_cases hcc : c' = c
    · subst hcc; simp [this]
    · simp [hcc]

/-- …and a rejected submit returns the documented code -/
theorem C11_reject_code (A : Alg D) (m : M D) (c : Cid) (data : Bytes) (flags : Nat)
    (hrej : rejects (m.ctxs c) flags = true) :
    ∃ res, ctxSubmit A m c data flags = some res ∧
      isalCode res.1 c res.2 = mapErr (rejectCode (m.ctxs c) flags) ∧
      mapErr (rejectCode (m.ctxs c) flags) ≠ 0 := by
  refine ⟨_, C11_reject A m c data flags hrej, ?_, ?_⟩
  · have hne : rejectCode (m.ctxs c) flags ≠ 0 := by
      unfold rejectCode; split
      · decide
      · split <;> decide
    simp [isalCode, setCtx, hne]
  · unfold rejectCode; split
    · decide
    · split <;> decide

/-- Defect D3 on the model: with the unfixed wrapper a *valid* submit is reported as failed.
    Witness (2 lanes, toy compression function): context 0 is in flight, a second submit to it is
    rejected (its `error` becomes ALREADY_PROCESSING), then the valid ENTIRE submit of context 1
    fills the manager and hands context 0 back — the unfixed wrapper returns 2012, the fixed one 0. -/
def d3Witness : Option (Bool × Nat × Nat) :=
  let A : Alg Nat := { B := 4, L := 8, lenBE := true, f := fun d _ => d + 1, init := 0 }
  let m0 : M Nat := mgrInit ⟨2, 0⟩ (fun _ => { dig := 7, complete := true })
  match ctxSubmit A m0 0 [9, 9, 9, 9] 1 with
  | none => none
  | some r1 =>
    match ctxSubmit A r1.1 0 [5] 0 with
    | none => none
    | some r2 =>
      match ctxSubmit A r2.1 1 [1, 2, 3, 4] 3 with
      | none => none
      | some r3 => some (rejects (r2.1.ctxs 1) 3, isalCodeUnfixed r3.1 1 r3.2, isalCode r3.1 1 r3.2)

theorem C11_unfixed_poisons : d3Witness = some (false, 2012, 0) := by decide +kernel

/-! ### the synchronous base family (`*_ctx_base.c`) -/

theorem baseUpdate_error (A : Alg D) (x : Ctx D) (data : Bytes) : (baseUpdate A x data).error = x.error :=
  (baseUpdate_fields A x data).2.2.2.2.2.2

theorem baseFinal_error (A : Alg D) (x : Ctx D) : (baseFinal A x).error = x.error := rfl

/-- an accepted submit of the base family leaves no error code on the context (after `fix:` F16),
    so the public wrapper returns 0 for it whatever was rejected before -/
theorem C11_base_nopoison (A : Alg D) (m : M D) (c : Cid) (data : Bytes) (flags : Nat)
    (hacc : baseRejects (m.ctxs c) flags = false) :
    (baseSubmit A m c data flags).2 = some c ∧ ((baseSubmit A m c data flags).1.ctxs c).error = 0 ∧
    isalCode (baseSubmit A m c data flags).1 c (baseSubmit A m c data flags).2 = 0 := by
  simp only [baseRejects, Bool.or_eq_false_iff, decide_eq_false_iff_not, Bool.and_eq_false_imp, Decidable.not_not,
    decide_eq_true_eq] at hacc
  obtain ⟨⟨h1, h2⟩, h3⟩ := hacc
  have herr : ((baseSubmit A m c data flags).1.ctxs c).error = 0 ∧ (baseSubmit A m c data flags).2 = some c := by
    unfold baseSubmit
    simp only []
    rw [if_neg (by simpa using h1), if_neg (by intro ⟨a, b⟩; exact h2 a b), if_neg (by intro ⟨a, b⟩; exact h3 a b)]
    refine ⟨?_, rfl⟩
    simp only [setCtx, if_true]
    unfold baseAccepted
    split <;> simp [baseFinal_error, baseUpdate_error, baseInit]
  refine ⟨herr.2, herr.1, ?_⟩
  rw [herr.2]; simp [isalCode, herr.1]

/-- a rejected submit of the base family hands the context straight back and changes only `error` -/
theorem C11_base_reject (A : Alg D) (m : M D) (c : Cid) (data : Bytes) (flags : Nat)
    (hrej : baseRejects (m.ctxs c) flags = true) :
    ∃ e : Int, e ≠ 0 ∧ baseSubmit A m c data flags = (setCtx m c { m.ctxs c with error := e }, some c) := by
  unfold baseSubmit
  simp only []
  by_cases h1 : flags / 4 ≠ 0
  · exact ⟨errInvalidFlags, by decide, by rw [if_pos h1]⟩
  · rw [if_neg h1]
    by_cases h2 : (m.ctxs c).processing = true ∧ flags = 3
    · exact ⟨errAlreadyProcessing, by decide, by rw [if_pos h2]⟩
    · rw [if_neg h2]
      by_cases h3 : (m.ctxs c).complete = true ∧ flags % 2 = 0
      · exact ⟨errAlreadyCompleted, by decide, by rw [if_pos h3]⟩
      · exfalso
        simp only [baseRejects, Bool.or_eq_true, decide_eq_true_eq, Bool.and_eq_true] at hrej
        rcases hrej with (h | h) | h
        · exact h1 h
        · exact h2 h
        · exact h3 h

/-- Defect F16 on the model: the base family before the fix did not clear `error` on an accepted
    UPDATE/LAST, so after one rejected call every later valid call on that context was reported
    failed.  Witness: FIRST, a call with invalid flags, then a valid UPDATE. -/
def baseSubmitUnfixed (A : Alg D) (m : M D) (c : Cid) (data : Bytes) (flags : Nat) : M D × Option Cid :=
  let x := m.ctxs c
  if flags / 4 ≠ 0 then (setCtx m c { x with error := errInvalidFlags }, some c)
  else if x.processing ∧ flags = 3 then (setCtx m c { x with error := errAlreadyProcessing }, some c)
  else if x.complete ∧ flags % 2 = 0 then (setCtx m c { x with error := errAlreadyCompleted }, some c)
  else
    let x' := match flags with
      | 1 => baseUpdate A (baseInit A x) data
      | 0 => baseUpdate A x data
      | 2 => baseFinal A (baseUpdate A x data)
      | _ => baseFinal A (baseUpdate A (baseInit A x) data)
    (setCtx m c x', some c)

def f16Witness : Bool × Nat × Nat :=
  let A : Alg Nat := { B := 4, L := 8, lenBE := true, f := fun d _ => d + 1, init := 0 }
  let m0 : M Nat := mgrInit ⟨1, 0⟩ (fun _ => { dig := 7, complete := true })
  let r1 := baseSubmitUnfixed A m0 0 [1, 2, 3] 1
  let r2 := baseSubmitUnfixed A r1.1 0 [1, 2, 3] 8
  let r3 := baseSubmitUnfixed A r2.1 0 [4, 5, 6] 0
  let g1 := baseSubmit A m0 0 [1, 2, 3] 1
  let g2 := baseSubmit A g1.1 0 [1, 2, 3] 8
  let g3 := baseSubmit A g2.1 0 [4, 5, 6] 0
  (baseRejects (r2.1.ctxs 0) 0, isalCode r3.1 0 r3.2, isalCode g3.1 0 g3.2)

theorem C11_base_unfixed_poisons : f16Witness = (false, 2011, 0) := by decide +kernel

end IsalVerif.HashMB
