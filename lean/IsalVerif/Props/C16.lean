/-
  IsalVerif/Props/C16.lean - property C16: "invalid arguments are refused without side effects;
  legacy and isal_ entry points agree".

  Generic part: for ANY translated table `es` whose per-run obligations hold (`Obl.failing… es =
  []`, discharged by `decide` in GenProps/Wrappers.lean), the statements below hold for every
  environment: every subset of NULL pointer arguments, all scalar values, and everything the
  callee may report.  The documented domain is `ApiSpec.inDomain` of Spec/ApiDomain.lean.
-/
import IsalVerif.Impl.WrapperCheck

namespace IsalVerif.Props.C16
open IsalVerif.Wrapper IsalVerif.Wrapper.Obl IsalVerif.ApiDomain

private theorem domain_ok {es : List Entry} (hd : failingDomain false es = [])
    {p : Entry × ApiSpec} (hp : p ∈ joined es) (hc : p.2.cls ≠ .service) :
    domainChecks p.2 p.1.body = true := by
  have := failing_nil hd p hp
  simpa [inScope, isService, hc] using this

/-- C16, refusal.  Outside the documented domain the entry point returns a NON-ZERO code which is
    the DOCUMENTED code of one of the violated constraints (the precedence among several
    violations is not documented), and has NO effect: no internal call, no store, and no load
    through any argument. -/
theorem reject (es : List Entry) (hd : failingDomain false es = []) :
    ∀ p ∈ joined es, p.2.cls ≠ .service → ∀ env : Env, ¬ p.2.inDomain env →
      (p.1.run env).ret ≠ 0 ∧ (p.1.run env).ret ∈ p.2.violatedCodes env ∧
      (p.1.run env).effects = [] :=
  fun _ hp hc env hn => domainChecks_reject (domain_ok hd hp hc) env hn

/-- C16, acceptance.  Inside the documented domain the entry point returns 0 whenever the callee
    reports no failure (and, for the hash managers, no error for the submitted context). -/
theorem accept (es : List Entry) (hd : failingDomain false es = []) :
    ∀ p ∈ joined es, p.2.cls ≠ .service → ∀ env : Env, p.2.inDomain env → CalleeOk env →
      (p.1.run env).ret = 0 :=
  fun _ hp hc env hi ok => domainChecks_accept (domain_ok hd hp hc) env hi ok

/-- C16, pointers.  Whenever the entry point loads from, stores through, or passes to a callee a
    pointer argument, one of its own guards NULL-tested that argument earlier on the same path and
    did not fire.  (Independent of the hand-written domain.) -/
theorem pointers_tested_before_use (es : List Entry) (hg : failingGuards false es = []) :
    ∀ p ∈ joined es, p.2.cls ≠ .service → ∀ env : Env,
      ∀ e ∈ (p.1.run env).effects, ∀ q ∈ e.uses p.1.params,
        ∃ c ∈ guardConds p.1.body, q ∈ c.nullTested ∧ c.eval env = false := by
  intro p hp hc env
  have hw : guardsBeforeUse p.1.params p.1.body = true := by
    have := failing_nil hg p hp
    simpa [inScope, isService, hc] using this
  exact guardsBeforeUse_sound hw env

/-- C16, context-reported constraints (`flags` of the hash managers, busy / completed context).
    With valid arguments, when the callee hands back the submitted context with an error set, the
    entry point returns the documented code of that error. -/
theorem ctx_errors_reported (es : List Entry) (hd : failingDomain false es = [])
    (hm : failingCtxMap false es = []) :
    ∀ p ∈ joined es, p.2.cls ≠ .service → p.2.calleeReported ≠ [] → ∀ env : Env,
      p.2.inDomain env → env.gatePasses = true → env.ctxSame = true → env.ctxError ≠ 0 →
      ∀ c, lookupCode env.ctxError ctxErrorMap = some c → (p.1.run env).ret = c := by
  intro p hp hc hr env hi hg hs he c hl
  have hdom := domain_ok hd hp hc
  have hrep : reportsCtxErrors (leadGuards p.1.body).2 = true := by
    have := failing_nil hm p hp
    simpa [inScope, isService, hc, hr] using this
  simp only [domainChecks, Bool.and_eq_true] at hdom
  obtain ⟨⟨⟨h1, _⟩, _⟩, _⟩ := hdom
  have hnone : firstFiring env (leadGuards p.1.body).1 = none := by
    rw [firstFiring_none]
    intro g hgm
    by_cases hev : g.1.eval env
    · exact absurd hi ((specGuards_fires p.2 env).1 ⟨g, guardSubset_mem h1 hgm, hev⟩)
    · simpa using hev
  show (run p.1.body env).ret = c
  rw [run_leadGuards]
  simp only [hnone]
  exact reportsCtxErrors_sound hrep env hg hs he hl

/-- C16, legacy clause.  For every deprecation notice "legacy → isal_": both functions exist, and
    (the isal_ one called with valid arguments) each makes exactly one internal call, of the same
    symbol, with the same actual arguments up to the positional renumbering `f` that removes the
    isal_-only result slot.  Since the internal function is the same and receives the same
    arguments, the results are the same. -/
theorem legacy_same_call (es legacy : List Entry) (pairs : List (String × String))
    (hl : failingLegacy es legacy pairs = []) :
    ∀ pr ∈ pairs, ∃ l i, findEntry legacy pr.1 = some l ∧ findEntry es pr.2 = some i ∧
      ∃ sym args, ∃ f : Arg → Arg,
        (∀ env, quiet env i.body = true → (run i.body env).calls = [.call sym args]) ∧
        (∀ env, (run l.body env).calls = [.call sym (args.map f)]) := by
  intro pr hpr
  simp only [failingLegacy, List.map_eq_nil_iff, List.filter_eq_nil_iff] at hl
  have := hl pr hpr
  split at this
  · rename_i l i hfl hfi
    exact ⟨l, i, hfl, hfi, sameCallAs_sound (by simpa using this)⟩
  · simp at this

/-! ### Non-vacuity -/

/-- The shape of `isal_aes_cbc_enc_128` with its documented domain. -/
def cbcBody : List Stmt :=
  [.ifRet (.isNull 2) ERR_NULL_EXP_KEY, .ifRet (.isNull 0) ERR_NULL_SRC, .ifRet (.isNull 3) ERR_NULL_DST,
   .ifRet (.isNull 1) ERR_NULL_IV, .ifRet (.cmp .ne (.band (.arg 4) 15) 0) ERR_CIPH_LEN,
   .call 0 [.param 0, .param 1, .param 2, .param 3, .param 4], .retConst 0]

example : domainChecks (cbc "x") cbcBody = true := by decide

def validEnv : Env := { isNull := fun _ => false, scalar := fun _ => 32 }
def nullIvEnv : Env := { isNull := fun p => p == 1, scalar := fun _ => 32 }
def oddLenEnv : Env := { isNull := fun _ => false, scalar := fun _ => 17 }

example : (cbc "x").inDomainB validEnv = true := by decide
example : run cbcBody validEnv = ⟨0, [.call 0 [.param 0, .param 1, .param 2, .param 3, .param 4]]⟩ := by
  decide
example : (cbc "x").inDomainB nullIvEnv = false ∧ run cbcBody nullIvEnv = ⟨ERR_NULL_IV, []⟩ := by decide
example : (cbc "x").inDomainB oddLenEnv = false ∧ run cbcBody oddLenEnv = ⟨ERR_CIPH_LEN, []⟩ := by decide
example : CalleeOk validEnv :=
  { ret := rfl, ctx := fun h => by simp [validEnv] at h, gate := rfl, keys := fun _ _ _ _ _ => rfl }

/-- Defect F7: the SHA-256 submit guard tests the flags where the documented domain (and the SM3
    wrapper) test the length. -/
def submitF7 : List Stmt :=
  [.ifRet (.isNull 0) ERR_NULL_MGR, .ifRet (.or (.isNull 1) (.isNull 2)) ERR_NULL_CTX,
   .ifRet (.and (.isNull 3) (.or (.cmp .eq (.arg 5) 0) (.cmp .eq (.arg 5) 3))) ERR_NULL_SRC,
   .assignOut 2 0 [.param 0, .param 1, .param 3, .param 4, .param 5],
   .mapCtxError 2 1 true ctxErrorMap, .retConst 0]
def submitSm3 : List Stmt :=
  [.ifRet (.isNull 0) ERR_NULL_MGR, .ifRet (.or (.isNull 1) (.isNull 2)) ERR_NULL_CTX,
   .ifRet (.and (.isNull 3) (.cmp .ne (.arg 4) 0)) ERR_NULL_SRC,
   .assignOut 2 0 [.param 0, .param 1, .param 3, .param 4, .param 5],
   .mapCtxError 2 1 true ctxErrorMap, .retConst 0]

example : domainChecks (mgrSubmit "x" .approved) submitF7 = false := by decide
example : domainChecks (mgrSubmit "x" .approved) submitSm3 = true := by decide
/-- The F7 witness: buffer = NULL, len = 100, flags = FIRST is outside the domain, yet accepted
    and handed to the callee. -/
def f7Env : Env :=
  { isNull := fun p => p == 3, scalar := fun p => if p == 4 then 100 else if p == 5 then 1 else 0 }
example : (mgrSubmit "x" .approved).inDomainB f7Env = false ∧ (run submitF7 f7Env).ret = 0 ∧
    (run submitSm3 f7Env) = ⟨ERR_NULL_SRC, []⟩ := by decide

end IsalVerif.Props.C16
