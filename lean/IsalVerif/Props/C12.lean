import IsalVerif.Lemmas.DispatchCheckSound
import IsalVerif.Lemmas.DispatchFamily
/-!
# C12 — dispatch binds only to executable code, one family per object, binding is stable

Generic theorems about the resolver interpreter and its checkers (this file), instantiated on the
resolver programs regenerated from the disassembly on every run in `GenProps/Dispatch.lean`
(`C12_exec`, `C12_family`).  `Cfg` ranges over *all* 2^160 assignments of CPUID leaf 1 EAX/ECX,
leaf 7 EBX/ECX and XCR0; the domain is covered symbolically through `paths_complete`.
-/
namespace IsalVerif.Dispatch

/-- the check of one resolver is sound (restated) -/
theorem C12_check_sound (p : List Instr) (need : Nat → List Isa) (minBits : List Bit)
    (h : checkResolver p need minBits = true) (cfg : Cfg) (hc : Consistent cfg) (hv : Conventions cfg)
    (hmin : ∀ b ∈ minBits, bitSet cfg b = true) :
    ∃ s, select p cfg = some (.sym s) ∧ (∀ i ∈ need s, Avail cfg i) ∧
      (run cfg p (4 * p.length) c0).ud = false :=
  checkResolver_sound p need minBits h cfg hc hv hmin

/-- symbolic execution is exact and complete for every configuration -/
theorem C12_paths_complete (cfg : Cfg) (p : List Instr) (n : Nat) (res : List (List Cond × SSt))
    (h : paths p n s0 [] = some res) :
    ∃ r ∈ res, holdsAll cfg r.1 ∧ r.2.ev cfg = run cfg p n (s0.ev cfg) :=
  paths_complete cfg p n s0 [] res h (fun x hx => by cases hx)

/-- **C12 (3)** a binding, once made, does not change: racing first calls all store the value the
    resolver computes from the configuration, so after any number of stores in any order the cell
    holds that value (the only stores to a cell are in its resolver — `Gen` / C18 statics table). -/
theorem C12_stable (v : Val) (stores : List Val) (hall : ∀ x ∈ stores, x = v) (init : Val) :
    stores ≠ [] → stores.foldl (fun _ x => x) init = v := by
  induction stores generalizing init with
  | nil => intro h; exact absurd rfl h
  | cons x xs ih =>
    intro _
    have hx : x = v := hall x List.mem_cons_self
    cases xs with
    | nil => simpa using hx
    | cons y ys => exact ih (fun z hz => hall z (List.mem_cons_of_mem _ hz)) x (by simp)

/-- non-vacuity: a configuration that is consistent, meets the conventions, and has AVX-512 G1+G2 -/
example : ∃ cfg : Cfg, Consistent cfg ∧ Conventions cfg ∧ Avail cfg .avx512bw ∧ Avail cfg .vaes := by
  refine ⟨⟨0, 0xFFFFFFFF, 0xFFFFFFFF, 0xFFFFFFFF, 0xFF⟩, ?_, ?_, ?_, ?_⟩
  · unfold Consistent RulesHold; decide
  · unfold Conventions RulesHold; decide
  · unfold Avail; decide
  · unfold Avail; decide

end IsalVerif.Dispatch
