import IsalVerif.Lemmas.SelfTestProofs
import IsalVerif.Lemmas.SelfTestSim
import IsalVerif.Lemmas.SelfTestLive
/-!
# C17 — the FIPS self tests run exactly once, nobody proceeds early, one verdict, no waiting forever

"In a FIPS-mode build, however many threads make their first library call at the same time and however
they interleave, the self-tests execute exactly once, no thread's call returns success or starts
cryptographic work before the self-tests have finished, every thread observes the same verdict from then
on, and no thread waits forever."

Setting (`Impl/SelfTest.lean`): `n` threads, each making one call of `isal_self_tests` (every gated `isal_*`
entry point starts with that call and does no cryptographic work unless it returns 0 — C13); a thread may
begin arbitrarily late, so "later calls" are threads that are still in `PC.start`.  `Reach vals n g`:
`g` is reachable by *some* interleaving of the atomic steps; `vals` is the set of values the self-test
functions can return.  The theorems are for all `n`, all interleavings, both outcomes.

The hypothesis `∀ v ∈ vals, v = 0 ∨ v = 1` (the contract documented in `fips/internal_fips.h`) is
discharged for the current tree by the per-run obligation `GenProps/SelfTestRet.lean`; it is necessary
(`C17_D2_hypothesis_necessary`).  That the compiled code implements the abstract steps is the per-run
obligation `GenProps/SelfTest.lean` (`simCheck`), whose soundness theorems are `C17_machine` (safety) and
`C17_machine_live` (liveness) below.
-/
namespace IsalVerif.SelfTest

/-- **C17 (1) at most once / exactly once.**  In every reachable state the self tests have been entered at
    most once and completed at most as often as entered; as soon as some thread has returned, they have
    been entered exactly once and have completed. -/
theorem C17_once {vals : List Nat} (hv : ∀ v ∈ vals, v = 0 ∨ v = 1) {n : Nat} {g : G}
    (h : Reach vals n g) :
    g.entered ≤ 1 ∧ g.completed ≤ g.entered ∧
    ((∃ (j v : Nat), g.th[j]? = some (PC.done v)) → g.entered = 1 ∧ g.completed = 1) := by
  have hi := reach_inv hv h
  refine ⟨hi.ent.1, hi.ent.2, fun ⟨j, v, hj⟩ => ?_⟩
  have := hi.loc j _ hj
  simp only [okPC] at this
  exact hi.e01 this.1

/-- **C17 (2) nobody returns before the verdict is published.**  A thread that has returned `v` — or is
    past its last access to the status word and about to return `v` — sees a published status word
    (0 or 1, no longer NOT_DONE/RUNNING), the self tests have been entered and have completed, and `v` is
    the return code of that status: 0 iff `SELF_TEST_DONE_AND_OK`.  In particular no call returns success
    (and hence no gated entry point starts cryptographic work) before the winner's publishing store. -/
theorem C17_no_early_return {vals : List Nat} (hv : ∀ v ∈ vals, v = 0 ∨ v = 1) {n : Nat} {g : G}
    (h : Reach vals n g) (j v : Nat) (hj : g.th[j]? = some (.done v) ∨ g.th[j]? = some (.retn v)) :
    (g.status = 0 ∨ g.status = 1) ∧ v = codeOf g.status ∧ g.entered = 1 ∧ g.completed = 1 := by
  have hi := reach_inv hv h
  have : (g.status = 0 ∨ g.status = 1) ∧ v = codeOf g.status := by
    rcases hj with hj | hj <;> (have := hi.loc j _ hj; simpa only [okPC] using this)
  exact ⟨this.1, this.2, hi.e01 this.1⟩

/-- a call returns 0 (success) only if the published status is `SELF_TEST_DONE_AND_OK` -/
theorem C17_success_means_passed {vals : List Nat} (hv : ∀ v ∈ vals, v = 0 ∨ v = 1) {n : Nat} {g : G}
    (h : Reach vals n g) (j : Nat) (hj : g.th[j]? = some (.done 0)) : g.status = 0 := by
  obtain ⟨hs, hc, _⟩ := C17_no_early_return hv h j 0 (Or.inl hj)
  rcases hs with h0 | h1
  · exact h0
  · rw [h1] at hc; simp [codeOf] at hc

/-- **C17 (3a) one verdict.**  Any two threads that have returned, returned the same value. -/
theorem C17_agree {vals : List Nat} (hv : ∀ v ∈ vals, v = 0 ∨ v = 1) {n : Nat} {g : G}
    (h : Reach vals n g) (j k v w : Nat) (hj : g.th[j]? = some (.done v)) (hk : g.th[k]? = some (.done w)) :
    v = w := by
  rw [(C17_no_early_return hv h j v (Or.inl hj)).2.1, (C17_no_early_return hv h k w (Or.inl hk)).2.1]

/-- **C17 (3b) the verdict is final.**  Once the status word holds a verdict, no further steps of any
    threads ever change it or re-run the tests; threads that have returned stay returned; and whoever
    returns later returns the code of that same verdict. -/
theorem C17_verdict_stable {vals : List Nat} (hv : ∀ v ∈ vals, v = 0 ∨ v = 1) {n : Nat} {g g' : G}
    (h : Reach vals n g) (hp : g.status = 0 ∨ g.status = 1) (hs : Steps vals g g') :
    g'.status = g.status ∧ g'.entered = 1 ∧ g'.completed = 1 ∧
    (∀ (j v : Nat), g.th[j]? = some (PC.done v) → g'.th[j]? = some (PC.done v)) ∧
    (∀ (j v : Nat), g'.th[j]? = some (PC.done v) → v = codeOf g.status) := by
  have hi := reach_inv hv h
  have hst := steps_published hv hi hs hp
  have hi' := steps_inv hv hi hs
  refine ⟨hst.1, by rw [hst.2.1]; exact (hi.e01 hp).1, by rw [hst.2.2]; exact (hi.e01 hp).2,
    fun j v hj => steps_done hs hj, fun j v hj => ?_⟩
  have := hi'.loc j _ hj
  simp only [okPC] at this
  rw [← hst.1]; exact this.2

/-- **C17 (4) nobody waits forever.**  Under every schedule that keeps scheduling each thread that has
    not yet returned (weak fairness), and with self-test runs that terminate (entering and leaving a test
    function are single steps), there is a time at which all `n` threads have returned, and nothing
    changes afterwards.  `o` is the outcome oracle (pass/fail of each test run). -/
theorem C17_live (n : Nat) (σ o : Nat → Nat) (hf : Fair n σ o) :
    ∃ t, allDone (run n σ o t) ∧ ∀ d, run n σ o (t + d) = run n σ o t := by
  obtain ⟨t, ht⟩ := all_finish n σ o hf
  exact ⟨t, ht, allDone_stable n σ o ht⟩

/-- the same for schedules in which every thread is scheduled infinitely often -/
theorem C17_live_strong (n : Nat) (σ o : Nat → Nat) (hf : StronglyFair n σ) :
    ∃ t, allDone (run n σ o t) ∧ ∀ d, run n σ o (t + d) = run n σ o t :=
  C17_live n σ o (stronglyFair_fair hf o)

/-- every state of a scheduled run is a reachable state, so (1)–(3) apply to it -/
theorem C17_run_reach (n : Nat) (σ o : Nat → Nat) (t : Nat) : Reach [0, 1] n (run n σ o t) :=
  run_reach n σ o t

/-- the final state of a fair run with at least one thread: tests ran exactly once, every thread returned
    the code of the published verdict -/
theorem C17_final (n : Nat) (hn : 1 ≤ n) (σ o : Nat → Nat) (hf : Fair n σ o) :
    ∃ t, (run n σ o t).entered = 1 ∧ (run n σ o t).completed = 1 ∧
      ((run n σ o t).status = 0 ∨ (run n σ o t).status = 1) ∧
      ∀ j, j < n → (run n σ o t).th[j]? = some (.done (codeOf (run n σ o t).status)) := by
  obtain ⟨t, ht, _⟩ := C17_live n σ o hf
  have hr := run_reach n σ o t
  have hlen := run_len n σ o t
  have hall : ∀ j, j < n → ∃ v, (run n σ o t).th[j]? = some (.done v) := by
    intro j hj
    have hlt : j < (run n σ o t).th.length := by omega
    have hmem := ht _ (List.getElem_mem hlt)
    cases hpc : (run n σ o t).th[j] with
    | done v => exact ⟨v, by rw [List.getElem?_eq_getElem hlt, hpc]⟩
    | _ => rw [hpc] at hmem; simp [notDone] at hmem
  obtain ⟨v0, h0⟩ := hall 0 (by omega)
  obtain ⟨hs, _, he, hc⟩ := C17_no_early_return vals01 hr 0 v0 (Or.inl h0)
  refine ⟨t, he, hc, hs, fun j hj => ?_⟩
  obtain ⟨v, hjv⟩ := hall j hj
  rw [hjv, (C17_no_early_return vals01 hr j v (Or.inl hjv)).2.1]

/-- **C17, instruction level.**  For any three programs over the mini-ISA accepted by `simCheck` (the
    per-run obligation on the programs regenerated from the object files), any number of threads and any
    interleaving of single *instructions*: (1) and (2) hold of the machine, and (3b) in one-step form
    (which extends to all later states because they are reachable too). -/
theorem C17_machine {P : Program} (hc : simCheck P = true) {vals : List Nat}
    (hv : ∀ v ∈ vals, v = 0 ∨ v = 1) {n : Nat} {cg : CG} (h : CReach P vals n cg) :
    (cg.entered ≤ 1 ∧ cg.completed ≤ cg.entered ∧
     (cg.status = 0 ∨ cg.status = 1 ∨ cg.status = 2 ∨ cg.status = 3) ∧
     ∀ (j : Nat) (l : Local) (v : Nat), cg.th[j]? = some l → l.res = some v →
       (cg.status = 0 ∨ cg.status = 1) ∧ v = codeOf cg.status ∧ cg.entered = 1 ∧ cg.completed = 1) ∧
    (∀ cg', (cg.status = 0 ∨ cg.status = 1) → CStep P vals cg cg' →
       cg'.status = cg.status ∧ cg'.entered = cg.entered ∧ cg'.completed = cg.completed) :=
  ⟨machine_safe hc hv h, fun _ hp hs => machine_stable hc hv h hp hs⟩

/-- **C17 (4), instruction level.**  For any program accepted by `simCheck`, `n` threads scheduled
    instruction by instruction by `σ`, self-test outcomes `o t % 2 ∈ {0,1}`: if every thread that has not
    returned keeps being scheduled, there is an instant at which all threads have returned from
    `isal_self_tests`; that state is reachable, so `C17_machine` applies to it.  (Besides the protocol this
    uses the `localBound` part of the check: no thread-local loop; the spin loop re-reads the status word.) -/
theorem C17_machine_live {P : Program} (hc : simCheck P = true) (n : Nat) (σ o : Nat → Nat)
    (hf : CFair P n σ o) :
    ∃ t, (crun P n σ o t).allReturned ∧ CReach P [0, 1] n (crun P n σ o t) := by
  obtain ⟨t, ht⟩ := machine_live hc n σ o hf
  exact ⟨t, ht, crun_reach P n σ o t⟩

/-! ### D2: the hypothesis on the return values is necessary -/

theorem runList_reach {vals : List Nat} {n : Nat} {g : G} (h : Reach vals n g) (sched : List (Nat × Nat))
    (hs : ∀ x ∈ sched, x.2 ∈ vals) : Reach vals n (runList g sched) := by
  induction sched generalizing g with
  | nil => exact h
  | cons x rest ih =>
    obtain ⟨i, c⟩ := x
    have hc : c ∈ vals := hs (i, c) List.mem_cons_self
    have hrest : ∀ y ∈ rest, y.2 ∈ vals := fun y hy => hs y (List.mem_cons_of_mem _ hy)
    rcases fireWith_step g i c hc with he | hstep
    · show Reach vals n (runList (fireWith g i c) rest); rw [he]; exact ih h hrest
    · exact ih (Reach.step h hstep) hrest

/-- the C `int` -1 as stored in the 32-bit status word -/
example : wordOfInt (-1) = 4294967295 := by decide

/-- Witness for D2.  Two threads, `_sha_self_tests` may return -1 (word 4294967295) as in the current
    `fips/sha_self_tests.c`.  Thread 0 makes its call alone: AES passes (0), SHA fails (-1); it stores
    `0 | -1` in the status word and returns `ISAL_CRYPTO_ERR_SELF_TEST`.  Then thread 1 calls: the word has
    bit 1 set, the `lock cmpxchg` fails, the spin loop exits at once (word ≠ 3), the re-load returns
    4294967295, which is neither 0 nor 1 — so it runs the self tests again; this time they pass and it
    returns 0.  Pairs are (thread, value returned by the self-test function if this step is such a return). -/
def d2Schedule : List (Nat × Nat) :=
  [(0,0), (0,0), (0,0), (0,0), (0,0), (0,4294967295), (0,0), (0,0),   -- thread 0: load, claim, aes, sha, publish, ret
   (1,0), (1,0), (1,0), (1,0), (1,0), (1,0), (1,0), (1,0), (1,0), (1,0), (1,0)]  -- thread 1: load, claim ✗, spin, reload, aes, sha, publish, ret

/-- **D2.**  Without the hypothesis that the self-test functions return 0 or 1 the property fails: with
    return values {0, -1} there is a reachable state in which the self tests have been entered (and
    completed) twice, the first caller was refused and the second caller proceeds with success. -/
theorem C17_D2_hypothesis_necessary :
    ∃ g, Reach [0, 4294967295] 2 g ∧ g.entered = 2 ∧ g.completed = 2 ∧
      g.th = [.done errSelfTest, .done 0] ∧ g.status = 0 := by
  refine ⟨runList (G.init 2) d2Schedule, runList_reach Reach.init _ (by decide), ?_⟩
  decide

/-- after the failed run the status word is neither a verdict nor NOT_DONE/RUNNING -/
example : (runList (G.init 2) (d2Schedule.take 7)).status = 4294967295 := by decide

/-! ### non-vacuity -/

/-- one thread, tests pass: it returns 0, tests entered once, status OK -/
example : ∃ g, Reach [0, 1] 1 g ∧ g.th = [.done 0] ∧ g.entered = 1 ∧ g.status = 0 :=
  ⟨runList (G.init 1) (List.replicate 8 (0, 0)), runList_reach Reach.init _ (by decide), by decide⟩

/-- three threads, AES test fails: winner and both losers return ISAL_CRYPTO_ERR_SELF_TEST; one loser spins
    while the tests run, the other arrives after publication -/
example : ∃ g, Reach [0, 1] 3 g ∧ g.th = [.done 2016, .done 2016, .done 2016] ∧ g.entered = 1 ∧ g.status = 1 :=
  ⟨runList (G.init 3) [(0,0), (1,0), (0,0), (1,0), (1,0), (0,0), (1,0), (0,1), (0,0), (1,0), (0,0), (0,0), (0,0),
                        (1,0), (1,0), (1,0), (2,0), (2,0), (1,0)],
   runList_reach Reach.init _ (by decide), by decide⟩

/-- fair schedules exist: round robin -/
example (n : Nat) (hn : 1 ≤ n) : StronglyFair n (fun t => t % n) := by
  intro i hi t
  refine ⟨t * n + i, ?_, ?_⟩
  · have : t ≤ t * n := Nat.le_mul_of_pos_right t (by omega)
    omega
  · show (t * n + i) % n = i
    rw [Nat.mul_comm, Nat.mul_add_mod]; exact Nat.mod_eq_of_lt hi

end IsalVerif.SelfTest
