import IsalVerif.Props.C01
/-!
# C15 — hash length accounting stays exact across the 2^29- and 2^32-byte totals

`C01` has no size hypothesis other than `stream < 2^61 bytes` (the bit length must fit the 64-bit
field `hash_pad` writes), so totals crossing 2^29, 2^32, 2^32+2^29 at any residue are inside its
quantifier; here: the running total, the bit-length field, and the packed lane words.
-/
namespace IsalVerif.HashMB
variable {D : Type}

/-- the running total a context reports is the sum of the accepted segment lengths (mod 2^64),
    and the digest is the standard digest, for streams of any length below 2^61 bytes -/
theorem C15 (P : Params) (hP : 0 < P.nl) (A : Alg D) (hA : AlgOk A) (g : Cid → D) (ops : List Op)
    (w : World D) (hrun : run P A (world0 P g) ops = some w)
    (c : Cid) (b : Bytes) (closed : Bool) (hsp : w.sp c = some (b, closed))
    (hidle : (w.m.ctxs c).processing = false) (hlen : b.length < 2^61) :
    (w.m.ctxs c).total = b.length ∧ (closed = true → (w.m.ctxs c).dig = A.fin (mdState A b)) := by
  have hB : 0 < A.B := by rcases hA with ⟨h, _⟩ | ⟨h, _⟩ <;> omega
  have hg := run_good P A hB ops _ w hrun (world0_good P hP A hB g)
  obtain ⟨_, h2, _⟩ := good_idle A w hg c hidle b closed hsp
  refine ⟨by rw [h2]; exact Nat.mod_eq_of_lt (by omega), ?_⟩
  exact (C01 P hP A hA g ops w hrun c b closed hsp hidle hlen).2.1

/-- the stream of `specSubmit` grows by exactly the segment length -/
theorem C15_stream_length (b : Bytes) (cl : Bool) (data : Bytes) (flags : Nat) (h : flags % 2 = 0) :
    ∃ cl', specSubmit (some (b, cl)) data flags = some (b ++ data, cl') ∧
      (b ++ data).length = b.length + data.length := by
  exact ⟨_, C01_append b cl data flags h, List.length_append⟩

/-- the length field `hash_pad` writes is the 64-bit bit count `8·total` (2.18 regression: the
    shift must happen in 64 bits), for every total below 2^61 -/
theorem C15_bitlen (total : Nat) (h : total < 2^61) : (total * 8) % 2^64 = 8 * total := by omega

/-- the packed lane word `blocks <<< shift ||| lane` of the schedulers (32-bit: shift 4 or 6;
    64-bit SHA-512: shift 32 … the lemma is generic) -/
def pack (shift blocks lane : Nat) : Nat := blocks <<< shift ||| lane

theorem pack_eq (shift blocks lane : Nat) (hl : lane < 2^shift) :
    pack shift blocks lane = blocks * 2^shift + lane := by
  unfold pack; rw [← Nat.shiftLeft_add_eq_or_of_lt hl, Nat.shiftLeft_eq]

/-- a job of a 2^32-1 byte submit (at most 2^26-1 blocks of 64 bytes) still fits the 32-bit lane word,
    below the idle marker 0xFFFFFFFF, for 16 lanes (shift 4) and for MD5's 32 lanes (shift 6) -/
theorem C15_pack_fits (shift blocks lane : Nat) (hs : (shift = 4 ∧ lane < 16) ∨ (shift = 6 ∧ lane < 32))
    (hb : blocks < 2^26) : pack shift blocks lane < 2^32 - 1 := by
  rcases hs with ⟨rfl, hl⟩ | ⟨rfl, hl⟩
  · rw [pack_eq 4 blocks lane (by omega)]; omega
  · rw [pack_eq 6 blocks lane (by omega)]; omega

/-- unpacking recovers both components, and the unsigned minimum of packed words is the
    lexicographic minimum of (remaining blocks, lane) — what the model's `pickMin` computes -/
theorem C15_pack_order (shift b1 l1 b2 l2 : Nat) (h1 : l1 < 2^shift) (h2 : l2 < 2^shift) :
    (pack shift b1 l1 / 2^shift = b1 ∧ pack shift b1 l1 % 2^shift = l1) ∧
    (pack shift b1 l1 < pack shift b2 l2 ↔ b1 < b2 ∨ (b1 = b2 ∧ l1 < l2)) := by
  rw [pack_eq shift b1 l1 h1, pack_eq shift b2 l2 h2]
  have hp : 0 < 2^shift := Nat.two_pow_pos shift
  refine ⟨⟨?_, ?_⟩, ?_⟩
  · rw [Nat.add_comm, Nat.add_mul_div_right _ _ hp, Nat.div_eq_of_lt h1, Nat.zero_add]
  · rw [Nat.add_comm, Nat.add_mul_mod_self_right, Nat.mod_eq_of_lt h1]
  · constructor
    · intro h
      by_cases hb : b1 < b2
      · left; exact hb
      · right
        have hge : b2 ≤ b1 := by omega
        have : b2 * 2^shift ≤ b1 * 2^shift := Nat.mul_le_mul_right _ hge
        have hbe : b1 = b2 := by
          by_cases he : b1 = b2
          · exact he
          · have : b2 + 1 ≤ b1 := by omega
            have := Nat.mul_le_mul_right (2^shift) this
            rw [Nat.add_mul] at this; omega
        subst hbe; exact ⟨rfl, by omega⟩
    · rintro (h | ⟨rfl, h⟩)
      · have : (b1 + 1) * 2^shift ≤ b2 * 2^shift := Nat.mul_le_mul_right _ h
        rw [Nat.add_mul] at this; omega
      · omega

end IsalVerif.HashMB
