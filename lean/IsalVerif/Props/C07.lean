import IsalVerif.Lemmas.GcmStreamLaws
/-! Property C07: *initialising a GCM message, feeding the data through any sequence of update calls (any
    lengths, including zero and lengths that leave partial 16-byte blocks between calls) and finalising
    produces the same output bytes and the same tag as the one-shot call on the concatenated data, for
    encryption and decryption* — for the streaming context model `Impl/GcmStream.lean` against the
    specification `Spec/Gcm.lean`.  Final theorems only; proofs are in `Lemmas/GcmStreamLaws.lean`.

    No bound on the lengths is needed: the model keeps `aadLen`, `inLen` and the two bit lengths modulo 2⁶⁴,
    and the specification's length block `[len(A)]₆₄ ‖ [len(C)]₆₄` is built with `UInt64.ofNat (8 * n)`, which
    reduces modulo 2⁶⁴ as well, so both sides agree for all lengths. -/
namespace IsalVerif.C07
open Aes Gcm GcmStream

/-- C07, eager variant (all families but vaes_avx512): `stream` = one-shot GCM on the concatenated parts,
    for a well-formed key schedule and a 12-byte IV; `dec` selects decryption. -/
theorem C07 (rks : List Bytes) (hk : ∀ k ∈ rks, k.length = 16) (iv aad : Bytes) (hiv : iv.length = 12)
    (parts : List Bytes) (t : Nat) (dec : Bool) :
    GcmStream.stream rks dec iv aad parts t =
      (if dec then Gcm.gcmDecExp rks iv aad parts.flatten t else Gcm.gcmEncExp rks iv aad parts.flatten t) :=
  streamWith_eq hk hiv false dec aad parts t

/-- C07, `lazy256` variant (vaes_avx512: an update that finds exactly 256 bytes left keeps the last block
    pending with `pbLen = 16`): `GcmStream.streamLazy` (defined in `Lemmas/GcmStreamLaws.lean` as the same fold
    with `update … (lazy256 := true)`) = one-shot GCM. -/
theorem C07_lazy (rks : List Bytes) (hk : ∀ k ∈ rks, k.length = 16) (iv aad : Bytes) (hiv : iv.length = 12)
    (parts : List Bytes) (t : Nat) (dec : Bool) :
    GcmStream.streamLazy rks dec iv aad parts t =
      (if dec then Gcm.gcmDecExp rks iv aad parts.flatten t else Gcm.gcmEncExp rks iv aad parts.flatten t) :=
  streamWith_eq hk hiv true dec aad parts t

/-- hence the two variants produce the same bytes and tag -/
theorem C07_lazy_eq_eager (rks : List Bytes) (hk : ∀ k ∈ rks, k.length = 16) (iv aad : Bytes)
    (hiv : iv.length = 12) (parts : List Bytes) (t : Nat) (dec : Bool) :
    GcmStream.streamLazy rks dec iv aad parts t = GcmStream.stream rks dec iv aad parts t := by
  rw [C07 rks hk iv aad hiv, C07_lazy rks hk iv aad hiv]

/-- C07 on raw keys (any key: `keyExpansion` is always well formed): streaming = `gcmEnc` / `gcmDec`. -/
theorem C07_key (key iv aad : Bytes) (hiv : iv.length = 12) (parts : List Bytes) (t : Nat) :
    GcmStream.stream (keyExpansion key) false iv aad parts t = Gcm.gcmEnc key iv aad parts.flatten t ∧
    GcmStream.stream (keyExpansion key) true iv aad parts t = Gcm.gcmDec key iv aad parts.flatten t ∧
    GcmStream.streamLazy (keyExpansion key) false iv aad parts t = Gcm.gcmEnc key iv aad parts.flatten t ∧
    GcmStream.streamLazy (keyExpansion key) true iv aad parts t = Gcm.gcmDec key iv aad parts.flatten t :=
  ⟨C07 _ (keyExpansion_mem_length key) iv aad hiv parts t false,
   C07 _ (keyExpansion_mem_length key) iv aad hiv parts t true,
   C07_lazy _ (keyExpansion_mem_length key) iv aad hiv parts t false,
   C07_lazy _ (keyExpansion_mem_length key) iv aad hiv parts t true⟩

/-! ### non-vacuity -/

/-- FIPS-197 Appendix A.1 / C.1 key and its expanded key -/
def key128 : Bytes := [0x00,0x01,0x02,0x03,0x04,0x05,0x06,0x07,0x08,0x09,0x0a,0x0b,0x0c,0x0d,0x0e,0x0f]
def rks128 : List Bytes := [
  [0, 1, 2, 3, 4, 5, 6, 7, 8, 9, 10, 11, 12, 13, 14, 15],
  [214, 170, 116, 253, 210, 175, 114, 250, 218, 166, 120, 241, 214, 171, 118, 254],
  [182, 146, 207, 11, 100, 61, 189, 241, 190, 155, 197, 0, 104, 48, 179, 254],
  [182, 255, 116, 78, 210, 194, 201, 191, 108, 89, 12, 191, 4, 105, 191, 65],
  [71, 247, 247, 188, 149, 53, 62, 3, 249, 108, 50, 188, 253, 5, 141, 253],
  [60, 170, 163, 232, 169, 159, 157, 235, 80, 243, 175, 87, 173, 246, 34, 170],
  [94, 57, 15, 125, 247, 166, 146, 150, 167, 85, 61, 193, 10, 163, 31, 107],
  [20, 249, 112, 26, 227, 95, 226, 140, 68, 10, 223, 77, 78, 169, 192, 38],
  [71, 67, 135, 53, 164, 28, 101, 185, 224, 22, 186, 244, 174, 191, 122, 210],
  [84, 153, 50, 209, 240, 133, 87, 104, 16, 147, 237, 156, 190, 44, 151, 78],
  [19, 17, 29, 127, 227, 148, 74, 23, 243, 7, 167, 139, 77, 43, 48, 197]]
def iv12 : Bytes := [0xca,0xfe,0xba,0xbe,0xfa,0xce,0xdb,0xad,0xde,0xca,0xf8,0x88]
def aad5 : Bytes := [9, 8, 7, 6, 5]
/-- a 3-part split with partial blocks: 5 + 14 + 3 bytes (the second call completes block 0 and leaves 3
    bytes of block 1 pending; the third adds 3 more) -/
def p1 : Bytes := [1, 2, 3, 4, 5]
def p2 : Bytes := [6, 7, 8, 9, 10, 11, 12, 13, 14, 15, 16, 17, 18, 19]
def p3 : Bytes := [20, 21, 22]

example : keyExpansion key128 = rks128 := by decide +kernel

/-- the hypotheses of `C07` hold for this data … -/
example : (∀ k ∈ rks128, k.length = 16) ∧ iv12.length = 12 := by decide

/-- … and the equation is also confirmed by direct kernel evaluation of both sides (independently of the proof) -/
example : GcmStream.stream rks128 false iv12 aad5 [p1, p2, p3] 16
    = Gcm.gcmEncExp rks128 iv12 aad5 (p1 ++ p2 ++ p3) 16 := by decide +kernel

example : GcmStream.streamLazy rks128 true iv12 aad5 [p1, [], p2, p3] 12
    = Gcm.gcmDecExp rks128 iv12 aad5 [p1, [], p2, p3].flatten 12 :=
  C07_lazy rks128 (by decide) iv12 aad5 (by decide) _ 12 true

/-- the `lazy256` path is really taken on a 256-byte update: the last block stays pending (`pbLen = 16`),
    whereas the eager variant leaves nothing pending -/
example : (update rks128 false (init rks128 iv12 aad5) (List.replicate 256 7) (lazy256 := true)).1.pbLen = 16 ∧
    (update rks128 false (init rks128 iv12 aad5) (List.replicate 256 7)).1.pbLen = 0 := by decide +kernel

end IsalVerif.C07
