import IsalVerif.Impl.GcmStream
/-! C07 — GCM streaming equals one-shot (refinement proof in progress; see DESIGN.md status) -/
