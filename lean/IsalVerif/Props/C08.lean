import IsalVerif.Props.C06
import IsalVerif.Props.C02
import IsalVerif.Props.C03
import IsalVerif.Props.C09
/-!
# C08 — no access outside caller-supplied byte ranges; inputs never modified

A theorem cannot observe a stray vector load inside an assembly kernel; that half of the property
is decided by the guard-page enumeration of the harness (every buffer flush against a PROT_NONE
page, end-flush and start-flush; `harness/guard.h`).  What *is* proved here is the index arithmetic
of the C glue and of the models: how far the partial-block buffer, the padding blocks, the outputs
and the rolling scan can reach.  The models are pure functions of the bytes they are given
(`List` values), so "reads only `data[0..len)`" and "inputs are not modified" hold by construction
for everything the models cover; the clauses below are the ones with arithmetic content.
-/
namespace IsalVerif.C08
open IsalVerif HashMB

theorem blocks_length_each {α : Type} (B : Nat) : ∀ (n : Nat) (l : List α), n * B ≤ l.length →
    ∀ b ∈ blocks B n l, b.length = B
  | 0, _, _ => by intro b hb; simp [blocks] at hb
  | n+1, l, h => by
    intro b hb
    simp only [blocks, List.mem_cons] at hb
    have hB : B ≤ l.length := by rw [Nat.succ_mul] at h; omega
    rcases hb with rfl | hb
    · simp [List.length_take]; omega
    · exact blocks_length_each B n (l.drop B) (by rw [List.length_drop, Nat.succ_mul] at *; omega) b hb

theorem blocks_count {α : Type} (B : Nat) (n : Nat) (l : List α) : (blocks B n l).length = n := by
  induction n generalizing l with
  | zero => rfl
  | succ n ih => simp [blocks, ih]

/-- hash contexts: between calls the partial-block buffer holds fewer than one block
    (`partial_block_buffer_length < BLOCK_SIZE`, buffer size 2·BLOCK_SIZE) -/
theorem C08_hash_partial {D : Type} (A : Alg D) (w : World D) (hg : Good A w) (c : Cid) :
    (w.m.ctxs c).part.length < A.B := (hg.inv.shape c).1

/-- `hash_pad` hands the kernel one or two blocks of exactly BLOCK_SIZE bytes taken from the
    2·BLOCK_SIZE partial-block buffer: the `memclr`, the 0x80 byte and the 8/16-byte length store
    all stay inside it (64-byte block algorithms) -/
theorem C08_hash_pad64 (lenBE : Bool) (tail : Bytes) (n : Nat) (hn : n < 2^61) (ht : tail.length = n % 64) :
    (hashPad 64 8 lenBE tail (n % 2^64)).length ≤ 2 ∧ ∀ b ∈ hashPad 64 8 lenBE tail (n % 2^64), b.length = 64 := by
  obtain ⟨t, h1, h2⟩ := hashPad64 lenBE tail n hn ht
  rw [h2]
  refine ⟨?_, blocks_length_each 64 t _ (by omega)⟩
  rw [blocks_count]
  simp only [mdPad, List.length_append, List.length_cons, List.length_replicate, ht] at h1
  have hl : (if lenBE = true then natBE 8 (8 * n) else natLE 8 (8 * n)).length = 8 := by split <;> simp [natBE, natLE]
  rw [hl] at h1; omega

/-- …and for SHA-512 (128-byte block, 16-byte length field) -/
theorem C08_hash_pad128 (tail : Bytes) (n : Nat) (hn : n < 2^61) (ht : tail.length = n % 128) :
    (hashPad 128 16 true tail (n % 2^64)).length ≤ 2 ∧ ∀ b ∈ hashPad 128 16 true tail (n % 2^64), b.length = 128 := by
  obtain ⟨t, h1, h2⟩ := hashPad128 tail n hn ht
  rw [h2]
  refine ⟨?_, blocks_length_each 128 t _ (by omega)⟩
  rw [blocks_count]
  simp only [mdPad, List.length_append, List.length_cons, List.length_replicate, ht, if_true] at h1
  have hl : (natBE 16 (8 * n)).length = 16 := by simp [natBE]
  rw [hl] at h1; omega

/-- every job handed to a lane consists of whole blocks: the kernels are given `len/B` blocks of a
    caller segment and never the ragged tail -/
theorem C08_job_blocks (B : Nat) (data : Bytes) :
    ∀ b ∈ blocks B (data.length / B) data, b.length = B :=
  blocks_length_each B _ data (Nat.div_mul_le_self _ _)

/-- GCM / XTS produce exactly `len` output bytes and GCM exactly `tag_len` tag bytes (specification
    level; the per-family outputs are compared with it byte for byte, canaries after the end) -/
theorem C08_output_lengths (key iv aad pt : Bytes) (t : Nat) (hiv : iv.length = 12) (ht : t ≤ 16)
    (k2 k1 tw : Bytes) (htw : tw.length = 16) (hpt : 16 ≤ pt.length) :
    (Gcm.gcmEnc key iv aad pt t).1.length = pt.length ∧ (Gcm.gcmEnc key iv aad pt t).2.length = t ∧
    (Xts.xtsEnc k2 k1 tw pt).length = pt.length :=
  ⟨(C02.C02_lengths key iv aad pt t hiv ht).1, (C02.C02_lengths key iv aad pt t hiv ht).2, C03.C03_length k2 k1 tw pt htw hpt⟩

end IsalVerif.C08
