import IsalVerif.Lemmas.X86AbsSound
import IsalVerif.Props.C19
import IsalVerif.GenProps.X86Statics
/-!
# C18 (static clause) — no writable static storage besides the implementation bindings and the self-test verdict

> The library keeps no writable static storage other than the one-time implementation bindings and the
> self-test verdict.

**What is proved** over the model of all 230 objects (C objects included):

* `c18_static_stores` – every instruction of the library whose destination is static (rip-relative;
  record kind `storeStatic`) lies in a function `f` and targets a symbol `t` such that either
  `f = <base>_dispatch_init ∧ t = <base>_dispatched` (one-time binding of a dispatch cell), or
  `t = self_test_status ∧ f ∈ {asm_set_self_tests_status, asm_check_self_tests_status}`.
  The check is *syntactic* (every record of every function, reachable or not).
* `Gen.X86Statics.writable` lists every symbol in a writable section (`.data/.bss/...`) with its size and
  whether any store targets it; `written_ok`/`counts` fix the numbers (65 stores, 65 written symbols =
  64 dispatch cells + the status word).  All other writable-section symbols are never stored to by a
  static-address instruction: they are NASM constant tables that merely live in `.data`.

**Not covered** (stated in the README): stores through a *pointer* to a static object (the address
taken with `lea reg,[rip+sym]` and written through the register).  The translator reports every
`lea` of a writable-section symbol so that the list can be inspected (`report.json: static_lea`).
-/
namespace IsalVerif.Props.C18
open IsalVerif.X86Abs IsalVerif.Gen.X86 IsalVerif.GenProps.X86 IsalVerif.Statics

theorem allow_mem {g t : Nat} (h : Summaries.allow g t = true) : (g, t) ∈ Summaries.allowedPairs := by
  unfold Summaries.allow at h
  rw [List.any_eq_true] at h
  obtain ⟨p, hp, hpe⟩ := h
  simp only [Bool.and_eq_true, beq_iff_eq] at hpe
  obtain ⟨p1, p2⟩ := p
  simp only at hpe
  obtain ⟨rfl, rfl⟩ := hpe
  exact hp

/-- **C18**: every static store of the library is a dispatch-cell binding inside the matching
`*_dispatch_init`, or a write of the self-test status word by its two owners. -/
theorem c18_static_stores {o : String × List FuncData} (ho : o ∈ objects) {d : FuncData} (hd : d ∈ o.2)
    {pc t : Nat} (hi : d.prog[pc]? = some (.storeStatic t)) :
    ∃ rule base, justified (Summaries.funcNames.getD d.gid "") (Summaries.staticNames.getD t "") rule base = true := by
  have hchk := IsalVerif.Props.C19.checked ho hd
  have hal : Summaries.allow d.gid t = true := checkFn_static hchk hi
  have hmem := allow_mem hal
  have hs := IsalVerif.GenProps.X86Statics.statics_ok
  unfold checkStatics at hs
  rw [List.all_eq_true] at hs
  have := hs _ hmem
  rw [List.any_eq_true] at this
  obtain ⟨row, _, hrow⟩ := this
  simp only [Bool.and_eq_true] at hrow
  exact ⟨row.2.2.1, row.2.2.2, hrow.2⟩

/-! Non-vacuity of the allow-list -/
example : justified "_sha256_ctx_mgr_submit_dispatch_init" "_sha256_ctx_mgr_submit_dispatched" 0 "_sha256_ctx_mgr_submit" = true := by decide
example : justified "_sha256_ctx_mgr_submit_avx2" "_sha256_ctx_mgr_submit_dispatched" 0 "_sha256_ctx_mgr_submit" = false := by decide
example : justified "asm_set_self_tests_status" "self_test_status" 1 "" = true := by decide
example : justified "isal_sha256_ctx_mgr_init" "self_test_status" 1 "" = false := by decide

end IsalVerif.Props.C18
