import IsalVerif.Impl.GcmStream
import IsalVerif.Spec.Xts
import IsalVerif.Spec.Cbc
/-! C02 — property theorems (being filled in; see DESIGN.md status) -/
