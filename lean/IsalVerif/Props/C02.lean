import IsalVerif.Props.AesLaws
import IsalVerif.Impl.GcmStream
/-!
# C02 — AES-GCM one-shot equals NIST SP 800-38D

The one-shot entry points are compared, call by call, with `Gcm.gcmEncExp/gcmDecExp` — the
transcription of SP 800-38D in `Spec/Gcm.lean` — for every family incl. the non-temporal variants
(`harness/drv_aes.c`, op `GO`), and with OpenSSL as a second oracle.  What is *proved* here are the
laws of the specification the statement names: decryption inverts encryption for every length,
AAD, key and 12-byte IV; the same tag is produced; a shorter tag is a prefix of the 16-byte tag.
"assembly = specification" itself is established by the per-call correspondence only.
-/
namespace IsalVerif.C02
open IsalVerif AesLaws

/-- one-shot decryption of the ciphertext returns the plaintext, for every length (0 and
    non-multiples of 16 included), every AAD, key and 12-byte IV -/
theorem C02_roundtrip (key iv aad pt : Bytes) (t : Nat) (hiv : iv.length = 12) :
    (Gcm.gcmDec key iv aad (Gcm.gcmEnc key iv aad pt t).1 t).1 = pt :=
  gcm_dec_enc_plaintext key iv aad pt t hiv

/-- …and computes the same tag -/
theorem C02_same_tag (key iv aad pt : Bytes) (t : Nat) :
    (Gcm.gcmDec key iv aad (Gcm.gcmEnc key iv aad pt t).1 t).2 = (Gcm.gcmEnc key iv aad pt t).2 :=
  gcm_dec_enc_tag key iv aad pt t

/-- the 8- and 12-byte tags are prefixes of the 16-byte tag; the ciphertext does not depend on the tag size -/
theorem C02_tag_sizes (key iv aad pt : Bytes) (t : Nat) (ht : t ≤ 16) :
    (Gcm.gcmEnc key iv aad pt t).2 = ((Gcm.gcmEnc key iv aad pt 16).2).take t ∧
    (Gcm.gcmEnc key iv aad pt t).1 = (Gcm.gcmEnc key iv aad pt 16).1 :=
  gcm_tag_truncation key iv aad pt t ht

/-- exactly `len` output bytes and `t` tag bytes -/
theorem C02_lengths (key iv aad pt : Bytes) (t : Nat) (hiv : iv.length = 12) (ht : t ≤ 16) :
    (Gcm.gcmEnc key iv aad pt t).1.length = pt.length ∧ (Gcm.gcmEnc key iv aad pt t).2.length = t :=
  gcm_lengths key iv aad pt t hiv ht

end IsalVerif.C02
