import IsalVerif.Lemmas.RollingProofs
/-!
# Property C09 — the rolling hash

> A rolling-hash run reports a hit at exactly the first position, counted from where it resumed,
> at which the hash of the last w stream bytes (w the configured window; earlier bytes come from
> reset or previous runs) satisfies (hash & mask) == trigger, and otherwise consumes max_len bytes;
> that hash is a fixed function of those w bytes alone, defined by the library's constant table.
> Consequently the chunk boundaries found over a stream are identical however the stream is cut
> into run calls, whichever implementation executes, and across library versions.

What is proved here, about the statement-level model `Impl/RollingRun.lean` of `rolling_hash2.c` and
of the base scan in `rolling_hashx_base.c`, for every window `1 ≤ w ≤ 48`:

* `C09_hash`   after `init`, `reset` and *any* sequence of valid `run` calls (any buffers, any
               `max_len` including 0 and `< w`, any mask, any trigger), `state.hash` is
               `Spec.Rolling.H` of the last `w` bytes of `initial window ++ consumed bytes`, and
               `history[0..w)` is that window, oldest byte first;
* `C09_run`    one `run` call returns HIT with `*offset = k` iff `k` is the least position `≥ 1` with
               `(H(window after k bytes) & mask) == trigger` (`Spec.Rolling.firstHit`), else MAX with
               `*offset = max_len`; `*offset ≤ max_len`; offset 0 is never a HIT;
* `C09_split`  scanning a stream by successive `run` calls finds exactly `Spec.Rolling.boundaries`
               of the consumed prefix, hence of the whole stream once it is consumed — independent
               of the `max_len` sequence and of the scan implementation;
* `C09_mask_gen`  the mask computed by `mask_gen`.

`H` refers to `Spec.rollingTable`, which `GenProps/RollingTable.lean` ties to the table found in the
current source ("across library versions").

Hypotheses:
* `max_len < 2^32` and `max_len ≤` size of the buffer (`Call.Valid`; `stream.size < 2^32`): what the
  API gives — `max_len` is a `uint32_t` and the caller owns that many bytes.  (Up to commit 4824648
  the base scan kept index and bound in `int`s and the theorems needed `max_len < 2^31`: defect F4,
  documented by `F4_old_code_witness` at the end of this file.)
* `ScanRefinesBase scan`: the inner scan in the dispatch cell computes what the base scan computes.
  It holds of `runUntilBase` by definition; for `_rolling_hash2_run_until_00/_04` it is what the
  correspondence harness (`harness/drv_rolling.c`) tests (it failed for an odd trailing byte until
  commit 57e0491, defect F5);
* `trigger & ~mask == 0` is **not** needed for the base scan (then no position hits, and the model
  agrees); the AVX2 scan needs it (it compares `pext`-compressed values).

`Inv w win st` (from `Lemmas/RollingProofs.lean`) reads "state `st` holds window `win`":
`st.w = w`, `|st.history| = 48`, `st.history.take w = win`, `st.hash = H win`.
-/
namespace IsalVerif.Props.C09
open IsalVerif IsalVerif.Spec.Rolling IsalVerif.Impl.Rolling IsalVerif.Lemmas.Rolling

/-! ## (b) one call -/

/-- **C09, one call.**  From a state holding window `win`, `run` over the first `maxLen` bytes of
`buffer` returns the specification's first hit, never overshoots, and leaves a state holding the
last `w` bytes of everything seen. -/
theorem C09_run (scan : ScanFn) (hscan : ScanRefinesBase scan) (w : Nat) (hw1 : 1 ≤ w) (hw48 : w ≤ 48)
    (win : Bytes) (st : RhState) (inv : Inv w win st)
    (buffer : Buf) (maxLen : Nat) (hlen : maxLen ≤ buffer.size) (h32 : maxLen < 2 ^ 32)
    (mask trigger : UInt32) :
    (∀ k, firstHit w mask trigger win (buffer.toList.take maxLen) = some k →
      (run scan st buffer maxLen mask trigger).ret = ISAL_FINGERPRINT_RET_HIT ∧
      (run scan st buffer maxLen mask trigger).offset = k) ∧
    (firstHit w mask trigger win (buffer.toList.take maxLen) = none →
      (run scan st buffer maxLen mask trigger).ret = ISAL_FINGERPRINT_RET_MAX ∧
      (run scan st buffer maxLen mask trigger).offset = maxLen) ∧
    (run scan st buffer maxLen mask trigger).offset ≤ maxLen ∧
    ((run scan st buffer maxLen mask trigger).ret = ISAL_FINGERPRINT_RET_HIT →
      1 ≤ (run scan st buffer maxLen mask trigger).offset) ∧
    Inv w (lastN w (win ++ buffer.toList.take (run scan st buffer maxLen mask trigger).offset))
      (run scan st buffer maxLen mask trigger).state := by
  have hwin := inv.win_length hw48
  have g := run_good mask trigger hscan hw1 hw48 inv hlen h32
  have hdata : (buffer.toList.take maxLen).length = maxLen := by
    simp only [List.length_take, Array.length_toList]; omega
  refine ⟨?_, ?_, g.le, ?_, g.inv_lastN hwin hlen⟩
  · intro k hk
    rcases g.firstHit_eq hwin hdata with ⟨hr, hf⟩ | ⟨_, _, hf⟩
    · rw [hf] at hk; exact ⟨hr, (Option.some.inj hk)⟩
    · rw [hf] at hk; exact absurd hk (by simp)
  · intro hnone
    rcases g.firstHit_eq hwin hdata with ⟨_, hf⟩ | ⟨hr, ho, _⟩
    · rw [hf] at hnone; exact absurd hnone (by simp)
    · exact ⟨hr, ho⟩
  · intro hr
    rcases g.ret with ⟨_, h1, _⟩ | ⟨hr', _, _⟩
    · exact h1
    · rw [hr] at hr'; exact absurd hr' (by decide)

/-- the explicit reading of `firstHit` used above: `some k` means position `k` hits and no earlier
position `≥ 1` does; `none` means no position in `[1, |data|]` hits -/
theorem firstHit_some_iff (w : Nat) (mask trigger : UInt32) (win data : Bytes) (k : Nat) :
    firstHit w mask trigger win data = some k ↔
      hitAt w mask trigger win data k = true ∧ (1 ≤ k ∧ k ≤ data.length) ∧
        ∀ j, 1 ≤ j → j < k → hitAt w mask trigger win data j = false := by
  unfold firstHit
  rw [List.find?_range'_eq_some]
  simp only [List.mem_range'_1, Bool.not_eq_eq_eq_not, Bool.not_true]
  constructor
  · rintro ⟨a, b, c⟩; exact ⟨a, ⟨b.1, by omega⟩, c⟩
  · rintro ⟨a, b, c⟩; exact ⟨a, ⟨b.1, by omega⟩, c⟩

theorem firstHit_none_iff (w : Nat) (mask trigger : UInt32) (win data : Bytes) :
    firstHit w mask trigger win data = none ↔
      ∀ j, 1 ≤ j → j ≤ data.length → hitAt w mask trigger win data j = false := by
  unfold firstHit
  rw [List.find?_range'_eq_none]
  simp only [Bool.not_eq_eq_eq_not, Bool.not_true]
  constructor
  · intro h j h1 h2; exact h j h1 (by omega)
  · intro h j h1 h2; exact h j h1 (by omega)

/-! ## (a) the hash is a function of the last `w` bytes -/

/-- the state produced by `init` + `reset` holds the first `w` initial bytes -/
theorem reset_holds (w : Nat) (hw1 : 1 ≤ w) (hw48 : w ≤ 48) (st0 : RhState) (hst0 : st0.history.length = 48)
    (initBytes : Buf) (hinit : w ≤ initBytes.size) :
    (init st0 w).1 = 0 ∧ Inv w (initBytes.toList.take w) (reset (init st0 w).2 initBytes) := by
  rw [init_ok hw1 hw48]
  exact ⟨rfl, reset_inv hw48 rfl hst0 hinit⟩

/-- **C09, hash.**  After `init w`, `reset` with `w` bytes and any sequence of valid `run` calls,
the state's hash is `H` of the last `w` bytes of `initial ++ consumed`, and `history[0..w)` is that
window in stream order. -/
theorem C09_hash (scan : ScanFn) (hscan : ScanRefinesBase scan) (w : Nat) (hw1 : 1 ≤ w) (hw48 : w ≤ 48)
    (st0 : RhState) (hst0 : st0.history.length = 48) (initBytes : Buf) (hinit : w ≤ initBytes.size)
    (calls : List Call) (hcalls : ∀ c ∈ calls, c.Valid) :
    (runCalls scan (reset (init st0 w).2 initBytes) calls).1.hash =
        H (lastN w (initBytes.toList.take w ++ (runCalls scan (reset (init st0 w).2 initBytes) calls).2)) ∧
    (runCalls scan (reset (init st0 w).2 initBytes) calls).1.history.take w =
        lastN w (initBytes.toList.take w ++ (runCalls scan (reset (init st0 w).2 initBytes) calls).2) ∧
    (runCalls scan (reset (init st0 w).2 initBytes) calls).1.w = w := by
  have inv0 := (reset_holds w hw1 hw48 st0 hst0 initBytes hinit).2
  have inv := runCalls_inv hscan hw1 hw48 calls _ _ inv0 hcalls
  exact ⟨inv.hash, inv.hist, inv.w_eq⟩

/-- `init` accepts exactly the documented windows `1 ≤ w ≤ 48` and does not touch the state otherwise -/
theorem init_rc (st : RhState) (w : Nat) :
    (init st w).1 = (if 1 ≤ w ∧ w ≤ 48 then 0 else -1) ∧ (¬ (1 ≤ w ∧ w ≤ 48) → (init st w).2 = st) := by
  by_cases h : 1 ≤ w ∧ w ≤ 48
  · exact ⟨by simp [init_ok h.1 h.2, h], fun h' => absurd h h'⟩
  · have h' : w < 1 ∨ 48 < w := by omega
    simp [init_bad h', h]

/-! ## (c) boundaries do not depend on how the stream is cut -/

/-- **C09, boundaries.**  Scanning `stream` from the reset state with successive `run` calls of
arbitrary sizes `lens` (0 and sizes below `w` included; each clipped to what is left) reports HIT
at exactly the specification's boundaries of the part of the stream that was consumed. -/
theorem C09_boundaries (scan : ScanFn) (hscan : ScanRefinesBase scan) (w : Nat) (hw1 : 1 ≤ w)
    (hw48 : w ≤ 48) (st0 : RhState) (hst0 : st0.history.length = 48) (initBytes : Buf)
    (hinit : w ≤ initBytes.size) (stream : Buf) (hsz : stream.size < 2 ^ 32) (mask trigger : UInt32)
    (lens : List Nat) :
    (scanStream scan stream mask trigger (reset (init st0 w).2 initBytes) 0 lens).1 =
      boundaries w mask trigger (initBytes.toList.take w)
        (stream.toList.take (scanStream scan stream mask trigger (reset (init st0 w).2 initBytes) 0 lens).2.1) ∧
    (scanStream scan stream mask trigger (reset (init st0 w).2 initBytes) 0 lens).2.1 ≤ stream.size := by
  have inv0 := (reset_holds w hw1 hw48 st0 hst0 initBytes hinit).2
  have hpre : (initBytes.toList.take w).length = w := inv0.win_length hw48
  have inv0' : Inv w (lastN w (initBytes.toList.take w ++ stream.toList.take 0))
      (reset (init st0 w).2 initBytes) := by
    have : lastN w (initBytes.toList.take w ++ stream.toList.take 0) = initBytes.toList.take w := by
      rw [List.take_zero, List.append_nil]; unfold lastN; rw [hpre, Nat.sub_self, List.drop_zero]
    rw [this]; exact inv0
  obtain ⟨_, h2, _, h4⟩ := scanStream_spec hscan hw1 hw48 stream hsz mask trigger _ hpre lens _ 0
    (Nat.zero_le _) inv0'
  refine ⟨?_, h2⟩
  rw [← filter_range_eq_boundaries_take _ _ _ _ _ _ (by simpa using h2), ← h4]
  simp

/-- **C09, split.**  Two ways of cutting the same stream into `run` calls (different `max_len`
sequences, possibly different scan implementations) that both consume the whole stream report the
same boundaries: those of the specification. -/
theorem C09_split (scan₁ scan₂ : ScanFn) (h₁ : ScanRefinesBase scan₁) (h₂ : ScanRefinesBase scan₂)
    (w : Nat) (hw1 : 1 ≤ w) (hw48 : w ≤ 48) (st0 : RhState) (hst0 : st0.history.length = 48)
    (initBytes : Buf) (hinit : w ≤ initBytes.size) (stream : Buf) (hsz : stream.size < 2 ^ 32)
    (mask trigger : UInt32) (lens₁ lens₂ : List Nat)
    (hall₁ : (scanStream scan₁ stream mask trigger (reset (init st0 w).2 initBytes) 0 lens₁).2.1 = stream.size)
    (hall₂ : (scanStream scan₂ stream mask trigger (reset (init st0 w).2 initBytes) 0 lens₂).2.1 = stream.size) :
    (scanStream scan₁ stream mask trigger (reset (init st0 w).2 initBytes) 0 lens₁).1 =
      boundaries w mask trigger (initBytes.toList.take w) stream.toList ∧
    (scanStream scan₂ stream mask trigger (reset (init st0 w).2 initBytes) 0 lens₂).1 =
      (scanStream scan₁ stream mask trigger (reset (init st0 w).2 initBytes) 0 lens₁).1 := by
  have b₁ := (C09_boundaries scan₁ h₁ w hw1 hw48 st0 hst0 initBytes hinit stream hsz mask trigger lens₁).1
  have b₂ := (C09_boundaries scan₂ h₂ w hw1 hw48 st0 hst0 initBytes hinit stream hsz mask trigger lens₂).1
  have hfull : stream.toList.take stream.size = stream.toList := by
    rw [← Array.length_toList]; exact List.take_length
  rw [hall₁, hfull] at b₁
  rw [hall₂, hfull] at b₂
  exact ⟨b₁, by rw [b₂, b₁]⟩

/-- the hypothesis "consumes the whole stream" of `C09_split` is met by every sequence that makes
progress: e.g. `|stream|` or more calls that are each offered at least one byte -/
theorem C09_split_progress (scan : ScanFn) (hscan : ScanRefinesBase scan) (w : Nat) (hw1 : 1 ≤ w)
    (hw48 : w ≤ 48) (st0 : RhState) (hst0 : st0.history.length = 48) (initBytes : Buf)
    (hinit : w ≤ initBytes.size) (stream : Buf) (hsz : stream.size < 2 ^ 32) (mask trigger : UInt32)
    (lens : List Nat) (hpos : ∀ m ∈ lens, 1 ≤ m) (hmany : stream.size ≤ lens.length) :
    (scanStream scan stream mask trigger (reset (init st0 w).2 initBytes) 0 lens).2.1 = stream.size := by
  have inv0 := (reset_holds w hw1 hw48 st0 hst0 initBytes hinit).2
  have hpre : (initBytes.toList.take w).length = w := inv0.win_length hw48
  have inv0' : Inv w (lastN w (initBytes.toList.take w ++ stream.toList.take 0))
      (reset (init st0 w).2 initBytes) := by
    have : lastN w (initBytes.toList.take w ++ stream.toList.take 0) = initBytes.toList.take w := by
      rw [List.take_zero, List.append_nil]; unfold lastN; rw [hpre, Nat.sub_self, List.drop_zero]
    rw [this]; exact inv0
  have hle := (C09_boundaries scan hscan w hw1 hw48 st0 hst0 initBytes hinit stream hsz mask trigger lens).2
  have hge := scanStream_progress hscan hw1 hw48 stream hsz mask trigger _ hpre lens _ 0
    (Nat.zero_le _) inv0' hpos
  omega

/-! ## (d) `mask_gen` -/

/-- **C09, mask_gen.**  For `mean < 2^32` and `shift < 32` (C leaves `shift = 0` and `mean ≥ 2^31`
formally undefined: `x >> 32`, resp. `INT_MIN - 1`; the model follows what x86 compilers produce)
the mask is `2^⌊log2 (max mean 2)⌋ - 1` rotated left by `shift` in 32 bits. -/
theorem C09_mask_gen (mean shift : Nat) (hm : mean < 2 ^ 32) (hs : shift < 32) :
    (maskGen mean shift).toBitVec =
      (BitVec.ofNat 32 (2 ^ (max mean 2).log2 - 1)).rotateLeft shift :=
  maskGen_spec mean shift hm hs

/-! ## the base scan is an admissible scan; non-vacuity -/

theorem base_refines : ScanRefinesBase runUntilBase := scanRefinesBase_base

/-- a concrete reset state: window 2, initial bytes 7 7 -/
def exSt : RhState := reset (init {} 2).2 #[7, 7]

-- the hypotheses of `C09_run` are satisfiable, and its conclusion is the concrete expected answer:
-- window [7,7], data 0 1 2, mask 3, trigger 2: position 2 is the first hit
example : (run runUntilBase exSt #[0, 1, 2] 3 3 2).ret = ISAL_FINGERPRINT_RET_HIT ∧
    (run runUntilBase exSt #[0, 1, 2] 3 3 2).offset = 2 := by
  have inv : Inv 2 [7, 7] exSt :=
    (reset_holds 2 (by decide) (by decide) {} (by decide) #[7, 7] (by decide)).2
  have h := (C09_run runUntilBase base_refines 2 (by decide) (by decide) [7, 7] exSt inv
    #[0, 1, 2] 3 (Nat.le_refl _) (by omega) 3 2).1
  have hf : firstHit 2 3 2 [7, 7] (#[0, 1, 2].toList.take 3) = some 2 := by decide +kernel
  exact h 2 hf

-- the same by plain evaluation of the model (the two agree, as they must)
example : (run runUntilBase exSt #[0, 1, 2] 3 3 2).offset = 2 := by decide +kernel
-- no hit: MAX and the whole buffer consumed
example : (run runUntilBase exSt #[0, 1, 2] 3 3 3).ret = ISAL_FINGERPRINT_RET_MAX ∧
    (run runUntilBase exSt #[0, 1, 2] 3 3 3).offset = 3 := by decide +kernel
-- max_len = 0 and max_len < w
example : (run runUntilBase exSt #[0, 1, 2] 0 3 2).offset = 0 := by decide +kernel
example : (run runUntilBase exSt #[0, 1, 2] 1 3 1).offset = 1 ∧
    (run runUntilBase exSt #[0, 1, 2] 1 3 1).ret = ISAL_FINGERPRINT_RET_HIT := by decide +kernel
-- `C09_hash`: hash and history after two calls
example : (runCalls runUntilBase exSt [⟨#[0, 1, 2], 3, 3, 3⟩, ⟨#[9], 1, 0xff, 1⟩]).1.hash = H [2, 9] ∧
    (runCalls runUntilBase exSt [⟨#[0, 1, 2], 3, 3, 3⟩, ⟨#[9], 1, 0xff, 1⟩]).1.history.take 2 = [2, 9] := by
  decide +kernel
-- `C09_split`: two different cuts of a 12-byte stream, both complete, same three boundaries
example : (scanStream runUntilBase #[0, 1, 2, 3, 4, 5, 6, 7, 8, 9, 10, 11] 3 2 exSt 0 [5, 0, 1, 20, 20]).1 = [2, 6, 11] ∧
    (scanStream runUntilBase #[0, 1, 2, 3, 4, 5, 6, 7, 8, 9, 10, 11] 3 2 exSt 0 [1, 1, 1, 1, 1, 1, 1, 1, 1, 1, 1, 1]).1 = [2, 6, 11] ∧
    boundaries 2 3 2 [7, 7] [0, 1, 2, 3, 4, 5, 6, 7, 8, 9, 10, 11] = [2, 6, 11] := by decide +kernel
-- `C09_mask_gen`: mean 1000 → 9 bits, rotated by 3
example : maskGen 1000 3 = 0xff8 := by decide +kernel
example : maskGen 0 1 = 2 ∧ maskGen 2 1 = 2 ∧ maskGen 3 1 = 2 ∧ maskGen 4 1 = 6 := by decide +kernel

/-! ## documentation: the base scan before commit 4824648 (defect F4)

Not part of the model of the current tree.  The old `_rolling_hash2_run_until_base` read
`int i = *idx; for (; i < max_idx; i++)` with `int max_idx`: a length `≥ 2^31` arrived negative and
the loop body never ran. -/

/-- conversion `uint32_t → int` (two's complement) -/
def toInt32 (n : Nat) : Int :=
  let m : Nat := n % 2 ^ 32
  if m < 2 ^ 31 then (m : Int) else (m : Int) - 2 ^ 32

/-- the old loop: `int i`, `int max_idx` -/
def untilLoopInt (hit : UInt64 → Bool) (maxIdx : Int) (t1 t2 : UInt8 → UInt64) (b1 b2 : Ptr)
    (i : Int) (h : UInt64) : Int × UInt64 :=
  if i < maxIdx then
    let h := rol1 h
    let h := h ^^^ (t1 (b1.rd i) ^^^ t2 (b2.rd i))
    if hit h then (i, h) else untilLoopInt hit maxIdx t1 t2 b1 b2 (i + 1) h
  else (i, h)
termination_by (maxIdx - i).toNat
decreasing_by omega

/-- the old `_rolling_hash2_run_until_base` -/
def runUntilBaseOld : ScanFn := fun idx maxIdx t1 t2 b1 b2 h mask trigger =>
  let r :=
    if trigger == 0 then untilLoopInt (fun h => (h &&& mask) == 0) (toInt32 maxIdx) t1 t2 b1 b2 (toInt32 idx) h
    else untilLoopInt (fun h => (h &&& mask) == trigger) (toInt32 maxIdx) t1 t2 b1 b2 (toInt32 idx) h
  (r.1.toNat % 2 ^ 32, r.2)

/-- **F4 (fixed).**  With the old scan and `max_len = 2^31` the call returned MAX having consumed
only the `w` bytes of the first loop; the current scan consumes all the caller offers (here the 64
bytes that exist, to keep the example small: `max_len` 64 gives offset 64). -/
theorem F4_old_code_witness :
    (run runUntilBaseOld exSt (Array.replicate 64 0) (2 ^ 31) 0xffffffff 1).ret = ISAL_FINGERPRINT_RET_MAX ∧
    (run runUntilBaseOld exSt (Array.replicate 64 0) (2 ^ 31) 0xffffffff 1).offset = 2 ∧
    (run runUntilBase exSt (Array.replicate 64 0) 64 0xffffffff 1).offset = 64 ∧
    (run runUntilBaseOld exSt (Array.replicate 64 0) 64 0xffffffff 1).offset = 64 := by
  decide +kernel

end IsalVerif.Props.C09
