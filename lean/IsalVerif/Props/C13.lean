/-
  IsalVerif/Props/C13.lean - property C13: "the FIPS build fails closed".

  Generic part: for ANY translated table `es` of entry points whose per-run obligations hold
  (`Obl.failing… es = []`, discharged by `decide` in GenProps/Wrappers.lean for the table of the
  current tree), the semantic statements of C13 hold for every environment.  The environment is
  universally quantified: which pointers are NULL, all scalar values, the self-test status
  {not run, passed, failed}, the verdict of the tests, the relation between the two XTS keys.

  Model of the self tests: `Stmt.selfTestGate` stands for `if (isal_self_tests()) return …;`.
  With status `notRun` the call executes the tests (effect `selfTests`) and lets the entry point
  proceed iff they pass (`Env.gatePasses`).  That `isal_self_tests` itself behaves like this under
  any interleaving is property C17.
-/
import IsalVerif.Impl.WrapperCheck

namespace IsalVerif.Props.C13
open IsalVerif.Wrapper IsalVerif.Wrapper.Obl IsalVerif.ApiDomain

/-- C13, approved algorithms: if the self tests have failed - or fail when this very call runs
    them - the entry point returns a non-zero code and makes no call and no store; with otherwise
    valid arguments (no argument guard fires, XTS keys differ) the code is ERR_SELF_TEST; with the
    status FAILED the only effects are the loads of the XTS key comparison, and there is no effect
    whatsoever for the entry points without one. -/
theorem approved_fail_closed (es : List Entry) (hg : failingGate es = []) :
    ∀ p ∈ joined es, p.2.cls = .approved → ∀ env : Env, env.gatePasses = false →
      (p.1.run env).ret ≠ 0 ∧ (p.1.run env).work = [] ∧
      (preGateQuiet env p.1.body = true → (p.1.run env).ret = ERR_SELF_TEST) ∧
      (env.selfTest = .failed →
        (p.1.run env).effects.all Effect.isRead = true ∧
        (noMemcmp p.1.body = true → (p.1.run env).effects = [])) := by
  intro p hp hc env hs
  have hw : wellGated p.1.body = true := by
    have := failing_nil hg p hp
    simpa [hc] using this
  have h1 := wellGated_sound hw env hs
  exact ⟨h1.1, h1.2, wellGated_selfTest hw env hs, wellGated_failed hw env⟩

/-- C13, approved algorithms: no cryptographic work before the self tests have run - when the
    status is NOT RUN every call / store of the entry point is preceded, in program order, by the
    execution of the self tests (and by `approved_fail_closed` happens only if they pass). -/
theorem approved_tests_first (es : List Entry) (hg : failingGate es = []) :
    ∀ p ∈ joined es, p.2.cls = .approved → ∀ env : Env, env.selfTest = .notRun →
      ∀ pre e post, (p.1.run env).effects = pre ++ e :: post → e.isWork = true →
        Effect.selfTests ∈ pre := by
  intro p hp hc env hs
  have hw : wellGated p.1.body = true := by
    have := failing_nil hg p hp
    simpa [hc] using this
  exact wellGated_testsFirst hw env hs

/-- C13, non-approved algorithms: ERR_FIPS_INVALID_ALGO and no effect, for all arguments and
    every self-test status. -/
theorem nonApproved_refused (es : List Entry) (hn : failingNonApproved es = []) :
    ∀ p ∈ joined es, p.2.cls = .nonApproved → ∀ env : Env,
      p.1.run env = ⟨ERR_FIPS_INVALID_ALGO, []⟩ := by
  intro p hp hc env
  have hw : nonApproved p.1.body = true := by
    have := failing_nil hn p hp
    simpa [hc] using this
  exact nonApproved_sound hw env

/-- C13, XTS: called with a data key identical to the tweak key - each in the form this entry
    point receives it (`Env.sameKey`) - and otherwise valid arguments, the entry point returns
    ERR_XTS_SAME_KEYS and makes no call and no store, whatever the self-test status. -/
theorem xts_same_key_refused (es : List Entry) (hx : failingXts es = []) :
    ∀ p ∈ joined es, ∀ keys, p.2.xtsKeys = some keys → ∀ env : Env, env.sameKey keys →
      argsQuiet env p.1.body = true →
      (p.1.run env).ret = ERR_XTS_SAME_KEYS ∧ (p.1.run env).work = [] := by
  intro p hp keys hk env hs hq
  have hw : xtsSameKey keys p.1.body = true := by
    have := failing_nil hx p hp
    simpa [hk] using this
  exact xtsSameKey_sound hw env hs hq

/-- Coverage: when the table has the shape of the specification, the joined list ranges over all
    72 documented entry points and over all generated ones. -/
theorem joined_covers (es : List Entry) (hs : shapeMismatch es = []) :
    (joined es).map (·.1) = es ∧ (joined es).map (·.2) = api ∧
    ∀ p ∈ joined es, p.1.name = p.2.name ∧ p.1.params.map (·.name) = p.2.params := by
  simp only [shapeMismatch, List.append_eq_nil_iff] at hs
  have hlen : es.length = api.length := by
    by_cases h : es.length = api.length
    · exact h
    · simp [h] at hs
  refine ⟨?_, ?_, ?_⟩
  · simp [joined, List.map_fst_zip, hlen]
  · simp [joined, List.map_snd_zip, hlen]
  · intro p hp
    have := failing_nil hs.2 p hp
    simpa using this

/-- The 72 documented entry points split into 50 approved, 19 non-approved and 3 service ones. -/
theorem api_census :
    api.length = 72 ∧ (api.filter fun s => s.cls == .approved).length = 50 ∧
    (api.filter fun s => s.cls == .nonApproved).length = 19 ∧
    (api.filter fun s => s.cls == .service).map (·.name) =
      ["isal_self_tests", "isal_crypto_get_version_str", "isal_crypto_get_version"] ∧
    (api.filter fun s => s.xtsKeys.isSome).length = 8 := by decide

/-! ### Non-vacuity -/

/-- A gated wrapper (shape of `isal_aes_gcm_enc_128_update`) and the shape of defect D1. -/
def gatedExample : List Stmt :=
  [.ifRet (.isNull 0) ERR_NULL_EXP_KEY, .selfTestGate ERR_SELF_TEST, .call 0 [.param 0], .retConst 0]
def ungatedExample : List Stmt :=
  [.ifRet (.isNull 0) ERR_NULL_EXP_KEY, .call 0 [.param 0], .retConst 0]

def failedEnv : Env := { isNull := fun _ => false, scalar := fun _ => 0, selfTest := .failed }

example : wellGated gatedExample = true := by decide
example : run gatedExample failedEnv = ⟨ERR_SELF_TEST, []⟩ := by decide
example : wellGated ungatedExample = false := by decide
/-- D1: without the gate the entry point works although the self tests have failed. -/
example : run ungatedExample failedEnv = ⟨0, [.call 0 [.param 0]]⟩ := by decide
example : failedEnv.gatePasses = false ∧ preGateQuiet failedEnv gatedExample = true := by decide

/-- XTS forms: raw keys, encryption schedules, and the expanded-key DECRYPT form. -/
def xtsDec128Keys : (Nat × KeyForm) × (Nat × KeyForm) := ((0, .encSched 10), (1, .decSched 10))
/-- Defect F6: comparing the whole decryption schedule with the encryption schedule. -/
example : xtsSameKey xtsDec128Keys [.memcmpGuard 1 0 0 0 176 [] ERR_XTS_SAME_KEYS] = false := by decide
/-- A comparison that is right for this form: last block of the decryption schedule (the key
    itself) against the first block of the encryption schedule. -/
example : xtsSameKey xtsDec128Keys [.memcmpGuard 1 160 0 0 16 [] ERR_XTS_SAME_KEYS] = true := by decide
example : xtsSameKey ((0, .raw 2), (1, .raw 2)) [.memcmpGuard 1 0 0 0 32 [] ERR_XTS_SAME_KEYS] = true := by
  decide
example : xtsSameKey ((0, .encSched 14), (1, .encSched 14))
    [.memcmpGuard 1 0 0 0 240 [] ERR_XTS_SAME_KEYS] = true := by decide
/-- `Env.sameKey` is satisfiable. -/
example : ({ isNull := fun _ => false, scalar := fun _ => 16,
             memEq := fun _ _ _ _ _ => true } : Env).sameKey xtsDec128Keys := by
  intro a b fa fb oa ob n _ _ _; rfl

end IsalVerif.Props.C13
