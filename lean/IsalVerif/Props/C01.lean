import IsalVerif.Lemmas.PadSpec
import IsalVerif.Spec.Sha1
import IsalVerif.Spec.Sha256
import IsalVerif.Spec.Sha512
import IsalVerif.Spec.Md5
import IsalVerif.Spec.Sm3
/-!
# C01 — multi-buffer digests equal the standard hash for every submission history

Property theorems only; helper lemmas live in `Lemmas/`.  The model is `Impl/HashMB.lean`
(executable: the same definitions run in `isal_model` and are compared with the 28 real
(algorithm, family) managers on every check run).  Everything is generic in the compression
function, the number of lanes `P.nl ≥ 1` and the single-buffer threshold `P.sb`.

`run P A (world0 P g) ops = some w` : the history `ops` of submit/flush calls — any contexts, any
flags (rejected calls included), any segment lengths, any interleaving — was executed from a
freshly initialised manager whose contexts hold arbitrary digest words `g`, ending in world `w`.
`w.sp c = some (b, closed)`: the bytes accepted for context `c` since its last FIRST are `b`
(`specSubmit`: FIRST/ENTIRE starts a new stream, UPDATE/LAST append), `closed` iff LAST was given.
-/
namespace IsalVerif.HashMB
variable {D : Type}

/-- the Merkle–Damgård state of message `b`: fold the compression function over the padded message -/
def mdState (A : Alg D) (b : Bytes) : D :=
  (chunks A.B (b ++ mdPad A.B A.L A.lenBE b.length)).foldl A.f A.init

/-- **C01.** After any history, a context that is not in flight and whose stream is closed holds
    exactly the standard digest state of the concatenation of its segments since FIRST; a context
    that is idle mid-stream holds the state after the whole blocks and the unhashed tail. The
    status flag tells which. -/
theorem C01 (P : Params) (hP : 0 < P.nl) (A : Alg D) (hA : AlgOk A) (g : Cid → D) (ops : List Op)
    (w : World D) (hrun : run P A (world0 P g) ops = some w)
    (c : Cid) (b : Bytes) (closed : Bool) (hsp : w.sp c = some (b, closed))
    (hidle : (w.m.ctxs c).processing = false) (hlen : b.length < 2^61) :
    (w.m.ctxs c).complete = closed ∧
    (closed = true → (w.m.ctxs c).dig = A.fin (mdState A b)) ∧
    (closed = false → (⟨(w.m.ctxs c).dig, (w.m.ctxs c).part⟩ : S UInt8 D) = absorb A.B A.f ⟨A.init, []⟩ b) := by
  have hB : 0 < A.B := by rcases hA with ⟨h, _⟩ | ⟨h, _⟩ <;> omega
  have hg := run_good P A hB ops _ w hrun (world0_good P hP A hB g)
  obtain ⟨h1, _, h3⟩ := good_idle A w hg c hidle b closed hsp
  refine ⟨h1, fun hc => ?_, fun hc => ?_⟩
  · subst hc; simp only [if_true] at h3; rw [h3]; exact target_closed A hA b hlen
  · subst hc; simpa using h3

/-- reuse: FIRST (or ENTIRE) starts a new stream whatever the context held before -/
theorem C01_reuse (sp : SpecCtx) (data : Bytes) (flags : Nat) (h : flags % 2 = 1) :
    specSubmit sp data flags = some (data, decide (flags / 2 % 2 = 1)) := by
  simp [specSubmit, h]

/-- UPDATE/LAST append to the open stream -/
theorem C01_append (b : Bytes) (cl : Bool) (data : Bytes) (flags : Nat) (h : flags % 2 = 0) :
    specSubmit (some (b, cl)) data flags = some (b ++ data, decide (flags / 2 % 2 = 1)) := by
  simp [specSubmit, h]

/-- Any segmentation of a stream into absorb calls gives the state of one call on the concatenation
    (empty, sub-block and unaligned segments are not special cases). -/
theorem C01_segmentation (A : Alg D) (hB : 0 < A.B) (s : S UInt8 D) (hs : s.part.length < A.B)
    (segs : List Bytes) : segs.foldl (absorb A.B A.f) s = absorb A.B A.f s segs.flatten :=
  absorb_segments A.B hB A.f s hs segs

/-- the five instances: `mdState` is the standard's state, so `out` of it is the standard digest -/
theorem C01_is_standard (h : HashAlg) (b : Bytes) :
    h.out (mdState (ofSpec h id) b) = h.hash b := rfl

theorem C01_params_ok :
    AlgOk (ofSpec Sha1.alg id) ∧ AlgOk (ofSpec Sha256.alg id) ∧ AlgOk (ofSpec Sha512.alg id) ∧
    AlgOk (ofSpec Md5.alg id) ∧ AlgOk (ofSpec Sm3.alg id) := by
  refine ⟨?_, ?_, ?_, ?_, ?_⟩ <;> simp [AlgOk, ofSpec, Sha1.alg, Sha256.alg, Sha512.alg, Md5.alg, Sm3.alg]

/-- non-vacuity: a concrete two-segment history on a 2-lane manager reaches a closed, idle context -/
example : ∃ w, run ⟨2, 1⟩ (ofSpec Sha256.alg id) (world0 ⟨2, 1⟩ (fun _ => Sha256.init))
      [.submit 0 [1, 2, 3] 1, .submit 0 [4] 2, .flush] = some w ∧
      w.sp 0 = some ([1, 2, 3, 4], true) ∧ (w.m.ctxs 0).processing = false := by
  refine ⟨_, rfl, ?_, ?_⟩ <;> decide

end IsalVerif.HashMB
