import IsalVerif.Lemmas.Resubmit
import IsalVerif.Lemmas.Pad
/-!
# C01 — multi-buffer digests equal the standard hash for every submission history

Property theorems only; helper lemmas live in `Lemmas/`.  The model is `Impl/HashMB.lean`
(executable: the same definitions run in `isal_model` and are compared with the 28 real
(algorithm, family) managers on every check run).
-/
namespace IsalVerif.HashMB
variable {D : Type}

/-- Any segmentation of a stream into absorb calls gives the state of one call on the concatenation
    (empty, sub-block and unaligned segments are not special cases). -/
theorem C01_segmentation (A : Alg D) (hB : 0 < A.B) (s : S UInt8 D) (hs : s.part.length < A.B)
    (segs : List Bytes) : segs.foldl (absorb A.B A.f) s = absorb A.B A.f s segs.flatten :=
  absorb_segments A.B hB A.f s hs segs

/-- The resubmit loop of the context layer — whichever contexts come back from the lanes, in
    whatever order, for any lane occupancy — never changes the value any context will settle to,
    keeps the lane bookkeeping consistent, and only hands back contexts that are out of every lane
    and no longer PROCESSING. (Partial: the end-to-end statement over whole histories is C01 below.) -/
theorem C01_resubmit_partial (A : Alg D) (hB : 0 < A.B) (fuel : Nat) (m : M D) (r : Option Cid)
    (hok : MgrOk m) (hs : ∀ j, Shape A.B (m.ctxs j))
    (hr : ∀ c, r = some c → (m.ctxs c).lane = none ∧ (m.ctxs c).processing = true) :
    ResubmitPost A m (resubmit A fuel m r).1 (resubmit A fuel m r).2 :=
  resubmit_post A hB fuel m r hok hs hr

/-- `hash_pad` ends the padded tail on a block boundary after one or two blocks (64-byte block) -/
theorem C01_padEnd64 (total : Nat) (h : total < 2^64 - 64) :
    let e := padEnd 64 8 total
    (e = 64 ∨ e = 128) ∧ (e = 64 ↔ total % 64 + 1 + 8 ≤ 64) ∧ (total - total % 64 + e) % 64 = 0 :=
  padEnd64 total h

theorem C01_padEnd128 (total : Nat) (h : total < 2^64 - 128) :
    let e := padEnd 128 16 total
    (e = 128 ∨ e = 256) ∧ (e = 128 ↔ total % 128 + 1 + 16 ≤ 128) ∧ (total - total % 128 + e) % 128 = 0 :=
  padEnd128 total h

end IsalVerif.HashMB
