import IsalVerif.Lemmas.MurProofs
import IsalVerif.Props.C05
/-! # C10 — the stitched mh_sha1 + murmur3 function computes both hashes of the whole stream

    "For any stream shorter than 2^32 bytes, any cutting into update calls and any 64-bit seed, the
    stitched function returns an mh_sha1 digest equal to that of the stand-alone multi-hash SHA-1 of the
    stream and a 128-bit value equal to MurmurHash3_x64_128 of the whole stream with both state words
    initialised to the seed."

    * the definitions: `MultiHash.mhSha1` (`Spec/MultiHash.lean`) and `Murmur3.murmur3_x64_128`
      (`Spec/Murmur3.lean`, the reference algorithm with `h1 = h2 = seed`);
    * the code: `Mh.murInit/murUpdate/murFinalize` (`Impl/MhStream.lean`), the statement-by-statement model
      of `mh_sha1_murmur3_x64_128.c`, `…_update_base.c`, `…_finalize_base.c`, `murmur3_x64_128_internal.c`,
      with the stitched block function specified as "the mh_sha1 blocks, and the same bytes as
      `num_blocks * 1024 / 16` murmur blocks".

    The second component is the murmur state `(h1, h2)`; the 16 bytes the library stores are
    `Murmur3.digestBytes` of it (little-endian `h1` then `h2`), see `C10_bytes`.
    `< 2^32` is needed in finalize, which passes `(uint32_t) total_length` to both tails (the murmur
    finalisation xors the length into the state), and in update as for C05. -/
namespace IsalVerif
open Mh MultiHash

/-- init with `seed`, any cutting into updates, finalize = (mh_sha1, MurmurHash3_x64_128) of the stream. -/
theorem C10 (seed : UInt64) (parts : List Bytes) (h : parts.flatten.length < 2 ^ 32) :
    murFinalize (parts.foldl murUpdate (murInit seed)) =
      (mhSha1 parts.flatten, Murmur3.murmur3_x64_128 seed parts.flatten) :=
  murFinalize_updates seed parts h

/-- The same in terms of what a caller sees: the five `uint32_t` of `mh_sha1_digest` are those of the
    stand-alone `mh_sha1` functions on any other cutting `parts'` of the stream, and the 16 bytes of
    `murmur3_x64_128_digest` are the reference's output bytes. -/
theorem C10_bytes (seed : UInt64) (parts parts' : List Bytes) (he : parts'.flatten = parts.flatten)
    (h : parts.flatten.length < 2 ^ 32) :
    (murFinalize (parts.foldl murUpdate (murInit seed))).1 =
      mhSha1Finalize (parts'.foldl mhSha1Update mhSha1Init) ∧
    Murmur3.digestBytes (murFinalize (parts.foldl murUpdate (murInit seed))).2 =
      Murmur3.digestBytes (Murmur3.murmur3_x64_128 seed parts.flatten) := by
  rw [C10 seed parts h, C05_sha1 parts' (he ▸ h), he]
  exact ⟨rfl, rfl⟩

/-! Non-vacuity: a stream cut in three (one cut empty) with a non-trivial seed. -/
example : murFinalize ([[1, 2, 3], [], [4]].foldl murUpdate (murInit 0xdeadbeefcafe)) =
    (mhSha1 [1, 2, 3, 4], Murmur3.murmur3_x64_128 0xdeadbeefcafe [1, 2, 3, 4]) :=
  C10 0xdeadbeefcafe [[1, 2, 3], [], [4]] (by decide)

end IsalVerif
