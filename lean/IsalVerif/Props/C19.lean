import IsalVerif.Lemmas.X86AbsSound
import IsalVerif.GenProps.X86.All
/-!
# C19 — callee-saved machine state preserved on every exit path

> Every public and CPU-specific entry point returns with the stack pointer, rbx, rbp and r12-r15 exactly
> as on entry, the direction flag clear, and the MXCSR and x87 control words unchanged, on every exit
> path (every length class, early returns, error returns) and writes nothing above its own stack frame.

**What is proved.**  For every function `d` of the model generated from the current build
(`Gen.X86.objects`, 230 objects) and every execution of its abstract instruction records under the
nondeterministic semantics `X86Abs.Step` started at the entry label with ANY register file and memory:

* no `forbidden` record (`std`, `ldmxcsr`, `fldcw`, `fninit`, `fxrstor`, `xrstor`, `emms`, `popf`, any x87
  / MMX instruction …) and no `unsupported` record is ever reached — hence DF (clear on entry by the
  ABI; only `cld` may touch it), MXCSR and the x87 control word are never written;
* every push, call and tracked store writes strictly below the entry stack pointer;
* at every exit (`ret`, tail jump, dispatch stub `jmp [cell]`) `rsp` equals its entry value and every
  register outside the function's clobber summary has its entry value.  For the functions with the
  ABI obligation the summary is the SysV caller-saved set, i.e. rbx, rbp, r12–r15 are restored.

The 16 assembly-internal kernels with a private calling convention carry a *computed* summary
(`Summaries.funcClass = 1`); their callers are checked against exactly that summary.

**Level.** proof over the regenerated model, under the modelling assumptions listed in
`Impl/X86Abs.lean` (A-frame, callee summaries for libc, no wrap-around of stack arithmetic) and the
trusted translator table `tools/x86tab.py`; dynamic correspondence by `harness/drv_abi.c`.
-/
namespace IsalVerif.Props.C19
open IsalVerif.X86Abs IsalVerif.Gen.X86 IsalVerif.GenProps.X86

/-- per-function form of the per-object obligations -/
theorem checked {o : String × List FuncData} (ho : o ∈ objects) {d : FuncData} (hd : d ∈ o.2) :
    checkFn (d.ctx Summaries.tab Summaries.allow) d.prog d.entry = true := by
  have h := all_objects
  rw [List.all_eq_true] at h
  have h2 := h o ho
  unfold checkObj at h2
  rw [List.all_eq_true] at h2
  exact h2 d hd

/-- **C19, general form**: any function of the library, against its clobber summary. -/
theorem c19_summary {o : String × List FuncData} (ho : o ∈ objects) {d : FuncData} (hd : d ∈ o.2)
    {s0 s : St} (h0 : labelIdx d.prog d.entry = some s0.pc)
    (hs : Steps (sumOf Summaries.tab) d.prog s0 s) :
    (∀ i, d.prog[s.pc]? = some i → i ≠ .forbidden ∧ i ≠ .unsupported) ∧
    (∀ i s', d.prog[s.pc]? = some i → Step (sumOf Summaries.tab) d.prog s s' → StoreBelow s0 s i) ∧
    (AtExit d.prog s → s.regs 4 = s0.regs 4 ∧
      ∀ r, r < 16 → r ≠ 4 → bit (sumOf Summaries.tab d.gid) r = false → s.regs r = s0.regs r) := by
  have h := checkFn_sound (checked ho hd) (s0 := s0) (s := s) h0 hs
  exact ⟨h.1, h.2.1, h.2.2.1⟩

/-- functions outside the private-convention class carry the SysV summary -/
theorem abi_mask {g : Nat} (hc : Summaries.funcClass.getD g 1 ≠ 1) : sumOf Summaries.tab g = sysvMask := by
  have h := class_masks
  rw [List.all_eq_true] at h
  by_cases hg : g < Summaries.funcClass.length
  · have := h g (List.mem_range.mpr hg)
    simp only [Bool.or_eq_true, beq_iff_eq] at this
    rcases this with h1 | h2
    · exact absurd h1 hc
    · exact h2
  · exfalso; apply hc
    have : Summaries.funcClass.length ≤ g := by omega
    simp [List.getD, List.getElem?_eq_none this]

/-- **C19**: every function with the ABI obligation (exported, dispatch candidate, called from C, and
every other function that is not one of the 16 private-convention kernels) returns with rsp, rbx, rbp,
r12–r15 as on entry, on every path; reaches no DF/MXCSR/x87-control-word writer; writes nothing at
or above its entry stack pointer through the stack pointer. -/
theorem c19 {o : String × List FuncData} (ho : o ∈ objects) {d : FuncData} (hd : d ∈ o.2)
    (habi : Summaries.funcClass.getD d.gid 1 ≠ 1)
    {s0 s : St} (h0 : labelIdx d.prog d.entry = some s0.pc)
    (hs : Steps (sumOf Summaries.tab) d.prog s0 s) :
    (∀ i, d.prog[s.pc]? = some i → i ≠ .forbidden ∧ i ≠ .unsupported) ∧
    (∀ i s', d.prog[s.pc]? = some i → Step (sumOf Summaries.tab) d.prog s s' → StoreBelow s0 s i) ∧
    (AtExit d.prog s → s.regs 4 = s0.regs 4 ∧ ∀ r ∈ calleeSaved, s.regs r = s0.regs r) := by
  obtain ⟨h1, h2, h3⟩ := c19_summary ho hd h0 hs
  refine ⟨h1, h2, fun hex => ?_⟩
  obtain ⟨hsp, hregs⟩ := h3 hex
  refine ⟨hsp, fun r hr => ?_⟩
  obtain ⟨hlt, hne, hbit⟩ := sysv_callee_saved r hr
  rw [abi_mask habi] at hregs
  exact hregs r hlt hne hbit

/-! ## Non-vacuity: the checker accepts a real prologue/epilogue and rejects a broken one

`push rbx; push r12; sub rsp,40; mov [rsp+8],r13; <body clobbering rax,rbx,r12,r13>; jcc L; call memcpy;
L: mov r13,[rsp+8]; add rsp,40; pop r12; pop rbx; ret` -/

def demoCert (id : Nat) : Option A :=
  match id with
  | 0 => some [(3, initV 3), (4, initV 4), (5, initV 5), (12, initV 12), (13, initV 13), (14, initV 14), (15, initV 15)]
  | 1 => some [(4, 1 + 4 * W32 + (B31 - 56)), (5, initV 5), (14, initV 14), (15, initV 15),
               (15 + (1 + 4 * W32 + (B31 - 8)), initV 3), (15 + (1 + 4 * W32 + (B31 - 16)), initV 12),
               (15 + (1 + 4 * W32 + (B31 - 48)), initV 13)]
  | _ => none

def demoCtx : Ctx := { cert := demoCert, tab := fun _ => sysvMask, mask := sysvMask, frames := [], allow := fun _ => false }

def demoGood : List Instr :=
  [.label 0, .push 3, .push 12, .addRsp (-40), .store 4 8 13, .plain 0x3009 0x80, .jcc 1, .call 0,
   .label 1, .load 13 4 8, .addRsp 40, .pop 12, .pop 3, .ret]

/-- the same code with the restore of r13 deleted -/
def demoBad : List Instr :=
  [.label 0, .push 3, .push 12, .addRsp (-40), .store 4 8 13, .plain 0x3009 0x80, .jcc 1, .call 0,
   .label 1, .addRsp 40, .pop 12, .pop 3, .ret]

/-- a function that realigns the stack (`and rsp,-64`) and restores rsp from a register copy -/
def demoFrame : List Instr :=
  [.label 0, .push 14, .movRR 14 4, .addRsp (-128), .andRsp 0 63, .storeK 4 0 64, .plain 0x7 0,
   .movRR 4 14, .pop 14, .ret]

example : checkFn demoCtx demoGood 0 = true := by decide
example : checkFn demoCtx demoBad 0 = false := by decide
example : checkFn { demoCtx with frames := [(-136, 63)] } demoFrame 0 = true := by decide
/-- a store above the realigned frame's own area (would hit the saved r14) is rejected -/
example : checkFn { demoCtx with frames := [(-136, 63)] }
    [.label 0, .push 14, .movRR 14 4, .addRsp (-128), .andRsp 0 63, .storeK 4 128 16, .movRR 4 14, .pop 14, .ret] 0
    = false := by decide
/-- `std` (forbidden class) is rejected -/
example : checkFn demoCtx [.label 0, .forbidden, .ret] 0 = false := by decide

end IsalVerif.Props.C19
