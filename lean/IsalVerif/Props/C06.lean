import IsalVerif.Props.C01
/-!
# C06 — the manager never loses, duplicates or strands a job; flush drains

All statements are about `step`/`run` of `Lemmas/History.lean` on the executable model
`Impl/HashMB.lean`, for every `Params` (lanes ≥ 1, any single-buffer threshold), every
compression function and every history of valid or rejected calls (`Good` = reachable).
"In flight" = marked PROCESSING between calls = sitting in a lane (`C06_inflight_iff_lane`).
-/
namespace IsalVerif.HashMB
variable {D : Type}

/-- the call is an accepted submit of context `j` -/
def acceptedSubmit (w : World D) (op : Op) (j : Cid) : Prop :=
  ∃ data flags, op = .submit j data flags ∧ rejects (w.m.ctxs j) flags = false

/-- the call is a rejected submit -/
def rejectedOp (w : World D) (op : Op) : Prop :=
  ∃ c data flags, op = .submit c data flags ∧ rejects (w.m.ctxs c) flags = true

structure StepFacts (A : Alg D) (w : World D) (op : Op) (r : World D × Option Cid) : Prop where
  /-- a context handed back by a flush or an accepted submit is out of every lane and not PROCESSING -/
  returned_idle : ¬ rejectedOp w op → ∀ c', r.2 = some c' →
      (r.1.m.ctxs c').processing = false ∧ (r.1.m.ctxs c').lane = none
  /-- …and it was in flight, or is the context just submitted -/
  returned_was : ¬ rejectedOp w op → ∀ c', r.2 = some c' →
      (w.m.ctxs c').processing = true ∨ acceptedSubmit w op c'
  /-- no job is lost or stranded: in flight (or just accepted) and not handed back ⇒ still in flight -/
  keep : ∀ j, ((w.m.ctxs j).processing = true ∨ acceptedSubmit w op j) →
      (r.1.m.ctxs j).processing = true ∨ (r.2 = some j ∧ ¬ rejectedOp w op)
  /-- no job is invented: in flight afterwards ⇒ was in flight or just accepted -/
  no_new : ∀ j, (r.1.m.ctxs j).processing = true → (w.m.ctxs j).processing = true ∨ acceptedSubmit w op j
  /-- a rejected submit hands the context straight back -/
  rejected_back : ∀ c data flags, op = .submit c data flags → rejects (w.m.ctxs c) flags = true → r.2 = some c
  lanes : r.1.m.slots.length = w.m.slots.length

theorem C06_step (P : Params) (A : Alg D) (hB : 0 < A.B) (w : World D) (op : Op)
    (r : World D × Option Cid) (h : step P A w op = some r) (hg : Good A w) : StepFacts A w op r := by
  cases op with
  | submit c data flags =>
    simp only [step] at h
    cases hs : ctxSubmit A w.m c data flags with
    | none => rw [hs] at h; cases h
    | some res =>
      rw [hs] at h; simp only [Option.some.injEq] at h; subst h
      cases hrej : rejects (w.m.ctxs c) flags with
      | true =>
        obtain ⟨e, _, he⟩ := ctxSubmit_rejected A w.m c data flags hrej
        rw [he] at hs; cases hs
        have hrejop : rejectedOp w (.submit c data flags) := ⟨c, data, flags, rfl, hrej⟩
        have hnoacc : ∀ j, ¬ acceptedSubmit w (.submit c data flags) j := by
          rintro j ⟨d, f, he, ha⟩; cases he; rw [hrej] at ha; cases ha
        have hp : ∀ j, ((setCtx w.m c { w.m.ctxs c with error := e }).ctxs j).processing = (w.m.ctxs j).processing := by
          intro j; by_cases hj : j = c
          · subst hj; simp [setCtx]
          · simp [setCtx, hj]
        refine ⟨fun h => absurd hrejop h, fun h => absurd hrejop h, fun j hj => ?_, fun j hj => ?_,
          fun c' d' f' he _ => (by cases he; rfl), rfl⟩
        · left; simp only []; rw [hp j]; exact hj.resolve_right (hnoacc j)
        · left; simp only [] at hj; rwa [hp j] at hj
      | false =>
        have sp := ctxSubmit_accepted A hB w.m c data flags res hrej hs hg.inv w.sp hg.rel
        have hnr : ¬ rejectedOp w (.submit c data flags) := by
          rintro ⟨c', d, f, he, hr⟩; cases he; rw [hrej] at hr; cases hr
        have hacc : acceptedSubmit w (.submit c data flags) c := ⟨data, flags, rfl, hrej⟩
        refine ⟨fun _ c' hc' => ⟨(sp.ret c' hc').2.1, (sp.ret c' hc').1⟩, fun _ c' hc' => ?_, fun j hj => ?_,
          fun j hj => ?_, fun c' d' f' he hr => ?_, sp.slots_len⟩
        · rcases sp.ret_was c' hc' with h | h
          · right; rw [h]; exact hacc
          · left; exact h
        · have : j = c ∨ (w.m.ctxs j).processing = true := by
            rcases hj with h | ⟨d, f, he, _⟩
            · right; exact h
            · left; cases he; rfl
          rcases sp.keep j this with h | h
          · left; exact h
          · right; exact ⟨h, hnr⟩
        · rcases sp.proc j hj with h | h
          · right; rw [h]; exact hacc
          · left; exact h
        · cases he; rw [hrej] at hr; cases hr
  | flush =>
    simp only [step] at h
    cases hs : ctxFlush P A (flushFuel w.m) w.m with
    | none => rw [hs] at h; cases h
    | some res =>
      rw [hs] at h; simp only [Option.some.injEq] at h; subst h
      have fp := ctxFlush_post P A hB w.sp _ w.m res hs hg.inv hg.rel
      have hnr : ¬ rejectedOp w .flush := by rintro ⟨c', d, f, he, _⟩; cases he
      have hnoacc : ∀ j, ¬ acceptedSubmit w .flush j := by rintro j ⟨d, f, he, _⟩; cases he
      refine ⟨fun _ c' hc' => ⟨(fp.ret c' hc').1.2.1, (fp.ret c' hc').1.1⟩, fun _ c' hc' => Or.inl (fp.ret c' hc').2,
        fun j hj => ?_, fun j hj => Or.inl (fp.proc j hj), fun c' d' f' he _ => (by cases he), fp.slots_len⟩
      rcases fp.keep j (hj.resolve_right (hnoacc j)) with h | h
      · left; exact h
      · right; exact ⟨h, hnr⟩

/-- between calls a context is PROCESSING exactly when it sits in a lane, and the number of
    contexts held never exceeds the number of lanes -/
theorem C06_inflight_iff_lane (A : Alg D) (w : World D) (hg : Good A w) :
    (∀ j, (w.m.ctxs j).processing = true ↔ j ∈ occupied w.m) ∧
    (occupied w.m).length ≤ w.m.slots.length ∧ (occupied w.m).Nodup := by
  refine ⟨fun j => ⟨fun h => mem_occupied.mpr (hg.inv.ok.lane_slot j (hg.inv.inflight j h)),
    fun h => (hg.inv.ok.coh j (mem_occupied.mp h)).2⟩, List.length_filterMap_le _ _, ?_⟩
  rw [List.nodup_iff_count]
  intro j
  have := hg.inv.ok.nodup j
  unfold occupied
  rw [List.count_filterMap]
  refine Nat.le_trans (List.countP_mono_left ?_) this
  intro x _ hx
  cases x with
  | none => simp at hx
  | some y => simpa using hx

/-- flush returns no context exactly when the manager holds none -/
theorem C06_flush_none_iff (P : Params) (A : Alg D) (hB : 0 < A.B) (w : World D) (r : World D × Option Cid)
    (h : step P A w .flush = some r) (hg : Good A w) :
    r.2 = none ↔ ∀ j, (w.m.ctxs j).processing = false := by
  simp only [step] at h
  cases hs : ctxFlush P A (flushFuel w.m) w.m with
  | none => rw [hs] at h; cases h
  | some res =>
    rw [hs] at h; simp only [Option.some.injEq] at h; subst h
    have fp := ctxFlush_post P A hB w.sp _ w.m res hs hg.inv hg.rel
    constructor
    · intro hn j
      cases hp : (w.m.ctxs j).processing with
      | false => rfl
      | true =>
        rcases fp.keep j hp with h | h
        · rw [fp.drained hn j] at h; cases h
        · simp only [] at hn; rw [hn] at h; cases h
    · intro hall
      cases hr : res.2 with
      | none => rfl
      | some c' => have := (fp.ret c' hr).2; rw [hall c'] at this; cases this

/-- a context handed back is complete iff its stream was closed by LAST; an idle one accepts
    UPDATE and LAST -/
theorem C06_status (P : Params) (hP : 0 < P.nl) (A : Alg D) (hA : AlgOk A) (g : Cid → D) (ops : List Op)
    (w : World D) (hrun : run P A (world0 P g) ops = some w) (c : Cid) (b : Bytes) (closed : Bool)
    (hsp : w.sp c = some (b, closed)) (hidle : (w.m.ctxs c).processing = false) :
    (w.m.ctxs c).complete = closed ∧
    (closed = false → rejects (w.m.ctxs c) 0 = false ∧ rejects (w.m.ctxs c) 2 = false) := by
  have hB : 0 < A.B := by rcases hA with ⟨h, _⟩ | ⟨h, _⟩ <;> omega
  have hg := run_good P A hB ops _ w hrun (world0_good P hP A hB g)
  obtain ⟨h1, _, _⟩ := good_idle A w hg c hidle b closed hsp
  refine ⟨h1, fun hc => ?_⟩
  subst hc
  simp [rejects, hidle, h1]

end IsalVerif.HashMB
