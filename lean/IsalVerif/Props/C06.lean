import IsalVerif.Props.C01
import IsalVerif.Lemmas.Total
/-!
# C06 — the manager never loses, duplicates or strands a job; flush drains

All statements are about `step`/`run` of `Lemmas/History.lean` on the executable model
`Impl/HashMB.lean`, for every `Params` (lanes ≥ 1, any single-buffer threshold), every
compression function and every history of valid or rejected calls (`Good` = reachable).
"In flight" = marked PROCESSING between calls = sitting in a lane (`C06_inflight_iff_lane`).
-/
namespace IsalVerif.HashMB
variable {D : Type}

/-- the call is an accepted submit of context `j` -/
def acceptedSubmit (w : World D) (op : Op) (j : Cid) : Prop :=
  ∃ data flags, op = .submit j data flags ∧ rejects (w.m.ctxs j) flags = false

/-- the call is a rejected submit -/
def rejectedOp (w : World D) (op : Op) : Prop :=
  ∃ c data flags, op = .submit c data flags ∧ rejects (w.m.ctxs c) flags = true

structure StepFacts (A : Alg D) (w : World D) (op : Op) (r : World D × Option Cid) : Prop where
  /-- a context handed back by a flush or an accepted submit is out of every lane and not PROCESSING -/
  returned_idle : ¬ rejectedOp w op → ∀ c', r.2 = some c' →
      (r.1.m.ctxs c').processing = false ∧ (r.1.m.ctxs c').lane = none
  /-- …and it was in flight, or is the context just submitted -/
  returned_was : ¬ rejectedOp w op → ∀ c', r.2 = some c' →
      (w.m.ctxs c').processing = true ∨ acceptedSubmit w op c'
  /-- no job is lost or stranded: in flight (or just accepted) and not handed back ⇒ still in flight -/
  keep : ∀ j, ((w.m.ctxs j).processing = true ∨ acceptedSubmit w op j) →
      (r.1.m.ctxs j).processing = true ∨ (r.2 = some j ∧ ¬ rejectedOp w op)
  /-- no job is invented: in flight afterwards ⇒ was in flight or just accepted -/
  no_new : ∀ j, (r.1.m.ctxs j).processing = true → (w.m.ctxs j).processing = true ∨ acceptedSubmit w op j
  /-- a rejected submit hands the context straight back -/
  rejected_back : ∀ c data flags, op = .submit c data flags → rejects (w.m.ctxs c) flags = true → r.2 = some c
  lanes : r.1.m.slots.length = w.m.slots.length

theorem C06_step (P : Params) (A : Alg D) (hB : 0 < A.B) (w : World D) (op : Op)
    (r : World D × Option Cid) (h : step P A w op = some r) (hg : Good A w) : StepFacts A w op r := by
  cases op with
  | submit c data flags =>
    simp only [step] at h
    cases hs : ctxSubmit A w.m c data flags with
    | none => rw [hs] at h; cases h
    | some res =>
      rw [hs] at h; simp only [Option.some.injEq] at h; subst h
      cases hrej : rejects (w.m.ctxs c) flags with
      | true =>
        obtain ⟨e, _, he⟩ := ctxSubmit_rejected A w.m c data flags hrej
        rw [he] at hs; cases hs
        have hrejop : rejectedOp w (.submit c data flags) := ⟨c, data, flags, rfl, hrej⟩
        have hnoacc : ∀ j, ¬ acceptedSubmit w (.submit c data flags) j := by
          rintro j ⟨d, f, he, ha⟩; cases he; rw [hrej] at ha; cases ha
        have hp : ∀ j, ((setCtx w.m c { w.m.ctxs c with error := e }).ctxs j).processing = (w.m.ctxs j).processing := by
          intro j; by_cases hj : j = c
          · subst hj; simp [setCtx]
          · simp [setCtx, hj]
        refine ⟨fun h => absurd hrejop h, fun h => absurd hrejop h, fun j hj => ?_, fun j hj => ?_,
          fun c' d' f' he _ => (by cases he; rfl), rfl⟩
        · left; simp only []; rw [hp j]; exact hj.resolve_right (hnoacc j)
        · left; simp only [] at hj; rwa [hp j] at hj
      | false =>
        have sp := ctxSubmit_accepted A hB w.m c data flags res hrej hs hg.inv w.sp hg.rel
        have hnr : ¬ rejectedOp w (.submit c data flags) := by
          rintro ⟨c', d, f, he, hr⟩; cases he; rw [hrej] at hr; cases hr
        have hacc : acceptedSubmit w (.submit c data flags) c := ⟨data, flags, rfl, hrej⟩
        refine ⟨fun _ c' hc' => ⟨(sp.ret c' hc').2.1, (sp.ret c' hc').1⟩, fun _ c' hc' => ?_, fun j hj => ?_,
          fun j hj => ?_, fun c' d' f' he hr => ?_, sp.slots_len⟩
        · rcases sp.ret_was c' hc' with h | h
          · right; rw [h]; exact hacc
          · left; exact h
        · have : j = c ∨ (w.m.ctxs j).processing = true := by
            rcases hj with h | ⟨d, f, he, _⟩
            · right; exact h
            · left; cases he; rfl
          rcases sp.keep j this with h | h
          · left; exact h
          · right; exact ⟨h, hnr⟩
        · rcases sp.proc j hj with h | h
          · right; rw [h]; exact hacc
          · left; exact h
        · cases he; rw [hrej] at hr; cases hr
  | flush =>
    simp only [step] at h
    cases hs : ctxFlush P A (flushFuel w.m) w.m with
    | none => rw [hs] at h; cases h
    | some res =>
      rw [hs] at h; simp only [Option.some.injEq] at h; subst h
      have fp := ctxFlush_post P A hB w.sp _ w.m res hs hg.inv hg.rel
      have hnr : ¬ rejectedOp w .flush := by rintro ⟨c', d, f, he, _⟩; cases he
      have hnoacc : ∀ j, ¬ acceptedSubmit w .flush j := by rintro j ⟨d, f, he, _⟩; cases he
      refine ⟨fun _ c' hc' => ⟨(fp.ret c' hc').1.2.1, (fp.ret c' hc').1.1⟩, fun _ c' hc' => Or.inl (fp.ret c' hc').2,
        fun j hj => ?_, fun j hj => Or.inl (fp.proc j hj), fun c' d' f' he _ => (by cases he), fp.slots_len⟩
      rcases fp.keep j (hj.resolve_right (hnoacc j)) with h | h
      · left; exact h
      · right; exact ⟨h, hnr⟩

/-- between calls a context is PROCESSING exactly when it sits in a lane, and the number of
    contexts held never exceeds the number of lanes -/
theorem C06_inflight_iff_lane (A : Alg D) (w : World D) (hg : Good A w) :
    (∀ j, (w.m.ctxs j).processing = true ↔ j ∈ occupied w.m) ∧
    (occupied w.m).length ≤ w.m.slots.length ∧ (occupied w.m).Nodup := by
  refine ⟨fun j => ⟨fun h => mem_occupied.mpr (hg.inv.ok.lane_slot j (hg.inv.inflight j h)),
    fun h => (hg.inv.ok.coh j (mem_occupied.mp h)).2⟩, List.length_filterMap_le _ _, ?_⟩
  rw [List.nodup_iff_count]
  intro j
  have := hg.inv.ok.nodup j
  unfold occupied
  rw [List.count_filterMap]
  refine Nat.le_trans (List.countP_mono_left ?_) this
  intro x _ hx
  cases x with
  | none => simp at hx
  | some y => simpa using hx

/-- flush returns no context exactly when the manager holds none -/
theorem C06_flush_none_iff (P : Params) (A : Alg D) (hB : 0 < A.B) (w : World D) (r : World D × Option Cid)
    (h : step P A w .flush = some r) (hg : Good A w) :
    r.2 = none ↔ ∀ j, (w.m.ctxs j).processing = false := by
  simp only [step] at h
  cases hs : ctxFlush P A (flushFuel w.m) w.m with
  | none => rw [hs] at h; cases h
  | some res =>
    rw [hs] at h; simp only [Option.some.injEq] at h; subst h
    have fp := ctxFlush_post P A hB w.sp _ w.m res hs hg.inv hg.rel
    constructor
    · intro hn j
      cases hp : (w.m.ctxs j).processing with
      | false => rfl
      | true =>
        rcases fp.keep j hp with h | h
        · rw [fp.drained hn j] at h; cases h
        · simp only [] at hn; rw [hn] at h; cases h
    · intro hall
      cases hr : res.2 with
      | none => rfl
      | some c' => have := (fp.ret c' hr).2; rw [hall c'] at this; cases this

/-- a context handed back is complete iff its stream was closed by LAST; an idle one accepts
    UPDATE and LAST -/
theorem C06_status (P : Params) (hP : 0 < P.nl) (A : Alg D) (hA : AlgOk A) (g : Cid → D) (ops : List Op)
    (w : World D) (hrun : run P A (world0 P g) ops = some w) (c : Cid) (b : Bytes) (closed : Bool)
    (hsp : w.sp c = some (b, closed)) (hidle : (w.m.ctxs c).processing = false) :
    (w.m.ctxs c).complete = closed ∧
    (closed = false → rejects (w.m.ctxs c) 0 = false ∧ rejects (w.m.ctxs c) 2 = false) := by
  have hB : 0 < A.B := by rcases hA with ⟨h, _⟩ | ⟨h, _⟩ <;> omega
  have hg := run_good P A hB ops _ w hrun (world0_good P hP A hB g)
  obtain ⟨h1, _, _⟩ := good_idle A w hg c hidle b closed hsp
  refine ⟨h1, fun hc => ?_⟩
  subst hc
  simp [rejects, hidle, h1]

/-- **no call hangs or is lost in the model**: from the initial state every finite history of valid
    or rejected calls runs to completion — the loop bounds `fuelFor`/`flushFuel` of the model
    (2·lanes+4, 2·lanes+3 iterations) are never reached, i.e. `while (ctx)` / `while (1)` of the
    context layer terminate -/
theorem C06_total (P : Params) (hP : 0 < P.nl) (A : Alg D) (hB : 0 < A.B) (g : Cid → D) (ops : List Op) :
    ∃ w, run P A (world0 P g) ops = some w :=
  run_total P A hB ops _ (world0_good P hP A hB g)

/-- a flush on a reachable state always returns (never out of fuel) -/
theorem C06_flush_total (P : Params) (A : Alg D) (w : World D) (hg : Good A w) :
    ∃ r, step P A w .flush = some r := step_total P A w .flush hg.inv.ok

/-- a flush that hands a context back reduces the number of contexts held by exactly one -/
theorem C06_flush_count (P : Params) (A : Alg D) (hB : 0 < A.B) (w : World D) (r : World D × Option Cid)
    (h : step P A w .flush = some r) (hg : Good A w) (c' : Cid) (hc' : r.2 = some c') :
    (occupied r.1.m).length + 1 = (occupied w.m).length ∧ c' ∈ occupied w.m ∧ c' ∉ occupied r.1.m := by
  have sf := C06_step P A hB w .flush r h hg
  have hg' := step_good P A hB w .flush r h hg
  obtain ⟨hm, _, hnd⟩ := C06_inflight_iff_lane A w hg
  obtain ⟨hm', _, hnd'⟩ := C06_inflight_iff_lane A r.1 hg'
  have hnr : ¬ rejectedOp w .flush := by rintro ⟨c, d, f, he, _⟩; cases he
  have hnoacc : ∀ j, ¬ acceptedSubmit w .flush j := by rintro j ⟨d, f, he, _⟩; cases he
  have hwas : c' ∈ occupied w.m := (hm c').mp ((sf.returned_was hnr c' hc').resolve_right (hnoacc c'))
  have hidle := (sf.returned_idle hnr c' hc').1
  have hnot : c' ∉ occupied r.1.m := fun hin => by have := (hm' c').mpr hin; rw [hidle] at this; cases this
  have hperm : (occupied r.1.m).Perm ((occupied w.m).erase c') := by
    rw [List.perm_ext_iff_of_nodup hnd' (hnd.erase c')]
    intro j
    rw [hnd.mem_erase_iff]
    constructor
    · intro hj
      refine ⟨fun e => hnot (e ▸ hj), (hm j).mp ?_⟩
      exact (sf.no_new j ((hm' j).mpr hj)).resolve_right (hnoacc j)
    · rintro ⟨hne, hj⟩
      rcases sf.keep j (Or.inl ((hm j).mpr hj)) with h1 | ⟨h1, _⟩
      · exact (hm' j).mp h1
      · rw [hc'] at h1; cases h1; exact absurd rfl hne
  have hlen := hperm.length_eq
  rw [List.length_erase_of_mem hwas] at hlen
  have : 0 < (occupied w.m).length := List.length_pos_of_mem hwas
  exact ⟨by omega, hwas, hnot⟩

/-- call flush up to `n` times, stopping at the first call that returns nothing; the contexts
    handed back, in order -/
def drain (P : Params) (A : Alg D) : Nat → World D → Option (World D × List Cid)
  | 0, w => some (w, [])
  | n+1, w =>
    match step P A w .flush with
    | none => none
    | some (w', none) => some (w', [])
    | some (w', some c) => (drain P A n w').map fun r => (r.1, c :: r.2)

/-- **flush always drains**: a reachable manager holding `k` contexts is emptied by `k` flush calls,
    which hand back exactly those `k` contexts, each once; then nothing is in flight and a further
    flush returns nothing -/
theorem C06_drain (P : Params) (A : Alg D) (hB : 0 < A.B) :
    ∀ (k : Nat) (w : World D), Good A w → (occupied w.m).length = k →
      ∃ w' cs, drain P A k w = some (w', cs) ∧ Good A w' ∧ cs.length = k ∧ cs.Nodup ∧
        (∀ j, j ∈ cs ↔ (w.m.ctxs j).processing = true) ∧
        (∀ j, (w'.m.ctxs j).processing = false) ∧
        (∀ r, step P A w' .flush = some r → r.2 = none) := by
  intro k
  induction k with
  | zero =>
    intro w hg hk
    have hocc : occupied w.m = [] := List.eq_nil_of_length_eq_zero hk
    obtain ⟨hm, _, _⟩ := C06_inflight_iff_lane A w hg
    have hidle : ∀ j, (w.m.ctxs j).processing = false := by
      intro j
      cases hp : (w.m.ctxs j).processing with
      | false => rfl
      | true => have := (hm j).mp hp; rw [hocc] at this; cases this
    refine ⟨w, [], rfl, hg, rfl, List.nodup_nil, fun j => ?_, hidle, fun r hr => ?_⟩
    · simp [hidle j]
    · exact (C06_flush_none_iff P A hB w r hr hg).mpr hidle
  | succ k ih =>
    intro w hg hk
    obtain ⟨r, hr⟩ := C06_flush_total P A w hg
    have hg' := step_good P A hB w .flush r hr hg
    obtain ⟨hm, _, _⟩ := C06_inflight_iff_lane A w hg
    cases hr2 : r.2 with
    | none =>
      have hidle := (C06_flush_none_iff P A hB w r hr hg).mp hr2
      have : occupied w.m = [] := by
        cases hocc : occupied w.m with
        | nil => rfl
        | cons j _ =>
          have := (hm j).mpr (by rw [hocc]; exact List.mem_cons_self)
          rw [hidle j] at this; cases this
      rw [this] at hk; cases hk
    | some c' =>
      obtain ⟨hcnt, hwas, hnot⟩ := C06_flush_count P A hB w r hr hg c' hr2
      obtain ⟨w', cs, hd, hgw', hlen, hnd, hmem, hidle, hnone⟩ := ih r.1 hg' (by omega)
      obtain ⟨hm', _, _⟩ := C06_inflight_iff_lane A r.1 hg'
      have sf := C06_step P A hB w .flush r hr hg
      have hnr : ¬ rejectedOp w .flush := by rintro ⟨c, d, f, he, _⟩; cases he
      have hnoacc : ∀ j, ¬ acceptedSubmit w .flush j := by rintro j ⟨d, f, he, _⟩; cases he
      have hc'cs : c' ∉ cs := fun hin => hnot ((hm' c').mp ((hmem c').mp hin))
      refine ⟨w', c' :: cs, ?_, hgw', by simp [hlen], List.nodup_cons.mpr ⟨hc'cs, hnd⟩, fun j => ?_, hidle, hnone⟩
      · have hrr : r = (r.1, some c') := by rw [← hr2]
        simp only [drain]
        rw [hr, hrr]
        simp only [hd, Option.map_some]
      · simp only [List.mem_cons]
        constructor
        · rintro (rfl | hj)
          · exact (hm j).mpr hwas
          · exact (sf.no_new j ((hmem j).mp hj)).resolve_right (hnoacc j)
        · intro hj
          rcases sf.keep j (Or.inl hj) with h1 | ⟨h1, _⟩
          · right; exact (hmem j).mpr h1
          · left; rw [hr2] at h1; cases h1; rfl

end IsalVerif.HashMB
