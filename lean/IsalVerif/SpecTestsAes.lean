import IsalVerif.Spec.Aes
import IsalVerif.Spec.Gcm
import IsalVerif.Spec.Xts
import IsalVerif.Spec.Cbc
import IsalVerif.Spec.Murmur3
/-! Tests of the transcribed standards (FIPS 197, SP 800-38D, IEEE 1619, SP 800-38A, MurmurHash3)
    against published vectors.  These are TESTS of the spec, not theorems: every `#eval` prints one
    `ok <name>` line per check, or `FAIL <name>`.

    Vector sources: FIPS 197 Appendices A-C; `/repo/aes/gcm_vectors.h` (all 11 active vectors);
    `/repo/aes/aes_{128,256}_xts_test.json.h` (a selection of lengths, most not a multiple of 16) and
    IEEE 1619-2007 Annex B vectors 1, 2, 15; OpenSSL 3.5 `EVP_aes_{128,256}_xts` outputs on
    synthetic inputs; `/repo/aes/cbc_std_vectors.h` (all 11); MurmurHash3 values computed by the C
    reference `/repo/mh_sha1_murmur3_x64_128/murmur3_x64_128.c` compiled with gcc.  The data below
    was dumped from those headers by small C programs, not retyped. -/
namespace IsalVerif.SpecTestsAes
open Aes Gf128 Gcm Xts Cbc Murmur3

def report (name : String) (ok : Bool) : IO Unit :=
  IO.println (if ok then s!"ok {name}" else s!"FAIL {name}")

def allBytes : List UInt8 := (List.range 256).map UInt8.ofNat

/-! ## FIPS 197 -/

/-- §5.1.1: the S-box by its definition — multiplicative inverse (`b⁻¹ = b²⁵⁴`, `0 ↦ 0`) followed by the
    affine transformation (5.1)/(5.2) with `c = {63}`. -/
def sboxByDefinition (b : UInt8) : UInt8 :=
  let sq (a : UInt8) := gmul a a
  -- b^254 = b^2 · b^4 · b^8 · b^16 · b^32 · b^64 · b^128
  let b2 := sq b; let b4 := sq b2; let b8 := sq b4; let b16 := sq b8
  let b32 := sq b16; let b64 := sq b32; let b128 := sq b64
  let inv := gmul b2 (gmul b4 (gmul b8 (gmul b16 (gmul b32 (gmul b64 b128)))))
  let rotl (x : UInt8) (n : UInt8) := (x <<< n) ||| (x >>> (8 - n))
  inv ^^^ rotl inv 1 ^^^ rotl inv 2 ^^^ rotl inv 3 ^^^ rotl inv 4 ^^^ 0x63

example : xtime 0x57 = 0xae := by decide
example : gmul 0x57 0x83 = 0xc1 := by decide

#eval do
  report "FIPS197 §4.2 {57}•{83} = {c1}" (gmul 0x57 0x83 == 0xc1)
  report "FIPS197 §4.2.1 xtime chain 57→ae→47→8e→07"
    ([xtime 0x57, xtime 0xae, xtime 0x47, xtime 0x8e] == [0xae, 0x47, 0x8e, 0x07])
  report "FIPS197 §4.2.1 {57}•{13} = {fe}" (gmul 0x57 0x13 == 0xfe)
  report "gmul commutative (all pairs)" (allBytes.all fun a => allBytes.all fun b => gmul a b == gmul b a)
  report "mul02..mul0e = gmul by the constant (all bytes)" (allBytes.all fun a =>
    mul02 a == gmul 0x02 a && mul03 a == gmul 0x03 a && mul09 a == gmul 0x09 a &&
    mul0b a == gmul 0x0b a && mul0d a == gmul 0x0d a && mul0e a == gmul 0x0e a)
  report "S-box table sizes" (sbox.size == 256 && invSbox.size == 256)
  report "S-box table = §5.1.1 definition (all bytes)" (allBytes.all fun a => subByte a == sboxByDefinition a)
  report "FIPS197 §5.1.1 SubBytes({53}) = {ed}" (subByte 0x53 == 0xed)
  report "invSubByte ∘ subByte = id (all bytes)" (allBytes.all fun a => invSubByte (subByte a) == a)
  let s := unhex "000102030405060708090a0b0c0d0e0f"
  report "invShiftRows ∘ shiftRows = id" (invShiftRows (shiftRows s) == s)
  report "shiftRows moves row r left by r" (hexOf (shiftRows s) == "00050a0f04090e03080d02070c01060b")
  report "invMixColumns ∘ mixColumns = id" (invMixColumns (mixColumns s) == s)
  report "FIPS197 §5.1.3 MixColumns example column (App. B round 1)"
    (hexOf (mixColumns (unhex "d4bf5d30")) == "046681e5")

/-- FIPS 197 Appendix A: selected words `w[i]` of the expanded key, as (round key index, hex of the
    whole round key). -/
def keyExpansionSpots : List (String × String × Nat × List (Nat × String)) := [
  ("A.1 AES-128", "2b7e151628aed2a6abf7158809cf4f3c", 11,
    [(1, "a0fafe1788542cb123a339392a6c7605"), (2, "f2c295f27a96b9435935807a7359f67f"),
     (10, "d014f9a8c9ee2589e13f0cc8b6630ca6")]),
  ("A.2 AES-192", "8e73b0f7da0e6452c810f32b809079e562f8ead2522c6b7b", 13,
    [(1, "62f8ead2522c6b7bfe0c91f72402f5a5"), (12, "e98ba06f448c773c8ecc720401002202")]),
  ("A.3 AES-256", "603deb1015ca71be2b73aef0857d77811f352c073b6108d72d9810a30914dff4", 15,
    [(2, "9ba354118e6925afa51a8b5f2067fcde"), (14, "fe4890d1e6188d0b046df344706c631e")])]

#eval keyExpansionSpots.forM fun (name, key, n, spots) => do
  let rks := keyExpansion (unhex key)
  report s!"FIPS197 {name} key expansion: {n} round keys of 16 bytes, Nr = {n - 1}"
    (rks.length == n && rks.all (·.length == 16) && rounds (unhex key).length + 1 == n)
  report s!"FIPS197 {name} key expansion: round key 0 is the key" ((rks.take (n - 9)).flatten.take (unhex key).length == unhex key)
  spots.forM fun (i, rk) => report s!"FIPS197 {name} key expansion: round key {i}" (hexOf (rks.getD i []) == rk)

/-- FIPS 197 Appendix C example vectors: (name, key, ciphertext); the plaintext is always
    `00112233445566778899aabbccddeeff`. -/
def appendixC : List (String × String × String) := [
  ("C.1 AES-128", "000102030405060708090a0b0c0d0e0f", "69c4e0d86a7b0430d8cdb78070b4c55a"),
  ("C.2 AES-192", "000102030405060708090a0b0c0d0e0f1011121314151617", "dda97ca4864cdfe06eaf70a0ec0d7191"),
  ("C.3 AES-256", "000102030405060708090a0b0c0d0e0f101112131415161718191a1b1c1d1e1f",
    "8ea2b7ca516745bfeafc49904b496089")]

#eval appendixC.forM fun (name, key, ct) => do
  let pt := unhex "00112233445566778899aabbccddeeff"
  let rks := keyExpansion (unhex key)
  report s!"FIPS197 {name} Cipher" (cipher rks pt == unhex ct)
  report s!"FIPS197 {name} encryptBlock" (encryptBlock (unhex key) pt == unhex ct)
  report s!"FIPS197 {name} InvCipher" (invCipher rks (unhex ct) == pt)
  report s!"FIPS197 {name} EqInvCipher" (eqInvCipher (decSchedule rks) (unhex ct) == pt)
  let blocks := [pt, unhex ct, List.replicate 16 0, List.replicate 16 0xff, xsBytes 7 16]
  report s!"FIPS197 {name} eqInvCipher (decSchedule rks) = invCipher rks (5 blocks)"
    (blocks.all fun b => eqInvCipher (decSchedule rks) b == invCipher rks b)
  report s!"FIPS197 {name} invCipher ∘ cipher = id (5 blocks)"
    (blocks.all fun b => invCipher rks (cipher rks b) == b)

-- FIPS 197 Appendix C.1, equivalent inverse cipher trace: `round[1].ik_sch` and `round[10].ik_sch`
#eval do
  let dks := decSchedule (keyExpansion (unhex "000102030405060708090a0b0c0d0e0f"))
  report "FIPS197 C.1 decSchedule first = w[40..43]" (hexOf (dks.getD 0 []) == "13111d7fe3944a17f307a78b4d2b30c5")
  report "FIPS197 C.1 decSchedule[1] = InvMixColumns w[36..39]" (hexOf (dks.getD 1 []) == "13aa29be9c8faff6f770f58000f7bf03")
  report "FIPS197 C.1 decSchedule last = w[0..3]" (hexOf (dks.getD 10 []) == "000102030405060708090a0b0c0d0e0f")

/-! ## SP 800-38D -/

#eval do
  -- McGrew-Viega GCM spec, test case 2: H, and GHASH(H, {}, C)
  let h := encryptBlock (List.replicate 16 0) (List.replicate 16 0)
  report "GCM spec TC2 hash subkey H" (hexOf h == "66e94bd4ef8a2c3b884cfa59ca342b2e")
  let c := unhex "0388dace60b6a392f328c2b971b2fe78"
  report "GCM spec TC2 X₁ • H" (hexOf (mulBytes c h) == "5e2ec746917062882c85b0685353deb7")
  report "GCM spec TC2 GHASH(H, {}, C)" (hexOf (ghash h (c ++ lenBlock 0 16)) == "f38cbb1ad69223dcc3457ae5b6b0f885")
  let one : Bytes := 0x80 :: List.replicate 15 0      -- the polynomial 1: bit 0 is the leftmost
  let x := xsBytes 1 16; let y := xsBytes 2 16; let z := xsBytes 3 16
  report "GF(2^128): 1 • x = x • 1 = x" (mulBytes one x == x && mulBytes x one == x)
  report "GF(2^128): x • y = y • x" (mulBytes x y == mulBytes y x)
  report "GF(2^128): (x • y) • z = x • (y • z)" (mulBytes (mulBytes x y) z == mulBytes x (mulBytes y z))
  report "GF(2^128): x • (y ⊕ z) = x•y ⊕ x•z" (mulBytes x (xorBytes y z) == xorBytes (mulBytes x y) (mulBytes x z))
  report "Block128 bytes round trip" ((Block128.ofBytes x).toBytes == x)
  report "inc32 wraps mod 2^32 and leaves the IV part alone"
    (hexOf (inc32 (unhex "000102030405060708090a0bffffffff")) == "000102030405060708090a0b00000000" &&
     hexOf (inc32 (unhex "000102030405060708090a0b000000ff")) == "000102030405060708090a0b00000100")

structure GcmVec where
  name : String
  key : String
  iv : String
  aad : String
  pt : String
  ct : String
  tag : String

/-- `/repo/aes/gcm_vectors.h`, `gcm_vectors[]` in order (all IVs there are 12 bytes). -/
def gcmVectors : List GcmVec := [
  { name := "gcm_vectors[1] K128 A28 P48 T16",
    key := "ad7a2bd03eac835a6f620fdcb506b345",
    iv := "12153524c0895e81b2c28465",
    aad := "d609b1f056637a0d46df998d88e52e00b2c2846512153524c0895e81",
    pt := "08000f101112131415161718191a1b1c1d1e1f202122232425262728292a2b2c2d2e2f303132333435363738393a0002",
    ct := "701afa1cc039c0d765128a665dab69243899bf7318ccdc81c9931da17fbe8edd7d17cb8b4c26fc81e3284f2b7fba713d",
    tag := "4f8d55e7d3f06fd5a13c0c29b9d5b880" },
  { name := "gcm_vectors[2] K128 A20 P42 T16",
    key := "071b113b0ca743fecccf3d051f737382",
    iv := "f0761e8dcd3d000176d457ed",
    aad := "e20106d7cd0df0761e8dcd3d88e54c2a76d457ed",
    pt := "08000f101112131415161718191a1b1c1d1e1f202122232425262728292a2b2c2d2e2f30313233340004",
    ct := "13b4c72b389dc5018e72a171dd85a5d3752274d3a019fbcaed09a425cd9b2e1c9b72eee7c9de7d52b3f3",
    tag := "d6a5284f4a6d3fe22a5d6c2b960494c3" },
  { name := "gcm_vectors[3] K128 A16 P16 T16",
    key := "c939cc13397c1d37de6ae0e1cb7c423c",
    iv := "b3d8cc017cbb89b39e0f67e2",
    aad := "24825602bd12a984e0092d3e448eda5f",
    pt := "c3b3c41f113a31b73d9a5cd432103069",
    ct := "93fe7d9e9bfd10348a5606e5cafa7354",
    tag := "0032a1dc85f1c9786925a2e71d8272dd" },
  { name := "gcm_vectors[4] K128 A16 P32 T16",
    key := "298efa1ccf29cf62ae6824bfc19557fc",
    iv := "6f58a93fe1d207fae4ed2f6d",
    aad := "021fafd238463973ffe80256e5b1c6b1",
    pt := "cc38bccd6bc536ad919b1395f5d63801f99f8068d65ca5ac63872daf16b93901",
    ct := "dfce4e9cd291103d7fe4e63351d9e79d3dfd391e3267104658212da96521b7db",
    tag := "542465ef599316f73a7a560509a2d9f2" },
  { name := "gcm_vectors[5] K128 A16 P32 T16",
    key := "298efa1ccf29cf62ae6824bfc19557fc",
    iv := "6f58a93fe1d207fae4ed2f6d",
    aad := "021fafd238463973ffe80256e5b1c6b1",
    pt := "cc38bccd6bc536ad919b1395f5d63801f99f8068d65ca5ac63872daf16b93901",
    ct := "dfce4e9cd291103d7fe4e63351d9e79d3dfd391e3267104658212da96521b7db",
    tag := "542465ef599316f73a7a560509a2d9f2" },
  { name := "gcm_vectors[6] K128 A0 P16 T16",
    key := "00000000000000000000000000000000",
    iv := "000000000000000000000000",
    aad := "",
    pt := "00000000000000000000000000000000",
    ct := "0388dace60b6a392f328c2b971b2fe78",
    tag := "ab6e47d42cec13bdf53a67b21257bddf" },
  { name := "gcm_vectors[7] K128 A0 P64 T16",
    key := "feffe9928665731c6d6a8f9467308308",
    iv := "cafebabefacedbaddecaf888",
    aad := "",
    pt := "d9313225f88406e5a55909c5aff5269a86a7a9531534f7da2e4c303d8a318a721c3c0c95956809532fcf0e2449a6b525\
           b16aedf5aa0de657ba637b391aafd255",
    ct := "42831ec2217774244b7221b784d0d49ce3aa212f2c02a4e035c17e2329aca12e21d514b25466931c7d8f6a5aac84aa05\
           1ba30b396a0aac973d58e091473f5985",
    tag := "4d5c2af327cd64a62cf35abd2ba6fab4" },
  { name := "gcm_vectors[8] K128 A20 P60 T16",
    key := "feffe9928665731c6d6a8f9467308308",
    iv := "cafebabefacedbaddecaf888",
    aad := "feedfacedeadbeeffeedfacedeadbeefabaddad2",
    pt := "d9313225f88406e5a55909c5aff5269a86a7a9531534f7da2e4c303d8a318a721c3c0c95956809532fcf0e2449a6b525\
           b16aedf5aa0de657ba637b39",
    ct := "42831ec2217774244b7221b784d0d49ce3aa212f2c02a4e035c17e2329aca12e21d514b25466931c7d8f6a5aac84aa05\
           1ba30b396a0aac973d58e091",
    tag := "5bc94fbc3221a5db94fae95ae7121a47" },
  { name := "gcm_vectors[9] K256 A0 P16 T16",
    key := "0000000000000000000000000000000000000000000000000000000000000000",
    iv := "000000000000000000000000",
    aad := "",
    pt := "00000000000000000000000000000000",
    ct := "cea7403d4d606b6e074ec5d3baf39d18",
    tag := "d0d1c8a799996bf0265b98b5d48ab919" },
  { name := "gcm_vectors[10] K256 A0 P64 T16",
    key := "feffe9928665731c6d6a8f9467308308feffe9928665731c6d6a8f9467308308",
    iv := "cafebabefacedbaddecaf888",
    aad := "",
    pt := "d9313225f88406e5a55909c5aff5269a86a7a9531534f7da2e4c303d8a318a721c3c0c95956809532fcf0e2449a6b525\
           b16aedf5aa0de657ba637b391aafd255",
    ct := "522dc1f099567d07f47f37a32a84427d643a8cdcbfe5c0c97598a2bd2555d1aa8cb08e48590dbb3da7b08b1056828838\
           c5f61e6393ba7a0abcc9f662898015ad",
    tag := "b094dac5d93471bdec1a502270e3cc6c" },
  { name := "gcm_vectors[11] K256 A20 P60 T16",
    key := "feffe9928665731c6d6a8f9467308308feffe9928665731c6d6a8f9467308308",
    iv := "cafebabefacedbaddecaf888",
    aad := "feedfacedeadbeeffeedfacedeadbeefabaddad2",
    pt := "d9313225f88406e5a55909c5aff5269a86a7a9531534f7da2e4c303d8a318a721c3c0c95956809532fcf0e2449a6b525\
           b16aedf5aa0de657ba637b39",
    ct := "522dc1f099567d07f47f37a32a84427d643a8cdcbfe5c0c97598a2bd2555d1aa8cb08e48590dbb3da7b08b1056828838\
           c5f61e6393ba7a0abcc9f662",
    tag := "76fc6ece0f4e1768cddf8853bb2d551b" }]

#eval gcmVectors.forM fun v => do
  let key := unhex v.key; let iv := (unhex v.iv).take 12; let aad := unhex v.aad
  let pt := unhex v.pt; let ct := unhex v.ct; let tag := unhex v.tag
  report s!"{v.name} gcmEnc" (gcmEnc key iv aad pt tag.length == (ct, tag))
  report s!"{v.name} gcmDec" (gcmDec key iv aad ct tag.length == (pt, tag))
  report s!"{v.name} tags of 8 and 12 bytes are prefixes"
    ((gcmEnc key iv aad pt 8).2 == tag.take 8 && (gcmDec key iv aad ct 12).2 == tag.take 12)

/-! ## IEEE 1619 -/

structure XtsVec where
  name : String
  /-- `Key = Key₁ ‖ Key₂` (data key first), as in IEEE 1619 Annex B, the json headers and OpenSSL -/
  key : String
  tweak : String
  pt : String
  ct : String

/-- IEEE 1619-2007 Annex B: vectors 1 and 2 (32 bytes) and 15 (17 bytes, ciphertext stealing).  The
    tweak is the data-unit sequence number as a little-endian 16-byte array. -/
def xtsIeee : List XtsVec := [
  { name := "IEEE1619 B vector 1",
    key := "0000000000000000000000000000000000000000000000000000000000000000",
    tweak := "00000000000000000000000000000000",
    pt := "0000000000000000000000000000000000000000000000000000000000000000",
    ct := "917cf69ebd68b2ec9b9fe9a3eadda692cd43d2f59598ed858c02c2652fbf922e" },
  { name := "IEEE1619 B vector 2",
    key := "1111111111111111111111111111111122222222222222222222222222222222",
    tweak := "33333333330000000000000000000000",
    pt := "4444444444444444444444444444444444444444444444444444444444444444",
    ct := "c454185e6a16936e39334038acef838bfb186fff7480adc4289382ecd6d394f0" },
  { name := "IEEE1619 B vector 15",
    key := "fffefdfcfbfaf9f8f7f6f5f4f3f2f1f0bfbebdbcbbbab9b8b7b6b5b4b3b2b1b0",
    tweak := "9a785634120000000000000000000000",
    pt := "000102030405060708090a0b0c0d0e0f10",
    ct := "6c1625db4671522d3d7599601de7ca09ed" }]

/-- `/repo/aes/aes_128_xts_test.json.h`, the vectors of length 16, 17, 31, 32, 33, 47, 48, 64, 100, 255, 511. -/
def xts128Vectors : List XtsVec := [
  { name := "xts_128_test_json tcId 1 len 16",
    key := "8c654a3171a207b13ef35a8307b50422e72ccf7cf4e7616ecee9c125d329cfd6",
    tweak := "0641d20f167e7f250803bd7fff53bd76",
    pt := "9e0f5fd1664008743be77bf14127f221",
    ct := "6b76ea8c5fee07da4ce309321349d80e" },
  { name := "xts_128_test_json tcId 2 len 17",
    key := "2042893f4ed82d68d3ce8488ada96addda28544c91eecf96623c521f3deb28ea",
    tweak := "65fa03dde3d7aa11f1c071514d373de2",
    pt := "4b81ea94e3fd33592e683736fff3065207",
    ct := "0847197c0312ff3c3048b31ba65f59411a" },
  { name := "xts_128_test_json tcId 16 len 31",
    key := "4da36aee4697e8e24b2c9a444a2a3ee1fce75617d58cb868358385e8639546dd",
    tweak := "bf52372a876e6f2f220ab74471b4083d",
    pt := "ca7832813377578575ca5c7cb58908febf0adce1e1b9a611c419d1d758ec40",
    ct := "14907adf35501bd6befc3d6e60ac11fbf73684c998e73916865c04709e5c30" },
  { name := "xts_128_test_json tcId 17 len 32",
    key := "022d01f4b653bb567b31cfb4b60f491a4c20e8b45d97f26ab9e844bea45b4f00",
    tweak := "2162633c0fe486e5bb2725511c7f75a2",
    pt := "2a759cbcf87e8726b20b26ea290df74752e1fd9b564346a447b9b018b9aa847a",
    ct := "34b5e13d46ffedc065119ae35f85d4c784e157f71a627fe8c527f1363c95491f" },
  { name := "xts_128_test_json tcId 18 len 33",
    key := "551df4239f9b6e2cf1a25156345c3a03917b4e230dd94f33b802c6487357a50f",
    tweak := "f400174317284575d52bf4d0c69dee26",
    pt := "afc0743b8434c09c27646679dc2140180473d595b8cef9347caac7a7caca256831",
    ct := "eb83aae94b895a9847beb69eecf03bf08104ba59191b378e9e1a68fd2eb6c2db80" },
  { name := "xts_128_test_json tcId 32 len 47",
    key := "31a60e832ef20d9b8391d753c5b31ef97165a12b8d4e8bc3ca560fa8a7afd347",
    tweak := "38fc9a5238d62a3d9fac3b23346763b4",
    pt := "c2ed2dfc7de03eb1b2c1b128a33a6386a4c7317eb6931ab040d7e9eced6777d3c23758187c27b34c3e0ab1b9092653",
    ct := "642115c2e9fc46afd8de6bfc06fd788fd373da794e309c1052d8293ed088781a31896f061fb4b113aa8ba1cc999862" },
  { name := "xts_128_test_json tcId 33 len 48",
    key := "315a250699a04caa90416b75bf13d0abf7984635cb3f10acecc94c3c81e3a9b9",
    tweak := "e928107ae889bd8d802d350809c35a2a",
    pt := "5ef6a307b07990c38e423aeb83e92002aa0f708bdbe6ffd5983d2bc96706031ff916c444fe285f457eb84be84d620f18",
    ct := "b99402a81748febbd80da3bfb09410dde26594606430e975ee74f3d95481c75efb3bcaabfaf8126f0f1018defd5d7568" },
  { name := "xts_128_test_json tcId 49 len 64",
    key := "e4589bf33f4a930914caa09df8fa7ad88facab403d1a0e368071c86d3421a57c",
    tweak := "626b8c6540b881fd762e71e10602fd5b",
    pt := "4353586cac1e25b448d2fc0a143f31a568cfd7561e1ee207decc6002614e5a5aa3e42caf48ddd7a95b11345be71a7df7\
           6e45dcbc28b28578f82c667c9669e9cf",
    ct := "4733abc05cd2c9ed9eba350fc0ffe99463c4b0b27baf0f4d925715477d40e81d1701faedfc4048b31d5900cf29083c85\
           49b7b1fd7fc46e6179771f913908e48f" },
  { name := "xts_128_test_json tcId 85 len 100",
    key := "666713ce360cfd990e6e9bfb656762ce2b911a3abec396aa98e5b7016a79c1c3",
    tweak := "57f6384e6737b7bcb296b7cd8c3d0a41",
    pt := "e4305055af93f94f6384148ec48973cf94169c42e208ce31b7f3b878455a6525dbf5c0d7d84d78c4a45b25767c967d56\
           5a63ad1b55e45dc90e6a4bdaa4b2162dd2b35b681ab9274ff4e30238015ea22be6e01d9f0109f3c578acd5060846b295\
           2c7af6de",
    ct := "1ec6538f4983d1588a2ec2ba3c1a5f81a9a25838839fbded5402f11187c5749e786798f52f94f272dc45c60eb75e2e27\
           a521019e921f8c6178905b660fec50f46d126b1837b3b156bfa1b02b74ad26578c45604864b7b01a32616ffe86a66378\
           b34e9383" },
  { name := "xts_128_test_json tcId 240 len 255",
    key := "b5fb105c8eeb1972120f3f01b2af2f360d2e2e1ca1d0947face653e0555afe2c",
    tweak := "a55ed68596b0a823d734ce9717b6d26d",
    pt := "5a1d71228cf4c043c6593d19d4c450e9c820a50624699a32af5fd69e070c64bce7f0b66893ce8229665ed6dcebe04b91\
           5a8eaa320b11da84e713b5de676819140b6bd9a210e4b59d11d7ed0ec20717440ff1d5b0e6a62ba37f207d3c3e72aebb\
           7b9d39670cac2ca6e84e85ed4b85b93738b114af1e66e0b59919b24acb5072a9520b8c2799404e2cf97ae64c359fe83e\
           89ffd5d0c6d11de65ed16fa3e5080b0d742b05569e67a977d96542da567f6dd90636197c29a64b8f305bd2dc5b4fbcc0\
           2bdcd6748a97eaa7515bbbe2d85b6f2c36aa8c63f2fa472af537f85e555778f48123bdf213304a00b8f682e4f268824d\
           c620b70126bef6865669aee7ee2c8a",
    ct := "c3f683961e52fd2a9b6bb39ef702284daffa15a250e9437be05fc19b30de139ddf3483a818c33d8d400688b11836b17a\
           528839dbbfbc06119fccf5a4cf0b3adb37113a767152216d6c93487be54238b13fd234d8a3cd895236930f10ce8e7337\
           f2b79e04cc6073cc77829322bd40b767e039927512732652d3ae42f1b9940e7be2b8c672724fcc286e30805d3ac4c1a5\
           ee654111af97512cd829cf6abbb2e4a14835f59da778e520f30f15efc85226fdac8a7c04e5e82b1f80341235fd82fd56\
           b2f989c1a24faf6a523aa273642a2570cc24935ff9a96804a936d769cb24dd1dc5ecd0a594d1377fe261ecd005b43a74\
           27a010f579db7a13bfda533ad6446c" },
  { name := "xts_128_test_json tcId 496 len 511",
    key := "f79b6828e9a44ddb3023017e89945283d24dc56866046c5f54a3130dca84e4a6",
    tweak := "b2d9877f65ec84b4d4af7505c2d3cfde",
    pt := "3fa84c45c4c71c3cb0837441e05da36f625c3649f911da094956f3d8cdd544fff4850827e58d0c2e9fdf246e77c94191\
           5fb2e985f557e7563a1d116af7ba2e88a5bbd722fc053225fef07ff9ff28f94bcd67f402d34d11e2cfecea96dca908db\
           d39114929ee9cd3e5188b9ca1ad9c5020a1b5ecfefb6bc3206510afb543ce1d2083587a01f09509a6130b07901ac9cf4\
           0e40c515ecc23a47b8059965fa61c44e53406682e1d8647f75b4108e731a3e5a054030ffa83454e1a8eb4d27ccb6bc57\
           8c54a131c15678da7406312068af08cf652943d5ba1e25c5b2aba3cc9c8993dd219d05524638ae23424664716ee8ded9\
           554eb1a9aeb9e103104ba1e187db89f6f9c5e3982cd17e6413fc431b62d75fce93823d3cd146dd27746a2a424b52f145\
           9d2fbf5ee63b0314d08c4e04b45b8abf6a8d88d7cb39b426783bff422870b3cb29069874011ed9832cb98b6f4a920777\
           a30eaa1845359c1c8fe0e348fffecf6598c2e9ee702760bd6de1bcb13fa5cd587996e64d095e49210d77de6e69ce6f45\
           dd9434e0c5df68d5f07525b29597a49f9c2ac756d7ad7c6e1486a16ccb2b02c23ffb9c502f5bdc5f4b7df20ec1a4746c\
           aaf80ae001bb821ab9a619f3406a9e089f4d9bab68a659768107f340910108ccf2b00bc2dd338dd6d382ac91610e7465\
           cf1b18664700106b9fb75b3310b58ad245e9fc5592796aa24192c131c4b19a",
    ct := "d10954d77e4bd7310b7128235331d0f0d52ab1586438ebe17f0fe46c5f1914699060b39d0f58a2bb0ddb7ceac248ef7b\
           e078a78c88ddc8bc48663876206559ecfe14966604216c8f0f33944b70717ee7f8d965a83bcd6c77b24b515ce9045c46\
           77564bf6af764b12fd1ba49e442f21b894541adb337a30b84643c7979e04d35469e5e91ee8a516fe9052c31a3e887095\
           1a6cdc7d16a145e326b2420953ee021a9c4413ca00c5fbbb7c18df70cab7b02c168e4730d47e26b9f8bb6f369b2f7925\
           e384fb1a64dbd4bc0fcb1609c148aeb11dc30e7a5dc0e7bc43df8489d17e8ad1e3227cdc8c7d418453e78578afcc7428\
           915ea2d0b43edfa05dbe03cab99cd0cad59f73b3372106b2ea80c3443f05cadbcf8c5c95e431633eb79981999505aa2e\
           15f26a264cbc94098763f2b533a9fc642e0ada5b147810b59b5c69c9a38d9673b0d89d68bdfa4e02aec338026595410d\
           d40071d01452c73f4e36098d2f28f09d361526d62c396e4051f28471a57839d70364f7298fe16a1acdc13d7c1505a519\
           798ece98994537cbf1b29986ad9aac33bc8f1ebe44849672ddd1d2270e3449aadf98a269b530d726fefdae2ab2b821e9\
           622a7993d491e0b652b0c9dde81fbf3d9cf0b09a8ac534a86d0b0456e1f0a6f2cc06294fca589023d4e346d9cb1b7a49\
           379447900472ebdbef62d76751c21b18290e37f0676bb31ceff4aebf8391dc" }]

/-- `/repo/aes/aes_256_xts_test.json.h`, same selection of lengths. -/
def xts256Vectors : List XtsVec := [
  { name := "xts_256_test_json tcId 1 len 16",
    key := "b27710c95692b900de9f6faa1e48a0e34ee38df03db0e9479884c8814c51e39e6bb903e19c7af332bf1945e477f0107a\
            51f7e036289b4e59cc0aa437361276be",
    tweak := "f569abed03f5d49c8568e5bf74a3be05",
    pt := "9dff0f19128323749e769089d1c90094",
    ct := "7fc01c71120b8b4e1f69a84c1388c3ea" },
  { name := "xts_256_test_json tcId 2 len 17",
    key := "3f3a63e28fcebf7d93d3dd6495c644d6aecc985d36d9ae6cf784f09b6c51ab91490ff7feb8c903bb244e4678d8c12718\
            b206d0721a8d42ce407fb793e3447b3a",
    tweak := "a61451fa73583c3c5071f8a7fe2e7a3f",
    pt := "365939f2ed79eee5f06b6097d61ff68d27",
    ct := "891dfd6058eb5d3faa8b58348196f735ad" },
  { name := "xts_256_test_json tcId 16 len 31",
    key := "f2f11e39ab0e4bee38b95058dea9199bd03f5a8886eee5d95876a7ca1f0043f5e60d28adb7b262e7844964e7911c61f9\
            09082b431f3cbf502d20ce368d82e294",
    tweak := "e42da4fa7c51b912aeb57c4d456d5a33",
    pt := "1299ec34b92eb6988bc748c11ebdef8e11646fb158821521312ce1d36548ed",
    ct := "133f32c36f1332e6dd0e571e977df4c7b7f6b9d34e4d69abab5b7c8ef44705" },
  { name := "xts_256_test_json tcId 17 len 32",
    key := "c3c31d65ddd0eafc4b5f575cfafa251ce2f69fac1cffc82097fe370fcaae54e3a064749978232b607f5679018e885f05\
            f90d2cc9c11dfa235a094815c7d82b4c",
    tweak := "7c1527483167a7427beb8a6a80decdf7",
    pt := "ddb228762740d3740030ccd8e271a24f7d3caf5b5f9ad66f031e185413e048f6",
    ct := "6553139f5ec8e9e47140b523e63455b5f7d678491cbf9c44b846b3c44c01671d" },
  { name := "xts_256_test_json tcId 18 len 33",
    key := "354d5b334217d30754446d335140bd550039de3c1691897b4623c67e62bfae07e67bcba135e24a5bc21607b710a43a2f\
            6a3780ef9f882c077bde3a9299f167d3",
    tweak := "304f066544df9e76245615ea44cb75e5",
    pt := "d542e3db63de98c923b0192133f0311a9616e70dbfcaab3ad0b0ce8c6fee6fe4b2",
    ct := "c634c63f340dfe51633df604ec7b041a1ea970523a7d078f1f1a2a3077eb21c5ca" },
  { name := "xts_256_test_json tcId 32 len 47",
    key := "624a637dd688e100361e60d828a271ebc04d859880e33af167dae5cd7acba00fce6bb8dca5ace61b6c250465ac73d521\
            22cdd135a38370c2eb1f265090e15408",
    tweak := "e41babb7220c3d168f552cb1ace63818",
    pt := "97f0f6f10da48426ca55d1a414d9c1bdf74add5f10ca390e3d92f76c09d0ae67fc82ed984b4c21ece58cc5b2e7476a",
    ct := "00d31fc371456f5f3370da5485151174ab107dc0748d249a08425942515ca5eac2243f0fd14afe7af7bfa7f131061e" },
  { name := "xts_256_test_json tcId 33 len 48",
    key := "326cf93311099957fd3d438e49f638d83b2d58e96af0c6d3c099eae19323686bb6d915a41b51e5016a2dfd9b6edb7f30\
            9a69d733844456abd74f3330a0c60885",
    tweak := "b5b8265cad83f9b1ee415bcde4344ad7",
    pt := "c1f38e44f850aa5c434b05f9f2da72c81a2f933a672920de3f4e6583a03d263f77124c7ff15ec38f3a128bd9b4095912",
    ct := "724518f049fc056d49caa08bf988f09015ee2cb8395363b8968674f31cfb404c9bb852eeb444c0fe541f9b72e39d5ceb" },
  { name := "xts_256_test_json tcId 49 len 64",
    key := "a48ad1c0f5438d8676c6afadf0257f2d59f6bef7dac6a5013d6e73ea468f7bd2c8ca8c897bc1b932f7d5363d18cc3b27\
            3e7bc6739080246a7a30645ae39658ff",
    tweak := "486c4fa6db2ce7a9696cb5e07a4e0a5b",
    pt := "bcf30a18077c5c32be8cc3000edad23782ce296b7899e8ef5ac09133ac79f57435a2cc7ad52b390f5f11c2a1016292d4\
           bf3f696bb25897a3492a5d9dee7574db",
    ct := "56840426563fa72139e2a88c0c49512ecbff7e8127cf88254b73ae9a61044416f05a700cf222857a317f96dbce5e23b2\
           96e713d6f8073a90dd2956d21e285407" },
  { name := "xts_256_test_json tcId 85 len 100",
    key := "75d44b452f7f9428e15d38f2422470b93fea7d6023eaaec9d3b89962efa95b526614eb7e6c1425d4a3cb2e44da81cd58\
            ee94e7cdae1efcb20a2d550f8b7e2113",
    tweak := "62dff622caa47d25b92274e26fb2ecae",
    pt := "b6e2b2324c9e41ebf237c37a4b26e23d4f8151767ba76c03fcc45f4fac3b8c9b8d9c8e45d7583ae27f3538b91df84c74\
           0daade0ee734f4ab97f04cc9f63f0e77b91217a28253fa6b93295aec9e445ab85201f1666a5c33c5bae0423ec5085941\
           a929e24a",
    ct := "c7b766aa5264e4473c5ec749e1215ea39dce407a4f43a36818c4c5da1b38ae400c94c46996eb4c9a2b45947a8bf32392\
           f7cd433ccc3f49a9d97c0e71cafaa47af55814e4546dc849e0108bfa7d54f3dad90615532a87b321c078585863b564eb\
           c3e912fa" },
  { name := "xts_256_test_json tcId 240 len 255",
    key := "08169c203c31f46bedfb1e6246ff1eddd4dc95047f500cd916699c8147185518991a4773fda5b5274b40a090d76b1683\
            72ac3fc8ab58b6bc420671b7c4c8f803",
    tweak := "55fc88649c712b876a529289c8fbcc4a",
    pt := "5803557c653ae7dae37bb6da2d0b64e445cf1083e787d013fac40450f7ff4ebdb11d8d1f6db5b9837fb879e91245a2e1\
           4208c1db4cdfb7dc95f7027c32cf648ef2332d21eda0377bc11caaa2afc32ce9bede2185c04a0d4b0761d6f8f9295f5b\
           4b5039272dde62751459fbde6096c62ef2d66a3eb622334977bc020d1ed51cbae2f49d6ec20cb603cd3958c06d35291f\
           6721353bc50cd6f68f1fcb4896aa372024e376db45a4571c5371cda8d2f6f1a63bac9986474a9e4d2af36acd6ec94b96\
           b758559585c75956b770c6313e581dccc4b24660e9bd1924518b3515571e5b54cd78ca1c60177eb1f27b3d2aa92aa72d\
           453c908392cd164c8b8f74b25beb46",
    ct := "f98b326ff49fd9476c069a7b0df0c772ff06101a7cdefa3b3b5719b9b78a12004738d6ddce04067701e1859885f9caa1\
           9f78fe3fce94131b037284c0a8f78dbd3b3977365a2c2e4a41ae707cd5779815e4db022babea11c71fa09a973980cd2f\
           cce1666b90ad747286361d0d5f1e7f4bb77fcb108510a6f12242f43abaf3a2effe9847d1051341ee5420d2ef1a327fe1\
           8edced44390b28b884118acd8ad3821e5238c752170e7d8ed64d9836dfe663b364df74cd700990eb9e0f63ad9364afdb\
           16b3fed4b7710fb1706b7f7e37f3d16b638a3542e1bac97ec6738eaa63bbe3569e7b5cb8967f9b81f473e02dc1a56062\
           7bd019a69e1afee1d56f35f78e0ae9" },
  { name := "xts_256_test_json tcId 496 len 511",
    key := "df3dd28ea66e637e055877d75d19aa48c0458524ba486633bddf8a251e6e43c1822f26ed70828dc693c3dfd8881ec810\
            9d1550020d5a4cec0d3b8e91a073fc3e",
    tweak := "9547d9bf26a12a6b6d46f3111043dded",
    pt := "8661d8d72e14e7133f767d49219225eb4b7adc08ca35ddd13d17952f3f24c7618b7e238f1fc2beee736c4380f5e69091\
           68d365993e5fb368d291cbef715d5fbfc096dad90ccc9e34a88163070f23ede770ee26fa9906a489ce8e32b4f94d610c\
           bca1cc4a530ff5f92d18aff18a08ba8f6093fe2f2c595e1dc1fc0df22e784d1e6a4758a4e2675e76e6304b61fd4a4f10\
           520667dd140311e6b18378c691be7574058383227f87eb2ca046834df0ec7b2fb86e9a029cd099b498e74862a8b2156d\
           f2687657e292c9405137d5089545ba64ec4cd15de07c83ecf380773610b492a71e41a50e0e90ed5a90909c685aa04872\
           3171a1c2fb040ff4677fd6143727cf611a3fccd0d37bec20b59e126e32dc16d7e61bab6352e76092c9d32c1216de6e27\
           619026bf0274277d06503541504f9a12ef3a023495fc12a9bc6dd76033b32927874c90fea49ec0d87173a6f8336a3050\
           64b6b83886814bc96f70aa3b4cc903c808870ce117cb1fd30df5c3e41f2cad54c6ede5f7502502f48deeed2fa749b4b2\
           9b874b706280c0cd414a81a2b7a1a705c481f8e8d1251a6b6677f27d7bd23103d6d98b0a344def2f0a460a1c68f8e9ef\
           31243b0027c66b8c451a856e1f4dc42ff83a1d30b2e1ec7a52a75354204d1745c279f2a591658568d591962849cb2755\
           005a9b54b71512cf5647ce233525225804c22aa6bb6eaa64715501aaf1b0c2",
    ct := "d355f276e5a490159f350cf17f29376580b9d3fcdaa0b8c4ba0d9ab2eda3c54d002e34eadc30c3cc6d6464ebe9585e9f\
           31ae389903f8b2a585fe4b135e736025f80b0717d2d0ef13bf6c1897cdb360e2c9251b456287193ef2fb1be8cd4ed7d0\
           2c8fe5d77861b1292635979b774ecec73f8fa26f5fab0a9f112e6d0673477d7dd12e79f99c1b9f5e64b160d8af9425c8\
           050ea4252370e96a94fe3846cf65674f61b5921890973fe587e002fe85fb1c8651d4c38604ebd37155502207dc2bdc22\
           d315e97bc9d3ce78f0725148fed248cd8e791bcb5ee6ae1f576cdb3a6fc9b91b80cba28a6cf21e88aae228c215abf04b\
           8832ae05a546464fdd49ec6119fb9656c8c31dded9635f727baeb9c9b85ce5445526402d70eb6bfb9e2e6d3f5ed434f0\
           80fe72d526056b42d3ef698c02468484e3d9fad2732167f14919d8f1b9260cc4ac169acec89f8a8e434f8600a017c561\
           e2507e52f1eace5286efffaddef29a281fe584059008d4d086be69275e29349656df4260673ebe8c5b4c7ce3307d678a\
           3e67a54af453452a1c11128ba445394718d7cef91737c39fd2861181963a030e1e331f43cfc882324a7872d816fac198\
           c12e7429f1a8dc491b0b8566a8f9e97c6d61848d88f1420b22b39c282482b3a43ac028881bd7b93ca4325eb05c277369\
           c86a095d69c5f7a0dd6762ed9d67333829222abd5c5aec89bb76643d6cadd9" }]

/-- Outputs of OpenSSL 3.5 `EVP_aes_128_xts` / `EVP_aes_256_xts` (`EVP_EncryptUpdate` of the whole data unit). -/
def xtsOpenssl : List XtsVec := [
  { name := "openssl EVP_aes_128_xts len 16",
    key := "101b26313c47525d68737e89949faab5c0cbd6e1ecf7020d18232e39444f5a65",
    tweak := "f0edeae7e4e1dedbd8d5d2cfccc9c6c3",
    pt := "01060b10151a1f24292e33383d42474c",
    ct := "d9bd7b0a1d84ba5901866d4da378f034" },
  { name := "openssl EVP_aes_128_xts len 17",
    key := "111c27323d48535e69747f8a95a0abb6c1ccd7e2edf8030e19242f3a45505b66",
    tweak := "f1eeebe8e5e2dfdcd9d6d3d0cdcac7c4",
    pt := "02070c11161b20252a2f34393e43484d52",
    ct := "ffcd094ae3bad18c4e1cbc19e527518aa7" },
  { name := "openssl EVP_aes_128_xts len 31",
    key := "121d28333e49545f6a75808b96a1acb7c2cdd8e3eef9040f1a25303b46515c67",
    tweak := "f2efece9e6e3e0dddad7d4d1cecbc8c5",
    pt := "03080d12171c21262b30353a3f44494e53585d62676c71767b80858a8f9499",
    ct := "15e6fae280853030c5d77d060a989760dcf2530fbb0681e5d5bbbeadb5308b" },
  { name := "openssl EVP_aes_128_xts len 32",
    key := "131e29343f4a55606b76818c97a2adb8c3ced9e4effa05101b26313c47525d68",
    tweak := "f3f0edeae7e4e1dedbd8d5d2cfccc9c6",
    pt := "04090e13181d22272c31363b40454a4f54595e63686d72777c81868b90959a9f",
    ct := "92a2981da35d2d07e6b2bc17837f74ef7291d5b63e8d88d96ace42678cdfa585" },
  { name := "openssl EVP_aes_128_xts len 33",
    key := "141f2a35404b56616c77828d98a3aeb9c4cfdae5f0fb06111c27323d48535e69",
    tweak := "f4f1eeebe8e5e2dfdcd9d6d3d0cdcac7",
    pt := "050a0f14191e23282d32373c41464b50555a5f64696e73787d82878c91969ba0a5",
    ct := "672421a08ee9c1136b96c914d6d126226e6aa2813e6c069b298e69a8e3128771bd" },
  { name := "openssl EVP_aes_128_xts len 47",
    key := "15202b36414c57626d78838e99a4afbac5d0dbe6f1fc07121d28333e49545f6a",
    tweak := "f5f2efece9e6e3e0dddad7d4d1cecbc8",
    pt := "060b10151a1f24292e33383d42474c51565b60656a6f74797e83888d92979ca1a6abb0b5babfc4c9ced3d8dde2e7ec",
    ct := "d12729a633795955dcae980ddb3961afee46b778ea2384d87f128157950fd742df3c25eb012e4d3c4542c9697e1534" },
  { name := "openssl EVP_aes_128_xts len 48",
    key := "16212c37424d58636e79848f9aa5b0bbc6d1dce7f2fd08131e29343f4a55606b",
    tweak := "f6f3f0edeae7e4e1dedbd8d5d2cfccc9",
    pt := "070c11161b20252a2f34393e43484d52575c61666b70757a7f84898e93989da2a7acb1b6bbc0c5cacfd4d9dee3e8edf2",
    ct := "5cb37e3fae498f04836c3f6757d9535272383c63828ba6327acf4c667e7cae54c649ccb937d2fa40063af1cf9429ea57" },
  { name := "openssl EVP_aes_128_xts len 63",
    key := "17222d38434e59646f7a85909ba6b1bcc7d2dde8f3fe09141f2a35404b56616c",
    tweak := "f7f4f1eeebe8e5e2dfdcd9d6d3d0cdca",
    pt := "080d12171c21262b30353a3f44494e53585d62676c71767b80858a8f94999ea3a8adb2b7bcc1c6cbd0d5dadfe4e9eef3\
           f8fd02070c11161b20252a2f34393e",
    ct := "7268002344ea1abfc2aab1970aa847192b4702ee80f31b16b60f0c7f268b1970a8238e04a4cdafac1b2ee0aa1bd8adc5\
           a35d781e789e8c59979b966a042c7a" },
  { name := "openssl EVP_aes_128_xts len 100",
    key := "18232e39444f5a65707b86919ca7b2bdc8d3dee9f4ff0a15202b36414c57626d",
    tweak := "f8f5f2efece9e6e3e0dddad7d4d1cecb",
    pt := "090e13181d22272c31363b40454a4f54595e63686d72777c81868b90959a9fa4a9aeb3b8bdc2c7ccd1d6dbe0e5eaeff4\
           f9fe03080d12171c21262b30353a3f44494e53585d62676c71767b80858a8f94999ea3a8adb2b7bcc1c6cbd0d5dadfe4\
           e9eef3f8",
    ct := "6bf24cb45ce4420f985e9c4594839ccf470700fc7ccdf49244f22ec5b6f42cf7976ca53ef25037187f0fe70f40b2d5fd\
           42a89bb91aa249591be9ec031235b812528365f1c887cfce5b7c50193aaa1b1074e407773e06c56891ba820d3b5c2418\
           ce676d4a" },
  { name := "openssl EVP_aes_256_xts len 16",
    key := "202b36414c57626d78838e99a4afbac5d0dbe6f1fc07121d28333e49545f6a75808b96a1acb7c2cdd8e3eef9040f1a25\
            303b46515c67727d88939ea9b4bfcad5",
    tweak := "f0edeae7e4e1dedbd8d5d2cfccc9c6c3",
    pt := "01060b10151a1f24292e33383d42474c",
    ct := "bb54dd17944e4a1df058142268475c3f" },
  { name := "openssl EVP_aes_256_xts len 17",
    key := "212c37424d58636e79848f9aa5b0bbc6d1dce7f2fd08131e29343f4a55606b76818c97a2adb8c3ced9e4effa05101b26\
            313c47525d68737e89949faab5c0cbd6",
    tweak := "f1eeebe8e5e2dfdcd9d6d3d0cdcac7c4",
    pt := "02070c11161b20252a2f34393e43484d52",
    ct := "c9b5d1c93e69d8d60a98005f1ee17d1899" },
  { name := "openssl EVP_aes_256_xts len 31",
    key := "222d38434e59646f7a85909ba6b1bcc7d2dde8f3fe09141f2a35404b56616c77828d98a3aeb9c4cfdae5f0fb06111c27\
            323d48535e69747f8a95a0abb6c1ccd7",
    tweak := "f2efece9e6e3e0dddad7d4d1cecbc8c5",
    pt := "03080d12171c21262b30353a3f44494e53585d62676c71767b80858a8f9499",
    ct := "22f21969d9b062fd32152888bbfdcf80846f9f16c7e13a283262ad3a443ff0" },
  { name := "openssl EVP_aes_256_xts len 32",
    key := "232e39444f5a65707b86919ca7b2bdc8d3dee9f4ff0a15202b36414c57626d78838e99a4afbac5d0dbe6f1fc07121d28\
            333e49545f6a75808b96a1acb7c2cdd8",
    tweak := "f3f0edeae7e4e1dedbd8d5d2cfccc9c6",
    pt := "04090e13181d22272c31363b40454a4f54595e63686d72777c81868b90959a9f",
    ct := "f7d2351aff8e42e7a245cac66445c083c06e26fe8a976c59d64cb5a2867163c3" },
  { name := "openssl EVP_aes_256_xts len 33",
    key := "242f3a45505b66717c87929da8b3bec9d4dfeaf5000b16212c37424d58636e79848f9aa5b0bbc6d1dce7f2fd08131e29\
            343f4a55606b76818c97a2adb8c3ced9",
    tweak := "f4f1eeebe8e5e2dfdcd9d6d3d0cdcac7",
    pt := "050a0f14191e23282d32373c41464b50555a5f64696e73787d82878c91969ba0a5",
    ct := "41da0449d9cf23aa816287ed05a260aba624a39a74e52dbdc828836f85242e172d" },
  { name := "openssl EVP_aes_256_xts len 47",
    key := "25303b46515c67727d88939ea9b4bfcad5e0ebf6010c17222d38434e59646f7a85909ba6b1bcc7d2dde8f3fe09141f2a\
            35404b56616c77828d98a3aeb9c4cfda",
    tweak := "f5f2efece9e6e3e0dddad7d4d1cecbc8",
    pt := "060b10151a1f24292e33383d42474c51565b60656a6f74797e83888d92979ca1a6abb0b5babfc4c9ced3d8dde2e7ec",
    ct := "33a946ed54e3b65d3b93f518aac85cceb3150a397a2546fd4ad3f3dd266c7528e24bc4742022f432f701c7e3b61b79" },
  { name := "openssl EVP_aes_256_xts len 48",
    key := "26313c47525d68737e89949faab5c0cbd6e1ecf7020d18232e39444f5a65707b86919ca7b2bdc8d3dee9f4ff0a15202b\
            36414c57626d78838e99a4afbac5d0db",
    tweak := "f6f3f0edeae7e4e1dedbd8d5d2cfccc9",
    pt := "070c11161b20252a2f34393e43484d52575c61666b70757a7f84898e93989da2a7acb1b6bbc0c5cacfd4d9dee3e8edf2",
    ct := "8dead5451467ac66f7cbefb075e788c937433741c6b4269ad68e8c98982043996dfc4a6a786310f3d1c56c834e1c4125" },
  { name := "openssl EVP_aes_256_xts len 63",
    key := "27323d48535e69747f8a95a0abb6c1ccd7e2edf8030e19242f3a45505b66717c87929da8b3bec9d4dfeaf5000b16212c\
            37424d58636e79848f9aa5b0bbc6d1dc",
    tweak := "f7f4f1eeebe8e5e2dfdcd9d6d3d0cdca",
    pt := "080d12171c21262b30353a3f44494e53585d62676c71767b80858a8f94999ea3a8adb2b7bcc1c6cbd0d5dadfe4e9eef3\
           f8fd02070c11161b20252a2f34393e",
    ct := "a6730f7ff14737cb8ca7bd4e4e9d92b2f6bb53e85e4caaecdd011328314f5d422330fad69eb3caab1cf37289df942000\
           3478029969b65fa9655ee6be4131e7" },
  { name := "openssl EVP_aes_256_xts len 100",
    key := "28333e49545f6a75808b96a1acb7c2cdd8e3eef9040f1a25303b46515c67727d88939ea9b4bfcad5e0ebf6010c17222d\
            38434e59646f7a85909ba6b1bcc7d2dd",
    tweak := "f8f5f2efece9e6e3e0dddad7d4d1cecb",
    pt := "090e13181d22272c31363b40454a4f54595e63686d72777c81868b90959a9fa4a9aeb3b8bdc2c7ccd1d6dbe0e5eaeff4\
           f9fe03080d12171c21262b30353a3f44494e53585d62676c71767b80858a8f94999ea3a8adb2b7bcc1c6cbd0d5dadfe4\
           e9eef3f8",
    ct := "7e8ca26e976648fc933721a379fc47ac5fc4dc65695f04ea95d22b24ab6a449cb5dd0f905d73a834b03b91984ee65dca\
           124ed3ffb355d6d1e80a0f74a9297a4b8f21aab9feb167e3f8aa4d7863dc8ad118e13ff9e7fbae3ad59d8723c6329d57\
           51e94bea" }]

def checkXts (v : XtsVec) : IO Unit := do
  let key := unhex v.key
  let k1 := key.take (key.length / 2); let k2 := key.drop (key.length / 2)
  let tweak := unhex v.tweak; let pt := unhex v.pt; let ct := unhex v.ct
  let k1rks := keyExpansion k1; let k2rks := keyExpansion k2
  report s!"{v.name} xtsEnc" (xtsEnc k2 k1 tweak pt == ct)
  report s!"{v.name} xtsDec" (xtsDec k2 k1 tweak ct == pt)
  report s!"{v.name} xtsEncExp" (xtsEncExp k2rks k1rks tweak pt == ct)
  report s!"{v.name} xtsDecExp" (xtsDecExp k2rks (decSchedule k1rks) tweak ct == pt)

#eval do
  report "mulAlpha: carry between bytes"
    (hexOf (mulAlpha (unhex "80000000000000000000000000000000")) == "00010000000000000000000000000000")
  report "mulAlpha: carry between the two 64-bit halves"
    (hexOf (mulAlpha (unhex "00000000000000800000000000000000")) == "00000000000000000100000000000000")
  report "mulAlpha: reduction by 0x87"
    (hexOf (mulAlpha (unhex "01000000000000000000000000000080")) == "85000000000000000000000000000000")
#eval xtsIeee.forM checkXts
#eval xts128Vectors.forM checkXts
#eval xts256Vectors.forM checkXts
#eval xtsOpenssl.forM checkXts

/-! ## SP 800-38A CBC -/

structure CbcVec where
  name : String
  key : String
  iv : String
  pt : String
  ct : String

/-- `/repo/aes/cbc_std_vectors.h`, `cbc_vectors[]` in order (1-3 are SP 800-38A F.2.1, F.2.5, F.2.3). -/
def cbcVectors : List CbcVec := [
  { name := "cbc_vectors[1] K128 P64",
    key := "2b7e151628aed2a6abf7158809cf4f3c",
    iv := "000102030405060708090a0b0c0d0e0f",
    pt := "6bc1bee22e409f96e93d7e117393172aae2d8a571e03ac9c9eb76fac45af8e5130c81c46a35ce411e5fbc1191a0a52ef\
           f69f2445df4f9b17ad2b417be66c3710",
    ct := "7649abac8119b246cee98e9b12e9197d5086cb9b507219ee95db113a917678b273bed6b8e3c1743b7116e69e22229516\
           3ff1caa1681fac09120eca307586e1a7" },
  { name := "cbc_vectors[2] K256 P64",
    key := "603deb1015ca71be2b73aef0857d77811f352c073b6108d72d9810a30914dff4",
    iv := "000102030405060708090a0b0c0d0e0f",
    pt := "6bc1bee22e409f96e93d7e117393172aae2d8a571e03ac9c9eb76fac45af8e5130c81c46a35ce411e5fbc1191a0a52ef\
           f69f2445df4f9b17ad2b417be66c3710",
    ct := "f58c4c04d6e5f1ba779eabfb5f7bfbd69cfc4e967edb808d679f777bc6702c7d39f23369a9d9bacfa530e26304231461\
           b2eb05e2c39be9fcda6c19078c6a9d1b" },
  { name := "cbc_vectors[3] K192 P64",
    key := "603deb1015ca71be2b73aef0857d77811f352c073b6108d7",
    iv := "000102030405060708090a0b0c0d0e0f",
    pt := "6bc1bee22e409f96e93d7e117393172aae2d8a571e03ac9c9eb76fac45af8e5130c81c46a35ce411e5fbc1191a0a52ef\
           f69f2445df4f9b17ad2b417be66c3710",
    ct := "17701a9d29c91a94ceed723c34e87abe1c96845ca8b7e8586dfef2fa6bed24098a52cee8d76db67bfde21553d31c2833\
           f77eb59500ac4903bc7076b18465d0ea" },
  { name := "cbc_vectors[4] K128 P16",
    key := "06a9214036b8a15b512e03d534120006",
    iv := "3dafba429d9eb430b422da802c9fac41",
    pt := "53696e676c6520626c6f636b206d7367",
    ct := "e353779c1079aeb82708942dbe77181a" },
  { name := "cbc_vectors[5] K128 P32",
    key := "c286696d887c9aa0611bbb3e2025a45a",
    iv := "562e17996d093d28ddb3ba695a2e6f58",
    pt := "000102030405060708090a0b0c0d0e0f101112131415161718191a1b1c1d1e1f",
    ct := "d296cd94c2cccf8a3a863028b5e1dc0a7586602d253cfff91b8266bea6d61ab1" },
  { name := "cbc_vectors[6] K128 P48",
    key := "6c3ea0477630ce21a2ce334aa746c2cd",
    iv := "c782dc4c098c66cbd9cd27d825682c81",
    pt := "5468697320697320612034382d62797465206d657373616765202865786163746c7920332041455320626c6f636b7329",
    ct := "d0a02b3836451753d493665d33f0e8862dea54cdb293abc7506939276772f8d5021c19216bad525c8579695d83ba2684" },
  { name := "cbc_vectors[7] K128 P64",
    key := "56e47a38c5598974bc46903dba290349",
    iv := "8ce82eefbea0da3c44699ed7db51b7d9",
    pt := "a0a1a2a3a4a5a6a7a8a9aaabacadaeafb0b1b2b3b4b5b6b7b8b9babbbcbdbebfc0c1c2c3c4c5c6c7c8c9cacbcccdcecf\
           d0d1d2d3d4d5d6d7d8d9dadbdcdddedf",
    ct := "c30e32ffedc0774e6aff6af0869f71aa0f3af07a9a31a9c684db207eb0ef8e4e35907aa632c3ffdf868bb7b29d3d46ad\
           83ce9f9a102ee99d49a53e87f4c3da55" },
  { name := "cbc_vectors[8] K128 P80",
    key := "90d382b410eeba7ad938c46cec1a82bf",
    iv := "e96e8c08ab465763fd098d45dd3ff893",
    pt := "08000ebda70a00008e9c083db95b070008090a0b0c0d0e0f101112131415161718191a1b1c1d1e1f2021222324252627\
           28292a2b2c2d2e2f30313233343536370102030405060708090a0b0c0d0e0e01",
    ct := "f663c25d325c18c6a9453e194e120849a4870b66cc6b9965330013b4898dc856a4699e523a55db080b59ec3a8e4b7e52\
           775b07d1db34ed9c538ab50c551b874aa269add047ad2d5913ac19b7cfbad4a6" },
  { name := "cbc_vectors[9] K128 P32",
    key := "90d382b410eeba7ad938c46cec1a82bf",
    iv := "69d08df7d203329db093fc4924e5bd80",
    pt := "0800b5e8a80a0500a69c083d0b660e0077777777777777777777777701020201",
    ct := "f51995881ec4e0c4488987ce742e8109689bb379d2d750c0d915dca346a89f75" },
  { name := "cbc_vectors[10] K128 P96",
    key := "0123456789abcdef0123456789abcdef",
    iv := "f4e765244f6407adf13dc1380f673f37",
    pt := "45000054090400004001f988c0a87b03c0a87bc808009f76a90a0100b49c083d02a2040008090a0b0c0d0e0f10111213\
           1415161718191a1b1c1d1e1f202122232425262728292a2b2c2d2e2f30313233343536370102030405060708090a0a04",
    ct := "773b5241a4c449225e4f3ce5ed611b0c237ca96cf74a93013c1b0ea1a0cf70f8e4ecaec78ac53aad7a0f022b859243c6\
           47752e94a859352b8a4d4d2decd136e5c177f132ad3fbfb2201ac9904c74ee0a109e0ca1e4dfe9d5a100b842f1c22f0d" },
  { name := "cbc_vectors[11] K128 P80",
    key := "0123456789abcdef0123456789abcdef",
    iv := "85d47224b5f3dd5d2101d4ea8dffab22",
    pt := "45000044090c00004001f990c0a87b03c0a87bc80800d63caa0a0200c69c083da3de0300ffffffffffffffffffffffff\
           ffffffffffffffffffffffffffffffffffffffff0102030405060708090a0a04",
    ct := "15b92683819596a8047232cc00f7048fe45318e11f8a0f62ede3c3fc61203bb50f980a08c9843fd3a1b06d5c07ff9639\
           b7eb7dfb3512e5de435e7207ed971ef3d2726d9b5ef6affc6d17a0decbb13892" }]

#eval cbcVectors.forM fun v => do
  let rks := keyExpansion (unhex v.key)
  let iv := unhex v.iv; let pt := unhex v.pt; let ct := unhex v.ct
  report s!"{v.name} cbcEnc" (cbcEnc rks iv pt == ct)
  report s!"{v.name} cbcDec" (cbcDec rks iv ct == pt)
  report s!"{v.name} cbcDecEq" (cbcDecEq (decSchedule rks) iv ct == pt)

/-! ## MurmurHash3_x64_128 -/

/-- test message: byte `i` is `7·i + 3 (mod 256)` -/
def murData (n : Nat) : Bytes := (List.range n).map fun i => UInt8.ofNat (7 * i + 3)

/-- (seed, length, h1, h2) as returned by `murmur3_x64_128()` of
    `/repo/mh_sha1_murmur3_x64_128/murmur3_x64_128.c` (gcc, x86-64) on `murData length`. -/
def murVectors : List (UInt64 × Nat × UInt64 × UInt64) := [
  (0x0000000000000000, 0, 0x0000000000000000, 0x0000000000000000),
  (0x0000000000000000, 1, 0x726ac6dd306a3e59, 0x4e711127c5b5a8e4),
  (0x0000000000000000, 15, 0xba6a4b5e80ade4f4, 0xe00e5a8ff7e8f26d),
  (0x0000000000000000, 16, 0xc4b099c52f8f4ea1, 0x7d670219d92afe48),
  (0x0000000000000000, 17, 0xd4ae4b39fe53b127, 0x6602453b6681dbe9),
  (0x0000000000000000, 31, 0x9d91fedff00436fb, 0x7ea851ba737ebfd0),
  (0x0000000000000000, 32, 0x65bdb8dd080643ff, 0xbec31b8aa5f3910a),
  (0x0000000000000000, 100, 0x176a52a2b675a4d3, 0xa2ac0b70381c282a),
  (0x1234567887654321, 0, 0x3995b1336dd23fad, 0xc7981fc17da886e9),
  (0x1234567887654321, 1, 0xfa7b63ef8fe38f8e, 0x9dc6381acf75246d),
  (0x1234567887654321, 15, 0x876bacb89aaf6b3d, 0x9b2ec48e5232cc50),
  (0x1234567887654321, 16, 0xae2bebfbe6d0f018, 0xd53f4a317e55ef6f),
  (0x1234567887654321, 17, 0xa58fdff55586ee58, 0x942d50bb2f3d2731),
  (0x1234567887654321, 31, 0x823bfb8dea35be7d, 0x46aa4d184493a8bb),
  (0x1234567887654321, 32, 0x53ee2a3255b0fcb1, 0x48529f5b41339d47),
  (0x1234567887654321, 100, 0xfa6f97ec57cf7ad8, 0x61d17fe6f9e93ca6)]

#eval murVectors.forM fun (seed, n, h1, h2) =>
  report s!"murmur3_x64_128 seed {seed} len {n}" (murmur3_x64_128 seed (murData n) == (h1, h2))

#eval do
  -- the widely quoted smhasher value for "hello", seed 0
  report "murmur3_x64_128 \"hello\" seed 0 (smhasher)"
    (hexOf (digestBytes (murmur3_x64_128 0 "hello".toUTF8.toList)) == "029bbd41b3a7d8cb191dae486a901e5b")
  -- the three phases compose as the streaming code uses them
  let d := murData 100
  let h := murBlock (murBlock (0x55, 0x55) (d.take 16)) ((d.drop 16).take 16)
  let h := (chunks 16 (d.drop 32)).foldl murBlock h
  report "murBlock / murTail / murFinal compose to the one-shot hash"
    (murFinal (murTail h (d.drop 96)) 100 == murmur3_x64_128 0x55 d)

end IsalVerif.SpecTestsAes
