import IsalVerif.Impl.MhStream
/-! Line-protocol driver for the multi-hash models (`mh_model`, counterpart of `harness/drv_mh.c`).

    One result line per operation line:
    * `E <alg> <fam>`  — new episode, `alg ∈ {mh_sha1, mh_sha256, mh_sha1_murmur}` (`fam` is ignored: the
      streaming code is one template for all families)                               → `E`
    * `I <seed>`       — init (decimal 64-bit murmur seed, ignored by the plain variants) → `ok`
    * `U <len> <seed>` — update with `xsBytes seed len`
        → `tot=<total_length> pl=<total_length % 1024> int=<interim digest words, memory order>`
          and ` mur=<h1>,<h2>` for the stitched variant
    * `Z`              — finalize → `dig=<W words>` and ` mur=<16 output bytes>` -/
namespace IsalVerif.Driver.MhD
open MultiHash Mh

def hex32 (w : UInt32) : String := hexOf (bytesBE32 w)
def hex64 (w : UInt64) : String := hexOf (bytesBE64 w)
def showWords (l : List UInt32) : String := ",".intercalate (l.map hex32)

/-- the model state of an episode -/
inductive MhSt where
  | idle
  | plain (I : Inner) (ctx : Ctx (List (Array UInt32)))
  | stitched (ctx : Ctx StD)

def showCtx {D : Type} (W : Nat) (lanes : D → List (Array UInt32)) (ctx : Ctx D) : String :=
  s!"tot={ctx.totalLength.toNat} pl={ctx.totalLength.toNat % 1024} int={showWords (toMem W (lanes ctx.interim))}"

def innerOf : String → Option Inner
  | "mh_sha1" => some sha1
  | "mh_sha256" => some sha256
  | _ => none

/-- one operation; `alg` is the algorithm named by the episode header -/
def mhStep (alg : String) (s : MhSt) (toks : List String) : MhSt × String :=
  match toks, s with
  | ["I", seed], _ =>
    if alg == "mh_sha1_murmur" then (.stitched (stitchedInit (UInt64.ofNat seed.toNat!)), "ok")
    else match innerOf alg with
      | some I => (.plain I (init I), "ok")
      | none => (.idle, "bad-alg")
  | ["U", len, dseed], .plain I ctx =>
    let ctx := update (blockSpec I) ctx (xsBytes (UInt64.ofNat dseed.toNat!) len.toNat!)
    (.plain I ctx, showCtx I.W id ctx)
  | ["U", len, dseed], .stitched ctx =>
    let ctx := update stitchedBlockSpec ctx (xsBytes (UInt64.ofNat dseed.toNat!) len.toNat!)
    (.stitched ctx, showCtx 5 Prod.fst ctx ++ s!" mur={hex64 ctx.interim.2.1},{hex64 ctx.interim.2.2}")
  | ["T", d], .plain I ctx =>
    let ctx := { ctx with totalLength := ctx.totalLength + UInt64.ofNat d.toNat! }
    (.plain I ctx, showCtx I.W id ctx)
  | ["T", d], .stitched ctx =>
    let ctx := { ctx with totalLength := ctx.totalLength + UInt64.ofNat d.toNat! }
    (.stitched ctx, showCtx 5 Prod.fst ctx ++ s!" mur={hex64 ctx.interim.2.1},{hex64 ctx.interim.2.2}")
  | ["Z"], .plain I ctx =>
    let ctx := finalizeCtx I (blockSpec I) ctx
    (.plain I ctx, s!"dig={showWords ctx.digest}")
  | ["Z"], .stitched ctx =>
    let ctx := stitchedFinalizeCtx (blockSpec sha1) ctx
    (.stitched ctx, s!"dig={showWords ctx.digest} mur={hexOf (Murmur3.digestBytes ctx.interim.2)}")
  | _, _ => (s, "bad-op")

end IsalVerif.Driver.MhD
