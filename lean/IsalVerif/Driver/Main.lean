import IsalVerif.Driver.Hash
import IsalVerif.Driver.Aes
import IsalVerif.Driver.Rh
import IsalVerif.Driver.Mh
/-! `isal_model`: reads operation lines on stdin, prints one canonical result line per operation. -/
open IsalVerif IsalVerif.Driver

def splitLine (line : String) : List String :=
  (line.trimAscii.toString.splitOn " ").filter (· ≠ "")

/-- run one hash episode; returns the first line that does not belong to it (next header) -/
partial def hashEpisode (h : IO.FS.Stream) (I : Inst) (s : HSt I) : IO (Option String) := do
  let line ← h.getLine
  if line.isEmpty then return none
  let toks := splitLine line
  match toks with
  | "S" :: _ | ["F"] | "SB" :: _ | "T" :: _ =>
    let (s', out) := hashStep I s toks
    IO.println out
    hashEpisode h I s'
  | _ => return some line

/-- AES episode: stateful (key schedule + GCM context) -/
partial def aesEpisode (h : IO.FS.Stream) (s : ASt) : IO (Option String) := do
  let line ← h.getLine
  if line.isEmpty then return none
  let toks := splitLine line
  match toks with
  | "E" :: _ => return some line
  | [] => aesEpisode h s
  | _ =>
    let (s', out) := aesStep s toks
    IO.println out
    aesEpisode h s'

/-- rolling-hash episode -/
partial def rhEpisode (h : IO.FS.Stream) (st : IsalVerif.Impl.Rolling.RhState) : IO (Option String) := do
  let line ← h.getLine
  if line.isEmpty then return none
  let toks := splitLine line
  match toks with
  | "E" :: _ => return some line
  | [] => rhEpisode h st
  | _ =>
    let (st', out) := IsalVerif.Driver.Rh.step st toks
    IO.println out
    rhEpisode h st'

open IsalVerif.Driver.MhD in
/-- multi-hash episode (mh_sha1 / mh_sha256 / mh_sha1_murmur) -/
partial def mhEpisode (h : IO.FS.Stream) (alg : String) (s : MhSt) : IO (Option String) := do
  let line ← h.getLine
  if line.isEmpty then return none
  let toks := splitLine line
  match toks with
  | "E" :: _ => return some line
  | [] => mhEpisode h alg s
  | _ =>
    let (s', out) := mhStep alg s toks
    IO.println out
    mhEpisode h alg s'

partial def mainLoop (h : IO.FS.Stream) (pending : Option String) : IO Unit := do
  let line ← match pending with
    | some l => pure l
    | none => h.getLine
  if line.isEmpty then return ()
  match splitLine line with
  | ["E", "mh_sha1", _] | ["E", "mh_sha256", _] | ["E", "mh_sha1_murmur", _] =>
    IO.println "E"
    let alg := (splitLine line).getD 1 ""
    let nxt ← mhEpisode h alg IsalVerif.Driver.MhD.MhSt.idle
    mainLoop h nxt
  | ["E", "rh", _impl] =>
    IO.println "E"
    let nxt ← rhEpisode h {}
    mainLoop h nxt
  | ["E", "aes", fam] =>
    IO.println "E"
    -- the vaes_avx512 GCM family (and the public API when it dispatches to it: "pub:lazy") defers
    -- the last GHASH multiply of an exactly-256-byte update
    let lazy := fam.startsWith "vaes" || fam.endsWith ":lazy"
    let nxt ← aesEpisode h { lazy256 := lazy }
    mainLoop h nxt
  | ["E", alg, fam, _nctx] =>
    match inst alg with
    | some I =>
      match hashStart I fam alg with
      | some s =>
        IO.println "E"
        let nxt ← hashEpisode h I s
        mainLoop h nxt
      | none => IO.println "bad-family"; mainLoop h none
    | none => IO.println "bad-alg"; mainLoop h none
  | ["PAD", alg, total, fill] =>
    -- `hash_pad` of the model on a 2B-byte buffer with content `buf[j] = (j*37 + fill) mod 256`
    -- (tools/gen_hashpad.py correspondence: the C `hash_pad` of every ctx file gets the same buffer)
    match inst alg, total.toNat?, fill.toNat? with
    | some I, some t, some f =>
      let A := I.A
      let buf : Bytes := (List.range (2 * A.B)).map fun j => UInt8.ofNat (j * 37 + f)
      let bl := IsalVerif.HashMB.hashPad A.B A.L A.lenBE buf t
      IO.println s!"PAD {bl.length} {hexOf bl.flatten}"
    | _, _, _ => IO.println "bad-op"
    mainLoop h none
  | [] => mainLoop h none
  | _ => IO.println "bad-op"; mainLoop h none

def main : IO Unit := do
  mainLoop (← IO.getStdin) none
