import IsalVerif.Gen.Dispatch
/-! `isal_dispatch_model`: for every configuration line `l1eax l1ecx l7ebx l7ecx xcr0` prints, for
    every dispatched entry point of the *regenerated* resolver programs, the symbol selected by the
    concrete interpreter (`Dispatch.select`). Used to validate the translator against the real
    resolvers running under the virtual-CPUID hook. -/
open IsalVerif.Dispatch IsalVerif.Gen.Dispatch

def selName (e : Entry) (cfg : Cfg) : String :=
  match select e.prog cfg with
  | some (.sym s) => symNames.getD s "?"
  | _ => "?none"

partial def loop (h : IO.FS.Stream) : IO Unit := do
  let line ← h.getLine
  if line.isEmpty then return ()
  match (line.trimAscii.toString.splitOn " ").filter (· ≠ "") with
  | [a, b, c, d, x] =>
    let w (s : String) : W := BitVec.ofNat 32 s.toNat!
    let cfg : Cfg := ⟨w a, w b, w c, w d, w x⟩
    -- entry points whose resolver executes XGETBV although CPUID.1:ECX.OSXSAVE is clear (#UD on a real CPU)
    let ud := (entries.filter fun e => (run cfg e.prog (4 * e.prog.length) c0).ud).map (·.name)
    IO.println (" ".intercalate (entries.map fun e => s!"{e.name}={selName e cfg}") ++ " #ud=" ++ ",".intercalate ud)
  | _ => pure ()
  loop h

def main : IO Unit := do loop (← IO.getStdin)
