import IsalVerif.Impl.HashMB
import IsalVerif.Lemmas.Settle
import IsalVerif.Spec.Sha1
import IsalVerif.Spec.Sha256
import IsalVerif.Spec.Sha512
import IsalVerif.Spec.Md5
import IsalVerif.Spec.Sm3
/-! Line-protocol driver for the HashMB model (`E alg fam nctx` / `S ctx flags len seed` / `F`). -/
namespace IsalVerif.Driver
open IsalVerif HashMB

def bswap32 (w : UInt32) : UInt32 :=
  (w <<< 24) ||| ((w &&& (0xff00 : UInt32)) <<< 8) ||| ((w >>> 8) &&& (0xff00 : UInt32)) ||| (w >>> 24)

def hex32 (w : UInt32) : String := hexOf (bytesBE32 w)
def hex64 (w : UInt64) : String := hexOf (bytesBE64 w)

/-- scheduler parameters of each (algorithm, family): lanes filled before the kernel runs, flush
    single-buffer threshold.  Read from `*_mb_mgr_init_*.c` / `*_mb_mgr_{submit,flush}_*.asm` /
    `*_job.asm`; validated by the correspondence check on every run. -/
def params (alg fam : String) : Option Params :=
  match alg, fam with
  | "sha1", "sse" | "sha1", "avx" => some ⟨4, 1⟩
  | "sha1", "avx2" => some ⟨8, 1⟩
  | "sha1", "avx512" => some ⟨16, 1⟩
  | "sha1", "sse_ni" => some ⟨2, 4⟩
  | "sha1", "avx512_ni" => some ⟨16, 6⟩
  | "sha256", "sse" | "sha256", "avx" => some ⟨4, 1⟩
  | "sha256", "avx2" => some ⟨8, 1⟩
  | "sha256", "avx512" => some ⟨16, 1⟩
  | "sha256", "sse_ni" => some ⟨2, 4⟩
  | "sha256", "avx512_ni" => some ⟨16, 6⟩
  | "sha512", "sse" | "sha512", "avx" => some ⟨2, 0⟩
  | "sha512", "avx2" => some ⟨4, 0⟩
  | "sha512", "avx512" => some ⟨8, 0⟩
  | "sha512", "sb_sse4" => some ⟨1, 0⟩
  | "md5", "sse" | "md5", "avx" => some ⟨8, 0⟩
  | "md5", "avx2" => some ⟨16, 0⟩
  | "md5", "avx512" => some ⟨32, 0⟩
  | "sm3", "avx2" => some ⟨8, 0⟩
  | "sm3", "avx512" => some ⟨16, 0⟩
  | _, _ => none

structure Inst where
  D : Type
  A : Alg D
  showD : D → String

abbrev algOf := @HashMB.ofSpec

def showW32 (a : Array UInt32) : String := ",".intercalate (a.toList.map hex32)
def showW64 (a : Array UInt64) : String := ",".intercalate (a.toList.map hex64)

def inst (alg : String) : Option Inst :=
  match alg with
  | "sha1" => some ⟨_, algOf Sha1.alg id, showW32⟩
  | "sha256" => some ⟨_, algOf Sha256.alg id, showW32⟩
  | "sha512" => some ⟨_, algOf Sha512.alg id, showW64⟩
  | "md5" => some ⟨_, algOf Md5.alg id, showW32⟩
  | "sm3" => some ⟨_, algOf Sm3.alg (fun (a : Array UInt32) => a.map bswap32), showW32⟩
  | _ => none

structure HSt (I : Inst) where
  base : Bool
  sync : Bool
  P : Params
  m : M I.D

def statusWord {D} (x : Ctx D) : Nat :=
  (if x.processing then 1 else 0) + (if x.last then 2 else 0) + (if x.complete then 4 else 0)

def showRet {D} (showD : D → String) (m : M D) (r : Option Cid) (sync : Bool) : String :=
  let head := match r with
    | none => "r=-"
    | some c =>
      let x := m.ctxs c
      s!"r={c} st={statusWord x} err={x.error} tot={x.total} pl={x.part.length} dig={showD x.dig}"
  if sync then head else head ++ s!" inuse={(occupied m).length}"

def hashStart (I : Inst) (fam : String) : String → Option (HSt I) :=
  let fresh : Cid → Ctx I.D := fun _ => { dig := I.A.init, complete := true }
  fun alg =>
  if fam == "base" then some ⟨true, true, ⟨1, 0⟩, mgrInit ⟨1, 0⟩ fresh⟩
  else match params alg fam with
    | some P => some ⟨false, fam == "sb_sse4", P, mgrInit P fresh⟩
    | none => none

def hashStep (I : Inst) (s : HSt I) (toks : List String) : HSt I × String :=
  match toks with
  | ["S", c, fl, len, seed] =>
    let c := c.toNat!; let fl := fl.toNat!; let len := len.toNat!
    let data := xsBytes (UInt64.ofNat seed.toNat!) len
    let r? := if s.base then some (baseSubmit I.A s.m c data fl) else ctxSubmit I.A s.m c data fl
    match r? with
    | none => (s, "out-of-fuel")
    | some r =>
      let rej := if s.base then baseRejects (s.m.ctxs c) fl else rejects (s.m.ctxs c) fl
      if rej then
        let x := r.1.ctxs c
        let tail := if s.sync then "" else s!" inuse={(occupied r.1).length}"
        ({ s with m := r.1 }, s!"r={c} st={statusWord x} err={x.error} rejected" ++ tail)
      else
      ({ s with m := r.1 }, showRet I.showD r.1 r.2 s.sync)
  | ["F"] =>
    let r? := if s.base then some (s.m, none) else ctxFlush s.P I.A (flushFuel s.m) s.m
    match r? with
    | none => (s, "out-of-fuel")
    | some r => ({ s with m := r.1 }, showRet I.showD r.1 r.2 s.sync)
  | ["T", c, d] =>
    -- C15 correspondence at large totals: the harness adds `d` (a whole number of blocks) to the running
    -- total of an idle context; every later padding must use the new total (hash_pad arithmetic)
    let c := c.toNat!
    let x := s.m.ctxs c
    if x.processing || x.complete then (s, "bad-op") else
    let x' := { x with total := (x.total + d.toNat!) % 2^64 }
    ({ s with m := setCtx s.m c x' }, s!"ok tot={x'.total}")
  | ["SB", c, fl, len, seed, off] =>
    -- C15: a segment of up to 2^32-1 bytes taken cyclically from a 2 MiB pattern at offset `off`,
    -- submitted to an idle context of an otherwise empty manager and flushed out.  By theorems C01
    -- / C06 the context then holds `absorb` of its stream (digest after the whole blocks, tail) or,
    -- after LAST, `target … true`; `absorb` is evaluated 4 KiB at a time (`absorb_segments`).
    let c := c.toNat!; let fl := fl.toNat!; let len := len.toNat!; let off := off.toNat!
    let P := 2 * 1024 * 1024
    let pat := (xsBytes (UInt64.ofNat seed.toNat!) P).toArray
    let x := s.m.ctxs c
    if fl / 4 ≠ 0 || x.processing || (x.complete && fl % 2 == 0) then (s, "bad-op") else
    let s0 : S UInt8 I.D := if fl % 2 == 1 then ⟨I.A.init, []⟩ else ⟨x.dig, x.part⟩
    let total0 := if fl % 2 == 1 then 0 else x.total
    let chunk := 4096
    let rec go (fuel : Nat) (st : S UInt8 I.D) (pos : Nat) : S UInt8 I.D :=
      match fuel with
      | 0 => st
      | fuel+1 =>
        if pos ≥ len then st else
        let n := min chunk (len - pos)
        let data := (List.range n).map fun i => pat[(off + pos + i) % P]!
        go fuel (absorb I.A.B I.A.f st data) (pos + n)
    let st := go (len / chunk + 2) s0 0
    let total := (total0 + len) % 2^64
    let x' : Ctx I.D :=
      if fl / 2 % 2 == 1 then
        { x with dig := I.A.fin ((pad I.A st.part total).foldl I.A.f st.dig), part := st.part, total := total,
                 error := 0, complete := true, processing := false, last := false, incoming := [] }
      else { x with dig := st.dig, part := st.part, total := total, error := 0, complete := false,
                    processing := false, last := false, incoming := [] }
    let m' := setCtx s.m c x'
    ({ s with m := m' }, showRet I.showD m' (some c) true)
  | _ => (s, "bad-op")

end IsalVerif.Driver
