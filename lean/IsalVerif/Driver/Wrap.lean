/-
  IsalVerif/Driver/Wrap.lean - the executable side of the correspondence for C13 / C16.

  `checkLine` takes one line printed by harness/drv_api.c in stub mode (one call of one real entry
  point: the environment and what was observed), runs the Lean `run` of the translated wrapper on
  the same environment and compares.  Three kinds of verdicts:

    CORR-…   the real wrapper and the translated model disagree (return code, set of arguments
             accessed, set of arguments written, sequence of internal calls with their actual
             arguments) - the tie between code and model is broken;
    C16-…    the real wrapper violates the documented domain of Spec/ApiDomain.lean: dereference
             before refusal, wrong code, output changed on refusal, zero code outside the domain,
             non-zero code inside the domain;
    C13-…    FIPS build: work although the gate must refuse, wrong code, work before the self
             tests, non-approved algorithm not refused, identical raw XTS keys accepted.

  Line format (see `observe` in drv_api.c):
    R <build> <index> <name> n=<null mask> s=<v0,v1,..|-> st=<0|1|2> tp=<0|1> eq=<prefix>
      cr=<callee ret> cs=<ctx same> ce=<ctx error> | ret=<r> acc=<mask> wr=<mask> bad=<addr>
      outval=<0|1> calls=<sym(a,..);..|->
-/
import IsalVerif.Impl.WrapperCheck

namespace IsalVerif.Driver.Wrap
open IsalVerif.Wrapper IsalVerif.ApiDomain

/-- One parsed harness line. -/
structure Obs where
  build    : String
  index    : Nat
  name     : String
  nullMask : Nat
  scalars  : Array Nat
  st       : Nat
  tp       : Bool
  eq       : Nat
  cr       : Int
  cs       : Bool
  ce       : Int
  ret      : Int
  acc      : Nat
  wr       : Nat
  bad      : Nat
  outval   : Bool
  calls    : String
  deriving Repr

def parseInt (s : String) : Int :=
  if s.startsWith "-" then -((s.drop 1).toNat!) else s.toNat!

/-- `key=value` → value -/
def field (tok : String) : String := (tok.splitOn "=").getD 1 ""

def parseLine (line : String) : Option Obs := do
  let toks := (line.splitOn " ").toArray
  if toks.size < 19 || toks[0]! != "R" then none
  let sc := field toks[5]!
  let scalars := if sc == "-" then #[] else ((sc.splitOn ",").map String.toNat!).toArray
  -- `calls=` is the last token and contains no blanks
  some {
    build := toks[1]!, index := toks[2]!.toNat!, name := toks[3]!,
    nullMask := (field toks[4]!).toNat!, scalars,
    st := (field toks[6]!).toNat!, tp := field toks[7]! == "1", eq := (field toks[8]!).toNat!,
    cr := parseInt (field toks[9]!), cs := field toks[10]! == "1", ce := parseInt (field toks[11]!),
    ret := parseInt (field toks[13]!), acc := (field toks[14]!).toNat!, wr := (field toks[15]!).toNat!,
    bad := (field toks[16]!).toNat!, outval := field toks[17]! == "1",
    calls := (toks[18]!.drop 6).toString }

/-- The environment a line describes.  XTS keys: the harness fills both key arguments with the same
    position-dependent pattern and flips byte `eq` of `k1`, so equal offsets compare equal unless
    the flipped byte is inside the range, and different offsets compare different. -/
def Obs.env (o : Obs) : Env :=
  { isNull := fun p => o.nullMask.testBit p,
    scalar := fun p => o.scalars.getD p 0,
    selfTest := if o.st == 0 then .passed else if o.st == 1 then .failed else .notRun,
    testsPass := o.tp,
    memEq := fun _ oa _ ob n => oa == ob && !(decide (oa ≤ o.eq) && decide (o.eq < oa + n)),
    calleeRet := o.cr, ctxSame := o.cs, ctxError := o.ce }

/-- Index of the region the harness uses for "the other context" (REG_OTHER). -/
def regOther : Nat := 12

def bit (p : Nat) : Nat := 1 <<< p

/-- What the model predicts the harness observes. -/
structure Expected where
  ret     : Int
  acc     : Nat       -- arguments certainly accessed by the wrapper itself
  wr      : Nat       -- arguments certainly written by the wrapper itself
  mayAcc  : Nat       -- arguments a real (not interposed) callee may access
  calls   : String
  deriving Repr

def showArg (e : Entry) (env : Env) : Arg → String
  | .const k => toString k
  | .param i =>
      match e.params[i]? with
      | some p => if p.kind.isPtr then (if env.isNull i then "0" else s!"p{i}") else toString (env.scalar i)
      | none => "?"

def expected (e : Entry) (symNames : Array String) (unwrapped : List String) (env : Env) : Expected :=
  let o := e.run env
  let step (x : Expected) (ef : Effect) : Expected :=
    match ef with
    | .call s as =>
        let nm := symNames.getD s "?"
        if unwrapped.contains nm then
          { x with mayAcc := (argPtrs e.params as).foldl (fun m p => m ||| bit p) x.mayAcc }
        else
          let c := nm ++ "(" ++ ",".intercalate (as.map (showArg e env)) ++ ")"
          { x with calls := if x.calls == "" then c else x.calls ++ ";" ++ c }
    | .write p => { x with acc := x.acc ||| bit p, wr := x.wr ||| bit p }
    | .deref p => { x with acc := x.acc ||| bit p }
    | .derefRet => { x with acc := x.acc ||| bit regOther }
    | .selfTests => { x with calls := if x.calls == "" then "T()" else x.calls ++ ";T()" }
  let x := o.effects.foldl step { ret := o.ret, acc := 0, wr := 0, mayAcc := 0, calls := "" }
  { x with calls := if x.calls == "" then "-" else x.calls }

def subsetBits (a b : Nat) : Bool := a &&& b == a

/-- Names of stubbed calls in an observed `calls=` field, in order (`T` = self tests). -/
def callNames (calls : String) : List String :=
  if calls == "-" then [] else (calls.splitOn ";").map fun c => (c.splitOn "(").headD ""

/-- The two version functions return a library constant the model does not know. -/
def returnsGlobal (e : Entry) : Bool :=
  match e.body with
  | [.retGlobal _] => true
  | _ => false

/-- All verdicts for one line (empty = fine). -/
def checkLine (e : Entry) (s : ApiSpec) (symNames : Array String) (unwrapped : List String)
    (o : Obs) : List String :=
  let env := o.env
  let x := expected e symNames unwrapped env
  let ctx := s!"{o.name} null={o.nullMask} scalars={o.scalars.toList} st={o.st} tp={o.tp} eq={o.eq} " ++
             s!"cr={o.cr} cs={o.cs} ce={o.ce}"
  let tag := if o.build == "fips" then "CORR-FIPS" else "CORR-DEFAULT"
  -- 1. model against the real wrapper
  let corr : List String :=
    (if o.bad != 0 then [s!"MONITOR {tag}-FAULT {ctx}: unexpected fault at address {o.bad}"] else []) ++
    (if o.ret != x.ret && !returnsGlobal e then [s!"MONITOR {tag}-RET {ctx}: real {o.ret}, model {x.ret}"] else []) ++
    (if !(subsetBits x.acc o.acc && subsetBits o.acc (x.acc ||| x.mayAcc)) then
       [s!"MONITOR {tag}-ACCESS {ctx}: real accessed mask {o.acc}, model {x.acc} (may {x.mayAcc})"] else []) ++
    (if !(subsetBits o.wr (x.wr ||| x.mayAcc) && (x.mayAcc != 0 || subsetBits x.wr o.wr)) then
       [s!"MONITOR {tag}-WRITE {ctx}: real wrote mask {o.wr}, model {x.wr} (may {x.mayAcc})"] else []) ++
    (if o.calls != x.calls then [s!"MONITOR {tag}-CALLS {ctx}: real {o.calls}, model {x.calls}"] else []) ++
    (if o.outval then [s!"MONITOR {tag}-OUTVAL {ctx}: value stored through ctx_out is not the callee's result"] else [])
  -- 2. the documented domain against the real wrapper
  let inDom := s.inDomainB env
  let codes := s.violatedCodes env
  let stubCalls := (callNames o.calls).filter (· != "T")
  let fipsRefuses := o.build == "fips" && s.cls != .approved
  let c16 : List String :=
    if s.cls == .service || fipsRefuses then [] else
    if !inDom then
      (if o.ret == 0 then [s!"MONITOR C16-ACCEPTED-OUTSIDE-DOMAIN {ctx}: returned 0, documented {codes}"]
       else if !codes.contains o.ret then
         [s!"MONITOR C16-WRONG-CODE {ctx}: returned {o.ret}, documented {codes}"] else []) ++
      -- what a refusal (non-zero code) must not have done
      (if o.ret != 0 && o.acc != 0 then
         [s!"MONITOR C16-DEREF-BEFORE-REFUSAL {ctx}: returned {o.ret}, accessed argument mask {o.acc}"] else []) ++
      (if o.ret != 0 && o.wr != 0 then
         [s!"MONITOR C16-OUTPUT-CHANGED {ctx}: returned {o.ret}, wrote argument mask {o.wr}"] else []) ++
      (if o.ret != 0 && !stubCalls.isEmpty then
         [s!"MONITOR C16-WORK-ON-REFUSAL {ctx}: returned {o.ret}, calls {o.calls}"] else [])
    else
      let calleeOk := o.cr == 0 && (!o.cs || o.ce == 0)
      let keysDiffer := match s.xtsKeys with
        | some _ => o.build != "fips" || o.eq < 16
        | none => true
      if calleeOk && env.gatePasses && keysDiffer && o.ret != 0 then
        [s!"MONITOR C16-REJECTED-IN-DOMAIN {ctx}: returned {o.ret}"] else []
  -- 3. FIPS
  let c13 : List String :=
    if o.build != "fips" then [] else
    match s.cls with
    | .service => []
    | .nonApproved =>
        if o.ret != ERR_FIPS_INVALID_ALGO || o.acc != 0 || o.wr != 0 || o.calls != "-" then
          [s!"MONITOR C13-NONAPPROVED {ctx}: ret {o.ret} acc {o.acc} wr {o.wr} calls {o.calls}"] else []
    | .approved =>
        let names := callNames o.calls
        (if !env.gatePasses && (!stubCalls.isEmpty || o.wr != 0) then
           [s!"MONITOR C13-NOT-GATED {ctx}: self tests not passed, yet calls {o.calls} / writes {o.wr}"] else []) ++
        (if !env.gatePasses && o.ret == 0 then
           [s!"MONITOR C13-NOT-GATED {ctx}: returned 0 although the self tests have not passed"] else []) ++
        (if o.st == 2 && !stubCalls.isEmpty && names.head? != some "T" then
           [s!"MONITOR C13-WORK-BEFORE-TESTS {ctx}: calls {o.calls}"] else []) ++
        (match s.xtsKeys with
         | some ((_, .raw n), _) =>
             if inDom && o.eq ≥ 16 * n && o.ret != ERR_XTS_SAME_KEYS then
               [s!"MONITOR C13-XTS-SAME-KEY {ctx}: identical raw keys, returned {o.ret}"] else []
         | _ => [])
  corr ++ c16 ++ c13

end IsalVerif.Driver.Wrap
