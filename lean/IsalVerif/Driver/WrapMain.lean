/-
  IsalVerif/Driver/WrapMain.lean - `wrap_model`

    wrap_model report            print every per-run obligation list (`failing…`) of
                                 GenProps/Wrappers.lean - the witnesses when an obligation fails
    wrap_model check [unwrapped-symbol …] < lines
                                 compare harness lines (drv_api stub mode, either build) with the
                                 model and the documented domain; prints MONITOR lines and a summary
-/
import IsalVerif.Driver.Wrap
import IsalVerif.Gen.WrappersDefault
import IsalVerif.Gen.WrappersFips

open IsalVerif.Wrapper IsalVerif.Wrapper.Obl IsalVerif.ApiDomain IsalVerif.Driver.Wrap
open IsalVerif.Gen

def report : IO Unit := do
  let D := WrappersDefault.entries
  let F := WrappersFips.entries
  let show' (n : String) (l : List String) : IO Unit :=
    IO.println s!"{if l.isEmpty then "ok  " else "FAIL"} {n} = {l}"
  show' "shapeMismatchDefault" (shapeMismatch D)
  show' "shapeMismatchFips" (shapeMismatch F)
  show' "failingOpaqueDefault" (failingOpaque D)
  show' "failingOpaqueFips" (failingOpaque F)
  show' "failingGate" (failingGate F)
  show' "failingNonApproved" (failingNonApproved F)
  show' "failingXts" (failingXts F)
  show' "failingGuards" (failingGuards false D)
  show' "failingGuardsFips" (failingGuards true F)
  show' "failingDomain" (failingDomain false D)
  show' "failingDomainFips" (failingDomain true F)
  show' "failingCtxMap" (failingCtxMap false D)
  show' "failingCtxMapFips" (failingCtxMap true F)
  show' "failingLegacy" (failingLegacy D WrappersDefault.legacy WrappersDefault.pairs)
  show' "failingPairing" (failingPairing D WrappersDefault.pairs)

/-- Verdicts are aggregated by (kind, entry point): count and first witness. -/
abbrev Agg := Array (String × Nat × String)

def Agg.add (a : Agg) (verdict : String) : Agg :=
  -- "MONITOR <kind> <entry> ..."
  let toks := verdict.splitOn " "
  let key := (toks.getD 1 "") ++ " " ++ (toks.getD 2 "")
  match a.findIdx? (·.1 == key) with
  | some i => a.modify i fun (k, n, w) => (k, n + 1, w)
  | none => a.push (key, 1, verdict)

partial def loop (h : IO.FS.Stream) (unwrapped : List String)
    (dE fE : Array Entry) (spec : Array ApiSpec) (dS fS : Array String)
    (lines monitors : Nat) (agg : Agg) : IO (Nat × Nat × Agg) := do
  let line ← h.getLine
  if line.isEmpty then return (lines, monitors, agg)
  let line := line.trimAsciiEnd.toString
  match parseLine line with
  | none => loop h unwrapped dE fE spec dS fS lines monitors agg
  | some o =>
    let (es, ss) := if o.build == "fips" then (fE, fS) else (dE, dS)
    let vs := match es[o.index]?, spec[o.index]? with
      | some e, some s =>
        if e.name != o.name then
          [s!"MONITOR CORR-TABLE {o.name} is entry {o.index} in the harness, the model has {e.name}"]
        else checkLine e s ss unwrapped o
      | _, _ => [s!"MONITOR CORR-TABLE {o.name} no entry {o.index} in the model"]
    loop h unwrapped dE fE spec dS fS (lines + 1) (monitors + vs.length) (vs.foldl Agg.add agg)

def main (args : List String) : IO UInt32 := do
  match args with
  | ["report"] => report; return 0
  | "check" :: unwrapped =>
    let stdin ← IO.getStdin
    let (lines, monitors, agg) ← loop stdin unwrapped WrappersDefault.entries.toArray
      WrappersFips.entries.toArray api.toArray WrappersDefault.symNames.toArray
      WrappersFips.symNames.toArray 0 0 #[]
    for (_, n, w) in agg do
      IO.println s!"{w}   [{n} such calls]"
    IO.println s!"SUMMARY wrap_model check lines={lines} monitors={monitors} distinct={agg.size}"
    return 0
  | _ =>
    IO.eprintln "usage: wrap_model report | wrap_model check [unwrapped symbols…] < harness-lines"
    return 2
