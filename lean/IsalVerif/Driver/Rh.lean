import IsalVerif.Impl.RollingRun
/-!
Line-protocol front end of the rolling-hash model (`Impl/RollingRun.lean`), the counterpart of
`harness/drv_rolling.c`.  One result line per operation line:

    E rh <impl>                      → E                      new episode, fresh state
    I <w>                            → rc=<isal_rolling_hash2_init return code>
    R <dataseed>                     → h=<hash, 16 hex>       reset with xsBytes dataseed w
    N <len> <dataseed> <mask> <trig> → ret=<0 hit|1 max> off=<offset> h=<hash> hist=<w bytes, oldest first>
    M <mean> <shift>                 → mask=<decimal>

The model always runs the base scan: it is the specification of all implementations.
-/
namespace IsalVerif.Driver.Rh
open IsalVerif IsalVerif.Impl.Rolling

def hex64 (x : UInt64) : String := hexOf (bytesBE64 x)

/-- the `w` meaningful history bytes, oldest → newest (`history[0..w)`: the layout is linear) -/
def histHex (st : RhState) : String := hexOf (st.history.take st.w)

def step (st : RhState) (toks : List String) : RhState × String :=
  match toks with
  | ["I", w] =>
    let (rc, st') := isalInit st w.toNat!
    (st', s!"rc={rc}")
  | ["R", seed] =>
    let st' := reset st (xsBytes seed.toNat!.toUInt64 st.w).toArray
    (st', s!"h={hex64 st'.hash}")
  | ["N", len, seed, mask, trig] =>
    let n := len.toNat!
    let r := runBase st (xsBytes seed.toNat!.toUInt64 n).toArray n mask.toNat!.toUInt32 trig.toNat!.toUInt32
    (r.state, s!"ret={r.ret} off={r.offset} h={hex64 r.state.hash} hist={histHex r.state}")
  | ["M", mean, shift] => (st, s!"mask={(maskGen mean.toNat! shift.toNat!).toNat}")
  | _ => (st, "bad-op")

end IsalVerif.Driver.Rh
