import IsalVerif.Impl.GcmStream
import IsalVerif.Spec.Xts
import IsalVerif.Spec.Cbc
/-! Line-protocol driver for AES-GCM (streaming model + one-shot spec), XTS, CBC, key expansion. -/
namespace IsalVerif.Driver
open IsalVerif Aes

def fnv64 (l : Bytes) : UInt64 :=
  l.foldl (fun h b => (h ^^^ b.toUInt64) * 1099511628211) 14695981039346656037

def showOut (l : Bytes) : String := s!"{l.length}:{hexOf (bytesBE64 (fnv64 l))}:{hexOf (l.take 8)}"

structure ASt where
  lazy256 : Bool := false
  rks : List Bytes := []
  ctx : GcmStream.Ctx := ⟨[], 0, 0, [], [], [], 0⟩

def showCtx (c : GcmStream.Ctx) : String :=
  let pk := if c.pbLen = 0 then "-" else hexOf (c.pbEncKey.drop c.pbLen)
  s!"ah={hexOf c.aadHash} ctr={hexOf c.curCount} al={c.aadLen} il={c.inLen} pl={c.pbLen} pk={pk}"

def sd (s : String) : UInt64 := UInt64.ofNat s.toNat!

def aesStep (s : ASt) (toks : List String) : ASt × String :=
  match toks with
  | ["GK", bits, kseed] =>
    let key := xsBytes (sd kseed) (bits.toNat! / 8)
    ({ s with rks := keyExpansion key }, "ok")
  | ["GI", ivseed, aadlen, aadseed] =>
    let c := GcmStream.init s.rks (xsBytes (sd ivseed) 12) (xsBytes (sd aadseed) aadlen.toNat!)
    ({ s with ctx := c }, showCtx c)
  | ["GU", dir, len, seed] =>
    let r := GcmStream.update s.rks (dir == "d") s.ctx (xsBytes (sd seed) len.toNat!) s.lazy256
    ({ s with ctx := r.1 }, s!"out={showOut r.2} " ++ showCtx r.1)
  | ["GF", tl] =>
    let r := GcmStream.finalize s.rks s.ctx tl.toNat!
    ({ s with ctx := r.1 }, s!"tag={hexOf r.2}")
  | ["GO", dir, len, seed, ivseed, aadlen, aadseed, tl] =>
    -- one-shot: the SP 800-38D definition itself
    let data := xsBytes (sd seed) len.toNat!
    let iv := xsBytes (sd ivseed) 12
    let aad := xsBytes (sd aadseed) aadlen.toNat!
    let r := if dir == "d" then Gcm.gcmDecExp s.rks iv aad data tl.toNat! else Gcm.gcmEncExp s.rks iv aad data tl.toNat!
    (s, s!"out={showOut r.1} tag={hexOf r.2}")
  | ["X", dir, bits, k1seed, k2seed, twseed, len, seed, exp] =>
    let n := bits.toNat! / 8
    let k1 := xsBytes (sd k1seed) n; let k2 := xsBytes (sd k2seed) n
    let tw := xsBytes (sd twseed) 16
    let data := xsBytes (sd seed) len.toNat!
    let out :=
      if exp == "1" then
        (if dir == "d" then Xts.xtsDecExp (keyExpansion k2) (decSchedule (keyExpansion k1)) tw data
         else Xts.xtsEncExp (keyExpansion k2) (keyExpansion k1) tw data)
      else (if dir == "d" then Xts.xtsDec k2 k1 tw data else Xts.xtsEnc k2 k1 tw data)
    (s, s!"out={showOut out}")
  | ["C", dir, bits, kseed, ivseed, len, seed] =>
    let key := xsBytes (sd kseed) (bits.toNat! / 8)
    let iv := xsBytes (sd ivseed) 16
    let data := xsBytes (sd seed) len.toNat!
    let rks := keyExpansion key
    let out := if dir == "d" then Cbc.cbcDecEq (decSchedule rks) iv data else Cbc.cbcEnc rks iv data
    (s, s!"out={showOut out}")
  | ["K", bits, kseed] =>
    let key := xsBytes (sd kseed) (bits.toNat! / 8)
    let rks := keyExpansion key
    (s, s!"enc={showOut rks.flatten} dec={showOut (decSchedule rks).flatten}")
  | _ => (s, "bad-op")

end IsalVerif.Driver
