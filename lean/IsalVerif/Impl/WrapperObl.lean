/-
  IsalVerif/Impl/WrapperObl.lean

  The per-run obligations over a translated table of entry points, as lists of the NAMES of the
  entry points that fail a checker (`failing… es = []` is the obligation; a non-empty list is the
  list of witnesses).  `GenProps/Wrappers.lean` instantiates them with the generated tables and
  discharges them by `decide`; `Props/C13.lean` and `Props/C16.lean` turn `failing… = []` into the
  semantic statements through the soundness lemmas of the checkers.
-/
import IsalVerif.Impl.WrapperC13
import IsalVerif.Impl.WrapperC16

namespace IsalVerif.Wrapper.Obl
open IsalVerif.Wrapper IsalVerif.ApiDomain

/-- Generated entries joined with the hand-written specification, by position. -/
def joined (es : List Entry) : List (Entry × ApiSpec) := es.zip api

/-- Names of the joined entries that satisfy `bad`. -/
def failing (es : List Entry) (bad : Entry → ApiSpec → Bool) : List String :=
  ((joined es).filter fun p => bad p.1 p.2).map fun p => p.1.name

theorem failing_nil {es : List Entry} {bad : Entry → ApiSpec → Bool} (h : failing es bad = []) :
    ∀ p ∈ joined es, bad p.1 p.2 = false := by
  intro p hp
  simp only [failing, List.map_eq_nil_iff, List.filter_eq_nil_iff] at h
  simpa using h p hp

/-- The table has one entry per specification entry, with the same names and parameter names. -/
def shapeMismatch (es : List Entry) : List String :=
  (if es.length == api.length then [] else ["<number of entry points>"]) ++
  failing es fun e s => !(e.name == s.name && e.params.map (·.name) == s.params)

def isService (s : ApiSpec) : Bool := s.cls == .service

/-- Entry points whose body contains a statement outside the language (service entries - the
    self-test protocol itself is property C17 - are exempt). -/
def failingOpaque (es : List Entry) : List String :=
  failing es fun e s => !isService s && !noOpaque e.body

/-! ### C13 (FIPS table) -/

def failingGate (es : List Entry) : List String :=
  failing es fun e s => s.cls == .approved && !wellGated e.body

def failingNonApproved (es : List Entry) : List String :=
  failing es fun e s => s.cls == .nonApproved && !nonApproved e.body

def failingXts (es : List Entry) : List String :=
  failing es fun e s => match s.xtsKeys with
    | some keys => !xtsSameKey keys e.body
    | none => false

/-! ### C16 (default table; `onlyApproved` restricts to the approved entries, for the FIPS table) -/

def inScope (onlyApproved : Bool) (s : ApiSpec) : Bool :=
  if onlyApproved then s.cls == .approved else !isService s

def failingGuards (onlyApproved : Bool) (es : List Entry) : List String :=
  failing es fun e s => inScope onlyApproved s && !guardsBeforeUse e.params e.body

def failingDomain (onlyApproved : Bool) (es : List Entry) : List String :=
  failing es fun e s => inScope onlyApproved s && !domainChecks s e.body

/-- Entry points with context-reported constraints (`flags`) whose tail does not map the context
    errors to the documented codes. -/
def failingCtxMap (onlyApproved : Bool) (es : List Entry) : List String :=
  failing es fun e s => inScope onlyApproved s && !s.calleeReported.isEmpty &&
    !reportsCtxErrors (leadGuards e.body).2

def findEntry (es : List Entry) (name : String) : Option Entry := es.find? fun e => e.name == name

/-- Legacy functions that do not make the same call as the isal_ entry point their deprecation
    notice names. -/
def failingLegacy (es legacy : List Entry) (pairs : List (String × String)) : List String :=
  (pairs.filter fun p =>
    match findEntry legacy p.1, findEntry es p.2 with
    | some l, some i => !sameCallAs l i
    | _, _ => true).map (·.1)

/-- isal_ entry points (other than the service ones) that are not named by exactly one
    deprecation notice. -/
def failingPairing (es : List Entry) (pairs : List (String × String)) : List String :=
  failing es fun e s => !isService s && (pairs.filter fun p => p.2 == e.name).length != 1

end IsalVerif.Wrapper.Obl
