import IsalVerif.Impl.ResubmitC
/-!
  IsalVerif/Impl/TopUpC.lean — the second half of the C functions `_<alg>_ctx_mgr_submit_<family>`: the block that
  tops up / completes the carried partial block and the final `return <alg>_ctx_mgr_resubmit(mgr, ctx)`, as data
  (T-route, `tools/gen_topup.py`).  Expressions are `ResubmitC.Y` (locals: 0 = the parameter `len`, 1 = `copy_len`,
  10.. = guards of the flattened `if`s); the context fields are read from a `ResubmitC.St`.
-/
namespace IsalVerif.TopUpC
open IsalVerif.ResubmitC (Y Fld St)

inductive B
  | setLoc (i : Nat) (e : Y)
  | setF (f : Fld) (e : Y)
  /-- `memcpy(&ctx->partial_block_buffer[off], buffer, n)` -/
  | cpyHead (off n : Y)
  /-- `ctx->incoming_buffer = (const char *) buffer + n` -/
  | advIn (n : Y)
  /-- `ctx->job.buffer = ctx->partial_block_buffer; ctx->job.len = n; ctx = <mgr submit>(&mgr->mgr, &ctx->job);` -/
  | submitPart (n : Y)
  /-- `return <alg>_ctx_mgr_resubmit(mgr, ctx);` -/
  | retResubmit
  | unsupported (src : String)
  deriving DecidableEq, Repr, Inhabited

structure G where
  guard : Option Nat
  stmt : B
  deriving DecidableEq, Repr, Inhabited

/-- state: the scalar/byte view of `ResubmitC.St` plus the job submitted from the partial buffer, if any -/
structure T where
  s : St
  job : Option Nat := none

inductive Out
  | cont (t : T)
  | resub (t : T)
  | bad

def step (o : Out) (g : G) : Out :=
  match o with
  | .cont t =>
    if (match g.guard with | none => true | some i => t.s.locs i != 0) then
      match g.stmt with
      | .setLoc i e => .cont { t with s := t.s.setLoc i (e.eval t.s % 2^32) }
      | .setF f e => .cont { t with s := t.s.put f (e.eval t.s) }
      | .cpyHead off n =>
        if off.eval t.s = t.s.part.length ∧ n.eval t.s ≤ t.s.incoming.length then
          .cont { t with s := { t.s with part := t.s.part ++ t.s.incoming.take (n.eval t.s) } }
        else .bad
      | .advIn n =>
        if n.eval t.s ≤ t.s.incoming.length then .cont { t with s := { t.s with incoming := t.s.incoming.drop (n.eval t.s) } }
        else .bad
      | .submitPart n => if t.job.isNone then .cont { t with job := some (n.eval t.s) } else .bad
      | .retResubmit => .resub t
      | .unsupported _ => .bad
    else .cont t
  | o => o

def run (prog : List G) (t : T) : Out := prog.foldl step (.cont t)

/-- the block as written in the 23 files today -/
def canon (Bs : Nat) : List G :=
  [ ⟨none, .setLoc 10 (.or (.fld .plen) (.lt (.loc 0) (.lit Bs)))⟩,
    ⟨some 10, .setLoc 1 (.trunc 32 (.sub (.lit Bs) (.fld .plen)))⟩,
    ⟨none, .setLoc 11 (.land (.loc 10) (.lt (.loc 0) (.loc 1)))⟩,
    ⟨some 11, .setLoc 1 (.loc 0)⟩,
    ⟨none, .setLoc 12 (.land (.loc 10) (.loc 1))⟩,
    ⟨some 12, .cpyHead (.fld .plen) (.loc 1)⟩,
    ⟨some 12, .setF .plen (.trunc 32 (.add (.fld .plen) (.loc 1)))⟩,
    ⟨some 12, .advIn (.loc 1)⟩,
    ⟨some 12, .setF .inlen (.trunc 32 (.sub (.loc 0) (.loc 1)))⟩,
    ⟨none, .setLoc 13 (.land (.loc 10) (.lnot (.lt (.fld .plen) (.lit Bs))))⟩,
    ⟨some 13, .setF .plen (.lit 0)⟩,
    ⟨some 13, .submitPart (.lit 1)⟩,
    ⟨none, .retResubmit⟩ ]

structure Src where
  file : String
  alg : String
  prog : List G
  deriving Repr

end IsalVerif.TopUpC
