import IsalVerif.Impl.HashMB
/-!
  IsalVerif/Impl/ResubmitC.lean — one iteration of the `while (ctx)` loop of the static C function
  `<alg>_ctx_mgr_resubmit` of the SIMD-family context-layer files, as data (T-route, `tools/gen_resubmit.py`).

  The translator flattens the nested `if`s: the value of every `if` condition is stored in a guard local when the
  `if` is reached (conjoined with the guard of the enclosing block), and every statement carries the guard of the
  block it sits in.  An iteration ends at the first `ret` (`return ctx;`) or `submit` (`ctx = <mgr submit>(&mgr->mgr,
  &ctx->job); continue;`) whose guard holds.  Locals: 0 = `len`, 1 = `copy_len`, 2 = `n_extra_blocks`, 10.. = guards.
-/
namespace IsalVerif.ResubmitC

inductive Fld | status | total | plen | inlen
  deriving DecidableEq, Repr, Inhabited

inductive Y
  | fld (f : Fld) | loc (i : Nat) | lit (k : Nat)
  | add (a b : Y) | sub (a b : Y) | and (a b : Y) | or (a b : Y)
  | shr (a : Y) (k : Nat) | trunc (w : Nat) (a : Y)
  | lnot (a : Y) | land (a b : Y) | lor (a b : Y) | lt (a b : Y) | eq (a b : Y)
  deriving DecidableEq, Repr, Inhabited

inductive B
  | setLoc (i : Nat) (e : Y)
  | setF (f : Fld) (e : Y)
  /-- `memcpy(ctx->partial_block_buffer, (const char *) buffer + off, n)` with `buffer = ctx->incoming_buffer` -/
  | cpyTail (off n : Y)
  /-- `loc i = hash_pad(ctx->partial_block_buffer, ctx->total_length)` -/
  | pad (i : Nat)
  /-- SM3: `for (j < NWORDS) result_digest[j] = byteswap32(result_digest[j]);` -/
  | finDigest
  /-- `ctx->job.buffer = <partial buffer | caller's buffer>; ctx->job.len = n; ctx = <mgr submit>(…); continue;` -/
  | submit (fromPart : Bool) (n : Y)
  /-- `return ctx;` -/
  | ret
  | unsupported (src : String)
  deriving DecidableEq, Repr, Inhabited

structure G where
  guard : Option Nat
  stmt : B
  deriving DecidableEq, Repr, Inhabited

structure St where
  status : Nat
  total : Nat
  plen : Nat
  inlen : Nat
  /-- `partial_block_buffer[0 .. plen)` -/
  part : Bytes
  /-- the caller's buffer `incoming_buffer[0 .. incoming_buffer_length)` as of loop entry (the local `buffer`) -/
  incoming : Bytes
  locs : Nat → Nat := fun _ => 0
  /-- digest words byte-swapped by this iteration -/
  fin : Bool := false
  /-- `hash_pad` ran on the partial buffer -/
  padded : Bool := false

def b2n (b : Bool) : Nat := if b then 1 else 0

def Y.eval (s : St) : Y → Nat
  | .fld .status => s.status % 2^32
  | .fld .total => s.total % 2^64
  | .fld .plen => s.plen % 2^32
  | .fld .inlen => s.inlen % 2^32
  | .loc i => s.locs i
  | .lit k => k % 2^64
  | .add a b => (a.eval s + b.eval s) % 2^64
  | .sub a b => (a.eval s + (2^64 - b.eval s % 2^64)) % 2^64
  | .and a b => a.eval s &&& b.eval s
  | .or a b => a.eval s ||| b.eval s
  | .shr a k => a.eval s / 2^k
  | .trunc w a => a.eval s % 2^w
  | .lnot a => if a.eval s = 0 then 1 else 0
  | .land a b => if a.eval s = 0 then 0 else if b.eval s = 0 then 0 else 1
  | .lor a b => if a.eval s = 0 then (if b.eval s = 0 then 0 else 1) else 1
  | .lt a b => if a.eval s < b.eval s then 1 else 0
  | .eq a b => if a.eval s = b.eval s then 1 else 0

def St.setLoc (s : St) (i v : Nat) : St := { s with locs := fun j => if j = i then v else s.locs j }

def St.put (s : St) (f : Fld) (v : Nat) : St :=
  match f with
  | .status => { s with status := v % 2^32 }
  | .total => { s with total := v % 2^64 }
  | .plen => { s with plen := v % 2^32 }
  | .inlen => { s with inlen := v % 2^32 }

inductive Out
  | cont (s : St)
  | ret (s : St)
  | submit (s : St) (fromPart : Bool) (n : Nat)
  | bad

/-- `padN`: the value `hash_pad` returns for this context's total (tied to the source by GenProps/HashPad.lean) -/
def step (padN : Nat) (o : Out) (g : G) : Out :=
  match o with
  | .cont s =>
    if (match g.guard with | none => true | some i => s.locs i != 0) then
      match g.stmt with
      | .setLoc i e => .cont (s.setLoc i (e.eval s % 2^32))
      | .setF f e => .cont (s.put f (e.eval s))
      | .cpyTail off n =>
        if off.eval s + n.eval s ≤ s.incoming.length then
          .cont { s with part := (s.incoming.drop (off.eval s)).take (n.eval s) }
        else .bad
      | .pad i => .cont { s.setLoc i (padN % 2^32) with padded := true }
      | .finDigest => .cont { s with fin := true }
      | .submit fp n => .submit s fp (n.eval s)
      | .ret => .ret s
      | .unsupported _ => .bad
    else .cont s
  | o => o

def run (padN : Nat) (prog : List G) (s : St) : Out := prog.foldl (step padN) (.cont s)

/-- the loop body as written in the 23 files today (`fin`: the SM3 files byte-swap the digest on completion) -/
def canon (Bs lg : Nat) (fin : Bool) : List G :=
  [ ⟨none, .setLoc 10 (.and (.fld .status) (.lit 4))⟩,
    ⟨some 10, .setF .status (.lit 4)⟩ ] ++
  (if fin then [⟨some 10, .finDigest⟩] else []) ++
  [ ⟨some 10, .ret⟩,
    ⟨none, .setLoc 11 (.land (.eq (.fld .plen) (.lit 0)) (.fld .inlen))⟩,
    ⟨some 11, .setLoc 0 (.fld .inlen)⟩,
    ⟨some 11, .setLoc 1 (.and (.loc 0) (.lit (Bs - 1)))⟩,
    ⟨none, .setLoc 12 (.land (.loc 11) (.loc 1))⟩,
    ⟨some 12, .setLoc 0 (.trunc 32 (.sub (.loc 0) (.loc 1)))⟩,
    ⟨some 12, .cpyTail (.loc 0) (.loc 1)⟩,
    ⟨some 12, .setF .plen (.loc 1)⟩,
    ⟨some 11, .setF .inlen (.lit 0)⟩,
    ⟨some 11, .setLoc 0 (.shr (.loc 0) lg)⟩,
    ⟨none, .setLoc 13 (.land (.loc 11) (.loc 0))⟩,
    ⟨some 13, .submit false (.loc 0)⟩,
    ⟨none, .setLoc 14 (.and (.fld .status) (.lit 2))⟩,
    ⟨some 14, .pad 2⟩,
    ⟨some 14, .setF .status (.lit 5)⟩,
    ⟨some 14, .submit true (.loc 2)⟩,
    ⟨none, .setF .status (.lit 0)⟩,
    ⟨none, .ret⟩ ]

structure Src where
  file : String
  alg : String
  prog : List G
  deriving Repr

end IsalVerif.ResubmitC
