import IsalVerif.Impl.PadC
/-!
  IsalVerif/Impl/MhTailC.lean — the C function `MH_SHA1_TAIL_FUNCTION` / `MH_SHA256_TAIL_FUNCTION`
  (`mh_sha1/mh_sha1_finalize_base.c`, `mh_sha256/mh_sha256_finalize_base.c`; one instance per SIMD family) as data
  (T-route, `tools/gen_mhupdate.py`).  Locals: 0 = the parameter `total_len` (uint32), 1 = `partial_buffer_len`
  (uint64), 2 = `len_in_bit` (uint64); 10.. = guards of the flattened `if`s.
-/
namespace IsalVerif.MhTailC

inductive Z
  | loc (i : Nat) | lit (k : Nat)
  | add (a b : Z) | sub (a b : Z) | and (a b : Z) | shl (a : Z) (k : Nat) | shr (a : Z) (k : Nat)
  | trunc (w : Nat) (a : Z) | bswap64 (a : Z)
  | lnot (a : Z) | land (a b : Z) | lt (a b : Z) | eq (a b : Z)
  deriving DecidableEq, Repr, Inhabited

inductive B
  | setLoc (i : Nat) (e : Z)
  /-- `partial_buffer[off] = v` -/
  | setByte (off : Z) (v : Nat)
  /-- `memset(partial_buffer + off, 0, n)` -/
  | clrAt (off n : Z)
  /-- `BLOCK_FUNCTION(partial_buffer, digests, frame, n)` -/
  | blockPart (n : Z)
  /-- `*(uint64_t *) (partial_buffer + off) = e` (little-endian machine) -/
  | store64 (off e : Z)
  /-- `_sha1_for_mh_sha1((uint8_t *) segs_digests, digests, n)` (resp. sha256): the outer hash over `n` bytes of
      interim digests -/
  | finalSha (n : Nat)
  | ret
  | unsupported (src : String)
  deriving DecidableEq, Repr, Inhabited

structure G where
  guard : Option Nat
  stmt : B
  deriving DecidableEq, Repr, Inhabited

structure St where
  /-- `partial_buffer[0 .. 2048)` -/
  part : Bytes
  locs : Nat → Nat
  /-- the 1024-byte blocks handed to the block function, in order -/
  calls : List Bytes := []
  /-- byte count of the outer hash, once it has run -/
  final : Option Nat := none

def Z.eval (s : St) : Z → Nat
  | .loc i => s.locs i
  | .lit k => k % 2^64
  | .add a b => (a.eval s + b.eval s) % 2^64
  | .sub a b => (a.eval s + (2^64 - b.eval s % 2^64)) % 2^64
  | .and a b => a.eval s &&& b.eval s
  | .shl a k => (a.eval s * 2^k) % 2^64
  | .shr a k => a.eval s / 2^k
  | .trunc w a => a.eval s % 2^w
  | .bswap64 a => PadC.bswapNat (a.eval s % 2^64)
  | .lnot a => if a.eval s = 0 then 1 else 0
  | .land a b => if a.eval s = 0 then 0 else if b.eval s = 0 then 0 else 1
  | .lt a b => if a.eval s < b.eval s then 1 else 0
  | .eq a b => if a.eval s = b.eval s then 1 else 0

def St.setLoc (s : St) (i v : Nat) : St := { s with locs := fun j => if j = i then v else s.locs j }

def poke (buf : Bytes) (off : Nat) (v : Bytes) : Bytes := buf.take off ++ v ++ buf.drop (off + v.length)

inductive Out
  | cont (s : St)
  | ret (s : St)
  | bad

/-- width of a local: `total_len` is `uint32_t`, the others `uint64_t`; guards are truth values -/
def locW (i : Nat) : Nat := if i = 0 then 2^32 else 2^64

def step (o : Out) (g : G) : Out :=
  match o with
  | .cont s =>
    if (match g.guard with | none => true | some i => s.locs i != 0) then
      match g.stmt with
      | .setLoc i e => .cont (s.setLoc i (e.eval s % locW i))
      | .setByte off v =>
        if off.eval s + 1 ≤ s.part.length then .cont { s with part := poke s.part (off.eval s) [UInt8.ofNat v] } else .bad
      | .clrAt off n =>
        if off.eval s + n.eval s ≤ s.part.length then
          .cont { s with part := poke s.part (off.eval s) (List.replicate (n.eval s) 0) }
        else .bad
      | .blockPart n =>
        if n.eval s = 1 ∧ 1024 ≤ s.part.length ∧ s.final.isNone then .cont { s with calls := s.calls ++ [s.part.take 1024] }
        else .bad
      | .store64 off e =>
        if off.eval s + 8 ≤ s.part.length then .cont { s with part := poke s.part (off.eval s) (natLE 8 (e.eval s)) } else .bad
      | .finalSha n => if s.final.isNone then .cont { s with final := some n } else .bad
      | .ret => .ret s
      | .unsupported _ => .bad
    else .cont s
  | o => o

def run (prog : List G) (s : St) : Out := prog.foldl step (.cont s)

/-- the function as written today; `n` = bytes of interim digests the outer hash reads (4·W·16) -/
def canon (n : Nat) : List G :=
  [ ⟨none, .setLoc 1 (.and (.loc 0) (.lit 1023))⟩,
    ⟨none, .setByte (.loc 1) 128⟩,
    ⟨none, .setLoc 1 (.add (.loc 1) (.lit 1))⟩,
    ⟨none, .clrAt (.loc 1) (.sub (.lit 1024) (.loc 1))⟩,
    ⟨none, .setLoc 10 (.lt (.lit 1016) (.loc 1))⟩,
    ⟨some 10, .blockPart (.lit 1)⟩,
    ⟨some 10, .clrAt (.lit 0) (.lit 1024)⟩,
    ⟨none, .setLoc 2 (.bswap64 (.shl (.loc 0) 3))⟩,
    ⟨none, .store64 (.lit 1016) (.loc 2)⟩,
    ⟨none, .blockPart (.lit 1)⟩,
    ⟨none, .finalSha n⟩,
    ⟨none, .ret⟩ ]

structure Src where
  file : String
  fn : String
  prog : List G
  deriving Repr

end IsalVerif.MhTailC
