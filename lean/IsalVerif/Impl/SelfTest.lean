/-!
# The FIPS self-test once-protocol (C17): abstract transition system

Source: `fips/asm_self_tests.asm` (`asm_check_self_tests_status`, `asm_set_self_tests_status`, the
status word `self_test_status`) and `fips/self_tests.c` (`isal_self_tests`).

## Conventions read off the assembly

* `self_test_status` is one 32-bit word in `.data`, initial value `2`.
  `0 = SELF_TEST_DONE_AND_OK`, `1 = SELF_TEST_DONE_AND_FAIL`, `2 = SELF_TEST_NOT_DONE`,
  `3 = SELF_TEST_RUNNING`.  Bit 1 (`test eax, 2`) means "no verdict yet".
* `asm_check_self_tests_status`:
  ```
  check+0   mov  eax,[status]              -- (A) first load
        1   test eax,2
        2   jnz  4                         -- bit 1 clear: return the loaded value (0 or 1)
        3   ret
        4   mov  eax,2
        5   mov  edx,3
        6   lock cmpxchg [status],edx      -- (B) claim: 2 -> 3
        7   jz   12                        -- won: returns eax = 2 (the header comment says 3; it is 2)
        8   pause
        9   cmp  dword [status],3          -- (C) spin while RUNNING
       10   je   8
       11   mov  eax,[status]              -- (D) re-load, return it
       12   ret
  ```
* `asm_set_self_tests_status(edi)`: `mov [status],edi ; ret`           -- (E) publish
* `isal_self_tests`: `r = check(); if r == 0 return 0; if r == 1 return ISAL_CRYPTO_ERR_SELF_TEST (2016);`
  otherwise `r = _aes_self_tests(); r |= _sha_self_tests(); set(r); return r == 0 ? 0 : 2016`.
  The word that is stored is the *bitwise OR of the two return values*, not a normalised verdict:
  this is what makes defect D2 possible (a return value other than 0/1 ends up in the status word).

## The model

One *atomic step per access to the status word* (A–E), per entry into / return from a self-test
function, and per return from `isal_self_tests`; everything in between is thread-local and
deterministic and is folded into the step that precedes it (`afterCheck`).  That the real
instruction sequences implement exactly these steps is not assumed: it is checked on every run by
`simCheck` (`Impl/SelfTestMachine.lean`, soundness in `Lemmas/SelfTestSim.lean`) on the programs
regenerated from the object files.

Memory model: sequential consistency for the single status word.  x86-TSO is coherent per location and
`lock cmpxchg` drains the store buffer, so for one word this loses no behaviours.
Words are `Nat` (< 2^32 by construction: loaded, OR-ed and stored, never incremented); a C `int`
return value `-1` is the word `4294967295`.
-/
namespace IsalVerif.SelfTest

/-- `SELF_TEST_DONE_AND_OK` -/ abbrev stOk : Nat := 0
/-- `SELF_TEST_DONE_AND_FAIL` -/ abbrev stFail : Nat := 1
/-- `SELF_TEST_NOT_DONE` (initial value of the status word) -/ abbrev stNotDone : Nat := 2
/-- `SELF_TEST_RUNNING` -/ abbrev stRunning : Nat := 3
/-- `ISAL_CRYPTO_ERR_SELF_TEST` (isal_crypto_api.h: 2000 + 16) -/
abbrev errSelfTest : Nat := 2016

/-- the 32-bit word a C `int` return value becomes in `eax` -/
def wordOfInt (v : Int) : Nat := (v % 4294967296).toNat

/-- Control state of one thread inside its call of `isal_self_tests` (next visible action). -/
inductive PC where
  /-- before (A), the first `mov eax,[status]` -/
  | start
  /-- loaded a word with bit 1 set; before (B) `lock cmpxchg [status],edx` with eax=2, edx=3 -/
  | claim
  /-- lost the claim; in the `pause` loop, before (C) `cmp dword [status],3` -/
  | spin
  /-- left the loop; before (D), the second `mov eax,[status]` -/
  | reload
  /-- `asm_check_self_tests_status` returned neither 0 nor 1; before `call _aes_self_tests` -/
  | runAes
  /-- inside `_aes_self_tests` -/
  | inAes
  /-- `_aes_self_tests` returned `a` (kept in ebx); before `call _sha_self_tests` -/
  | runSha (a : Nat)
  /-- inside `_sha_self_tests` -/
  | inSha (a : Nat)
  /-- both returned, `r = a | b`; before (E) the store in `asm_set_self_tests_status(r)` -/
  | publish (r : Nat)
  /-- before the final `ret` of `isal_self_tests` with `eax = v` -/
  | retn (v : Nat)
  /-- `isal_self_tests` has returned `v` (0 = passed, crypto may proceed; 2016 = refused) -/
  | done (v : Nat)
deriving DecidableEq, Repr

/-- ghost events of a step: entering the self tests / the self tests have completed -/
inductive Ev where
  | tau | enter | complete
deriving DecidableEq, Repr

/-- what `isal_self_tests` does with the value `r` returned by `asm_check_self_tests_status`:
    `0 ↦ return 0`, `1 ↦ return ISAL_CRYPTO_ERR_SELF_TEST`, anything else ↦ run the self tests -/
def afterCheck (r : Nat) : PC :=
  if r = 0 then .retn 0 else if r = 1 then .retn errSelfTest else .runAes

/-- return code of the thread that ran the tests: `ret == 0 ? 0 : ISAL_CRYPTO_ERR_SELF_TEST` -/
def codeOf (r : Nat) : Nat := if r = 0 then 0 else errSelfTest

/-- result of one thread step: new control state, new status word, ghost event -/
structure TOut where
  pc : PC
  status : Nat
  ev : Ev
deriving DecidableEq, Repr

/-- One atomic step of a thread in control state `pc` when the status word holds `s`; `c` is the value
    returned by the self-test function (used only by `inAes` / `inSha`).  `none`: the thread has returned. -/
def tstep (pc : PC) (s c : Nat) : Option TOut :=
  match pc with
  | .start     => some ⟨if s &&& 2 = 0 then afterCheck s else .claim, s, .tau⟩      -- (A) + `test eax,2`
  | .claim     => if s = 2 then some ⟨afterCheck 2, 3, .tau⟩                          -- (B) won: check returns 2
                  else some ⟨.spin, s, .tau⟩                                           --     lost
  | .spin      => some ⟨if s = 3 then .spin else .reload, s, .tau⟩                    -- (C)
  | .reload    => some ⟨afterCheck s, s, .tau⟩                                         -- (D)
  | .runAes    => some ⟨.inAes, s, .enter⟩
  | .inAes     => some ⟨.runSha c, s, .tau⟩
  | .runSha a  => some ⟨.inSha a, s, .tau⟩
  | .inSha a   => some ⟨.publish (a ||| c), s, .complete⟩                             -- `or ebx,eax`
  | .publish r => some ⟨.retn (codeOf r), r, .tau⟩                                     -- (E) stores r itself
  | .retn v    => some ⟨.done v, s, .tau⟩
  | .done _    => none

/-- Global state: the status word, ghost counters, ghost owner, and the threads. -/
structure G where
  /-- the shared word `self_test_status` -/
  status : Nat
  /-- ghost: number of entries into `_aes_self_tests` (= number of self-test runs started) -/
  entered : Nat
  /-- ghost: number of returns from `_sha_self_tests` (= number of self-test runs completed) -/
  completed : Nat
  /-- ghost: the thread whose `lock cmpxchg` succeeded and which has not yet published -/
  owner : Option Nat
  th : List PC
deriving DecidableEq, Repr

def Ev.entered : Ev → Nat | .enter => 1 | _ => 0
def Ev.completed : Ev → Nat | .complete => 1 | _ => 0

/-- ghost owner after thread `i` in state `pc` steps -/
def newOwner (g : G) (i : Nat) : PC → Option Nat
  | .claim => if g.status = 2 then some i else g.owner
  | .publish _ => none
  | _ => g.owner

/-- the global state after thread `i` (in state `pc`) made the step `o` -/
def G.apply (g : G) (i : Nat) (pc : PC) (o : TOut) : G :=
  { status := o.status
    entered := g.entered + o.ev.entered
    completed := g.completed + o.ev.completed
    owner := newOwner g i pc
    th := g.th.set i o.pc }

/-- One step of the system: any thread that has not returned takes its next atomic step;
    `vals` is the set of values the self-test functions may return. -/
inductive Step (vals : List Nat) : G → G → Prop where
  | mk {g : G} {i : Nat} {pc : PC} {c : Nat} {o : TOut} :
      g.th[i]? = some pc → c ∈ vals → tstep pc g.status c = some o → Step vals g (g.apply i pc o)

/-- `n` threads, none of which has started; status word `SELF_TEST_NOT_DONE` -/
def G.init (n : Nat) : G := ⟨2, 0, 0, none, List.replicate n .start⟩

/-- states reachable by `n` threads under any interleaving -/
inductive Reach (vals : List Nat) (n : Nat) : G → Prop where
  | init : Reach vals n (G.init n)
  | step {g g'} : Reach vals n g → Step vals g g' → Reach vals n g'

/-- any number of further steps -/
inductive Steps (vals : List Nat) : G → G → Prop where
  | refl {g} : Steps vals g g
  | step {g g' g''} : Steps vals g g' → Step vals g' g'' → Steps vals g g''

/-! ### Deterministic scheduling (liveness, witnesses) -/

/-- thread `i` takes its step, the self-test function (if it is returning) returns `c` -/
def fireWith (g : G) (i c : Nat) : G :=
  match g.th[i]? with
  | some pc => match tstep pc g.status c with
    | some o => g.apply i pc o
    | none => g
  | none => g

/-- as `fireWith`, outcome `c % 2 ∈ {0,1}` (the documented return values) -/
def fire (g : G) (i c : Nat) : G := fireWith g i (c % 2)

/-- state after `t` steps of schedule `σ` (thread scheduled at each instant) with outcome oracle `o` -/
def run (n : Nat) (σ o : Nat → Nat) : Nat → G
  | 0 => G.init n
  | t+1 => fire (run n σ o t) (σ t) (o t)

/-- run a finite schedule of (thread, self-test return value) pairs -/
def runList (g : G) : List (Nat × Nat) → G
  | [] => g
  | (i, c) :: rest => runList (fireWith g i c) rest

def notDone : PC → Bool | .done _ => false | _ => true

def allDone (g : G) : Prop := ∀ pc ∈ g.th, notDone pc = false

/-- every thread that has not returned is scheduled again (weak fairness) -/
def Fair (n : Nat) (σ o : Nat → Nat) : Prop :=
  ∀ i pc t, (run n σ o t).th[i]? = some pc → notDone pc = true → ∃ t', t ≤ t' ∧ σ t' = i

/-- every thread is scheduled infinitely often (implies `Fair`) -/
def StronglyFair (n : Nat) (σ : Nat → Nat) : Prop := ∀ i, i < n → ∀ t, ∃ t', t ≤ t' ∧ σ t' = i

end IsalVerif.SelfTest
