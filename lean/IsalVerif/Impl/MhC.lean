import IsalVerif.Spec.Bits
/-!
  IsalVerif/Impl/MhC.lean — the C function `MH_SHA1_UPDATE_FUNCTION` / `MH_SHA256_UPDATE_FUNCTION`
  (`mh_sha1/mh_sha1_update_base.c`, `mh_sha256/mh_sha256_update_base.c`; instantiated once per SIMD family with another
  block function) as data (T-route, `tools/gen_mhupdate.py`).  Flattened guards as in `ResubmitC`.
  Locals: 0 = the parameter `len` (modified by the function), 1 = `partial_block_len`, 2 = `num_blocks`,
  3 = how far `input_data` has advanced from `buffer`; 10.. = guards.
-/
namespace IsalVerif.MhC

inductive Z
  | total | loc (i : Nat) | lit (k : Nat)
  | add (a b : Z) | sub (a b : Z) | and (a b : Z) | shl (a : Z) (k : Nat) | shr (a : Z) (k : Nat)
  | trunc (w : Nat) (a : Z)
  | lnot (a : Z) | land (a b : Z) | lt (a b : Z) | eq (a b : Z)
  deriving DecidableEq, Repr, Inhabited

inductive B
  | setLoc (i : Nat) (e : Z)
  /-- `ctx->total_length = e` (`+=` expanded by the translator) -/
  | setTotal (e : Z)
  /-- `memcpy(partial_block_buffer + dst, input_data, n)` -/
  | cpyIn (dst n : Z)
  /-- `memset(partial_block_buffer, 0, n)` -/
  | clrPart (n : Nat)
  /-- `BLOCK_FUNCTION(partial_block_buffer, digests, frame, n)` -/
  | blockPart (n : Z)
  /-- `BLOCK_FUNCTION(input_data, digests, frame, n)` -/
  | blockIn (n : Z)
  /-- `return code;` -/
  | ret (code : Int)
  /-- `if (ctx == NULL) return ISAL_MH_SHA*_CTX_ERROR_NULL;` (the context is a valid object here) -/
  | nullCheck
  | unsupported (src : String)
  deriving DecidableEq, Repr, Inhabited

structure G where
  guard : Option Nat
  stmt : B
  deriving DecidableEq, Repr, Inhabited

/-- a call of the block function: the bytes it reads and the block count -/
structure Call where
  fromPart : Bool
  data : Bytes
  n : Nat
  deriving DecidableEq, Repr

structure St where
  total : Nat
  /-- `partial_block_buffer[2048]` -/
  part : Bytes
  /-- the caller's `buffer[0 .. len)` -/
  input : Bytes
  locs : Nat → Nat
  calls : List Call := []

def Z.eval (s : St) : Z → Nat
  | .total => s.total % 2^64
  | .loc i => s.locs i
  | .lit k => k % 2^64
  | .add a b => (a.eval s + b.eval s) % 2^64
  | .sub a b => (a.eval s + (2^64 - b.eval s % 2^64)) % 2^64
  | .and a b => a.eval s &&& b.eval s
  | .shl a k => (a.eval s * 2^k) % 2^64
  | .shr a k => a.eval s / 2^k
  | .trunc w a => a.eval s % 2^w
  | .lnot a => if a.eval s = 0 then 1 else 0
  | .land a b => if a.eval s = 0 then 0 else if b.eval s = 0 then 0 else 1
  | .lt a b => if a.eval s < b.eval s then 1 else 0
  | .eq a b => if a.eval s = b.eval s then 1 else 0

def St.setLoc (s : St) (i v : Nat) : St := { s with locs := fun j => if j = i then v else s.locs j }

/-- bytes of `input_data[0 .. n)` = `buffer[loc 3 .. loc 3 + n)` -/
def St.inBytes (s : St) (n : Nat) : Bytes := (s.input.drop (s.locs 3)).take n

def poke (buf : Bytes) (off : Nat) (v : Bytes) : Bytes := buf.take off ++ v ++ buf.drop (off + v.length)

inductive Out
  | cont (s : St)
  | ret (s : St) (code : Int)
  | bad

/-- width of a local: `input_data` offset is a pointer (64 bits), the others are `uint32_t` -/
def locW (i : Nat) : Nat := if i = 3 then 2^64 else 2^32

def step (o : Out) (g : G) : Out :=
  match o with
  | .cont s =>
    if (match g.guard with | none => true | some i => s.locs i != 0) then
      match g.stmt with
      | .setLoc i e => .cont (s.setLoc i (e.eval s % locW i))
      | .setTotal e => .cont { s with total := e.eval s % 2^64 }
      | .cpyIn dst n =>
        if dst.eval s + n.eval s ≤ s.part.length ∧ s.locs 3 + n.eval s ≤ s.input.length then
          .cont { s with part := poke s.part (dst.eval s) (s.inBytes (n.eval s)) }
        else .bad
      | .clrPart n => if n ≤ s.part.length then .cont { s with part := poke s.part 0 (List.replicate n 0) } else .bad
      | .blockPart n =>
        if n.eval s * 1024 ≤ s.part.length then
          .cont { s with calls := s.calls ++ [⟨true, s.part.take (n.eval s * 1024), n.eval s⟩] }
        else .bad
      | .blockIn n =>
        if s.locs 3 + n.eval s * 1024 ≤ s.input.length then
          .cont { s with calls := s.calls ++ [⟨false, s.inBytes (n.eval s * 1024), n.eval s⟩] }
        else .bad
      | .ret code => .ret s code
      | .nullCheck => .cont s
      | .unsupported _ => .bad
    else .cont s
  | o => o

def run (prog : List G) (s : St) : Out := prog.foldl step (.cont s)

/-- the function as written today -/
def canon : List G :=
  [ ⟨none, .nullCheck⟩,
    ⟨none, .setLoc 10 (.eq (.loc 0) (.lit 0))⟩,
    ⟨some 10, .ret 0⟩,
    ⟨none, .setLoc 1 (.trunc 32 (.and .total (.lit 1023)))⟩,
    ⟨none, .setTotal (.add .total (.loc 0))⟩,
    ⟨none, .setLoc 11 (.lt (.trunc 32 (.add (.loc 0) (.loc 1))) (.lit 1024))⟩,
    ⟨some 11, .cpyIn (.loc 1) (.loc 0)⟩,
    ⟨some 11, .ret 0⟩,
    ⟨none, .setLoc 12 (.lnot (.eq (.loc 1) (.lit 0)))⟩,
    ⟨some 12, .cpyIn (.loc 1) (.trunc 32 (.sub (.lit 1024) (.loc 1)))⟩,
    ⟨some 12, .blockPart (.lit 1)⟩,
    ⟨some 12, .setLoc 3 (.add (.loc 3) (.trunc 32 (.sub (.lit 1024) (.loc 1))))⟩,
    ⟨some 12, .setLoc 0 (.trunc 32 (.sub (.loc 0) (.trunc 32 (.sub (.lit 1024) (.loc 1)))))⟩,
    ⟨some 12, .clrPart 1024⟩,
    ⟨none, .setLoc 2 (.shr (.loc 0) 10)⟩,
    ⟨none, .setLoc 13 (.lt (.lit 0) (.loc 2))⟩,
    ⟨some 13, .blockIn (.loc 2)⟩,
    ⟨some 13, .setLoc 0 (.trunc 32 (.sub (.loc 0) (.trunc 32 (.shl (.loc 2) 10))))⟩,
    ⟨some 13, .setLoc 3 (.add (.loc 3) (.trunc 32 (.shl (.loc 2) 10)))⟩,
    ⟨none, .setLoc 14 (.lnot (.eq (.loc 0) (.lit 0)))⟩,
    ⟨some 14, .cpyIn (.lit 0) (.loc 0)⟩,
    ⟨none, .ret 0⟩ ]

structure Src where
  file : String
  fn : String
  prog : List G
  deriving Repr

end IsalVerif.MhC
