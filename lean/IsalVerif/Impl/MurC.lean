import IsalVerif.Spec.Bits
/-!
  IsalVerif/Impl/MurC.lean — the 64-bit arithmetic of `_murmur3_x64_128_block` (its loop body) and of
  `_murmur3_x64_128_tail` (everything after the tail bytes are gathered) in
  `mh_sha1_murmur3_x64_128/murmur3_x64_128_internal.c`, as data (T-route, `tools/gen_murmur.py`).  The `static inline`
  helpers `blockmix64` / `hashmix64` are inlined by the translator (their bodies are straight-line updates of their own
  parameters).  All values are `uint64_t`; literals and shift counts are kept as `Nat`.
-/
namespace IsalVerif.MurC

/-- `data1`, `data2`, `hash[0]`, `hash[1]` -/
inductive V | d1 | d2 | h0 | h1
  deriving DecidableEq, Repr, Inhabited

inductive E
  | v (x : V)
  /-- block function: `input_qword[i * 2 + k]`; tail function: `hashU.hash[k]` (the gathered tail bytes, zero padded) -/
  | q (k : Nat)
  /-- tail function: `total_len` (uint32) converted to 64 bits -/
  | len
  | lit (c : Nat)
  | mul (a b : E) | add (a b : E) | xor (a b : E) | or (a b : E) | and (a b : E)
  | shl (a : E) (s : Nat) | shr (a : E) (s : Nat)
  deriving DecidableEq, Repr, Inhabited

structure A where
  dst : V
  e : E
  deriving DecidableEq, Repr, Inhabited

structure S where
  d1 : UInt64 := 0
  d2 : UInt64 := 0
  h0 : UInt64
  h1 : UInt64

def S.get (s : S) : V → UInt64
  | .d1 => s.d1 | .d2 => s.d2 | .h0 => s.h0 | .h1 => s.h1

def S.set (s : S) (x : V) (w : UInt64) : S :=
  match x with
  | .d1 => { s with d1 := w } | .d2 => { s with d2 := w } | .h0 => { s with h0 := w } | .h1 => { s with h1 := w }

def E.eval (s : S) (k0 k1 len : UInt64) : E → UInt64
  | .v x => s.get x
  | .q k => if k = 0 then k0 else k1
  | .len => len
  | .lit c => UInt64.ofNat c
  | .mul a b => a.eval s k0 k1 len * b.eval s k0 k1 len
  | .add a b => a.eval s k0 k1 len + b.eval s k0 k1 len
  | .xor a b => a.eval s k0 k1 len ^^^ b.eval s k0 k1 len
  | .or a b => a.eval s k0 k1 len ||| b.eval s k0 k1 len
  | .and a b => a.eval s k0 k1 len &&& b.eval s k0 k1 len
  | .shl a n => a.eval s k0 k1 len <<< UInt64.ofNat n
  | .shr a n => a.eval s k0 k1 len >>> UInt64.ofNat n

def run (prog : List A) (s : S) (k0 k1 len : UInt64) : S :=
  prog.foldl (fun s a => s.set a.dst (a.e.eval s k0 k1 len)) s

/-- `blockmix64(d, a, b, sh)` inlined -/
def bmix (d : E) (a b sh : Nat) : E := .mul (.or (.shl (.mul d (.lit a)) sh) (.shr (.mul d (.lit a)) (64 - sh))) (.lit b)

/-- `hashmix64(x, y, d, add, sh)` inlined -/
def hmix (x y d : E) (add sh : Nat) : E :=
  .add (.mul (.add (.or (.shl (.xor x d) sh) (.shr (.xor x d) (64 - sh))) y) (.lit 5)) (.lit add)

def C1 : Nat := 0x87c37b91114253d5
def C2 : Nat := 0x4cf5ad432745937f

/-- loop body of `_murmur3_x64_128_block` as written today -/
def canonBlock : List A :=
  [ ⟨.d1, .q 0⟩, ⟨.d2, .q 1⟩,
    ⟨.d1, bmix (.v .d1) C1 C2 31⟩,
    ⟨.d2, bmix (.v .d2) C2 C1 33⟩,
    ⟨.h0, hmix (.v .h0) (.v .h1) (.v .d1) 0x52dce729 27⟩,
    ⟨.h1, hmix (.v .h1) (.v .h0) (.v .d2) 0x38495ab5 31⟩ ]

def fmixA (x : V) : List A :=
  [ ⟨x, .xor (.v x) (.shr (.v x) 33)⟩, ⟨x, .mul (.v x) (.lit 0xff51afd7ed558ccd)⟩,
    ⟨x, .xor (.v x) (.shr (.v x) 33)⟩, ⟨x, .mul (.v x) (.lit 0xc4ceb9fe1a85ec53)⟩,
    ⟨x, .xor (.v x) (.shr (.v x) 33)⟩ ]

/-- `_murmur3_x64_128_tail` after the tail bytes are gathered into `hashU` -/
def canonTail : List A :=
  [ ⟨.d1, .q 0⟩, ⟨.d2, .q 1⟩,
    ⟨.d1, bmix (.v .d1) C1 C2 31⟩,
    ⟨.d2, bmix (.v .d2) C2 C1 33⟩,
    ⟨.h0, .xor (.v .h0) (.xor .len (.v .d1))⟩,
    ⟨.h1, .xor (.v .h1) (.xor .len (.v .d2))⟩,
    ⟨.h0, .add (.v .h0) (.v .h1)⟩,
    ⟨.h1, .add (.v .h1) (.v .h0)⟩ ] ++ fmixA .h0 ++ fmixA .h1 ++
  [ ⟨.h0, .add (.v .h0) (.v .h1)⟩,
    ⟨.h1, .add (.v .h1) (.v .h0)⟩ ]

/-- what the translator found around the arithmetic -/
structure Src where
  fn : String
  /-- block: `i = 0; while (i < num_blocks) { …; i++; }` over `input_qword = (uint64_t *) input_data`, `hash = (uint64_t *) digests`;
      tail: `tail_len = total_len % 16; hashU = 0; while (tail_len-- > 0) hashU.hashB[tail_len] = tail[tail_len];` -/
  frame : Bool
  prog : List A
  deriving Repr

end IsalVerif.MurC
