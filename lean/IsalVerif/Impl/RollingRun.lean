import IsalVerif.Spec.Rolling
/-!
# Executable model of `rolling_hash/rolling_hash2.c` and `rolling_hashx_base.c`

Statement-by-statement transcription of

* `_rolling_hash2_init`, `_rolling_hash2_reset`, `hash_fn`, `_rolling_hash2_run`
  (the "glue": history loop, call of the dispatched scan, history refresh, return codes),
* `_rolling_hash2_run_until_base` (the portable inner scan, also in `rolling_hash2.c`; `uint32_t` index
  and bound since commit 4824648),
* `_rolling_hashx_mask_gen` / `floor_pow2` / `rol`,
* the `isal_rolling_hash2_init` wrapper's return code.

The inner scan is a *parameter* of `run` (`ScanFn`): the library reaches it through the dispatch
cell `_rolling_hash2_run_until`; `runUntilBase` is the model of the base version and, at the same
time, the specification of the two assembly versions (`_rolling_hash2_run_until_00`, `_04`).

## Modelling conventions

* `struct isal_rh_state2`: `history` is the 48-byte array as a `List UInt8` (invariant: length 48),
  `hash`, `w`.  `table1` is the constant table (`Spec.Rolling.tableAt`) and `table2` is determined
  by `w` (`table2[i] = (table1[i] << w) | (table1[i] >> (64 - w))`), so they are functions here.
* **History indexing is linear, not circular**: `history[0]` is the oldest byte of the window and
  `history[w-1]` the newest; every exit of `run` re-packs the last `w` bytes to the front
  (`memmove` + `memcpy`, or one `memcpy` from the buffer).  Bytes `history[w..48)` are never touched.
* Caller memory is an `Array UInt8`; a C pointer is a base array plus a signed offset (`Ptr`), so
  that `b2 = buffer - w` can be written down as it is.  A read outside the array yields 0 (the
  property theorems show results equal to the specification for arbitrary data, which would be
  impossible if an out-of-range read ever influenced a result).
* `uint32_t` values (`w`, `i`, `buffer_length`, `*offset`) are `Nat`s; the theorems' hypotheses
  (`w ≤ 48`, `buffer_length < 2^32` — it is a `uint32_t` — and `buffer_length ≤` size of the buffer)
  keep every value below `2^32`, so no wrap-around occurs.  The one conversion in the code, the
  scan's parameter `int max_idx` which the base scan casts back with `(uint32_t) max_idx`, is a
  round trip on 32 bits: the model passes the unsigned value and reduces it mod `2^32` at the cast.
  (Before commit 4824648 the base scan compared `int`s and consumed nothing for lengths `≥ 2^31`,
  defect F4; that code is kept as documentation at the end of `Props/C09.lean`.)
-/
namespace IsalVerif.Impl.Rolling
open IsalVerif.Spec.Rolling

/-! ### constants of `rolling_hashx.h` / `isal_crypto_api.h` -/

def ISAL_FINGERPRINT_RET_HIT : Nat := 0
def ISAL_FINGERPRINT_RET_MAX : Nat := 1
def ISAL_FINGERPRINT_RET_OTHER : Nat := 2
def ISAL_FINGERPRINT_MAX_WINDOW : Nat := 48
def ISAL_CRYPTO_ERR_WINDOW_SIZE : Int := 2018

/-! ### memory helpers -/

/-- caller memory -/
abbrev Buf := Array UInt8

/-- `buf[i]` (0 outside the object) -/
def Buf.rd (b : Buf) (i : Nat) : UInt8 := b.getD i 0

/-- the `n` bytes `buf[off .. off+n)` as read by a `memcpy` -/
def Buf.slice (b : Buf) (off n : Nat) : List UInt8 := (b.extract off (off + n)).toList

/-- `uint8_t *` = object + offset; `buffer - w` is `⟨buffer, -w⟩` -/
structure Ptr where
  buf : Buf
  off : Int

/-- `p[i]` for a signed index -/
def Ptr.rd (p : Ptr) (i : Int) : UInt8 :=
  let j := p.off + i
  if 0 ≤ j then p.buf.rd j.toNat else 0

/-- bytes `[off, off+n)` of a byte list -/
def slice (l : List UInt8) (off n : Nat) : List UInt8 := (l.drop off).take n

/-- `memcpy(dst + off, src, |src|)` on a byte list (`src` already read, so also `memmove`) -/
def store (dst : List UInt8) (off : Nat) (src : List UInt8) : List UInt8 :=
  dst.take off ++ src ++ dst.drop (off + src.length)

/-! ### state -/

/-- `struct isal_rh_state2` after `init` (tables are functions of `w`) -/
structure RhState where
  /-- `uint8_t history[ISAL_FINGERPRINT_MAX_WINDOW]` -/
  history : List UInt8 := List.replicate 48 0
  /-- `uint64_t hash` -/
  hash : UInt64 := 0
  /-- `uint32_t w` -/
  w : Nat := 0

/-- `state->table1[i]` -/
def table1 (i : UInt8) : UInt64 := tableAt i

/-- `(v << w) | (v >> (64 - w))` as written in `_rolling_hash2_init` (`w`, `64 - w` are `uint32_t`;
for `w = 0` the C expression shifts by 64, which is undefined; the model then yields `v`, which is
what x86 produces) -/
def shlor (v : UInt64) (w : Nat) : UInt64 := (v <<< w.toUInt64) ||| (v >>> (64 - w).toUInt64)

/-- `state->table2[i]` -/
def RhState.table2 (st : RhState) (i : UInt8) : UInt64 := shlor (table1 i) st.w

/-- `_rolling_hash2_init`: returns -1 and leaves the state alone when `w < 1` or `w > 48`
(`w = 0` was accepted before `fix:` d0c27ce, finding F15). -/
def init (st : RhState) (w : Nat) : Int × RhState :=
  if w < 1 ∨ w > ISAL_FINGERPRINT_MAX_WINDOW then (-1, st)
  else (0, { st with w := w })

/-- `isal_rolling_hash2_init` (non-FIPS build, non-NULL state) -/
def isalInit (st : RhState) (w : Nat) : Int × RhState :=
  let (rc, st') := init st w
  if rc < 0 then (ISAL_CRYPTO_ERR_WINDOW_SIZE, st') else (0, st')

/-- `hash = (hash << 1) | (hash >> (64 - 1))` -/
def rol1 (h : UInt64) : UInt64 := (h <<< 1) ||| (h >>> (64 - 1))

/-- the loop of `_rolling_hash2_reset`, from index `i` -/
def resetLoop (initBytes : Buf) (w i : Nat) (hash : UInt64) : UInt64 :=
  if i < w then
    let hash := rol1 hash
    let hash := hash ^^^ table1 (initBytes.rd i)
    resetLoop initBytes w (i + 1) hash
  else hash
termination_by w - i

/-- `_rolling_hash2_reset` -/
def reset (st : RhState) (initBytes : Buf) : RhState :=
  let w := st.w
  let hash := resetLoop initBytes w 0 0
  { st with hash := hash, history := store st.history 0 (initBytes.slice 0 w) }

/-- `hash_fn` -/
def hashFn (st : RhState) (h : UInt64) (newChar oldChar : UInt8) : UInt64 :=
  let h := rol1 h
  h ^^^ (table1 newChar ^^^ st.table2 oldChar)

/-! ### the inner scan -/

/-- Signature of `_rolling_hash2_run_until*`:
`(idx, max_idx, t1, t2, b1, b2, h, mask, trigger) ↦ (new *idx, returned hash)`.
`max_idx` is declared `int` but carries the caller's `uint32_t buffer_length`; the model passes
those 32 bits as the unsigned number. -/
abbrev ScanFn :=
  Nat → Nat → (UInt8 → UInt64) → (UInt8 → UInt64) → Ptr → Ptr → UInt64 → UInt64 → UInt64 → Nat × UInt64

/-- One of the two `for (; i < max; i++)` loops of `_rolling_hash2_run_until_base`, `hit` being
its exit test; `uint32_t i`, `const uint32_t max` (`i < max < 2^32`, so `i++` never wraps).
Returns `(i, h)` as at the `return`. -/
def untilLoop (hit : UInt64 → Bool) (max : Nat) (t1 t2 : UInt8 → UInt64) (b1 b2 : Ptr)
    (i : Nat) (h : UInt64) : Nat × UInt64 :=
  if i < max then
    let h := rol1 h
    let h := h ^^^ (t1 (b1.rd (i : Int)) ^^^ t2 (b2.rd (i : Int)))
    if hit h then (i, h)                       -- *idx = i; return h;
    else untilLoop hit max t1 t2 b1 b2 (i + 1) h
  else (i, h)                                  -- *idx = i; return h;  (after the loop)
termination_by max - i

/-- `_rolling_hash2_run_until_base` -/
def runUntilBase : ScanFn := fun idx maxIdx t1 t2 b1 b2 h mask trigger =>
  let i : Nat := idx                           -- uint32_t i = *idx;
  let max : Nat := maxIdx % 2 ^ 32             -- const uint32_t max = (uint32_t) max_idx;
  if trigger == 0 then untilLoop (fun h => (h &&& mask) == 0) max t1 t2 b1 b2 i h
  else untilLoop (fun h => (h &&& mask) == trigger) max t1 t2 b1 b2 i h

/-! ### `_rolling_hash2_run` -/

structure RunResult where
  /-- return value: `ISAL_FINGERPRINT_RET_HIT` / `_MAX` -/
  ret : Nat
  /-- `*offset` -/
  offset : Nat
  state : RhState

/-- the history refresh of the two early exits:
`memmove(history, history + i, w - i); memcpy(history + w - i, buffer, i); state->hash = hash;` -/
def refreshHead (st : RhState) (buffer : Buf) (i : Nat) (hash : UInt64) : RhState :=
  let w := st.w
  let hist := store st.history 0 (slice st.history i (w - i))
  let hist := store hist (w - i) (buffer.slice 0 i)
  { st with history := hist, hash := hash }

/-- the history refresh of the two late exits:
`memcpy(history, buffer + i - w, w); state->hash = hash;` -/
def refreshTail (st : RhState) (buffer : Buf) (i : Nat) (hash : UInt64) : RhState :=
  let w := st.w
  { st with history := store st.history 0 (buffer.slice (i - w) w), hash := hash }

/-- The first loop of `_rolling_hash2_run` (`for (i = 0; i < w; i++)`), entered at `i` with `hash`:
`.inl r` if the function returns from inside the loop, `.inr (i, hash)` when the loop ends. -/
def runHead (st : RhState) (buffer : Buf) (bufferLength : Nat) (mask trigger : UInt32)
    (i : Nat) (hash : UInt64) : RunResult ⊕ (Nat × UInt64) :=
  if i < st.w then
    if i == bufferLength then
      .inl ⟨ISAL_FINGERPRINT_RET_MAX, i, refreshHead st buffer i hash⟩
    else
      let hash := hashFn st hash (buffer.rd i) (st.history.getD i 0)
      if (hash &&& mask.toUInt64) == trigger.toUInt64 then
        let i := i + 1                        -- found hit: i++
        .inl ⟨ISAL_FINGERPRINT_RET_HIT, i, refreshHead st buffer i hash⟩
      else runHead st buffer bufferLength mask trigger (i + 1) hash
  else .inr (i, hash)
termination_by st.w - i

/-- `_rolling_hash2_run(state, buffer, buffer_length, mask, trigger, &offset)` with the inner scan
`scan` in the dispatch cell. -/
def run (scan : ScanFn) (st : RhState) (buffer : Buf) (bufferLength : Nat) (mask trigger : UInt32) :
    RunResult :=
  let w := st.w
  match runHead st buffer bufferLength mask trigger 0 st.hash with
  | .inl r => r
  | .inr (i, hash) =>
    -- hash = _rolling_hash2_run_until(&i, buffer_length, table1, table2, buffer, buffer - w, hash, mask, trigger)
    let (i, hash) := scan i bufferLength table1 st.table2 ⟨buffer, 0⟩ ⟨buffer, -(w : Int)⟩
      hash mask.toUInt64 trigger.toUInt64
    if (hash &&& mask.toUInt64) == trigger.toUInt64 then
      let i := i + 1                          -- found hit: i++
      ⟨ISAL_FINGERPRINT_RET_HIT, i, refreshTail st buffer i hash⟩
    else
      ⟨ISAL_FINGERPRINT_RET_MAX, i, refreshTail st buffer i hash⟩

/-- `run` as the library executes it on a machine without SSE4.1 (and the reference for the others) -/
def runBase : RhState → Buf → Nat → UInt32 → UInt32 → RunResult := run runUntilBase

/-! ### `rolling_hashx_base.c` -/

/-- `in &= (in - 1)` clears the lowest set bit, so the loop of `floor_pow2` terminates -/
theorem clearLowest_lt (inp : UInt32) (h : (inp != 0) = true) :
    (inp &&& (inp - 1)).toNat < inp.toNat := by
  have hne : inp ≠ 0 := by simpa using h
  have hpos : 0 < inp.toNat := by
    rcases Nat.eq_zero_or_pos inp.toNat with h0 | h0
    · exact absurd (UInt32.toNat_inj.mp (by simpa using h0)) hne
    · exact h0
  have hle : (1 : UInt32) ≤ inp := by
    rw [UInt32.le_iff_toNat_le]; exact hpos
  have hsub : (inp - 1).toNat = inp.toNat - 1 := by
    rw [UInt32.toNat_sub_of_le _ _ hle]; rfl
  rw [UInt32.toNat_and, hsub]
  exact Nat.lt_of_le_of_lt Nat.and_le_right (by omega)

/-- `floor_pow2`: `x = in; while (in) { x = in; in &= (in - 1); } return x;` on `uint32_t` -/
def floorPow2Loop (inp x : UInt32) : UInt32 :=
  if h : (inp != 0) = true then floorPow2Loop (inp &&& (inp - 1)) inp else x
termination_by inp.toNat
decreasing_by exact clearLowest_lt inp h

def floorPow2 (inp : UInt32) : UInt32 := floorPow2Loop inp inp

/-- `rol(x, i) = x << i | x >> (32 - i)` on `uint32_t` with `int i`; defined C for `0 < i < 32`.
The model reduces the counts mod 32 like the x86 shifts do, so `i = 0` gives `x`. -/
def rol32C (x : UInt32) (i : Nat) : UInt32 := (x <<< i.toUInt32) ||| (x >>> (32 - i % 32).toUInt32)

/-- `_rolling_hashx_mask_gen(long mean, int shift)` for `0 ≤ mean < 2^32`, `0 ≤ shift`
(the public wrapper passes `uint32_t`s): `if (mean <= 2) mean = 2; return rol(floor_pow2(mean) - 1, shift);` -/
def maskGen (mean shift : Nat) : UInt32 :=
  let mean := if mean ≤ 2 then 2 else mean
  rol32C (floorPow2 mean.toUInt32 - 1) shift

/-! ### callers: sequences of `run` calls (used to state C09) -/

/-- the arguments of one `run` call -/
structure Call where
  buffer : Buf
  maxLen : Nat
  mask : UInt32
  trigger : UInt32

/-- the caller owns `maxLen` bytes, and `maxLen` is a `uint32_t` -/
def Call.Valid (c : Call) : Prop := c.maxLen ≤ c.buffer.size ∧ c.maxLen < 2 ^ 32

/-- Arbitrary successive `run` calls on one state.  Returns the final state and the bytes consumed:
each call consumes the first `*offset` bytes of its buffer. -/
def runCalls (scan : ScanFn) : RhState → List Call → RhState × Bytes
  | st, [] => (st, [])
  | st, c :: cs =>
    let r := run scan st c.buffer c.maxLen c.mask c.trigger
    let (st', rest) := runCalls scan r.state cs
    (st', c.buffer.toList.take r.offset ++ rest)

/-- Scan one `stream` with successive `run` calls: the j-th call is offered at most `lens[j]` bytes
(clipped to what is left of the stream) starting where the previous call stopped (`pos`).
Returns the absolute positions (bytes of the stream consumed so far) at which a call reported HIT,
the final position, and the final state. -/
def scanStream (scan : ScanFn) (stream : Buf) (mask trigger : UInt32) :
    RhState → Nat → List Nat → List Nat × Nat × RhState
  | st, pos, [] => ([], pos, st)
  | st, pos, m :: ms =>
    let len := min m (stream.size - pos)
    let r := run scan st (stream.extract pos stream.size) len mask trigger   -- buffer = stream + pos
    let (hits, p, st') := scanStream scan stream mask trigger r.state (pos + r.offset) ms
    (if r.ret = ISAL_FINGERPRINT_RET_HIT then (pos + r.offset) :: hits else hits, p, st')

end IsalVerif.Impl.Rolling
