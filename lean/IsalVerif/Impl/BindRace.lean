import IsalVerif.Impl.Dispatch
/-!
# BindRace — first calls of one dispatched entry point racing on its dispatch cell (C18)

Every dispatched entry point `e` is the stub `e: jmp [cell]`; the cell initially holds
`e_mbinit: call e_dispatch_init ; jmp [cell]` (shape checked per entry by `tools/gen_dispatch.py`:
`Entry.stub = "call;jmp[cell]"`, and the resolver's only store hits this entry's own cell).  The
resolver is a function of the CPU/OS configuration (`Dispatch.select p cfg`): it reads no memory
and no register of its caller.  A thread's first call therefore is the following little program over
the one shared word `cell`; every access to the word is one atomic step (an aligned 8-byte load /
store on x86-64).  Threads interleave arbitrarily.
-/
namespace IsalVerif.BindRace
open IsalVerif.Dispatch

/-- per-thread program counter -/
inductive PC where
  | start                 -- about to execute `jmp [cell]`
  | resolving             -- inside `e_dispatch_init` (private registers only)
  | resolved (v : Val)    -- resolver finished, about to store `v` into the cell
  | rejump                -- stored; about to execute the second `jmp [cell]`
  | running (v : Val)     -- jumped to implementation `v` (final)
deriving DecidableEq, Repr

structure G where
  cell : Option Val        -- `none` = still bound to the init stub
  th : List PC
deriving Repr

/-- one atomic step of thread `pc` against the shared word -/
def tstep (target : Val) (cell : Option Val) : PC → Option (Option Val × PC)
  | .start => some (cell, match cell with | none => PC.resolving | some v => PC.running v)
  | .resolving => some (cell, PC.resolved target)
  | .resolved v => some (some v, PC.rejump)
  | .rejump => (match cell with | some v => some (cell, PC.running v) | none => none)
  | .running _ => none

inductive Step (target : Val) : G → G → Prop
  | mk (g : G) (j : Nat) (pc pc' : PC) (c' : Option Val) (hj : g.th[j]? = some pc)
      (hs : tstep target g.cell pc = some (c', pc')) : Step target g ⟨c', g.th.set j pc'⟩

inductive Reach (target : Val) (n : Nat) : G → Prop
  | init : Reach target n ⟨none, List.replicate n .start⟩
  | step {g g'} : Reach target n g → Step target g g' → Reach target n g'

/-- invariant: the word holds the stub or the one target; nobody runs or is about to store anything else;
    a thread past its store sees a bound cell -/
def Inv (target : Val) (g : G) : Prop :=
  (g.cell = none ∨ g.cell = some target) ∧
  (∀ (j : Nat) (v : Val), g.th[j]? = some (PC.running v) → v = target) ∧
  (∀ (j : Nat) (v : Val), g.th[j]? = some (PC.resolved v) → v = target) ∧
  ((∃ j : Nat, g.th[j]? = some PC.rejump) → g.cell = some target) ∧
  ((∃ (j : Nat) (v : Val), g.th[j]? = some (PC.running v)) → g.cell = some target)

theorem getElem?_set_cases {α} (l : List α) (j k : Nat) (x y : α) (h : (l.set j x)[k]? = some y) :
    (k = j ∧ y = x) ∨ (k ≠ j ∧ l[k]? = some y) := by
  rw [List.getElem?_set] at h
  by_cases hk : j = k
  · subst hk
    rw [if_pos rfl] at h
    split at h
    · left; exact ⟨rfl, (Option.some.inj h).symm⟩
    · cases h
  · rw [if_neg hk] at h
    right; exact ⟨fun e => hk e.symm, h⟩

theorem step_inv (target : Val) (g g' : G) (hi : Inv target g) (hs : Step target g g') : Inv target g' := by
  obtain ⟨hc, hrun, hres, hrej, hrunc⟩ := hi
  cases hs with
  | mk j pc pc' c' hj hst =>
    cases pc with
    | start =>
      simp only [tstep, Option.some.injEq, Prod.mk.injEq] at hst
      obtain ⟨rfl, rfl⟩ := hst
      refine ⟨hc, ?_, ?_, ?_, ?_⟩
      · intro k v hk
        rcases getElem?_set_cases _ _ _ _ _ hk with ⟨_, he⟩ | ⟨_, hk'⟩
        · cases hcell : g.cell with
          | none => rw [hcell] at he; cases he
          | some w =>
            rw [hcell] at he; cases he
            rcases hc with h | h
            · rw [hcell] at h; cases h
            · rw [hcell] at h; cases h; rfl
        · exact hrun k v hk'
      · intro k v hk
        rcases getElem?_set_cases _ _ _ _ _ hk with ⟨_, he⟩ | ⟨_, hk'⟩
        · cases hcell : g.cell <;> rw [hcell] at he <;> cases he
        · exact hres k v hk'
      · rintro ⟨k, hk⟩
        rcases getElem?_set_cases _ _ _ _ _ hk with ⟨_, he⟩ | ⟨_, hk'⟩
        · cases hcell : g.cell <;> rw [hcell] at he <;> cases he
        · exact hrej ⟨k, hk'⟩
      · rintro ⟨k, v, hk⟩
        rcases getElem?_set_cases _ _ _ _ _ hk with ⟨_, he⟩ | ⟨_, hk'⟩
        · cases hcell : g.cell with
          | none => rw [hcell] at he; cases he
          | some w =>
            rcases hc with h | h
            · rw [hcell] at h; cases h
            · rw [← hcell]; exact h
        · exact hrunc ⟨k, v, hk'⟩
    | resolving =>
      simp only [tstep, Option.some.injEq, Prod.mk.injEq] at hst
      obtain ⟨rfl, rfl⟩ := hst
      refine ⟨hc, ?_, ?_, ?_, ?_⟩
      · intro k v hk
        rcases getElem?_set_cases _ _ _ _ _ hk with ⟨_, he⟩ | ⟨_, hk'⟩
        · cases he
        · exact hrun k v hk'
      · intro k v hk
        rcases getElem?_set_cases _ _ _ _ _ hk with ⟨_, he⟩ | ⟨_, hk'⟩
        · cases he; rfl
        · exact hres k v hk'
      · rintro ⟨k, hk⟩
        rcases getElem?_set_cases _ _ _ _ _ hk with ⟨_, he⟩ | ⟨_, hk'⟩
        · cases he
        · exact hrej ⟨k, hk'⟩
      · rintro ⟨k, v, hk⟩
        rcases getElem?_set_cases _ _ _ _ _ hk with ⟨_, he⟩ | ⟨_, hk'⟩
        · cases he
        · exact hrunc ⟨k, v, hk'⟩
    | resolved w =>
      simp only [tstep, Option.some.injEq, Prod.mk.injEq] at hst
      obtain ⟨rfl, rfl⟩ := hst
      have hw : w = target := hres j w hj
      subst hw
      refine ⟨Or.inr rfl, ?_, ?_, fun _ => rfl, fun _ => rfl⟩
      · intro k v hk
        rcases getElem?_set_cases _ _ _ _ _ hk with ⟨_, he⟩ | ⟨_, hk'⟩
        · cases he
        · exact hrun k v hk'
      · intro k v hk
        rcases getElem?_set_cases _ _ _ _ _ hk with ⟨_, he⟩ | ⟨_, hk'⟩
        · cases he
        · exact hres k v hk'
    | rejump =>
      have hcell := hrej ⟨j, hj⟩
      simp only [tstep, hcell, Option.some.injEq, Prod.mk.injEq] at hst
      obtain ⟨rfl, rfl⟩ := hst
      refine ⟨Or.inr rfl, ?_, ?_, fun _ => rfl, fun _ => rfl⟩
      · intro k v hk
        rcases getElem?_set_cases _ _ _ _ _ hk with ⟨_, he⟩ | ⟨_, hk'⟩
        · cases he; rfl
        · exact hrun k v hk'
      · intro k v hk
        rcases getElem?_set_cases _ _ _ _ _ hk with ⟨_, he⟩ | ⟨_, hk'⟩
        · cases he
        · exact hres k v hk'
    | running v => simp [tstep] at hst

theorem init_inv (target : Val) (n : Nat) : Inv target ⟨none, List.replicate n .start⟩ := by
  refine ⟨Or.inl rfl, ?_, ?_, ?_, ?_⟩
  · intro j v h; simp only [List.getElem?_replicate] at h; split at h <;> simp at h
  · intro j v h; simp only [List.getElem?_replicate] at h; split at h <;> simp at h
  · rintro ⟨j, h⟩; simp only [List.getElem?_replicate] at h; split at h <;> simp at h
  · rintro ⟨j, v, h⟩; simp only [List.getElem?_replicate] at h; split at h <;> simp at h

theorem reach_inv (target : Val) (n : Nat) (g : G) (h : Reach target n g) : Inv target g := by
  induction h with
  | init => exact init_inv target n
  | step _ hs ih => exact step_inv target _ _ ih hs

/-- no thread is ever stuck before it runs the implementation (progress) -/
theorem progress (target : Val) (n : Nat) (g : G) (h : Reach target n g) (j : Nat) (pc : PC)
    (hj : g.th[j]? = some pc) (hnot : ∀ v, pc ≠ .running v) : ∃ r, tstep target g.cell pc = some r := by
  have hi := reach_inv target n g h
  cases pc with
  | start => exact ⟨_, rfl⟩
  | resolving => exact ⟨_, rfl⟩
  | resolved v => exact ⟨_, rfl⟩
  | rejump => exact ⟨(some target, PC.running target), by simp only [tstep, hi.2.2.2.1 ⟨j, hj⟩]⟩
  | running v => exact absurd rfl (hnot v)

/-- steps a thread still has to take -/
def rank : PC → Nat
  | .start => 4 | .resolving => 3 | .resolved _ => 2 | .rejump => 1 | .running _ => 0

theorem tstep_rank (target : Val) (c : Option Val) (pc : PC) (r : Option Val × PC)
    (h : tstep target c pc = some r) : rank r.2 < rank pc := by
  cases pc with
  | start => simp only [tstep, Option.some.injEq] at h; subst h; cases c <;> simp [rank]
  | resolving => simp only [tstep, Option.some.injEq] at h; subst h; simp [rank]
  | resolved v => simp only [tstep, Option.some.injEq] at h; subst h; simp [rank]
  | rejump => cases c with
    | none => simp [tstep] at h
    | some v => simp only [tstep, Option.some.injEq] at h; subst h; simp [rank]
  | running v => simp [tstep] at h

end IsalVerif.BindRace
