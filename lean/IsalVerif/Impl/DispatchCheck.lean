import IsalVerif.Impl.Dispatch
/-!
# DispatchCheck — does every resolver path bind to code the CPU/OS can execute?

`need`: the ISA classes reachable from a candidate target (computed by `tools/disasm.py` over the
disassembly, through internal calls).  `reqBits`: the CPUID/XCR0 bits that make a class usable,
written from the Intel SDM (vol. 1 ch. 13-15, vol. 2 CPUID).  `archRules`: implications between
feature bits that hold on every architecturally consistent configuration.  `conventions`:
implications the library *assumes* without testing (documented `@requires`, "level 04"); they are
explicit hypotheses of the theorem, reported in the evidence, not facts.
-/
namespace IsalVerif.Dispatch

inductive Isa where
  | sse | sse2 | ssse3 | sse4_1 | sse4_2 | aesni | pclmul | sha | popcnt | movbe | lzcnt
  | avx | avx2 | fma | bmi1 | bmi2
  | avx512f | avx512vl | avx512bw | avx512dq | avx512cd | avx512vbmi2 | avx512vnni | avx512bitalg
  | avx512vpopcntdq | vaes | vpclmulqdq | gfni
  | unknown
deriving DecidableEq, Repr

abbrev Bit := Field × Nat

def bitSet (cfg : Cfg) (b : Bit) : Bool := (cfg.get b.1).getLsbD b.2

def osAvx : List Bit := [(.l1ecx, 27), (.xcr0, 1), (.xcr0, 2)]
def osZmm : List Bit := osAvx ++ [(.xcr0, 5), (.xcr0, 6), (.xcr0, 7)]

/-- CPUID / XCR0 bits required before an instruction of the class may be executed -/
def reqBits : Isa → List Bit
  | .sse | .sse2 => []                       -- baseline of x86-64
  | .ssse3 => [(.l1ecx, 9)]
  | .sse4_1 => [(.l1ecx, 19)]
  | .sse4_2 => [(.l1ecx, 20)]
  | .aesni => [(.l1ecx, 25)]
  | .pclmul => [(.l1ecx, 1)]
  | .popcnt => [(.l1ecx, 23)]
  | .movbe => [(.l1ecx, 22)]
  | .lzcnt => []                            -- leaf 0x80000001, not modelled: never used (checked by gen)
  | .sha => [(.l7ebx, 29)]
  | .avx => (.l1ecx, 28) :: osAvx
  | .fma => (.l1ecx, 12) :: osAvx
  | .avx2 => (.l7ebx, 5) :: osAvx
  | .bmi1 => [(.l7ebx, 3)]
  | .bmi2 => [(.l7ebx, 8)]
  | .avx512f => (.l7ebx, 16) :: osZmm
  | .avx512dq => (.l7ebx, 17) :: (.l7ebx, 16) :: osZmm
  | .avx512cd => (.l7ebx, 28) :: (.l7ebx, 16) :: osZmm
  | .avx512bw => (.l7ebx, 30) :: (.l7ebx, 16) :: osZmm
  | .avx512vl => (.l7ebx, 31) :: (.l7ebx, 16) :: osZmm
  | .avx512vbmi2 => (.l7ecx, 6) :: (.l7ebx, 16) :: osZmm
  | .gfni => [(.l7ecx, 8)]
  | .vaes => (.l7ecx, 9) :: osAvx
  | .vpclmulqdq => (.l7ecx, 10) :: osAvx
  | .avx512vnni => (.l7ecx, 11) :: (.l7ebx, 16) :: osZmm
  | .avx512bitalg => (.l7ecx, 12) :: (.l7ebx, 16) :: osZmm
  | .avx512vpopcntdq => (.l7ecx, 14) :: (.l7ebx, 16) :: osZmm
  | .unknown => [(.l1eax, 99)]              -- never satisfiable: an unclassified instruction fails the check

def Avail (cfg : Cfg) (i : Isa) : Prop := ∀ b ∈ reqBits i, bitSet cfg b = true

/-- feature-bit implications of every architecturally consistent configuration -/
def archRules : List (Bit × List Bit) := [
  ((.l1ecx, 20), [(.l1ecx, 19)]),                                   -- SSE4.2 ⇒ SSE4.1
  ((.l1ecx, 19), [(.l1ecx, 9)]),                                    -- SSE4.1 ⇒ SSSE3
  ((.l1ecx, 28), [(.l1ecx, 20)]),                                   -- AVX ⇒ SSE4.2 (NOT OSXSAVE: the OS may leave XSAVE off)
  ((.l7ebx, 5), [(.l1ecx, 28)]),                                    -- AVX2 ⇒ AVX
  ((.l7ebx, 16), [(.l7ebx, 5)]),                                    -- AVX512F ⇒ AVX2
  ((.l7ebx, 17), [(.l7ebx, 16)]), ((.l7ebx, 28), [(.l7ebx, 16)]),   -- DQ, CD ⇒ F
  ((.l7ebx, 30), [(.l7ebx, 16)]), ((.l7ebx, 31), [(.l7ebx, 16)]),   -- BW, VL ⇒ F
  ((.l7ecx, 6), [(.l7ebx, 16)]), ((.l7ecx, 11), [(.l7ebx, 16)]),    -- VBMI2, VNNI ⇒ F
  ((.l7ecx, 12), [(.l7ebx, 16)]), ((.l7ecx, 14), [(.l7ebx, 16)]),   -- BITALG, VPOPCNTDQ ⇒ F
  ((.xcr0, 2), [(.xcr0, 1), (.l1ecx, 27)]),                         -- YMM state ⇒ SSE state, OSXSAVE
  ((.xcr0, 5), [(.xcr0, 2)]), ((.xcr0, 6), [(.xcr0, 2)]), ((.xcr0, 7), [(.xcr0, 2)]) ]

/-- what the library assumes without testing it -/
def conventions : List (Bit × List Bit) := [
  ((.l1ecx, 19), [(.l1ecx, 25), (.l1ecx, 1)]),    -- AES entry points: "@requires SSE4.1 and AESNI" (+PCLMULQDQ for GCM)
  ((.l7ebx, 5), [(.l7ebx, 3), (.l7ebx, 8)]),       -- "level 04": BMI1/BMI2 come with AVX2
  ((.l7ecx, 9), [(.l1ecx, 25)]),                   -- VAES ⇒ AES-NI
  ((.l7ecx, 10), [(.l1ecx, 1)]) ]                  -- VPCLMULQDQ ⇒ PCLMULQDQ

def RulesHold (rules : List (Bit × List Bit)) (cfg : Cfg) : Prop :=
  ∀ r ∈ rules, bitSet cfg r.1 = true → ∀ q ∈ r.2, bitSet cfg q = true

def Consistent (cfg : Cfg) : Prop := RulesHold archRules cfg
def Conventions (cfg : Cfg) : Prop := RulesHold conventions cfg

/-- the set bits of a 32-bit constant -/
def bitsOfW (f : Field) (w : W) : List Bit := ((List.range 32).filter (fun i => w.getLsbD i)).map (fun i => (f, i))

/-- bits forced to 1 by a branch condition that holds -/
def onesOf : Cond → List Bit
  | (.atom f _ c, true) => bitsOfW f c                        -- (x & m) = c  ⇒  every bit of c is set in x
  | (.atom f m c, false) =>
      if c = 0 then (match bitsOfW f m with | [b] => [b] | _ => []) else []   -- (x & bit) ≠ 0 ⇒ bit set
  | _ => []

def knownOnes (conds : List Cond) : List Bit := conds.flatMap onesOf

/-- one round of rule application -/
def applyRules (rules : List (Bit × List Bit)) (known : List Bit) : List Bit :=
  known ++ (rules.filter (fun r => known.contains r.1)).flatMap (·.2)

def closure (rules : List (Bit × List Bit)) : Nat → List Bit → List Bit
  | 0, k => k
  | n+1, k => closure rules n (applyRules rules k)

def allRules : List (Bit × List Bit) := archRules ++ conventions

def isHalted (p : List Instr) (σ : SSt) : Bool :=
  match p[σ.pc]? with | none => true | some .ret => true | _ => false

/-- the check of one enumerated path -/
def checkPath (p : List Instr) (need : Nat → List Isa) (minBits : List Bit) (r : List Cond × SSt) : Bool :=
  isHalted p r.2 &&
  match r.2.cell with
  | some (.sym s) =>
      let known := closure allRules 8 (minBits ++ knownOnes r.1)
      -- the resolver itself: XGETBV only on paths that established CPUID.1:ECX.OSXSAVE (else #UD)
      (!r.2.xg || known.contains (.l1ecx, 27)) &&
      (need s).all fun i => (reqBits i).all fun b => known.contains b
  | _ => false

/-- `minBits`: the documented minimum requirement of the entry point (a hypothesis, not a test) -/
def checkResolver (p : List Instr) (need : Nat → List Isa) (minBits : List Bit) : Bool :=
  match paths p (4 * p.length) s0 [] with
  | some res => res.all (checkPath p need minBits)
  | none => false

/-- documented minimum of the AES entry points: "@requires SSE4.1 and AESNI" (GCM also PCLMULQDQ) -/
def aesMinBits : List Bit := [(.l1ecx, 19), (.l1ecx, 9), (.l1ecx, 25), (.l1ecx, 1)]

/-! ### same family across the entry points of one object -/

def renameVal (ρ : Nat → Nat) : Val → Val
  | .bits w => .bits w | .sym s => .sym (ρ s) | .junk => .junk

@[simp] theorem renameVal_bits (ρ : Nat → Nat) (w : W) : renameVal ρ (.bits w) = .bits w := rfl
@[simp] theorem renameVal_sym (ρ : Nat → Nat) (s : Nat) : renameVal ρ (.sym s) = .sym (ρ s) := rfl
@[simp] theorem renameVal_junk (ρ : Nat → Nat) : renameVal ρ .junk = .junk := rfl

def renameInstr (ρ : Nat → Nat) (i : Instr) : Instr :=
  match i with
  | .lea r s => .lea r (ρ s)
  | .movImm r k => .movImm r k | .movRR d s => .movRR d s | .cpuid => .cpuid | .xgetbv => .xgetbv
  | .xorSelf r => .xorSelf r | .andImm r k => .andImm r k | .testImm r k => .testImm r k
  | .cmpImm r k => .cmpImm r k | .jz z t => .jz z t | .jmp t => .jmp t | .cmov z d s => .cmov z d s
  | .push r => .push r | .pop r => .pop r | .store r => .store r | .ret => .ret | .unsupported => .unsupported

/-- two resolvers are the same program up to the family tag of the symbols they load -/
def sameSkeleton (fam1 fam2 : Nat → Nat) (p1 p2 : List Instr) : Bool :=
  p1.map (renameInstr fam1) == p2.map (renameInstr fam2)

end IsalVerif.Dispatch
