/-
  IsalVerif/Impl/WrapperCheck.lean

  Structural checkers over translated wrapper bodies and their soundness lemmas.  All lemmas are
  proved by induction on the statement list against the semantics `run` of Impl/Wrapper.lean.

    WrapperNorm.lean   normal form of guards (`a || b` split, `x > 0` ~ `x != 0`,
                       `x & (2^n-1)` ~ `x % 2^n`), `leadGuards`, `run_leadGuards`
    WrapperC13.lean    wellGated        a self-test gate precedes every call / store;
                                        failing gate ⇒ ERR_SELF_TEST, no work
                       nonApproved      body is `return ISAL_CRYPTO_ERR_FIPS_INVALID_ALGO;`
                       xtsSameKey       a memcmp guard compares the two keys in the form in which
                                        this entry point receives them
    WrapperC16.lean    guardsBeforeUse  every pointer that is used was NULL-tested by an earlier guard
                       domainChecks     the guards are exactly the documented domain
                                        (Spec/ApiDomain.lean), what follows accepts
                       sameCallAs       legacy body = the same single internal call as its isal_
                                        counterpart
    WrapperObl.lean    the per-table obligations (`failing… : List String`) built from the checkers

  Every checker rejects `Stmt.opaque`.
-/
import IsalVerif.Impl.WrapperNorm
import IsalVerif.Impl.WrapperC13
import IsalVerif.Impl.WrapperC16
import IsalVerif.Impl.WrapperObl
