/-
  IsalVerif/Impl/WrapperC13.lean - checkers for property C13 (FIPS build) and their soundness:
  `wellGated`, `nonApproved`, `xtsSameKey`.  See WrapperCheck.lean for the overview.
-/
import IsalVerif.Impl.WrapperNorm

namespace IsalVerif.Wrapper
open IsalVerif.ApiDomain

/-! ## C13 : the self-test gate -/

/-- Everything before the gate is an argument guard or the (read-only) key comparison, the gate
    returns ERR_SELF_TEST, nothing after it is opaque. -/
def wellGated : List Stmt → Bool
  | .ifRet _ code :: rest => code != 0 && wellGated rest
  | .memcmpGuard _ _ _ _ _ _ code :: rest => code != 0 && wellGated rest
  | .selfTestGate code :: rest => code == ERR_SELF_TEST && noOpaque rest
  | _ => false

/-- No guard in front of the gate fires (the arguments are valid and the XTS keys differ). -/
def preGateQuiet (env : Env) : List Stmt → Bool
  | .ifRet c _ :: rest => !c.eval env && preGateQuiet env rest
  | .memcmpGuard a oa b ob n more _ :: rest => !env.memEqAll a oa b ob n more && preGateQuiet env rest
  | _ => true

def Effect.isRead : Effect → Bool
  | .deref _ => true
  | _ => false

/-- Bodies without a key comparison (everything but XTS). -/
def noMemcmp (b : List Stmt) : Bool :=
  b.all fun s => match s with
    | .memcmpGuard .. => false
    | _ => true

/-- When the gate does not let the call through, the entry point returns a non-zero code and
    makes no call and no store. -/
theorem wellGated_sound {b : List Stmt} (h : wellGated b = true) (env : Env)
    (hs : env.gatePasses = false) :
    (run b env).ret ≠ 0 ∧ (run b env).work = [] := by
  induction b with
  | nil => simp [wellGated] at h
  | cons s rest ih =>
    cases s with
    | ifRet c code =>
      simp only [wellGated, Bool.and_eq_true, bne_iff_ne] at h
      simp only [run]
      split
      · exact ⟨h.1, rfl⟩
      · exact ih h.2
    | memcmpGuard a oa b' ob n more code =>
      simp only [wellGated, Bool.and_eq_true, bne_iff_ne] at h
      simp only [run]
      split
      · exact ⟨h.1, by simp [Outcome.work, Effect.isWork]⟩
      · have := ih h.2
        refine ⟨this.1, ?_⟩
        have hw := this.2
        simp only [Outcome.work] at hw ⊢
        simp [Effect.isWork, hw]
    | selfTestGate code =>
      simp only [wellGated, Bool.and_eq_true, beq_iff_eq] at h
      have hc : code ≠ 0 := by rw [h.1]; decide
      simp only [Env.gatePasses] at hs
      simp only [run]
      cases hst : env.selfTest <;> simp only [hst] at hs ⊢
      · simp only [hs]
        exact ⟨hc, by simp [Outcome.work, Effect.isWork]⟩
      · simp at hs
      · exact ⟨hc, rfl⟩
    | _ => simp [wellGated] at h

/-- With otherwise valid arguments the code is exactly ERR_SELF_TEST. -/
theorem wellGated_selfTest {b : List Stmt} (h : wellGated b = true) (env : Env)
    (hs : env.gatePasses = false) (hq : preGateQuiet env b = true) :
    (run b env).ret = ERR_SELF_TEST := by
  induction b with
  | nil => simp [wellGated] at h
  | cons s rest ih =>
    cases s with
    | ifRet c code =>
      simp only [wellGated, Bool.and_eq_true, bne_iff_ne] at h
      simp only [preGateQuiet, Bool.and_eq_true, Bool.not_eq_true'] at hq
      simp [run, hq.1, ih h.2 hq.2]
    | memcmpGuard a oa b' ob n more code =>
      simp only [wellGated, Bool.and_eq_true, bne_iff_ne] at h
      simp only [preGateQuiet, Bool.and_eq_true, Bool.not_eq_true'] at hq
      simp [run, hq.1, ih h.2 hq.2]
    | selfTestGate code =>
      simp only [wellGated, Bool.and_eq_true, beq_iff_eq] at h
      simp only [Env.gatePasses] at hs
      simp only [run]
      cases hst : env.selfTest <;> simp only [hst] at hs ⊢
      · simp [hs, h.1]
      · simp at hs
      · exact h.1
    | _ => simp [wellGated] at h

/-- Status FAILED: the only effects are the loads of the XTS key comparison - no effect at all
    for the entry points without one. -/
theorem wellGated_failed {b : List Stmt} (h : wellGated b = true) (env : Env)
    (hs : env.selfTest = .failed) :
    (run b env).effects.all Effect.isRead = true ∧
    (noMemcmp b = true → (run b env).effects = []) := by
  induction b with
  | nil => simp [wellGated] at h
  | cons s rest ih =>
    cases s with
    | ifRet c code =>
      simp only [wellGated, Bool.and_eq_true, bne_iff_ne] at h
      simp only [run]
      split
      · simp
      · have := ih h.2
        exact ⟨this.1, fun hm => this.2 (by simpa [noMemcmp] using hm)⟩
    | memcmpGuard a oa b' ob n more code =>
      simp only [wellGated, Bool.and_eq_true, bne_iff_ne] at h
      simp only [run]
      split
      · exact ⟨by simp [Effect.isRead], fun hm => by simp [noMemcmp] at hm⟩
      · have := ih h.2
        exact ⟨by simp [Effect.isRead, this.1], fun hm => by simp [noMemcmp] at hm⟩
    | selfTestGate code => simp [run, hs]
    | _ => simp [wellGated] at h

/-- Status NOT RUN: every call / store is preceded by the execution of the self tests. -/
theorem wellGated_testsFirst {b : List Stmt} (h : wellGated b = true) (env : Env)
    (hs : env.selfTest = .notRun) :
    ∀ pre e post, (run b env).effects = pre ++ e :: post → e.isWork = true →
      Effect.selfTests ∈ pre := by
  induction b with
  | nil => simp [wellGated] at h
  | cons s rest ih =>
    cases s with
    | ifRet c code =>
      simp only [wellGated, Bool.and_eq_true, bne_iff_ne] at h
      simp only [run]
      split
      · intro pre e post he; simp at he
      · exact ih h.2
    | memcmpGuard a oa b' ob n more code =>
      simp only [wellGated, Bool.and_eq_true, bne_iff_ne] at h
      simp only [run]
      split
      · intro pre e post he hw
        have hm : e ∈ [Effect.deref a, Effect.deref b'] := by
          have he' : [Effect.deref a, Effect.deref b'] = pre ++ e :: post := he
          rw [he']; simp
        simp at hm
        rcases hm with rfl | rfl <;> simp [Effect.isWork] at hw
      · intro pre e post he hw
        simp only [Outcome.pre_effects] at he
        match pre, he with
        | [], he =>
          simp at he; rw [← he.1] at hw; simp [Effect.isWork] at hw
        | [x], he =>
          simp at he; rw [← he.2.1] at hw; simp [Effect.isWork] at hw
        | x :: y :: pre', he =>
          simp at he
          have := ih h.2 pre' e post he.2.2 hw
          simp [this]
    | selfTestGate code =>
      intro pre e post he hw
      simp only [run, hs] at he
      split at he
      · simp only [Outcome.pre_effects] at he
        match pre, he with
        | [], he => simp at he; rw [← he.1] at hw; simp [Effect.isWork] at hw
        | x :: pre', he => simp at he; simp [← he.1]
      · match pre, he with
        | [], he => simp at he; rw [← he.1] at hw; simp [Effect.isWork] at hw
        | x :: pre', he => simp at he
    | _ => simp [wellGated] at h

/-! ## C13 : non-approved algorithms -/

def nonApproved : List Stmt → Bool
  | [.retConst k] => k == ERR_FIPS_INVALID_ALGO
  | _ => false

theorem nonApproved_sound {b : List Stmt} (h : nonApproved b = true) (env : Env) :
    run b env = ⟨ERR_FIPS_INVALID_ALGO, []⟩ := by
  match b, h with
  | [.retConst k], h =>
    simp only [nonApproved, beq_iff_eq] at h
    simp [run, h]

/-! ## C13 : XTS same-key check -/

/-- What a 16-byte block of a key object holds, as a function of the key: round key `i` of the
    encryption schedule (round keys 0 and, for AES-256, 1 are the key itself), or `aesimc` of it. -/
inductive Block
  | encRK (i : Nat)
  | imcEncRK (i : Nat)
  deriving DecidableEq, Repr

/-- Layout of the three key forms (aes_xts.h / aes_keyexp.h; checked on real schedules by
    harness/drv_api.c `check_schedule_layout`). -/
def _root_.IsalVerif.ApiDomain.KeyForm.block : KeyForm → Nat → Option Block
  | .raw n, j => if j < n then some (.encRK j) else none
  | .encSched r, j => if j ≤ r then some (.encRK j) else none
  | .decSched r, j =>
      if j = 0 then some (.encRK r)
      else if j = r then some (.encRK 0)
      else if j < r then some (.imcEncRK (r - j))
      else none

/-- The `n` bytes at offsets `oa` / `ob` of two key objects of forms `fa` / `fb` are the same
    functions of the key, block by block. -/
def blocksAgree (fa fb : KeyForm) (oa ob n : Nat) : Bool :=
  oa % 16 == 0 && ob % 16 == 0 && n % 16 == 0 && n != 0 &&
  (List.range (n / 16)).all fun j =>
    match fa.block (oa / 16 + j), fb.block (ob / 16 + j) with
    | some x, some y => x == y
    | _, _ => false

/-- Form of the key object passed as parameter `p`. -/
def keyFormOf (keys : (Nat × KeyForm) × (Nat × KeyForm)) (p : Nat) : Option KeyForm :=
  if p = keys.1.1 then some keys.1.2 else if p = keys.2.1 then some keys.2.2 else none

/-- After argument guards only, a memcmp guard compares the two keys on bytes that are equal
    whenever the keys are, and refuses with ERR_XTS_SAME_KEYS. -/
def xtsSameKey (keys : (Nat × KeyForm) × (Nat × KeyForm)) : List Stmt → Bool
  | .ifRet _ _ :: rest => xtsSameKey keys rest
  | .memcmpGuard a oa b ob n more code :: _ =>
      code == ERR_XTS_SAME_KEYS && a != b &&
      (match keyFormOf keys a, keyFormOf keys b with
       | some fa, some fb => blocksAgree fa fb oa ob n && more.all fun m => blocksAgree fa fb m.1 m.2.1 m.2.2
       | _, _ => false)
  | _ => false

/-- The environment describes two key arguments derived from one and the same key: byte ranges
    that hold the same functions of the key compare equal. -/
def Env.sameKey (keys : (Nat × KeyForm) × (Nat × KeyForm)) (env : Env) : Prop :=
  ∀ a b fa fb oa ob n, keyFormOf keys a = some fa → keyFormOf keys b = some fb →
    blocksAgree fa fb oa ob n = true → env.memEq a oa b ob n = true

/-- No argument guard fires. -/
def argsQuiet (env : Env) : List Stmt → Bool
  | .ifRet c _ :: rest => !c.eval env && argsQuiet env rest
  | _ => true

theorem xtsSameKey_sound {keys} {b : List Stmt} (h : xtsSameKey keys b = true) (env : Env)
    (hk : env.sameKey keys) (hq : argsQuiet env b = true) :
    (run b env).ret = ERR_XTS_SAME_KEYS ∧ (run b env).work = [] := by
  induction b with
  | nil => simp [xtsSameKey] at h
  | cons s rest ih =>
    cases s with
    | ifRet c code =>
      simp only [xtsSameKey] at h
      simp only [argsQuiet, Bool.and_eq_true, Bool.not_eq_true'] at hq
      simp only [run, hq.1]
      exact ih h hq.2
    | memcmpGuard a oa b' ob n more code =>
      simp only [xtsSameKey, Bool.and_eq_true, beq_iff_eq, bne_iff_ne] at h
      obtain ⟨⟨hc, _⟩, hf⟩ := h
      split at hf
      · rename_i fa fb hfa hfb
        simp only [Bool.and_eq_true, List.all_eq_true] at hf
        have h1 := hk a b' fa fb oa ob n hfa hfb hf.1
        have h2 : env.memEqAll a oa b' ob n more = true := by
          simp only [Env.memEqAll, Bool.and_eq_true, List.all_eq_true]
          exact ⟨h1, fun m hm => hk a b' fa fb m.1 m.2.1 m.2.2 hfa hfb (hf.2 m hm)⟩
        simp [run, h2, hc, Outcome.work, Effect.isWork]
      · simp at hf
    | _ => simp [xtsSameKey] at h

end IsalVerif.Wrapper
