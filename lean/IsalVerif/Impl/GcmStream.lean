import IsalVerif.Spec.Gcm
/-!
# GcmStream — the streaming state machine of AES-GCM (`isal_gcm_context_data`)

Hand-written model of `GCM_INIT`, `GCM_ENC_DEC` (with `PARTIAL_BLOCK`) and `GCM_COMPLETE` of
`aes/gcm_sse.asm` (the avx_gen2 / avx_gen4 / vaes_avx512 families implement the same context
protocol; measured: their context bytes agree, see DESIGN.md §9), at the level of the seven context
fields.  The bulk CTR/GHASH kernels are modelled by the standard (`cipher`, `Gf128.mul`).

Representation: `aadHash` is the GHASH accumulator Y in the standard's byte order (the context
stores it byte-reflected), `curCount` the counter block in the standard's order (stored
byte-reversed), `pbEncKey` = E(K, counter of the current partial block).
-/
namespace IsalVerif.GcmStream
open Aes Gf128 Gcm

structure Ctx where
  aadHash : Bytes            -- 16 bytes, GHASH state
  aadLen  : Nat              -- uint64
  inLen   : Nat              -- uint64
  pbEncKey : Bytes           -- 16 bytes; meaningful in [pbLen, 16) when pbLen ≠ 0
  origIV  : Bytes            -- J0
  curCount : Bytes           -- counter block of the last keystream block produced
  pbLen   : Nat              -- 0..15

/-- xor `x` into `y` starting at byte position `pos` -/
def xorAt (y : Bytes) (pos : Nat) (x : Bytes) : Bytes :=
  y.take pos ++ xorBytes (x.take (y.length - pos)) ((y.drop pos).take x.length) ++ y.drop (pos + x.length)

def ghashMul (h y : Bytes) : Bytes := mulBytes y h

/-- `GCM_INIT`: Y := GHASH over the zero-padded AAD; J0 = IV ‖ 0³¹1; all counters reset.
    `garbage` is what the code happens to store in `partial_block_enc_key` (`xmm2 ^ xmm3`) — API-undefined. -/
def init (rks : List Bytes) (iv aad : Bytes) (garbage : Bytes := List.replicate 16 0) : Ctx :=
  let h := hashKey rks
  { aadHash := ghash h (pad16 aad), aadLen := aad.length % 2^64, inLen := 0, pbEncKey := garbage,
    origIV := j0 iv, curCount := j0 iv, pbLen := 0 }

/-- `GCM_ENC_DEC`: one update call. Returns the new context and the output bytes.
    `lazy256`: the vaes_avx512 family routes exactly 256 remaining bytes through its 16-block
    "small" path, which always leaves the last block as a *pending* block
    (`partial_block_length = 16`, GHASH multiply deferred) — `gcm_vaes_avx512.inc`,
    INITIAL_BLOCKS_PARTIAL with NUM_BLOCKS = 16. -/
def update (rks : List Bytes) (dec : Bool) (c : Ctx) (data : Bytes) (lazy256 : Bool := false) : Ctx × Bytes :=
  if data = [] then (c, []) else
  let h := hashKey rks
  let c := { c with inLen := (c.inLen + data.length) % 2^64 }
  -- PARTIAL_BLOCK: use up the key stream left over from the previous call
  let (c, out1, rest) :=
    if c.pbLen ≠ 0 then
      let n := min data.length (16 - c.pbLen)
      let inp := data.take n
      let ks := (c.pbEncKey.drop c.pbLen).take n
      let out := xorBytes inp ks
      let ct := if dec then inp else out
      let y := xorAt c.aadHash c.pbLen ct
      if c.pbLen + data.length ≥ 16 then
        ({ c with aadHash := ghashMul h y, pbLen := 0 }, out, data.drop n)
      else ({ c with aadHash := y, pbLen := c.pbLen + data.length }, out, data.drop n)
    else (c, [], data)
  -- whole blocks (all but the last one in the lazy case)
  let lazyLast := lazy256 && rest.length == 256
  let nblk := if lazyLast then 15 else rest.length / 16
  let whole := rest.take (nblk * 16)
  let ctrs := (iterate inc32 (inc32 c.curCount) nblk)
  let outBlocks := List.zipWith (fun x cb => xorBytes x (cipher rks cb)) (blocks 16 nblk whole) ctrs
  let ctBlocks := if dec then blocks 16 nblk whole else outBlocks
  let y := ctBlocks.foldl (fun y b => ghashMul h (xorBytes y b)) c.aadHash
  let cnt := ctrs.getLastD c.curCount
  let c := { c with aadHash := y, curCount := cnt }
  let out2 := outBlocks.flatten
  -- tail: start a new partial block
  let tail := rest.drop (nblk * 16)
  if tail = [] then (c, out1 ++ out2) else
    let cnt := inc32 c.curCount
    let ek := cipher rks cnt
    let out := xorBytes tail ek
    let ct := if dec then tail else out
    ({ c with curCount := cnt, pbEncKey := ek, pbLen := tail.length, aadHash := xorAt c.aadHash 0 ct },
     out1 ++ out2 ++ out)   -- in the lazy case `tail` is a full block and `pbLen = 16`

/-- `GCM_COMPLETE`: returns the (mutated) context and the tag.  Both bit lengths are 64-bit
    quantities (`shl r12, 3` / `movq xmm15, r12`; before `fix:` F17 the sse/avx_gen2/avx_gen4 families
    moved `len(A)` through a 32-bit register — `finalizeUnfixed` below). -/
def finalize (rks : List Bytes) (c : Ctx) (tagLen : Nat) : Ctx × Bytes :=
  let h := hashKey rks
  let c := if c.pbLen ≠ 0 then { c with aadHash := ghashMul h c.aadHash } else c
  let lenBlk := bytesBE64 (UInt64.ofNat ((c.aadLen * 8) % 2^64)) ++ bytesBE64 (UInt64.ofNat ((c.inLen * 8) % 2^64))
  let s := ghashMul h (xorBytes c.aadHash lenBlk)
  (c, (xorBytes s (cipher rks c.origIV)).take tagLen)

/-- init; update*; finalize -/
def stream (rks : List Bytes) (dec : Bool) (iv aad : Bytes) (parts : List Bytes) (tagLen : Nat) : Bytes × Bytes :=
  let r := parts.foldl (fun (acc : Ctx × Bytes) p =>
      let u := update rks dec acc.1 p; (u.1, acc.2 ++ u.2)) (init rks iv aad, [])
  (r.2, (finalize rks r.1 tagLen).2)

end IsalVerif.GcmStream
