import IsalVerif.Impl.HashMB
/-!
  IsalVerif/Impl/FlushC.lean — the body of the `while (1)` loop of the C functions `_<alg>_ctx_mgr_flush_<family>`
  as data (T-route, `tools/gen_flush.py`), its semantics over the two calls it makes, and the link to one unfolding of
  the model's `HashMB.ctxFlush`.
-/
namespace IsalVerif.FlushC

inductive F
  /-- `ctx = (CTX *) <mgr flush of the same family>(&mgr->mgr);` -/
  | mgrFlush
  /-- `if (!ctx) return NULL;` -/
  | retNullIfNull
  /-- `ctx = <alg>_ctx_mgr_resubmit(mgr, ctx);` -/
  | resubmit
  /-- `if (ctx) return ctx;` -/
  | retIfCtx
  | unsupported (src : String)
  deriving DecidableEq, Repr, Inhabited

inductive Out
  | retNull | ret (c : Nat) | loop | bad
  deriving DecidableEq, Repr

/-- `ctx` variable: not yet assigned / NULL / a context -/
inductive V | unset | null | ctx (c : Nat)
  deriving DecidableEq, Repr

/-- one iteration: `fl` = what the manager's flush hands back, `rs c` = what resubmit returns for context `c` -/
def run (fl : Option Nat) (rs : Nat → Option Nat) : List F → V → Out
  | [], _ => .loop
  | .mgrFlush :: ps, _ => run fl rs ps (match fl with | none => .null | some c => .ctx c)
  | .retNullIfNull :: ps, v => match v with | .null => .retNull | .unset => .bad | .ctx c => run fl rs ps (.ctx c)
  | .resubmit :: ps, v => match v with | .ctx c => run fl rs ps (match rs c with | none => .null | some c' => .ctx c') | _ => .bad
  | .retIfCtx :: ps, v => match v with | .ctx c => .ret c | .null => run fl rs ps .null | .unset => .bad
  | .unsupported _ :: _, _ => .bad

def canon : List F := [.mgrFlush, .retNullIfNull, .resubmit, .retIfCtx]

/-- what the loop body of today's source does -/
theorem canon_run (fl : Option Nat) (rs : Nat → Option Nat) :
    run fl rs canon .unset =
      match fl with
      | none => .retNull
      | some c => match rs c with | some c' => .ret c' | none => .loop := by
  cases fl with
  | none => rfl
  | some c => cases h : rs c <;> simp [canon, run, h]

open IsalVerif.HashMB in
/-- one unfolding of the model's `ctxFlush` makes the same two calls and takes the same decision -/
theorem ctxFlush_unfold {D : Type} (P : Params) (A : Alg D) (fuel : Nat) (m : M D) :
    ctxFlush P A (fuel + 1) m =
      match (mgrFlush P A.f m).2 with
      | none => some ((mgrFlush P A.f m).1, none)
      | some c =>
        match resubmit A (fuelFor m) (mgrFlush P A.f m).1 (some c) with
        | none => none
        | some r2 => match r2.2 with
          | some c' => some (r2.1, some c')
          | none => ctxFlush P A fuel r2.1 := by
  conv => lhs; unfold ctxFlush
  cases h : (mgrFlush P A.f m).2 with
  | none => simp [h]
  | some c =>
    simp only [h]
    cases h2 : resubmit A (fuelFor m) (mgrFlush P A.f m).1 (some c) with
    | none => simp
    | some r2 => cases h3 : r2.2 <;> simp [h3]

structure Src where
  file : String
  fn : String
  prog : List F
  deriving Repr

end IsalVerif.FlushC
