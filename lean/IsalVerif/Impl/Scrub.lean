import IsalVerif.Impl.X86Abs
/-!
# Engine Scrub — vector registers and dead stack hold no key-dependent data at exit (C14)

A Scrub program is a list of records `SInstr`: `.gen b g` where `b` is an `X86Abs.Instr` (the GPR / stack-pointer
effect, exactly the C19 language, ONE record per machine instruction, no run collapsing) and `g : GI` is the
*ghost* effect of the same instruction (`.vec vz vw vr` abbreviates `.gen (plain 0 0) (vecGI vz vw vr)`) on

* the 64 vector *parts* (part `r` = bits 0..127 of vector register `r`, part `32+r` = bits 128..511),
* the 25 scalar locations (GPR 0..15, RFLAGS = 16, k0..k7 = 17..24),
* the bytes of the stack.

## Formalisation: a taint-instrumented semantics

The concrete state is an `X86Abs.St` (registers, tracked stack qwords) paired with a ghost state `Gh`:
every vector part is a pair (bits, taint), every scalar location and every stack byte has a taint bit.
`taint = true` means "may depend on key material".  The ghost step `FlowG` is deterministic on taints:
every location written by the instruction receives `T` = the OR of the taints of everything the instruction
reads (source vector parts, source scalars, and the memory operand); zeroing idioms write the value
`⟨0,false⟩`; register copies propagate value-zero-ness and taint; bits are otherwise arbitrary.
Taint sources: at entry the argument registers that point to key material (`sig`) are tainted, so every load
through them (or through anything computed from them) is tainted; a load through untainted non-stack
registers is clean; a load from the stack has the taint of the bytes it reads.
A record with `g.dc = true` is a declassification: its result is clean whatever it read.  The translator sets
it only in functions checked under rule "D" (`aesenclast/aesdeclast`) or "D2" (also `pclmulqdq`), and only where
the per-entry-point signature table says the result of these instructions is not key material.
Rule "X" (records with `g.xm ≠ 0`): after `d := b XOR v` the ghost state remembers the fact (d, b, taint of v)
until d or b is written; a record computing `a XOR b` while the fact (a, b, tv) or (b, a, tv) holds yields `v`, so
what it writes has taint `tv` (capped by the OR of its sources).  `SFunc.declass = false` implies that no record
of the function has `dc` or `xm` set (`noDC`, checked).

We chose the instrumented semantics over a two-run noninterference statement because control flow is already
abstracted nondeterministically (`jcc` goes both ways) and instructions are abstracted to "any bits":
a pair-of-runs semantics would need deterministic instruction functions and key-independent control flow
as a side theorem.  The price: the theorem speaks about the ghost bit, and what the ghost bit means is
fixed by `FlowG` below (read it: it is 25 lines).

## The checker

`checkScrub` threads an X86Abs abstract state `A` (to resolve stack addresses) and a ghost abstract state
`G = ⟨vw, vt, vzero, gT, D, xp⟩` through the record list, with certificates at labels (same discipline as
`X86Abs.checkFn`).  At every exit (`ret`, tail jump, dispatch stub) it demands
`vt = 0` (no vector part may be tainted), `D = []` (no stack byte may be tainted) and `vw ⊆ cm`
(`cm` = the function's summary: parts that may hold clean data; `cm = 0` is the conservative rule
"every vector register is untouched or zero").
-/

namespace IsalVerif.Scrub
open IsalVerif.X86Abs

/-! ## Records -/

/-- ghost effect of one instruction -/
structure GI where
  vz : Nat      -- vector parts set to zero
  vw : Nat      -- vector parts that receive a computed value
  vr : Nat      -- vector parts read
  cpl : Bool    -- copy: part `cd` := part `cs`
  cph : Bool    -- copy: part `cd+32` := part `cs+32`
  cd : Nat
  cs : Nat
  gw : Nat      -- scalar locations written
  gr : Nat      -- scalar locations read (values)
  mkd : Nat     -- memory operand read: 0 none / constant, 1 generic (address registers `ma`), 2 stack `[mb+mo, +msz)`, 3 stack, indexed
  ma : Nat
  mb : Nat
  mo : Int
  msz : Nat
  weak : Bool   -- partial (opmask) store: may dirty, never cleans
  dc : Bool     -- declassification
  xm : Nat      -- xor bookkeeping (rule "X"): 1 = this record computes part `xa` := part `xb` XOR (other operand),
                --   2 = this record computes the XOR of parts `xa` and `xb`; 0 = neither
  xa : Nat
  xb : Nat
  xo : Nat      -- xm = 1: the other operand: a vector part (< 64) or the memory operand (64)
  deriving Repr, Inhabited

/-- ghost effect of a pure vector instruction: no memory operand, no scalar operand, no copy -/
def vecGI (vz vw vr : Nat) : GI :=
  { vz := vz, vw := vw, vr := vr, cpl := false, cph := false, cd := 0, cs := 0, gw := 0, gr := 0, mkd := 0, ma := 0, mb := 0,
    mo := 0, msz := 0, weak := false, dc := false, xm := 0, xa := 0, xb := 0, xo := 0 }

/-- a record: the general form (base record + ghost effect), or the short form of a pure vector instruction
(base record `plain 0 0`, ghost effect `vecGI`) which the checker handles on a fast path -/
inductive SInstr where
  | gen (b : Instr) (g : GI)
  | vec (vz vw vr : Nat)
  deriving Repr, Inhabited

def SInstr.b : SInstr → Instr
  | .gen b _ => b
  | .vec _ _ _ => .plain 0 0

def SInstr.g : SInstr → GI
  | .gen _ g => g
  | .vec vz vw vr => vecGI vz vw vr

def bcode (P : List SInstr) : List Instr := P.map (·.b)

/-! ## Concrete ghost semantics -/

/-- value of a vector part: its bits and the ghost taint -/
structure VV where
  bits : Nat
  t : Bool
  deriving DecidableEq

def VV.zero : VV := ⟨0, false⟩

structure Gh where
  vec : Nat → VV
  sc  : Nat → Bool
  stk : Int → Bool
  /-- xor fact (rule "X"): `some (p, q, tv)` = "part p holds part q XOR a value of taint tv" (recorded by a record with
  `xm = 1`, forgotten as soon as p or q is written) -/
  xp  : Option (Nat × Nat × Bool)

structure SSt where
  x : St
  gh : Gh

/-- taint of the memory operand that the instruction reads -/
def memTaint (gi : GI) (x : St) (gh : Gh) : Prop :=
  match gi.mkd with
  | 0 => False
  | 1 => ∃ r, gi.ma.testBit r = true ∧ gh.sc r = true
  | 2 => gh.sc gi.mb = true ∨
         ∃ y, x.regs gi.mb + gi.mo ≤ y ∧ y < x.regs gi.mb + gi.mo + Int.ofNat gi.msz ∧ gh.stk y = true
  | _ => (gh.sc gi.mb = true ∨ ∃ r, gi.ma.testBit r = true ∧ gh.sc r = true) ∨ ∃ y, gh.stk y = true

/-- OR of the taints of everything the instruction reads -/
def rawTaint (gi : GI) (x : St) (gh : Gh) : Prop :=
  (∃ p, gi.vr.testBit p = true ∧ (gh.vec p).t = true) ∨ (∃ r, gi.gr.testBit r = true ∧ gh.sc r = true) ∨
  memTaint gi x gh

/-- rule "X": a record that XORs parts `xa` and `xb` while the fact "xa = xb XOR v" (or "xb = xa XOR v") is recorded
yields `v`: its taint is the recorded taint of `v` -/
def cancelTv (gi : GI) (xp : Option (Nat × Nat × Bool)) : Option Bool :=
  match xp with
  | some (p, q, tv) =>
    if gi.xm = 2 ∧ ((p = gi.xa ∧ q = gi.xb) ∨ (p = gi.xb ∧ q = gi.xa)) then some tv else none
  | none => none

/-- taint of what the instruction writes: nothing if it declassifies; otherwise the OR of the taints of its sources,
capped by the recorded taint if the record cancels an xor -/
def srcTaint (gi : GI) (x : St) (gh : Gh) : Prop :=
  gi.dc = false ∧
  (match cancelTv gi gh.xp with
   | some tv => tv = true ∧ rawTaint gi x gh
   | none => rawTaint gi x gh)

/-- taint of the "other operand" of a record with `xm = 1` -/
def otherTaint (gi : GI) (x : St) (gh : Gh) : Prop :=
  if gi.xo < 64 then (gh.vec gi.xo).t = true else memTaint gi x gh

/-- part `p` is written by the record -/
def writesPart (gi : GI) (p : Nat) : Bool :=
  gi.vz.testBit p || gi.vw.testBit p || (gi.cpl && p == gi.cd) || (gi.cph && p == gi.cd + 32)

/-- the xor fact after the record -/
def XpEff (gi : GI) (x : St) (gh gh' : Gh) : Prop :=
  if gi.xm = 1 ∧ gi.xa ≠ gi.xb ∧ gi.xa ≤ 63 ∧ gi.xb ≤ 63 then ∃ To : Bool, (To = true ↔ otherTaint gi x gh) ∧ gh'.xp = some (gi.xa, gi.xb, To)
  else match gh.xp with
    | some (p, q, tv) => gh'.xp = if writesPart gi p = true ∨ writesPart gi q = true then none else some (p, q, tv)
    | none => gh'.xp = none

/-- stack bytes written by the base record -/
inductive Tgt where
  | no
  | exact (lo hi : Int)
  | idx

def storeTgt (b : Instr) (x : St) : Tgt :=
  match b with
  | .push _ => .exact (x.regs 4 - 8) (x.regs 4)
  | .pushAny => .exact (x.regs 4 - 8) (x.regs 4)
  | .store b k _ => .exact (x.regs b + k) (x.regs b + k + 8)
  | .storeK b k sz => .exact (x.regs b + k) (x.regs b + k + Int.ofNat sz)
  | .storeIdx _ => .idx
  | _ => .no

/-- source part of a register copy into part `p` -/
def copySrc (gi : GI) (p : Nat) : Option Nat :=
  if gi.cpl = true ∧ p = gi.cd then some gi.cs
  else if gi.cph = true ∧ p = gi.cd + 32 then some (gi.cs + 32)
  else none

/-- effect of the record's memory write on the stack taints (`T` = taint of the data written) -/
def StkEff (weak : Bool) (T : Bool) (tc : Tgt) (gh gh' : Gh) : Prop :=
  match tc with
  | .exact lo hi =>
    if weak = true then ∀ y, gh'.stk y = true → gh.stk y = true ∨ (T = true ∧ lo ≤ y ∧ y < hi)
    else ∀ y, gh'.stk y = if lo ≤ y ∧ y < hi then T else gh.stk y
  | .idx => ∀ y, gh'.stk y = true → gh.stk y = true ∨ T = true
  | .no => ∀ y, gh'.stk y = gh.stk y

/-- effect on the vector parts -/
def VecEff (gi : GI) (T : Bool) (gh gh' : Gh) : Prop :=
  ∀ p, if gi.vz.testBit p = true then gh'.vec p = VV.zero
       else if gi.vw.testBit p = true then (gh'.vec p).t = T
       else match copySrc gi p with
         | some q => (gh'.vec p).t = (gh.vec q).t ∧ (gh.vec q = VV.zero → gh'.vec p = VV.zero)
         | none => gh'.vec p = gh.vec p

/-- ghost step of a data instruction -/
def FlowG (i : SInstr) (x : St) (gh gh' : Gh) : Prop :=
  ∃ T : Bool, (T = true ↔ srcTaint i.g x gh) ∧
    VecEff i.g T gh gh' ∧
    (∀ r, gh'.sc r = if i.g.gw.testBit r = true then T else gh.sc r) ∧
    StkEff i.g.weak T (storeTgt i.b x) gh gh' ∧
    XpEff i.g x gh gh'

/-- scalar locations a callee may leave tainted: SysV caller-saved GPRs, RFLAGS, k0..k7 -/
def callClob : Nat := 0x1FF0FC7

/-- ghost step of a call of a function with summary `cm` (parts that may come back holding clean data):
every other part is unchanged or zero, no part gains taint, the callee leaves no tainted stack byte -/
def CallG (cm : Nat) (gh gh' : Gh) : Prop :=
  (∀ p, if cm.testBit p = true then ((gh'.vec p).t = false ∨ gh'.vec p = gh.vec p)
        else (gh'.vec p = gh.vec p ∨ gh'.vec p = VV.zero)) ∧
  (∀ r, callClob.testBit r = false → gh'.sc r = gh.sc r) ∧
  (∀ y, gh'.stk y = true → gh.stk y = true) ∧
  gh'.xp = none

def GStepb (vtab : Nat → Option Nat) (i : SInstr) (b : Instr) (x : St) (gh gh' : Gh) : Prop :=
  match b with
  | .label _ => gh' = gh
  | .jmp _ => gh' = gh
  | .jcc _ => gh' = gh
  | .call f => match vtab f with
    | some cm => CallG cm gh gh'
    | none => True
  | _ => FlowG i x gh gh'

/-- ghost step of record `i` (by kind of its base record) -/
def GStep (vtab : Nat → Option Nat) (i : SInstr) (x : St) (gh gh' : Gh) : Prop := GStepb vtab i i.b x gh gh'

/-- one step: the X86Abs step on the base records and the ghost step of the current record -/
def SStep (tab : Nat → Nat) (vtab : Nat → Option Nat) (P : List SInstr) (s s' : SSt) : Prop :=
  ∃ i, P[s.x.pc]? = some i ∧ Step tab (bcode P) s.x s'.x ∧ GStep vtab i s.x s.gh s'.gh

inductive SSteps (tab : Nat → Nat) (vtab : Nat → Option Nat) (P : List SInstr) (s0 : SSt) : SSt → Prop where
  | refl : SSteps tab vtab P s0 s0
  | tail {b c} : SSteps tab vtab P s0 b → SStep tab vtab P b c → SSteps tab vtab P s0 c

/-- entry condition on the ghost state: nothing is tainted except the key-pointer arguments -/
def GInit (sig : Nat) (gh : Gh) : Prop :=
  (∀ p, (gh.vec p).t = false) ∧ (∀ r, sig.testBit r = false → gh.sc r = false) ∧ (∀ y, gh.stk y = false) ∧ gh.xp = none

/-! ## Abstract ghost domain -/

structure G where
  vw : Nat                       -- parts that may hold something else than their entry value or zero
  vt : Nat                       -- parts that may be tainted
  vzero : Nat                    -- parts that are zero
  gT : Nat                       -- scalar locations that may be tainted
  D : List (Nat × Int × Int)     -- dirty stack regions (base, lo, hi): every tainted byte lies in one
  xp : Nat                       -- xor fact: 0 none, else `1 + 2*(p + 64*q) + tv` (the fact holds, its taint is at most tv)
  deriving Repr, Inhabited

def andNot (a b : Nat) : Nat := Nat.xor a (Nat.land a b)
def nz (a : Nat) : Bool := !Nat.beq a 0
def putBit (m p : Nat) (v : Bool) : Nat :=
  bif v then Nat.lor m (Nat.shiftLeft 1 p) else andNot m (Nat.shiftLeft 1 p)

def overlapsD (D : List (Nat × Int × Int)) (b : Nat) (lo hi : Int) : Bool :=
  D.any (fun r => !Nat.beq r.1 b || (decide (r.2.1 < hi) && decide (lo < r.2.2)))

def cutD : List (Nat × Int × Int) → Nat → Int → Int → List (Nat × Int × Int)
  | [], _, _, _ => []
  | r :: rs, b, lo, hi =>
    bif Nat.beq r.1 b then
      (bif decide (r.2.1 < lo) then [(r.1, r.2.1, min r.2.2 lo)] else []) ++
      ((bif decide (hi < r.2.2) then [(r.1, max r.2.1 hi, r.2.2)] else []) ++ cutD rs b lo hi)
    else r :: cutD rs b lo hi

def leG (g c : G) : Bool :=
  Nat.beq (andNot g.vw c.vw) 0 && Nat.beq (andNot g.vt c.vt) 0 && Nat.beq (andNot c.vzero g.vzero) 0 &&
  Nat.beq (andNot g.gT c.gT) 0 &&
  g.D.all (fun r => c.D.any (fun q => Nat.beq q.1 r.1 && decide (q.2.1 ≤ r.2.1) && decide (r.2.2 ≤ q.2.2))) &&
  (Nat.beq c.xp 0 || Nat.beq c.xp g.xp)

def initG (sig : Nat) : G := { vw := 0, vt := 0, vzero := 0, gT := sig, D := [], xp := 0 }

def xpP (e : Nat) : Nat := ((e - 1) / 2) % 64
def xpQ (e : Nat) : Nat := (e - 1) / 128
def xpT (e : Nat) : Bool := Nat.beq ((e - 1) % 2) 1
def xpEnc (p q : Nat) (tv : Bool) : Nat := 1 + 2 * (p + 64 * q) + (bif tv then 1 else 0)

/-- abstract `cancelTv` -/
def cancelA (gi : GI) (e : Nat) : Option Bool :=
  bif Nat.beq e 0 then none
  else bif Nat.beq gi.xm 2 && ((Nat.beq (xpP e) gi.xa && Nat.beq (xpQ e) gi.xb) || (Nat.beq (xpP e) gi.xb && Nat.beq (xpQ e) gi.xa))
    then some (xpT e) else none

def writesPartA (gi : GI) (p : Nat) : Bool :=
  bit gi.vz p || bit gi.vw p || (gi.cpl && Nat.beq p gi.cd) || (gi.cph && Nat.beq p (gi.cd + 32))

/-- abstract xor fact after a data record (`mt` = abstract taint of the memory operand) -/
def xpUpd (gi : GI) (g : G) (mt : Bool) : Nat :=
  bif Nat.beq gi.xm 1 && !Nat.beq gi.xa gi.xb && Nat.ble gi.xa 63 && Nat.ble gi.xb 63 then
    xpEnc gi.xa gi.xb (bif Nat.ble gi.xo 63 then bit g.vt gi.xo else mt)
  else bif Nat.beq g.xp 0 then 0
  else bif writesPartA gi (xpP g.xp) || writesPartA gi (xpQ g.xp) then 0 else g.xp

/-- abstract taint of the memory operand; `none` = the record's claim about the address is not backed by the base state -/
def memT (a : A) (gi : GI) (g : G) : Option Bool :=
  match gi.mkd with
  | 0 => some false
  | 1 => bif sbOK a gi.ma then some (nz (Nat.land g.gT gi.ma)) else none
  | 2 =>
    let v := get a gi.mb
    bif isStk v && Nat.ble gi.mb 15 then
      some (bit g.gT gi.mb || overlapsD g.D (baseOf v) (offOf v + gi.mo) (offOf v + gi.mo + Int.ofNat gi.msz))
    else none
  | 3 =>
    let v := get a gi.mb
    bif isStk v && Nat.ble gi.mb 15 then
      some (nz (Nat.land g.gT (Nat.lor gi.ma (Nat.shiftLeft 1 gi.mb))) || !g.D.isEmpty)
    else none
  | _ => none

def srcT (gi : GI) (g : G) (mt : Bool) : Bool :=
  !gi.dc && (match cancelA gi g.xp with
    | some tv => tv && (nz (Nat.land g.vt gi.vr) || nz (Nat.land g.gT gi.gr) || mt)
    | none => nz (Nat.land g.vt gi.vr) || nz (Nat.land g.gT gi.gr) || mt)

/-- copy the abstract bits of part `q` (read in `g0`) to part `p` of `g` -/
def cpPart (g0 g : G) (on : Bool) (p q : Nat) : G :=
  bif on then
    let z := bit g0.vzero q
    { g with vzero := putBit g.vzero p z, vt := putBit g.vt p (bit g0.vt q), vw := putBit g.vw p (!z) }
  else g

def vecUpd (gi : GI) (T : Bool) (g : G) : G :=
  let g1 := cpPart g g gi.cpl gi.cd gi.cs
  let g2 := cpPart g g1 gi.cph (gi.cd + 32) (gi.cs + 32)
  { g2 with vw := andNot (Nat.lor g2.vw gi.vw) gi.vz,
            vt := andNot (bif T then Nat.lor g2.vt gi.vw else andNot g2.vt gi.vw) gi.vz,
            vzero := Nat.lor (andNot g2.vzero gi.vw) gi.vz }

inductive ATgt where
  | no
  | exact (b : Nat) (lo hi : Int)
  | idx

def absTgt (a : A) : Instr → Option ATgt
  | .push _ => let v := get a 4; bif isStk v then some (.exact (baseOf v) (offOf v - 8) (offOf v)) else none
  | .pushAny => let v := get a 4; bif isStk v then some (.exact (baseOf v) (offOf v - 8) (offOf v)) else none
  | .store b k _ =>
    let v := get a b
    bif isStk v && Nat.ble b 15 then some (.exact (baseOf v) (offOf v + k) (offOf v + k + 8)) else none
  | .storeK b k sz =>
    let v := get a b
    bif isStk v && Nat.ble b 15 then some (.exact (baseOf v) (offOf v + k) (offOf v + k + Int.ofNat sz)) else none
  | .storeIdx _ => some .idx
  | _ => some .no

def stkUpd (gi : GI) (T : Bool) (t : ATgt) (D : List (Nat × Int × Int)) : Option (List (Nat × Int × Int)) :=
  match t with
  | .no => some D
  | .idx => bif T then none else some D
  | .exact b lo hi => bif T then some ((b, lo, hi) :: D) else bif gi.weak then some D else some (cutD D b lo hi)

/-- `and rsp` re-values its frame: no dirty region may be expressed relative to it -/
def frameOK (b : Instr) (D : List (Nat × Int × Int)) : Bool :=
  match b with
  | .andRsp f _ => D.all (fun r => !Nat.beq r.1 (16 + f))
  | _ => true

/-- abstract ghost transfer of a data record; `a` = X86Abs state BEFORE the record -/
def gflow (a : A) (i : SInstr) (g : G) : Option G :=
  match memT a i.g g with
  | none => none
  | some mt =>
    let T := srcT i.g g mt
    match absTgt a i.b with
    | none => none
    | some t =>
      match stkUpd i.g T t g.D with
      | none => none
      | some D' =>
        bif frameOK i.b D' then
          let g1 := vecUpd i.g T g
          some { g1 with gT := (bif T then Nat.lor g.gT i.g.gw else andNot g.gT i.g.gw), D := D', xp := xpUpd i.g g mt }
        else none

/-- what the ghost checker needs to know about the function and its environment -/
structure GCtx where
  gcert : Nat → Option G      -- ghost certificate at every label
  vtab  : Nat → Option Nat    -- summary `cm` of every function that passes (none: does not pass / external)
  sigs  : Nat → Nat           -- key-pointer argument registers of every function
  cm    : Nat                 -- summary this function is checked against
  indcm : Option Nat          -- summary assumed for the target of this function's dispatch stub
  sig   : Nat                 -- key-pointer argument registers of this function

def gcall (a : A) (cx : GCtx) (f : Nat) (g : G) : Option G :=
  match cx.vtab f with
  | none => none
  | some cm =>
    bif sbOK a (cx.sigs f) then
      some { g with vw := Nat.lor g.vw cm, vzero := andNot g.vzero cm, gT := Nat.lor g.gT callClob, xp := 0 }
    else none

def exitG (g : G) (cm : Nat) : Bool := Nat.beq g.vt 0 && g.D.isEmpty && Nat.beq (andNot g.vw cm) 0

/-- threaded ghost state after one record. `st` = X86Abs state before the record. -/
def nextGb (cx : GCtx) (i : SInstr) (b : Instr) (st : Option A) (gs : Option G) : Option (Option G) :=
  match b, gs with
  | .label id, gs =>
    match cx.gcert id with
    | none => none
    | some c => bif (match gs with | none => true | some g => leG g c) then some (some c) else none
  | _, none => none
  | .jmp t, some g =>
    match cx.gcert t with
    | some c => bif leG g c then some none else none
    | none => none
  | .jcc t, some g =>
    match cx.gcert t with
    | some c => bif leG g c then some (some g) else none
    | none => none
  | .ret, some g => bif exitG g cx.cm then some none else none
  | .tail f, some g =>
    match cx.vtab f with
    | some m => bif exitG g cx.cm && Nat.beq (andNot m cx.cm) 0 then some none else none
    | none => none
  | .tailInd, some g =>
    match cx.indcm with
    | some m => bif exitG g cx.cm && Nat.beq (andNot m cx.cm) 0 then some none else none
    | none => none
  | .trap, some _ => some none
  | .call f, some g =>
    match st with
    | some a => (gcall a cx f g).map some
    | none => none
  | _, some g =>
    match st with
    | some a => (gflow a i g).map some
    | none => none

def nextG (cx : GCtx) (i : SInstr) (st : Option A) (gs : Option G) : Option (Option G) := nextGb cx i i.b st gs

/-- `X86Abs.nextSt` with a shortcut for records without GPR effect -/
def nextB (ctx : Ctx) (b : Instr) (st : Option A) : Option (Option A) :=
  match b, st with
  | .plain w sb, some a => bif Nat.beq w 0 && Nat.beq sb 0 then some (some a) else nextSt ctx b st
  | _, _ => nextSt ctx b st

/-- fast path: ghost transfer of a pure vector record (`= gflow`, see `gflow_vec`) -/
def vecFast (vz vw vr : Nat) (g : G) : G :=
  let T := nz (Nat.land g.vt vr)
  { vw := andNot (Nat.lor g.vw vw) vz,
    vt := andNot (bif T then Nat.lor g.vt vw else andNot g.vt vw) vz,
    vzero := Nat.lor (andNot g.vzero vw) vz,
    gT := g.gT, D := g.D,
    xp := bif Nat.beq g.xp 0 then 0
          else bif bit vz (xpP g.xp) || bit vw (xpP g.xp) || bit vz (xpQ g.xp) || bit vw (xpQ g.xp) then 0 else g.xp }

def chk2 (ctx : Ctx) (cx : GCtx) : List SInstr → Option A → Option G → Bool
  | [], _, _ => true
  | .vec vz vw vr :: is, some a, some g => chk2 ctx cx is (some a) (some (vecFast vz vw vr g))
  | .vec _ _ _ :: _, _, _ => false
  | .gen b gi :: is, st, gs =>
    match nextB ctx b st, nextG cx (.gen b gi) st gs with
    | some st', some gs' => chk2 ctx cx is st' gs'
    | _, _ => false

/-- the certificate check of one function -/
def checkScrub (ctx : Ctx) (cx : GCtx) (P : List SInstr) (entry : Nat) : Bool :=
  (match ctx.cert entry with
   | some c => le initA c
   | none => false) &&
  (match cx.gcert entry with
   | some c => leG (initG cx.sig) c
   | none => false) &&
  (labelIdx (bcode P) entry).isSome && chk2 ctx cx P none none

/-! ## Packed encoding of the generated model

One record = the 96-bit X86Abs record followed by the ghost fields:
`vz` (64) | `vw` (64) | `vr` (64) | `gw` (32) | `gr` (32) | `ma` (16) | `mk` (4) | `mb` (5) | `cd` (5) | `cs` (5) |
flags cpl cph weak dc (4) | `msz` (16) | `mo` (33, biased by 2^31) | `xm` (2) | `xa` (6) | `xb` (6) | `xo` (7)  = 96 + 365 = 461 bits. -/

def M64 : Nat := 18446744073709551615
def M32 : Nat := 4294967295
def M16 : Nat := 65535

/-- bit field `[k, k+width)` of `y`, `m = 2^width - 1` (raw kernel-accelerated primitives) -/
def fld (y k m : Nat) : Nat := Nat.land (Nat.shiftRight y k) m

def decodeGI (y : Nat) : GI :=
  { vz := Nat.land y 18446744073709551615,
    vw := fld y 64 18446744073709551615,
    vr := fld y 128 18446744073709551615,
    gw := fld y 192 4294967295,
    gr := fld y 224 4294967295,
    ma := fld y 256 65535,
    mkd := fld y 272 15,
    mb := fld y 276 31,
    cd := fld y 281 31,
    cs := fld y 286 31,
    cpl := Nat.beq (fld y 291 1) 1,
    cph := Nat.beq (fld y 292 1) 1,
    weak := Nat.beq (fld y 293 1) 1,
    dc := Nat.beq (fld y 294 1) 1,
    msz := fld y 295 65535,
    mo := Int.subNatNat (fld y 311 8589934591) 2147483648,
    xm := fld y 344 3,
    xa := fld y 346 63,
    xb := fld y 352 63,
    xo := fld y 358 127 }

/-- kind byte 24 = short form of a pure vector record: `vz` at bit 8, `vw` at bit 72, `vr` at bit 136 -/
def decodeS (x : Nat) : SInstr :=
  bif Nat.beq (Nat.land x 255) 24 then
    .vec (fld x 8 18446744073709551615) (fld x 72 18446744073709551615) (fld x 136 18446744073709551615)
  else .gen (decodeInstr (Nat.land x 79228162514264337593543950335)) (decodeGI (Nat.shiftRight x 96))

/-- records come one `Nat` literal each, in sublists of 64 (a flat literal list of a whole function would exceed the
elaborator's recursion depth; packing several records into one literal makes the kernel re-shift it for every field) -/
def decodeCodeS : List (List Nat) → List SInstr
  | [] => []
  | l :: ls => l.map decodeS ++ decodeCodeS ls

/-- one function of the generated model -/
structure SFunc where
  gid    : Nat
  name   : String
  entry  : Nat
  n      : Nat
  code   : List (List Nat)         -- packed records
  labMap : Nat                     -- label id ↦ index into `states` (16 bits each)
  states : List A                  -- distinct X86Abs certificate states
  frames : List (Int × Nat)
  gMap   : Nat                     -- label id ↦ index into `gstates`
  gstates : List G                 -- distinct ghost certificate states
  indcm  : Option Nat
  declass : Bool                   -- checked under rule "D" / "D2" / "X": records may declassify / record xor facts

def SFunc.prog (d : SFunc) : List SInstr := decodeCodeS d.code
def SFunc.certAt (d : SFunc) (id : Nat) : Option A := d.states[(d.labMap >>> (16 * id)) &&& 65535]?
def SFunc.gcertAt (d : SFunc) (id : Nat) : Option G := d.gstates[(d.gMap >>> (16 * id)) &&& 65535]?

/-- summary table: 66 bits per function id: bit 65 = listed, bit 64 = passes, bits 0..63 = `cm` -/
def vsumOf (tab : Nat) (g : Nat) : Option Nat :=
  let e := Nat.land (Nat.shiftRight tab (66 * g)) 73786976294838206463
  bif Nat.ble 55340232221128654848 e then some (Nat.land e M64) else none

/-- key-argument table: 16 bits per function id -/
def sigOf (tab : Nat) (g : Nat) : Nat := Nat.land (Nat.shiftRight tab (16 * g)) M16

def SFunc.ctx (gtab : Nat) (d : SFunc) : Ctx :=
  { cert := d.certAt, tab := sumOf gtab, mask := sumOf gtab d.gid, frames := d.frames, allow := fun _ => true }

def SFunc.gctx (vtab sigs : Nat) (d : SFunc) : GCtx :=
  { gcert := d.gcertAt, vtab := vsumOf vtab, sigs := sigOf sigs, cm := (vsumOf vtab d.gid).getD 0,
    indcm := d.indcm, sig := sigOf sigs d.gid }

/-- no record declassifies, none takes part in the xor bookkeeping -/
def noDC (P : List SInstr) : Bool := P.all (fun i => !i.g.dc && Nat.beq i.g.xm 0)

def checkSFunc (gtab vtab sigs : Nat) (d : SFunc) : Bool :=
  (vsumOf vtab d.gid).isSome && (d.declass || noDC d.prog) &&
  checkScrub (d.ctx gtab) (d.gctx vtab sigs) d.prog d.entry

/-- check every listed function of an object -/
def checkSObj (gtab vtab sigs : Nat) (fs : List SFunc) : Bool := fs.all (checkSFunc gtab vtab sigs)

end IsalVerif.Scrub
