/-
  IsalVerif/Impl/WrapperC16.lean - checkers for property C16 (default build) and their soundness:
  `guardsBeforeUse`, `domainChecks`, `sameCallAs`.  See WrapperCheck.lean for the overview.
-/
import IsalVerif.Impl.WrapperNorm

namespace IsalVerif.Wrapper
open IsalVerif.ApiDomain

/-! ## C16 : every used pointer was NULL-tested before -/

/-- Pointer parameters among the actual arguments of a call. -/
def argPtrs (ps : List Param) (as : List Arg) : List Nat :=
  as.filterMap fun a => match a with
    | .param i => if ((ps[i]?).map (·.kind.isPtr)).getD true then some i else none
    | .const _ => none

/-- Pointer parameters a statement loads from, stores to, or hands to a callee. -/
def Stmt.uses (ps : List Param) : Stmt → List Nat
  | .call _ a => argPtrs ps a
  | .retCall _ a => argPtrs ps a
  | .assignOut o _ a => o :: argPtrs ps a
  | .ifCallNegRet _ a _ _ => argPtrs ps a
  | .mapCtxError o i _ _ => [o, i]
  | .memcmpGuard a _ b _ _ _ _ => [a, b]
  | _ => []

def Effect.uses (ps : List Param) : Effect → List Nat
  | .call _ a => argPtrs ps a
  | .write p => [p]
  | .deref p => [p]
  | _ => []

/-- Parameters that occur in an `isNull` test of a condition. -/
def Cond.nullTested : Cond → List Nat
  | .isNull p => [p]
  | .cmp .. => []
  | .and a b => a.nullTested ++ b.nullTested
  | .or a b => a.nullTested ++ b.nullTested
  | .not a => a.nullTested

/-- `tested` = pointers NULL-tested by the guards passed so far. -/
def guardsBeforeUseAux (ps : List Param) : List Nat → List Stmt → Bool
  | _, [] => true
  | t, .ifRet c _ :: rest => guardsBeforeUseAux ps (c.nullTested ++ t) rest
  | _, .opaque _ :: _ => false
  | t, s :: rest => (s.uses ps).all (fun p => t.contains p) && guardsBeforeUseAux ps t rest

def guardsBeforeUse (ps : List Param) (b : List Stmt) : Bool := guardsBeforeUseAux ps [] b

/-- `p` was NULL-tested by one of the conditions `cs`, and that guard did not fire. -/
def TestedBy (env : Env) (cs : List Cond) (p : Nat) : Prop :=
  ∃ c ∈ cs, p ∈ c.nullTested ∧ c.eval env = false

/-- The conditions of the `ifRet` guards of a body. -/
def guardConds : List Stmt → List Cond
  | [] => []
  | .ifRet c _ :: rest => c :: guardConds rest
  | _ :: rest => guardConds rest

private theorem uses_of_effects_step (ps : List Param) (env : Env) (s : Stmt) (rest : List Stmt)
    (hs : ∀ c k, s ≠ .ifRet c k) :
    ∀ e ∈ (run (s :: rest) env).effects,
      (∀ p ∈ e.uses ps, p ∈ s.uses ps) ∨ e ∈ (run rest env).effects := by
  intro e he
  cases s with
  | ifRet c k => exact absurd rfl (hs c k)
  | selfTestGate code =>
    simp only [run] at he
    split at he
    · exact Or.inr he
    · simp at he
    · split at he
      · simp only [Outcome.pre_effects, List.mem_append, List.mem_singleton] at he
        rcases he with rfl | he
        · left; intro p hp; simp [Effect.uses] at hp
        · exact Or.inr he
      · simp at he; subst he; left; intro p hp; simp [Effect.uses] at hp
  | memcmpGuard a oa b ob n more code =>
    simp only [run] at he
    split at he
    · left; simp at he; rcases he with rfl | rfl <;> simp [Effect.uses, Stmt.uses]
    · simp only [Outcome.pre_effects, List.mem_append] at he
      rcases he with he | he
      · left; simp at he; rcases he with rfl | rfl <;> simp [Effect.uses, Stmt.uses]
      · exact Or.inr he
  | call sy a =>
    simp only [run, Outcome.pre_effects, List.mem_append, List.mem_singleton] at he
    rcases he with rfl | he
    · left; simp [Effect.uses, Stmt.uses]
    · exact Or.inr he
  | assignOut o sy a =>
    simp only [run, Outcome.pre_effects, List.mem_append] at he
    rcases he with he | he
    · left; simp at he; rcases he with rfl | rfl <;> simp [Effect.uses, Stmt.uses]
      intro p hp; exact Or.inr hp
    · exact Or.inr he
  | retCall sy a =>
    simp only [run] at he; simp at he; subst he; left; simp [Effect.uses, Stmt.uses]
  | ifCallNegRet sy a gs code =>
    simp only [run] at he
    split at he
    · split at he
      · simp at he
      · exact Or.inr he
    · split at he
      · simp at he; subst he; left; simp [Effect.uses, Stmt.uses]
      · simp only [Outcome.pre_effects, List.mem_append, List.mem_singleton] at he
        rcases he with rfl | he
        · left; simp [Effect.uses, Stmt.uses]
        · exact Or.inr he
  | mapCtxError o i g m =>
    have key : ∀ x ∈ [Effect.deref o, if env.ctxSame = true then Effect.deref i else Effect.derefRet],
        ∀ p ∈ x.uses ps, p ∈ (Stmt.mapCtxError o i g m).uses ps := by
      intro x hx p hp
      simp at hx
      rcases hx with rfl | rfl
      · simp [Effect.uses] at hp; simp [Stmt.uses, hp]
      · split at hp
        · simp [Effect.uses] at hp; simp [Stmt.uses, hp]
        · simp [Effect.uses] at hp
    simp only [run] at he
    split at he
    · simp only [Outcome.pre_effects, List.mem_append, List.mem_singleton] at he
      rcases he with rfl | he
      · left; simp [Effect.uses, Stmt.uses]
      · exact Or.inr he
    · split at he
      · split at he
        · exact Or.inl (key e he)
        · simp only [Outcome.pre_effects, List.mem_append] at he
          rcases he with he | he
          · exact Or.inl (key e he)
          · exact Or.inr he
      · simp only [Outcome.pre_effects, List.mem_append] at he
        rcases he with he | he
        · exact Or.inl (key e he)
        · exact Or.inr he
  | retConst k => simp [run] at he
  | retGlobal sy => simp [run] at he
  | «opaque» src => exact Or.inr (by simpa [run] using he)

theorem guardsBeforeUseAux_sound (ps : List Param) (env : Env) :
    ∀ (b : List Stmt) (t : List Nat) (pre : List Cond),
      guardsBeforeUseAux ps t b = true → (∀ p ∈ t, TestedBy env pre p) →
      ∀ e ∈ (run b env).effects, ∀ p ∈ e.uses ps, TestedBy env (pre ++ guardConds b) p := by
  intro b
  induction b with
  | nil => intro t pre _ _ e he; simp [run] at he
  | cons s rest ih =>
    intro t pre h ht e he p hp
    by_cases hif : ∃ c k, s = .ifRet c k
    · obtain ⟨c, k, rfl⟩ := hif
      simp only [guardsBeforeUseAux] at h
      simp only [run] at he
      split at he
      · simp at he
      · rename_i hc
        have hc' : c.eval env = false := by simpa using hc
        have ht' : ∀ q ∈ c.nullTested ++ t, TestedBy env (pre ++ [c]) q := by
          intro q hq
          rcases List.mem_append.1 hq with hq | hq
          · exact ⟨c, by simp, hq, hc'⟩
          · obtain ⟨c', hm, hn, hev⟩ := ht q hq
            exact ⟨c', by simp [hm], hn, hev⟩
        have := ih (c.nullTested ++ t) (pre ++ [c]) h ht' e he p hp
        simpa [guardConds, List.append_assoc] using this
    · have hne : ∀ c k, s ≠ .ifRet c k := fun c k hs => hif ⟨c, k, hs⟩
      have hop : s.isOpaque = false := by
        cases s <;> simp_all [guardsBeforeUseAux, Stmt.isOpaque]
      have hsplit : (s.uses ps).all (fun p => t.contains p) = true ∧
          guardsBeforeUseAux ps t rest = true := by
        cases s <;> simp_all [guardsBeforeUseAux, Stmt.isOpaque]
      have hg : guardConds (s :: rest) = guardConds rest := by
        cases s <;> simp_all [guardConds]
      rw [hg]
      rcases uses_of_effects_step ps env s rest hne e he with hu | hr
      · have hpt : p ∈ t := by
          have := (List.all_eq_true.1 hsplit.1) p (hu p hp)
          simpa using this
        obtain ⟨c', hm, hn, hev⟩ := ht p hpt
        exact ⟨c', by simp [hm], hn, hev⟩
      · exact ih t pre hsplit.2 ht e hr p hp

/-- Every pointer argument the wrapper loads from, stores to or passes to a callee has been
    NULL-tested by a guard of the wrapper that was evaluated before and did not fire. -/
theorem guardsBeforeUse_sound {ps : List Param} {b : List Stmt} (h : guardsBeforeUse ps b = true)
    (env : Env) :
    ∀ e ∈ (run b env).effects, ∀ p ∈ e.uses ps,
      ∃ c ∈ guardConds b, p ∈ c.nullTested ∧ c.eval env = false := by
  intro e he p hp
  have := guardsBeforeUseAux_sound ps env b [] [] h (by simp) e he p hp
  simpa [TestedBy] using this

/-! ## C16 : the guards are the documented domain -/

/-- After the guards: the single call, the (guarded) context-error mapping, `return 0`.  In the
    FIPS build also the key comparison and the gate. -/
def acceptsTail : List Stmt → Bool
  | [.retConst k] => k == 0
  | [.retCall _ _] => true
  | .call _ _ :: rest => acceptsTail rest
  | .assignOut _ _ _ :: rest => acceptsTail rest
  | .mapCtxError _ _ true _ :: rest => acceptsTail rest
  | .ifCallNegRet _ _ [] _ :: rest => acceptsTail rest
  | .selfTestGate _ :: rest => acceptsTail rest
  | .memcmpGuard _ _ _ _ _ _ _ :: rest => acceptsTail rest
  | _ => false

/-- The callee reports no failure and no error for the submitted context. -/
structure CalleeOk (env : Env) : Prop where
  ret  : env.calleeRet = 0
  ctx  : env.ctxSame = true → env.ctxError = 0
  gate : env.gatePasses = true
  keys : ∀ a oa b ob n, env.memEq a oa b ob n = false

theorem acceptsTail_sound {t : List Stmt} (h : acceptsTail t = true) (env : Env) (ok : CalleeOk env) :
    (run t env).ret = 0 := by
  induction t with
  | nil => simp [acceptsTail] at h
  | cons s rest ih =>
    cases s with
    | retConst k =>
      cases rest <;> simp_all [acceptsTail, run]
    | retCall sy a =>
      cases rest <;> simp_all [acceptsTail, run, ok.ret]
    | call sy a => simp only [acceptsTail] at h; simp [run, ih h]
    | assignOut o sy a => simp only [acceptsTail] at h; simp [run, ih h]
    | mapCtxError o i g m =>
      cases g <;> simp only [acceptsTail] at h
      · simp at h
      · simp only [run, Bool.true_and]
        by_cases hs : env.ctxSame
        · simp [hs, ok.ctx hs, ih h]
        · simp [hs, ih h]
    | ifCallNegRet sy a gs code =>
      cases gs with
      | nil =>
        simp only [acceptsTail] at h
        simp [run, firstFiring, ok.ret, ih h]
      | cons g gs => simp [acceptsTail] at h
    | selfTestGate code =>
      simp only [acceptsTail] at h
      have hg := ok.gate
      simp only [Env.gatePasses] at hg
      simp only [run]
      cases hst : env.selfTest <;> simp only [hst] at hg ⊢
      · simp [hg, ih h]
      · exact ih h
      · simp at hg
    | memcmpGuard a oa b ob n more code =>
      simp only [acceptsTail] at h
      simp [run, Env.memEqAll, ok.keys, ih h]
    | ifRet c k => simp [acceptsTail] at h
    | retGlobal sy => simp [acceptsTail] at h
    | «opaque» src => simp [acceptsTail] at h

/-- The documented constraints as guards in normal form. -/
def specGuards (s : ApiSpec) : List Guard :=
  s.constraints.flatMap fun c => normGuards c.violated c.code

def guardSubset (a b : List Guard) : Bool :=
  a.all fun g => b.any fun h => h.1 == g.1 && h.2 == g.2

theorem guardSubset_mem {a b : List Guard} (h : guardSubset a b = true) {g : Guard} (hg : g ∈ a) :
    g ∈ b := by
  have := (List.all_eq_true.1 h) g hg
  obtain ⟨x, hx, he⟩ := List.any_eq_true.1 this
  simp only [Bool.and_eq_true, beq_iff_eq] at he
  have : x = g := Prod.ext he.1 he.2
  exact this ▸ hx

/-- The wrapper's leading guards are exactly the documented constraints (same conditions, same
    codes, all non-zero), and what follows accepts. -/
def domainChecks (s : ApiSpec) (b : List Stmt) : Bool :=
  guardSubset (leadGuards b).1 (specGuards s) && guardSubset (specGuards s) (leadGuards b).1 &&
  (leadGuards b).1.all (fun g => g.2 != 0) && acceptsTail (leadGuards b).2

theorem specGuards_fires (s : ApiSpec) (env : Env) :
    (∃ g ∈ specGuards s, g.1.eval env = true) ↔ ¬ s.inDomain env := by
  simp only [specGuards, List.mem_flatMap, ApiSpec.inDomain]
  constructor
  · rintro ⟨g, ⟨c, hc, hg⟩, he⟩ hd
    have := (normGuards_fires env c.violated c.code).1 ⟨g, hg, he⟩
    simp [hd c hc] at this
  · intro hd
    have : ∃ c ∈ s.constraints, c.violated.eval env = true := by
      apply Classical.byContradiction
      intro hn
      apply hd
      intro c hc
      by_cases h : c.violated.eval env
      · exact absurd ⟨c, hc, h⟩ hn
      · simpa using h
    obtain ⟨c, hc, hv⟩ := this
    obtain ⟨g, hg, he⟩ := (normGuards_fires env c.violated c.code).2 hv
    exact ⟨g, ⟨c, hc, hg⟩, he⟩

theorem specGuards_code {s : ApiSpec} {env : Env} {g : Guard} (hg : g ∈ specGuards s)
    (he : g.1.eval env = true) : g.2 ∈ s.violatedCodes env := by
  simp only [specGuards, List.mem_flatMap] at hg
  obtain ⟨c, hc, hg⟩ := hg
  have hv := (normGuards_fires env c.violated c.code).1 ⟨g, hg, he⟩
  simp only [ApiSpec.violatedCodes, List.mem_map, List.mem_filter]
  exact ⟨c, ⟨hc, hv⟩, (normGuards_code hg).symm⟩

/-- C16, refusal: outside the documented domain the wrapper returns a non-zero code that is the
    documented code of a violated constraint, and has no effect at all (no call, no store, no
    load through any argument). -/
theorem domainChecks_reject {s : ApiSpec} {b : List Stmt} (h : domainChecks s b = true) (env : Env)
    (hd : ¬ s.inDomain env) :
    (run b env).ret ≠ 0 ∧ (run b env).ret ∈ s.violatedCodes env ∧ (run b env).effects = [] := by
  simp only [domainChecks, Bool.and_eq_true] at h
  obtain ⟨⟨⟨h1, h2⟩, h3⟩, _⟩ := h
  obtain ⟨g, hg, he⟩ := (specGuards_fires s env).2 hd
  have hg' := guardSubset_mem h2 hg
  rw [run_leadGuards]
  cases hf : firstFiring env (leadGuards b).1 with
  | none =>
    rw [firstFiring_none] at hf
    simp [hf g hg'] at he
  | some k =>
    obtain ⟨c, hm, hc⟩ := firstFiring_some hf
    have hk : k ≠ 0 := by
      have := (List.all_eq_true.1 h3) (c, k) hm
      simpa using this
    exact ⟨hk, specGuards_code (guardSubset_mem h1 hm) hc, rfl⟩

/-- C16, acceptance: inside the documented domain the wrapper returns 0 whenever the callee
    reports no error (for the submitted context). -/
theorem domainChecks_accept {s : ApiSpec} {b : List Stmt} (h : domainChecks s b = true) (env : Env)
    (hd : s.inDomain env) (ok : CalleeOk env) : (run b env).ret = 0 := by
  simp only [domainChecks, Bool.and_eq_true] at h
  obtain ⟨⟨⟨h1, _⟩, _⟩, h4⟩ := h
  rw [run_leadGuards]
  have : firstFiring env (leadGuards b).1 = none := by
    rw [firstFiring_none]
    intro g hg
    by_cases he : g.1.eval env
    · exact absurd hd ((specGuards_fires s env).1 ⟨g, guardSubset_mem h1 hg, he⟩)
    · simpa using he
  simp only [this]
  exact acceptsTail_sound h4 env ok

/-! ## C16 : constraints reported through the hash context

`flags` outside {UPDATE, FIRST, LAST, ENTIRE}, a context that is still being processed, and a
completed context that is updated are detected by the callee, which sets `ctx->error` and returns
the context; the wrapper maps the error to the documented code. -/

/-- `ISAL_HASH_CTX_ERROR` ↦ `ISAL_CRYPTO_ERROR`. -/
def ctxErrorMap : List (Code × Code) :=
  [(CTX_ERROR_INVALID_FLAGS, ERR_INVALID_FLAGS),
   (CTX_ERROR_ALREADY_PROCESSING, ERR_ALREADY_PROCESSING),
   (CTX_ERROR_ALREADY_COMPLETED, ERR_ALREADY_COMPLETED)]

/-- The tail stores the callee's result and maps the three context errors. -/
def reportsCtxErrors : List Stmt → Bool
  | .selfTestGate _ :: rest => reportsCtxErrors rest
  | [.assignOut o _ _, .mapCtxError o' _ _ m, .retConst _] => o == o' && m == ctxErrorMap
  | _ => false

theorem reportsCtxErrors_sound {t : List Stmt} (h : reportsCtxErrors t = true) (env : Env)
    (hg : env.gatePasses = true) (hs : env.ctxSame = true) {c : Code}
    (he : env.ctxError ≠ 0) (hl : lookupCode env.ctxError ctxErrorMap = some c) :
    (run t env).ret = c := by
  induction t with
  | nil => simp [reportsCtxErrors] at h
  | cons s rest ih =>
    cases s with
    | selfTestGate code =>
      simp only [reportsCtxErrors] at h
      simp only [Env.gatePasses] at hg
      simp only [run]
      cases hst : env.selfTest <;> simp only [hst] at hg ⊢
      · simp [hg, ih h]
      · exact ih h
      · simp at hg
    | assignOut o sy a =>
      match rest, h with
      | [.mapCtxError o' i g m, .retConst _], h =>
        simp only [reportsCtxErrors, Bool.and_eq_true, beq_iff_eq] at h
        have hne : (env.ctxError != 0) = true := by simpa using he
        simp [run, hs, h.2, hl, hne]
    | _ => simp [reportsCtxErrors] at h

/-! ## C16 : legacy entry points -/

/-- How the result of the internal call is delivered. -/
inductive RetKind
  | ignored             -- `f(..); return 0;`  or  `f(..);` in a void function
  | stored (o : Nat)    -- `*out = f(..);`
  | returned            -- `return f(..);`
  | tested              -- `if (f(..) < 0) return code; return 0;`
  deriving DecidableEq, Repr

structure Work where
  sym  : Nat
  args : List Arg
  ret  : RetKind
  deriving Repr

/-- The single internal call of an isal_ wrapper, after its guards / gate. -/
def isalWork : List Stmt → Option Work
  | .ifRet _ _ :: rest => isalWork rest
  | .selfTestGate _ :: rest => isalWork rest
  | .memcmpGuard _ _ _ _ _ _ _ :: rest => isalWork rest
  | [.call s a, .retConst _] => some ⟨s, a, .ignored⟩
  | [.assignOut o s a, .retConst _] => some ⟨s, a, .stored o⟩
  | [.assignOut o s a, .mapCtxError _ _ _ _, .retConst _] => some ⟨s, a, .stored o⟩
  | [.retCall s a] => some ⟨s, a, .returned⟩
  | [.ifCallNegRet s a _ _, .retConst _] => some ⟨s, a, .tested⟩
  | _ => none

/-- The single internal call of a legacy function (no guards at all). -/
def legacyWork : List Stmt → Option Work
  | [.call s a] => some ⟨s, a, .ignored⟩
  | [.call s a, .retConst _] => some ⟨s, a, .ignored⟩
  | [.retCall s a] => some ⟨s, a, .returned⟩
  | _ => none

/-- Renumber a parameter reference when slot `o` (the isal_-only result pointer) is removed. -/
def Arg.dropSlot (o : Nat) : Arg → Arg
  | .param i => .param (if i < o then i else i - 1)
  | a => a

def Arg.isParam (o : Nat) : Arg → Bool
  | .param i => i == o
  | _ => false

/-- The legacy body makes the same internal call with the same actual arguments (positionally;
    the isal_ form may have one extra parameter, the slot the result is stored through). -/
def sameCallAs (legacy isal : Entry) : Bool :=
  match isalWork isal.body, legacyWork legacy.body with
  | some wi, some wl =>
    wi.sym == wl.sym &&
    (match wi.ret with
     | .stored o =>
         wl.ret == .returned && wi.args.all (fun a => !a.isParam o) &&
         wl.args == wi.args.map (Arg.dropSlot o) && legacy.params.length + 1 == isal.params.length
     | .ignored => wl.ret == .ignored && wl.args == wi.args &&
         legacy.params.length == isal.params.length
     | .returned => wl.ret == .returned && wl.args == wi.args &&
         legacy.params.length == isal.params.length
     | .tested => wl.ret == .returned && wl.args == wi.args &&
         legacy.params.length == isal.params.length)
  | _, _ => false

def Effect.isCall : Effect → Bool
  | .call .. => true
  | _ => false

def Outcome.calls (o : Outcome) : List Effect := o.effects.filter Effect.isCall

/-- No guard fires, the gate passes, the keys differ, the same-file callee does not refuse. -/
def quiet (env : Env) : List Stmt → Bool
  | [] => true
  | .ifRet c _ :: rest => !c.eval env && quiet env rest
  | .selfTestGate _ :: rest => env.gatePasses && quiet env rest
  | .memcmpGuard a oa b ob n more _ :: rest => !env.memEqAll a oa b ob n more && quiet env rest
  | .ifCallNegRet _ _ gs _ :: rest => (firstFiring env gs).isNone && quiet env rest
  | _ :: rest => quiet env rest

theorem legacyWork_calls {b : List Stmt} {w : Work} (h : legacyWork b = some w) (env : Env) :
    (run b env).calls = [.call w.sym w.args] := by
  match b, h with
  | [.call s a], h => simp [legacyWork] at h; subst h; simp [run, Outcome.calls, Effect.isCall]
  | [.call s a, .retConst _], h =>
    simp [legacyWork] at h; subst h; simp [run, Outcome.calls, Effect.isCall]
  | [.retCall s a], h => simp [legacyWork] at h; subst h; simp [run, Outcome.calls, Effect.isCall]

theorem isalWork_calls {b : List Stmt} {w : Work} (h : isalWork b = some w) (env : Env)
    (hq : quiet env b = true) : (run b env).calls = [.call w.sym w.args] := by
  induction b with
  | nil => simp [isalWork] at h
  | cons s rest ih =>
    cases s with
    | ifRet c k =>
      simp only [isalWork] at h
      simp only [quiet, Bool.and_eq_true, Bool.not_eq_true'] at hq
      simp [run, hq.1, ih h hq.2]
    | selfTestGate code =>
      simp only [isalWork] at h
      simp only [quiet, Bool.and_eq_true, Env.gatePasses] at hq
      have := ih h hq.2
      simp only [run]
      cases hst : env.selfTest <;> simp only [hst] at hq ⊢
      · simp only [hq.1, if_true]
        simp only [Outcome.calls, Outcome.pre_effects] at this ⊢
        simp [Effect.isCall, this]
      · exact this
      · simp at hq
    | memcmpGuard a oa b' ob n more code =>
      simp only [isalWork] at h
      simp only [quiet, Bool.and_eq_true, Bool.not_eq_true'] at hq
      have := ih h hq.2
      simp only [run, hq.1]
      simp only [Outcome.calls] at this ⊢
      simp [Effect.isCall, this]
    | call sy a =>
      match rest, h with
      | [.retConst _], h =>
        simp [isalWork] at h; subst h; simp [run, Outcome.calls, Effect.isCall]
    | assignOut o sy a =>
      match rest, h with
      | [.retConst _], h =>
        simp [isalWork] at h; subst h; simp only [run, Outcome.calls, Outcome.pre_effects]; rfl
      | [.mapCtxError o' i g m, .retConst _], h =>
        simp [isalWork] at h; subst h
        simp only [run, Outcome.calls]
        split
        · rfl
        · split
          · split <;> (simp only [Outcome.pre_effects]; split <;> rfl)
          · simp only [Outcome.pre_effects]; split <;> rfl
    | retCall sy a =>
      match rest, h with
      | [], h => simp [isalWork] at h; subst h; simp [run, Outcome.calls, Effect.isCall]
    | ifCallNegRet sy a gs code =>
      match rest, h with
      | [.retConst _], h =>
        simp [isalWork] at h; subst h
        simp only [quiet, Bool.and_eq_true, Option.isNone_iff_eq_none] at hq
        simp only [run, hq.1]
        split <;> simp [Outcome.calls, Effect.isCall]
    | mapCtxError o i g m => simp [isalWork] at h
    | retConst k => simp [isalWork] at h
    | retGlobal sy => simp [isalWork] at h
    | «opaque» src => simp [isalWork] at h

/-- C16, legacy clause: a legacy function and its isal_ counterpart (called with valid arguments)
    each make exactly one internal call, of the same symbol, with the same actual arguments up to
    the removal of the isal_-only result slot. -/
theorem sameCallAs_sound {l i : Entry} (h : sameCallAs l i = true) :
    ∃ sym args, ∃ f : Arg → Arg,
      (∀ env, quiet env i.body = true → (run i.body env).calls = [.call sym args]) ∧
      (∀ env, (run l.body env).calls = [.call sym (args.map f)]) := by
  simp only [sameCallAs] at h
  split at h
  · rename_i wi wl hi hl
    simp only [Bool.and_eq_true, beq_iff_eq] at h
    obtain ⟨hsym, hrest⟩ := h
    cases hr : wi.ret with
    | stored o =>
      simp only [hr, Bool.and_eq_true, beq_iff_eq] at hrest
      refine ⟨wi.sym, wi.args, Arg.dropSlot o, fun env hq => isalWork_calls hi env hq, fun env => ?_⟩
      rw [legacyWork_calls hl env, ← hsym, hrest.1.2]
    | ignored =>
      simp only [hr, Bool.and_eq_true, beq_iff_eq] at hrest
      refine ⟨wi.sym, wi.args, id, fun env hq => isalWork_calls hi env hq, fun env => ?_⟩
      rw [legacyWork_calls hl env, ← hsym, hrest.1.2]; simp
    | returned =>
      simp only [hr, Bool.and_eq_true, beq_iff_eq] at hrest
      refine ⟨wi.sym, wi.args, id, fun env hq => isalWork_calls hi env hq, fun env => ?_⟩
      rw [legacyWork_calls hl env, ← hsym, hrest.1.2]; simp
    | tested =>
      simp only [hr, Bool.and_eq_true, beq_iff_eq] at hrest
      refine ⟨wi.sym, wi.args, id, fun env hq => isalWork_calls hi env hq, fun env => ?_⟩
      rw [legacyWork_calls hl env, ← hsym, hrest.1.2]; simp
  · simp at h

end IsalVerif.Wrapper
