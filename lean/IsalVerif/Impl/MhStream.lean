import IsalVerif.Spec.MultiHash
import IsalVerif.Spec.Murmur3
/-! Executable model of the multi-hash streaming layer, written statement by statement after

    * `mh_sha1/mh_sha1.c` (`_mh_sha1_init`), `mh_sha1/mh_sha1_update_base.c`,
      `mh_sha1/mh_sha1_finalize_base.c` (`MH_SHA1_TAIL_FUNCTION`, `MH_SHA1_FINALIZE_FUNCTION`),
      `mh_sha1/sha1_for_mh_sha1.c` (`_sha1_for_mh_sha1`);
    * `mh_sha256/…`: the same four files with `sha1 ↦ sha256` (checked with `diff`: they differ only in
      names, white space and an unrolled copy loop), hence one model parameterised by `MultiHash.Inner`;
    * `mh_sha1_murmur3_x64_128/{mh_sha1_murmur3_x64_128.c, …_update_base.c, …_finalize_base.c,
      murmur3_x64_128_internal.c}` for the stitched variant.  Its update is again the same template
      with one more argument to the block function, so `update` below is shared by all three and is
      generic in the type `D` of "what the block function updates".

    These C files are `#include`d once per SIMD family (`mh_sha1.c` redefines
    `MH_SHA1_UPDATE_FUNCTION` / `MH_SHA1_BLOCK_FUNCTION`), so the streaming code is literally the same
    for base/sse/avx/avx2/avx512; only the block function differs.  The block function is therefore a
    *parameter* of the model.  Its specification is `blockSpec` (16 independent compression chains over
    the dealt words — what `mh_sha1_block_base.c` computes); the harness checks after every call that
    each family's block function meets it.

    Machine widths are explicit wherever the C code has them: `len`, `partial_block_len`, `num_blocks`
    are `uint32_t`, `total_length` is `uint64_t`, finalize passes `(uint32_t) total_len`.

    Memory: `partial_block_buffer[2048]` is a `Bytes` value that is always 2048 long
    (`Lemmas/MhProofs.lean` proves that no store goes past its end), *including the stale bytes* beyond
    the valid prefix; `memcpy`/`memset` below are the stores.  The interim digests
    `uint32_t [W][16]` are kept as 16 lane states of `W` words (`lanes[s][w] = digests[w][s]`);
    `toMem` is the memory order and `MultiHash.layout` the memory image in bytes. -/
namespace IsalVerif.Mh
open MultiHash

/-! ### Stores -/

/-- `memcpy(buf + off, src, |src|)` -/
def memcpy (buf : Bytes) (off : Nat) (src : Bytes) : Bytes :=
  buf.take off ++ src ++ buf.drop (off + src.length)

/-- `memset(buf + off, v, n)` -/
def memset (buf : Bytes) (off : Nat) (v : UInt8) (n : Nat) : Bytes := memcpy buf off (List.replicate n v)

/-! ### Block functions -/

/-- The interim digests in memory order `digests[w][s]`, `w` major. -/
def toMem (W : Nat) (lanes : List (Array UInt32)) : List UInt32 :=
  (List.range W).flatMap fun w => lanes.map fun d => d[w]!

/-- `mh_sha1_single`: one 1024-byte block; lane `s` compresses the words `s, 16+s, …` (read big-endian)
    of the block. -/
def blockSingle (I : Inner) (lanes : List (Array UInt32)) (blk : Bytes) : List (Array UInt32) :=
  (List.range 16).map fun s => I.compress lanes[s]! (segBlock s blk)

/-- Specification of `MH_SHA1_BLOCK_FUNCTION(input, digests, frame, num_blocks)` for every family
    (`_mh_sha1_block_{base,sse,avx,avx2,avx512}`): `num_blocks` consecutive blocks from `input`.
    (The frame buffer is scratch space only.) -/
def blockSpec (I : Inner) (lanes : List (Array UInt32)) (input : Bytes) (numBlocks : UInt32) :
    List (Array UInt32) :=
  (blocks 1024 numBlocks.toNat input).foldl (blockSingle I) lanes

/-- `_murmur3_x64_128_block(input, num_blocks, digests)`: `num_blocks` 16-byte murmur blocks. -/
def murmurBlocks (h : UInt64 × UInt64) (input : Bytes) (numBlocks : UInt32) : UInt64 × UInt64 :=
  (blocks 16 numBlocks.toNat input).foldl Murmur3.murBlock h

/-- What the stitched block function updates: the interim digests and the murmur state
    (`murmur3_x64_128_digest[4]`, accessed by the code as `uint64_t[2]`). -/
abbrev StD := List (Array UInt32) × (UInt64 × UInt64)

/-- Specification of `_mh_sha1_murmur3_x64_128_block_*` (as `…_block_base` in
    `mh_sha1_murmur3_x64_128.c`): the mh_sha1 blocks, and the same bytes as
    `num_blocks * 1024 / 16` murmur blocks (a `uint32_t` expression). -/
def stitchedBlockSpec (d : StD) (input : Bytes) (numBlocks : UInt32) : StD :=
  (blockSpec sha1 d.1 input numBlocks, murmurBlocks d.2 input (numBlocks * 1024 / 16))

/-! ### Context and update -/

/-- `struct isal_mh_sha1_ctx` / `isal_mh_sha256_ctx` / `isal_mh_sha1_murmur3_x64_128_ctx`
    (`frame_buffer` is scratch and not modelled). -/
structure Ctx (D : Type) where
  /-- `mh_sha1_digest[W]`, written by finalize -/
  digest : List UInt32
  /-- `uint64_t total_length` -/
  totalLength : UInt64
  /-- `partial_block_buffer[2 * 1024]` -/
  partialBuf : Bytes
  /-- `mh_sha1_interim_digests` (and `murmur3_x64_128_digest` in the stitched variant) -/
  interim : D

/-- the local variables of update that change: `input_data`, `len` -/
structure Loc (D : Type) where
  ctx : Ctx D
  input : Bytes
  len : UInt32

variable {D : Type}

/-- `if (partial_block_len != 0) { memcpy; BLOCK(partial_block_buffer, …, 1); input_data += …;
    len -= …; memset(partial_block_buffer, 0, 1024); }` -/
def stageCarry (blockFn : D → Bytes → UInt32 → D) (partialBlockLen : UInt32) (l : Loc D) : Loc D :=
  if partialBlockLen != 0 then
    let pb := memcpy l.ctx.partialBuf partialBlockLen.toNat (l.input.take (1024 - partialBlockLen).toNat)
    let interim := blockFn l.ctx.interim pb 1
    { ctx := { l.ctx with partialBuf := memset pb 0 0 1024, interim := interim }
      input := l.input.drop (1024 - partialBlockLen).toNat
      len := l.len - (1024 - partialBlockLen) }
  else l

/-- `num_blocks = len / 1024; if (num_blocks > 0) { BLOCK(input_data, …, num_blocks);
    len -= num_blocks * 1024; input_data += num_blocks * 1024; }` -/
def stageBlocks (blockFn : D → Bytes → UInt32 → D) (l : Loc D) : Loc D :=
  let numBlocks : UInt32 := l.len / 1024
  if numBlocks > 0 then
    { ctx := { l.ctx with interim := blockFn l.ctx.interim l.input numBlocks }
      input := l.input.drop (numBlocks * 1024).toNat
      len := l.len - numBlocks * 1024 }
  else l

/-- `if (len != 0) memcpy(partial_block_buffer, input_data, len);` -/
def stageStore (l : Loc D) : Ctx D :=
  if l.len != 0 then { l.ctx with partialBuf := memcpy l.ctx.partialBuf 0 (l.input.take l.len.toNat) }
  else l.ctx

/-- `MH_SHA1_UPDATE_FUNCTION(ctx, buffer, len)` with `len = |buffer|` (a `uint32_t`: the function cannot
    be called with more than 2³²−1 bytes; `UInt32.ofNat` is only there to make the model total). -/
def update (blockFn : D → Bytes → UInt32 → D) (ctx : Ctx D) (buffer : Bytes) : Ctx D :=
  let len : UInt32 := UInt32.ofNat buffer.length
  if len == 0 then ctx else
  -- partial_block_len = ctx->total_length % 1024;   (uint64 → uint32)
  let partialBlockLen : UInt32 := (ctx.totalLength % 1024).toUInt32
  -- ctx->total_length += len;
  let ctx := { ctx with totalLength := ctx.totalLength + len.toUInt64 }
  -- if (len + partial_block_len < 1024) { memcpy(partial_block_buffer + partial_block_len, input, len); return; }
  -- NB a uint32 addition: it wraps for len ≥ 2³² − partial_block_len, see the report.
  if len + partialBlockLen < 1024 then
    { ctx with partialBuf := memcpy ctx.partialBuf partialBlockLen.toNat (buffer.take len.toNat) }
  else
    stageStore (stageBlocks blockFn (stageCarry blockFn partialBlockLen ⟨ctx, buffer, len⟩))

/-! ### mh_sha1 / mh_sha256 -/

/-- `_mh_sha1_init`: `memset(ctx, 0, sizeof *ctx)`, then every lane gets the standard initial value. -/
def init (I : Inner) : Ctx (List (Array UInt32)) :=
  { digest := List.replicate I.W 0, totalLength := 0, partialBuf := List.replicate 2048 0,
    interim := List.replicate 16 I.init }

/-- `_sha1_for_mh_sha1(input_data, digest, len)` (`sha1_for_mh_sha1.c`; `sha256_for_mh_sha256` is the same
    text): a complete SHA-1 with its own padding code.  `buf[128]` is an uninitialised stack array in
    C; every byte that is read has been written before, so starting from zeros loses nothing. -/
def shaForMh (I : Inner) (inputData : Bytes) (len : UInt32) : Array UInt32 :=
  -- digest[k] = H_k;  i = len;  while (i >= 64) { single(input_data, digest); input_data += 64; i -= 64; }
  let n : UInt32 := len / 64
  let digest := (blocks 64 n.toNat inputData).foldl I.compress I.init
  let inputData := inputData.drop (64 * n.toNat)
  let i : UInt32 := len % 64
  -- memcpy(buf, input_data, i);  buf[i++] = 0x80;  for (j = i; j < 120; j++) buf[j] = 0;
  let buf := memcpy (List.replicate 128 0) 0 (inputData.take i.toNat)
  let buf := memcpy buf i.toNat [0x80]
  let i := i + 1
  let buf := memset buf i.toNat 0 (120 - i.toNat)
  -- if (i > 64 - 8) i = 128; else i = 64;
  let i : UInt32 := if i > 64 - 8 then 128 else 64
  -- *(uint64_t *) (buf + i - 8) = to_be64((uint64_t) len * 8);
  let buf := memcpy buf (i.toNat - 8) (bytesBE64 (len.toUInt64 * 8))
  -- single(buf, digest);  if (i == 128) single(buf + 64, digest);
  let digest := I.compress digest (buf.take 64)
  if i == 128 then I.compress digest ((buf.drop 64).take 64) else digest

/-- `MH_SHA1_TAIL_FUNCTION(partial_buffer, total_len, segs_digests, frame, digests)`; returns the buffer
    and the interim digests as it leaves them, and `digests[]`. -/
def tail (I : Inner) (blockFn : List (Array UInt32) → Bytes → UInt32 → List (Array UInt32))
    (partialBuffer : Bytes) (totalLen : UInt32) (segs : List (Array UInt32)) :
    Bytes × List (Array UInt32) × List UInt32 :=
  -- partial_buffer_len = total_len % 1024;   (a uint64_t variable)
  let pbl : UInt64 := (totalLen % 1024).toUInt64
  -- partial_buffer[partial_buffer_len] = 0x80;  partial_buffer_len++;
  let buf := memcpy partialBuffer pbl.toNat [0x80]
  let pbl := pbl + 1
  -- memset(partial_buffer + partial_buffer_len, 0, 1024 - partial_buffer_len);
  let buf := memset buf pbl.toNat 0 (1024 - pbl).toNat
  -- if (partial_buffer_len > 1024 - 8) { BLOCK(partial_buffer, …, 1); memset(partial_buffer, 0, 1024); }
  let (buf, segs) := if pbl > 1024 - 8 then (memset buf 0 0 1024, blockFn segs buf 1) else (buf, segs)
  -- len_in_bit = to_be64((uint64_t) total_len * 8);  *(uint64_t *) (partial_buffer + 1024 - 8) = len_in_bit;
  let buf := memcpy buf (1024 - 8) (bytesBE64 (totalLen.toUInt64 * 8))
  -- BLOCK(partial_buffer, …, 1);
  let segs := blockFn segs buf 1
  -- _sha1_for_mh_sha1((uint8_t *) segs_digests, digests, 4 * W * 16);
  (buf, segs, (shaForMh I (layout I segs) (UInt32.ofNat (4 * I.W * 16))).toList)

/-- `MH_SHA1_FINALIZE_FUNCTION(ctx, mh_sha1_digest)`: the context as it is left behind.
    The only place where `total_length` is truncated: `(uint32_t) total_len`. -/
def finalizeCtx (I : Inner) (blockFn : List (Array UInt32) → Bytes → UInt32 → List (Array UInt32))
    (ctx : Ctx (List (Array UInt32))) : Ctx (List (Array UInt32)) :=
  let totalLen : UInt64 := ctx.totalLength
  let (buf, segs, digest) := tail I blockFn ctx.partialBuf totalLen.toUInt32 ctx.interim
  { ctx with partialBuf := buf, interim := segs, digest := digest }

/-- what finalize stores to `mh_sha1_digest`: a copy of `ctx->mh_sha1_digest[0..W)` -/
def finalize (I : Inner) (blockFn : List (Array UInt32) → Bytes → UInt32 → List (Array UInt32))
    (ctx : Ctx (List (Array UInt32))) : List UInt32 :=
  (finalizeCtx I blockFn ctx).digest

/-! ### mh_sha1_murmur3_x64_128 -/

/-- `_mh_sha1_murmur3_x64_128_init(ctx, murmur_seed)`: as `_mh_sha1_init`, and both murmur state words
    are set to the 64-bit seed. -/
def stitchedInit (seed : UInt64) : Ctx StD :=
  { digest := List.replicate 5 0, totalLength := 0, partialBuf := List.replicate 2048 0,
    interim := (List.replicate 16 Sha1.init, (seed, seed)) }

/-- `_murmur3_x64_128_tail(tail_buffer, total_len, digests)`: the last `total_len % 16` bytes, then
    the length and the finalisation mix. -/
def murmurTail (tailBuffer : Bytes) (totalLen : UInt32) (hash : UInt64 × UInt64) : UInt64 × UInt64 :=
  let tailLen : UInt64 := (totalLen % 16).toUInt64
  -- hashU = 0;  while (tail_len-- > 0) hashU.hashB[tail_len] = tail[tail_len];
  let hashB := memcpy (List.replicate 16 0) 0 (tailBuffer.take tailLen.toNat)
  let data1 := (wordsLE64 hashB)[0]!
  let data2 := (wordsLE64 hashB)[1]!
  let data1 := Murmur3.mixK1 data1        -- blockmix64(data1, MUR_CON1, MUR_CON2, MUR_SH1)
  let data2 := Murmur3.mixK2 data2        -- blockmix64(data2, MUR_CON2, MUR_CON1, MUR_SH2)
  let h0 := hash.1 ^^^ (totalLen.toUInt64 ^^^ data1)   -- hash[0] ^= total_len ^ data1;
  let h1 := hash.2 ^^^ (totalLen.toUInt64 ^^^ data2)
  let h0 := h0 + h1                        -- hash[0] += hash[1];
  let h1 := h1 + h0                        -- hash[1] += hash[0];
  let h0 := Murmur3.fmix64 h0
  let h1 := Murmur3.fmix64 h1
  let h0 := h0 + h1
  let h1 := h1 + h0
  (h0, h1)

/-- `FINALIZE_FUNCTION(ctx, mh_sha1_digest, murmur3_x64_128_digest)` of
    `mh_sha1_murmur3_x64_128_finalize_base.c`.  The murmur blocks still sitting in `partial_block_buffer`
    and the murmur tail are processed *first*, because the mh_sha1 tail overwrites the buffer.
    Both tails receive `(uint32_t) total_len`. -/
def stitchedFinalizeCtx (blockFn : List (Array UInt32) → Bytes → UInt32 → List (Array UInt32))
    (ctx : Ctx StD) : Ctx StD :=
  let totalLen : UInt64 := ctx.totalLength
  let partialBlockLen : UInt64 := totalLen % 1024
  -- murmur_tail_data = partial_block_buffer + partial_block_len - partial_block_len % 16;
  let murmurTailData := ctx.partialBuf.drop (partialBlockLen - partialBlockLen % 16).toNat
  -- MURMUR_BLOCK_FUNCTION(partial_block_buffer, (uint32_t)(partial_block_len / 16), murmur digest);
  let mur := murmurBlocks ctx.interim.2 ctx.partialBuf (partialBlockLen / 16).toUInt32
  -- MURMUR_TAIL_FUNCTION(murmur_tail_data, (uint32_t) total_len, murmur digest);
  let mur := murmurTail murmurTailData totalLen.toUInt32 mur
  -- MH_SHA1_TAIL_FUNCTION(partial_block_buffer, (uint32_t) total_len, …, ctx->mh_sha1_digest);
  let (buf, segs, digest) := tail sha1 blockFn ctx.partialBuf totalLen.toUInt32 ctx.interim.1
  { ctx with partialBuf := buf, interim := (segs, mur), digest := digest }

/-- the two outputs: `mh_sha1_digest[5]` and the murmur state `(h1, h2)` (stored as 16 bytes,
    `Murmur3.digestBytes`). -/
def stitchedFinalize (blockFn : List (Array UInt32) → Bytes → UInt32 → List (Array UInt32))
    (ctx : Ctx StD) : List UInt32 × (UInt64 × UInt64) :=
  let c := stitchedFinalizeCtx blockFn ctx
  (c.digest, c.interim.2)

/-! ### The three API triples, with the specification block functions
    (this is what `mh_model` runs and what `Props/C05.lean`, `Props/C10.lean` are about) -/

abbrev MhCtx := Ctx (List (Array UInt32))

def mhSha1Init : MhCtx := init sha1
def mhSha1Update : MhCtx → Bytes → MhCtx := update (blockSpec sha1)
def mhSha1Finalize : MhCtx → List UInt32 := finalize sha1 (blockSpec sha1)

def mhSha256Init : MhCtx := init sha256
def mhSha256Update : MhCtx → Bytes → MhCtx := update (blockSpec sha256)
def mhSha256Finalize : MhCtx → List UInt32 := finalize sha256 (blockSpec sha256)

def murInit (seed : UInt64) : Ctx StD := stitchedInit seed
def murUpdate : Ctx StD → Bytes → Ctx StD := update stitchedBlockSpec
def murFinalize : Ctx StD → List UInt32 × (UInt64 × UInt64) := stitchedFinalize (blockSpec sha1)

end IsalVerif.Mh
