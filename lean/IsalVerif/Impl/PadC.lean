import IsalVerif.Impl.HashMB
/-!
  IsalVerif/Impl/PadC.lean — the C function `hash_pad` of the 26 `*_ctx_<family>.c` files, as data.

  `tools/gen_hashpad.py` translates the clang AST of every `hash_pad` into a `List S` (T-route: the program
  below is what the source says *now*).  Expressions are evaluated as C evaluates them: every node carries
  the width of its C type (the translator reads it off clang's implicit and explicit casts), arithmetic is
  modulo `2^64` with explicit truncations (`trunc 32` for `uint32_t`).  Memory is the caller's
  `padblock[2*B]` as a byte list (x86-64 is little endian: `store64` writes `natLE 8 v`).

  Everything outside this small language becomes `S.unsupported`, which no theorem accepts.
-/
namespace IsalVerif.PadC

/-- integer expressions; values are naturals `< 2^64` -/
inductive E
  | total                      -- the parameter `uint64_t total_len`
  | i                          -- the local `uint32_t i`
  | lit (k : Nat)
  | add (a b : E) | sub (a b : E) | and (a b : E) | or (a b : E)
  | shl (a : E) (k : Nat) | shr (a : E) (k : Nat)
  | trunc (w : Nat) (a : E)    -- conversion to an unsigned type of `w` bits
  | bswap64 (a : E)            -- `__builtin_bswap64`
  deriving DecidableEq, Repr, Inhabited

/-- reverse the 8 bytes of a 64-bit value -/
def bswapNat (x : Nat) : Nat :=
  (List.range 8).foldl (fun acc k => acc * 256 + x / 256 ^ k % 256) 0

def E.eval (t i : Nat) : E → Nat
  | .total => t % 2^64
  | .i => i % 2^32
  | .lit k => k % 2^64
  | .add a b => (a.eval t i + b.eval t i) % 2^64
  | .sub a b => (a.eval t i + (2^64 - b.eval t i % 2^64)) % 2^64
  | .and a b => a.eval t i &&& b.eval t i
  | .or a b => a.eval t i ||| b.eval t i
  | .shl a k => (a.eval t i * 2^k) % 2^64
  | .shr a k => a.eval t i / 2^k
  | .trunc w a => a.eval t i % 2^w
  | .bswap64 a => bswapNat (a.eval t i % 2^64)

inductive S
  | declI (e : E)                    -- `uint32_t i = e;`
  | memclr (off : E) (n : Nat)       -- `memclr_fixedlen(&padblock[off], n)` / `memset(&padblock[off], 0, n)`
  | setByte (off : E) (v : Nat)      -- `padblock[off] = v;`
  | addI (e : E)                     -- `i += e;`  (computed in the type of `e`, stored as uint32)
  | store64 (off : E) (v : E)        -- `*((uint64_t *) &padblock[off]) = v;`
  | ret (e : E)                      -- `return e;`
  | unsupported (src : String)
  deriving DecidableEq, Repr, Inhabited

structure St where
  i : Nat := 0
  buf : Bytes
  ret : Option Nat := none
  /-- a store left `padblock[0 .. 2B)` or an unsupported statement was met -/
  bad : Bool := false

/-- overwrite `n = v.length` bytes at `off` -/
def poke (buf : Bytes) (off : Nat) (v : Bytes) : Bytes := buf.take off ++ v ++ buf.drop (off + v.length)

def step (t : Nat) (s : St) : S → St
  | .declI e => { s with i := e.eval t s.i % 2^32 }
  | .memclr off n =>
    let o := off.eval t s.i
    if o + n ≤ s.buf.length then { s with buf := poke s.buf o (List.replicate n 0) } else { s with bad := true }
  | .setByte off v =>
    let o := off.eval t s.i
    if o + 1 ≤ s.buf.length then { s with buf := poke s.buf o [UInt8.ofNat v] } else { s with bad := true }
  | .addI e => { s with i := (s.i + e.eval t s.i) % 2^32 }
  | .store64 off v =>
    let o := off.eval t s.i
    if o + 8 ≤ s.buf.length then { s with buf := poke s.buf o (natLE 8 (v.eval t s.i)) } else { s with bad := true }
  | .ret e => { s with ret := some (e.eval t s.i) }
  | .unsupported _ => { s with bad := true }

def exec (prog : List S) (t : Nat) (buf : Bytes) : St := prog.foldl (step t) { buf := buf }

/-- what the caller (`*_ctx_mgr_resubmit`) hands to the manager: `n_extra_blocks` blocks of `B` bytes starting at
    `padblock` -/
def result (B : Nat) (prog : List S) (t : Nat) (buf : Bytes) : Option (List Bytes) :=
  let s := exec prog t buf
  if s.bad then none else
  match s.ret with
  | none => none
  | some n => some (blocks B n s.buf)

/-- One generated instance: the file it came from, the algorithm (named by the file: `sha256_ctx_avx2.c` → "sha256"),
    the program.  Block size, length-field size and endianness are NOT taken from the source: the obligations
    compare the program with the constants of the executable standard (`Spec/*.lean`). -/
structure Src where
  file : String
  alg : String
  prog : List S
  deriving Repr

/-- The statement skeleton all 26 files share today, with the four expressions left open.  `hi` = the
    `#if PADLENGTHFIELD_SIZE == 16` store of the upper length half. -/
def skeleton (B : Nat) (hi : Bool) (e0 e1 e2 e3 : E) : List S :=
  [.declI e0, .memclr .i B, .setByte .i 0x80, .addI e1] ++
  (if hi then [.store64 (.trunc 32 (.sub .i (.lit 16))) (.lit 0)] else []) ++
  [.store64 (.trunc 32 (.sub .i (.lit 8))) e2, .ret e3]

/-- The expressions as written today (constants folded by the translator). -/
def e0Canon (B : Nat) : E := .trunc 32 (.and .total (.lit (B - 1)))
def e1Canon (B L : Nat) : E :=
  .add (.add (.and (.lit (B - 1)) (.sub (.lit 0) (.add (.add .total (.lit L)) (.lit 1)))) (.lit 1)) (.lit L)
def e2Canon (lenBE : Bool) : E := if lenBE then .bswap64 (.shl .total 3) else .shl .total 3
def e3Canon (lg : Nat) : E := .shr .i lg

end IsalVerif.PadC
