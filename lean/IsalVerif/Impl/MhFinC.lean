import IsalVerif.Spec.Bits
/-!
  IsalVerif/Impl/MhFinC.lean — the C functions `MH_SHA1_FINALIZE_FUNCTION`, `MH_SHA256_FINALIZE_FUNCTION`
  (`mh_sha1/mh_sha1_finalize_base.c`, `mh_sha256/mh_sha256_finalize_base.c`) and the stitched `FINALIZE_FUNCTION`
  (`mh_sha1_murmur3_x64_128/mh_sha1_murmur3_x64_128_finalize_base.c`), one instance per SIMD family, as data (T-route,
  `tools/gen_mhfin.py`).  The functions are straight-line code; the `if (<out param> != NULL)` around the output copies
  is folded into every `out` statement.  Locals (all 64 bits wide): 0 = `total_len`, 1 = `partial_block_len`,
  2 = offset of `murmur_tail_data` from `partial_block_buffer`; 3 = the parameter `num_blocks` (uint32) of the stitched
  `_mh_sha1_murmur3_x64_128_block_base`, which the same language covers.
-/
namespace IsalVerif.MhFinC

inductive Z
  | total | loc (i : Nat) | lit (k : Nat)
  | add (a b : Z) | sub (a b : Z) | and (a b : Z) | shl (a : Z) (k : Nat) | shr (a : Z) (k : Nat) | trunc (w : Nat) (a : Z)
  deriving DecidableEq, Repr, Inhabited

/-- which digest: the multi-hash one or the murmur3 one (context field and output parameter of the same kind) -/
inductive Buf | sha | mur
  deriving DecidableEq, Repr, Inhabited

inductive B
  /-- `if (ctx == NULL) return <CTX_ERROR_NULL>;` (the context is a valid object here) -/
  | nullCheck
  | setLoc (i : Nat) (e : Z)
  /-- `_murmur3_x64_128_block(partial_block_buffer + off, n, ctx->murmur3_x64_128_digest)` -/
  | murBlock (off n : Z)
  /-- `_murmur3_x64_128_tail(partial_block_buffer + off, len, ctx->murmur3_x64_128_digest)` -/
  | murTail (off len : Z)
  /-- `<tail function of this family>(partial_block_buffer, len, segs_digests, frame, ctx->mh_sha*_digest)` -/
  | shaTail (len : Z)
  /-- `if (<out> != NULL) ((uint32_t *) <out>)[dst] = ctx-><digest>[src];` -/
  | out (b : Buf) (dst src : Nat)
  /-- stitched `_block_base`: `_mh_sha1_block_base(input_data, mh_sha1_digests, frame_buffer, n)` -/
  | shaBlockIn (n : Z)
  /-- stitched `_block_base`: `_murmur3_x64_128_block(input_data, n, murmur3_x64_128_digests)` -/
  | murBlockIn (n : Z)
  | ret (code : Int)
  | unsupported (src : String)
  deriving DecidableEq, Repr, Inhabited

/-- what the function does to the outside, in order -/
inductive Ev
  | murBlock (off n : Nat)
  | murTail (off len : Nat)
  | shaTail (len : Nat)
  | out (b : Buf) (dst src : Nat)
  | shaBlockIn (n : Nat)
  | murBlockIn (n : Nat)
  deriving DecidableEq, Repr

structure St where
  total : Nat
  locs : Nat → Nat := fun _ => 0
  evs : List Ev := []

def Z.eval (s : St) : Z → Nat
  | .total => s.total % 2^64
  | .loc i => s.locs i
  | .lit k => k % 2^64
  | .add a b => (a.eval s + b.eval s) % 2^64
  | .sub a b => (a.eval s + (2^64 - b.eval s % 2^64)) % 2^64
  | .and a b => a.eval s &&& b.eval s
  | .shl a k => (a.eval s * 2^k) % 2^64
  | .shr a k => a.eval s / 2^k
  | .trunc w a => a.eval s % 2^w

def St.setLoc (s : St) (i v : Nat) : St := { s with locs := fun j => if j = i then v else s.locs j }

inductive Out
  | cont (s : St)
  | ret (s : St) (code : Int)
  | bad

def step (o : Out) (b : B) : Out :=
  match o with
  | .cont s =>
    match b with
    | .nullCheck => .cont s
    | .setLoc i e => .cont (s.setLoc i (e.eval s % 2^64))
    | .murBlock off n => .cont { s with evs := s.evs ++ [.murBlock (off.eval s) (n.eval s)] }
    | .murTail off len => .cont { s with evs := s.evs ++ [.murTail (off.eval s) (len.eval s)] }
    | .shaTail len => .cont { s with evs := s.evs ++ [.shaTail (len.eval s)] }
    | .out b d k => .cont { s with evs := s.evs ++ [.out b d k] }
    | .shaBlockIn n => .cont { s with evs := s.evs ++ [.shaBlockIn (n.eval s)] }
    | .murBlockIn n => .cont { s with evs := s.evs ++ [.murBlockIn (n.eval s)] }
    | .ret code => .ret s code
    | .unsupported _ => .bad
  | o => o

def run (prog : List B) (s : St) : Out := prog.foldl step (.cont s)

def Out.res : Out → Option (List Ev × Int)
  | .ret s c => some (s.evs, c)
  | _ => none

/-- the murmur half of the stitched finalize -/
def canonMur : List B :=
  [ .setLoc 1 (.and (.loc 0) (.lit 1023)),
    .setLoc 2 (.sub (.loc 1) (.and (.loc 1) (.lit 15))),
    .murBlock (.lit 0) (.trunc 32 (.shr (.loc 1) 4)),
    .murTail (.loc 2) (.trunc 32 (.loc 0)) ]

def outs (b : Buf) (n : Nat) : List B := (List.range n).map fun i => .out b i i

/-- the function as written today: `W` digest words, `mur` = the stitched variant -/
def canon (W : Nat) (mur : Bool) : List B :=
  [ .nullCheck, .setLoc 0 .total ] ++ (if mur then canonMur else []) ++
  [ .shaTail (.trunc 32 (.loc 0)) ] ++ outs .sha W ++ (if mur then outs .mur 4 else []) ++ [ .ret 0 ]

/-- `_mh_sha1_murmur3_x64_128_block_base` as written today: the mh_sha1 block function on `num_blocks` 1024-byte blocks, then
    the murmur block function on the same input with `num_blocks * 1024 / 16` (the product in 32 bits) 16-byte blocks -/
def canonBlockBase : List B :=
  [ .shaBlockIn (.loc 3),
    .murBlockIn (.trunc 32 (.shr (.trunc 32 (.shl (.loc 3) 10)) 4)),
    .ret 0 ]

structure Src where
  file : String
  fn : String
  /-- "mh_sha1" | "mh_sha256" | "mh_sha1_murmur3_x64_128" -/
  alg : String
  prog : List B
  deriving Repr

def paramsOf (alg : String) : Option (Nat × Bool) :=
  if alg = "mh_sha1" then some (5, false)
  else if alg = "mh_sha256" then some (8, false)
  else if alg = "mh_sha1_murmur3_x64_128" then some (5, true)
  else none

end IsalVerif.MhFinC
