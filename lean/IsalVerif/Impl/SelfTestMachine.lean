import IsalVerif.Impl.SelfTest
/-!
# C17 — instruction-level machine for the self-test code, and the simulation checker

The translator `tools/gen_selftest.py` turns the disassembly of `asm_check_self_tests_status`,
`asm_set_self_tests_status` (objs/asm_self_tests.o) and `isal_self_tests` (objs/self_tests.o) into three
programs over the mini-ISA below (`Gen/SelfTest.lean`).  This file gives

* the semantics of one instruction of one thread (`cstep`): registers, ZF, a private stack, the
  shared status word; calls to the two assembly functions are executed, calls to
  `_aes_self_tests` / `_sha_self_tests` are an *enter* step followed by a *return* step that delivers
  a value from the set of possible return values and clobbers the caller-saved registers;
* the machine of `n` threads interleaved at instruction granularity (`CStep`, `CReach`);
* the checker `simCheck`: it explores the pairs (thread-local machine state, abstract control state)
  reachable from (entry of `isal_self_tests`, `PC.start`) when the status word may hold any of
  0,1,2,3 at every step and self tests return 0 or 1, and checks that
    - an instruction that touches the status word, enters/leaves a self-test function or returns
      from `isal_self_tests` (a *visible* instruction) performs exactly the abstract step `tstep`
      (same new status word, same ghost event),
    - every other instruction changes neither the status word nor the abstract state,
    - no reachable state is stuck (so no `.unsupported` instruction, no read of an undefined
      register or flag, no unbalanced stack), a returned thread corresponds to `PC.done v`
      with the same return value `v` and vice versa,
    - every run of thread-local instructions is short (`localBound`: no private infinite loop; the
      only loop is the spin loop, which contains the visible `cmp [status],3`).
  Soundness (`Lemmas/SelfTestSim.lean`): if `simCheck P = true`, every instruction-level execution of
  `P` by any number of threads is matched step for step (with stuttering) by an execution of the
  abstract protocol, so the C17 safety theorems hold of `P`; with `localBound` also liveness
  (`Lemmas/SelfTestLive.lean`).  Registers are not named in the check, so
  register renaming, rescheduling or a different basic-block layout do not break it.

Registers are the 32-bit views (all instructions in the three functions are 32-bit); `none` means
"undefined here" (never written, or clobbered by a call).
-/
namespace IsalVerif.SelfTest

/-- eax ebx ecx edx edi esi -/
inductive Reg where
  | a | b | c | d | di | si
deriving DecidableEq, Repr

/-- code a thread can be executing: `isal_self_tests`, the two assembly functions, or (opaque) one of the
    self-test functions -/
inductive Fn where
  | top | check | set | aes | sha
deriving DecidableEq, Repr

/-- the mini-ISA; jump targets are instruction indices within the same function -/
inductive Instr where
  /-- `nop`, `endbr64` -/
  | nop
  | pause
  | push (r : Reg)
  | pop (r : Reg)
  /-- `mov r32, imm32` -/
  | movImm (r : Reg) (k : Nat)
  /-- `xor r32, r32` (same register): r := 0, ZF := 1 -/
  | xorSelf (r : Reg)
  | movRR (dst src : Reg)
  /-- `or dst, src`: ZF := result = 0 -/
  | orRR (dst src : Reg)
  /-- `test r1, r2`: ZF := (r1 & r2) = 0 -/
  | testRR (r1 r2 : Reg)
  | testImm (r : Reg) (k : Nat)
  /-- `cmp r32, imm`: ZF := r = k -/
  | cmpImm (r : Reg) (k : Nat)
  | je (t : Nat)
  | jne (t : Nat)
  | jmp (t : Nat)
  /-- `mov r32, [self_test_status]` -/
  | load (r : Reg)
  /-- `mov [self_test_status], r32` -/
  | store (r : Reg)
  /-- `cmp dword [self_test_status], imm`: ZF := status = k -/
  | cmpMemImm (k : Nat)
  /-- `lock cmpxchg [self_test_status], r32`: if status = eax then status := r, ZF := 1
      else eax := status, ZF := 0 — one atomic step -/
  | lockCmpxchg (r : Reg)
  /-- direct call to one of the four known functions -/
  | call (f : Fn)
  | ret
  /-- anything the translator does not recognise: executing it is an error -/
  | unsupported
deriving DecidableEq, Repr

/-- the three translated functions and the initial content of the status word (from `.data`) -/
structure Program where
  top : List Instr
  check : List Instr
  set : List Instr
  initStatus : Nat
deriving DecidableEq, Repr

def Program.code (P : Program) : Fn → List Instr
  | .top => P.top | .check => P.check | .set => P.set | _ => []

structure Regs where
  a : Option Nat := none
  b : Option Nat := none
  c : Option Nat := none
  d : Option Nat := none
  di : Option Nat := none
  si : Option Nat := none
deriving DecidableEq, Repr

def Regs.get (R : Regs) : Reg → Option Nat
  | .a => R.a | .b => R.b | .c => R.c | .d => R.d | .di => R.di | .si => R.si

def Regs.put (R : Regs) (r : Reg) (v : Option Nat) : Regs :=
  match r with
  | .a => { R with a := v } | .b => { R with b := v } | .c => { R with c := v }
  | .d => { R with d := v } | .di => { R with di := v } | .si => { R with si := v }

/-- registers after a C function returned `v`: eax = v, rbx preserved (callee-saved, C19), the
    caller-saved ecx edx edi esi undefined -/
def Regs.afterCall (R : Regs) (v : Nat) : Regs := { a := some v, b := R.b }

/-- thread-local machine state -/
structure Local where
  fn : Fn := .top
  pc : Nat := 0
  /-- return address (index in `isal_self_tests`) while inside a callee -/
  rpc : Nat := 0
  regs : Regs := {}
  zf : Option Bool := none
  /-- values pushed by `isal_self_tests` -/
  stk : List (Option Nat) := []
  /-- `some v`: `isal_self_tests` has returned `v` -/
  res : Option Nat := none
deriving DecidableEq, Repr

/-- a thread entering `isal_self_tests`: nothing known about registers or flags -/
def Local.init : Local := {}

/-- One instruction of one thread; `s` is the status word before the step, `v` the value a
    self-test function returns if this step is such a return.  Result: new local state, new status
    word, ghost event.  `none` = the thread cannot step (has returned, or error). -/
def cstep (P : Program) (l : Local) (s v : Nat) : Option (Local × Nat × Ev) :=
  if l.res.isSome then none else
  match l.fn with
  | .aes => some ({ l with fn := .top, pc := l.rpc, regs := l.regs.afterCall v, zf := none }, s, .tau)
  | .sha => some ({ l with fn := .top, pc := l.rpc, regs := l.regs.afterCall v, zf := none }, s, .complete)
  | fn =>
    match (P.code fn)[l.pc]? with
    | none => none
    | some ins =>
      let next : Local := { l with pc := l.pc + 1 }
      match ins with
      | .nop | .pause => some (next, s, .tau)
      | .push r => if fn = .top then some ({ next with stk := l.regs.get r :: l.stk }, s, .tau) else none
      | .pop r =>
        if fn = .top then
          match l.stk with
          | x :: rest => some ({ next with regs := l.regs.put r x, stk := rest }, s, .tau)
          | [] => none
        else none
      | .movImm r k => some ({ next with regs := l.regs.put r (some k) }, s, .tau)
      | .xorSelf r => some ({ next with regs := l.regs.put r (some 0), zf := some true }, s, .tau)
      | .movRR dst src => some ({ next with regs := l.regs.put dst (l.regs.get src) }, s, .tau)
      | .orRR dst src =>
        match l.regs.get dst, l.regs.get src with
        | some x, some y => some ({ next with regs := l.regs.put dst (some (x ||| y)), zf := some (decide ((x ||| y) = 0)) }, s, .tau)
        | _, _ => none
      | .testRR r1 r2 =>
        match l.regs.get r1, l.regs.get r2 with
        | some x, some y => some ({ next with zf := some (decide ((x &&& y) = 0)) }, s, .tau)
        | _, _ => none
      | .testImm r k =>
        match l.regs.get r with
        | some x => some ({ next with zf := some (decide ((x &&& k) = 0)) }, s, .tau)
        | none => none
      | .cmpImm r k =>
        match l.regs.get r with
        | some x => some ({ next with zf := some (decide (x = k)) }, s, .tau)
        | none => none
      | .je t =>
        match l.zf with
        | some z => some ({ l with pc := if z then t else l.pc + 1 }, s, .tau)
        | none => none
      | .jne t =>
        match l.zf with
        | some z => some ({ l with pc := if z then l.pc + 1 else t }, s, .tau)
        | none => none
      | .jmp t => some ({ l with pc := t }, s, .tau)
      | .load r => some ({ next with regs := l.regs.put r (some s) }, s, .tau)
      | .store r =>
        match l.regs.get r with
        | some x => some (next, x, .tau)
        | none => none
      | .cmpMemImm k => some ({ next with zf := some (decide (s = k)) }, s, .tau)
      | .lockCmpxchg r =>
        match l.regs.a, l.regs.get r with
        | some x, some y =>
          if s = x then some ({ next with zf := some true }, y, .tau)
          else some ({ next with regs := l.regs.put .a (some s), zf := some false }, s, .tau)
        | _, _ => none
      | .call f =>
        if fn = .top then
          match f with
          | .top => none
          | .aes => some ({ l with fn := .aes, rpc := l.pc + 1 }, s, .enter)
          | .sha => some ({ l with fn := .sha, rpc := l.pc + 1 }, s, .tau)
          | f => some ({ l with fn := f, pc := 0, rpc := l.pc + 1 }, s, .tau)
        else none
      | .ret =>
        if fn = .top then
          match l.stk, l.regs.a with
          | [], some x => some ({ l with res := some x }, s, .tau)
          | _, _ => none
        else some ({ l with fn := .top, pc := l.rpc }, s, .tau)
      | .unsupported => none

/-! ### the machine of `n` threads -/

/-- global state of the instruction-level machine (no ghost owner: it is a proof device only) -/
structure CG where
  status : Nat
  entered : Nat
  completed : Nat
  th : List Local
deriving DecidableEq, Repr

/-- any thread executes its next instruction -/
inductive CStep (P : Program) (vals : List Nat) : CG → CG → Prop where
  | mk {g : CG} {i : Nat} {l l' : Local} {v s' : Nat} {ev : Ev} :
      g.th[i]? = some l → v ∈ vals → cstep P l g.status v = some (l', s', ev) →
      CStep P vals g ⟨s', g.entered + ev.entered, g.completed + ev.completed, g.th.set i l'⟩

def CG.init (P : Program) (n : Nat) : CG := ⟨P.initStatus, 0, 0, List.replicate n Local.init⟩

inductive CReach (P : Program) (vals : List Nat) (n : Nat) : CG → Prop where
  | init : CReach P vals n (CG.init P n)
  | step {g g'} : CReach P vals n g → CStep P vals g g' → CReach P vals n g'

/-- executable: thread `i` executes one instruction (`v` = self-test return value if needed) -/
def cfire (P : Program) (g : CG) (i v : Nat) : CG :=
  match g.th[i]? with
  | some l => match cstep P l g.status v with
    | some (l', s', ev) => ⟨s', g.entered + ev.entered, g.completed + ev.completed, g.th.set i l'⟩
    | none => g
  | none => g

/-- thread `i` executes `k` instructions -/
def cfireN (P : Program) (g : CG) (i v : Nat) : Nat → CG
  | 0 => g
  | k+1 => cfireN P (cfire P g i v) i v k

/-- run a finite schedule: `(i, k, v)` = thread `i` executes `k` instructions (fewer if it returns
    earlier), a self-test function returning during them returns `v` -/
def crunList (P : Program) (g : CG) : List (Nat × Nat × Nat) → CG
  | [] => g
  | (i, k, v) :: rest => crunList P (cfireN P g i v k) rest

/-- machine state after `t` instructions under schedule `σ` (thread executing at each instant) and
    self-test outcome oracle `o` (outcome `o t % 2`) -/
def crun (P : Program) (n : Nat) (σ o : Nat → Nat) : Nat → CG
  | 0 => CG.init P n
  | t+1 => cfire P (crun P n σ o t) (σ t) (o t % 2)

/-- every thread that has not returned from `isal_self_tests` is scheduled again -/
def CFair (P : Program) (n : Nat) (σ o : Nat → Nat) : Prop :=
  ∀ (i : Nat) (l : Local) (t : Nat), (crun P n σ o t).th[i]? = some l → l.res = none → ∃ t', t ≤ t' ∧ σ t' = i

/-- all threads have returned from `isal_self_tests` -/
def CG.allReturned (g : CG) : Prop := ∀ l ∈ g.th, ∃ v, l.res = some v

/-! ### the simulation checker -/

/-- instructions matched by an abstract step: accesses to the status word, entering / returning from a
    self-test function, returning from `isal_self_tests` -/
def visible (P : Program) (l : Local) : Bool :=
  match l.fn with
  | .aes | .sha => true
  | fn =>
    match (P.code fn)[l.pc]? with
    | some (.load _) | some (.store _) | some (.cmpMemImm _) | some (.lockCmpxchg _) => true
    | some (.call .aes) | some (.call .sha) => true
    | some .ret => fn = .top
    | _ => false

/-- joint step of (machine state, abstract state) for status `s` and self-test outcome `v`;
    `none` = the instruction does not match the protocol -/
def simStep (P : Program) (e : Local × PC) (s v : Nat) : Option (Local × PC) :=
  match cstep P e.1 s v with
  | none => none
  | some (l', s', ev) =>
    if visible P e.1 then
      match tstep e.2 s v with
      | some o => if o.status = s' ∧ o.ev = ev then some (l', o.pc) else none
      | none => none
    else if s' = s ∧ ev = .tau then some (l', e.2) else none

/-- status words / self-test outcomes the check ranges over (all that occur in reachable states when the
    self tests return 0 or 1 — `reach_inv`) -/
def statusDom : List Nat := [0, 1, 2, 3]
def outcomeDom : List Nat := [0, 1]

/-- From `e`, at most `k - 1` thread-local instructions are executed before the thread reaches a
    visible instruction or has returned (no thread-local infinite loop); thread-local steps do not
    depend on the status word or on self-test outcomes. -/
def localBound (P : Program) : Nat → (Local × PC) → Bool
  | 0, _ => false
  | k+1, e =>
    e.1.res.isSome || visible P e.1 ||
      match simStep P e 0 0 with
      | some e' => (statusDom.all fun s => outcomeDom.all fun v => simStep P e s v == some e') && localBound P k e'
      | none => false

/-- bound on the length of thread-local instruction runs used by the check -/
def localFuel : Nat := 64

/-- what has to hold of one pair of the relation `S` -/
def pairOk (P : Program) (S : List (Local × PC)) (e : Local × PC) : Bool :=
  match e.1.res with
  | some v => e.2 == .done v
  | none =>
    notDone e.2 && localBound P localFuel e &&
    statusDom.all fun s => outcomeDom.all fun v =>
      match simStep P e s v with
      | some e' => S.contains e'
      | none => false

/-- `S` is a simulation relation for `P` -/
def closed (P : Program) (S : List (Local × PC)) : Bool :=
  P.initStatus == 2 && S.contains (Local.init, .start) && S.all (pairOk P S)

/-- successors of one pair (deduplicated) -/
def succs (P : Program) (e : Local × PC) : List (Local × PC) :=
  (statusDom.flatMap fun s => outcomeDom.filterMap fun v => simStep P e s v).eraseDups

/-- worklist exploration -/
def exploreLoop (P : Program) : Nat → List (Local × PC) → List (Local × PC) → List (Local × PC)
  | 0, _, seen => seen
  | _, [], seen => seen
  | fuel+1, e :: work, seen =>
    let new := (succs P e).filter fun x => !seen.contains x
    exploreLoop P fuel (work ++ new) (seen ++ new)

/-- the candidate relation: everything reachable from (entry, `start`) -/
def explore (P : Program) (fuel : Nat := 4000) : List (Local × PC) :=
  exploreLoop P fuel [(Local.init, .start)] [(Local.init, .start)]

/-- **the per-run check** -/
def simCheck (P : Program) : Bool := closed P (explore P)

/-- diagnostics for a failing check: the pairs whose step does not match, as (function, pc, abstract state) -/
def simFailures (P : Program) : List (Fn × Nat × PC) :=
  let S := explore P
  (S.filter fun e => !pairOk P S e).map fun e => (e.1.fn, e.1.pc, e.2)

end IsalVerif.SelfTest
