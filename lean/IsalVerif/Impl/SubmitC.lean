import IsalVerif.Impl.HashMB
/-!
  IsalVerif/Impl/SubmitC.lean — the bookkeeping prefix of the C functions `_<alg>_ctx_mgr_submit_<family>` as data.

  `tools/gen_submit.py` translates the clang AST of every SIMD-family submit function (23 files) into a `List P`
  (T-route).  The language covers what the functions do before they touch the partial-block buffer: the three
  argument/state tests with their error stores and early returns, the FIRST reset, and the stores of `error`,
  `incoming_buffer(_length)`, `status` and `total_length`.  The top-up block and the final
  `return <alg>_ctx_mgr_resubmit(mgr, ctx)` are represented by the markers `tailTopUp`, `tailRet` (that part stays
  on the correspondence route).  Expressions are evaluated as C evaluates them (widths from clang's types).
-/
namespace IsalVerif.SubmitC

inductive Fld | status | total | plen | inlen
  deriving DecidableEq, Repr, Inhabited

/-- integer expressions; values are naturals `< 2^64`, truth values 0/1 -/
inductive X
  | flags | len | fld (f : Fld) | lit (k : Nat)
  | add (a b : X) | sub (a b : X) | and (a b : X) | or (a b : X)
  | trunc (w : Nat) (a : X)
  | lnot (a : X) | land (a b : X) | lor (a b : X) | lt (a b : X) | eq (a b : X)
  | ite (c a b : X)
  deriving DecidableEq, Repr, Inhabited

inductive P
  /-- `if (c) { ctx->error = code; return ctx; }` -/
  | rej (c : X) (code : Int)
  /-- `if (c) hash_init_digest(ctx->job.result_digest);` (`c` reads parameters only) -/
  | ginit (c : X)
  /-- `if (c) ctx-><f> = e;` -/
  | gset (c : X) (f : Fld) (e : X)
  /-- `ctx-><f> = e;`  (`+=`, `&=` … are expanded by the translator with C's result type) -/
  | set (f : Fld) (e : X)
  | setErr (code : Int)
  /-- `ctx->incoming_buffer = buffer;` -/
  | setInPtr
  | tailTopUp | tailRet
  /-- base family: `if (flags == X) { <alg>_init / _update / _final (ctx, …); }` (synchronous hashing, outside the prefix) -/
  | tailCalls
  | unsupported (src : String)
  deriving DecidableEq, Repr, Inhabited

/-- the scalar part of a hash context -/
structure St where
  error : Int
  status : Nat
  total : Nat
  plen : Nat
  inlen : Nat
  /-- `incoming_buffer` points at the caller's buffer of this call -/
  inptr : Bool
  /-- the digest was re-initialised by this call -/
  dig : Bool
  deriving DecidableEq, Repr

def b2n (b : Bool) : Nat := if b then 1 else 0

def X.eval (fl ln : Nat) (s : St) : X → Nat
  | .flags => fl % 2^32
  | .len => ln % 2^32
  | .fld .status => s.status % 2^32
  | .fld .total => s.total % 2^64
  | .fld .plen => s.plen % 2^32
  | .fld .inlen => s.inlen % 2^32
  | .lit k => k % 2^64
  | .add a b => (a.eval fl ln s + b.eval fl ln s) % 2^64
  | .sub a b => (a.eval fl ln s + (2^64 - b.eval fl ln s % 2^64)) % 2^64
  | .and a b => a.eval fl ln s &&& b.eval fl ln s
  | .or a b => a.eval fl ln s ||| b.eval fl ln s
  | .trunc w a => a.eval fl ln s % 2^w
  | .lnot a => b2n (a.eval fl ln s = 0)
  | .land a b => b2n (a.eval fl ln s ≠ 0 ∧ b.eval fl ln s ≠ 0)
  | .lor a b => b2n (a.eval fl ln s ≠ 0 ∨ b.eval fl ln s ≠ 0)
  | .lt a b => b2n (a.eval fl ln s < b.eval fl ln s)
  | .eq a b => b2n (a.eval fl ln s = b.eval fl ln s)
  | .ite c a b => if c.eval fl ln s ≠ 0 then a.eval fl ln s else b.eval fl ln s

def width : Fld → Nat
  | .total => 64
  | _ => 32

def St.put (s : St) (f : Fld) (v : Nat) : St :=
  match f with
  | .status => { s with status := v % 2^32 }
  | .total => { s with total := v % 2^64 }
  | .plen => { s with plen := v % 2^32 }
  | .inlen => { s with inlen := v % 2^32 }

/-- outcome of the prefix: the state, whether the function already returned (a rejection), and whether something
    outside the language was met -/
structure Out where
  s : St
  returned : Bool := false
  bad : Bool := false

def step (fl ln : Nat) (o : Out) (p : P) : Out :=
  if o.returned || o.bad then o else
  match p with
  | .rej c code => if c.eval fl ln o.s ≠ 0 then { o with s := { o.s with error := code }, returned := true } else o
  | .ginit c => if c.eval fl ln o.s ≠ 0 then { o with s := { o.s with dig := true } } else o
  | .gset c f e => if c.eval fl ln o.s ≠ 0 then { o with s := o.s.put f (e.eval fl ln o.s) } else o
  | .set f e => { o with s := o.s.put f (e.eval fl ln o.s) }
  | .setErr code => { o with s := { o.s with error := code } }
  | .setInPtr => { o with s := { o.s with inptr := true } }
  | .tailTopUp => o
  | .tailRet => o
  | .tailCalls => o
  | .unsupported _ => { o with bad := true }

def run (prog : List P) (fl ln : Nat) (s : St) : Out := prog.foldl (step fl ln) { s := s }

/-- the prefix as written in the 23 files today -/
def canon : List P :=
  [ .rej (.and .flags (.lit 4294967292)) (-1),
    .rej (.and (.fld .status) (.lit 1)) (-2),
    .rej (.land (.and (.fld .status) (.lit 4)) (.lnot (.and .flags (.lit 1)))) (-3),
    .ginit (.and .flags (.lit 1)),
    .gset (.and .flags (.lit 1)) .total (.lit 0),
    .gset (.and .flags (.lit 1)) .plen (.lit 0),
    .setErr 0,
    .setInPtr,
    .set .inlen .len,
    .set .status (.ite (.and .flags (.lit 2)) (.lit 3) (.lit 1)),
    .set .total (.add (.fld .total) .len),
    .tailTopUp, .tailRet ]

/-- the prefix of `_<alg>_ctx_mgr_submit_base` as written in the 5 base files today -/
def canonBase : List P :=
  [ .rej (.and .flags (.lit 4294967292)) (-1),
    .rej (.land (.and (.fld .status) (.lit 1)) (.eq .flags (.lit 3))) (-2),
    .rej (.land (.and (.fld .status) (.lit 4)) (.lnot (.and .flags (.lit 1)))) (-3),
    .setErr 0,
    .tailCalls, .tailCalls, .tailCalls, .tailCalls, .tailRet ]

structure Src where
  file : String
  fn : String
  prog : List P
  deriving Repr

end IsalVerif.SubmitC
