import IsalVerif.Impl.SelfTestGeneric
import IsalVerif.Impl.SelfTestMachine
/-!
# C17, portable implementation — instruction-level machine for the compiled `self_tests_generic.c`, and
# the simulation checker

The translator `tools/gen_selftest_generic.py` turns the disassembly of `isal_self_tests` in
`objs/self_tests_generic.o` of the `FIPS_MODE=y arch=noarch` build into one program over the mini-ISA
below (`Gen/SelfTestGeneric.lean`).  The ISA is the one of `Impl/SelfTestMachine.lean` plus what gcc emits
for C11 atomics and for this function's frame: `xchg [status],r` (seq_cst store / `atomic_exchange`),
`mov dword [status],imm`, `mfence`, `sub/add rsp,8k`, `cmp r,r`, `call usleep`.  There is a single
translated function; `_aes_self_tests`, `_sha_self_tests` are opaque (enter step + return step delivering
any value of the return set, caller-saved registers clobbered), `usleep` is one thread-local step that
clobbers the caller-saved registers (it terminates: trusted, like termination of the self tests).

* `cstep`: one instruction of one thread; ghost events are the *calls of / returns from* the two self-test
  functions, nothing protocol-specific;
* `CStep` / `CReach`: `n` threads interleaved at instruction granularity;
* `simCheck`: explores the pairs (thread-local machine state, abstract control state) reachable from
  (entry, `PC.fast cfg`) for status words 0..3 and outcomes 0/1 and checks that a *visible* instruction
  (access to the status word, call of / return from a self-test function, `ret`) performs exactly the
  abstract step `tstep` (same new status word, same ghost event), every other instruction changes
  neither the word nor the abstract state, nothing is stuck, returned ⇔ `PC.done v` with the same `v`, and
  thread-local runs are short (`localBound`).  `cfg`, the sequence of early-out loads with the values
  each returns on, is guessed by running the code (`guessCfg`, untrusted: a wrong guess makes the check
  fail) and must consist of verdicts.
Soundness: `Lemmas/SelfTestGenericSim.lean`, `Lemmas/SelfTestGenericLive.lean`.
-/
namespace IsalVerif.SelfTestGeneric
open IsalVerif.SelfTest (Reg Regs)

/-- code a thread can be executing: `isal_self_tests` or (opaque) one of the self-test functions -/
inductive Fn where
  | top | aes | sha
deriving DecidableEq, Repr

/-- the mini-ISA; jump targets are instruction indices -/
inductive Instr where
  /-- `nop`, `endbr64` -/
  | nop
  | pause
  /-- `mfence` (no effect under the sequentially consistent model of the single status word) -/
  | mfence
  | push (r : Reg)
  | pop (r : Reg)
  /-- `sub rsp, 8*k`: `k` undefined stack slots -/
  | subRsp (k : Nat)
  /-- `add rsp, 8*k` -/
  | addRsp (k : Nat)
  /-- `mov r32, imm32` -/
  | movImm (r : Reg) (k : Nat)
  /-- `xor r32, r32` (same register): r := 0, ZF := 1 -/
  | xorSelf (r : Reg)
  | movRR (dst src : Reg)
  /-- `or dst, src`: ZF := result = 0 -/
  | orRR (dst src : Reg)
  /-- `test r1, r2`: ZF := (r1 & r2) = 0 -/
  | testRR (r1 r2 : Reg)
  | testImm (r : Reg) (k : Nat)
  /-- `cmp r32, imm`: ZF := r = k -/
  | cmpImm (r : Reg) (k : Nat)
  /-- `cmp r1, r2`: ZF := r1 = r2 -/
  | cmpRR (r1 r2 : Reg)
  | je (t : Nat)
  | jne (t : Nat)
  | jmp (t : Nat)
  /-- `mov r32, [status]` (atomic_load) -/
  | load (r : Reg)
  /-- `mov [status], r32` -/
  | store (r : Reg)
  /-- `mov dword [status], imm32` -/
  | storeImm (k : Nat)
  /-- `cmp dword [status], imm`: ZF := status = k -/
  | cmpMemImm (k : Nat)
  /-- `lock cmpxchg [status], r32`: if status = eax then status := r, ZF := 1
      else eax := status, ZF := 0 — one atomic step -/
  | lockCmpxchg (r : Reg)
  /-- `xchg [status], r32` (implicitly locked): status and r are swapped — one atomic step; flags unchanged -/
  | xchgMem (r : Reg)
  /-- direct call of `_aes_self_tests` / `_sha_self_tests` -/
  | call (f : Fn)
  /-- `call usleep` -/
  | callSleep
  | ret
  /-- anything the translator does not recognise: executing it is an error -/
  | unsupported
deriving DecidableEq, Repr

/-- the translated function and the initial content of the status word (from `.data`) -/
structure Program where
  code : List Instr
  initStatus : Nat
deriving DecidableEq, Repr

/-- thread-local machine state -/
structure Local where
  fn : Fn := .top
  pc : Nat := 0
  /-- return address (index in `isal_self_tests`) while inside a callee -/
  rpc : Nat := 0
  regs : Regs := {}
  zf : Option Bool := none
  /-- the frame of `isal_self_tests`: pushed values / reserved slots -/
  stk : List (Option Nat) := []
  /-- `some v`: `isal_self_tests` has returned `v` -/
  res : Option Nat := none
deriving DecidableEq, Repr

/-- a thread entering `isal_self_tests`: nothing known about registers or flags -/
def Local.init : Local := {}

/-- remove `k` slots; `none` if the frame is smaller -/
def dropSlots : Nat → List (Option Nat) → Option (List (Option Nat))
  | 0, l => some l
  | _+1, [] => none
  | k+1, _ :: l => dropSlots k l

/-- One instruction of one thread; `s` is the status word before the step, `v` the value a
    self-test function returns if this step is such a return.  Result: new local state, new status
    word, ghost event.  `none` = the thread cannot step (has returned, or error). -/
def cstep (P : Program) (l : Local) (s v : Nat) : Option (Local × Nat × Ev) :=
  if l.res.isSome then none else
  match l.fn with
  | .aes => some ({ l with fn := .top, pc := l.rpc, regs := l.regs.afterCall v, zf := none }, s, .retAes v)
  | .sha => some ({ l with fn := .top, pc := l.rpc, regs := l.regs.afterCall v, zf := none }, s, .retSha v)
  | .top =>
    match P.code[l.pc]? with
    | none => none
    | some ins =>
      let next : Local := { l with pc := l.pc + 1 }
      match ins with
      | .nop | .pause | .mfence => some (next, s, .tau)
      | .push r => some ({ next with stk := l.regs.get r :: l.stk }, s, .tau)
      | .pop r =>
        match l.stk with
        | x :: rest => some ({ next with regs := l.regs.put r x, stk := rest }, s, .tau)
        | [] => none
      | .subRsp k => some ({ next with stk := List.replicate k none ++ l.stk, zf := none }, s, .tau)
      | .addRsp k =>
        match dropSlots k l.stk with
        | some rest => some ({ next with stk := rest, zf := none }, s, .tau)
        | none => none
      | .movImm r k => some ({ next with regs := l.regs.put r (some k) }, s, .tau)
      | .xorSelf r => some ({ next with regs := l.regs.put r (some 0), zf := some true }, s, .tau)
      | .movRR dst src => some ({ next with regs := l.regs.put dst (l.regs.get src) }, s, .tau)
      | .orRR dst src =>
        match l.regs.get dst, l.regs.get src with
        | some x, some y => some ({ next with regs := l.regs.put dst (some (x ||| y)), zf := some (decide ((x ||| y) = 0)) }, s, .tau)
        | _, _ => none
      | .testRR r1 r2 =>
        match l.regs.get r1, l.regs.get r2 with
        | some x, some y => some ({ next with zf := some (decide ((x &&& y) = 0)) }, s, .tau)
        | _, _ => none
      | .testImm r k =>
        match l.regs.get r with
        | some x => some ({ next with zf := some (decide ((x &&& k) = 0)) }, s, .tau)
        | none => none
      | .cmpImm r k =>
        match l.regs.get r with
        | some x => some ({ next with zf := some (decide (x = k)) }, s, .tau)
        | none => none
      | .cmpRR r1 r2 =>
        match l.regs.get r1, l.regs.get r2 with
        | some x, some y => some ({ next with zf := some (decide (x = y)) }, s, .tau)
        | _, _ => none
      | .je t =>
        match l.zf with
        | some z => some ({ l with pc := if z then t else l.pc + 1 }, s, .tau)
        | none => none
      | .jne t =>
        match l.zf with
        | some z => some ({ l with pc := if z then l.pc + 1 else t }, s, .tau)
        | none => none
      | .jmp t => some ({ l with pc := t }, s, .tau)
      | .load r => some ({ next with regs := l.regs.put r (some s) }, s, .tau)
      | .store r =>
        match l.regs.get r with
        | some x => some (next, x, .tau)
        | none => none
      | .storeImm k => some (next, k, .tau)
      | .cmpMemImm k => some ({ next with zf := some (decide (s = k)) }, s, .tau)
      | .lockCmpxchg r =>
        match l.regs.a, l.regs.get r with
        | some x, some y =>
          if s = x then some ({ next with zf := some true }, y, .tau)
          else some ({ next with regs := l.regs.put .a (some s), zf := some false }, s, .tau)
        | _, _ => none
      | .xchgMem r =>
        match l.regs.get r with
        | some x => some ({ next with regs := l.regs.put r (some s) }, x, .tau)
        | none => none
      | .call f =>
        match f with
        | .top => none
        | .aes => some ({ l with fn := .aes, rpc := l.pc + 1 }, s, .enterAes)
        | .sha => some ({ l with fn := .sha, rpc := l.pc + 1 }, s, .enterSha)
      | .callSleep => some ({ next with regs := { b := l.regs.b }, zf := none }, s, .tau)
      | .ret =>
        match l.stk, l.regs.a with
        | [], some x => some ({ l with res := some x }, s, .tau)
        | _, _ => none
      | .unsupported => none

/-! ### the machine of `n` threads -/

/-- global state of the instruction-level machine (no ghost owner: it is a proof device only) -/
structure CG where
  status : Nat
  gh : Ghost
  th : List Local
deriving DecidableEq, Repr

/-- any thread executes its next instruction -/
inductive CStep (P : Program) (vals : List Nat) : CG → CG → Prop where
  | mk {g : CG} {i : Nat} {l l' : Local} {v s' : Nat} {ev : Ev} :
      g.th[i]? = some l → v ∈ vals → cstep P l g.status v = some (l', s', ev) →
      CStep P vals g ⟨s', g.gh.apply ev, g.th.set i l'⟩

def CG.init (P : Program) (n : Nat) : CG := ⟨P.initStatus, {}, List.replicate n Local.init⟩

inductive CReach (P : Program) (vals : List Nat) (n : Nat) : CG → Prop where
  | init : CReach P vals n (CG.init P n)
  | step {g g'} : CReach P vals n g → CStep P vals g g' → CReach P vals n g'

/-- executable: thread `i` executes one instruction (`v` = self-test return value if needed) -/
def cfire (P : Program) (g : CG) (i v : Nat) : CG :=
  match g.th[i]? with
  | some l => match cstep P l g.status v with
    | some (l', s', ev) => ⟨s', g.gh.apply ev, g.th.set i l'⟩
    | none => g
  | none => g

/-- thread `i` executes `k` instructions -/
def cfireN (P : Program) (g : CG) (i v : Nat) : Nat → CG
  | 0 => g
  | k+1 => cfireN P (cfire P g i v) i v k

/-- run a finite schedule: `(i, k, v)` = thread `i` executes `k` instructions (fewer if it returns
    earlier), a self-test function returning during them returns `v` -/
def crunList (P : Program) (g : CG) : List (Nat × Nat × Nat) → CG
  | [] => g
  | (i, k, v) :: rest => crunList P (cfireN P g i v k) rest

/-- machine state after `t` instructions under schedule `σ` (thread executing at each instant) and
    self-test outcome oracle `o` (outcome `o t % 2`) -/
def crun (P : Program) (n : Nat) (σ o : Nat → Nat) : Nat → CG
  | 0 => CG.init P n
  | t+1 => cfire P (crun P n σ o t) (σ t) (o t % 2)

/-- every thread that has not returned from `isal_self_tests` is scheduled again -/
def CFair (P : Program) (n : Nat) (σ o : Nat → Nat) : Prop :=
  ∀ (i : Nat) (l : Local) (t : Nat), (crun P n σ o t).th[i]? = some l → l.res = none → ∃ t', t ≤ t' ∧ σ t' = i

/-- all threads have returned from `isal_self_tests` -/
def CG.allReturned (g : CG) : Prop := ∀ l ∈ g.th, ∃ v, l.res = some v

/-! ### the simulation checker -/

/-- instructions matched by an abstract step: accesses to the status word, entering / returning from a
    self-test function, returning from `isal_self_tests` -/
def visible (P : Program) (l : Local) : Bool :=
  match l.fn with
  | .aes | .sha => true
  | .top =>
    match P.code[l.pc]? with
    | some (.load _) | some (.store _) | some (.storeImm _) | some (.cmpMemImm _)
    | some (.lockCmpxchg _) | some (.xchgMem _) => true
    | some (.call _) => true
    | some .ret => true
    | _ => false

/-- joint step of (machine state, abstract state) for status `s` and self-test outcome `v`;
    `none` = the instruction does not match the protocol -/
def simStep (P : Program) (e : Local × PC) (s v : Nat) : Option (Local × PC) :=
  match cstep P e.1 s v with
  | none => none
  | some (l', s', ev) =>
    if visible P e.1 then
      match tstep e.2 s v with
      | some o => if o.status = s' ∧ o.ev = ev then some (l', o.pc) else none
      | none => none
    else if s' = s ∧ ev = .tau then some (l', e.2) else none

/-- status words / self-test outcomes the check ranges over (all that occur in reachable states when the
    self tests return 0 or 1 — `reach_inv`) -/
def statusDom : List Nat := [0, 1, 2, 3]
def outcomeDom : List Nat := [0, 1]

/-- From `e`, at most `k - 1` thread-local instructions are executed before the thread reaches a
    visible instruction or has returned (no thread-local infinite loop); thread-local steps do not
    depend on the status word or on self-test outcomes. -/
def localBound (P : Program) : Nat → (Local × PC) → Bool
  | 0, _ => false
  | k+1, e =>
    e.1.res.isSome || visible P e.1 ||
      match simStep P e 0 0 with
      | some e' => (statusDom.all fun s => outcomeDom.all fun v => simStep P e s v == some e') && localBound P k e'
      | none => false

/-- bound on the length of thread-local instruction runs used by the check -/
def localFuel : Nat := 64

/-- what has to hold of one pair of the relation `S` -/
def pairOk (P : Program) (S : List (Local × PC)) (e : Local × PC) : Bool :=
  match e.1.res with
  | some v => e.2 == .done v
  | none =>
    notDone e.2 && localBound P localFuel e &&
    statusDom.all fun s => outcomeDom.all fun v =>
      match simStep P e s v with
      | some e' => S.contains e'
      | none => false

/-- `S` is a simulation relation for `P` and the protocol with early-out comparisons `cfg` -/
def closed (cfg : List (List Nat)) (P : Program) (S : List (Local × PC)) : Bool :=
  P.initStatus == 2 && decide (cfgOk cfg) && S.contains (Local.init, .fast cfg) && S.all (pairOk P S)

/-- successors of one pair (deduplicated) -/
def succs (P : Program) (e : Local × PC) : List (Local × PC) :=
  (statusDom.flatMap fun s => outcomeDom.filterMap fun v => simStep P e s v).eraseDups

/-- worklist exploration -/
def exploreLoop (P : Program) : Nat → List (Local × PC) → List (Local × PC) → List (Local × PC)
  | 0, _, seen => seen
  | _, [], seen => seen
  | fuel+1, e :: work, seen =>
    let new := (succs P e).filter fun x => !seen.contains x
    exploreLoop P fuel (work ++ new) (seen ++ new)

/-- the candidate relation: everything reachable from (entry, `fast cfg`) -/
def explore (cfg : List (List Nat)) (P : Program) (fuel : Nat := 4000) : List (Local × PC) :=
  exploreLoop P fuel [(Local.init, .fast cfg)] [(Local.init, .fast cfg)]

/-- run thread-local instructions (they do not look at the status word) until a visible one, an error or
    the fuel is reached -/
def runLocal (P : Program) : Nat → Local → Local
  | 0, l => l
  | k+1, l =>
    if visible P l then l else
    match cstep P l 0 0 with
    | some (l', _, _) => runLocal P k l'
    | none => l

/-- Untrusted guess of the early-out loads, obtained by running the code: from the entry, as long as the
    next visible instruction is a load of the status word, the values for which the thread goes straight to
    its `ret` are that load's early-out set; the walk continues with the value NOT_DONE and stops at the first
    visible instruction that is not a load (the claim). -/
def guessCfgFrom (P : Program) : Nat → Local → List (List Nat)
  | 0, _ => []
  | fuel+1, l =>
    let l := runLocal P localFuel l
    match P.code[l.pc]? with
    | some (.load _) =>
      let after : Nat → Local := fun s =>
        match cstep P l s 0 with
        | some (l', _, _) => runLocal P localFuel l'
        | none => l
      let ks := statusDom.filter fun s => P.code[(after s).pc]? == some .ret
      ks :: guessCfgFrom P fuel (after 2)
    | _ => []

def guessCfg (P : Program) : List (List Nat) := guessCfgFrom P 8 Local.init

/-- **the per-run check** -/
def simCheck (P : Program) : Bool := closed (guessCfg P) P (explore (guessCfg P) P)

/-- diagnostics for a failing check: the pairs whose step does not match, as (function, pc, abstract state) -/
def simFailures (P : Program) : List (Fn × Nat × PC) :=
  let S := explore (guessCfg P) P
  (S.filter fun e => !pairOk P S e).map fun e => (e.1.fn, e.1.pc, e.2)

end IsalVerif.SelfTestGeneric
