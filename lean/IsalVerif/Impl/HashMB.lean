import IsalVerif.Spec.MD
/-!
# HashMB — the context layer and lane scheduler of the multi-buffer hashes

Hand-written model of `*_mb/*_ctx_{sse,avx,avx2,avx512,sse_ni,avx512_ni,sb_sse4}.c` (one template, 26
instances), of the lane schedulers `*_mb_mgr_{submit,flush}_*.asm` at the level of lane
occupancy / remaining blocks, and of `*_ctx_base.c` (a different, synchronous implementation).
Generic in the compression function: `f : D → Bytes → D`.

What is a *parameter* (modelled, not verified): the SIMD kernels, as "advance a lane by n blocks
with `f`".  What is followed statement by statement: argument checks, status/error protocol,
partial-block buffer, segmentation into jobs, `hash_pad`, the resubmit loop, lane allocation from
the `unused_lanes` stack, min-length retire with lowest-lane tie break, the single-buffer flush
path (`*_SB_THRESHOLD_*`).
-/
namespace IsalVerif.HashMB

/-- status bits of `ISAL_HASH_CTX_STS` as three Booleans -/
structure Ctx (D : Type) where
  processing : Bool := false
  last       : Bool := false
  complete   : Bool := false
  error      : Int := 0
  total      : Nat := 0              -- total_length (uint64)
  part       : Bytes := []           -- partial_block_buffer[0 .. partial_block_buffer_length)
  incoming   : Bytes := []           -- incoming_buffer[0 .. incoming_buffer_length)
  dig        : D                     -- job.result_digest
  /-- `some (d, bs)`: the job sits in a lane whose digest column holds `d` and which still has
      the blocks `bs` to hash (`lens[lane] >> 4 = bs.length`, `args.data_ptr[lane]` at `bs`). -/
  lane       : Option (D × List Bytes) := none

abbrev Cid := Nat

/-- per-family scheduler parameters -/
structure Params where
  nl : Nat        -- lanes the scheduler fills before it runs (sse_ni: 2 of its 4; sb_sse4: 1)
  sb : Nat        -- flush: when `num_lanes_inuse ≤ sb` only the minimum lane is run (x1 kernel)

structure M (D : Type) where
  ctxs  : Cid → Ctx D
  slots : List (Option Cid)       -- `ldata[i].job_in_lane`, index = lane number
  free  : List Nat                -- `unused_lanes` nibble/byte stack, top first

variable {D : Type}

def setCtx (m : M D) (c : Cid) (x : Ctx D) : M D :=
  { m with ctxs := fun k => if k = c then x else m.ctxs k }

/-- occupied lanes in lane-number order -/
def occupied (m : M D) : List Cid := m.slots.filterMap id

def mgrInit (P : Params) (ctxs : Cid → Ctx D) : M D :=
  { ctxs := ctxs, slots := List.replicate P.nl none, free := List.range P.nl }

/-- run the kernel for k blocks on one lane -/
def advance (f : D → Bytes → D) (k : Nat) (x : Ctx D) : Ctx D :=
  match x.lane with
  | some (d, bs) => { x with lane := some ((bs.take k).foldl f d, bs.drop k) }
  | none => x

def laneLen (x : Ctx D) : Nat := match x.lane with | some (_, bs) => bs.length | none => 0

def minLen (m : M D) : List Cid → Nat
  | [] => 0
  | [c] => laneLen (m.ctxs c)
  | c :: cs => Nat.min (laneLen (m.ctxs c)) (minLen m cs)

/-- first (lowest-numbered) lane whose remaining length equals `k`: the packed word
    `len <<< shift ||| lane` makes the SIMD minimum pick exactly this one -/
def pickMin (m : M D) (k : Nat) : List Cid → Option Cid
  | [] => none
  | c :: cs => if laneLen (m.ctxs c) = k then some c else pickMin m k cs

def slotOf (m : M D) (c : Cid) : Nat := m.slots.idxOf (some c)

/-- "len_is_0:" epilogue shared by submit and flush: give the lane back, copy the digest column
    into the job -/
def retire (m : M D) (ctxs' : Cid → Ctx D) (c : Cid) : M D :=
  let x := ctxs' c
  let d := match x.lane with | some (d, _) => d | none => x.dig
  let i := slotOf m c
  { ctxs := fun j => if j = c then { x with dig := d, lane := none } else ctxs' j,
    slots := m.slots.set i none,
    free := i :: m.free }

/-- run `min` blocks on all occupied lanes (`all = true`, the multi-buffer kernel) or on the
    minimum lane only (`all = false`, the x1 kernel of the flush path), retire that lane -/
def retireMin (f : D → Bytes → D) (all : Bool) (m : M D) : M D × Option Cid :=
  let occ := occupied m
  let k := minLen m occ
  match pickMin m k occ with
  | none => (m, none)
  | some c =>
    let ctxs' : Cid → Ctx D := fun j =>
      if (all && decide (j ∈ occ)) || decide (j = c) then advance f k (m.ctxs j) else m.ctxs j
    (retire m ctxs' c, some c)

/-- the manager after the job of context `c` has been put into lane `i` (top of the free stack) -/
def placed (m : M D) (c : Cid) (bs : List Bytes) (i : Nat) (fr : List Nat) : M D :=
  { ctxs := fun k => if k = c then { m.ctxs c with lane := some ((m.ctxs c).dig, bs) } else m.ctxs k,
    slots := m.slots.set i (some c), free := fr }

/-- `*_mb_mgr_submit_*`: take the lane on top of the free stack, load digest / pointer / length;
    if that filled the last lane run the kernel for the minimum length and hand back that job -/
def mgrSubmit (f : D → Bytes → D) (m : M D) (c : Cid) (bs : List Bytes) : M D × Option Cid :=
  match m.free with
  | [] => (m, none)              -- unreachable under the invariant (a full manager has retired a lane)
  | i :: fr => if fr = [] then retireMin f true (placed m c bs i fr) else (placed m c bs i fr, none)

/-- `*_mb_mgr_flush_*` -/
def mgrFlush (P : Params) (f : D → Bytes → D) (m : M D) : M D × Option Cid :=
  let occ := occupied m
  if occ = [] then (m, none) else retireMin f (decide (P.sb < occ.length)) m

/-! ### context layer -/

/-- `hash_pad`: the bytes the job will hash from the partial-block buffer.  `i0 = total & (B-1)`;
    the buffer holds the stream tail in `[0, i0)`; `memclr` B bytes from `i0`, 0x80, length field
    at the end of the first or second block, as computed by the `i += ((B-1) & (0-(total+L+1))) + 1 + L`
    wrap-around arithmetic in uint64. -/
def padEnd (B L total : Nat) : Nat :=
  let i0 := total % 2^64 &&& (B - 1)
  let neg := (2^64 - (total + L + 1) % 2^64) % 2^64
  i0 + ((B - 1) &&& neg) + 1 + L

def hashPad (B L : Nat) (lenBE : Bool) (part : Bytes) (total : Nat) : List Bytes :=
  let i0 := total % 2^64 &&& (B - 1)
  let e := padEnd B L total
  let bits := (total * 8) % 2^64
  let lenField := if lenBE then natBE 8 bits else natLE 8 bits
  -- [0,i0) tail, 0x80, zeros, (16-byte field: upper 8 bytes zero), 64-bit length
  let buf := part.take i0 ++ (0x80 : UInt8) :: List.replicate (e - i0 - 1 - 8) 0 ++ lenField
  blocks B (e / B) buf

structure Alg (D : Type) where
  B : Nat
  L : Nat
  lenBE : Bool
  f : D → Bytes → D
  init : D
  fin : D → D := id        -- SM3: byte-swap of the digest words when the job completes

/-- the model's algorithm record built from an executable standard (`Spec/*.lean`) -/
def ofSpec (h : HashAlg) (fin : h.S → h.S) : Alg h.S :=
  { B := h.B, L := h.L, lenBE := h.lenBE, f := h.compress, init := h.init, fin := fin }

/-- `*_ctx_mgr_resubmit`.  The C loop `while (ctx)` has no bound; the model takes fuel and returns
    `none` when it runs out (`resubmit_fuel` shows `fuelFor` always suffices). -/
def resubmit (A : Alg D) : Nat → M D → Option Cid → Option (M D × Option Cid)
  | _, m, none => some (m, none)
  | 0, _, some _ => none
  | fuel+1, m, some c =>
    let x := m.ctxs c
    if x.complete then
      some (setCtx m c { x with processing := false, last := false, dig := A.fin x.dig }, some c)
    else if x.part = [] ∧ x.incoming ≠ [] then
      let n := x.incoming.length / A.B
      let bs := blocks A.B n x.incoming
      let x' := { x with part := x.incoming.drop (n * A.B), incoming := [] }
      if n ≠ 0 then
        let r := mgrSubmit A.f (setCtx m c x') c bs
        resubmit A fuel r.1 r.2
      else if x'.last then
        let r := mgrSubmit A.f (setCtx m c { x' with last := false, complete := true }) c
                   (hashPad A.B A.L A.lenBE x'.part x'.total)
        resubmit A fuel r.1 r.2
      else some (setCtx m c { x' with processing := false }, some c)
    else if x.last then
      let r := mgrSubmit A.f (setCtx m c { x with last := false, complete := true }) c
                 (hashPad A.B A.L A.lenBE x.part x.total)
      resubmit A fuel r.1 r.2
    else some (setCtx m c { x with processing := false }, some c)

/-- fuel that always suffices: every iteration either returns or submits one job phase;
    a context has at most 2 pending phases (body, padding) -/
def fuelFor (m : M D) : Nat := 2 * m.slots.length + 4

def errInvalidFlags : Int := -1
def errAlreadyProcessing : Int := -2
def errAlreadyCompleted : Int := -3

/-- the three argument/state tests at the top of every `*_ctx_mgr_submit_<family>` -/
def rejects (x : Ctx D) (flags : Nat) : Bool :=
  flags / 4 ≠ 0 || x.processing || (x.complete && flags % 2 = 0)

def baseRejects (x : Ctx D) (flags : Nat) : Bool :=
  flags / 4 ≠ 0 || (x.processing && flags = 3) || (x.complete && flags % 2 = 0)

/-- second half of `*_ctx_mgr_submit_<family>`: top up / complete the carried partial block, then
    enter the resubmit loop.  `x2` is the context after the bookkeeping stores
    (`incoming_buffer`, status, `total_length`). -/
def submitTail (A : Alg D) (m : M D) (c : Cid) (x2 : Ctx D) : Option (M D × Option Cid) :=
  let data := x2.incoming
  if x2.part ≠ [] ∨ data.length < A.B then
    let copy := min (A.B - x2.part.length) data.length
    let x3 : Ctx D := if copy ≠ 0 then
        { x2 with part := x2.part ++ data.take copy, incoming := data.drop copy } else x2
    if A.B ≤ x3.part.length then
      let r := mgrSubmit A.f (setCtx m c { x3 with part := [] }) c [x3.part]
      resubmit A (fuelFor m) r.1 r.2
    else resubmit A (fuelFor m) (setCtx m c x3) (some c)
  else resubmit A (fuelFor m) (setCtx m c x2) (some c)

/-- the context after the bookkeeping stores of an accepted submit -/
def accepted (A : Alg D) (x : Ctx D) (data : Bytes) (flags : Nat) : Ctx D :=
  let x1 : Ctx D := if flags % 2 = 1 then { x with dig := A.init, total := 0, part := [] } else x
  { x1 with error := 0, incoming := data, processing := true, last := decide (flags / 2 % 2 = 1),
            complete := false, total := (x1.total + data.length) % 2^64 }

/-- `*_ctx_mgr_submit_<family>` (all families except base). `flags` is the raw int. -/
def ctxSubmit (A : Alg D) (m : M D) (c : Cid) (data : Bytes) (flags : Nat) : Option (M D × Option Cid) :=
  let x := m.ctxs c
  if flags / 4 ≠ 0 then some (setCtx m c { x with error := errInvalidFlags }, some c)
  else if x.processing then some (setCtx m c { x with error := errAlreadyProcessing }, some c)
  else if x.complete ∧ flags % 2 = 0 then some (setCtx m c { x with error := errAlreadyCompleted }, some c)
  else submitTail A m c (accepted A x data flags)

/-- `*_ctx_mgr_flush_<family>` (`while (1)` loop; fuel as for `resubmit`) -/
def ctxFlush (P : Params) (A : Alg D) : Nat → M D → Option (M D × Option Cid)
  | 0, _ => none
  | fuel+1, m =>
    let r := mgrFlush P A.f m
    match r.2 with
    | none => some (r.1, none)
    | some c =>
      match resubmit A (fuelFor m) r.1 (some c) with
      | none => none
      | some r2 =>
        match r2.2 with
        | some c' => some (r2.1, some c')
        | none => ctxFlush P A fuel r2.1

def flushFuel (m : M D) : Nat := 2 * m.slots.length + 3

/-! ### `*_ctx_base.c` — synchronous reference family -/

/-- first part of `sha*_update` of the base file: top up / complete the carried partial block.
    Returns the context and the bytes of `data` not yet consumed. -/
def baseTopUp (A : Alg D) (x : Ctx D) (data : Bytes) : Ctx D × Bytes :=
  if x.part ≠ [] ∨ data.length < A.B then
    let copy := min (A.B - x.part.length) data.length
    let x := if copy ≠ 0 then { x with part := x.part ++ data.take copy } else x
    let rem := if copy ≠ 0 then data.drop copy else data
    if A.B ≤ x.part.length then ({ x with dig := A.f x.dig x.part, part := [] }, rem) else (x, rem)
  else (x, data)

/-- second part: hash the whole blocks of what is left when no partial block is carried -/
def baseBody (A : Alg D) (p : Ctx D × Bytes) : Ctx D × Bytes :=
  if p.1.part = [] then
    let n := p.2.length / A.B
    ({ p.1 with dig := (blocks A.B n p.2).foldl A.f p.1.dig }, p.2.drop (n * A.B))
  else p

/-- third part: keep the remainder as the new partial block -/
def baseStash (p : Ctx D × Bytes) : Ctx D :=
  if p.2 ≠ [] then { p.1 with part := p.2 } else p.1

/-- `sha*_update` of the base file -/
def baseUpdate (A : Alg D) (x : Ctx D) (data : Bytes) : Ctx D :=
  let x := { x with total := (x.total + data.length) % 2^64 }
  let x := baseStash (baseBody A (baseTopUp A x data))
  { x with processing := false, last := false, complete := false }

/-- `sha*_final` of the base file (its own padding code, not `hash_pad`) -/
def baseFinal (A : Alg D) (x : Ctx D) : Ctx D :=
  let i := x.part.length + 1
  let e := if i > A.B - A.L then 2 * A.B else A.B
  let bits := (x.total * 8) % 2^64
  let lenField := if A.lenBE then natBE 8 bits else natLE 8 bits
  let buf := x.part ++ (0x80 : UInt8) :: List.replicate (e - i - 8) 0 ++ lenField
  { x with dig := A.fin ((blocks A.B (e / A.B) buf).foldl A.f x.dig),
           processing := false, last := false, complete := true }

def baseInit (A : Alg D) (x : Ctx D) : Ctx D :=
  { x with dig := A.init, total := 0, part := [], error := 0, processing := true, last := false,
           complete := false }

/-- the context after an accepted submit of the base family -/
def baseAccepted (A : Alg D) (x : Ctx D) (data : Bytes) (flags : Nat) : Ctx D :=
  -- `ctx->error = ISAL_HASH_CTX_ERROR_NONE` once the three tests have passed (fix F16)
  let x : Ctx D := { x with error := 0 }
  match flags with
  | 1 => baseUpdate A (baseInit A x) data
  | 0 => baseUpdate A x data
  | 2 => baseFinal A (baseUpdate A x data)
  | _ => baseFinal A (baseUpdate A (baseInit A x) data)

def baseSubmit (A : Alg D) (m : M D) (c : Cid) (data : Bytes) (flags : Nat) : M D × Option Cid :=
  let x := m.ctxs c
  if flags / 4 ≠ 0 then (setCtx m c { x with error := errInvalidFlags }, some c)
  else if x.processing ∧ flags = 3 then (setCtx m c { x with error := errAlreadyProcessing }, some c)
  else if x.complete ∧ flags % 2 = 0 then (setCtx m c { x with error := errAlreadyCompleted }, some c)
  else (setCtx m c (baseAccepted A x data flags), some c)

end IsalVerif.HashMB
