/-
  IsalVerif/Impl/Wrapper.lean

  The statement language of the `isal_*` API wrappers (and of their deprecated legacy
  counterparts), its big-step semantics `run`, and the environment / outcome types.

  The wrappers of isa-l_crypto are straight-line C: a sequence of `if (...) return CODE;`
  argument guards (SAFE_PARAM), in the FIPS build a same-key `memcmp` (XTS) and the self-test
  gate `if (isal_self_tests()) return ISAL_CRYPTO_ERR_SELF_TEST;`, then one call of an internal
  symbol, for the hash managers a mapping of the context error to a return code, and `return 0`.
  `tools/gen_wrappers.py` translates every body, from the clang AST, into a `List Stmt`
  (`IsalVerif/Gen/Wrappers{Default,Fips}.lean`).  Whatever does not fit one of the forms below
  becomes `Stmt.opaque "<source>"`; every checker (`IsalVerif/Impl/WrapperCheck.lean`) rejects
  `opaque`, so an unexpected edit of a wrapper breaks an obligation instead of being skipped.

  Parameters are referred to by position (`Nat`), internal symbols by an index into the generated
  `symNames` table; only entry-point names and `opaque` sources are strings.
-/

namespace IsalVerif.Wrapper

/-! ## Codes -/

/-- Return codes and enum values (`ISAL_CRYPTO_ERROR` values are 0 and 2000..2024, the hash
    context errors are 0,-1,-2,-3, internal functions return 0 / -1). -/
abbrev Code := Int

def ERR_NONE               : Code := 0
def ERR_NULL_SRC           : Code := 2000
def ERR_NULL_DST           : Code := 2001
def ERR_NULL_CTX           : Code := 2002
def ERR_NULL_MGR           : Code := 2003
def ERR_NULL_KEY           : Code := 2004
def ERR_NULL_EXP_KEY       : Code := 2005
def ERR_NULL_IV            : Code := 2006
def ERR_NULL_AUTH          : Code := 2007
def ERR_NULL_AAD           : Code := 2008
def ERR_CIPH_LEN           : Code := 2009
def ERR_AUTH_TAG_LEN       : Code := 2010
def ERR_INVALID_FLAGS      : Code := 2011
def ERR_ALREADY_PROCESSING : Code := 2012
def ERR_ALREADY_COMPLETED  : Code := 2013
def ERR_XTS_NULL_TWEAK     : Code := 2014
def ERR_XTS_SAME_KEYS      : Code := 2015
def ERR_SELF_TEST          : Code := 2016
def ERR_FIPS_INVALID_ALGO  : Code := 2017
def ERR_WINDOW_SIZE        : Code := 2018
def ERR_NULL_OFFSET        : Code := 2019
def ERR_NULL_MATCH         : Code := 2020
def ERR_NULL_MASK          : Code := 2021
def ERR_NULL_INIT_VAL      : Code := 2022
def ERR_FIPS_DISABLED      : Code := 2023

/-- `ISAL_HASH_CTX_ERROR` (multi_buffer.h). -/
def CTX_ERROR_NONE               : Code := 0
def CTX_ERROR_INVALID_FLAGS      : Code := -1
def CTX_ERROR_ALREADY_PROCESSING : Code := -2
def CTX_ERROR_ALREADY_COMPLETED  : Code := -3

/-! ## Syntax -/

/-- Parameter kinds, from the prototype: pointer to `const` (input), pointer to non-`const`
    (output or in/out), anything else (integers, enums). -/
inductive PKind
  | ptrIn | ptrOut | scalar
  deriving DecidableEq, Repr, Inhabited

structure Param where
  name  : String
  kind  : PKind
  /-- C type as clang prints it (used by the harness generator and in reports only). -/
  ctype : String
  deriving Repr, Inhabited

def PKind.isPtr : PKind → Bool
  | .scalar => false
  | _ => true

/-- Integer expressions over the scalar arguments. -/
inductive SExpr
  | arg  (i : Nat)              -- value of scalar parameter `i`
  | band (e : SExpr) (k : Nat)  -- `e & k`
  | mod  (e : SExpr) (k : Nat)  -- `e % k`
  deriving DecidableEq, Repr, Inhabited

inductive Cmp
  | lt | le | eq | ne | gt | ge
  deriving DecidableEq, Repr, Inhabited

/-- Guard conditions. -/
inductive Cond
  | isNull (p : Nat)                       -- pointer parameter `p` is NULL
  | cmp (op : Cmp) (e : SExpr) (k : Nat)   -- `e op k`
  | and (a b : Cond)
  | or  (a b : Cond)
  | not (a : Cond)
  deriving DecidableEq, Repr, Inhabited

/-- Actual arguments of a call of an internal symbol (casts are dropped by the translator). -/
inductive Arg
  | param (i : Nat)
  | const (k : Int)
  deriving DecidableEq, Repr, Inhabited

inductive Stmt
  /-- `if (c) return code;` -/
  | ifRet (c : Cond) (code : Code)
  /-- `if (isal_self_tests()) return code;` -/
  | selfTestGate (code : Code)
  /-- `if (memcmp(a + offA, b + offB, n) == 0 [&& memcmp(a + o, b + o', n') == 0 …]) return code;`
      (XTS same-key check; `more` = further ranges of the same two objects, all must be equal). -/
  | memcmpGuard (a offA b offB n : Nat) (more : List (Nat × Nat × Nat)) (code : Code)
  /-- `sym(args);` result ignored -/
  | call (sym : Nat) (args : List Arg)
  /-- `*out = sym(args);` -/
  | assignOut (out : Nat) (sym : Nat) (args : List Arg)
  /-- `return sym(args);` -/
  | retCall (sym : Nat) (args : List Arg)
  /-- `if (sym(args) < 0) return code;` where `sym` is a C function of the same file whose body
      starts with the guards `calleeGuards` (`if (c) return k;`, already expressed over the
      wrapper's parameters) and otherwise returns a non-negative value after doing its work. -/
  | ifCallNegRet (sym : Nat) (args : List Arg) (calleeGuards : List (Cond × Code)) (code : Code)
  /-- Hash managers, after `*out = submit(...)`:
      `if ([*out == inp &&] (*out)->error != NONE) { if (error == e₁) return c₁; ... }`.
      `guarded` says whether the `*out == inp` conjunct is present (fix 6fe72f6). -/
  | mapCtxError (out inp : Nat) (guarded : Bool) (map : List (Code × Code))
  /-- `return k;` -/
  | retConst (k : Code)
  /-- `return <global object>;` (the two version functions). -/
  | retGlobal (sym : Nat)
  /-- Anything else.  Rejected by every checker. -/
  | opaque (src : String)
  deriving Repr, Inhabited

/-- `return ISAL_CRYPTO_ERR_FIPS_INVALID_ALGO;` -/
@[match_pattern] def Stmt.retFipsInvalidAlgo : Stmt := .retConst 2017

/-- One translated function. -/
structure Entry where
  name   : String
  file   : String
  /-- `true` when the C function returns `int` (all `isal_*` wrappers), `false` for `void`
      and pointer/unsigned returning functions (legacy API, version functions). -/
  retInt : Bool
  params : List Param
  body   : List Stmt
  deriving Repr, Inhabited

/-! ## Semantics -/

/-- Value of the FIPS self-test status word when the entry point is called. -/
inductive SelfTest
  | notRun | passed | failed
  deriving DecidableEq, Repr, Inhabited

/-- Everything a wrapper's behaviour can depend on. -/
structure Env where
  /-- which pointer arguments are NULL -/
  isNull    : Nat → Bool
  /-- values of the scalar arguments -/
  scalar    : Nat → Nat
  selfTest  : SelfTest := .passed
  /-- verdict of the self tests if they get executed at the gate (status `notRun`) -/
  testsPass : Bool := true
  /-- `memEq a offA b offB n` : the `n` bytes at `arg a + offA` and `arg b + offB` are equal -/
  memEq     : Nat → Nat → Nat → Nat → Nat → Bool := fun _ _ _ _ _ => false
  /-- what the internal callee returns (functions whose result is returned / tested) -/
  calleeRet : Int := 0
  /-- the hash-manager callee returned the submitted context (`*ctx_out == ctx_in`) -/
  ctxSame   : Bool := false
  /-- `error` field of the context the callee returned -/
  ctxError  : Code := 0
  /-- value of a global object (version functions) -/
  global    : Nat → Int := fun _ => 0

/-- every compared range of the two objects is equal -/
def Env.memEqAll (env : Env) (a oa b ob n : Nat) (more : List (Nat × Nat × Nat)) : Bool :=
  env.memEq a oa b ob n && more.all fun m => env.memEq a m.1 b m.2.1 m.2.2


/-- Observable events of one call, in program order. -/
inductive Effect
  /-- an internal symbol was called ("cryptographic work") -/
  | call (sym : Nat) (args : List Arg)
  /-- a store through pointer argument `p` -/
  | write (p : Nat)
  /-- a load through pointer argument `p` -/
  | deref (p : Nat)
  /-- a load through the pointer returned by the callee (not an argument) -/
  | derefRet
  /-- the FIPS self tests were executed by this call (status was `notRun`) -/
  | selfTests
  deriving DecidableEq, Repr, Inhabited

/-- Calls and stores: what C13 calls "work" and C16 "changing an output". -/
def Effect.isWork : Effect → Bool
  | .call .. => true
  | .write _ => true
  | _ => false

structure Outcome where
  ret     : Int
  effects : List Effect
  deriving DecidableEq, Repr, Inhabited

def Outcome.pre (es : List Effect) (o : Outcome) : Outcome := ⟨o.ret, es ++ o.effects⟩

@[simp] theorem Outcome.pre_ret (es : List Effect) (o : Outcome) : (o.pre es).ret = o.ret := rfl
@[simp] theorem Outcome.pre_effects (es : List Effect) (o : Outcome) :
    (o.pre es).effects = es ++ o.effects := rfl
@[simp] theorem Outcome.pre_nil (o : Outcome) : o.pre [] = o := rfl

/-- Calls and stores of an outcome. -/
def Outcome.work (o : Outcome) : List Effect := o.effects.filter Effect.isWork

def SExpr.eval (env : Env) : SExpr → Nat
  | .arg i    => env.scalar i
  | .band e k => e.eval env &&& k
  | .mod e k  => e.eval env % k

def Cmp.eval : Cmp → Nat → Nat → Bool
  | .lt, a, b => decide (a < b)
  | .le, a, b => decide (a ≤ b)
  | .eq, a, b => a == b
  | .ne, a, b => a != b
  | .gt, a, b => decide (b < a)
  | .ge, a, b => decide (b ≤ a)

def Cond.eval (env : Env) : Cond → Bool
  | .isNull p   => env.isNull p
  | .cmp op e k => op.eval (e.eval env) k
  | .and a b    => a.eval env && b.eval env
  | .or a b     => a.eval env || b.eval env
  | .not a      => !a.eval env

/-- First guard of a list that fires. -/
def firstFiring (env : Env) : List (Cond × Code) → Option Code
  | [] => none
  | (c, k) :: gs => if c.eval env then some k else firstFiring env gs

/-- The self-test gate lets the call proceed. -/
def Env.gatePasses (env : Env) : Bool :=
  match env.selfTest with
  | .passed => true
  | .failed => false
  | .notRun => env.testsPass

/-- Look up a context error in the wrapper's mapping. -/
def lookupCode (e : Code) : List (Code × Code) → Option Code
  | [] => none
  | (k, c) :: m => if e == k then some c else lookupCode e m

/-- Big-step semantics.  Falling off the end (only `void` legacy functions do) yields 0. -/
def run : List Stmt → Env → Outcome
  | [], _ => ⟨0, []⟩
  | .ifRet c code :: rest, env =>
      if c.eval env then ⟨code, []⟩ else run rest env
  | .selfTestGate code :: rest, env =>
      match env.selfTest with
      | .passed => run rest env
      | .failed => ⟨code, []⟩
      | .notRun =>
          if env.testsPass then (run rest env).pre [.selfTests] else ⟨code, [.selfTests]⟩
  | .memcmpGuard a oa b ob n more code :: rest, env =>
      if env.memEqAll a oa b ob n more then ⟨code, [.deref a, .deref b]⟩
      else (run rest env).pre [.deref a, .deref b]
  | .call s as :: rest, env => (run rest env).pre [.call s as]
  | .assignOut o s as :: rest, env => (run rest env).pre [.call s as, .write o]
  | .retCall s as :: _, env => ⟨env.calleeRet, [.call s as]⟩
  | .ifCallNegRet s as gs code :: rest, env =>
      match firstFiring env gs with
      | some k => if k < 0 then ⟨code, []⟩ else run rest env
      | none =>
          if env.calleeRet < 0 then ⟨code, [.call s as]⟩ else (run rest env).pre [.call s as]
  | .mapCtxError o i guarded m :: rest, env =>
      if guarded && !env.ctxSame then (run rest env).pre [.deref o]
      else
        let reads := [.deref o, if env.ctxSame then .deref i else .derefRet]
        if env.ctxError != 0 then
          match lookupCode env.ctxError m with
          | some c => ⟨c, reads⟩
          | none => (run rest env).pre reads
        else (run rest env).pre reads
  | .retConst k :: _, _ => ⟨k, []⟩
  | .retGlobal s :: _, env => ⟨env.global s, []⟩
  | .opaque _ :: rest, env => run rest env

def Entry.run (e : Entry) (env : Env) : Outcome := Wrapper.run e.body env

end IsalVerif.Wrapper
