/-!
# C18 static-store allow-list

A store whose destination is static (rip-relative) is allowed only in two situations:

* rule 0 – the dispatch cell `<base>_dispatched`, written inside `<base>_dispatch_init` (one-time binding);
* rule 1 – the FIPS self-test verdict `self_test_status`, written by `asm_set_self_tests_status` or by the
  `lock cmpxchg` of `asm_check_self_tests_status`.

`checkStatics` verifies that every (function, target) pair for which the generated model contains a
`storeStatic` record (the per-object obligations force the pair to be in `allowedPairs`) is justified
by one of the rules, by NAME.
-/
namespace IsalVerif.Statics

def statusWord : String := "self_test_status"
def statusWriters : List String := ["asm_set_self_tests_status", "asm_check_self_tests_status"]

/-- is the pair (function name, target symbol) justified by `rule` with witness `base`? -/
def justified (fn tn : String) (rule : Nat) (base : String) : Bool :=
  match rule with
  | 0 => fn == base ++ "_dispatch_init" && tn == base ++ "_dispatched"
  | 1 => tn == statusWord && statusWriters.contains fn
  | _ => false

def checkStatics (funcNames staticNames : List String) (allowedPairs : List (Nat × Nat))
    (justification : List (Nat × Nat × Nat × String)) : Bool :=
  allowedPairs.all (fun p =>
    justification.any (fun row =>
      row.1 == p.1 && row.2.1 == p.2 &&
      justified (funcNames.getD p.1 "") (staticNames.getD p.2 "") row.2.2.1 row.2.2.2))

/-- consistency of the table of writable symbols: a symbol flagged "written" is one of the justified
store targets (so: a dispatch cell or the status word) -/
def writtenOK (writable : List (String × String × String × Nat × Bool)) (staticNames : List String) : Bool :=
  writable.all (fun w => !w.2.2.2.2 || staticNames.contains w.2.2.1)

end IsalVerif.Statics
