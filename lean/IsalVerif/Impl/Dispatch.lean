/-!
# Dispatch — mini-x86 for the run-time resolvers `<entry>_dispatch_init`

The 64 resolvers of `include/multibinary.asm` / `*_multibinary.asm` use 14 instruction forms
(`push/pop`, `mov r,imm`, `mov r,r`, `lea r,[sym]`, `cpuid`, `xgetbv`, `and/test/cmp r,imm`,
`xor r,r`, `je/jne/jmp`, `cmove/cmovne`, `mov [cell],r`, `ret`).  `tools/gen_dispatch.py` translates
their disassembly into `Gen/Dispatch.lean` on every run.  `step`/`run` is the concrete semantics
on a CPU configuration `Cfg` (CPUID leaf 1 EAX/ECX, leaf 7 EBX/ECX, XCR0 low word); `sstep`/`paths`
is an *exact* symbolic execution (values `field & mask | const | symbol | junk`, flag
`known b | (field & mask) = const`).  Anything outside these shapes makes `paths` return `none`.
-/
namespace IsalVerif.Dispatch

abbrev W := BitVec 32
inductive Field | l1eax | l1ecx | l7ebx | l7ecx | xcr0 deriving DecidableEq, Repr
structure Cfg where
  l1eax : W
  l1ecx : W
  l7ebx : W
  l7ecx : W
  xcr0  : W
def Cfg.get (c : Cfg) : Field → W
  | .l1eax => c.l1eax | .l1ecx => c.l1ecx | .l7ebx => c.l7ebx | .l7ecx => c.l7ecx | .xcr0 => c.xcr0

inductive Reg | a | b | c | d | di | si deriving DecidableEq, Repr
inductive Val | bits (w : W) | sym (s : Nat) | junk deriving DecidableEq, Repr

inductive Instr where
  | movImm (r : Reg) (k : W) | movRR (d s : Reg) | lea (r : Reg) (s : Nat)
  | cpuid | xgetbv | xorSelf (r : Reg)
  | andImm (r : Reg) (k : W) | testImm (r : Reg) (k : W) | cmpImm (r : Reg) (k : W)
  | jz (ifZero : Bool) (t : Nat)        -- je (true) / jne (false)
  | jmp (t : Nat)
  | cmov (ifZero : Bool) (d s : Reg)    -- cmove / cmovne
  | push (r : Reg) | pop (r : Reg)
  | store (r : Reg)                     -- mov [cell], r : the result
  | ret
  | unsupported                         -- anything the translator could not map: every check fails on it
deriving DecidableEq, Repr

structure St where
  pc : Nat
  regs : Reg → Val
  zf : Bool
  stack : List Val
  cell : Option Val
  /-- an instruction that is undefined in this configuration was executed (XGETBV with CR4.OSXSAVE clear: #UD) -/
  ud : Bool := false

def setR (f : Reg → α) (r : Reg) (v : α) : Reg → α := fun x => if x = r then v else f x

def cpuidOut (cfg : Cfg) (leaf : Val) : Val × Val × Val × Val :=
  match leaf with
  | .bits w => if w = 1 then (.bits cfg.l1eax, .junk, .bits cfg.l1ecx, .junk)
               else if w = 7 then (.junk, .bits cfg.l7ebx, .bits cfg.l7ecx, .junk)
               else (.junk, .junk, .junk, .junk)
  | _ => (.junk, .junk, .junk, .junk)

def bitsOf : Val → Option W | .bits w => some w | _ => none

/-- one concrete step; `none` = halted (ret / off the end) -/
def step (cfg : Cfg) (p : List Instr) (s : St) : Option St :=
  match p[s.pc]? with
  | none => none
  | some i =>
    let nx := s.pc + 1
    match i with
    | .movImm r k => some { s with pc := nx, regs := setR s.regs r (.bits k) }
    | .movRR d r => some { s with pc := nx, regs := setR s.regs d (s.regs r) }
    | .lea r sy => some { s with pc := nx, regs := setR s.regs r (.sym sy) }
    | .cpuid =>
      let (a, b, c, d) := cpuidOut cfg (s.regs .a)
      some { s with pc := nx, regs := setR (setR (setR (setR s.regs .a a) .b b) .c c) .d d }
    | .xgetbv => some { s with pc := nx, regs := setR (setR s.regs .a (.bits cfg.xcr0)) .d .junk,
                               ud := s.ud || !(cfg.l1ecx.getLsbD 27) }   -- #UD unless CPUID.1:ECX.OSXSAVE
    | .xorSelf r => some { s with pc := nx, regs := setR s.regs r (.bits 0), zf := true }
    | .andImm r k =>
      match bitsOf (s.regs r) with
      | some w => some { s with pc := nx, regs := setR s.regs r (.bits (w &&& k)), zf := (w &&& k) = 0 }
      | none => some { s with pc := nx, regs := setR s.regs r .junk, zf := false }
    | .testImm r k =>
      match bitsOf (s.regs r) with
      | some w => some { s with pc := nx, zf := (w &&& k) = 0 }
      | none => some { s with pc := nx, zf := false }
    | .cmpImm r k =>
      match bitsOf (s.regs r) with
      | some w => some { s with pc := nx, zf := w = k }
      | none => some { s with pc := nx, zf := false }
    | .jz z t => some { s with pc := if s.zf = z then t else nx }
    | .jmp t => some { s with pc := t }
    | .cmov z d r => some { s with pc := nx, regs := if s.zf = z then setR s.regs d (s.regs r) else s.regs }
    | .push r => some { s with pc := nx, stack := s.regs r :: s.stack }
    | .pop r => match s.stack with
      | v :: rest => some { s with pc := nx, regs := setR s.regs r v, stack := rest }
      | [] => some { s with pc := nx, regs := setR s.regs r .junk }
    | .store r => some { s with pc := nx, cell := some (s.regs r) }
    | .ret => none
    | .unsupported => none

def run (cfg : Cfg) (p : List Instr) : Nat → St → St
  | 0, s => s
  | n+1, s => match step cfg p s with | some s' => run cfg p n s' | none => s

/-! symbolic machine -/
inductive SVal | fld (f : Field) (m : W) | const (w : W) | sym (s : Nat) | junk deriving DecidableEq, Repr
inductive SFlag | known (b : Bool) | atom (f : Field) (m c : W) deriving DecidableEq, Repr

def SVal.ev (cfg : Cfg) : SVal → Val
  | .fld f m => .bits (cfg.get f &&& m) | .const w => .bits w | .sym s => .sym s | .junk => .junk
def SFlag.ev (cfg : Cfg) : SFlag → Bool
  | .known b => b | .atom f m c => (cfg.get f &&& m) = c

structure SSt where
  pc : Nat
  regs : Reg → SVal
  zf : SFlag
  stack : List SVal
  cell : Option SVal
  /-- XGETBV was executed on this path -/
  xg : Bool := false

def SSt.ev (cfg : Cfg) (σ : SSt) : St :=
  { pc := σ.pc, regs := fun r => (σ.regs r).ev cfg, zf := σ.zf.ev cfg, stack := σ.stack.map (SVal.ev cfg),
    cell := σ.cell.map (SVal.ev cfg), ud := σ.xg && !(cfg.l1ecx.getLsbD 27) }

/-- a symbolic step returns the list of (assumed flag value, successor); `none` = unsupported, `some []` = halt -/
def sstep (p : List Instr) (σ : SSt) : Option (List (Option (SFlag × Bool) × SSt)) :=
  match p[σ.pc]? with
  | none => some []
  | some i =>
    let nx := σ.pc + 1
    match i with
    | .movImm r k => some [(none, { σ with pc := nx, regs := setR σ.regs r (.const k) })]
    | .movRR d r => some [(none, { σ with pc := nx, regs := setR σ.regs d (σ.regs r) })]
    | .lea r sy => some [(none, { σ with pc := nx, regs := setR σ.regs r (.sym sy) })]
    | .cpuid =>
      match σ.regs .a with
      | .const w =>
        if w = 1 then some [(none, { σ with pc := nx, regs := setR (setR (setR (setR σ.regs .a (.fld .l1eax (BitVec.allOnes 32))) .b .junk) .c (.fld .l1ecx (BitVec.allOnes 32))) .d .junk })]
        else if w = 7 then some [(none, { σ with pc := nx, regs := setR (setR (setR (setR σ.regs .a .junk) .b (.fld .l7ebx (BitVec.allOnes 32))) .c (.fld .l7ecx (BitVec.allOnes 32))) .d .junk })]
        else none
      | _ => none
    | .xgetbv => some [(none, { σ with pc := nx, regs := setR (setR σ.regs .a (.fld .xcr0 (BitVec.allOnes 32))) .d .junk, xg := true })]
    | .xorSelf r => some [(none, { σ with pc := nx, regs := setR σ.regs r (.const 0), zf := .known true })]
    | .andImm r k =>
      match σ.regs r with
      | .fld f m => some [(none, { σ with pc := nx, regs := setR σ.regs r (.fld f (m &&& k)), zf := .atom f (m &&& k) 0 })]
      | _ => none
    | .testImm r k =>
      match σ.regs r with
      | .fld f m => some [(none, { σ with pc := nx, zf := .atom f (m &&& k) 0 })]
      | _ => none
    | .cmpImm r k =>
      match σ.regs r with
      | .fld f m => some [(none, { σ with pc := nx, zf := .atom f m k })]
      | _ => none
    | .jz z t =>
      match σ.zf with
      | .known b => some [(none, { σ with pc := if b = z then t else nx })]
      | fl => some [(some (fl, z), { σ with pc := t }), (some (fl, !z), { σ with pc := nx })]
    | .jmp t => some [(none, { σ with pc := t })]
    | .cmov z d r =>
      match σ.zf with
      | .known b => some [(none, { σ with pc := nx, regs := if b = z then setR σ.regs d (σ.regs r) else σ.regs })]
      | fl => some [(some (fl, z), { σ with pc := nx, regs := setR σ.regs d (σ.regs r) }),
                    (some (fl, !z), { σ with pc := nx })]
    | .push r => some [(none, { σ with pc := nx, stack := σ.regs r :: σ.stack })]
    | .pop r => match σ.stack with
      | v :: rest => some [(none, { σ with pc := nx, regs := setR σ.regs r v, stack := rest })]
      | [] => none
    | .store r => some [(none, { σ with pc := nx, cell := some (σ.regs r) })]
    | .ret => some []
    | .unsupported => none

def condHolds (cfg : Cfg) : Option (SFlag × Bool) → Bool
  | none => true
  | some (fl, b) => fl.ev cfg = b


abbrev Cond := SFlag × Bool
def addC (c : Option Cond) (acc : List Cond) : List Cond := match c with | none => acc | some x => x :: acc

/-- enumerate all control paths (at most binary branching) -/
def paths (p : List Instr) : Nat → SSt → List Cond → Option (List (List Cond × SSt))
  | 0, σ, acc => some [(acc, σ)]
  | n+1, σ, acc =>
    match sstep p σ with
    | none => none
    | some [] => some [(acc, σ)]
    | some [(c, σ1)] => paths p n σ1 (addC c acc)
    | some [(c1, σ1), (c2, σ2)] =>
      match paths p n σ1 (addC c1 acc), paths p n σ2 (addC c2 acc) with
      | some l1, some l2 => some (l1 ++ l2)
      | _, _ => none
    | some _ => none

def holdsAll (cfg : Cfg) (l : List Cond) : Prop := ∀ x ∈ l, x.1.ev cfg = x.2

/-- the machine state at the resolver's entry: nothing known -/
def s0 : SSt := ⟨0, fun _ => .junk, .known false, [], none, false⟩
def c0 : St := ⟨0, fun _ => .junk, false, [], none, false⟩

/-- the symbol the resolver stores into the dispatch cell under `cfg` (fuel = 4 × program length) -/
def select (p : List Instr) (cfg : Cfg) : Option Val := (run cfg p (4 * p.length) c0).cell

end IsalVerif.Dispatch
