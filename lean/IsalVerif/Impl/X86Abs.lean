/-!
# Engine X86Abs — abstract instruction language, concrete semantics, certificate checker (C19, C18)

The *model* of a function is a list of abstract instruction records generated from the disassembly
of the library (`tools/gen_x86abs.py`).  This file defines

* `Instr`      – the abstract instruction language,
* `Step/Steps` – the nondeterministic concrete small-step semantics the soundness theorem speaks about,
* `checkFn`    – the kernel-friendly Boolean certificate checker (`Lemmas/X86AbsSound.lean` proves it sound),
* the packed-literal decoders used by the generated modules `IsalVerif/Gen/X86/*.lean`.

## Modelling choices (trusted; see README)

* Register values and addresses are unbounded integers (`Int`): stack-pointer arithmetic does not wrap.
* `plain w sb` stands for a maximal run of instructions without tracked effect: every register in the
  16-bit mask `w` (`bit w r`) may receive ANY value, all other registers are unchanged.  `sb` is the set of registers
  used as base of the memory writes folded into the run.
* **A-frame.**  Stack memory is a *partial* map `mem : Int → Option Int` of qwords that were written by
  tracked stores (`push`, `mov [S+k], r64` with `S` stack-derived and `k` constant).  Instructions that
  write memory through any other address (`plain` with `sb ≠ 0`, `storeIdx`, `storeStatic`) and callees
  (above the stack pointer at the call) are ASSUMED not to modify those qwords.  The checker makes the
  assumption credible by verifying that no register in `sb` holds a stack-derived value.
* `call g` is replaced by the callee's clobber summary `tab g` (checked when the callee is checked;
  assumed for libc): registers outside `tab g` and `rsp` are unchanged, memory below `rsp` is forgotten.
* `andRsp f m` (`and rsp, ~m`) lowers `rsp` by some amount in `[0, m]`.
-/

namespace IsalVerif.X86Abs

/-- abstract instruction records (registers are numbers 0..15 in hardware order: rax rcx rdx rbx rsp rbp rsi rdi r8..r15) -/
inductive Instr where
  | plain (w sb : Nat)
  | label (id : Nat)
  | jmp (t : Nat)
  | jcc (t : Nat)
  | call (g : Nat)
  | tail (g : Nat)              -- tail jump to another function
  | tailInd                     -- dispatch stub `jmp [rip+cell]`
  | ret
  | trap                        -- call to a no-return function / ud2: no successor
  | push (r : Nat)
  | pushAny                     -- push imm / push [mem]
  | pop (r : Nat)
  | addRsp (k : Int)
  | andRsp (f m : Nat)          -- and rsp, ~m : establishes frame `f`
  | movRR (d s : Nat)
  | lea (d b : Nat) (k : Int)
  | load (d b : Nat) (k : Int)
  | store (b : Nat) (k : Int) (s : Nat)      -- mov qword [b+k], s
  | storeK (b : Nat) (k : Int) (sz : Nat)    -- any other write of sz bytes at [b+k]
  | storeIdx (b : Nat)                       -- write at [b + index*scale + k] / string store, b stack-derived
  | storeStatic (t : Nat)                    -- write to a rip-relative (static) location, target id t
  | leave
  | forbidden                                -- may change DF / MXCSR / x87 control word
  | unsupported                              -- not in the translator's table
  deriving Repr, Inhabited

/-- bit `k` of mask `m` (written with the kernel-accelerated `Nat` primitives) -/
def bit (m k : Nat) : Bool := Nat.beq (Nat.land (Nat.shiftRight m k) 1) 1

/-! ## Concrete semantics -/

structure St where
  pc   : Nat
  regs : Nat → Int
  mem  : Int → Option Int      -- tracked stack qwords, by byte address

def upd (f : Nat → Int) (r : Nat) (v : Int) : Nat → Int := fun x => if x = r then v else f x

/-- forget every qword overlapping the byte range `[lo, hi)` -/
def memKill (m : Int → Option Int) (lo hi : Int) : Int → Option Int :=
  fun a => if lo < a + 8 ∧ a < hi then none else m a

/-- qword store: the slot itself becomes known, overlapping slots are forgotten -/
def memStore (m : Int → Option Int) (addr : Int) (v : Option Int) : Int → Option Int :=
  fun a => if a = addr then v else memKill m addr (addr + 8) a

/-- index of the first `label t` record -/
def labelIdx : List Instr → Nat → Option Nat
  | [], _ => none
  | .label id :: is, t => if id = t then some 0 else (labelIdx is t).map (· + 1)
  | _ :: is, t => (labelIdx is t).map (· + 1)

abbrev RSP : Nat := 4
abbrev RBP : Nat := 5

/-- one step of the concrete machine. `tab g` = clobber summary of function `g`. -/
inductive Step (tab : Nat → Nat) (p : List Instr) : St → St → Prop where
  | plain {s w sb} (regs' : Nat → Int) : p[s.pc]? = some (.plain w sb) →
      (∀ r, bit w r = false → regs' r = s.regs r) → Step tab p s ⟨s.pc + 1, regs', s.mem⟩
  | label {s id} : p[s.pc]? = some (.label id) → Step tab p s ⟨s.pc + 1, s.regs, s.mem⟩
  | jmp {s t j} : p[s.pc]? = some (.jmp t) → labelIdx p t = some j → Step tab p s ⟨j, s.regs, s.mem⟩
  | jccT {s t j} : p[s.pc]? = some (.jcc t) → labelIdx p t = some j → Step tab p s ⟨j, s.regs, s.mem⟩
  | jccF {s t} : p[s.pc]? = some (.jcc t) → Step tab p s ⟨s.pc + 1, s.regs, s.mem⟩
  | call {s g} (regs' : Nat → Int) : p[s.pc]? = some (.call g) →
      (∀ r, bit (tab g) r = false → regs' r = s.regs r) → regs' RSP = s.regs RSP →
      Step tab p s ⟨s.pc + 1, regs', fun a => if a < s.regs RSP then none else s.mem a⟩
  | push {s r} : p[s.pc]? = some (.push r) →
      Step tab p s ⟨s.pc + 1, upd s.regs RSP (s.regs RSP - 8), memStore s.mem (s.regs RSP - 8) (some (s.regs r))⟩
  | pushAny {s} (v : Option Int) : p[s.pc]? = some .pushAny →
      Step tab p s ⟨s.pc + 1, upd s.regs RSP (s.regs RSP - 8), memStore s.mem (s.regs RSP - 8) v⟩
  | pop {s r} (x : Int) : p[s.pc]? = some (.pop r) → (∀ y, s.mem (s.regs RSP) = some y → x = y) →
      Step tab p s ⟨s.pc + 1, upd (upd s.regs r x) RSP (s.regs RSP + 8), s.mem⟩
  | addRsp {s k} : p[s.pc]? = some (.addRsp k) →
      Step tab p s ⟨s.pc + 1, upd s.regs RSP (s.regs RSP + k), s.mem⟩
  | andRsp {s f m} (d : Int) : p[s.pc]? = some (.andRsp f m) → 0 ≤ d → d ≤ Int.ofNat m →
      Step tab p s ⟨s.pc + 1, upd s.regs RSP (s.regs RSP - d), s.mem⟩
  | movRR {s d r} : p[s.pc]? = some (.movRR d r) →
      Step tab p s ⟨s.pc + 1, upd s.regs d (s.regs r), s.mem⟩
  | lea {s d b k} : p[s.pc]? = some (.lea d b k) →
      Step tab p s ⟨s.pc + 1, upd s.regs d (s.regs b + k), s.mem⟩
  | load {s d b k} (x : Int) : p[s.pc]? = some (.load d b k) → (∀ y, s.mem (s.regs b + k) = some y → x = y) →
      Step tab p s ⟨s.pc + 1, upd s.regs d x, s.mem⟩
  | store {s b k r} : p[s.pc]? = some (.store b k r) →
      Step tab p s ⟨s.pc + 1, s.regs, memStore s.mem (s.regs b + k) (some (s.regs r))⟩
  | storeK {s b k sz} : p[s.pc]? = some (.storeK b k sz) →
      Step tab p s ⟨s.pc + 1, s.regs, memKill s.mem (s.regs b + k) (s.regs b + k + sz)⟩
  | storeIdx {s b} : p[s.pc]? = some (.storeIdx b) → Step tab p s ⟨s.pc + 1, s.regs, s.mem⟩
  | storeStatic {s t} : p[s.pc]? = some (.storeStatic t) → Step tab p s ⟨s.pc + 1, s.regs, s.mem⟩
  | leave {s} (x : Int) : p[s.pc]? = some .leave → (∀ y, s.mem (s.regs RBP) = some y → x = y) →
      Step tab p s ⟨s.pc + 1, upd (upd s.regs RSP (s.regs RBP + 8)) RBP x, s.mem⟩

/-- executions from a fixed start state -/
inductive Steps (tab : Nat → Nat) (p : List Instr) (s0 : St) : St → Prop where
  | refl : Steps tab p s0 s0
  | tail {b c} : Steps tab p s0 b → Step tab p b c → Steps tab p s0 c

/-! ## Abstract domain (Nat-coded, kernel friendly)

value code `0` = ⊤ (unknown); `1 + base·2^32 + (off + 2^31)` = `base + off` where base `r < 16` is the
entry value of register `r` and base `16+i` is frame `i` (the value of rsp after the i-th `and rsp`).
A state is an association list key ↦ value code; keys `0..15` are registers, key `15 + code(base,off)`
is the stack qword at `base+off`.  Absent key = ⊤. -/

abbrev W32 : Nat := 4294967296
abbrev B31 : Nat := 2147483648

def mkV? (b : Nat) (k : Int) : Option Nat :=
  match k + 2147483648 with
  | .ofNat u => bif Nat.blt u W32 then some (1 + b * W32 + u) else none
  | .negSucc _ => none

def baseOf (v : Nat) : Nat := (v - 1) / W32
def offOf (v : Nat) : Int := Int.ofNat ((v - 1) % W32) - 2147483648
/-- entry value of register r -/
def initV (r : Nat) : Nat := 1 + r * W32 + B31

def isStk (v : Nat) : Bool := !Nat.beq v 0 && (Nat.beq (baseOf v) 4 || Nat.ble 16 (baseOf v))

abbrev A := List (Nat × Nat)

def get : A → Nat → Nat
  | [], _ => 0
  | (k, v) :: xs, key => bif Nat.beq k key then v else get xs key

def filterKeys (p : Nat → Bool) (a : A) : A := a.filter (fun e => p e.1)
def put (a : A) (k v : Nat) : A := (k, v) :: filterKeys (fun x => !Nat.beq x k) a
def mapVals (f : Nat → Nat) (a : A) : A := a.map (fun e => (e.1, f e.2))

def slotKey? (b : Nat) (k : Int) : Option Nat := (mkV? b k).map (· + 15)
def keyBase (key : Nat) : Nat := baseOf (key - 15)
def keyOff (key : Nat) : Int := offOf (key - 15)

/-- bounds of base `b` relative to the entry stack pointer: `entry_rsp + lo ≤ value(b) ≤ entry_rsp + hi` -/
def bnd (fr : List (Int × Nat)) (b : Nat) : Option (Int × Int) :=
  bif Nat.beq b 4 then some (0, 0)
  else bif Nat.ble 16 b then (fr[b - 16]?).map (fun km => (km.1 - Int.ofNat km.2, km.1))
  else none

/-- `post ⊑ cert` : every claim of the certificate holds in `post` -/
def le (post cert : A) : Bool := cert.all (fun e => Nat.beq e.2 0 || Nat.beq (get post e.1) e.2)

def initA : A := (List.range 16).map (fun r => (r, initV r))

/-- at a function exit: rsp and every register outside the clobber mask hold their entry values -/
def exitOK (a : A) (mask : Nat) : Bool :=
  Nat.beq (get a 4) (initV 4) && (List.range 16).all (fun r => Nat.beq r 4 || bit mask r || Nat.beq (get a r) (initV r))

def subMask (m1 m2 : Nat) : Bool := (List.range 16).all (fun r => !bit m1 r || bit m2 r)

/-- the A-frame side condition: no register used as base of a folded store is stack-derived -/
def sbOK (a : A) (sb : Nat) : Bool := Nat.beq sb 0 || a.all (fun e => Nat.ble 16 e.1 || !bit sb e.1 || !isStk e.2)

/-- keep a slot only if it is provably disjoint from the write `[b+o, b+o+sz)`; `(l,h)` = bounds of `b` -/
def disjointFrom (fr : List (Int × Nat)) (b : Nat) (o : Int) (sz : Int) (l h : Int) (key : Nat) : Bool :=
  Nat.ble key 15 ||
  (bif Nat.beq (keyBase key) b then decide (keyOff key + 8 ≤ o) || decide (o + sz ≤ keyOff key)
   else match bnd fr (keyBase key) with
     | none => false
     | some (l', h') => decide (h' + keyOff key + 8 ≤ l + o) || decide (h + o + sz ≤ l' + keyOff key))

/-- keep a slot across a call only if it is provably at or above the stack pointer `b+o` -/
def aboveSp (fr : List (Int × Nat)) (b : Nat) (o : Int) (h : Int) (key : Nat) : Bool :=
  bif Nat.beq (keyBase key) b then decide (o ≤ keyOff key)
  else match bnd fr (keyBase key) with
    | none => false
    | some (l', _) => decide (h + o ≤ l' + keyOff key)

/-- what the checker needs to know about the function and its environment -/
structure Ctx where
  cert   : Nat → Option A          -- certificate: abstract state at every label
  tab    : Nat → Nat               -- clobber summaries of all functions
  mask   : Nat                     -- summary this function is checked against
  frames : List (Int × Nat)        -- frame i: `rsp = entry_rsp + k` before `and rsp, ~m`
  allow  : Nat → Bool              -- static store targets this function may write (C18)

/-- decoded stack pointer: (base, offset, lo, hi) -/
def spOf (ctx : Ctx) (a : A) : Option (Nat × Int × Int × Int) :=
  let v := get a 4
  bif isStk v then
    match bnd ctx.frames (baseOf v) with
    | some (l, h) => some (baseOf v, offOf v, l, h)
    | none => none
  else none

def slotVal (a : A) (b : Nat) (o : Int) : Nat :=
  match slotKey? b o with
  | some key => get a key
  | none => 0

/-- a tracked write of `sz` bytes at `v + k` (`v` a stack-derived value code); `src` = value code stored if it is a qword GPR store -/
def doStore (ctx : Ctx) (a : A) (v : Nat) (k : Int) (sz : Int) (src : Option Nat) : Option A :=
  match bnd ctx.frames (baseOf v) with
  | none => none
  | some (l, h) =>
    let o := offOf v + k
    bif decide (h + o + sz ≤ 0) then
      let a1 := filterKeys (disjointFrom ctx.frames (baseOf v) o sz l h) a
      match src with
      | none => some a1
      | some x =>
        match slotKey? (baseOf v) o with
        | none => none
        | some key => some (put a1 key x)
    else none

/-- abstract transfer of one non-label record. `none` = reject; `some none` = accepted, no fall-through;
`some (some a')` = accepted, state after the record. -/
def step1 (ctx : Ctx) (i : Instr) (a : A) : Option (Option A) :=
  match i with
  | .plain w sb =>
    bif bit w 4 || !sbOK a sb then none
    else some (some (filterKeys (fun k => Nat.ble 16 k || !bit w k) a))
  | .label _ => none
  | .jmp t =>
    match ctx.cert t with
    | some c => bif le a c then some none else none
    | none => none
  | .jcc t =>
    match ctx.cert t with
    | some c => bif le a c then some (some a) else none
    | none => none
  | .call g =>
    let m := ctx.tab g
    bif bit m 4 then none else
    match spOf ctx a with
    | none => none
    | some (b, o, _, h) =>
      bif decide (h + o ≤ 0) then
        some (some (filterKeys (fun k => bif Nat.ble k 15 then !bit m k else aboveSp ctx.frames b o h k) a))
      else none
  | .tail g => bif exitOK a ctx.mask && subMask (ctx.tab g) ctx.mask then some none else none
  | .tailInd => bif exitOK a ctx.mask then some none else none
  | .ret => bif exitOK a ctx.mask then some none else none
  | .trap => some none
  | .push r =>
    bif !Nat.ble r 15 then none else
    match spOf ctx a with
    | none => none
    | some (b, o, _, _) =>
      match mkV? b (o - 8), doStore ctx a (get a 4) (-8) 8 (some (get a r)) with
      | some v', some a1 => some (some (put a1 4 v'))
      | _, _ => none
  | .pushAny =>
    match spOf ctx a with
    | none => none
    | some (b, o, _, _) =>
      match mkV? b (o - 8), doStore ctx a (get a 4) (-8) 8 none with
      | some v', some a1 => some (some (put a1 4 v'))
      | _, _ => none
  | .pop r =>
    bif Nat.beq r 4 || !Nat.ble r 15 then none else
    match spOf ctx a with
    | none => none
    | some (b, o, _, _) =>
      match mkV? b (o + 8) with
      | some v' => some (some (put (put a r (slotVal a b o)) 4 v'))
      | none => none
  | .addRsp k =>
    match spOf ctx a with
    | none => none
    | some (b, o, _, _) =>
      match mkV? b (o + k) with
      | some v' => some (some (put a 4 v'))
      | none => none
  | .andRsp f m =>
    let v := get a 4
    bif !Nat.beq v 0 && Nat.beq (baseOf v) 4 then
      match ctx.frames[f]? with
      | some (k, m') =>
        bif decide (k = offOf v) && Nat.beq m' m then
          let a1 := filterKeys (fun key => Nat.ble key 15 || !Nat.beq (keyBase key) (16 + f)) a
          let a2 := mapVals (fun x => bif Nat.beq (baseOf x) (16 + f) then 0 else x) a1
          some (some (put a2 4 (initV (16 + f))))
        else none
      | none => none
    else none
  | .movRR d s =>
    let v := get a s
    bif !Nat.ble d 15 || !Nat.ble s 15 || (Nat.beq d 4 && !isStk v) then none else some (some (put a d v))
  | .lea d b k =>
    let v := get a b
    let v' := bif Nat.beq v 0 then 0 else (mkV? (baseOf v) (offOf v + k)).getD 0
    bif !Nat.ble d 15 || !Nat.ble b 15 || (Nat.beq d 4 && !isStk v') then none else some (some (put a d v'))
  | .load d b k =>
    let v := get a b
    let x := bif isStk v then slotVal a (baseOf v) (offOf v + k) else 0
    bif !Nat.ble d 15 || !Nat.ble b 15 || (Nat.beq d 4 && !isStk x) then none else some (some (put a d x))
  | .store b k s =>
    let v := get a b
    bif isStk v && Nat.ble b 15 && Nat.ble s 15 then (doStore ctx a v k 8 (some (get a s))).map some else none
  | .storeK b k sz =>
    let v := get a b
    bif isStk v && Nat.ble b 15 then (doStore ctx a v k (Int.ofNat sz) none).map some else none
  | .storeIdx _ => some (some a)
  | .storeStatic t => bif ctx.allow t then some (some a) else none
  | .leave =>
    let v := get a 5
    bif isStk v then
      match mkV? (baseOf v) (offOf v + 8) with
      | some v' => some (some (put (put a 4 v') 5 (slotVal a (baseOf v) (offOf v))))
      | none => none
    else none
  | .forbidden => none
  | .unsupported => none

/-- threaded state after one record (labels reload the certificate); `none` = reject -/
def nextSt (ctx : Ctx) (i : Instr) (st : Option A) : Option (Option A) :=
  match i, st with
  | .label id, st =>
    match ctx.cert id with
    | none => none
    | some c =>
      bif (match st with | none => true | some a => le a c) then some (some c) else none
  | _, none => none            -- a record after jmp/ret must be a label
  | i, some a => step1 ctx i a

def chk (ctx : Ctx) : List Instr → Option A → Bool
  | [], _ => true
  | i :: is, st =>
    match nextSt ctx i st with
    | none => false
    | some st' => chk ctx is st'

/-- the certificate check of one function -/
def checkFn (ctx : Ctx) (code : List Instr) (entry : Nat) : Bool :=
  (match ctx.cert entry with
   | some c => le initA c
   | none => false) &&
  (labelIdx code entry).isSome && chk ctx code none

/-! ## Packed encoding of the generated model

One record = 96 bits: `kind` (8) | `a` (24) | `b` (24) | `c` (40, signed fields biased by 2^31).
Records are packed 64 per `Nat` literal (record j of a chunk at bit 96·j). -/

def decodeInstr (x : Nat) : Instr :=
  let kind := x &&& 255
  let a := (x >>> 8) &&& 16777215
  let b := (x >>> 32) &&& 16777215
  let c := x >>> 56
  let ci : Int := Int.ofNat c - 2147483648
  match kind with
  | 0 => .plain a b
  | 1 => .label a
  | 2 => .jmp a
  | 3 => .jcc a
  | 4 => .call a
  | 5 => .tail a
  | 6 => .tailInd
  | 7 => .ret
  | 8 => .trap
  | 9 => .push a
  | 10 => .pushAny
  | 11 => .pop a
  | 12 => .addRsp ci
  | 13 => .andRsp a b
  | 14 => .movRR a b
  | 15 => .lea a b ci
  | 16 => .load a b ci
  | 17 => .store a ci b
  | 18 => .storeK a ci b
  | 19 => .storeIdx a
  | 20 => .storeStatic a
  | 21 => .leave
  | 22 => .forbidden
  | _ => .unsupported

def M96 : Nat := 79228162514264337593543950335   -- 2^96 - 1

def decodeChunk : Nat → Nat → List Instr
  | 0, _ => []
  | n + 1, x => decodeInstr (x &&& M96) :: decodeChunk n (x >>> 96)

/-- `n` records spread over chunks of 64 -/
def decodeCode : Nat → List Nat → List Instr
  | _, [] => []
  | n, x :: xs => decodeChunk (min n 64) x ++ decodeCode (n - 64) xs

/-- one function of the generated model -/
structure FuncData where
  gid    : Nat
  name   : String
  entry  : Nat                     -- label id of the entry point
  n      : Nat                     -- number of records
  code   : List Nat                -- packed records
  labMap : Nat                     -- label id ↦ index into `states` (16 bits each)
  states : List A                  -- distinct certificate states
  frames : List (Int × Nat)

def FuncData.prog (d : FuncData) : List Instr := decodeCode d.n d.code
def FuncData.certAt (d : FuncData) (id : Nat) : Option A := d.states[(d.labMap >>> (16 * id)) &&& 65535]?

/-- summary table: 17 bits per function id, `0x10000 + mask`; an id outside the table clobbers everything -/
def sumOf (tab : Nat) (g : Nat) : Nat :=
  let e := Nat.land (Nat.shiftRight tab (17 * g)) 131071
  bif Nat.ble 65536 e then e - 65536 else 65535

def FuncData.ctx (tab : Nat) (allow : Nat → Nat → Bool) (d : FuncData) : Ctx :=
  { cert := d.certAt, tab := sumOf tab, mask := sumOf tab d.gid, frames := d.frames, allow := allow d.gid }

/-- check every function of an object against the global summary table -/
def checkObj (tab : Nat) (allow : Nat → Nat → Bool) (fs : List FuncData) : Bool :=
  fs.all (fun d => checkFn (d.ctx tab allow) d.prog d.entry)

theorem all_cons_true {α : Type} (f : α → Bool) (x : α) (xs : List α) (h1 : f x = true) (h2 : xs.all f = true) :
    (x :: xs).all f = true := by simp [h1, h2]

/-- SysV clobber mask: rax rcx rdx rsi rdi r8 r9 r10 r11 -/
def sysvMask : Nat := 0x0FC7
def calleeSaved : List Nat := [3, 5, 12, 13, 14, 15]

end IsalVerif.X86Abs
