import IsalVerif.Impl.MurC
/-!
  IsalVerif/Impl/RollC.lean — the 64-bit arithmetic of the rolling-hash step in `rolling_hash/rolling_hash2.c` as data
  (T-route, `tools/gen_rollstep.py`), in the expression language of `Impl/MurC.lean`: the bodies of the two scan loops of
  `_rolling_hash2_run_until_base` with their exit tests, `hash_fn`, and the loop body of `_rolling_hash2_reset`.
  Conventions: `.v .h0` = `h` / `hash`; `.q 0` = `t1[b1[i]]` / `state->table1[new_char]` / `state->table1[init_bytes[i]]`;
  `.q 1` = `t2[b2[i]]` / `state->table2[old_char]`; `.len` = `mask`.
-/
namespace IsalVerif.RollC
open IsalVerif.MurC

structure Src where
  /-- "until0" (the `trigger == 0` loop) | "until1" | "hash_fn" | "reset" -/
  name : String
  /-- the statements around the arithmetic have today's shape -/
  frame : Bool
  prog : List A
  /-- left-hand side of the exit test `(…) == 0` (until0) / `(…) == trigger` (until1) -/
  test : Option E
  deriving Repr

def rol1E : E := .or (.shl (.v .h0) 1) (.shr (.v .h0) 63)
def canonStep : List A := [⟨.h0, rol1E⟩, ⟨.h0, .xor (.v .h0) (.xor (.q 0) (.q 1))⟩]
def canonReset : List A := [⟨.h0, rol1E⟩, ⟨.h0, .xor (.v .h0) (.q 0)⟩]
def canonTest : E := .and (.v .h0) .len

def expected (name : String) : Option (List A × Option E) :=
  if name = "until0" then some (canonStep, some canonTest)
  else if name = "until1" then some (canonStep, some canonTest)
  else if name = "hash_fn" then some (canonStep, none)
  else if name = "reset" then some (canonReset, none)
  else none

end IsalVerif.RollC
