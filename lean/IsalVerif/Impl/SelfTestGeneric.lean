import IsalVerif.Impl.SelfTest
/-!
# The FIPS self-test once-protocol (C17), portable C11-atomics implementation: abstract transition system

Source: `fips/self_tests_generic.c` (`isal_self_tests`, the function-local `static atomic_int
self_tests_status`).  This is the gate of every build that is not x86 (`lsrc_aarch64`,
`lsrc_base_aliases` = `arch=noarch`).  It is a **second abstract model**, next to the model of the x86
implementation in `Impl/SelfTest.lean`; the two protocols have different shapes (see below), the proof
*structure* (ghost owner, per-state local knowledge, potential function) is shared.

```
int isal_self_tests(void) {
    static atomic_int status = NOT_DONE;  int expected = NOT_DONE;
    if (atomic_load(&status) == DONE_AND_OK)   return 0;                         -- (F) early-out loads
    if (atomic_load(&status) == DONE_AND_FAIL) return ISAL_CRYPTO_ERR_SELF_TEST; -- (F)
    if (atomic_compare_exchange_strong(&status, &expected, RUNNING)) {           -- (B) claim 2 -> 3
        if (_aes_self_tests() != 0) { atomic_store(&status, DONE_AND_FAIL); return ERR; }  -- (E1)
        if (_sha_self_tests() != 0) { atomic_store(&status, DONE_AND_FAIL); return ERR; }  -- (E1)
        atomic_store(&status, DONE_AND_OK); return 0;                            -- (E0)
    } else {
        while (atomic_load(&status) == RUNNING) usleep(1);                       -- (C) wait
        return status == DONE_AND_OK ? 0 : ERR;                                  -- (D) final load
    }
}
```

## Differences from the x86 protocol

* two separate early-out loads, each compared with one verdict, instead of one load + `test eax,2`;
* the winner publishes a *constant* (0 or 1) chosen by `!= 0` tests on the return values, not the OR of
  the return values: no hypothesis on the return values is needed (defect D2 cannot arise here);
* `_sha_self_tests` is *not* called when `_aes_self_tests` failed;
* the loser's result is "0 iff the final load yields DONE_AND_OK".

## The model

One atomic step per access to the status word (F, B, C, D, E), per entry into / return from a self-test
function and per return from `isal_self_tests`.  The sequence of early-out loads is a *parameter*
`cfg : List (List Nat)` of the protocol (`[[0], [1]]` for the current source: two loads, the first compared
with DONE_AND_OK, the second with DONE_AND_FAIL): a thread in `fast (ks :: rest)` loads the word, returns
the code of the value read if it is one of `ks`, and otherwise goes on with `rest`.  All theorems are proved
for every `cfg` whose entries are verdicts (0 or 1), so reordering, merging, dropping or repeating the
early-out loads is covered without touching the model; an early-out on RUNNING or NOT_DONE is not.

Ghost state: five counters (calls of / returns from each self-test function, non-zero return values) and
the owner.  Memory model: sequential consistency for the single status word, as for x86.
-/
namespace IsalVerif.SelfTestGeneric
open IsalVerif.SelfTest (errSelfTest codeOf)

/-- Control state of one thread inside its call of `isal_self_tests` (next visible action). -/
inductive PC where
  /-- `fast (ks :: rest)`: before an early-out load that returns at once if it reads one of `ks`
      (`rest` = the early-out loads that follow); `fast []`: before (B) the compare-and-swap NOT_DONE → RUNNING -/
  | fast (kss : List (List Nat))
  /-- won the claim; before `call _aes_self_tests` -/
  | runAes
  /-- inside `_aes_self_tests` -/
  | inAes
  /-- `_aes_self_tests` returned 0; before `call _sha_self_tests` -/
  | runSha
  /-- inside `_sha_self_tests` -/
  | inSha
  /-- a self test failed; before (E1) the store of DONE_AND_FAIL -/
  | pubFail
  /-- both passed; before (E0) the store of DONE_AND_OK -/
  | pubOk
  /-- lost the claim; before (C) the load of the `while` condition -/
  | wait
  /-- left the loop; before (D) the final load -/
  | final
  /-- before the `ret` of `isal_self_tests` with `eax = v` -/
  | retn (v : Nat)
  /-- `isal_self_tests` has returned `v` (0 = passed, crypto may proceed; 2016 = refused) -/
  | done (v : Nat)
deriving DecidableEq, Repr

/-- before (B), the compare-and-swap -/
abbrev PC.claim : PC := .fast []

/-- ghost events: calls of and returns from the two self-test functions (`c` = returned word) -/
inductive Ev where
  | tau | enterAes | retAes (c : Nat) | enterSha | retSha (c : Nat)
deriving DecidableEq, Repr

/-- ghost counters -/
structure Ghost where
  /-- calls of `_aes_self_tests` (= self-test runs started) -/
  aesIn : Nat := 0
  /-- returns from `_aes_self_tests` -/
  aesOut : Nat := 0
  /-- calls of `_sha_self_tests` -/
  shaIn : Nat := 0
  /-- returns from `_sha_self_tests` -/
  shaOut : Nat := 0
  /-- returns of a non-zero value (a failed self test) -/
  fails : Nat := 0
deriving DecidableEq, Repr

def Ghost.apply (h : Ghost) : Ev → Ghost
  | .tau => h
  | .enterAes => { h with aesIn := h.aesIn + 1 }
  | .retAes c => { h with aesOut := h.aesOut + 1, fails := h.fails + (if c = 0 then 0 else 1) }
  | .enterSha => { h with shaIn := h.shaIn + 1 }
  | .retSha c => { h with shaOut := h.shaOut + 1, fails := h.fails + (if c = 0 then 0 else 1) }

/-- result of one thread step: new control state, new status word, ghost event -/
structure TOut where
  pc : PC
  status : Nat
  ev : Ev
deriving DecidableEq, Repr

/-- One atomic step of a thread in control state `pc` when the status word holds `s`; `c` is the value
    returned by the self-test function (used only by `inAes` / `inSha`).  `none`: the thread has returned. -/
def tstep (pc : PC) (s c : Nat) : Option TOut :=
  match pc with
  | .fast (ks :: rest) => some ⟨if s ∈ ks then .retn (codeOf s) else .fast rest, s, .tau⟩   -- (F)
  | .fast []  => if s = 2 then some ⟨.runAes, 3, .tau⟩                        -- (B) won
                 else some ⟨.wait, s, .tau⟩                                    --     lost: word unchanged
  | .runAes   => some ⟨.inAes, s, .enterAes⟩
  | .inAes    => some ⟨if c = 0 then .runSha else .pubFail, s, .retAes c⟩
  | .runSha   => some ⟨.inSha, s, .enterSha⟩
  | .inSha    => some ⟨if c = 0 then .pubOk else .pubFail, s, .retSha c⟩
  | .pubFail  => some ⟨.retn errSelfTest, 1, .tau⟩                            -- (E1)
  | .pubOk    => some ⟨.retn 0, 0, .tau⟩                                      -- (E0)
  | .wait     => some ⟨if s = 3 then .wait else .final, s, .tau⟩              -- (C)
  | .final    => some ⟨.retn (codeOf s), s, .tau⟩                             -- (D)
  | .retn v   => some ⟨.done v, s, .tau⟩
  | .done _   => none

/-- Global state: the status word, ghost counters, ghost owner, and the threads. -/
structure G where
  /-- the shared word `self_tests_status` -/
  status : Nat
  gh : Ghost
  /-- ghost: the thread whose compare-and-swap succeeded and which has not yet published -/
  owner : Option Nat
  th : List PC
deriving DecidableEq, Repr

/-- ghost owner after thread `i` in state `pc` steps -/
def newOwner (g : G) (i : Nat) : PC → Option Nat
  | .fast [] => if g.status = 2 then some i else g.owner
  | .pubFail => none
  | .pubOk => none
  | _ => g.owner

/-- the global state after thread `i` (in state `pc`) made the step `o` -/
def G.apply (g : G) (i : Nat) (pc : PC) (o : TOut) : G :=
  { status := o.status
    gh := g.gh.apply o.ev
    owner := newOwner g i pc
    th := g.th.set i o.pc }

/-- One step of the system: any thread that has not returned takes its next atomic step;
    `vals` is the set of values the self-test functions may return. -/
inductive Step (vals : List Nat) : G → G → Prop where
  | mk {g : G} {i : Nat} {pc : PC} {c : Nat} {o : TOut} :
      g.th[i]? = some pc → c ∈ vals → tstep pc g.status c = some o → Step vals g (g.apply i pc o)

/-- `n` threads, none of which has started; status word `SELF_TEST_NOT_DONE`; `cfg` = the early-out
    comparisons of the implementation -/
def G.init (cfg : List (List Nat)) (n : Nat) : G := ⟨2, {}, none, List.replicate n (.fast cfg)⟩

/-- the early-out loads compare with verdicts only -/
def cfgOk (cfg : List (List Nat)) : Prop := ∀ ks ∈ cfg, ∀ k ∈ ks, k = 0 ∨ k = 1

instance (cfg : List (List Nat)) : Decidable (cfgOk cfg) := by unfold cfgOk; infer_instance

/-- states reachable by `n` threads under any interleaving -/
inductive Reach (cfg : List (List Nat)) (vals : List Nat) (n : Nat) : G → Prop where
  | init : Reach cfg vals n (G.init cfg n)
  | step {g g'} : Reach cfg vals n g → Step vals g g' → Reach cfg vals n g'

/-- any number of further steps -/
inductive Steps (vals : List Nat) : G → G → Prop where
  | refl {g} : Steps vals g g
  | step {g g' g''} : Steps vals g g' → Step vals g' g'' → Steps vals g g''

/-! ### Deterministic scheduling (liveness, witnesses) -/

/-- thread `i` takes its step, the self-test function (if it is returning) returns `c` -/
def fireWith (g : G) (i c : Nat) : G :=
  match g.th[i]? with
  | some pc => match tstep pc g.status c with
    | some o => g.apply i pc o
    | none => g
  | none => g

/-- as `fireWith`, outcome `c % 2 ∈ {0,1}` (pass / fail) -/
def fire (g : G) (i c : Nat) : G := fireWith g i (c % 2)

/-- state after `t` steps of schedule `σ` (thread scheduled at each instant) with outcome oracle `o` -/
def run (cfg : List (List Nat)) (n : Nat) (σ o : Nat → Nat) : Nat → G
  | 0 => G.init cfg n
  | t+1 => fire (run cfg n σ o t) (σ t) (o t)

/-- run a finite schedule of (thread, self-test return value) pairs -/
def runList (g : G) : List (Nat × Nat) → G
  | [] => g
  | (i, c) :: rest => runList (fireWith g i c) rest

def notDone : PC → Bool | .done _ => false | _ => true

def allDone (g : G) : Prop := ∀ pc ∈ g.th, notDone pc = false

/-- every thread that has not returned is scheduled again (weak fairness) -/
def Fair (cfg : List (List Nat)) (n : Nat) (σ o : Nat → Nat) : Prop :=
  ∀ i pc t, (run cfg n σ o t).th[i]? = some pc → notDone pc = true → ∃ t', t ≤ t' ∧ σ t' = i

/-- every thread is scheduled infinitely often (implies `Fair`) -/
def StronglyFair (n : Nat) (σ : Nat → Nat) : Prop := ∀ i, i < n → ∀ t, ∃ t', t ≤ t' ∧ σ t' = i

end IsalVerif.SelfTestGeneric
