import IsalVerif.Spec.Bits
/-!
  IsalVerif/Impl/MhInitC.lean — the C functions `_mh_sha1_init`, `_mh_sha256_init` and `_mh_sha1_murmur3_x64_128_init` as
  data (T-route, `tools/gen_mhinit.py`).  The `for (i = 0; i < ISAL_HASH_SEGS; i++)` loop over the segments is folded into
  each `segInit` (the translator checks its shape and that the bound is 16).
-/
namespace IsalVerif.MhInitC

inductive B
  /-- `if (ctx == NULL) return <CTX_ERROR_NULL>;` (the context is a valid object here) -/
  | nullCheck
  /-- `memset(ctx, 0, sizeof(*ctx));` -/
  | zeroCtx
  /-- for every segment `i < 16`: `<alg>_segs_digests[k][i] = c;` with `<alg>_segs_digests` = `ctx-><alg>_interim_digests` -/
  | segInit (k c : Nat)
  /-- `((uint64_t *) ctx->murmur3_x64_128_digest)[k] = murmur_seed;` -/
  | murSeed (k : Nat)
  | ret (code : Int)
  | unsupported (src : String)
  deriving DecidableEq, Repr, Inhabited

/-- abstract context contents: `zeroed` = every byte of `*ctx` is 0 except what `rows` / `mur` say -/
structure St where
  zeroed : Bool := false
  /-- `(k, c)`: word `k` of every segment's interim digest is `c` (latest first) -/
  rows : List (Nat × Nat) := []
  /-- murmur state words holding the seed -/
  mur : List Nat := []
  deriving DecidableEq, Repr

inductive Out
  | cont (s : St)
  | ret (s : St) (code : Int)
  | bad

def step (o : Out) (b : B) : Out :=
  match o with
  | .cont s =>
    match b with
    | .nullCheck => .cont s
    | .zeroCtx => .cont { zeroed := true, rows := [], mur := [] }
    | .segInit k c => .cont { s with rows := (k, c) :: s.rows }
    | .murSeed k => .cont { s with mur := k :: s.mur }
    | .ret code => .ret s code
    | .unsupported _ => .bad
  | o => o

def run (prog : List B) : Out := prog.foldl step (.cont {})

def Out.res : Out → Option (St × Int)
  | .ret s c => some (s, c)
  | _ => none

/-- the functions as written today: `hs` = the initial hash value of the inner hash -/
def canon (hs : List Nat) (mur : Bool) : List B :=
  [ .nullCheck, .zeroCtx ] ++ (List.range hs.length).map (fun k => .segInit k (hs.getD k 0)) ++
  (if mur then [ .murSeed 0, .murSeed 1 ] else []) ++ [ .ret 0 ]

def sha1H : List Nat := [0x67452301, 0xEFCDAB89, 0x98BADCFE, 0x10325476, 0xC3D2E1F0]
def sha256H : List Nat :=
  [0x6a09e667, 0xbb67ae85, 0x3c6ef372, 0xa54ff53a, 0x510e527f, 0x9b05688c, 0x1f83d9ab, 0x5be0cd19]

def paramsOf (fn : String) : Option (List Nat × Bool) :=
  if fn = "_mh_sha1_init" then some (sha1H, false)
  else if fn = "_mh_sha256_init" then some (sha256H, false)
  else if fn = "_mh_sha1_murmur3_x64_128_init" then some (sha1H, true)
  else none

/-- word `k` of every segment after the run (0 from the memset if never written) -/
def St.row (s : St) (k : Nat) : Nat := ((s.rows.find? (·.1 = k)).map (·.2)).getD 0

structure Src where
  file : String
  fn : String
  prog : List B
  deriving Repr

end IsalVerif.MhInitC
