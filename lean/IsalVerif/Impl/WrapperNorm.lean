/-
  IsalVerif/Impl/WrapperCheck.lean

  Structural checkers over translated wrapper bodies and their soundness lemmas (all proved by
  induction on the statement list against the semantics `run` of Impl/Wrapper.lean).

    wellGated        C13  a self-test gate precedes every call / store; failing gate ⇒ ERR_SELF_TEST
    nonApproved      C13  body is `return ISAL_CRYPTO_ERR_FIPS_INVALID_ALGO;`
    xtsSameKey       C13  a memcmp guard compares the two keys in the form they arrive
    guardsBeforeUse  C16  every pointer that is used was NULL-tested by an earlier guard
    domainChecks     C16  the guards are exactly the documented domain (Spec/ApiDomain.lean)
    sameCallAs       C16  legacy body = the same single internal call as its isal_ counterpart

  Every checker rejects `Stmt.opaque`.
-/
import IsalVerif.Impl.Wrapper
import IsalVerif.Spec.ApiDomain

namespace IsalVerif.Wrapper
open IsalVerif.ApiDomain

/-! ## Generic facts about `run` -/

def Stmt.isOpaque : Stmt → Bool
  | .opaque _ => true
  | _ => false

def noOpaque (b : List Stmt) : Bool := b.all fun s => !s.isOpaque

abbrev Guard := Cond × Code

theorem firstFiring_none {env : Env} {gs : List Guard} :
    firstFiring env gs = none ↔ ∀ g ∈ gs, g.1.eval env = false := by
  induction gs with
  | nil => simp [firstFiring]
  | cons g gs ih =>
    obtain ⟨c, k⟩ := g
    by_cases h : c.eval env <;> simp [firstFiring, h, ih]

theorem firstFiring_some {env : Env} {gs : List Guard} {k : Code}
    (h : firstFiring env gs = some k) : ∃ c, (c, k) ∈ gs ∧ c.eval env = true := by
  induction gs with
  | nil => simp [firstFiring] at h
  | cons g gs ih =>
    obtain ⟨c, k'⟩ := g
    by_cases hc : c.eval env
    · simp [firstFiring, hc] at h
      exact ⟨c, by simp [h], hc⟩
    · simp [firstFiring, hc] at h
      obtain ⟨c', hm, he⟩ := ih h
      exact ⟨c', by simp [hm], he⟩

theorem firstFiring_append {env : Env} (a b : List Guard) :
    firstFiring env (a ++ b) = (firstFiring env a).orElse fun _ => firstFiring env b := by
  induction a with
  | nil => simp [firstFiring]
  | cons g a ih =>
    obtain ⟨c, k⟩ := g
    by_cases hc : c.eval env <;> simp [firstFiring, hc, ih]

/-! ## Normal form of guards

`if (a || b) return k;` is two guards; `x > 0` on an unsigned value is `x != 0`; `x & (2^n - 1)`
is `x % 2^n`.  The hand-written domain and the translated guards are compared in this normal
form. -/

def isPow2 (n : Nat) : Bool := n != 0 && n == 2 ^ n.log2

def SExpr.norm : SExpr → SExpr
  | .arg i => .arg i
  | .band e k => if isPow2 (k + 1) then .mod e.norm (k + 1) else .band e.norm k
  | .mod e k => .mod e.norm k

theorem SExpr.norm_eval (env : Env) (e : SExpr) : e.norm.eval env = e.eval env := by
  induction e with
  | arg i => rfl
  | band e k ih =>
    simp only [SExpr.norm]
    split
    · rename_i h
      simp only [isPow2, Bool.and_eq_true, bne_iff_ne, beq_iff_eq] at h
      have h2 : k + 1 = 2 ^ (k + 1).log2 := h.2
      generalize (k + 1).log2 = n at h2
      have hk : k = 2 ^ n - 1 := by omega
      simp only [SExpr.eval, ih]
      subst hk
      rw [Nat.and_two_pow_sub_one_eq_mod]
      have : 2 ^ n - 1 + 1 = 2 ^ n := by omega
      rw [this]
    · simp [SExpr.eval, ih]
  | mod e k ih => simp [SExpr.norm, SExpr.eval, ih]

def Cond.norm : Cond → Cond
  | .isNull p => .isNull p
  | .cmp .gt e 0 => .cmp .ne e.norm 0
  | .cmp op e k => .cmp op e.norm k
  | .and a b => .and a.norm b.norm
  | .or a b => .or a.norm b.norm
  | .not a => .not a.norm

theorem Cond.norm_eval (env : Env) (c : Cond) : c.norm.eval env = c.eval env := by
  induction c with
  | isNull p => rfl
  | cmp op e k =>
    cases op <;> cases k <;>
      simp [Cond.norm, Cond.eval, Cmp.eval, SExpr.norm_eval, Nat.pos_iff_ne_zero]
    cases SExpr.eval env e <;> simp
  | and a b iha ihb => simp [Cond.norm, Cond.eval, iha, ihb]
  | or a b iha ihb => simp [Cond.norm, Cond.eval, iha, ihb]
  | not a ih => simp [Cond.norm, Cond.eval, ih]

def splitOr : Cond → List Cond
  | .or a b => splitOr a ++ splitOr b
  | c => [c]

theorem splitOr_eval (env : Env) (c : Cond) : (splitOr c).any (·.eval env) = c.eval env := by
  induction c with
  | or a b iha ihb => simp [splitOr, List.any_append, iha, ihb, Cond.eval]
  | _ => simp [splitOr]

/-- The guards `if (c) return k;` stands for, in normal form. -/
def normGuards (c : Cond) (k : Code) : List Guard := (splitOr c).map fun d => (d.norm, k)

theorem normGuards_fires (env : Env) (c : Cond) (k : Code) :
    (∃ g ∈ normGuards c k, g.1.eval env = true) ↔ c.eval env = true := by
  rw [← splitOr_eval env c]
  simp only [normGuards, List.mem_map, List.any_eq_true]
  constructor
  · rintro ⟨g, ⟨d, hd, rfl⟩, he⟩
    exact ⟨d, hd, by simpa [Cond.norm_eval] using he⟩
  · rintro ⟨d, hd, he⟩
    exact ⟨(d.norm, k), ⟨d, hd, rfl⟩, by simpa [Cond.norm_eval] using he⟩

theorem normGuards_code {c : Cond} {k : Code} {g : Guard} (h : g ∈ normGuards c k) : g.2 = k := by
  simp [normGuards] at h
  obtain ⟨_, _, rfl⟩ := h
  rfl

theorem firstFiring_normGuards (env : Env) (c : Cond) (k : Code) :
    firstFiring env (normGuards c k) = if c.eval env then some k else none := by
  by_cases h : c.eval env
  · simp only [h, if_true]
    cases hf : firstFiring env (normGuards c k) with
    | none =>
      rw [firstFiring_none] at hf
      obtain ⟨g, hg, he⟩ := (normGuards_fires env c k).2 h
      simp [hf g hg] at he
    | some k' =>
      obtain ⟨c', hm, _⟩ := firstFiring_some hf
      have := normGuards_code hm
      simp at this
      simp [this]
  · have hff : (if c.eval env = true then some k else none) = none := by simp [h]
    rw [hff, firstFiring_none]
    intro g hg
    by_cases he : g.1.eval env
    · exact absurd ((normGuards_fires env c k).1 ⟨g, hg, he⟩) h
    · simpa using he

/-- Leading guards of a body in normal form, and the rest.  A same-file callee whose result is
    tested (`ifCallNegRet`) contributes its own guards when they all make it fail. -/
def leadGuards : List Stmt → List Guard × List Stmt
  | .ifRet c k :: rest => ((normGuards c k) ++ (leadGuards rest).1, (leadGuards rest).2)
  | .ifCallNegRet s a gs code :: rest =>
      if gs.all (fun g => decide (g.2 < 0)) then
        (gs.flatMap (fun g => normGuards g.1 code), .ifCallNegRet s a [] code :: rest)
      else ([], .ifCallNegRet s a gs code :: rest)
  | b => ([], b)

private theorem orElse_ite (b c : Bool) (code : Code) :
    ((if b = true then some code else none).orElse fun _ => if c = true then some code else none) =
      if (b || c) = true then some code else none := by
  cases b <;> cases c <;> rfl

theorem firstFiring_flatMap_neg (env : Env) (gs : List Guard) (code : Code) :
    firstFiring env (gs.flatMap fun g => normGuards g.1 code) =
      if gs.any (fun g => g.1.eval env) then some code else none := by
  induction gs with
  | nil => simp [firstFiring]
  | cons g gs ih =>
    simp only [List.flatMap_cons, firstFiring_append, firstFiring_normGuards, ih, List.any_cons]
    exact orElse_ite _ _ _

theorem firstFiring_allNeg {env : Env} {gs : List Guard}
    (hneg : gs.all (fun g => decide (g.2 < 0)) = true) :
    (∃ k, firstFiring env gs = some k ∧ k < 0 ∧ gs.any (fun g => g.1.eval env) = true) ∨
    (firstFiring env gs = none ∧ gs.any (fun g => g.1.eval env) = false) := by
  cases hf : firstFiring env gs with
  | none =>
    right
    refine ⟨rfl, ?_⟩
    rw [firstFiring_none] at hf
    simp only [List.any_eq_false]
    intro g hg
    simp [hf g hg]
  | some k =>
    left
    obtain ⟨c, hm, he⟩ := firstFiring_some hf
    refine ⟨k, rfl, ?_, ?_⟩
    · have := (List.all_eq_true.1 hneg) (c, k) hm
      simpa using this
    · exact List.any_eq_true.2 ⟨(c, k), hm, he⟩

/-- Running a body = trying its leading guards, then running the rest. -/
theorem run_leadGuards (env : Env) (b : List Stmt) :
    run b env = match firstFiring env (leadGuards b).1 with
      | some k => ⟨k, []⟩
      | none => run (leadGuards b).2 env := by
  induction b with
  | nil => simp [leadGuards, firstFiring]
  | cons s rest ih =>
    cases s with
    | ifRet c k =>
      simp only [leadGuards, firstFiring_append, firstFiring_normGuards, run]
      by_cases h : c.eval env
      · simp [h]
      · simp [h, ih]
    | ifCallNegRet s a gs code =>
      by_cases hneg : gs.all (fun g => decide (g.2 < 0)) = true
      · simp only [leadGuards, hneg, if_true, firstFiring_flatMap_neg]
        rcases firstFiring_allNeg (env := env) hneg with ⟨k, hf, hk, hany⟩ | ⟨hf, hany⟩
        · simp [run, hf, hk, hany]
        · simp [run, hf, hany, firstFiring]
      · simp [leadGuards, hneg, firstFiring]
    | _ => simp [leadGuards, firstFiring]

end IsalVerif.Wrapper
