import IsalVerif.Impl.MhStream
/-! Known-answer tests for the multi-hash definition and the streaming model (evaluated at build time).
    Expected values were produced by the real library (`isal_mh_sha1_*`, `isal_mh_sha256_*`,
    `isal_mh_sha1_murmur3_x64_128_*`, autotools build) on `xs_bytes(7, n)` for `n = 0, 1500`, murmur
    seed `0x1234567890abcdef`; the harness `drv_mh` compares thousands more against the library and
    against an OpenSSL-based computation of the definition. -/
namespace IsalVerif.MhTests
open MultiHash Mh

def msg : Bytes := xsBytes 7 1500

#guard mhSha1 [] == [0xd7daa56b, 0x733d7205, 0xd4ed64a6, 0xf6fd354d, 0xc1c3287d]
#guard mhSha256 [] ==
  [0x7ec5da16, 0xca2ac87a, 0x3d69f3a4, 0x13e2882d, 0x45b25f8f, 0xf1627540, 0x6b7d1bf5, 0x57a61348]
#guard mhSha1 msg == [0xdc7afa09, 0xc63600c8, 0xbc20ffa8, 0x5611f98d, 0x66b66fbe]
#guard mhSha256 msg ==
  [0xb1d03754, 0xecdaf9f6, 0x232ce363, 0xe46371e0, 0xae19e358, 0xac17b265, 0x994efb51, 0x11f7b673]

-- the model, stream cut as 1000 + 0 + 24 + 476 bytes (the second update completes the first block)
def cut : List Bytes := [msg.take 1000, [], (msg.drop 1000).take 24, msg.drop 1024]

#guard mhSha1Finalize (cut.foldl mhSha1Update mhSha1Init) == mhSha1 msg
#guard mhSha256Finalize (cut.foldl mhSha256Update mhSha256Init) == mhSha256 msg
#guard murFinalize (cut.foldl murUpdate (murInit 0x1234567890abcdef)) ==
  ([0xdc7afa09, 0xc63600c8, 0xbc20ffa8, 0x5611f98d, 0x66b66fbe], (0x1c3e62ef6bc9d79d, 0xb9b3f11b64d1d04c))
#guard murFinalize (murInit 0x1234567890abcdef) ==
  ([0xd7daa56b, 0x733d7205, 0xd4ed64a6, 0xf6fd354d, 0xc1c3287d], (0xda4ed2a4ef5e1c8e, 0x9b40726a01e491ef))
#guard Murmur3.murmur3_x64_128 0x1234567890abcdef msg == (0x1c3e62ef6bc9d79d, 0xb9b3f11b64d1d04c)

end IsalVerif.MhTests
