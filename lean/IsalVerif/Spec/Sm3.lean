import IsalVerif.Spec.MD
/-! SM3, GB/T 32905-2016 (draft-sca-cfrg-sm3). -/
namespace IsalVerif.Sm3

def init : Array UInt32 :=
  #[0x7380166f,0x4914b2b9,0x172442d7,0xda8a0600,0xa96f30bc,0x163138aa,0xe38dee4d,0xb0fb0e4e]

@[inline] def rl (x : UInt32) (n : Nat) : UInt32 :=
  let n := n % 32
  if n == 0 then x else rotl32 x n.toUInt32

@[inline] def p0 (x : UInt32) := x ^^^ rl x 9 ^^^ rl x 17
@[inline] def p1 (x : UInt32) := x ^^^ rl x 15 ^^^ rl x 23
def ff (j : Nat) (x y z : UInt32) : UInt32 :=
  if j < 16 then x ^^^ y ^^^ z else (x &&& y) ||| (x &&& z) ||| (y &&& z)
def gg (j : Nat) (x y z : UInt32) : UInt32 :=
  if j < 16 then x ^^^ y ^^^ z else (x &&& y) ||| (~~~x &&& z)
def tj (j : Nat) : UInt32 := if j < 16 then 0x79cc4519 else 0x7a879d8a

def schedule (block : Bytes) : Array UInt32 := Id.run do
  let mut w : Array UInt32 := (wordsBE32 block).toArray
  for j in [16:68] do
    w := w.push (p1 (w[j-16]! ^^^ w[j-9]! ^^^ rl w[j-3]! 15) ^^^ rl w[j-13]! 7 ^^^ w[j-6]!)
  return w

def compress (v : Array UInt32) (block : Bytes) : Array UInt32 := Id.run do
  let w := schedule block
  let mut a := v[0]!; let mut b := v[1]!; let mut c := v[2]!; let mut d := v[3]!
  let mut e := v[4]!; let mut f := v[5]!; let mut g := v[6]!; let mut h := v[7]!
  for j in [0:64] do
    let ss1 := rl (rl a 12 + e + rl (tj j) j) 7
    let ss2 := ss1 ^^^ rl a 12
    let tt1 := ff j a b c + d + ss2 + (w[j]! ^^^ w[j+4]!)
    let tt2 := gg j e f g + h + ss1 + w[j]!
    d := c; c := rl b 9; b := a; a := tt1
    h := g; g := rl f 19; f := e; e := p0 tt2
  return #[v[0]! ^^^ a, v[1]! ^^^ b, v[2]! ^^^ c, v[3]! ^^^ d, v[4]! ^^^ e, v[5]! ^^^ f, v[6]! ^^^ g, v[7]! ^^^ h]

def alg : HashAlg :=
  { S := Array UInt32, init := init, B := 64, L := 8, lenBE := true, compress := compress,
    out := fun s => s.toList.flatMap bytesBE32 }

end IsalVerif.Sm3
