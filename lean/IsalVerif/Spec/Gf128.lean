import IsalVerif.Spec.Blocks
/-! Multiplication in GF(2¹²⁸) and GHASH, NIST SP 800-38D §6.3 and §6.4.

    A 128-bit block is a pair of `UInt64`: `hi` holds bytes 0-7 and `lo` bytes 8-15, both big-endian, so
    that bit 0 of the block in the standard's numbering ("the leftmost bit") is the most significant
    bit of `hi` and bit 127 is the least significant bit of `lo`. -/
namespace IsalVerif.Gf128

structure Block128 where
  hi : UInt64
  lo : UInt64
deriving DecidableEq, Repr, Inhabited

namespace Block128

/-- The block formed by the first 16 bytes of `b` (big-endian; missing bytes are *not* padded — callers pass
    exactly 16 bytes). -/
def ofBytes (b : Bytes) : Block128 := ⟨be64 (b.take 8), be64 ((b.drop 8).take 8)⟩

def toBytes (x : Block128) : Bytes := bytesBE64 x.hi ++ bytesBE64 x.lo

def zero : Block128 := ⟨0, 0⟩

def xor (x y : Block128) : Block128 := ⟨x.hi ^^^ y.hi, x.lo ^^^ y.lo⟩

instance : XorOp Block128 := ⟨xor⟩

end Block128

/-- `R = 11100001 ‖ 0¹²⁰` (§6.3); only its high word is non-zero. -/
def Rhi : UInt64 := 0xE100000000000000

/-- Steps 2-3 of Algorithm 1 (§6.3), `n` iterations, on unboxed words.
    Invariant at iteration `i`: `(xh, xl)` is `X <<< i`, so that `x_i` is its leftmost bit;
    `(zh, zl)` is `Z_i`; `(vh, vl)` is `V_i`:
      `Z_{i+1} = Z_i           if x_i = 0,   Z_i ⊕ V_i        if x_i = 1`
      `V_{i+1} = V_i >> 1      if LSB₁(V_i) = 0,   (V_i >> 1) ⊕ R   otherwise`. -/
def mulLoop : Nat → (xh xl zh zl vh vl : UInt64) → Block128
  | 0, _, _, zh, zl, _, _ => ⟨zh, zl⟩
  | n+1, xh, xl, zh, zl, vh, vl =>
    let xi := xh >>> 63 ≠ 0
    let zh' := if xi then zh ^^^ vh else zh
    let zl' := if xi then zl ^^^ vl else zl
    let lsb := vl &&& 1 ≠ 0
    let vl' := (vl >>> 1) ||| (vh <<< 63)
    let vh' := if lsb then (vh >>> 1) ^^^ Rhi else vh >>> 1
    mulLoop n ((xh <<< 1) ||| (xl >>> 63)) (xl <<< 1) zh' zl' vh' vl'

/-- §6.3 Algorithm 1: `X • Y`, with `Z₀ = 0¹²⁸`, `V₀ = Y`, result `Z₁₂₈`. -/
def mul (x y : Block128) : Block128 := mulLoop 128 x.hi x.lo 0 0 y.hi y.lo

/-- `X • Y` on 16-byte strings. -/
def mulBytes (x y : Bytes) : Bytes := (mul (.ofBytes x) (.ofBytes y)).toBytes

/-- §6.4 Algorithm 2 on blocks: `Y₀ = 0`, `Y_i = (Y_{i-1} ⊕ X_i) • H`; returns `Y_m`. -/
def ghashBlocks (h : Block128) (xs : List Block128) : Block128 :=
  xs.foldl (fun y x => mul (y ^^^ x) h) .zero

/-- §6.4 `GHASH_H(X)` for `X` a whole number of 16-byte blocks (a ragged tail is ignored). -/
def ghash (h : Bytes) (x : Bytes) : Bytes :=
  (ghashBlocks (.ofBytes h) ((chunks 16 x).map .ofBytes)).toBytes

end IsalVerif.Gf128
