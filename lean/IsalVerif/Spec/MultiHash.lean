import IsalVerif.Spec.Sha1
import IsalVerif.Spec.Sha256
import IsalVerif.Spec.Blocks
/-! The "multi-hash" of isa-l_crypto (`mh_sha1`, `mh_sha256`): the definition the library is held to.

    1. The message is padded in SHA style to a multiple of 1024 bytes (`0x80`, zeros, 64-bit big-endian
       bit length).
    2. The 32-bit words of the padded stream are dealt round-robin to 16 segments: inside every 1024-byte
       block, word `j` (0 ≤ j < 256) is word `j / 16` of segment `j % 16`'s next 64-byte block.
    3. Each segment is hashed with the inner hash's compression function from the standard initial
       value, *without* further padding (its length is a multiple of 64 by construction).
    4. The 16 segment digests are laid out as the library keeps them in memory — `uint32_t [W][16]`,
       i.e. word-major `[word][segment]`, every word in little-endian (x86 host) byte order — and these
       `64·W` bytes are hashed once more with the complete standard hash (padding included).

    The result is the list of the `W` state words of that last hash (the library hands the digest back
    as host-order `uint32_t`s; `flatMap bytesBE32` of it is the canonical byte digest). -/
namespace IsalVerif.MultiHash

/-- The inner hash: SHA-1 (`W = 5`) or SHA-256 (`W = 8`). -/
structure Inner where
  /-- digest words -/
  W : Nat
  init : Array UInt32
  /-- the compression function on one 64-byte block (message words are read big-endian) -/
  compress : Array UInt32 → Bytes → Array UInt32
  /-- the complete standard hash of a byte string, as state words -/
  std : Bytes → Array UInt32

def sha1 : Inner := ⟨5, Sha1.init, Sha1.compress, fun m => Sha1.alg.state m⟩
def sha256 : Inner := ⟨8, Sha256.init, Sha256.compress, fun m => Sha256.alg.state m⟩

/-- SHA-style padding of an `n`-byte message to a multiple of 1024 bytes. -/
def mhPad (n : Nat) : Bytes := mdPad 1024 8 true n

/-- The 64 bytes segment `s` receives from one 1024-byte block: its words `s, 16+s, 32+s, …, 240+s`. -/
def segBlock (s : Nat) (blk : Bytes) : Bytes :=
  (List.range 16).flatMap fun i => (blk.drop (4 * (16 * i + s))).take 4

/-- Segment `s` of the padded stream. -/
def segment (s : Nat) (padded : Bytes) : Bytes := (chunks 1024 padded).flatMap (segBlock s)

/-- A segment's digest: the compression chain over its 64-byte blocks, no padding. -/
def segDigest (I : Inner) (seg : Bytes) : Array UInt32 := (chunks 64 seg).foldl I.compress I.init

/-- The 16 digests as the bytes of `uint32_t digests[W][16]` on a little-endian machine. -/
def layout (I : Inner) (ds : List (Array UInt32)) : Bytes :=
  (List.range I.W).flatMap fun w => ds.flatMap fun d => bytesLE32 d[w]!

/-- The multi-hash of `m`. -/
def mh (I : Inner) (m : Bytes) : List UInt32 :=
  let padded := m ++ mhPad m.length
  let ds := (List.range 16).map fun s => segDigest I (segment s padded)
  (I.std (layout I ds)).toList

/-- `mh_sha1`: 5 words. -/
def mhSha1 : Bytes → List UInt32 := mh sha1
/-- `mh_sha256`: 8 words. -/
def mhSha256 : Bytes → List UInt32 := mh sha256

end IsalVerif.MultiHash
