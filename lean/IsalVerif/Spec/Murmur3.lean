import IsalVerif.Spec.Bits
/-! MurmurHash3_x64_128 (Austin Appleby, smhasher `MurmurHash3.cpp`, public domain), with one change made
    by the library under test: the seed is 64 bits wide and initialises *both* state words,
    `h1 = h2 = seed` (the reference has a 32-bit seed, zero-extended).

    Input bytes are read as little-endian 64-bit words (`getblock64` on the reference's targets).
    The three phases are exported separately because the streaming model calls them one by one. -/
namespace IsalVerif.Murmur3

def c1 : UInt64 := 0x87c37b91114253d5
def c2 : UInt64 := 0x4cf5ad432745937f

/-- `k1 *= c1; k1 = ROTL64(k1,31); k1 *= c2` -/
def mixK1 (k1 : UInt64) : UInt64 := rotl64 (k1 * c1) 31 * c2
/-- `k2 *= c2; k2 = ROTL64(k2,33); k2 *= c1` -/
def mixK2 (k2 : UInt64) : UInt64 := rotl64 (k2 * c2) 33 * c1

/-- The finalisation mix `fmix64`. -/
def fmix64 (k : UInt64) : UInt64 :=
  let k := k ^^^ (k >>> 33)
  let k := k * 0xff51afd7ed558ccd
  let k := k ^^^ (k >>> 33)
  let k := k * 0xc4ceb9fe1a85ec53
  k ^^^ (k >>> 33)

/-- Body: one 16-byte block `k1 ‖ k2` (little-endian words; bytes past 16 are ignored, fewer than 16
    leave the state unchanged). -/
def murBlock (h : UInt64 × UInt64) (block : Bytes) : UInt64 × UInt64 :=
  match wordsLE64 block with
  | k1 :: k2 :: _ =>
    let h1 := h.1 ^^^ mixK1 k1
    let h1 := (rotl64 h1 27 + h.2) * 5 + 0x52dce729
    let h2 := h.2 ^^^ mixK2 k2
    let h2 := (rotl64 h2 31 + h1) * 5 + 0x38495ab5
    (h1, h2)
  | _ => h

/-- Tail: the last `len mod 16` bytes (`tail.length < 16`).  The reference's fall-through `switch`
    assembles `k1` from `tail[0..7]` and `k2` from `tail[8..14]`, little-endian, absent bytes being
    zero, and mixes each only if it received a byte; since `mixK1 0 = mixK2 0 = 0` the mixing can be
    done unconditionally on the zero-padded tail, which is what the C code under test does. -/
def murTail (h : UInt64 × UInt64) (tail : Bytes) : UInt64 × UInt64 :=
  match wordsLE64 (tail ++ List.replicate (16 - tail.length) 0) with
  | k1 :: k2 :: _ => (h.1 ^^^ mixK1 k1, h.2 ^^^ mixK2 k2)
  | _ => h

/-- Finalisation: `h1 ^= len; h2 ^= len;` then the add / `fmix64` / add sequence.
    `totalLen` is the total message length in bytes and is mixed in modulo 2⁶⁴.  The reference takes
    `len` as a (non-negative) `int`; the C code under test takes a `uint32_t` and zero-extends it, so
    a model of that code passes `totalLen % 2^32`. -/
def murFinal (h : UInt64 × UInt64) (totalLen : Nat) : UInt64 × UInt64 :=
  let len := UInt64.ofNat totalLen
  let h1 := h.1 ^^^ len
  let h2 := h.2 ^^^ len
  let h1 := h1 + h2
  let h2 := h2 + h1
  let h1 := fmix64 h1
  let h2 := fmix64 h2
  let h1 := h1 + h2
  let h2 := h2 + h1
  (h1, h2)

/-- `MurmurHash3_x64_128(data, len, seed)` = `(h1, h2)`. -/
def murmur3_x64_128 (seed : UInt64) (data : Bytes) : UInt64 × UInt64 :=
  let h := (chunks 16 data).foldl murBlock (seed, seed)
  let h := murTail h (data.drop (data.length / 16 * 16))
  murFinal h data.length

/-- The 16-byte digest as the reference stores it (`((uint64_t*)out)[0] = h1; [1] = h2`) on a
    little-endian machine. -/
def digestBytes (h : UInt64 × UInt64) : Bytes := bytesLE64 h.1 ++ bytesLE64 h.2

end IsalVerif.Murmur3
