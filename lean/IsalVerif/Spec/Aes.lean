import IsalVerif.Spec.Blocks
/-! AES, transcribed from FIPS 197 (Advanced Encryption Standard, 2001; section numbers as in the
    2023 update FIPS 197-upd1).

    Conventions.  The *state* is a `Bytes` of length 16 in the order of the cipher's input (§3.4):
    byte `i` is `s[r, c]` with `r = i % 4`, `c = i / 4`, so a column is four consecutive bytes.
    A *round key* is 16 bytes in the same order, a *key schedule* is the `List` of the `Nr + 1` round
    keys.  Every function is total; on arguments of the wrong shape the result is unspecified
    (documented per function) — no theorem or test relies on it. -/
namespace IsalVerif.Aes

/-! ### §4 Arithmetic in GF(2⁸) -/

/-- §4.2.1 `xtime`: multiplication by `x` (`{02}`) modulo `m(x) = x⁸ + x⁴ + x³ + x + 1` (`{01}{1b}`). -/
def xtime (a : UInt8) : UInt8 := (a <<< 1) ^^^ (if a &&& 0x80 ≠ 0 then 0x1b else 0)

/-- `gmulAux n a b` = `a • (b mod xⁿ)`: add `a·xⁱ` for each of the low `n` bits `i` of `b`. -/
def gmulAux : Nat → UInt8 → UInt8 → UInt8
  | 0, _, _ => 0
  | n+1, a, b => (if b &&& 1 ≠ 0 then a else 0) ^^^ gmulAux n (xtime a) (b >>> 1)

/-- §4.2 multiplication `a • b` in GF(2⁸), by repeated `xtime` (§4.2.1) over the 8 bits of `b`. -/
def gmul (a b : UInt8) : UInt8 := gmulAux 8 a b

/-! ### §5.1.1 SubBytes and §5.3.2 InvSubBytes -/

/-- Figure 7 (Table 4 in upd1): the S-box; entry `xy` is at index `16·x + y`. -/
def sbox : Array UInt8 := #[
  0x63,0x7c,0x77,0x7b,0xf2,0x6b,0x6f,0xc5,0x30,0x01,0x67,0x2b,0xfe,0xd7,0xab,0x76,
  0xca,0x82,0xc9,0x7d,0xfa,0x59,0x47,0xf0,0xad,0xd4,0xa2,0xaf,0x9c,0xa4,0x72,0xc0,
  0xb7,0xfd,0x93,0x26,0x36,0x3f,0xf7,0xcc,0x34,0xa5,0xe5,0xf1,0x71,0xd8,0x31,0x15,
  0x04,0xc7,0x23,0xc3,0x18,0x96,0x05,0x9a,0x07,0x12,0x80,0xe2,0xeb,0x27,0xb2,0x75,
  0x09,0x83,0x2c,0x1a,0x1b,0x6e,0x5a,0xa0,0x52,0x3b,0xd6,0xb3,0x29,0xe3,0x2f,0x84,
  0x53,0xd1,0x00,0xed,0x20,0xfc,0xb1,0x5b,0x6a,0xcb,0xbe,0x39,0x4a,0x4c,0x58,0xcf,
  0xd0,0xef,0xaa,0xfb,0x43,0x4d,0x33,0x85,0x45,0xf9,0x02,0x7f,0x50,0x3c,0x9f,0xa8,
  0x51,0xa3,0x40,0x8f,0x92,0x9d,0x38,0xf5,0xbc,0xb6,0xda,0x21,0x10,0xff,0xf3,0xd2,
  0xcd,0x0c,0x13,0xec,0x5f,0x97,0x44,0x17,0xc4,0xa7,0x7e,0x3d,0x64,0x5d,0x19,0x73,
  0x60,0x81,0x4f,0xdc,0x22,0x2a,0x90,0x88,0x46,0xee,0xb8,0x14,0xde,0x5e,0x0b,0xdb,
  0xe0,0x32,0x3a,0x0a,0x49,0x06,0x24,0x5c,0xc2,0xd3,0xac,0x62,0x91,0x95,0xe4,0x79,
  0xe7,0xc8,0x37,0x6d,0x8d,0xd5,0x4e,0xa9,0x6c,0x56,0xf4,0xea,0x65,0x7a,0xae,0x08,
  0xba,0x78,0x25,0x2e,0x1c,0xa6,0xb4,0xc6,0xe8,0xdd,0x74,0x1f,0x4b,0xbd,0x8b,0x8a,
  0x70,0x3e,0xb5,0x66,0x48,0x03,0xf6,0x0e,0x61,0x35,0x57,0xb9,0x86,0xc1,0x1d,0x9e,
  0xe1,0xf8,0x98,0x11,0x69,0xd9,0x8e,0x94,0x9b,0x1e,0x87,0xe9,0xce,0x55,0x28,0xdf,
  0x8c,0xa1,0x89,0x0d,0xbf,0xe6,0x42,0x68,0x41,0x99,0x2d,0x0f,0xb0,0x54,0xbb,0x16]

/-- Figure 14 (Table 6 in upd1): the inverse S-box. -/
def invSbox : Array UInt8 := #[
  0x52,0x09,0x6a,0xd5,0x30,0x36,0xa5,0x38,0xbf,0x40,0xa3,0x9e,0x81,0xf3,0xd7,0xfb,
  0x7c,0xe3,0x39,0x82,0x9b,0x2f,0xff,0x87,0x34,0x8e,0x43,0x44,0xc4,0xde,0xe9,0xcb,
  0x54,0x7b,0x94,0x32,0xa6,0xc2,0x23,0x3d,0xee,0x4c,0x95,0x0b,0x42,0xfa,0xc3,0x4e,
  0x08,0x2e,0xa1,0x66,0x28,0xd9,0x24,0xb2,0x76,0x5b,0xa2,0x49,0x6d,0x8b,0xd1,0x25,
  0x72,0xf8,0xf6,0x64,0x86,0x68,0x98,0x16,0xd4,0xa4,0x5c,0xcc,0x5d,0x65,0xb6,0x92,
  0x6c,0x70,0x48,0x50,0xfd,0xed,0xb9,0xda,0x5e,0x15,0x46,0x57,0xa7,0x8d,0x9d,0x84,
  0x90,0xd8,0xab,0x00,0x8c,0xbc,0xd3,0x0a,0xf7,0xe4,0x58,0x05,0xb8,0xb3,0x45,0x06,
  0xd0,0x2c,0x1e,0x8f,0xca,0x3f,0x0f,0x02,0xc1,0xaf,0xbd,0x03,0x01,0x13,0x8a,0x6b,
  0x3a,0x91,0x11,0x41,0x4f,0x67,0xdc,0xea,0x97,0xf2,0xcf,0xce,0xf0,0xb4,0xe6,0x73,
  0x96,0xac,0x74,0x22,0xe7,0xad,0x35,0x85,0xe2,0xf9,0x37,0xe8,0x1c,0x75,0xdf,0x6e,
  0x47,0xf1,0x1a,0x71,0x1d,0x29,0xc5,0x89,0x6f,0xb7,0x62,0x0e,0xaa,0x18,0xbe,0x1b,
  0xfc,0x56,0x3e,0x4b,0xc6,0xd2,0x79,0x20,0x9a,0xdb,0xc0,0xfe,0x78,0xcd,0x5a,0xf4,
  0x1f,0xdd,0xa8,0x33,0x88,0x07,0xc7,0x31,0xb1,0x12,0x10,0x59,0x27,0x80,0xec,0x5f,
  0x60,0x51,0x7f,0xa9,0x19,0xb5,0x4a,0x0d,0x2d,0xe5,0x7a,0x9f,0x93,0xc9,0x9c,0xef,
  0xa0,0xe0,0x3b,0x4d,0xae,0x2a,0xf5,0xb0,0xc8,0xeb,0xbb,0x3c,0x83,0x53,0x99,0x61,
  0x17,0x2b,0x04,0x7e,0xba,0x77,0xd6,0x26,0xe1,0x69,0x14,0x63,0x55,0x21,0x0c,0x7d]

def subByte (b : UInt8) : UInt8 := sbox[b.toNat]!
def invSubByte (b : UInt8) : UInt8 := invSbox[b.toNat]!

/-- §5.1.1 `SubBytes()` -/
def subBytes (s : Bytes) : Bytes := s.map subByte
/-- §5.3.2 `InvSubBytes()` -/
def invSubBytes (s : Bytes) : Bytes := s.map invSubByte

/-! ### §5.1.2 ShiftRows and §5.3.1 InvShiftRows
    The pattern variables are named `s<row><column>`; the state is listed column by column. -/

/-- §5.1.2 `ShiftRows()`: `s'[r, c] = s[r, (c + r) mod 4]`.  (Identity unless `s.length = 16`.) -/
def shiftRows : Bytes → Bytes
  | [s00, s10, s20, s30,  s01, s11, s21, s31,  s02, s12, s22, s32,  s03, s13, s23, s33] =>
    [s00, s11, s22, s33,  s01, s12, s23, s30,  s02, s13, s20, s31,  s03, s10, s21, s32]
  | s => s

/-- §5.3.1 `InvShiftRows()`: `s'[r, (c + r) mod 4] = s[r, c]`.  (Identity unless `s.length = 16`.) -/
def invShiftRows : Bytes → Bytes
  | [s00, s10, s20, s30,  s01, s11, s21, s31,  s02, s12, s22, s32,  s03, s13, s23, s33] =>
    [s00, s13, s22, s31,  s01, s10, s23, s32,  s02, s11, s20, s33,  s03, s12, s21, s30]
  | s => s

/-! ### §5.1.3 MixColumns and §5.3.3 InvMixColumns
    The six constant multiplications are written with `xtime` as §4.2.1 prescribes ("multiplication by
    higher powers of x can be implemented by repeated application of xtime"); `SpecTestsAes` checks
    `mulNN a = gmul 0xNN a` for all 256 values of `a`. -/

def mul02 (a : UInt8) : UInt8 := xtime a
def mul03 (a : UInt8) : UInt8 := xtime a ^^^ a
def mul09 (a : UInt8) : UInt8 := xtime (xtime (xtime a)) ^^^ a
def mul0b (a : UInt8) : UInt8 := xtime (xtime (xtime a)) ^^^ xtime a ^^^ a
def mul0d (a : UInt8) : UInt8 := xtime (xtime (xtime a)) ^^^ xtime (xtime a) ^^^ a
def mul0e (a : UInt8) : UInt8 := xtime (xtime (xtime a)) ^^^ xtime (xtime a) ^^^ xtime a

/-- §5.1.3 `MixColumns()`, equation (5.6) of the 2001 text, column by column.  (A ragged tail of fewer than four
    bytes is dropped; the length is preserved when it is a multiple of 4.) -/
def mixColumns : Bytes → Bytes
  | s0 :: s1 :: s2 :: s3 :: rest =>
    (mul02 s0 ^^^ mul03 s1 ^^^ s2 ^^^ s3) ::
    (s0 ^^^ mul02 s1 ^^^ mul03 s2 ^^^ s3) ::
    (s0 ^^^ s1 ^^^ mul02 s2 ^^^ mul03 s3) ::
    (mul03 s0 ^^^ s1 ^^^ s2 ^^^ mul02 s3) :: mixColumns rest
  | _ => []

/-- §5.3.3 `InvMixColumns()`, equation (5.10) of the 2001 text, column by column. -/
def invMixColumns : Bytes → Bytes
  | s0 :: s1 :: s2 :: s3 :: rest =>
    (mul0e s0 ^^^ mul0b s1 ^^^ mul0d s2 ^^^ mul09 s3) ::
    (mul09 s0 ^^^ mul0e s1 ^^^ mul0b s2 ^^^ mul0d s3) ::
    (mul0d s0 ^^^ mul09 s1 ^^^ mul0e s2 ^^^ mul0b s3) ::
    (mul0b s0 ^^^ mul0d s1 ^^^ mul09 s2 ^^^ mul0e s3) :: invMixColumns rest
  | _ => []

/-- §5.1.4 `AddRoundKey()`; it is its own inverse (§5.3.4). -/
def addRoundKey (s k : Bytes) : Bytes := xorBytes s k

/-! ### §5.2 KeyExpansion
    Words are `UInt32`, big-endian: the word `[a0, a1, a2, a3]` of the standard is `be32 a0 a1 a2 a3`. -/

/-- `Nr` as a function of the key length *in bytes*: `Nr = Nk + 6` (Figure 4 / Table 3): 10, 12, 14. -/
def rounds (keyLen : Nat) : Nat := keyLen / 4 + 6

/-- `SubWord()` -/
def subWord (w : UInt32) : UInt32 :=
  be32 (subByte (w >>> 24).toUInt8) (subByte (w >>> 16).toUInt8) (subByte (w >>> 8).toUInt8)
    (subByte w.toUInt8)

/-- `RotWord()`: `[a0, a1, a2, a3] ↦ [a1, a2, a3, a0]` -/
def rotWord (w : UInt32) : UInt32 := rotl32 w 8

/-- `x^n` in GF(2⁸) -/
def xpow : Nat → UInt8
  | 0 => 1
  | n+1 => xtime (xpow n)

/-- `Rcon[j] = [x^(j-1), {00}, {00}, {00}]`, `j ≥ 1` -/
def rcon (j : Nat) : UInt32 := (xpow (j - 1)).toUInt32 <<< 24

/-- One step of the `while (i < Nb * (Nr+1))` loop of Figure 11 (Algorithm 2): given `w[0..i)` append `w[i]`. -/
def expandStep (nk : Nat) (w : Array UInt32) (i : Nat) : Array UInt32 :=
  let temp := w[i - 1]!
  let temp :=
    if i % nk = 0 then subWord (rotWord temp) ^^^ rcon (i / nk)
    else if nk > 6 ∧ i % nk = 4 then subWord temp
    else temp
  w.push (w[i - nk]! ^^^ temp)

/-- The expanded key `w[0 .. 4·(Nr+1))` of Figure 11 for a key of `4·Nk` bytes. -/
def expandWords (key : Bytes) : Array UInt32 :=
  let nk := key.length / 4
  (List.range' nk (4 * (rounds key.length + 1) - nk)).foldl (expandStep nk) (wordsBE32 key).toArray

/-- §5.2 `KeyExpansion()`: the `Nr + 1` round keys (11 / 13 / 15 for a key of 16 / 24 / 32 bytes), round key
    `r` being the words `w[4r .. 4r+3]`.  (Unspecified for other key lengths.) -/
def keyExpansion (key : Bytes) : List Bytes :=
  chunks 16 ((expandWords key).toList.flatMap bytesBE32)

/-! ### §5.1 Cipher -/

/-- Rounds `1 … Nr` of Figure 5 (Algorithm 1), given the round keys `1 … Nr`: the last round has no
    `MixColumns`. -/
def cipherRounds : List Bytes → Bytes → Bytes
  | [], s => s
  | [kNr], s => addRoundKey (shiftRows (subBytes s)) kNr
  | k :: ks, s => cipherRounds ks (addRoundKey (mixColumns (shiftRows (subBytes s))) k)

/-- §5.1 `Cipher(in, Nr, w)` with `w` given as the list of round keys (`keyExpansion key`). -/
def cipher (rks : List Bytes) (block : Bytes) : Bytes :=
  match rks with
  | [] => block
  | k0 :: ks => cipherRounds ks (addRoundKey block k0)

/-- AES encryption of one 16-byte block under a raw 16/24/32-byte key. -/
def encryptBlock (key block : Bytes) : Bytes := cipher (keyExpansion key) block

/-! ### §5.3 Inverse cipher -/

/-- Rounds `Nr-1 … 0` of Figure 12 (Algorithm 3), given round keys `Nr-1, …, 0` (in that order). -/
def invCipherRounds : List Bytes → Bytes → Bytes
  | [], s => s
  | [k0], s => addRoundKey (invSubBytes (invShiftRows s)) k0
  | k :: ks, s => invCipherRounds ks (invMixColumns (addRoundKey (invSubBytes (invShiftRows s)) k))

/-- §5.3 `InvCipher(in, Nr, w)`: the straightforward inverse, taking the *encryption* key schedule
    (`keyExpansion key`) and walking it backwards. -/
def invCipher (rks : List Bytes) (block : Bytes) : Bytes :=
  match rks.reverse with
  | [] => block
  | kNr :: ks => invCipherRounds ks (addRoundKey block kNr)

/-- `f` applied to all elements but the last. -/
def mapButLast {α : Type} (f : α → α) : List α → List α
  | [] => []
  | [x] => [x]
  | x :: xs => f x :: mapButLast f xs

/-- §5.3.5, `KeyExpansionEIC()` (Algorithm 5 in upd1; the "dw" modification below Figure 15 in the
    2001 text): the schedule of the equivalent inverse cipher, *listed in the order it is consumed* —
    `[w_Nr, InvMixColumns w_(Nr-1), …, InvMixColumns w_1, w_0]`.  This is also the layout of the
    decryption schedules produced by the library under test (`aesimc` of the reversed keys). -/
def decSchedule (rks : List Bytes) : List Bytes :=
  match rks.reverse with
  | [] => []
  | kNr :: ks => kNr :: mapButLast invMixColumns ks

/-- Rounds `Nr-1 … 0` of Figure 15 (Algorithm 4), given the modified round keys in consumption order. -/
def eqInvCipherRounds : List Bytes → Bytes → Bytes
  | [], s => s
  | [k0], s => addRoundKey (invShiftRows (invSubBytes s)) k0
  | k :: ks, s => eqInvCipherRounds ks (addRoundKey (invMixColumns (invShiftRows (invSubBytes s))) k)

/-- §5.3.5 `EqInvCipher(in, Nr, dw)` with `dw` given as `decSchedule (keyExpansion key)`. -/
def eqInvCipher (dks : List Bytes) (block : Bytes) : Bytes :=
  match dks with
  | [] => block
  | kNr :: ks => eqInvCipherRounds ks (addRoundKey block kNr)

/-- AES decryption of one 16-byte block under a raw 16/24/32-byte key. -/
def decryptBlock (key block : Bytes) : Bytes := invCipher (keyExpansion key) block

end IsalVerif.Aes
