import IsalVerif.Spec.Aes
/-! AES-CBC, NIST SP 800-38A §6.2.  The data length is a multiple of 16 bytes (a ragged tail is
    ignored); padding is the caller's business, as in the library under test. -/
namespace IsalVerif.Cbc
open Aes

/-- §6.2 CBC encryption: `C₁ = CIPH_K(P₁ ⊕ IV)`, `C_j = CIPH_K(P_j ⊕ C_{j-1})`.
    `scanl` yields `[IV, C₁, …, C_n]`. -/
def cbcEnc (rks : List Bytes) (iv pt : Bytes) : Bytes :=
  ((chunks 16 pt).scanl (fun prev p => cipher rks (xorBytes p prev)) iv).tail.flatten

/-- §6.2 CBC decryption with block inverse `inv`: `P₁ = inv(C₁) ⊕ IV`, `P_j = inv(C_j) ⊕ C_{j-1}`. -/
def cbcDecWith (inv : Bytes → Bytes) (iv ct : Bytes) : Bytes :=
  let cs := chunks 16 ct
  (List.zipWith (fun c prev => xorBytes (inv c) prev) cs (iv :: cs)).flatten

/-- CBC decryption through `InvCipher` (FIPS 197 §5.3), `rks` the *encryption* schedule. -/
def cbcDec (rks : List Bytes) (iv ct : Bytes) : Bytes := cbcDecWith (invCipher rks) iv ct

/-- CBC decryption through `EqInvCipher` (FIPS 197 §5.3.5), `dks = decSchedule rks`. -/
def cbcDecEq (dks : List Bytes) (iv ct : Bytes) : Bytes := cbcDecWith (eqInvCipher dks) iv ct

end IsalVerif.Cbc
