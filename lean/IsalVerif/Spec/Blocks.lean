import IsalVerif.Spec.Bits
/-! List helpers shared by the block-cipher modes (`Gcm`, `Xts`, `Cbc`): bytewise XOR, cutting a byte string
    into 16-byte blocks, and the sequence `a, f a, f (f a), …` used for counter blocks and XTS tweaks.

    The definitions are the obvious structural recursions (these are what proofs unfold).  Because the
    compiled oracle is run on megabyte inputs, the two non-tail-recursive ones (`blocks` from `Bits` and
    `iterate`) are given array-accumulating implementations through proved `@[csimp]` equations, exactly
    as core Lean does for `List.map` & co.; nothing here is `implemented_by` or `unsafe`. -/
namespace IsalVerif

/-- Bytewise XOR.  The result has the length of the shorter argument, which is how the standards'
    `X ⊕ MSB_len(X)(Y)` (SP 800-38D §6.5 step 7) is obtained: `xorBytes x y` with `x` the short one. -/
def xorBytes (x y : Bytes) : Bytes := List.zipWith (· ^^^ ·) x y

/-- `x = X₁ ‖ X₂ ‖ … ‖ Xₙ*`: all 16-byte blocks of `x` in order; the last one is the ragged remainder when
    the length is not a multiple of 16 (SP 800-38D §6.5 step 3). -/
def blocks16 (x : Bytes) : List Bytes := blocks 16 ((x.length + 15) / 16) x

/-- `x ‖ 0^s` with `s` minimal such that the length is a multiple of 16 (SP 800-38D §7.1 steps 4-5). -/
def pad16 (x : Bytes) : Bytes := x ++ List.replicate ((16 - x.length % 16) % 16) 0

/-- `iterate f a n = [a, f a, f (f a), …]`, `n` elements. -/
def iterate {α : Type} (f : α → α) : α → Nat → List α
  | _, 0 => []
  | a, n+1 => a :: iterate f (f a) n

/-! ### Tail-recursive implementations for the compiler -/

/-- compiler implementation of `iterate` -/
def iterateTR {α : Type} (f : α → α) (a : α) (n : Nat) : List α := go a n #[]
where
  go : α → Nat → Array α → List α
    | _, 0, acc => acc.toList
    | a, n+1, acc => go (f a) n (acc.push a)

theorem iterateTR_go {α : Type} (f : α → α) (a : α) (n : Nat) (acc : Array α) :
    iterateTR.go f a n acc = acc.toList ++ iterate f a n := by
  induction n generalizing a acc with
  | zero => simp [iterateTR.go, iterate]
  | succ n ih => simp [iterateTR.go, iterate, ih]

@[csimp] theorem iterate_eq_iterateTR : @iterate = @iterateTR := by
  funext α f a n; simp [iterateTR, iterateTR_go]

/-- compiler implementation of `blocks` -/
def blocksTR {α : Type} (B n : Nat) (l : List α) : List (List α) := go n l #[]
where
  go : Nat → List α → Array (List α) → List (List α)
    | 0, _, acc => acc.toList
    | n+1, l, acc => go n (l.drop B) (acc.push (l.take B))

theorem blocksTR_go {α : Type} (B n : Nat) (l : List α) (acc : Array (List α)) :
    blocksTR.go B n l acc = acc.toList ++ blocks B n l := by
  induction n generalizing l acc with
  | zero => simp [blocksTR.go, blocks]
  | succ n ih => simp [blocksTR.go, blocks, ih]

@[csimp] theorem blocks_eq_blocksTR : @blocks = @blocksTR := by
  funext α B n l; simp [blocksTR, blocksTR_go]

end IsalVerif
