import IsalVerif.Spec.MD
/-! SHA-256, FIPS 180-4 §4.1.2, §4.2.2, §5.3.3, §6.2. -/
namespace IsalVerif.Sha256

def K : Array UInt32 := #[
  0x428a2f98,0x71374491,0xb5c0fbcf,0xe9b5dba5,0x3956c25b,0x59f111f1,0x923f82a4,0xab1c5ed5,
  0xd807aa98,0x12835b01,0x243185be,0x550c7dc3,0x72be5d74,0x80deb1fe,0x9bdc06a7,0xc19bf174,
  0xe49b69c1,0xefbe4786,0x0fc19dc6,0x240ca1cc,0x2de92c6f,0x4a7484aa,0x5cb0a9dc,0x76f988da,
  0x983e5152,0xa831c66d,0xb00327c8,0xbf597fc7,0xc6e00bf3,0xd5a79147,0x06ca6351,0x14292967,
  0x27b70a85,0x2e1b2138,0x4d2c6dfc,0x53380d13,0x650a7354,0x766a0abb,0x81c2c92e,0x92722c85,
  0xa2bfe8a1,0xa81a664b,0xc24b8b70,0xc76c51a3,0xd192e819,0xd6990624,0xf40e3585,0x106aa070,
  0x19a4c116,0x1e376c08,0x2748774c,0x34b0bcb5,0x391c0cb3,0x4ed8aa4a,0x5b9cca4f,0x682e6ff3,
  0x748f82ee,0x78a5636f,0x84c87814,0x8cc70208,0x90befffa,0xa4506ceb,0xbef9a3f7,0xc67178f2]

def init : Array UInt32 :=
  #[0x6a09e667,0xbb67ae85,0x3c6ef372,0xa54ff53a,0x510e527f,0x9b05688c,0x1f83d9ab,0x5be0cd19]

@[inline] def ch (x y z : UInt32) : UInt32 := (x &&& y) ^^^ (~~~x &&& z)
@[inline] def maj (x y z : UInt32) : UInt32 := (x &&& y) ^^^ (x &&& z) ^^^ (y &&& z)
@[inline] def bsig0 (x : UInt32) := rotr32 x 2 ^^^ rotr32 x 13 ^^^ rotr32 x 22
@[inline] def bsig1 (x : UInt32) := rotr32 x 6 ^^^ rotr32 x 11 ^^^ rotr32 x 25
@[inline] def ssig0 (x : UInt32) := rotr32 x 7 ^^^ rotr32 x 18 ^^^ (x >>> 3)
@[inline] def ssig1 (x : UInt32) := rotr32 x 17 ^^^ rotr32 x 19 ^^^ (x >>> 10)

def schedule (block : Bytes) : Array UInt32 := Id.run do
  let mut w : Array UInt32 := (wordsBE32 block).toArray
  for t in [16:64] do
    w := w.push (ssig1 w[t-2]! + w[t-7]! + ssig0 w[t-15]! + w[t-16]!)
  return w

def compress (h : Array UInt32) (block : Bytes) : Array UInt32 := Id.run do
  let w := schedule block
  let mut a := h[0]!; let mut b := h[1]!; let mut c := h[2]!; let mut d := h[3]!
  let mut e := h[4]!; let mut f := h[5]!; let mut g := h[6]!; let mut hh := h[7]!
  for t in [0:64] do
    let t1 := hh + bsig1 e + ch e f g + K[t]! + w[t]!
    let t2 := bsig0 a + maj a b c
    hh := g; g := f; f := e; e := d + t1; d := c; c := b; b := a; a := t1 + t2
  return #[h[0]! + a, h[1]! + b, h[2]! + c, h[3]! + d, h[4]! + e, h[5]! + f, h[6]! + g, h[7]! + hh]

def alg : HashAlg :=
  { S := Array UInt32, init := init, B := 64, L := 8, lenBE := true, compress := compress,
    out := fun s => s.toList.flatMap bytesBE32 }

end IsalVerif.Sha256
