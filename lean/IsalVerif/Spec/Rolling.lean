import IsalVerif.Spec.Bits
import IsalVerif.Spec.RollingTable
/-!
# Rolling hash (`rolling_hash2`): the definition property C09 is stated against

The hash of a window of `w` bytes `b₀ … b_{w-1}` (`b₀` oldest) is

    H(b₀ … b_{w-1}) = ⊕ᵢ rol64(T[bᵢ], w-1-i)

where `T` is the library's constant 256-entry table (`Spec.rollingTable`, fractional digits of π)
and `rol64` rotates a 64-bit word left.  It is a function of those `w` bytes alone.  A stream
position `k` (= number of stream bytes consumed, `k ≥ 1`) is a *hit* when the hash of the last
`w` bytes seen — bytes before the stream come from `reset` / earlier calls — satisfies
`(H &&& mask) = trigger`.  `firstHit` is the least hit position of a piece of data,
`boundaries` the list of all hit positions of a stream.

Conventions checked against the code (`rolling_hash2.c`):
* rotation is to the LEFT, by one bit per byte that entered after `bᵢ`
  (`hash = (hash << 1) | (hash >> 63); hash ^= table1[in]`), so the newest byte is unrotated and
  the oldest is rotated by `w-1`; the byte leaving the window has been rotated `w` times in total,
  hence `table2[b] = rol64(table1[b], w)` in `rolling_hash2_init`;
* positions count consumed bytes: the test is made *after* a byte has been absorbed, so a call
  never reports offset 0 with HIT, and the window tested at position `k` ends with byte `k-1`.
-/
namespace IsalVerif.Spec.Rolling

/-- 64-bit rotate left by `r` (any `r`; taken mod 64). -/
def rol64 (x : UInt64) (r : Nat) : UInt64 := ⟨x.toBitVec.rotateLeft r⟩

/-- Table lookup `table1[b]`. -/
def tableAt (b : UInt8) : UInt64 := rollingTable.getD b.toNat 0

theorem rollingTable_size : rollingTable.size = 256 := by decide +kernel

/-- `windowHash T [b₀, …, b_{n-1}] = ⊕ᵢ rol64 (T bᵢ) (n-1-i)`, for an arbitrary byte table `T`. -/
def windowHash (T : UInt8 → UInt64) : Bytes → UInt64
  | [] => 0
  | b :: bs => rol64 (T b) bs.length ^^^ windowHash T bs

/-- The rolling hash of a window: `windowHash` with the library's table. -/
def H : Bytes → UInt64 := windowHash tableAt

/-- The last `w` elements of a list (the whole list if it is shorter). -/
def lastN {α : Type} (w : Nat) (l : List α) : List α := l.drop (l.length - w)

/-- The trigger test of the library: `(hash & mask) == trigger` with the 32-bit mask and trigger
zero-extended to 64 bits. -/
def test (mask trigger : UInt32) (h : UInt64) : Bool := (h &&& mask.toUInt64) == trigger.toUInt64

/-- `hitAt w mask trigger pre data k`: after the first `k` bytes of `data` (preceded by `pre`)
the hash of the last `w` bytes passes the trigger test. -/
def hitAt (w : Nat) (mask trigger : UInt32) (pre data : Bytes) (k : Nat) : Bool :=
  test mask trigger (H (lastN w (pre ++ data.take k)))

/-- Least position `k ∈ [1, |data|]` that is a hit, if any. -/
def firstHit (w : Nat) (mask trigger : UInt32) (pre data : Bytes) : Option Nat :=
  (List.range' 1 data.length).find? (hitAt w mask trigger pre data)

/-- All hit positions `k ∈ [1, |stream|]` of a stream, increasing: the chunk boundaries. -/
def boundaries (w : Nat) (mask trigger : UInt32) (pre stream : Bytes) : List Nat :=
  (List.range' 1 stream.length).filter (hitAt w mask trigger pre stream)

/-! ### Sanity values (pure definition, no implementation involved) -/

-- one byte, window 1: the table entry itself
example : H [0] = 0x243F6A8885A308D3 := by decide +kernel
-- two bytes: the older one is rotated once
example : H [0, 1] = rol64 0x243F6A8885A308D3 1 ^^^ 0x13198A2E03707344 := by decide +kernel
example : H [0, 1] = 0x5B675F3F083662E2 := by decide +kernel
-- rotation is to the left and cyclic
example : rol64 0x8000000000000001 1 = 0x0000000000000003 := by decide +kernel
example : lastN 2 [1, 2, 3] = [2, 3] := by decide +kernel
-- a stream in which position 2 is the only hit for mask 3 / trigger 2 with window 2
example : boundaries 2 3 2 [7, 7] [0, 1, 2] = [2] := by decide +kernel
example : firstHit 2 3 2 [7, 7] [0, 1, 2] = some 2 := by decide +kernel
example : firstHit 2 3 3 [7, 7] [0, 1, 2] = none := by decide +kernel

end IsalVerif.Spec.Rolling
