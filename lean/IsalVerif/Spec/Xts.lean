import IsalVerif.Spec.Aes
/-! XTS-AES, IEEE Std 1619-2007 §5 (also NIST SP 800-38E).

    Conventions fixed here:
    * `k1` is the *data* key (`Key₁`) and `k2` the *tweak* key (`Key₂`), each 16 bytes (XTS-AES-128) or
      32 bytes (XTS-AES-256); the functions take them in the library's argument order `k2 k1`.
    * `tweak` is the 16-byte tweak value `i` exactly as it is fed to AES (the standard's "first the
      tweak is converted into a little-endian byte array"): `T₀ = AES-enc(Key₂, tweak)`.
    * The data is a byte string of at least 16 bytes; bit-granular lengths are not modelled.  For
      fewer than 16 bytes the standard defines nothing and these functions return `[]`. -/
namespace IsalVerif.Xts
open Aes

/-- §5.2: multiplication of the tweak by the primitive element `α` (= `x`) of GF(2¹²⁸) modulo
    `x¹²⁸ + x⁷ + x² + x + 1`.  The 16 bytes are a *little-endian* number: byte 0 is the least
    significant, so bit 7 of byte `k` carries into bit 0 of byte `k+1`, and the carry out of byte 15
    is reduced by XOR-ing `0x87` into byte 0. -/
def mulAlpha (t : Bytes) : Bytes :=
  match wordsLE64 t with
  | [lo, hi] =>
    let lo' := (lo <<< 1) ^^^ (if hi >>> 63 ≠ 0 then 0x87 else 0)
    let hi' := (hi <<< 1) ||| (lo >>> 63)
    bytesLE64 lo' ++ bytesLE64 hi'
  | _ => t

/-- §5.3.1 / §5.4.1, one block under tweak `T` with block function `f` (`AES-enc` or `AES-dec` under
    `Key₁`): `PP = P ⊕ T`, `CC = f(PP)`, `C = CC ⊕ T`. -/
def xtsBlock (f : Bytes → Bytes) (t x : Bytes) : Bytes := xorBytes (f (xorBytes x t)) t

/-- §5.3.2 `XTS-AES-Enc` (`dec = false`) and §5.4.2 `XTS-AES-Dec` (`dec = true`) on a data unit `x`,
    given the block function `f` under `Key₁` and `t0 = T₀`.

    With `m = ⌊len/16⌋` and `b = len mod 16`, the tweaks are `T_j = T₀ ⊗ α^j`, `j = 0 … m`.
    * `b = 0`: every block `j < m` is processed under `T_j`.
    * `b > 0` (ciphertext stealing): blocks `j < m-1` as above; then, with `X_{m-1}` the last full
      block and `X_m` the `b`-byte remainder,
        `YY = f(T_A, X_{m-1})`, `Y_m = first b bytes of YY`, `Y_{m-1} = f(T_B, X_m ‖ rest of YY)`,
      where `(T_A, T_B) = (T_{m-1}, T_m)` for encryption and `(T_m, T_{m-1})` for decryption (§5.4.2:
      the last two tweaks are used in swapped order). -/
def xtsCrypt (f : Bytes → Bytes) (dec : Bool) (t0 x : Bytes) : Bytes :=
  let m := x.length / 16
  let b := x.length % 16
  if m = 0 then []
  else
    let ts := iterate mulAlpha t0 (m + 1)
    if b = 0 then
      (List.zipWith (xtsBlock f) ts (blocks 16 m x)).flatten
    else
      let body := (List.zipWith (xtsBlock f) ts (blocks 16 (m - 1) x)).flatten
      let xm1 := (x.drop (16 * (m - 1))).take 16
      let xm := x.drop (16 * m)
      match ts.drop (m - 1) with
      | [tm1, tm] =>
        let (tA, tB) := if dec then (tm, tm1) else (tm1, tm)
        let yy := xtsBlock f tA xm1
        let ym1 := xtsBlock f tB (xm ++ yy.drop b)
        body ++ ym1 ++ yy.take b
      | _ => []   -- unreachable: `ts` has `m + 1` elements

/-- XTS-AES encryption with already expanded keys: `k2rks`, `k1rks` are the *encryption* schedules
    (`keyExpansion`) of the tweak key and of the data key. -/
def xtsEncExp (k2rks k1rks : List Bytes) (tweak pt : Bytes) : Bytes :=
  xtsCrypt (cipher k1rks) false (cipher k2rks tweak) pt

/-- XTS-AES decryption with already expanded keys: `k2rks` is the *encryption* schedule of the tweak
    key, `k1dks` the *decryption* schedule (`decSchedule (keyExpansion k1)`) of the data key, used with
    the equivalent inverse cipher. -/
def xtsDecExp (k2rks k1dks : List Bytes) (tweak ct : Bytes) : Bytes :=
  xtsCrypt (eqInvCipher k1dks) true (cipher k2rks tweak) ct

/-- §5.3.2 `XTS-AES-Enc(Key, P, i)` with `Key = k1 ‖ k2`. -/
def xtsEnc (k2 k1 tweak pt : Bytes) : Bytes :=
  xtsEncExp (keyExpansion k2) (keyExpansion k1) tweak pt

/-- §5.4.2 `XTS-AES-Dec(Key, C, i)` with `Key = k1 ‖ k2`; the data key is used through the
    straightforward inverse cipher of FIPS 197 §5.3. -/
def xtsDec (k2 k1 tweak ct : Bytes) : Bytes :=
  xtsCrypt (invCipher (keyExpansion k1)) true (encryptBlock k2 tweak) ct

end IsalVerif.Xts
