import IsalVerif.Spec.Aes
import IsalVerif.Spec.Gf128
/-! AES-GCM, NIST SP 800-38D, restricted to 96-bit IVs (the only IV length the library under test
    accepts).  All lengths in this file are in *bytes*. -/
namespace IsalVerif.Gcm
open Aes Gf128

/-- §6.2 `inc₃₂(X)`: the last four bytes of the 16-byte block, read big-endian, are incremented mod 2³². -/
def inc32 (x : Bytes) : Bytes :=
  x.take 12 ++ bytesBE32 ((be64 ((x.drop 12).take 4)).toUInt32 + 1)

/-- §6.5 Algorithm 3 `GCTR_K(ICB, X)` with `K` given by its key schedule; `X` of any length.
    `CB₁ = ICB`, `CB_i = inc₃₂(CB_{i-1})`, `Y_i = X_i ⊕ CIPH_K(CB_i)`, and the last, possibly partial,
    block is `X_n* ⊕ MSB_len(X_n*)(CIPH_K(CB_n))` (`xorBytes` truncates to its first argument here). -/
def gctr (rks : List Bytes) (icb : Bytes) (x : Bytes) : Bytes :=
  let xs := blocks16 x
  let cbs := iterate inc32 icb xs.length
  (List.zipWith (fun xi cb => xorBytes xi (cipher rks cb)) xs cbs).flatten

/-- `[len(A)]₆₄ ‖ [len(C)]₆₄`, lengths in bits (§7.1 step 5). -/
def lenBlock (aadLen ctLen : Nat) : Bytes :=
  bytesBE64 (UInt64.ofNat (8 * aadLen)) ++ bytesBE64 (UInt64.ofNat (8 * ctLen))

/-- §7.1 step 2 for `len(IV) = 96`: `J₀ = IV ‖ 0³¹ ‖ 1`. -/
def j0 (iv : Bytes) : Bytes := iv ++ [0, 0, 0, 1]

/-- §7.1 step 1: the hash subkey `H = CIPH_K(0¹²⁸)`. -/
def hashKey (rks : List Bytes) : Bytes := cipher rks (List.replicate 16 0)

/-- §7.1 steps 4-6 / §7.2 steps 5-7 (they are the same computation on `A` and `C`):
    `T = MSB_t(GCTR_K(J₀, GHASH_H(A ‖ 0^v ‖ C ‖ 0^u ‖ [len(A)]₆₄ ‖ [len(C)]₆₄)))`, `t = 8·tagLen`. -/
def tag (rks : List Bytes) (iv aad ct : Bytes) (tagLen : Nat) : Bytes :=
  let s := ghash (hashKey rks) (pad16 aad ++ pad16 ct ++ lenBlock aad.length ct.length)
  (gctr rks (j0 iv) s).take tagLen

/-- `gcmEnc`/`gcmDec` on an expanded key. -/
def gcmEncExp (rks : List Bytes) (iv aad pt : Bytes) (tagLen : Nat) : Bytes × Bytes :=
  let ct := gctr rks (inc32 (j0 iv)) pt
  (ct, tag rks iv aad ct tagLen)

def gcmDecExp (rks : List Bytes) (iv aad ct : Bytes) (tagLen : Nat) : Bytes × Bytes :=
  (gctr rks (inc32 (j0 iv)) ct, tag rks iv aad ct tagLen)

/-- §7.1 Algorithm 4 `GCM-AE_K(IV, P, A)` = (`C`, `T`), for a 12-byte `iv`; `tagLen` is the tag length
    in bytes (the tag is the first `tagLen` bytes of the full 16-byte tag). -/
def gcmEnc (key iv aad pt : Bytes) (tagLen : Nat) : Bytes × Bytes :=
  gcmEncExp (keyExpansion key) iv aad pt tagLen

/-- §7.2 Algorithm 5 `GCM-AD_K(IV, C, A, T)` *without the final comparison* (step 8): returns the
    plaintext and the tag `T'` computed from `(IV, A, C)`.  The library under test does the same and
    leaves `T = T'` to the caller. -/
def gcmDec (key iv aad ct : Bytes) (tagLen : Nat) : Bytes × Bytes :=
  gcmDecExp (keyExpansion key) iv aad ct tagLen

end IsalVerif.Gcm
