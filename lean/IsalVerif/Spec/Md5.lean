import IsalVerif.Spec.MD
/-! MD5, RFC 1321. -/
namespace IsalVerif.Md5

def init : Array UInt32 := #[0x67452301,0xefcdab89,0x98badcfe,0x10325476]

def T : Array UInt32 := #[
  0xd76aa478,0xe8c7b756,0x242070db,0xc1bdceee,0xf57c0faf,0x4787c62a,0xa8304613,0xfd469501,
  0x698098d8,0x8b44f7af,0xffff5bb1,0x895cd7be,0x6b901122,0xfd987193,0xa679438e,0x49b40821,
  0xf61e2562,0xc040b340,0x265e5a51,0xe9b6c7aa,0xd62f105d,0x02441453,0xd8a1e681,0xe7d3fbc8,
  0x21e1cde6,0xc33707d6,0xf4d50d87,0x455a14ed,0xa9e3e905,0xfcefa3f8,0x676f02d9,0x8d2a4c8a,
  0xfffa3942,0x8771f681,0x6d9d6122,0xfde5380c,0xa4beea44,0x4bdecfa9,0xf6bb4b60,0xbebfbc70,
  0x289b7ec6,0xeaa127fa,0xd4ef3085,0x04881d05,0xd9d4d039,0xe6db99e5,0x1fa27cf8,0xc4ac5665,
  0xf4292244,0x432aff97,0xab9423a7,0xfc93a039,0x655b59c3,0x8f0ccc92,0xffeff47d,0x85845dd1,
  0x6fa87e4f,0xfe2ce6e0,0xa3014314,0x4e0811a1,0xf7537e82,0xbd3af235,0x2ad7d2bb,0xeb86d391]

def S : Array UInt32 := #[
  7,12,17,22,7,12,17,22,7,12,17,22,7,12,17,22,
  5,9,14,20,5,9,14,20,5,9,14,20,5,9,14,20,
  4,11,16,23,4,11,16,23,4,11,16,23,4,11,16,23,
  6,10,15,21,6,10,15,21,6,10,15,21,6,10,15,21]

def compress (h : Array UInt32) (block : Bytes) : Array UInt32 := Id.run do
  let x := (wordsLE32 block).toArray
  let mut a := h[0]!; let mut b := h[1]!; let mut c := h[2]!; let mut d := h[3]!
  for i in [0:64] do
    let (fv, g) :=
      if i < 16 then ((b &&& c) ||| (~~~b &&& d), i)
      else if i < 32 then ((d &&& b) ||| (~~~d &&& c), (5*i + 1) % 16)
      else if i < 48 then (b ^^^ c ^^^ d, (3*i + 5) % 16)
      else (c ^^^ (b ||| ~~~d), (7*i) % 16)
    let fv := fv + a + T[i]! + x[g]!
    a := d; d := c; c := b
    b := b + rotl32 fv S[i]!
  return #[h[0]! + a, h[1]! + b, h[2]! + c, h[3]! + d]

def alg : HashAlg :=
  { S := Array UInt32, init := init, B := 64, L := 8, lenBE := false, compress := compress,
    out := fun s => s.toList.flatMap bytesLE32 }

end IsalVerif.Md5
