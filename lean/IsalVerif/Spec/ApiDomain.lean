/-
  IsalVerif/Spec/ApiDomain.lean

  HAND-WRITTEN from the public headers of isa-l_crypto 2.25 (`/repo/include/*.h`): for each of the
  72 `isal_*` entry points

    * its class for the FIPS build (approved algorithm / non-approved algorithm / service),
    * its parameter names (an obligation checks them against the prototypes the translator saw, so
      the positional indices used below denote the intended parameters),
    * the documented argument domain, as a list of constraints `violated ↦ documented code`:
      required pointers, pointers required only when a length is non-zero, scalar ranges,
    * constraints that are documented but reported through the hash context (`flags`),
    * for XTS, the form in which each of the two keys arrives.

  Sources of the individual facts (the headers carry no per-parameter `@retval`; every entry says
  "@retval 0 on success, @retval Non-zero ISAL_CRYPTO_ERR on failure", and the error enum of
  isal_crypto_api.h documents which code belongs to which kind of argument):

    aes_gcm.h    "Authenticated Tag Length in bytes ... Valid values are 16 (most likely), 12 or 8";
                 `ISAL_GCM_MAX_LEN = 2^39 - 256 - 1`; AAD / data pointers are only meaningful with a
                 non-zero length.
    aes_cbc.h    "Input length. Must be a multiple of 16 bytes".
    aes_xts.h    `ISAL_AES_XTS_MIN_LEN 16`, `ISAL_AES_XTS_MAX_LEN (1 << 24)`; "expanded key used for
                 tweaking, 16*11 bytes - encryption key is used", "expanded decryption key used for
                 decryption of tweaked ciphertext"; decryption-schedule layout in the file comment
                 (Key[0] = last round encryption key ... Key[10] = initial encryption key).
    *_mb.h       "buffer: Pointer to buffer to be processed", "len: Length of buffer (in bytes)",
                 "flags: Input flag specifying job type (first, update, last or entire)".
                 A NULL `buffer` is not a buffer of `len > 0` bytes, so `buffer` is required whenever
                 `len ≠ 0` (this is also what the SM3 wrapper implements).  DEFECT F7: the SHA-1 /
                 SHA-256 / SHA-512 / MD5 wrappers test the flags instead of the length.
    rolling_hashx.h  "w Window width (1 <= w <= 32)" and `ISAL_FINGERPRINT_MAX_WINDOW 48` (the size
                 of `history[]`); the library, its tests and property C09 use 1..48, so the domain
                 encoded here is 1 ≤ w ≤ 48.  Every reading excludes 0.  DEFECT F15: w = 0 is
                 accepted.  ("init_bytes Optional window size buffer": NULL is refused with the
                 dedicated code ISAL_CRYPTO_ERR_NULL_INIT_VAL, which is what is encoded.)
-/
import IsalVerif.Impl.Wrapper

namespace IsalVerif.ApiDomain
open IsalVerif.Wrapper

/-- FIPS classification of an entry point. -/
inductive Class
  | approved      -- SHA-1/256/512 managers, AES key expansion, CBC, GCM, XTS
  | nonApproved   -- MD5, SM3, multi-hash, rolling hash
  | service       -- isal_self_tests, isal_crypto_get_version{,_str}
  deriving DecidableEq, Repr, Inhabited

/-- One documented constraint: when `violated` holds the call is outside the domain and the
    documented return code is `code`. -/
structure Constraint where
  violated : Cond
  code     : Code
  deriving Repr, Inhabited

/-- The form in which an XTS entry point receives a key. -/
inductive KeyForm
  | raw (blocks : Nat)        -- the key itself, `blocks` × 16 bytes
  | encSched (rounds : Nat)   -- encryption schedule, (rounds+1) × 16 bytes
  | decSched (rounds : Nat)   -- decryption schedule, (rounds+1) × 16 bytes
  deriving DecidableEq, Repr, Inhabited

structure ApiSpec where
  name           : String
  cls            : Class
  params         : List String
  /-- checked by the wrapper itself, before anything else happens -/
  constraints    : List Constraint
  /-- documented, but detected by the callee and reported through `ctx->error`
      (the wrapper then returns the mapped code; `*ctx_out` and `ctx_in->error` are written) -/
  calleeReported : List Constraint := []
  /-- XTS: (parameter, form) of the tweak key `k2` and of the data key `k1` -/
  xtsKeys        : Option ((Nat × KeyForm) × (Nat × KeyForm)) := none
  deriving Repr, Inhabited

/-! ### Constraint helpers -/

/-- pointer parameter `p` must not be NULL -/
def req (p : Nat) (code : Code) : Constraint := ⟨.isNull p, code⟩
/-- pointer parameter `p` must not be NULL when scalar parameter `len` is non-zero -/
def reqIfLen (p len : Nat) (code : Code) : Constraint :=
  ⟨.and (.isNull p) (.cmp .ne (.arg len) 0), code⟩
/-- scalar parameter `s` must be at most `k` -/
def atMost (s k : Nat) (code : Code) : Constraint := ⟨.cmp .gt (.arg s) k, code⟩
/-- scalar parameter `s` must be at least `k` -/
def atLeast (s k : Nat) (code : Code) : Constraint := ⟨.cmp .lt (.arg s) k, code⟩
/-- scalar parameter `s` must be a multiple of `k` -/
def multipleOf (s k : Nat) (code : Code) : Constraint := ⟨.cmp .ne (.mod (.arg s) k) 0, code⟩
/-- scalar parameter `s` must be one of `a`, `b`, `c` -/
def oneOf3 (s a b c : Nat) (code : Code) : Constraint :=
  ⟨.and (.and (.cmp .ne (.arg s) a) (.cmp .ne (.arg s) b)) (.cmp .ne (.arg s) c), code⟩

def GCM_MAX_LEN : Nat := 2 ^ 39 - 256 - 1
def XTS_MIN_LEN : Nat := 16
def XTS_MAX_LEN : Nat := 2 ^ 24
def MAX_WINDOW  : Nat := 48

/-! ### The families -/

/-- key_data, context_data, out, in, len, iv, aad, aad_len, auth_tag, auth_tag_len -/
def gcmOneShot (name : String) : ApiSpec :=
  { name, cls := .approved,
    params := ["key_data", "context_data", "out", "in", "len", "iv", "aad", "aad_len",
               "auth_tag", "auth_tag_len"],
    constraints := [
      req 0 ERR_NULL_EXP_KEY, req 1 ERR_NULL_CTX,
      reqIfLen 2 4 ERR_NULL_DST, reqIfLen 3 4 ERR_NULL_SRC,
      atMost 4 GCM_MAX_LEN ERR_CIPH_LEN,
      req 5 ERR_NULL_IV, reqIfLen 6 7 ERR_NULL_AAD, req 8 ERR_NULL_AUTH,
      oneOf3 9 16 12 8 ERR_AUTH_TAG_LEN] }

/-- key_data, context_data, iv, aad, aad_len -/
def gcmInit (name : String) : ApiSpec :=
  { name, cls := .approved, params := ["key_data", "context_data", "iv", "aad", "aad_len"],
    constraints := [req 0 ERR_NULL_EXP_KEY, req 1 ERR_NULL_CTX, req 2 ERR_NULL_IV,
                    reqIfLen 3 4 ERR_NULL_AAD] }

/-- key_data, context_data, out, in, len -/
def gcmUpdate (name : String) : ApiSpec :=
  { name, cls := .approved, params := ["key_data", "context_data", "out", "in", "len"],
    constraints := [req 0 ERR_NULL_EXP_KEY, req 1 ERR_NULL_CTX, reqIfLen 3 4 ERR_NULL_SRC,
                    reqIfLen 2 4 ERR_NULL_DST, atMost 4 GCM_MAX_LEN ERR_CIPH_LEN] }

/-- key_data, context_data, auth_tag, auth_tag_len -/
def gcmFinalize (name : String) : ApiSpec :=
  { name, cls := .approved, params := ["key_data", "context_data", "auth_tag", "auth_tag_len"],
    constraints := [req 0 ERR_NULL_EXP_KEY, req 1 ERR_NULL_CTX, req 2 ERR_NULL_AUTH,
                    oneOf3 3 16 12 8 ERR_AUTH_TAG_LEN] }

/-- key, key_data -/
def gcmPre (name : String) : ApiSpec :=
  { name, cls := .approved, params := ["key", "key_data"],
    constraints := [req 0 ERR_NULL_KEY, req 1 ERR_NULL_EXP_KEY] }

/-- in, iv, keys, out, len_bytes -/
def cbc (name : String) : ApiSpec :=
  { name, cls := .approved, params := ["in", "iv", "keys", "out", "len_bytes"],
    constraints := [req 2 ERR_NULL_EXP_KEY, req 0 ERR_NULL_SRC, req 3 ERR_NULL_DST, req 1 ERR_NULL_IV,
                    multipleOf 4 16 ERR_CIPH_LEN] }

/-- k2, k1, initial_tweak, len_bytes, in, out.  `k2` is the tweak key, `k1` the data key. -/
def xts (name : String) (keyCode : Code) (k2 k1 : KeyForm) : ApiSpec :=
  { name, cls := .approved, params := ["k2", "k1", "initial_tweak", "len_bytes", "in", "out"],
    constraints := [req 0 keyCode, req 1 keyCode, req 2 ERR_XTS_NULL_TWEAK, req 4 ERR_NULL_SRC,
                    req 5 ERR_NULL_DST, atLeast 3 XTS_MIN_LEN ERR_CIPH_LEN,
                    atMost 3 XTS_MAX_LEN ERR_CIPH_LEN],
    xtsKeys := some ((0, k2), (1, k1)) }

/-- key, exp_key_enc, exp_key_dec -/
def keyexp (name : String) : ApiSpec :=
  { name, cls := .approved, params := ["key", "exp_key_enc", "exp_key_dec"],
    constraints := [req 0 ERR_NULL_KEY, req 1 ERR_NULL_EXP_KEY, req 2 ERR_NULL_EXP_KEY] }

def mgrInit (name : String) (cls : Class) : ApiSpec :=
  { name, cls, params := ["mgr"], constraints := [req 0 ERR_NULL_MGR] }

/-- mgr, ctx_in, ctx_out, buffer, len, flags -/
def mgrSubmit (name : String) (cls : Class) : ApiSpec :=
  { name, cls, params := ["mgr", "ctx_in", "ctx_out", "buffer", "len", "flags"],
    constraints := [req 0 ERR_NULL_MGR, req 1 ERR_NULL_CTX, req 2 ERR_NULL_CTX,
                    reqIfLen 3 4 ERR_NULL_SRC],
    calleeReported := [atMost 5 3 ERR_INVALID_FLAGS] }

/-- mgr, ctx_out -/
def mgrFlush (name : String) (cls : Class) : ApiSpec :=
  { name, cls, params := ["mgr", "ctx_out"], constraints := [req 0 ERR_NULL_MGR, req 1 ERR_NULL_CTX] }

def mhInit (name : String) : ApiSpec :=
  { name, cls := .nonApproved, params := ["ctx"], constraints := [req 0 ERR_NULL_CTX] }
def mhUpdate (name : String) : ApiSpec :=
  { name, cls := .nonApproved, params := ["ctx", "buffer", "len"],
    constraints := [req 0 ERR_NULL_CTX, req 1 ERR_NULL_SRC] }

/-- The 72 entry points, in the order of the generated tables (source order). -/
def api : List ApiSpec := [
  gcmOneShot "isal_aes_gcm_enc_128", gcmOneShot "isal_aes_gcm_enc_256",
  gcmOneShot "isal_aes_gcm_dec_128", gcmOneShot "isal_aes_gcm_dec_256",
  gcmInit "isal_aes_gcm_init_128", gcmInit "isal_aes_gcm_init_256",
  gcmUpdate "isal_aes_gcm_enc_128_update", gcmUpdate "isal_aes_gcm_enc_256_update",
  gcmUpdate "isal_aes_gcm_dec_128_update", gcmUpdate "isal_aes_gcm_dec_256_update",
  gcmFinalize "isal_aes_gcm_enc_128_finalize", gcmFinalize "isal_aes_gcm_enc_256_finalize",
  gcmFinalize "isal_aes_gcm_dec_128_finalize", gcmFinalize "isal_aes_gcm_dec_256_finalize",
  gcmPre "isal_aes_gcm_pre_128", gcmPre "isal_aes_gcm_pre_256",
  gcmOneShot "isal_aes_gcm_enc_128_nt", gcmOneShot "isal_aes_gcm_enc_256_nt",
  gcmOneShot "isal_aes_gcm_dec_128_nt", gcmOneShot "isal_aes_gcm_dec_256_nt",
  gcmUpdate "isal_aes_gcm_enc_128_update_nt", gcmUpdate "isal_aes_gcm_enc_256_update_nt",
  gcmUpdate "isal_aes_gcm_dec_128_update_nt", gcmUpdate "isal_aes_gcm_dec_256_update_nt",
  cbc "isal_aes_cbc_enc_128", cbc "isal_aes_cbc_enc_192", cbc "isal_aes_cbc_enc_256",
  cbc "isal_aes_cbc_dec_128", cbc "isal_aes_cbc_dec_192", cbc "isal_aes_cbc_dec_256",
  xts "isal_aes_xts_enc_128" ERR_NULL_KEY (.raw 1) (.raw 1),
  xts "isal_aes_xts_enc_128_expanded_key" ERR_NULL_EXP_KEY (.encSched 10) (.encSched 10),
  xts "isal_aes_xts_dec_128" ERR_NULL_KEY (.raw 1) (.raw 1),
  xts "isal_aes_xts_dec_128_expanded_key" ERR_NULL_EXP_KEY (.encSched 10) (.decSched 10),
  xts "isal_aes_xts_enc_256" ERR_NULL_KEY (.raw 2) (.raw 2),
  xts "isal_aes_xts_enc_256_expanded_key" ERR_NULL_EXP_KEY (.encSched 14) (.encSched 14),
  xts "isal_aes_xts_dec_256" ERR_NULL_KEY (.raw 2) (.raw 2),
  xts "isal_aes_xts_dec_256_expanded_key" ERR_NULL_EXP_KEY (.encSched 14) (.decSched 14),
  keyexp "isal_aes_keyexp_128", keyexp "isal_aes_keyexp_192", keyexp "isal_aes_keyexp_256",
  mgrInit "isal_sha1_ctx_mgr_init" .approved, mgrSubmit "isal_sha1_ctx_mgr_submit" .approved,
  mgrFlush "isal_sha1_ctx_mgr_flush" .approved,
  mgrInit "isal_sha256_ctx_mgr_init" .approved, mgrSubmit "isal_sha256_ctx_mgr_submit" .approved,
  mgrFlush "isal_sha256_ctx_mgr_flush" .approved,
  mgrInit "isal_sha512_ctx_mgr_init" .approved, mgrSubmit "isal_sha512_ctx_mgr_submit" .approved,
  mgrFlush "isal_sha512_ctx_mgr_flush" .approved,
  mgrInit "isal_md5_ctx_mgr_init" .nonApproved, mgrSubmit "isal_md5_ctx_mgr_submit" .nonApproved,
  mgrFlush "isal_md5_ctx_mgr_flush" .nonApproved,
  mgrInit "isal_sm3_ctx_mgr_init" .nonApproved, mgrSubmit "isal_sm3_ctx_mgr_submit" .nonApproved,
  mgrFlush "isal_sm3_ctx_mgr_flush" .nonApproved,
  mhInit "isal_mh_sha1_init", mhUpdate "isal_mh_sha1_update",
  { name := "isal_mh_sha1_finalize", cls := .nonApproved, params := ["ctx", "mh_sha1_digest"],
    constraints := [req 0 ERR_NULL_CTX, req 1 ERR_NULL_AUTH] },
  mhInit "isal_mh_sha256_init", mhUpdate "isal_mh_sha256_update",
  { name := "isal_mh_sha256_finalize", cls := .nonApproved, params := ["ctx", "mh_sha256_digest"],
    constraints := [req 0 ERR_NULL_CTX, req 1 ERR_NULL_AUTH] },
  { name := "isal_mh_sha1_murmur3_x64_128_init", cls := .nonApproved,
    params := ["ctx", "murmur_seed"], constraints := [req 0 ERR_NULL_CTX] },
  mhUpdate "isal_mh_sha1_murmur3_x64_128_update",
  { name := "isal_mh_sha1_murmur3_x64_128_finalize", cls := .nonApproved,
    params := ["ctx", "mh_sha1_digest", "murmur3_x64_128_digest"],
    constraints := [req 0 ERR_NULL_CTX, req 1 ERR_NULL_AUTH, req 2 ERR_NULL_AUTH] },
  { name := "isal_rolling_hash2_init", cls := .nonApproved, params := ["state", "w"],
    constraints := [req 0 ERR_NULL_CTX, atLeast 1 1 ERR_WINDOW_SIZE,
                    atMost 1 MAX_WINDOW ERR_WINDOW_SIZE] },
  { name := "isal_rolling_hash2_reset", cls := .nonApproved, params := ["state", "init_bytes"],
    constraints := [req 0 ERR_NULL_CTX, req 1 ERR_NULL_INIT_VAL] },
  { name := "isal_rolling_hash2_run", cls := .nonApproved,
    params := ["state", "buffer", "max_len", "mask", "trigger", "offset", "match"],
    constraints := [req 0 ERR_NULL_CTX, req 1 ERR_NULL_SRC, req 5 ERR_NULL_OFFSET,
                    req 6 ERR_NULL_MATCH] },
  { name := "isal_rolling_hashx_mask_gen", cls := .nonApproved, params := ["mean", "shift", "mask"],
    constraints := [req 2 ERR_NULL_MASK] },
  { name := "isal_self_tests", cls := .service, params := [], constraints := [] },
  { name := "isal_crypto_get_version_str", cls := .service, params := [], constraints := [] },
  { name := "isal_crypto_get_version", cls := .service, params := [], constraints := [] } ]

/-! ### Semantics of a domain -/

/-- The arguments are inside the documented domain (wrapper-checked part). -/
def ApiSpec.inDomain (s : ApiSpec) (env : Env) : Prop :=
  ∀ c ∈ s.constraints, c.violated.eval env = false

/-- Boolean version (executable; used by the driver). -/
def ApiSpec.inDomainB (s : ApiSpec) (env : Env) : Bool :=
  s.constraints.all fun c => !c.violated.eval env

theorem ApiSpec.inDomainB_iff (s : ApiSpec) (env : Env) : s.inDomainB env = true ↔ s.inDomain env := by
  simp [ApiSpec.inDomainB, ApiSpec.inDomain, List.all_eq_true]

/-- Documented codes of the constraints the arguments violate. -/
def ApiSpec.violatedCodes (s : ApiSpec) (env : Env) : List Code :=
  (s.constraints.filter fun c => c.violated.eval env).map (·.code)

/-- Same for the constraints reported through the context (`flags`). -/
def ApiSpec.calleeViolatedCodes (s : ApiSpec) (env : Env) : List Code :=
  (s.calleeReported.filter fun c => c.violated.eval env).map (·.code)

end IsalVerif.ApiDomain
