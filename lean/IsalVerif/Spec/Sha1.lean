import IsalVerif.Spec.MD
/-! SHA-1, FIPS 180-4 §4.1.1, §4.2.1, §5.3.1, §6.1. -/
namespace IsalVerif.Sha1

def init : Array UInt32 := #[0x67452301,0xefcdab89,0x98badcfe,0x10325476,0xc3d2e1f0]

def f (t : Nat) (b c d : UInt32) : UInt32 :=
  if t < 20 then (b &&& c) ^^^ (~~~b &&& d)
  else if t < 40 then b ^^^ c ^^^ d
  else if t < 60 then (b &&& c) ^^^ (b &&& d) ^^^ (c &&& d)
  else b ^^^ c ^^^ d

def k (t : Nat) : UInt32 :=
  if t < 20 then 0x5a827999 else if t < 40 then 0x6ed9eba1 else if t < 60 then 0x8f1bbcdc else 0xca62c1d6

def schedule (block : Bytes) : Array UInt32 := Id.run do
  let mut w : Array UInt32 := (wordsBE32 block).toArray
  for t in [16:80] do
    w := w.push (rotl32 (w[t-3]! ^^^ w[t-8]! ^^^ w[t-14]! ^^^ w[t-16]!) 1)
  return w

def compress (h : Array UInt32) (block : Bytes) : Array UInt32 := Id.run do
  let w := schedule block
  let mut a := h[0]!; let mut b := h[1]!; let mut c := h[2]!; let mut d := h[3]!; let mut e := h[4]!
  for t in [0:80] do
    let tmp := rotl32 a 5 + f t b c d + e + k t + w[t]!
    e := d; d := c; c := rotl32 b 30; b := a; a := tmp
  return #[h[0]! + a, h[1]! + b, h[2]! + c, h[3]! + d, h[4]! + e]

def alg : HashAlg :=
  { S := Array UInt32, init := init, B := 64, L := 8, lenBE := true, compress := compress,
    out := fun s => s.toList.flatMap bytesBE32 }

end IsalVerif.Sha1
