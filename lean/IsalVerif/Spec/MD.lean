import IsalVerif.Spec.Bits
/-! The Merkle–Damgård frame common to SHA-1/256/512, MD5 and SM3 (FIPS 180-4 §5.1, RFC 1321 §3.1-3.2,
    GB/T 32905 §5.2): pad with 0x80, zeros, and the bit length in `L` bytes; fold `compress`. -/
namespace IsalVerif

structure HashAlg where
  S : Type
  init : S
  B : Nat                       -- block size in bytes
  L : Nat                       -- size of the length field in bytes (8 or 16)
  lenBE : Bool                  -- big-endian bit length (all but MD5)
  compress : S → Bytes → S      -- one block of exactly `B` bytes
  out : S → Bytes

/-- the padding appended to a message of `n` bytes -/
def mdPad (B L : Nat) (lenBE : Bool) (n : Nat) : Bytes :=
  let k := (B - (n + 1 + L) % B) % B
  (0x80 : UInt8) :: List.replicate k 0 ++ (if lenBE then natBE L (8 * n) else natLE L (8 * n))

def HashAlg.pad (a : HashAlg) (n : Nat) : Bytes := mdPad a.B a.L a.lenBE n

def HashAlg.state (a : HashAlg) (m : Bytes) : a.S :=
  (chunks a.B (m ++ a.pad m.length)).foldl a.compress a.init

def HashAlg.hash (a : HashAlg) (m : Bytes) : Bytes := a.out (a.state m)

end IsalVerif
