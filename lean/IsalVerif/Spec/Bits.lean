/-! Byte / word helpers shared by every executable standard in `Spec/`. Core Lean only. -/
namespace IsalVerif

abbrev Bytes := List UInt8

/-- `blocks B n l`: the first `n` consecutive `B`-element chunks of `l`. -/
def blocks {α : Type} (B : Nat) : Nat → List α → List (List α)
  | 0, _ => []
  | n+1, l => l.take B :: blocks B n (l.drop B)

/-- all whole `B`-chunks of `l` -/
def chunks {α : Type} (B : Nat) (l : List α) : List (List α) := blocks B (l.length / B) l

def be32 (b0 b1 b2 b3 : UInt8) : UInt32 :=
  (b0.toUInt32 <<< 24) ||| (b1.toUInt32 <<< 16) ||| (b2.toUInt32 <<< 8) ||| b3.toUInt32

def le32 (b0 b1 b2 b3 : UInt8) : UInt32 := be32 b3 b2 b1 b0

/-- big-endian 32-bit words of a byte list (length a multiple of 4; a ragged tail is dropped) -/
def wordsBE32 : Bytes → List UInt32
  | b0 :: b1 :: b2 :: b3 :: r => be32 b0 b1 b2 b3 :: wordsBE32 r
  | _ => []

def wordsLE32 : Bytes → List UInt32
  | b0 :: b1 :: b2 :: b3 :: r => le32 b0 b1 b2 b3 :: wordsLE32 r
  | _ => []

def be64 (l : Bytes) : UInt64 := l.foldl (fun a b => (a <<< 8) ||| b.toUInt64) 0

def wordsBE64 : Bytes → List UInt64
  | b0 :: b1 :: b2 :: b3 :: b4 :: b5 :: b6 :: b7 :: r => be64 [b0,b1,b2,b3,b4,b5,b6,b7] :: wordsBE64 r
  | _ => []

def wordsLE64 : Bytes → List UInt64
  | b0 :: b1 :: b2 :: b3 :: b4 :: b5 :: b6 :: b7 :: r => be64 [b7,b6,b5,b4,b3,b2,b1,b0] :: wordsLE64 r
  | _ => []

def bytesBE32 (w : UInt32) : Bytes :=
  [(w >>> 24).toUInt8, (w >>> 16).toUInt8, (w >>> 8).toUInt8, w.toUInt8]

def bytesLE32 (w : UInt32) : Bytes := (bytesBE32 w).reverse

def bytesBE64 (w : UInt64) : Bytes :=
  [(w >>> 56).toUInt8, (w >>> 48).toUInt8, (w >>> 40).toUInt8, (w >>> 32).toUInt8,
   (w >>> 24).toUInt8, (w >>> 16).toUInt8, (w >>> 8).toUInt8, w.toUInt8]

def bytesLE64 (w : UInt64) : Bytes := (bytesBE64 w).reverse

/-- `n` as `k` big-endian bytes (mod 256^k) -/
def natBE (k n : Nat) : Bytes := (List.range k).map fun i => UInt8.ofNat (n / 256 ^ (k - 1 - i))

def natLE (k n : Nat) : Bytes := (List.range k).map fun i => UInt8.ofNat (n / 256 ^ i)

def rotl32 (x : UInt32) (n : UInt32) : UInt32 := (x <<< n) ||| (x >>> (32 - n))
def rotr32 (x : UInt32) (n : UInt32) : UInt32 := (x >>> n) ||| (x <<< (32 - n))
def rotr64 (x : UInt64) (n : UInt64) : UInt64 := (x >>> n) ||| (x <<< (64 - n))
def rotl64 (x : UInt64) (n : UInt64) : UInt64 := (x <<< n) ||| (x >>> (64 - n))

def hexDigit (n : Nat) : Char := if n < 10 then Char.ofNat (48 + n) else Char.ofNat (87 + n)
def hexOf (l : Bytes) : String :=
  String.ofList (l.flatMap fun b => [hexDigit (b.toNat / 16), hexDigit (b.toNat % 16)])

def hexVal (c : Char) : Nat :=
  if '0' ≤ c ∧ c ≤ '9' then c.toNat - 48
  else if 'a' ≤ c ∧ c ≤ 'f' then c.toNat - 87
  else if 'A' ≤ c ∧ c ≤ 'F' then c.toNat - 55 else 0

def unhex (s : String) : Bytes :=
  let rec go : List Char → Bytes
    | a :: b :: r => UInt8.ofNat (hexVal a * 16 + hexVal b) :: go r
    | _ => []
  go s.toList

/-- xorshift64* byte generator shared with the C harness (`harness/common.h`): one byte per step. -/
def xsNext (s : UInt64) : UInt64 :=
  let s := s ^^^ (s >>> 12)
  let s := s ^^^ (s <<< 25)
  s ^^^ (s >>> 27)

def xsBytes (seed : UInt64) (n : Nat) : Bytes :=
  let rec go (n : Nat) (s : UInt64) (acc : Bytes) : Bytes :=
    match n with
    | 0 => acc.reverse
    | n+1 =>
      let s' := xsNext s
      go n s' (((s' * 0x2545F4914F6CDD1D) >>> 56).toUInt8 :: acc)
  go n (if seed == 0 then 0x9E3779B97F4A7C15 else seed) []

end IsalVerif
