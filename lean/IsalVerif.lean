import IsalVerif.SpecTests
import IsalVerif.Impl.HashMB
import IsalVerif.Lemmas.Absorb
import IsalVerif.Lemmas.Pad
import IsalVerif.Lemmas.Settle
import IsalVerif.Lemmas.MgrInv
import IsalVerif.Lemmas.Resubmit
import IsalVerif.Props.C01
