import IsalVerif.SpecTests
import IsalVerif.Impl.HashMB
