#!/usr/bin/env python3
"""T-route for the multi-hash update functions: every instance of MH_SHA1_UPDATE_FUNCTION / MH_SHA256_UPDATE_FUNCTION
(`_mh_sha1_update_{base,sse,avx,avx2,avx512}`, `_mh_sha256_update_*`; one C template per algorithm, #included once per
family with another block function) -> lean/IsalVerif/Impl/MhC.lean statements -> lean/IsalVerif/Gen/MhUpdate.lean.
   gen_mhupdate.py <repo-src-dir> <lean-dir>
Flattened guards as in gen_resubmit.py.  Locals: len = 0, partial_block_len = 1, num_blocks = 2, input_data offset = 3."""
import json, os, re, subprocess, sys
sys.path.insert(0, os.path.dirname(os.path.abspath(__file__)))
from gen_hashpad import NoFit, kids, ctype, strip, callee, INC
import gen_submit
from gen_submit import width, enum_table

LOCALS = {"len": 0, "partial_block_len": 1, "num_blocks": 2}
IGNORED_PTRS = ("aligned_frame_buffer", "mh_sha1_segs_digests", "mh_sha256_segs_digests", "murmur3_x64_128_digest")


def clang_json(repo, rel, flt):
    cmd = ["clang-14", "-fsyntax-only", "-Wno-everything", "-fgnuc-version=4.9.0", "-Xclang", "-ast-dump=json",
           "-Xclang", "-ast-dump-filter=" + flt] + ["-I" + os.path.join(repo, d) for d in INC] + \
          ["-I" + os.path.join(repo, os.path.dirname(rel)), "-I" + os.path.join(repo, "mh_sha1"), os.path.join(repo, rel)]
    p = subprocess.run(cmd, capture_output=True, text=True)
    if p.returncode != 0:
        raise NoFit("clang failed: " + p.stderr[:300])
    docs, dec, s, i = [], json.JSONDecoder(), p.stdout, 0
    while i < len(s):
        while i < len(s) and s[i] in " \n\r\t":
            i += 1
        if i >= len(s):
            break
        d, i = dec.raw_decode(s, i)
        docs.append(d)
    return docs


class Tr(gen_submit.Tr):
    def expr(self, n):
        k = n.get("kind")
        c = self.const(n)
        if c is not None:
            bits, sg = width(n)
            return ".lit %d" % (c % (1 << (64 if sg else bits)) if c < 0 else c)
        if k == "ParenExpr":
            return self.expr(kids(n)[0])
        if k == "DeclRefExpr":
            nm = n["referencedDecl"]["name"]
            if nm in LOCALS and width(n) == (32, False):
                return "(.loc %d)" % LOCALS[nm]
            if nm in getattr(self, "consts", {}):
                return self.consts[nm]       # a `const` local: its initialiser, whose operands are frozen from then on
            raise NoFit("variable " + nm)
        if k == "MemberExpr":
            if self.member(n) == "total_length" and width(n) == (64, False):
                return ".total"
            raise NoFit("field " + str(self.member(n)))
        if k in ("ImplicitCastExpr", "CStyleCastExpr"):
            ck = n.get("castKind")
            inner = kids(n)[0]
            if ck in ("LValueToRValue", "NoOp"):
                return self.expr(inner)
            if ck == "IntegralCast":
                bits, sg = width(n)
                ib, isg = width(inner)
                if isg:
                    raise NoFit("signed conversion of a non-constant")
                if sg and bits <= ib:
                    raise NoFit("conversion to a signed type that may not hold the value")
                return self.expr(inner) if bits >= ib else "(.trunc %d (%s))" % (bits, self.expr(inner))
            raise NoFit("cast " + str(ck))
        if k == "BinaryOperator":
            op = n["opcode"]
            a, b = kids(n)
            if op in ("<", "==", "!=", ">", ">=", "<="):
                if width(a)[1] or width(b)[1]:
                    raise NoFit("signed comparison")
                ea, eb = self.expr(a), self.expr(b)
                return {"<": "(.lt (%s) (%s))" % (ea, eb), "==": "(.eq (%s) (%s))" % (ea, eb),
                        "!=": "(.lnot (.eq (%s) (%s)))" % (ea, eb), ">": "(.lt (%s) (%s))" % (eb, ea),
                        ">=": "(.lnot (.lt (%s) (%s)))" % (ea, eb), "<=": "(.lnot (.lt (%s) (%s)))" % (eb, ea)}[op]
            bits, sg = width(n)
            if sg:
                raise NoFit("signed arithmetic on a non-constant")
            if op in ("*", "/", "%"):
                cb, ca = self.const(b), self.const(a)
                if op == "*" and cb is None and ca is not None:
                    a, cb = b, ca
                if cb is None or cb <= 0 or cb & (cb - 1):
                    raise NoFit("operator %s by a non-power of two" % op)
                kk = cb.bit_length() - 1
                if op == "*":
                    e = "(.shl (%s) %d)" % (self.expr(a), kk)
                    return "(.trunc %d %s)" % (bits, e) if bits < 64 else e
                if op == "/":
                    return "(.shr (%s) %d)" % (self.expr(a), kk)
                return "(.and (%s) (.lit %d))" % (self.expr(a), cb - 1)
            names = {"+": "add", "-": "sub", "&": "and"}
            if op not in names:
                raise NoFit("operator " + op)
            e = "(.%s (%s) (%s))" % (names[op], self.expr(a), self.expr(b))
            return "(.trunc %d %s)" % (bits, e) if (op in "+-" and bits < 64) else e
        raise NoFit("expression " + str(k))

    def ptr(self, n):
        """('part'|'input', offset expr or None)"""
        n = strip(n)
        if n.get("kind") == "DeclRefExpr":
            nm = n["referencedDecl"]["name"]
            if nm == "partial_block_buffer":
                return ("part", None)
            if nm == "input_data":
                return ("input", None)
            return (None, None)
        if n.get("kind") == "BinaryOperator" and n.get("opcode") == "+":
            a, b = kids(n)
            base, off = self.ptr(a)
            if base and off is None:
                return (base, self.expr(b))
        return (None, None)

    def walk(self, stmts, guard, out):
        for s in stmts:
            try:
                k = s.get("kind")
                g = "none" if guard is None else "(some %d)" % guard
                emit = lambda b: out.append("⟨%s, %s⟩" % (g, b))
                if k == "NullStmt":
                    continue
                if k == "DeclStmt":
                    for v in kids(s):
                        nm, init = v.get("name"), kids(v)
                        if not init and (nm in LOCALS or nm in IGNORED_PTRS or nm == "partial_block_buffer"):
                            continue
                        if nm == "input_data" and init:
                            r = strip(init[0])
                            if r.get("kind") == "DeclRefExpr" and r["referencedDecl"]["name"] == "buffer":
                                continue
                        if init and "const" in (v.get("type", {}).get("qualType") or "") and nm not in LOCALS:
                            e = self.expr(init[0])
                            bits, sg = width(v)
                            ib, _ = width(init[0])
                            if sg or bits < ib:
                                raise NoFit("narrowing const local")
                            self.consts[nm] = e
                            self.frozen |= set(int(x) for x in re.findall(r"\.loc (\d+)", e))
                            if ".total" in e:
                                self.frozen.add(-1)
                            continue
                        raise NoFit("declaration of " + str(nm))
                    continue
                if k == "IfStmt":
                    parts = kids(s)
                    if len(parts) != 2:
                        raise NoFit("if with else")
                    cond, then = parts
                    tb = kids(then) if then.get("kind") == "CompoundStmt" else [then]
                    c0 = strip(cond)
                    if c0.get("kind") == "BinaryOperator" and c0.get("opcode") == "==" and \
                            strip(kids(c0)[0]).get("referencedDecl", {}).get("name") == "ctx" and len(tb) == 1 and tb[0].get("kind") == "ReturnStmt":
                        emit(".nullCheck")
                        continue
                    gid = self.next_guard
                    self.next_guard += 1
                    ce = self.expr(cond)
                    if guard is not None:
                        ce = "(.land (.loc %d) (%s))" % (guard, ce)
                    out.append("⟨none, .setLoc %d (%s)⟩" % (gid, ce))
                    self.walk(tb, gid, out)
                    continue
                if k == "ReturnStmt":
                    v = self.const(kids(s)[0])
                    if v is None:
                        raise NoFit("return of a non-constant")
                    emit(".ret (%d)" % v)
                    continue
                if k == "BinaryOperator" and s.get("opcode") == "=":
                    lhs, rhs = kids(s)
                    l0 = strip(lhs)
                    nm = l0.get("referencedDecl", {}).get("name") if l0.get("kind") == "DeclRefExpr" else None
                    if nm in LOCALS:
                        if LOCALS[nm] in self.frozen:
                            raise NoFit("assignment to a variable a const local was computed from")
                        emit(".setLoc %d (%s)" % (LOCALS[nm], self.expr(rhs)))
                        continue
                    if nm == "partial_block_buffer" and self.member(strip(rhs)) == "partial_block_buffer":
                        continue
                    if nm in IGNORED_PTRS:
                        continue      # scratch frame / digest array pointers: passed through to the block function
                    raise NoFit("assignment")
                if k == "CompoundAssignOperator":
                    lhs, rhs = kids(s)
                    l0 = strip(lhs)
                    op = s.get("opcode", "")
                    nm = l0.get("referencedDecl", {}).get("name") if l0.get("kind") == "DeclRefExpr" else None
                    if self.member(lhs) == "total_length" and op == "+=":
                        emit(".setTotal (.add .total (%s))" % self.expr(rhs))
                        continue
                    if (nm == "len" and 0 in self.frozen) or (self.member(lhs) == "total_length" and -1 in self.frozen):
                        raise NoFit("assignment to a variable a const local was computed from")
                    if nm == "len" and op == "-=":
                        emit(".setLoc 0 (.trunc 32 (.sub (.loc 0) (%s)))" % self.expr(rhs))
                        continue
                    if nm == "input_data" and op == "+=":
                        emit(".setLoc 3 (.add (.loc 3) (%s))" % self.expr(rhs))
                        continue
                    raise NoFit("compound assignment")
                if k == "CallExpr":
                    cal = callee(s) or ""
                    a = kids(s)[1:]
                    if cal == "memcpy" and len(a) == 3:
                        (db, doff), (sb, soff) = self.ptr(a[0]), self.ptr(a[1])
                        if db == "part" and sb == "input" and soff is None:
                            emit(".cpyIn (%s) (%s)" % (doff or ".lit 0", self.expr(a[2])))
                            continue
                    if cal == "memset" and len(a) == 3 and self.ptr(a[0]) == ("part", None) and self.const(a[1]) == 0 and self.const(a[2]) is not None:
                        emit(".clrPart %d" % self.const(a[2]))
                        continue
                    stitched = re.fullmatch(r"_mh_sha1_murmur3_x64_128_block_\w+", cal) is not None
                    if (re.fullmatch(r"_mh_sha(1|256)_block_\w+", cal) and len(a) == 4) or (stitched and len(a) == 5):
                        self.blocks.add(cal)
                        base, off = self.ptr(a[0])
                        # the stitched block function takes the murmur state pointer before the block count
                        if stitched:
                            m0 = strip(a[3])
                            if m0.get("kind") != "DeclRefExpr" or m0.get("referencedDecl", {}).get("name") != "murmur3_x64_128_digest":
                                raise NoFit("murmur state argument of " + cal)
                        if off is None and base in ("part", "input"):
                            emit(".%s (%s)" % ("blockPart" if base == "part" else "blockIn", self.expr(a[-1])))
                            continue
                    raise NoFit("call " + cal)
                raise NoFit("statement " + str(k))
            except NoFit as e:
                out.append('⟨none, .unsupported "%s"⟩' % str(e).replace('"', "'")[:80])
            except Exception as e:
                out.append('⟨none, .unsupported "translator: %s"⟩' % type(e).__name__)


SOURCES = [("mh_sha1/mh_sha1_update_base.c", "_mh_sha1_update_base"), ("mh_sha1/mh_sha1.c", "_mh_sha1_update_"),
           ("mh_sha1/mh_sha1_avx512.c", "_mh_sha1_update_"),
           ("mh_sha256/mh_sha256_update_base.c", "_mh_sha256_update_base"), ("mh_sha256/mh_sha256.c", "_mh_sha256_update_"),
           ("mh_sha256/mh_sha256_avx512.c", "_mh_sha256_update_"),
           ("mh_sha1_murmur3_x64_128/mh_sha1_murmur3_x64_128_update_base.c", "_mh_sha1_murmur3_x64_128_update_base"),
           ("mh_sha1_murmur3_x64_128/mh_sha1_murmur3_x64_128.c", "_mh_sha1_murmur3_x64_128_update_"),
           ("mh_sha1_murmur3_x64_128/mh_sha1_murmur3_x64_128_avx512.c", "_mh_sha1_murmur3_x64_128_update_")]


def main(argv=None):
    argv = argv or sys.argv[1:]
    repo, lean = argv[0], argv[1]
    enums = enum_table(repo)
    for hdr in ("include/mh_sha1.h", "include/mh_sha256.h", "include/mh_sha1_murmur3_x64_128.h"):

        def walk(n):
            if n.get("kind") == "EnumConstantDecl":
                v = [c for c in n.get("inner", []) if c.get("kind") == "ConstantExpr"]
                if v and "value" in v[0]:
                    enums[n["name"]] = int(v[0]["value"])
            for c in n.get("inner", []):
                walk(c)
        for d in gen_submit.clang_json(repo, hdr):
            walk(d)
    tr = Tr(enums)
    rows, seen = [], set()
    for rel, flt in SOURCES:
        if not os.path.exists(os.path.join(repo, rel)):
            continue
        for d in clang_json(repo, rel, flt):
            if d.get("kind") != "FunctionDecl" or not re.fullmatch(r"_mh_sha(1|256|1_murmur3_x64_128)_update_\w+", d.get("name", "")) or d["name"] in seen:
                continue
            cs = [c for c in kids(d) if c.get("kind") == "CompoundStmt"]
            if not cs:
                continue
            seen.add(d["name"])
            tr.next_guard, tr.blocks, tr.consts, tr.frozen = 10, set(), {}, set()
            out = []
            tr.walk(kids(cs[0]), None, out)
            want = d["name"].replace("_update_", "_block_")
            if tr.blocks != {want}:
                out.append('⟨none, .unsupported "block function %s, expected %s"⟩' % (sorted(tr.blocks), want))
            rows.append((rel, d["name"], out))
    out = ["import IsalVerif.Impl.MhC",
           "/-! GENERATED by tools/gen_mhupdate.py from the current tree: every instance of the mh_sha1 / mh_sha256 update. Do not edit. -/",
           "namespace IsalVerif.Gen.MhUpdate", "open IsalVerif.MhC", ""]
    names = []
    for k, (rel, fn, prog) in enumerate(rows):
        names.append("u%d" % k)
        out.append("def u%d : Src := { file := \"%s\", fn := \"%s\", prog := [\n  %s] }" % (k, rel, fn, ",\n  ".join(prog)))
    out += ["", "def all : List Src := [%s]" % ", ".join(names), "", "end IsalVerif.Gen.MhUpdate"]
    dst = os.path.join(lean, "IsalVerif", "Gen", "MhUpdate.lean")
    txt = "\n".join(out) + "\n"
    if not os.path.exists(dst) or open(dst).read() != txt:
        open(dst, "w").write(txt)
    uns = sum(1 for _, _, p in rows for s in p if ".unsupported" in s)
    print("mh update: %d functions, %d unsupported statements -> %s" % (len(rows), uns, dst))
    return rows


# ------------------------------------------------------------------------------------------------ tail functions
TLOCALS = {"total_len": 0, "partial_buffer_len": 1, "len_in_bit": 2}
TSOURCES = [("mh_sha1/mh_sha1_finalize_base.c", "_mh_sha1_tail_base"), ("mh_sha1/mh_sha1.c", "_mh_sha1_tail_"),
            ("mh_sha1/mh_sha1_avx512.c", "_mh_sha1_tail_"),
            ("mh_sha256/mh_sha256_finalize_base.c", "_mh_sha256_tail_base"), ("mh_sha256/mh_sha256.c", "_mh_sha256_tail_"),
            ("mh_sha256/mh_sha256_avx512.c", "_mh_sha256_tail_")]


class TrTail(Tr):
    def expr(self, n):
        k = n.get("kind")
        c = self.const(n)
        if c is None and k == "DeclRefExpr":
            nm = n["referencedDecl"]["name"]
            if nm in TLOCALS:
                return "(.loc %d)" % TLOCALS[nm]
            raise NoFit("variable " + nm)
        if c is None and k == "CallExpr" and callee(n) == "__builtin_bswap64":
            return "(.bswap64 (%s))" % self.expr(kids(n)[1])
        return super().expr(n)

    def pbase(self, n):
        """offset expression of `partial_buffer [+ e]`, or None"""
        n = strip(n)
        if n.get("kind") == "DeclRefExpr" and n["referencedDecl"]["name"] == "partial_buffer":
            return ".lit 0"
        if n.get("kind") == "BinaryOperator" and n.get("opcode") in ("+", "-"):
            a, b = kids(n)
            base = self.pbase(a)
            if base is None:
                return None
            e = self.expr(b)
            if base == ".lit 0" and n["opcode"] == "+":
                return e
            ca, cb = (int(base[5:]) if base.startswith(".lit ") else None), self.const(b)
            if ca is not None and cb is not None:
                return ".lit %d" % (ca + cb if n["opcode"] == "+" else ca - cb)
            return "(.%s (%s) (%s))" % ("add" if n["opcode"] == "+" else "sub", base, e)
        return None

    def walk(self, stmts, guard, out):
        for s in stmts:
            try:
                k = s.get("kind")
                g = "none" if guard is None else "(some %d)" % guard
                emit = lambda b: out.append("⟨%s, %s⟩" % (g, b))
                if k == "NullStmt" or (k == "ReturnStmt" and not kids(s)):
                    if k == "ReturnStmt":
                        emit(".ret")
                    continue
                if k == "DeclStmt":
                    if all(v.get("name") in TLOCALS and not kids(v) for v in kids(s)):
                        continue
                    raise NoFit("declaration")
                if k == "IfStmt":
                    parts = kids(s)
                    if len(parts) != 2:
                        raise NoFit("if with else")
                    cond, then = parts
                    tb = kids(then) if then.get("kind") == "CompoundStmt" else [then]
                    gid = self.next_guard
                    self.next_guard += 1
                    ce = self.expr(cond)
                    if guard is not None:
                        ce = "(.land (.loc %d) (%s))" % (guard, ce)
                    out.append("⟨none, .setLoc %d (%s)⟩" % (gid, ce))
                    self.walk(tb, gid, out)
                    continue
                if k == "UnaryOperator" and s.get("opcode") == "++":
                    l0 = strip(kids(s)[0])
                    nm = l0.get("referencedDecl", {}).get("name")
                    if nm in TLOCALS:
                        emit(".setLoc %d (.add (.loc %d) (.lit 1))" % (TLOCALS[nm], TLOCALS[nm]))
                        continue
                    raise NoFit("++")
                if k == "BinaryOperator" and s.get("opcode") == "=":
                    lhs, rhs = kids(s)
                    l0 = strip(lhs)
                    if l0.get("kind") == "DeclRefExpr" and l0["referencedDecl"]["name"] in TLOCALS:
                        emit(".setLoc %d (%s)" % (TLOCALS[l0["referencedDecl"]["name"]], self.expr(rhs)))
                        continue
                    if l0.get("kind") == "ArraySubscriptExpr":
                        b_, idx = kids(l0)
                        v = self.const(rhs)
                        if self.pbase(b_) == ".lit 0" and v is not None:
                            emit(".setByte (%s) %d" % (self.expr(idx), v % 256))
                            continue
                    if l0.get("kind") == "UnaryOperator" and l0.get("opcode") == "*":
                        pt = strip(kids(l0)[0])      # through the (uint64_t *) cast and parentheses
                        off = self.pbase(pt)
                        if off is not None and width(l0) == (64, False):
                            emit(".store64 (%s) (%s)" % (off, self.expr(rhs)))
                            continue
                    raise NoFit("assignment")
                if k == "CallExpr":
                    cal = callee(s) or ""
                    a = kids(s)[1:]
                    if cal == "memset" and len(a) == 3 and self.const(a[1]) == 0 and self.pbase(a[0]) is not None:
                        emit(".clrAt (%s) (%s)" % (self.pbase(a[0]), self.expr(a[2])))
                        continue
                    if re.fullmatch(r"_mh_sha(1|256)_block_\w+", cal) and len(a) == 4 and self.pbase(a[0]) == ".lit 0":
                        self.blocks.add(cal)
                        emit(".blockPart (%s)" % self.expr(a[3]))
                        continue
                    if re.fullmatch(r"_?sha(1|256)_for_mh_sha(1|256)", cal) and len(a) == 3 and self.const(a[2]) is not None:
                        emit(".finalSha %d" % self.const(a[2]))
                        continue
                    raise NoFit("call " + cal)
                raise NoFit("statement " + str(k))
            except NoFit as e:
                out.append('⟨none, .unsupported "%s"⟩' % str(e).replace('"', "'")[:80])
            except Exception as e:
                out.append('⟨none, .unsupported "translator: %s"⟩' % type(e).__name__)


def main_tail(argv=None):
    argv = argv or sys.argv[1:]
    repo, lean = argv[0], argv[1]
    tr = TrTail(enum_table(repo))
    rows, seen = [], set()
    for rel, flt in TSOURCES:
        if not os.path.exists(os.path.join(repo, rel)):
            continue
        for d in clang_json(repo, rel, flt):
            if d.get("kind") != "FunctionDecl" or not re.fullmatch(r"_mh_sha(1|256)_tail_\w+", d.get("name", "")) or d["name"] in seen:
                continue
            cs = [c for c in kids(d) if c.get("kind") == "CompoundStmt"]
            if not cs:
                continue
            seen.add(d["name"])
            tr.next_guard, tr.blocks, tr.consts, tr.frozen = 10, set(), {}, set()
            out = []
            tr.walk(kids(cs[0]), None, out)
            want = d["name"].replace("_tail_", "_block_")
            if tr.blocks != {want}:
                out.append('⟨none, .unsupported "block function %s, expected %s"⟩' % (sorted(tr.blocks), want))
            rows.append((rel, d["name"], out))
    out = ["import IsalVerif.Impl.MhTailC",
           "/-! GENERATED by tools/gen_mhupdate.py from the current tree: every instance of the mh_sha1 / mh_sha256 tail. Do not edit. -/",
           "namespace IsalVerif.Gen.MhTail", "open IsalVerif.MhTailC", ""]
    names = []
    for k, (rel, fn, prog) in enumerate(rows):
        names.append("t%d" % k)
        out.append("def t%d : Src := { file := \"%s\", fn := \"%s\", prog := [\n  %s] }" % (k, rel, fn, ",\n  ".join(prog)))
    out += ["", "def all : List Src := [%s]" % ", ".join(names), "", "end IsalVerif.Gen.MhTail"]
    dst = os.path.join(lean, "IsalVerif", "Gen", "MhTail.lean")
    txt = "\n".join(out) + "\n"
    if not os.path.exists(dst) or open(dst).read() != txt:
        open(dst, "w").write(txt)
    uns = sum(1 for _, _, p in rows for s in p if ".unsupported" in s)
    print("mh tail: %d functions, %d unsupported statements -> %s" % (len(rows), uns, dst))
    return rows


if __name__ == "__main__":
    main()
    main_tail()
