"""Instruction table of the X86Abs translator: operand parser + per-mnemonic effect classification.

This file is the *trusted table* of the C19/C18 model: for every instruction form that occurs in the
library it says which general-purpose registers the instruction may write (implicit operands
included), whether it writes memory and through which address, and - for the handful of forms the
stack discipline is made of - the exact "move" effect (push/pop/add rsp/mov/lea/load/store/leave).

Policy: CONSERVATIVE.  A mnemonic that is not listed is `unsupported` (the Lean checker rejects the
function).  An operand that cannot be parsed makes the instruction `unsupported`.  A write to rsp
by anything but the recognised stack forms is `unsupported`.  Instructions that can change DF,
MXCSR or the x87 control word are `forbidden` (the checker rejects any function that can reach one).
The table is validated dynamically by harness/insnform (every form with a non-empty GPR write set is
executed in isolation on random register files).
"""
import re

R64 = ["rax", "rcx", "rdx", "rbx", "rsp", "rbp", "rsi", "rdi"] + ["r%d" % i for i in range(8, 16)]
RSP, RBP = 4, 5
REG = {}   # name -> (index, width in bytes)
for i, r in enumerate(R64):
    REG[r] = (i, 8)
for i, (e, w, l) in enumerate([("eax", "ax", "al"), ("ecx", "cx", "cl"), ("edx", "dx", "dl"), ("ebx", "bx", "bl"),
                               ("esp", "sp", "spl"), ("ebp", "bp", "bpl"), ("esi", "si", "sil"), ("edi", "di", "dil")]):
    REG[e] = (i, 4)
    REG[w] = (i, 2)
    REG[l] = (i, 1)
for i, h in enumerate(["ah", "ch", "dh", "bh"]):
    REG[h] = (i, 1)
for i in range(8, 16):
    REG["r%dd" % i] = (i, 4)
    REG["r%dw" % i] = (i, 2)
    REG["r%db" % i] = (i, 1)

PTR_SIZE = {"BYTE": 1, "WORD": 2, "DWORD": 4, "QWORD": 8, "XMMWORD": 16, "YMMWORD": 32, "ZMMWORD": 64,
            "TBYTE": 10, "OWORD": 16, "FWORD": 6}
VEC_RE = re.compile(r"^([xyz])mm(\d+)((?:\{[^}]*\})*)$")
K_RE = re.compile(r"^k[0-7]((?:\{[^}]*\})*)$")
IMM_RE = re.compile(r"^-?(0x[0-9a-f]+|\d+)$")
MEM_RE = re.compile(r"^(?:(\w+) (?:PTR|BCST) )?(?:([c-gs]s):)?\[([^\]]*)\]((?:\{[^}]*\})*)$")
SEGABS_RE = re.compile(r"^(?:(\w+) PTR )?([c-gs]s):(0x[0-9a-f]+|\d+)$")


class Op:
    """parsed operand: kind in {'g','v','k','m','i','?'}"""
    __slots__ = ("kind", "reg", "width", "size", "base", "index", "disp", "rip", "seg", "text", "vecidx", "addr32")

    def __init__(self, text):
        self.text = text
        self.kind = "?"
        self.reg = self.width = self.size = self.base = self.index = self.seg = None
        self.disp = 0
        self.rip = False
        self.vecidx = False
        self.addr32 = False     # 32-bit address-size override ([r8d+0xf]): only accepted in source operands
        t = text.strip()
        if t in REG:
            self.kind = "g"
            self.reg, self.width = REG[t]
            return
        m = VEC_RE.match(t)
        if m:
            self.kind = "v"
            self.width = {"x": 16, "y": 32, "z": 64}[m.group(1)]
            return
        if K_RE.match(t):
            self.kind = "k"
            return
        if IMM_RE.match(t):
            self.kind = "i"
            self.disp = int(t, 0)
            if self.disp >= 1 << 63:       # objdump prints sign-extended immediates as 64-bit hex
                self.disp -= 1 << 64
            return
        m = SEGABS_RE.match(t)
        if m:
            # fs:0x28 (stack protector canary): an absolute segment-relative address
            self.kind = "m"
            self.size = PTR_SIZE.get(m.group(1)) if m.group(1) else None
            self.seg = m.group(2)
            self.disp = int(m.group(3), 0)
            return
        m = MEM_RE.match(t)
        if m:
            self.size = PTR_SIZE.get(m.group(1)) if m.group(1) else None
            if m.group(1) and m.group(1) not in PTR_SIZE:
                return  # unknown size keyword -> '?'
            self.seg = m.group(2)
            inner = m.group(3).replace(" ", "")
            # split into signed terms
            terms = re.findall(r"[+-]?[^+-]+", inner)
            ok = True
            for term in terms:
                sign = -1 if term.startswith("-") else 1
                term = term.lstrip("+-")
                if term == "rip":
                    self.rip = True
                elif term in REG and REG[term][1] == 4 and sign == 1 and self.base is None and self.index is None:
                    self.addr32 = True
                    self.index = -1          # never a trackable address
                elif term in REG and REG[term][1] == 8 and sign == 1:
                    if self.base is None:
                        self.base = REG[term][0]
                    elif self.index is None:
                        self.index = REG[term][0]
                    else:
                        ok = False
                elif re.match(r"^(\w+)\*([1248])$", term) and sign == 1:
                    mm = re.match(r"^(\w+)\*([1248])$", term)
                    if mm.group(1) in REG and REG[mm.group(1)][1] == 8 and self.index is None:
                        self.index = REG[mm.group(1)][0]
                    elif re.match(r"^[xyz]mm\d+$", mm.group(1)) and self.index is None:
                        self.vecidx = True
                        self.index = -1
                    else:
                        ok = False
                elif IMM_RE.match(term):
                    self.disp += sign * int(term, 0)
                else:
                    ok = False
            if ok:
                self.kind = "m"
            return


def splitops(ops):
    res, d, cur = [], 0, ""
    for c in ops:
        if c in "[{":
            d += 1
        if c in "]}":
            d -= 1
        if c == "," and d == 0:
            res.append(cur.strip())
            cur = ""
        else:
            cur += c
    if cur.strip():
        res.append(cur.strip())
    return res


# ------------------------------------------------------------------------------------------------
# mnemonic classes

# first operand is the (only) destination: GPR -> write mask, memory -> store, vector/mask -> nothing
W1_INT = set("""adc add and andn blsi blsmsk blsr bextr bzhi bswap dec inc imul lea mov movabs movsx movsxd movzx movbe
    neg not or pext pdep rol ror rcl rcr rorx sar shl shr sal sarx shlx shrx sbb sub xor popcnt lzcnt tzcnt bsf bsr
    shld shrd bts btr btc crc32 movnti
    cmova cmovae cmovb cmovbe cmovc cmove cmovg cmovge cmovl cmovle cmovna cmovnae cmovnb cmovnbe cmovnc cmovne
    cmovng cmovnge cmovnl cmovnle cmovno cmovnp cmovns cmovnz cmovo cmovp cmovpe cmovpo cmovs cmovz
    seta setae setb setbe setc sete setg setge setl setle setna setnae setnb setnbe setnc setne setng setnge setnl
    setnle setno setnp setns setnz seto setp setpe setpo sets setz""".split())

# SIMD / opmask instructions whose destination is the first operand (vector, mask, GPR or memory)
W1_SIMD = set("""
    aesdec aesdeclast aesenc aesenclast aesimc aeskeygenassist
    movapd movaps movd movdqa movdqu movntdq movntdqa movq movupd movups movntps movntpd movlps movhps movlpd movhpd
    movss movsd movhlps movlhps movddup movshdup movsldup lddqu
    paddb paddw paddd paddq psubb psubw psubd psubq palignr pand pandn por pxor pblendvb pblendw
    pclmulqdq pclmulhqhqdq pclmulhqlqdq pclmullqhqdq pclmullqlqdq
    pcmpeqb pcmpeqw pcmpeqd pcmpeqq pcmpgtb pcmpgtw pcmpgtd pcmpgtq
    pextrb pextrw pextrd pextrq pinsrb pinsrw pinsrd pinsrq pminud pmaxud pminsd pmaxsd pminub pmaxub pmovmskb
    pmuludq pmulld pmullw pmaddwd
    pshufb pshufd pshufhw pshuflw pslld pslldq psllq psllw psrld psrldq psrlq psrlw psrad psraw
    punpcklbw punpcklwd punpckldq punpcklqdq punpckhbw punpckhwd punpckhdq punpckhqdq
    pmovzxbd pmovzxdq pmovzxbw pmovzxwd pmovzxbq pmovzxwq pabsd
    sha1msg1 sha1msg2 sha1nexte sha1rnds4 sha256msg1 sha256msg2 sha256rnds2
    shufpd shufps xorps xorpd andps andpd orps orpd andnps andnpd unpcklps unpckhps unpcklpd unpckhpd
    blendvps blendvpd blendps blendpd insertps extractps
    vaesdec vaesdeclast vaesenc vaesenclast vaesimc vaeskeygenassist
    valignq valignd vbroadcastf64x2 vbroadcasti128 vbroadcastf128 vbroadcasti32x4 vbroadcasti64x2 vbroadcasti64x4
    vbroadcastss vbroadcastsd vbroadcasti32x8 vbroadcastf32x4
    vextracti32x4 vextracti64x4 vextracti64x2 vextracti128 vextractf128 vextracti32x8 vextractf32x4 vextractf64x4
    vinserti32x4 vinserti64x2 vinserti64x4 vinserti128 vinsertf128 vinserti32x8
    vmovaps vmovapd vmovd vmovdqa vmovdqa32 vmovdqa64 vmovdqu vmovdqu8 vmovdqu16 vmovdqu32 vmovdqu64
    vmovntdq vmovntdqa vmovq vmovupd vmovups vmovss vmovsd vmovddup vmovshdup vmovsldup vlddqu
    vmovhlps vmovlhps vmovlps vmovhps vmovlpd vmovhpd
    vpaddb vpaddw vpaddd vpaddq vpsubb vpsubw vpsubd vpsubq vpalignr vpand vpandn vpandd vpandq vpandnd vpandnq
    vpblendvb vpblendd vpblendw vpblendmd vpblendmq vpblendmb vpblendmw
    vpbroadcastb vpbroadcastw vpbroadcastd vpbroadcastq
    vpclmulqdq vpclmulhqhqdq vpclmulhqlqdq vpclmullqhqdq vpclmullqlqdq
    vpcmpeqb vpcmpeqw vpcmpeqd vpcmpeqq vpcmpgtb vpcmpgtw vpcmpgtd vpcmpgtq
    vpcmpb vpcmpw vpcmpd vpcmpq vpcmpub vpcmpuw vpcmpud vpcmpuq vptestmb vptestmw vptestmd vptestmq
    vptestnmb vptestnmw vptestnmd vptestnmq
    vperm2f128 vperm2i128 vpermi2q vpermt2q vpermi2d vpermt2d vpermi2b vpermt2b vpermd vpermq vpermb vpermw
    vpermilps vpermilpd vpermps vpermpd
    vpextrb vpextrw vpextrd vpextrq vpinsrb vpinsrw vpinsrd vpinsrq
    vpminud vpminuq vpmaxud vpmaxuq vpminsd vpmaxsd vpminub vpmaxub vpmovmskb
    vpmuludq vpmulld vpmullw vpmaddwd
    vpor vpord vporq vpxor vpxord vpxorq
    vprold vprolq vprord vprorq vprolvd vprolvq vprorvd vprorvq vpshrdq vpshrdd vpshldq vpshldd
    vpshufb vpshufd vpshufhw vpshuflw vpslld vpslldq vpsllq vpsllw vpsllvd vpsllvq
    vpsrad vpsraq vpsraw vpsrld vpsrldq vpsrlq vpsrlw vpsrlvd vpsrlvq vpsravd vpsravq
    vpunpcklbw vpunpcklwd vpunpckldq vpunpcklqdq vpunpckhbw vpunpckhwd vpunpckhdq vpunpckhqdq
    vpmovzxbd vpmovzxdq vpmovzxbw vpmovzxwd vpmovzxbq vpmovzxwq vpabsd
    vpternlogd vpternlogq vpcompressd vpcompressq vpexpandd vpexpandq
    vshuff64x2 vshuff32x4 vshufi32x4 vshufi64x2 vshufpd vshufps vxorps vxorpd vandps vandpd vorps vorpd
    vandnps vandnpd vunpcklps vunpckhps vunpcklpd vunpckhpd vblendvps vblendvpd vblendps vblendpd
    vpmovqd vpmovdb vpmovwb vpmovm2b vpmovm2w vpmovm2d vpmovm2q vpmovb2m vpmovw2m vpmovd2m vpmovq2m
    kmovb kmovw kmovd kmovq kandb kandw kandd kandq kandnb kandnw kandnd kandnq korb korw kord korq
    kxorb kxorw kxord kxorq kxnorb kxnorw kxnord kxnorq knotb knotw knotd knotq
    kshiftlb kshiftlw kshiftld kshiftlq kshiftrb kshiftrw kshiftrd kshiftrq kaddb kaddw kaddd kaddq
    kunpckbw kunpckwd kunpckdq
    gf2p8affineqb gf2p8affineinvqb gf2p8mulb vgf2p8affineqb vgf2p8affineinvqb vgf2p8mulb
    """.split())

# no register or memory result (flags, hints, fences, vector-state housekeeping that is not ABI relevant)
NOWRITE = set("""cmp test bt nop nopw nopl endbr64 pause cmc clc stc cld
    prefetcht0 prefetcht1 prefetcht2 prefetchnta prefetchw prefetchwt1
    lfence mfence sfence vzeroupper vzeroall
    ptest vptest comiss comisd ucomiss ucomisd vcomiss vcomisd vucomiss vucomisd
    kortestb kortestw kortestd kortestq ktestb ktestw ktestd ktestq""".split())

# instructions that can change DF, MXCSR, the x87 control word or the x87/MMX state
FORBIDDEN = set("""std ldmxcsr vldmxcsr fldcw fninit finit fnclex fclex fxrstor fxrstor64 xrstor xrstor64 xrstors xrstors64
    frstor fldenv emms femms popf popfq popfd wrmsr xsetbv wrpkru""".split())


def is_x87_or_mmx(mnem, ops):
    """x87 data instructions and MMX register forms: outside the model -> forbidden"""
    if mnem.startswith("f") and mnem not in ("fs",):
        return True
    return any(re.match(r"^mm[0-7]$", o) or o.startswith("st") for o in ops)


# implicit GPR writes of the special forms (mask bits)
def bits(*regs):
    m = 0
    for r in regs:
        m |= 1 << R64.index(r)
    return m


IMPLICIT = {
    "cpuid": bits("rax", "rbx", "rcx", "rdx"),
    "xgetbv": bits("rax", "rdx"),
    "rdtsc": bits("rax", "rdx"),
    "rdtscp": bits("rax", "rdx", "rcx"),
    "cwd": bits("rdx"), "cdq": bits("rdx"), "cqo": bits("rdx"),
    "cbw": bits("rax"), "cwde": bits("rax"), "cdqe": bits("rax"),
    "lahf": bits("rax"),
    "sahf": 0,
}
ONEOP_MULDIV = {"mul", "imul", "div", "idiv"}   # one-operand forms: rdx:rax


class Eff:
    """Effect of one instruction in the abstract instruction language.
    kind: plain | push | pushany | pop | addrsp | andrsp | movrr | lea | load | store | storek | storeidx
          | storestatic | leave | ret | jmp | jcc | call | forbidden | unsupported
    w   : GPR write mask (for plain-like kinds; for store kinds the additional register writes)
    """
    __slots__ = ("kind", "w", "sb", "a", "b", "c", "why", "static")

    def __init__(self, kind, w=0, sb=0, a=0, b=0, c=0, why="", static=None):
        self.kind, self.w, self.sb, self.a, self.b, self.c, self.why, self.static = kind, w, sb, a, b, c, why, static

    def __repr__(self):
        return "Eff(%s w=%04x sb=%04x a=%s b=%s c=%s %s)" % (self.kind, self.w, self.sb, self.a, self.b, self.c, self.why)


def unsupported(why):
    return Eff("unsupported", why=why)


def store_eff(op, src_reg64, extra_w, ins):
    """effect of a memory write through operand `op` (kind 'm').  src_reg64 = index of a 64-bit GPR source or None."""
    if op.seg is not None:
        return unsupported("segment-relative store")
    if op.addr32:
        return unsupported("store with 32-bit address size")
    if op.rip:
        if op.base is not None or op.index is not None:
            return unsupported("rip with base/index")
        return Eff("storestatic", w=extra_w, static=True)
    if op.base is None:
        return unsupported("store without base register")
    if op.index is not None:
        return Eff("storeidx", w=extra_w, a=op.base)
    size = op.size
    if size is None:
        size = 64   # unknown width: assume the widest
    if src_reg64 is not None and size == 8:
        return Eff("store", w=extra_w, a=op.base, b=op.disp, c=src_reg64)
    return Eff("storek", w=extra_w, a=op.base, b=op.disp, c=size)


def effect(ins):
    """Eff of a non-control-flow instruction (control flow is classified by the CFG builder)."""
    mn = ins.mnem
    raw_ops = splitops(ins.ops)
    if mn in FORBIDDEN or is_x87_or_mmx(mn, raw_ops):
        return Eff("forbidden", why=mn)
    ops = [Op(o) for o in raw_ops]
    if any(o.kind == "?" for o in ops):
        return unsupported("operand: " + ins.ops)
    rep = any(p in ("rep", "repz", "repnz") for p in ins.prefix)
    for p in ins.prefix:
        if p not in ("rep", "repz", "repnz", "lock", "cs", "ds", "es", "ss", "notrack", "bnd", "data16"):
            return unsupported("prefix " + p)

    # ---- stack forms
    if mn == "push":
        if len(ops) != 1:
            return unsupported("push arity")
        o = ops[0]
        if o.kind == "g" and o.width == 8:
            return Eff("push", a=o.reg)
        if o.kind in ("i", "m"):
            return Eff("pushany")
        return unsupported("push operand")
    if mn == "pop":
        if len(ops) == 1 and ops[0].kind == "g" and ops[0].width == 8 and ops[0].reg != RSP:
            return Eff("pop", a=ops[0].reg)
        return unsupported("pop operand")
    if mn == "leave":
        return Eff("leave")
    if mn in ("pushf", "pushfq"):
        return Eff("pushany")

    # ---- special register writers
    if mn in IMPLICIT and not ops:
        return Eff("plain", w=IMPLICIT[mn])
    if mn in ONEOP_MULDIV and len(ops) == 1:
        return Eff("plain", w=bits("rax", "rdx"))
    if mn == "mulx" and len(ops) == 3 and ops[0].kind == "g" and ops[1].kind == "g":
        return Eff("plain", w=(1 << ops[0].reg) | (1 << ops[1].reg))
    if mn in ("xchg", "xadd"):
        if len(ops) != 2:
            return unsupported(mn)
        w = 0
        st = None
        for o in ops:
            if o.kind == "g":
                w |= 1 << o.reg
            elif o.kind == "m":
                st = o
            else:
                return unsupported(mn)
        if w & (1 << RSP):
            return unsupported("xchg with rsp")
        if st is not None:
            return store_eff(st, None, w, ins)
        return Eff("plain", w=w)
    if mn in ("cmpxchg",):
        if len(ops) != 2 or ops[1].kind != "g":
            return unsupported(mn)
        w = bits("rax")
        if ops[0].kind == "g":
            return Eff("plain", w=w | (1 << ops[0].reg))
        return store_eff(ops[0], None, w, ins)
    if mn in ("cmpxchg16b", "cmpxchg8b"):
        if len(ops) != 1 or ops[0].kind != "m":
            return unsupported(mn)
        return store_eff(ops[0], None, bits("rax", "rdx"), ins)
    if mn in ("movs", "movsb", "movsw", "movsq", "stos", "stosb", "stosw", "stosd", "stosq", "lods", "scas", "cmps") \
            or (mn == "movsd" and (not ops or all(o.kind == "m" for o in ops))):
        # string instructions: implicit rsi/rdi (+rcx with rep); movs/stos store through rdi with a run-time extent
        base = mn[:4]
        w = 0
        if base in ("movs", "cmps"):
            w = bits("rsi", "rdi")
        elif base in ("stos", "scas"):
            w = bits("rdi")
        elif base == "lods":
            w = bits("rsi", "rax")
        if rep:
            w |= bits("rcx")
        if base in ("movs", "stos"):
            return Eff("storeidx", w=w, a=R64.index("rdi"))
        return Eff("plain", w=w)

    if mn in NOWRITE:
        return Eff("plain")

    if mn in W1_INT or mn in W1_SIMD:
        if not ops:
            return unsupported("no operands: " + mn)
        d = ops[0]
        # scatter stores: vector index
        if d.kind == "m":
            if d.vecidx:
                return Eff("storeidx", a=d.base if d.base is not None else 0) if d.base is not None else unsupported("scatter")
            src = None
            if mn == "mov" and len(ops) == 2 and ops[1].kind == "g" and ops[1].width == 8:
                src = ops[1].reg
            if d.size is None and len(ops) >= 2:
                # width from the source register
                s = ops[1]
                if s.kind == "g" or s.kind == "v":
                    d.size = s.width
            return store_eff(d, src, 0, ins)
        if d.kind in ("v", "k"):
            return Eff("plain")
        if d.kind != "g":
            return unsupported("destination: " + ins.ops)
        # ---- GPR destination
        if d.reg == RSP:
            # only the recognised stack-pointer forms
            if d.width != 8:
                return unsupported("partial write to rsp")
            if mn in ("add", "sub") and len(ops) == 2 and ops[1].kind == "i":
                return Eff("addrsp", a=ops[1].disp if mn == "add" else -ops[1].disp)
            if mn == "and" and len(ops) == 2 and ops[1].kind == "i":
                m = ops[1].disp & 0xFFFFFFFFFFFFFFFF
                low = (~m) & 0xFFFFFFFFFFFFFFFF
                if low & (low + 1) or low >= (1 << 16):
                    return unsupported("and rsp with a non-alignment mask")
                return Eff("andrsp", a=low)
            # mov/lea/load fall through to the generic move forms below
            if mn not in ("mov", "lea"):
                return unsupported("write to rsp by " + mn)
        if mn == "mov" and len(ops) == 2:
            s = ops[1]
            if d.width == 8 and s.kind == "g" and s.width == 8:
                return Eff("movrr", a=d.reg, b=s.reg)
            if d.width == 8 and s.kind == "m" and s.size == 8 and s.seg is None and not s.rip \
                    and s.base is not None and s.index is None:
                return Eff("load", a=d.reg, b=s.base, c=s.disp)
            if d.reg == RSP:
                return unsupported("mov rsp from " + s.text)
            return Eff("plain", w=1 << d.reg)
        if mn == "lea" and len(ops) == 2 and ops[1].kind == "m":
            s = ops[1]
            if d.width == 8 and s.seg is None and not s.rip and s.base is not None and s.index is None:
                return Eff("lea", a=d.reg, b=s.base, c=s.disp)
            if d.reg == RSP:
                return unsupported("lea rsp from " + s.text)
            return Eff("plain", w=1 << d.reg)
        return Eff("plain", w=1 << d.reg)

    return unsupported("mnemonic " + mn)
