"""objdump/nm front end: instructions, symbols, relocations and CFG-reachable functions of every
object of the library built from the current tree.  Shared by the dispatch (C12), ABI (C19),
statics (C18) and ISA-requirement translators.

Functions are delimited by CFG reachability from entry symbols (fall-through, direct jumps), never
by linear sweep: several objects carry data inside .text (slversion records, SM3 tables)."""
import os, re, subprocess, pickle, hashlib

INSN_RE = re.compile(r"^\s*([0-9a-f]+):\t((?:[0-9a-f]{2} )+)\s*\t?(.*)$")
RELOC_RE = re.compile(r"^\s*([0-9a-f]+): (R_X86_64_\w+)\s+(\S+?)([-+]0x[0-9a-f]+)?$")
SEC_RE = re.compile(r"^Disassembly of section (\S+):")
LAB_RE = re.compile(r"^([0-9a-f]+) <(.+)>:$")

JCC = {"jo", "jno", "jb", "jae", "je", "jne", "jbe", "ja", "js", "jns", "jp", "jnp", "jl", "jge", "jle", "jg",
       "jc", "jnc", "jz", "jnz", "jna", "jnbe", "jnae", "jnb", "jpe", "jpo", "jnge", "jnl", "jng", "jnle",
       "jrcxz", "jecxz", "loop", "loope", "loopne"}


NORETURN = {"__stack_chk_fail", "abort", "__assert_fail", "exit", "_exit"}


class Insn:
    __slots__ = ("addr", "size", "raw", "mnem", "ops", "reloc", "prefix")

    def __init__(self, addr, raw, text):
        self.addr = addr
        self.raw = raw
        self.size = len(raw)
        text = text.strip()
        # strip comments like "# 0x123 <sym>"
        text = re.sub(r"\s+#.*$", "", text)
        parts = text.split(None, 1)
        self.prefix = []
        while parts and parts[0] in ("rep", "repz", "repnz", "lock", "notrack", "bnd", "data16", "cs", "ds", "es", "ss", "fs", "gs") and len(parts) > 1:
            self.prefix.append(parts[0])
            parts = parts[1].split(None, 1)
        self.mnem = parts[0] if parts else ""
        self.ops = parts[1].strip() if len(parts) > 1 else ""
        self.reloc = None

    def __repr__(self):
        return "%x: %s %s" % (self.addr, self.mnem, self.ops)


class Obj:
    def __init__(self, path):
        self.path = path
        self.name = os.path.basename(path)
        self.insns = {}      # section -> {addr: Insn}
        self.labels = {}     # section -> {addr: [names]}
        self.symbols = {}    # name -> (section, addr, kind)  kind: nm letter
        self.undefined = set()
        self._parse()

    def _parse(self):
        nm = subprocess.run(["nm", "-f", "sysv", self.path], capture_output=True, text=True).stdout
        for line in nm.split("\n"):
            f = [x.strip() for x in line.split("|")]
            if len(f) < 7 or f[0] in ("Name", ""):
                continue
            name, val, cls, typ, size, _, sec = f[:7]
            if cls == "U":
                self.undefined.add(name)
                continue
            if not val:
                continue
            self.symbols[name] = (sec, int(val, 16), cls, typ, int(size, 16) if size else 0)
        out = subprocess.run(["objdump", "-dr", "-M", "intel", "-w", "--section=.text", self.path],
                             capture_output=True, text=True).stdout
        sec = None
        last = None
        for line in out.split("\n"):
            m = SEC_RE.match(line)
            if m:
                sec = m.group(1)
                self.insns.setdefault(sec, {})
                self.labels.setdefault(sec, {})
                continue
            if sec is None:
                continue
            m = LAB_RE.match(line)
            if m:
                self.labels[sec].setdefault(int(m.group(1), 16), []).append(m.group(2))
                continue
            m = INSN_RE.match(line)
            if m:
                addr = int(m.group(1), 16)
                raw = bytes.fromhex(m.group(2).replace(" ", ""))
                if m.group(3).strip() == "" and last is not None and last.addr + last.size == addr:
                    # continuation line of a long instruction
                    last.raw += raw
                    last.size = len(last.raw)
                    continue
                parts = m.group(3).split("\t")
                ins = Insn(addr, raw, parts[0])
                self.insns[sec][addr] = ins
                last = ins
                if len(parts) > 1:
                    mr = RELOC_RE.match(" ".join(x.strip() for x in parts[1:]))
                    if mr:
                        add = int(mr.group(4), 16) if mr.group(4) else 0
                        ins.reloc = (mr.group(2), mr.group(3), add, int(mr.group(1), 16) - addr)
                continue
            m = RELOC_RE.match(line)
            if m and last is not None:
                off = int(m.group(1), 16)
                add = int(m.group(4), 16) if m.group(4) else 0
                if last.addr <= off < last.addr + last.size + 8:
                    last.reloc = (m.group(2), m.group(3), add, off - last.addr)


def load_objects(objdir):
    """parse every object of a build (cached in the build directory)"""
    cache = os.path.join(objdir, "..", "disasm.pickle")
    if os.path.exists(cache):
        try:
            return pickle.load(open(cache, "rb"))
        except Exception:
            pass
    from concurrent.futures import ThreadPoolExecutor
    paths = sorted(os.path.join(objdir, f) for f in os.listdir(objdir) if f.endswith(".o"))
    with ThreadPoolExecutor(max_workers=16) as ex:
        objs = list(ex.map(Obj, paths))
    d = {o.name: o for o in objs}
    tmp = cache + ".tmp%d" % os.getpid()
    pickle.dump(d, open(tmp, "wb"))
    os.replace(tmp, cache)
    return d


class Archive:
    def __init__(self, objdir):
        self.objs = load_objects(objdir)
        self.globals = {}   # name -> (objname, section, addr)
        for o in self.objs.values():
            for n, (sec, addr, cls, typ, size) in o.symbols.items():
                if cls in ("T", "D", "B", "R", "W", "V") and (n not in self.globals or cls == "T"):
                    self.globals[n] = (o.name, sec, addr)

    def resolve(self, objname, name):
        """symbol -> (objname, section, addr) preferring a definition local to the object"""
        o = self.objs[objname]
        if name in o.symbols:
            sec, addr = o.symbols[name][0], o.symbols[name][1]
            return (objname, sec, addr)
        return self.globals.get(name)

    def target_of(self, objname, sec, ins):
        """branch/call target of `ins`: ('local', addr) | ('sym', (obj,sec,addr), name) | ('ext', name) | ('ind', text) | None"""
        if ins.reloc and ins.mnem in ("call", "jmp") or (ins.reloc and ins.mnem in JCC):
            kind, sym, add, _ = ins.reloc
            if kind in ("R_X86_64_PLT32", "R_X86_64_PC32"):
                if sym.startswith("."):
                    # section-relative: sym is a section name; target = section + add + 4
                    return ("local_sec", sym, add + 4)
                r = self.resolve(objname, sym)
                if r is None:
                    return ("ext", sym)
                return ("sym", r, sym)
        ops = ins.ops
        m = re.match(r"^([0-9a-f]+)(?: <.*>)?$", ops)
        if m:
            return ("local", int(m.group(1), 16))
        return ("ind", ops)

    def function(self, objname, sec, entry, follow_tail_jumps=True):
        """CFG-reachable instructions from (objname, sec, entry).
        Returns (insns: {addr: Insn}, calls: set of resolved callee keys/ext names, tailjumps, indirect)"""
        o = self.objs[objname]
        code = o.insns.get(sec, {})
        seen, calls, tails, indirect, bad = {}, set(), set(), [], []
        work = [entry]
        while work:
            a = work.pop()
            while a not in seen:
                ins = code.get(a)
                if ins is None:
                    bad.append(a)
                    break
                seen[a] = ins
                mn = ins.mnem
                if mn == "jmp":
                    t = self.target_of(objname, sec, ins)
                    if t[0] == "local":
                        work.append(t[1])
                    elif t[0] == "sym":
                        if t[1][0] == objname and t[1][1] == sec:
                            work.append(t[1][2])   # jump to a label of the same section: same function body
                        else:
                            tails.add((t[1], t[2]))
                    elif t[0] == "ext":
                        tails.add((None, t[1]))
                    elif t[0] == "local_sec":
                        if t[1] == sec:
                            work.append(t[2])
                    else:
                        indirect.append(ins)
                    break
                if mn in JCC:
                    t = self.target_of(objname, sec, ins)
                    if t[0] == "local":
                        work.append(t[1])
                    elif t[0] == "sym" and t[1][0] == objname and t[1][1] == sec:
                        work.append(t[1][2])
                    elif t[0] == "local_sec" and t[1] == sec:
                        work.append(t[2])
                    else:
                        bad.append(a)
                elif mn == "call":
                    t = self.target_of(objname, sec, ins)
                    if t[0] == "local":
                        calls.add(((objname, sec, t[1]), None))
                    elif t[0] == "sym":
                        calls.add((t[1], t[2]))
                    elif t[0] == "ext":
                        calls.add((None, t[1]))
                        if t[1] in NORETURN:
                            break
                    elif t[0] == "local_sec":
                        calls.add(((objname, t[1], t[2]), None))
                    else:
                        indirect.append(ins)
                elif mn in ("ret", "retf", "ud2", "hlt"):
                    break
                a = ins.addr + ins.size
        return seen, calls, tails, indirect, bad


# ----------------------------------------------------------------------------- ISA classes

VEC_RE = re.compile(r"\b([xyz])mm(\d+)\b")


def enc_kind(raw):
    """'evex' | 'vex' | 'legacy' from the instruction bytes (legacy prefixes skipped)"""
    i = 0
    while i < len(raw) and raw[i] in (0x66, 0xF2, 0xF3, 0x2E, 0x36, 0x3E, 0x26, 0x64, 0x65, 0x67, 0xF0):
        i += 1
    if i < len(raw):
        b = raw[i]
        if b == 0x62:
            return "evex"
        if b in (0xC4, 0xC5):
            return "vex"
    return "legacy"


SSE2 = {"movdqa", "movdqu", "pxor", "paddd", "paddq", "psubd", "pslld", "psrld", "psllq", "psrlq", "pslldq", "psrldq",
        "por", "pand", "pandn", "pshufd", "movq", "movd", "punpckldq", "punpcklqdq", "punpckhdq", "punpckhqdq",
        "pcmpeqd", "pmaddwd", "pminsw", "movntdq", "movapd", "movupd", "shufpd", "pause", "paddb", "paddw", "psubq",
        "pshuflw", "pshufhw", "pmuludq", "movnti", "lfence", "mfence", "clflush"}
SSE1 = {"movaps", "movups", "shufps", "xorps", "andps", "orps", "prefetcht0", "prefetcht1", "prefetcht2", "prefetchnta", "sfence", "movntps", "ldmxcsr", "stmxcsr"}
SSSE3 = {"pshufb", "palignr", "pabsd", "phaddd"}
SSE41 = {"pinsrd", "pinsrq", "pinsrb", "pextrd", "pextrq", "pextrb", "pminud", "pmaxud", "pblendvb", "pblendw", "ptest", "movntdqa",
         "pmulld", "pcmpeqq", "pmovzxbd", "pmovzxdq", "insertps", "blendvps", "pminsd", "pmaxsd", "pminuw"}
SSE42 = {"pcmpgtq", "crc32", "pcmpistri", "pcmpestri"}
AESNI = {"aesenc", "aesenclast", "aesdec", "aesdeclast", "aesimc", "aeskeygenassist"}
SHA = {"sha1rnds4", "sha1nexte", "sha1msg1", "sha1msg2", "sha256rnds2", "sha256msg1", "sha256msg2"}
BMI2 = {"rorx", "pext", "pdep", "shlx", "shrx", "sarx", "mulx", "bzhi"}
BMI1 = {"andn", "blsr", "blsi", "blsmsk", "bextr", "tzcnt"}
AVX2_ONLY = {"vperm2i128", "vpbroadcastd", "vpbroadcastq", "vpbroadcastb", "vpbroadcastw", "vbroadcasti128", "vinserti128",
             "vextracti128", "vpermd", "vpermq", "vpsllvd", "vpsllvq", "vpsrlvd", "vpsrlvq", "vpsravd", "vpgatherdd", "vpgatherdq",
             "vpgatherqd", "vpgatherqq", "vpblendd", "vpmaskmovd", "vpmaskmovq"}
EVEX_BW = re.compile(r"^(vmovdqu8|vmovdqu16|vpshufb|vpalignr|vpadd[bw]|vpsub[bw]|vpadds[bw]|vpaddus[bw]|vpcmp(eq|gt|u|)?[bw]|vpunpck[lh](bw|wd)|"
                     r"vpack[su]s(wb|dw)|vperm[it]?2?w|vpermw|vps[lr][la]w|vpsllvw|vpsrlvw|vpsravw|vpavg[bw]|vpmaddwd|vpmaddubsw|vpmul[lh]u?w|"
                     r"vpmin[su][bw]|vpmax[su][bw]|vpabs[bw]|vpbroadcast[bw]|vpblendm[bw]|vpmov[bw]2m|vpmovm2[bw]|vptestn?m[bw]|vdbpsadbw|"
                     r"vpsadbw|vpslldq|vpsrldq|kmov[dq]|kunpck(wd|dq)|kadd[dq]|kand[dq]|kandn[dq]|kor[dq]|kxor[dq]|kxnor[dq]|knot[dq]|kortest[dq]|ktest[dq]|kshift[lr][dq]|vpextr[bw]|vpinsr[bw])$")
EVEX_DQ = re.compile(r"^(vpmullq|vcvt\w*qq\w*|kmovb|kaddb|kandb|kandnb|korb|kxorb|kxnorb|knotb|kortestb|ktest[bw]|kshift[lr]b|vinsert[if](64x2|32x8)|"
                     r"vextract[if](64x2|32x8)|vbroadcast[if](64x2|32x8|32x2)|vpextr[dq]|vpinsr[dq]|vandp[sd]|vandnp[sd]|vorp[sd]|vxorp[sd]|"
                     r"vpmov[dq]2m|vpmovm2[dq]|vrange\w+|vreduce\w+|vfpclass\w+)$")
EVEX_CD = re.compile(r"^(vpconflict[dq]|vplzcnt[dq]|vpbroadcastm\w+)$")
EVEX_VBMI2 = re.compile(r"^(vpsh[lr]d[wdq]|vpsh[lr]dv[wdq]|vpcompress[bw]|vpexpand[bw])$")
EVEX_VNNI = re.compile(r"^(vpdpbusds?|vpdpwssds?)$")
EVEX_BITALG = re.compile(r"^(vpopcnt[bw]|vpshufbitqmb)$")
EVEX_VPOPCNT = re.compile(r"^(vpopcnt[dq])$")
GFNI = re.compile(r"^v?gf2p8\w+$")
BASE_OK = re.compile(r"^(mov|movzx|movsx|movsxd|movabs|lea|add|sub|adc|sbb|and|or|xor|not|neg|inc|dec|cmp|test|shl|shr|sar|sal|rol|ror|rcl|rcr|"
                     r"shld|shrd|imul|mul|div|idiv|push|pop|call|ret|jmp|nop|xchg|bswap|bt|bts|btr|btc|bsf|bsr|cmov\w+|set\w+|j\w+|leave|"
                     r"cwde|cdqe|cdq|cqo|cbw|endbr64|cpuid|xgetbv|cmpxchg|xadd|stos|movs|cmps|lods|scas|std|cld|clc|stc|cmc|sahf|lahf|"
                     r"pushf|popf|ud2|hlt|int3|loop\w*|cwd|movbe_not|enter|rdtsc)$")


def isa_classes(ins):
    """set of ISA class names needed to execute `ins`"""
    mn = ins.mnem
    kind = enc_kind(ins.raw)
    regs = VEC_RE.findall(ins.ops)
    widths = {r[0] for r in regs}
    hi = any(int(r[1]) >= 16 for r in regs)
    if kind == "evex":
        cls = {"avx512f"}
        base = mn
        if GFNI.match(mn):
            cls.add("gfni")
        if mn.startswith("vaes"):
            cls.add("vaes")
        if mn.startswith("vpclmul"):
            cls.add("vpclmulqdq")
        if EVEX_BW.match(base):
            cls.add("avx512bw")
        if EVEX_DQ.match(base):
            cls.add("avx512dq")
        if EVEX_CD.match(base):
            cls.add("avx512cd")
        if EVEX_VBMI2.match(base):
            cls.add("avx512vbmi2")
        if EVEX_VNNI.match(base):
            cls.add("avx512vnni")
        if EVEX_BITALG.match(base):
            cls.add("avx512bitalg")
        if EVEX_VPOPCNT.match(base):
            cls.add("avx512vpopcntdq")
        if "z" not in widths and (widths or "{" in ins.ops) and not mn.startswith("k"):
            cls.add("avx512vl")
        return cls
    if kind == "vex":
        if mn in BMI2:
            return {"bmi2"}
        if mn in BMI1:
            return {"bmi1"}
        if mn.startswith("k"):
            # opmask instructions are VEX encoded but belong to AVX-512
            if re.match(r"^k\w+[dq]$", mn):
                return {"avx512f", "avx512bw"}
            if re.match(r"^k\w+b$", mn):
                return {"avx512f", "avx512dq"}
            return {"avx512f"}
        cls = {"avx"}
        if mn.startswith("vaes"):
            cls.add("aesni" if "y" not in widths else "vaes")
        if mn.startswith("vpclmul"):
            cls.add("pclmul" if "y" not in widths else "vpclmulqdq")
        if GFNI.match(mn):
            cls.add("gfni")
        if mn in AVX2_ONLY:
            cls.add("avx2")
        elif "y" in widths and re.match(r"^vp", mn) and mn not in ("vperm2f128", "vpermilps", "vpermilpd", "vptest"):
            cls.add("avx2")   # 256-bit integer SIMD
        elif "y" in widths and mn in ("vmovntdqa",):
            cls.add("avx2")
        if mn.startswith("vfm") or mn.startswith("vfnm"):
            cls.add("fma")
        return cls
    # legacy encodings
    if mn in SSE2:
        # movq/movd between GPRs and xmm are SSE2; plain mov is base
        return {"sse2"}
    if mn in SSE1:
        return {"sse"}
    if mn in SSSE3:
        return {"ssse3"}
    if mn in SSE41:
        return {"sse4_1"}
    if mn in SSE42:
        return {"sse4_2"}
    if mn in AESNI:
        return {"aesni"}
    if mn.startswith("pclmul"):
        return {"pclmul"}
    if mn in SHA:
        return {"sha"}
    if mn == "popcnt":
        return {"popcnt"}
    if mn == "lzcnt":
        return {"lzcnt"}
    if mn == "movbe":
        return {"movbe"}
    if mn == "tzcnt":
        return {"bmi1"}
    if GFNI.match(mn):
        return {"gfni"}
    if BASE_OK.match(mn):
        return set()
    return {"unknown:" + mn}
