"""Engine Scrub (property C14) - front end and python side of the certificate computation.

  load(build_dir)      -> Lib restricted to the AES objects (objects built from <tree>/aes/*.asm|*.c)
  build_records(L, f)  -> f.srecs : one Scrub record per instruction (base X86Abs record + ghost effect)
  analyse(L)           -> ghost fixpoints, summaries, rule per function, python twin of the Lean checker

Abstract ghost state (mirror of Impl/Scrub.lean `G`):
  vw    mask of vector parts that may hold something else than their entry value or zero
  vt    mask of vector parts that may be tainted (key dependent)
  vzero mask of vector parts that are definitely zero
  gT    mask of scalar locations (GPRs, RFLAGS, k0-7) that may be tainted
  D     dirty stack regions: tuple of (base, lo, hi) - every tainted stack byte lies in one of them
"""
import os, sys, glob, collections

HERE = os.path.dirname(os.path.abspath(__file__))
sys.path.insert(0, HERE)
import x86abs_core as X
import x86tab, scrubtab
from x86tab import RSP, RBP
from scrubtab import LO, HI, FL, K0

M64 = (1 << 64) - 1
SC_ALL = (1 << scrubtab.NSC) - 1
CALL_CLOB = X.SYSV_CLOBBER | (1 << FL) | (0xFF << K0)      # scalar locations a callee may leave tainted


# ---------------------------------------------------------------------------------------------------------
# entry points and their signatures

def key_args(name):
    """mask of argument registers (SysV: rdi rsi rdx rcx r8 r9) that point to key material, by entry-point name.
    keyexp(key, enc, dec) | gcm_pre(key, key_data) | gcm_precomp/init/enc/dec/update/finalize(key_data, ...)
    | cbc enc/dec(in, iv, keys, out, len) | cbc_precomp(key, size, keys) | XTS(k2, k1, tweak, n, in, out)
    | dispatch machinery: no arguments of its own (the stubs pass theirs through: same signature as the family)"""
    RDI, RSI, RDX = 1 << 7, 1 << 6, 1 << 2
    n = name.lower().lstrip("_")
    if n.startswith("isal_"):
        n = n[5:]
    if n.endswith("_dispatch_init"):
        return 0
    if "keyexp" in n:
        return RDI | RSI | RDX
    if "cbc_precomp" in n:
        return RDI | RDX
    if "gcm_pre_" in n:
        return RDI | RSI
    if "gcm" in n:
        return RDI
    if "cbc" in n:
        return RDX
    if "xts" in n:
        return RDI | RSI
    return None


def max_declass(name):
    """highest declassification rule that is MEANINGFUL for the entry point (part of the per-entry-point signature):
    0  none: XTS (the encrypted tweak IS the result of aesenclast), key expansion, GCM key precompute / pre / init
       (H = E(K,0) comes out of aesenclast, its powers out of pclmulqdq)
    1  "D":  CBC - the last AES round yields ciphertext / plaintext
    2  "D2": GCM init-less data path (enc / dec / update / finalize / one-shot): the last AES round yields key stream,
       ciphertext or the tag mask; pclmulqdq yields GHASH products (H and its powers are only ever LOADED there)"""
    n = name.lower().lstrip("_")
    if n.startswith("isal_"):
        n = n[5:]
    if "xts" in n or "keyexp" in n or "precomp" in n or "gcm_pre_" in n or "gcm_init" in n or n.endswith("_dispatch_init"):
        return 0
    if "cbc" in n:
        return 1
    if "gcm" in n:
        return 2
    return 0


def aes_objects(build_dir):
    bases = {os.path.splitext(os.path.basename(p))[0]
             for p in glob.glob(os.path.join(build_dir, "src", "aes", "*.asm")) + glob.glob(os.path.join(build_dir, "src", "aes", "*.c"))}
    return sorted(o for o in os.listdir(os.path.join(build_dir, "objs")) if o.endswith(".o") and o[:-2] in bases)


def load(build_dir):
    """Lib of the AES objects only (a directory of symlinks, so that the disassembly cache is separate)"""
    sub = os.path.join(build_dir, "scrub_aes")
    objd = os.path.join(sub, "objs")
    os.makedirs(objd, exist_ok=True)
    want = aes_objects(build_dir)
    for o in os.listdir(objd):
        if o not in want:
            os.unlink(os.path.join(objd, o))
    for o in want:
        p = os.path.join(objd, o)
        if not os.path.exists(p):
            os.symlink(os.path.join(build_dir, "objs", o), p)
    L = X.load_archive(sub)
    L.root_build = build_dir
    X.analyse(L)
    for f in L.funcs:
        build_records(L, f)
    return L


# ---------------------------------------------------------------------------------------------------------
# records

class GI:
    """ghost part of a record (mirror of Scrub.GI)"""
    __slots__ = ("vz", "vw", "vr", "cpl", "cph", "cd", "cs", "gw", "gr", "mk", "ma", "mb", "mo", "msz", "weak", "dc",
                 "xm", "xa", "xb", "xo")

    def __init__(self):
        self.vz = self.vw = self.vr = 0
        self.cpl = self.cph = False
        self.cd = self.cs = 0
        self.gw = self.gr = 0
        self.mk = 0          # 0 none/constant, 1 generic (address registers ma), 2 stack exact [mb+mo, +msz), 3 stack indexed
        self.ma = 0
        self.mb = 0
        self.mo = 0
        self.msz = 0
        self.weak = False
        self.dc = False
        self.xm = self.xa = self.xb = self.xo = 0

    def key(self):
        return tuple(getattr(self, s) for s in self.__slots__)


EMPTY = GI()


class SRec:
    __slots__ = ("b", "g", "addr", "text", "pre", "ins")

    def __init__(self, b, g, addr=None, text="", pre=None, ins=None):
        self.b, self.g, self.addr, self.text, self.pre, self.ins = b, g, addr, text, pre, ins


def classify_mem(mem, st):
    """memory source of an instruction -> (mk, ma, mb, mo, msz) given the abstract GPR state before it; None = unsupported"""
    if mem is None:
        return (0, 0, 0, 0, 0)
    if mem == ("POP",):
        return (2, 0, RSP, 0, 8)
    if mem == ("LEAVE",):
        return (2, 0, RBP, 0, 8)
    base, index, disp, size, rip, seg, addr32, vecidx = mem
    if vecidx:
        return None
    if seg is not None:
        return (0, 0, 0, 0, 0)          # fs:0x28 stack-protector canary
    if rip:
        if base is not None or index is not None:
            return None
        return (0, 0, 0, 0, 0)          # constants (read-only tables)
    if size is None:
        size = 64
    regs = []
    if base is not None:
        regs.append(base)
    if index is not None and index >= 0:
        regs.append(index)
    if addr32 or not regs:
        if not regs and not addr32:
            return None
        return (1, sum(1 << r for r in set(regs)), 0, 0, 0)
    stk = [r for r in regs if X.stack_derived(st.get(r))]
    if not stk:
        return (1, sum(1 << r for r in set(regs)), 0, 0, 0)
    if base is not None and X.stack_derived(st.get(base)) and (index is None):
        if not (-(1 << 31) <= disp < (1 << 31)) or size >= (1 << 16):
            return None
        return (2, 0, base, disp, size)
    mb = stk[0]
    others = [r for r in regs if r != mb]
    if any(X.stack_derived(st.get(r)) for r in others):
        return None
    return (3, sum(1 << r for r in set(others)), mb, 0, 0)


def build_records(L, f, declass=0, xrule=False):
    """f.srecs: weakened base records (no run merging) paired with ghost effects.  Mirrors X.collapse."""
    out = []
    summary = lambda g: L.masks[g]
    ctx = {"frames": dict(f.frames), "summary": summary, "mask": f.mask}
    st = None
    for r in f.recs:
        ins = f.insns.get(r.addr) if (r.addr is not None and r.kind != "label") else None
        if r.kind == "label":
            st = dict(f.cert.get(r.a, {})) if f.cert and r.a in f.cert else None
            out.append(SRec(r, EMPTY, r.addr, "", None))
            continue
        if st is None:
            out.append(SRec(r, EMPTY, r.addr, r.text, None, ins))
            continue
        before = st
        st = dict(st)
        k = r.kind
        b = r
        extra = None
        if k == "movrr" and r.a != RSP and not X.keep_value(before.get(r.b)):
            b = X.Rec("plain", w=1 << r.a, addr=r.addr, text=r.text)
        elif k == "lea" and r.a != RSP and not X.stack_derived(before.get(r.b)):
            b = X.Rec("plain", w=1 << r.a, addr=r.addr, text=r.text)
        elif k == "load" and r.a != RSP:
            v = before.get(r.b)
            val = before.get(("s", v[0], v[1] + r.c)) if X.stack_derived(v) else None
            if not X.keep_value(val):
                b = X.Rec("plain", w=1 << r.a, addr=r.addr, text=r.text)
        elif k in ("store", "storek", "storeidx") and not X.stack_derived(before.get(r.a)):
            b = X.Rec("plain", w=r.w, sb=1 << r.a, addr=r.addr, text=r.text)
        elif k == "store" and not X.keep_value(before.get(r.c)):
            b = X.Rec("storek", w=r.w, a=r.a, b=r.b, c=8, addr=r.addr, text=r.text)
        if b.kind in ("store", "storek", "storeidx", "storestatic") and b.w:
            extra = X.Rec("plain", w=b.w, addr=r.addr, text=r.text)
            b = X.Rec(b.kind, a=b.a, b=b.b, c=b.c, addr=r.addr, text=r.text)
        # ghost part
        g = EMPTY
        if k in ("jmp", "jcc", "call", "tail", "tailind", "ret", "trap", "forbidden", "unsupported"):
            pass
        else:
            gh = scrubtab.ghost(ins) if ins is not None else None
            cls = classify_mem(gh.mem, before) if gh is not None else None
            if gh is None or cls is None:
                b = X.Rec("unsupported", addr=r.addr, text=r.text, why="not in the Scrub table")
            else:
                g = GI()
                g.vz, g.vw, g.vr, g.gw, g.gr = gh.vz, gh.vw, gh.vr, gh.gw, gh.gr
                if gh.cp is not None:
                    g.cd, g.cs, g.cpl, g.cph = gh.cp
                g.mk, g.ma, g.mb, g.mo, g.msz = cls
                g.weak = gh.weak
                g.dc = (gh.dc and declass >= 1) or (gh.dc2 and declass >= 2)
                if xrule and gh.xor is not None:
                    g.xm, g.xa, g.xb, g.xo = gh.xor
                # an instruction that writes memory must have a base record that says where (or a folded non-stack store)
                if gh.stw and b.kind not in ("store", "storek", "storeidx", "storestatic", "push", "pushany") \
                        and not (b.kind == "plain" and b.sb):
                    b = X.Rec("unsupported", addr=r.addr, text=r.text, why="memory write without store record")
        try:
            falls = X.transfer(b, st, ctx, strict=False)
            if extra is not None:
                X.transfer(extra, st, ctx, strict=False)
        except X.CheckFail:
            falls = True
        st = X.prune(st)
        out.append(SRec(b, g, r.addr, r.text, before, ins))
        if extra is not None:
            out.append(SRec(extra, EMPTY, r.addr, r.text, None, None))   # pre state not needed: plain with empty ghost
        if not falls:
            st = None
    f.srecs = out
    return out


# ---------------------------------------------------------------------------------------------------------
# abstract ghost domain

class CheckFail(Exception):
    pass


def norm_regions(regs):
    """sort, drop empty, merge overlapping / adjacent regions of the same base"""
    res = []
    for b, lo, hi in sorted(r for r in regs if r[1] < r[2]):
        if res and res[-1][0] == b and lo <= res[-1][2]:
            if hi > res[-1][2]:
                res[-1] = (b, res[-1][1], hi)
        else:
            res.append((b, lo, hi))
    return tuple(res)


def cut_regions(D, b, lo, hi):
    """remove [lo,hi) of base b from every region of the same base (mirror of Scrub.cutD)"""
    res = []
    for (rb, rl, rh) in D:
        if rb != b:
            res.append((rb, rl, rh))
            continue
        if rl < lo:
            res.append((rb, rl, min(rh, lo)))
        if rh > hi:
            res.append((rb, max(rl, hi), rh))
    return tuple(res)


def overlaps(D, b, lo, hi):
    """may the byte range [lo,hi) of base b contain a dirty byte? (regions of another base: yes)"""
    for (rb, rl, rh) in D:
        if rb != b:
            return True
        if rl < hi and lo < rh:
            return True
    return False


class GS:
    __slots__ = ("vw", "vt", "vzero", "gT", "D", "xp")

    def __init__(self, vw=0, vt=0, vzero=0, gT=0, D=(), xp=0):
        self.vw, self.vt, self.vzero, self.gT, self.D, self.xp = vw, vt, vzero, gT, D, xp

    def copy(self):
        return GS(self.vw, self.vt, self.vzero, self.gT, self.D, self.xp)

    def key(self):
        return (self.vw, self.vt, self.vzero, self.gT, self.D, self.xp)

    def __repr__(self):
        return "GS(vw=%x vt=%x vzero=%x gT=%x D=%s xp=%d)" % self.key()


def xp_enc(p, q, tv):
    return 1 + 2 * (p + 64 * q) + (1 if tv else 0)


def xp_dec(e):
    return ((e - 1) // 2) % 64, (e - 1) // 128, bool((e - 1) % 2)


def g_join(a, b):
    return GS(a.vw | b.vw, a.vt | b.vt, a.vzero & b.vzero, a.gT | b.gT, norm_regions(a.D + b.D), a.xp if a.xp == b.xp else 0)


def g_le(a, c):
    """a is at least as precise as c (mirror of Scrub.leG)"""
    if a.vw & ~c.vw or a.vt & ~c.vt or c.vzero & ~a.vzero or a.gT & ~c.gT:
        return False
    for (b, lo, hi) in a.D:
        if not any(cb == b and cl <= lo and hi <= ch for (cb, cl, ch) in c.D):
            return False
    return c.xp == 0 or c.xp == a.xp


def put_bit(m, p, v):
    return (m | (1 << p)) if v else (m & ~(1 << p))


def store_target(b, pre):
    """where the base record writes the stack: ('exact', base, lo, hi) | ('idx',) | None (mirror of Scrub.storeTgt)"""
    k = b.kind
    if k in ("push", "pushany"):
        v = pre.get(RSP)
        if not X.stack_derived(v):
            raise CheckFail("push with unknown stack pointer")
        return ("exact", v[0], v[1] - 8, v[1])
    if k in ("store", "storek"):
        v = pre.get(b.a)
        if not X.stack_derived(v):
            raise CheckFail("tracked store through a base that is not stack derived")
        sz = 8 if k == "store" else b.c
        return ("exact", v[0], v[1] + b.b, v[1] + b.b + sz)
    if k == "storeidx":
        return ("idx",)
    return None


def g_flow(rec, g, info=None):
    """ghost transfer of a non-control record (mirror of Scrub.gflow). Returns the new state; raises CheckFail."""
    gi, pre = rec.g, rec.pre
    if gi is not EMPTY and pre is None:
        raise CheckFail("no base state")
    # memory source
    if gi.mk == 0:
        mt = False
    elif gi.mk == 1:
        for r in range(16):
            if gi.ma >> r & 1 and X.stack_derived(pre.get(r)):
                raise CheckFail("generic memory operand through a stack-derived register")
        mt = bool(g.gT & gi.ma)
    elif gi.mk == 2:
        v = pre.get(gi.mb)
        if not X.stack_derived(v):
            raise CheckFail("stack memory operand through a register that is not stack derived")
        mt = bool(g.gT >> gi.mb & 1) or overlaps(g.D, v[0], v[1] + gi.mo, v[1] + gi.mo + gi.msz)
    elif gi.mk == 3:
        v = pre.get(gi.mb)
        if not X.stack_derived(v):
            raise CheckFail("stack memory operand through a register that is not stack derived")
        mt = bool(g.gT & (gi.ma | (1 << gi.mb))) or bool(g.D)
    else:
        raise CheckFail("bad memory kind")
    raw = bool(g.vt & gi.vr) or bool(g.gT & gi.gr) or mt
    cancel = None
    if g.xp and gi.xm == 2:
        p, q, tv = xp_dec(g.xp)
        if (p == gi.xa and q == gi.xb) or (p == gi.xb and q == gi.xa):
            cancel = tv
    T = (not gi.dc) and ((cancel and raw) if cancel is not None else raw)
    if info is not None:
        info["T"], info["mt"], info["v"], info["s"] = T, mt, g.vt & gi.vr, g.gT & gi.gr
    n = g.copy()
    # copies (read the pre state)
    for on, off in ((gi.cpl, 0), (gi.cph, 32)):
        if on:
            p, q = gi.cd + off, gi.cs + off
            z = bool(g.vzero >> q & 1)
            n.vzero = put_bit(n.vzero, p, z)
            n.vt = put_bit(n.vt, p, bool(g.vt >> q & 1))
            n.vw = put_bit(n.vw, p, not z)
    # computed writes, then zeroing
    n.vw = (n.vw | gi.vw) & ~gi.vz & M64
    n.vt = ((n.vt | gi.vw) if T else (n.vt & ~gi.vw)) & ~gi.vz & M64
    n.vzero = ((n.vzero & ~gi.vw) | gi.vz) & M64
    n.gT = (g.gT | gi.gw) if T else (g.gT & ~gi.gw)
    # xor fact (mirror of Scrub.xpUpd)

    def writes(p):
        return bool((gi.vz | gi.vw) >> p & 1) or (gi.cpl and p == gi.cd) or (gi.cph and p == gi.cd + 32)

    if gi.xm == 1 and gi.xa != gi.xb and gi.xa <= 63 and gi.xb <= 63:
        n.xp = xp_enc(gi.xa, gi.xb, bool(g.vt >> gi.xo & 1) if gi.xo <= 63 else mt)
    elif g.xp:
        p, q, _ = xp_dec(g.xp)
        n.xp = 0 if (writes(p) or writes(q)) else g.xp
    else:
        n.xp = 0
    tgt = store_target(rec.b, pre) if rec.b.kind in ("push", "pushany", "store", "storek", "storeidx") else None
    if tgt is not None:
        if tgt[0] == "idx":
            if T:
                raise CheckFail("tainted data stored through an indexed stack address")
        else:
            _, b, lo, hi = tgt
            if T:
                n.D = norm_regions(g.D + ((b, lo, hi),))
            elif not gi.weak:
                n.D = norm_regions(cut_regions(g.D, b, lo, hi))
    if rec.b.kind == "andrsp":
        if any(rb == 16 + rec.b.a for (rb, _, _) in n.D):
            raise CheckFail("and rsp while the frame has dirty regions")
    return n


def exit_ok(g, cm):
    """at an exit: no tainted vector part, nothing written outside `cm`, no dirty stack"""
    if g.vt:
        return "vector parts possibly holding key-dependent data: " + fmt_parts(g.vt)
    if g.D:
        return "stack bytes possibly holding key-dependent data: " + fmt_regions(g.D)
    if g.vw & ~cm:
        return "vector parts written and not cleared: " + fmt_parts(g.vw & ~cm)
    return None


def fmt_parts(m):
    out = []
    for r in range(32):
        lo, hi = m >> r & 1, m >> (32 + r) & 1
        if lo and hi:
            out.append("zmm%d" % r)
        elif lo:
            out.append("xmm%d" % r)
        elif hi:
            out.append("zmm%d[128:512]" % r)
    return " ".join(out) if out else "-"


def fmt_regions(D):
    return " ".join("[%s%+d,%+d)" % ("rsp0" if b == RSP else "frame%d" % (b - 16), lo, hi) for b, lo, hi in D)


def fmt_scalars(m):
    names = x86tab.R64 + ["rflags"] + ["k%d" % i for i in range(8)]
    return " ".join(names[i] for i in range(scrubtab.NSC) if m >> i & 1) or "-"


def g_call(rec, g, summ, sig=0):
    """summ = clean-written mask of the callee, or None if the callee does not pass; sig = its key-pointer arguments"""
    if summ is None:
        raise CheckFail("call of a function that does not pass the check")
    for r in range(16):
        if sig >> r & 1 and rec.pre is not None and X.stack_derived(rec.pre.get(r)):
            raise CheckFail("key-material argument %s of the callee points into this function's stack frame "
                            "(the callee reads/writes key material there)" % x86tab.R64[r])
    n = g.copy()
    n.vw = g.vw | summ
    n.vzero = g.vzero & ~summ      # parts outside summ: unchanged or zero -> a zero part stays zero
    n.gT = g.gT | CALL_CLOB
    n.xp = 0
    return n


def fixpoint(f, L, summ_of, ind_of, sig, sig_of=lambda g: 0):
    """ghost certificate at every label + exit states. summ_of(gid) -> cm or None"""
    recs = f.srecs
    pos = {r.b.a: i for i, r in enumerate(recs) if r.b.kind == "label"}
    cert = {f.entry_label: GS(gT=sig)}
    work = [f.entry_label]
    exits = []          # (index, state)
    problems = []
    steps = 0

    def flow(lab, g):
        if lab not in cert:
            cert[lab] = g.copy()
            work.append(lab)
        else:
            j = g_join(cert[lab], g)
            if j.key() != cert[lab].key():
                cert[lab] = j
                if lab not in work:
                    work.append(lab)

    seen_exit = {}
    while work:
        lab = work.pop()
        g = cert[lab].copy()
        i = pos[lab] + 1
        steps += 1
        if steps > 100000:
            problems.append("ghost fixpoint does not converge")
            break
        while i < len(recs):
            r = recs[i]
            k = r.b.kind
            if k == "label":
                flow(r.b.a, g)
                break
            if k in ("jmp", "jcc"):
                flow(r.b.a, g)
                if k == "jmp":
                    break
            elif k in ("ret", "tail", "tailind"):
                seen_exit[i] = g_join(seen_exit[i], g) if i in seen_exit else g.copy()
                break
            elif k == "trap":
                break
            elif k == "call":
                try:
                    g = g_call(r, g, summ_of(r.b.a), sig_of(r.b.a))
                except CheckFail as e:
                    problems.append((i, str(e)))
                    g = GS(vw=M64, vt=M64, gT=SC_ALL, D=g.D)
            elif k in ("forbidden", "unsupported"):
                problems.append((i, "%s: %s %s" % (k, r.text, r.b.why)))
                break
            else:
                try:
                    g = g_flow(r, g)
                except CheckFail as e:
                    problems.append((i, str(e)))
                    break
            i += 1
    return cert, seen_exit, problems


def check(f, cert, cm, summ_of, indcm, sig, sig_of=lambda g: 0):
    """python twin of Scrub.chk2 (ghost part; the base part is X.check). Returns None or (index, message)."""
    recs = f.srecs
    g = None
    if f.entry_label not in cert:
        return (0, "no ghost certificate for the entry label")
    if not g_le(GS(gT=sig), cert[f.entry_label]):
        return (0, "entry ghost certificate not implied by the entry state")
    for i, r in enumerate(recs):
        k = r.b.kind
        if k == "label":
            c = cert.get(r.b.a)
            if c is None:
                return (i, "label %d has no ghost certificate" % r.b.a)
            if g is not None and not g_le(g, c):
                return (i, "fall-through into label %d: ghost certificate not implied" % r.b.a)
            g = c.copy()
            continue
        if g is None:
            return (i, "record after a non-returning instruction without label")
        if k in ("jmp", "jcc"):
            c = cert.get(r.b.a)
            if c is None or not g_le(g, c):
                return (i, "jump to label %d: ghost certificate not implied" % r.b.a)
            if k == "jmp":
                g = None
            continue
        if k in ("ret", "tail", "tailind"):
            msg = exit_ok(g, cm)
            if msg:
                return (i, msg)
            if k == "tail":
                s = summ_of(r.b.a)
                if s is None or s & ~cm:
                    return (i, "tail jump to a function that does not pass / leaves more than this one may")
            if k == "tailind":
                if indcm is None or indcm & ~cm:
                    return (i, "dispatch to a candidate that does not pass / leaves more than this one may")
            g = None
            continue
        if k == "trap":
            g = None
            continue
        if k == "call":
            try:
                g = g_call(r, g, summ_of(r.b.a), sig_of(r.b.a))
            except CheckFail as e:
                return (i, str(e))
            continue
        if k in ("forbidden", "unsupported"):
            return (i, "%s instruction: %s (%s)" % (k, r.text, r.b.why))
        try:
            g = g_flow(r, g)
        except CheckFail as e:
            return (i, str(e))
    return None


# ---------------------------------------------------------------------------------------------------------
# dispatch cells

def lea_code_targets(L, f):
    """functions whose address is taken by a `lea reg,[rip+sym]` of f (mirror of the discovery in X.load_archive)"""
    A = L.A
    res = []
    key = f.key
    for a, ins in sorted(f.insns.items()):
        if ins.mnem == "lea" and ins.reloc and "rip" in ins.ops:
            sym = ins.reloc[1]
            if sym.startswith("."):
                tgt = (key[0], sym, ins.reloc[2] + ins.size - ins.reloc[3])
            else:
                r = A.resolve(key[0], sym)
                if not r:
                    continue
                tgt = (r[0], r[1], r[2] + ins.reloc[2] + (ins.size - ins.reloc[3]))
            if tgt[1] == ".text" and tgt in L.bykey:
                res.append(L.bykey[tgt])
    return res


def dispatch_map(L):
    """stub gid -> sorted list of candidate gids (functions the stub's cell may hold), or None if undetermined"""
    cell_of = {}           # (obj, sec, off) -> set of candidate gids
    # writers: functions with a static store; candidates = code addresses they take
    for f in L.funcs:
        for r in f.recs:
            if r.kind == "storestatic":
                tgt = L.static_list[r.a][:3]
                cell_of.setdefault(tgt, set()).update(g.gid for g in lea_code_targets(L, f))
    # initial values: data relocations pointing at code
    for on in L.objnames:
        o = L.A.objs[on]
        for (dsec, off, sym, add) in L.datarel[on]:
            tgt = None
            if sym == ".text":
                tgt = (on, ".text", add)
            elif sym in o.symbols and o.symbols[sym][0] == ".text":
                tgt = (on, ".text", o.symbols[sym][1] + add)
            elif sym in L.A.globals and L.A.globals[sym][1] == ".text":
                gl = L.A.globals[sym]
                tgt = (gl[0], gl[1], gl[2] + add)
            if tgt in L.bykey:
                cell_of.setdefault((on, dsec, off), set()).add(L.bykey[tgt].gid)
    res = {}
    for f in L.funcs:
        for a, e in f.edges.items():
            if e[0] == "tailind":
                tgt = X.static_target(L, f, f.insns[a])[:3]
                c = cell_of.get(tgt)
                res[f.gid] = sorted(c) if c else None
    return res


# ---------------------------------------------------------------------------------------------------------
# whole-library analysis

class Result:
    __slots__ = ("rule", "cm", "cert", "fail", "exits", "gpr_exit", "declass", "problems", "sig", "xrule")


def sig_of_lib(L):
    names = {f.gid: f.name for f in L.funcs}
    return lambda g: (key_args(names[g]) or 0) if g in names else 0


def analyse_function(L, f, summ_of, indcm, sig, declass, xrule=False):
    build_records(L, f, declass=declass, xrule=xrule)
    sig_of = sig_of_lib(L)
    cert, exits, problems = fixpoint(f, L, summ_of, None, sig, sig_of)
    cm = 0
    for i, g in exits.items():
        cm |= g.vw
    res = Result()
    res.sig, res.declass, res.cert, res.exits, res.problems = sig, declass, cert, exits, problems
    res.xrule = xrule
    for i, g in exits.items():
        k = f.srecs[i].b.kind
        if k == "tail":
            s = summ_of(f.srecs[i].b.a)
            cm |= s or 0
        if k == "tailind":
            cm |= indcm or 0
    res.cm = cm
    res.gpr_exit = 0
    for g in exits.values():
        res.gpr_exit |= g.gT
    bad = check(f, cert, cm, summ_of, indcm, sig, sig_of)
    if bad is None and f.fail is not None:
        bad = (0, "base (X86Abs) check: " + f.fail[1])
    if bad is None:
        # the base certificates must also pass on the un-collapsed record list
        rb = X.check(f, f.cert, f.frames, lambda g: L.masks[g], f.mask, recs=[r.b for r in f.srecs])
        if rb is not None:
            bad = (rb[0], "base (X86Abs) check on the Scrub records: " + rb[1])
    res.fail = bad
    res.rule = None if bad else ("Z" if cm == 0 else "T")
    if res.rule and declass:
        res.rule += "D" if declass == 1 else "D2"
    if res.rule and xrule:
        res.rule += "X"
    return res


def analyse(L, verbose=False, only=None):
    """L.res[gid] = Result.  Functions are processed callees-first (the call graph of the AES objects is
    acyclic once a dispatch cell's own `_mbinit` stub is left out of the cell's candidate set: its summary is
    its own writes plus the cell's, and the Lean side re-checks the inclusion for every candidate, stubs included)."""
    disp = dispatch_map(L)
    L.dispatch = disp
    res = {}
    ext = set(L.ext.values())
    bygid = {f.gid: f for f in L.funcs}

    def summ_of(gid):
        if gid in ext:
            return None            # no libc call is expected in the AES objects (only no-return __stack_chk_fail = trap)
        r = res.get(gid)
        if r is None or r.rule is None:
            return None
        return r.cm

    def real_cands(f):
        c = disp.get(f.gid, ())
        if c is None:
            return None
        return [g for g in c if g not in disp]

    def indcm_of(f):
        """summary assumed for the target of f's dispatch stub: union over the candidates that PASS
        (candidates that do not pass are listed as exceptions of the stub, see `exceptions`)"""
        c = real_cands(f)
        if c is None:
            return None
        m = 0
        for g in c:
            s = summ_of(g)
            if s is not None:
                m |= s
        return m

    def deps(f):
        d = []
        for a, e in f.edges.items():
            if e[0] in ("call", "tail") and e[1] is not None:
                d.append(L.bykey[e[1]].gid)
        d += real_cands(f) or []
        return d

    order, seen = [], set()

    def visit(g, stack):
        if g in seen:
            return
        seen.add(g)
        for d in deps(bygid[g]):
            if d in stack:
                continue           # recursion: the callee stays without summary -> the caller fails
            visit(d, stack | {g})
        order.append(g)

    for f in L.funcs:
        visit(f.gid, frozenset())
    for gid in order:
        f = bygid[gid]
        if only is not None and f.name not in only:
            continue
        sig = key_args(f.name)
        if sig is None:
            sig = 0
        r = analyse_function(L, f, summ_of, indcm_of(f), sig, declass=0)
        for level in range(1, max_declass(f.name) + 1):
            if r.rule is None:
                r2 = analyse_function(L, f, summ_of, indcm_of(f), sig, declass=level)
                if r2.rule is not None:
                    r = r2
        if r.rule is None:
            r2 = analyse_function(L, f, summ_of, indcm_of(f), sig, declass=max_declass(f.name), xrule=True)
            if r2.rule is not None:
                r = r2
        if r.rule is None:
            analyse_function(L, f, summ_of, indcm_of(f), sig, declass=0)   # leave the plain records in f.srecs
        res[gid] = r
    L.res = res
    L.indcm = {f.gid: indcm_of(f) for f in L.funcs if f.gid in disp}
    # exceptions: failing dispatch candidates reachable from each function (through calls, tail jumps, stubs)
    exc = {}
    for gid in order:
        f = bygid[gid]
        e = set()
        for g in (real_cands(f) or []):
            if res.get(g) is not None and res[g].rule is None:
                e.add(g)
            e |= exc.get(g, set())
        for a, ed in f.edges.items():
            if ed[0] in ("call", "tail") and ed[1] is not None:
                e |= exc.get(L.bykey[ed[1]].gid, set())
        exc[gid] = e
    L.exceptions = exc
    # rules of everything reachable from each function (callees, tail targets, dispatch candidates that pass)
    reach = {}
    for gid in order:
        f = bygid[gid]
        rs = set()
        if gid in res and res[gid].rule:
            rs.add(res[gid].rule)
        for g in (real_cands(f) or []):
            rs |= reach.get(g, set())
        for a, ed in f.edges.items():
            if ed[0] in ("call", "tail") and ed[1] is not None:
                rs |= reach.get(L.bykey[ed[1]].gid, set())
        reach[gid] = rs
    L.reach_rules = reach
    return L


def trace_taint(f, cert, summ_of):
    """diagnostics: records at which a dirty stack region or a tainted exit part is created"""
    recs = f.srecs
    g = None
    out = []
    for i, r in enumerate(recs):
        k = r.b.kind
        if k == "label":
            g = cert.get(r.b.a)
            g = g.copy() if g is not None else None
            continue
        if g is None:
            continue
        if k in ("jmp", "ret", "tail", "tailind", "trap"):
            g = None
            continue
        if k == "jcc":
            continue
        if k == "call":
            try:
                g = g_call(r, g, summ_of(r.b.a))
            except CheckFail:
                g = None
            continue
        if k in ("forbidden", "unsupported"):
            g = None
            continue
        info = {}
        try:
            n = g_flow(r, g, info)
        except CheckFail as e:
            out.append((i, "reject: " + str(e)))
            g = None
            continue
        if info["T"] and k in ("push", "pushany", "store", "storek", "storeidx"):
            out.append((i, "tainted store: vec %s scalar %s mem %s" % (fmt_parts(info["v"]), fmt_scalars(info["s"]), info["mt"])))
        g = n
    return out
