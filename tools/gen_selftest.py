#!/usr/bin/env python3
"""Translator (T-route) for C17: regenerates lean/IsalVerif/Gen/SelfTest.lean from the FIPS build of the
current tree.

  (a) `asm_check_self_tests_status`, `asm_set_self_tests_status` (objs/asm_self_tests.o) as programs over
      the mini-ISA of IsalVerif/Impl/SelfTestMachine.lean, and the initial content of the status word;
  (b) `isal_self_tests` (objs/self_tests.o) over the same mini-ISA, calls kept symbolic;
  (c) the sets of values `_aes_self_tests` / `_sha_self_tests` can return, from their C sources, with
      the place each value comes from;
  (d) closed-world facts: which objects reference the four internal functions, whether the status word is
      a file-local symbol, stray references to it, and `isal_*` imports of the self-test objects.

Nothing is judged here.  Whatever is not recognised is emitted as `.unsupported` (instructions) or as the
value 999 (return expressions), which makes the Lean obligations in GenProps/SelfTest*.lean fail.

usage: gen_selftest.py [--out FILE] [--build DIR] [--quiet]
"""
import os, re, subprocess, sys

HERE = os.path.dirname(os.path.abspath(__file__))
for p in (HERE, "/verif/tools"):
    if p not in sys.path:
        sys.path.append(p)
import disasm  # noqa: E402

UNKNOWN = 999           # "return expression not understood"
MASK32 = 0xFFFFFFFF
STATUS_SYM = "self_test_status"
FUNCS = {"asm_check_self_tests_status": "check", "asm_set_self_tests_status": "set",
         "_aes_self_tests": "aes", "_sha_self_tests": "sha"}

REG32 = {"eax": "a", "ebx": "b", "ecx": "c", "edx": "d", "edi": "di", "esi": "si"}
REG64 = {"rax": "a", "rbx": "b", "rcx": "c", "rdx": "d", "rdi": "di", "rsi": "si"}
IMM_RE = re.compile(r"^(0x[0-9a-f]+|\d+)$")


# ----------------------------------------------------------------------------- (a), (b) instructions

def status_location(o):
    """(section, offset) of the status word in object `o` (asm_self_tests.o)"""
    s = o.symbols.get(STATUS_SYM)
    return (s[0], s[1]) if s else None


def mem_is_status(o, ins, operand):
    """does the rip-relative dword operand of `ins` address the status word?"""
    if not re.match(r"^DWORD PTR \[rip\+0x[0-9a-f]+\]$", operand) or ins.reloc is None:
        return False
    loc = status_location(o)
    if loc is None:
        return False
    kind, sym, add, roff = ins.reloc
    if kind != "R_X86_64_PC32":
        return False
    # PC32: value = S + A - P; the CPU adds the address of the *next* instruction = P + (size - roff)
    if sym == loc[0]:                      # section symbol (.data)
        base = 0
    elif sym in o.symbols and o.symbols[sym][0] == loc[0]:
        base = o.symbols[sym][1]
    else:
        return False
    return base + add + (ins.size - roff) == loc[1]


def reachable(o, sec, entry):
    """instructions reachable from `entry` by fall-through and direct local jumps: {addr: Insn}, or None"""
    code = o.insns.get(sec, {})
    seen, work = {}, [entry]
    while work:
        a = work.pop()
        while a not in seen:
            ins = code.get(a)
            if ins is None:
                return None
            seen[a] = ins
            if ins.mnem in disasm.JCC or ins.mnem == "jmp":
                m = re.match(r"^([0-9a-f]+) <", ins.ops)
                if m and ins.reloc is None:
                    work.append(int(m.group(1), 16))
                if ins.mnem == "jmp":
                    break
            elif ins.mnem in ("ret", "ud2", "hlt"):
                break
            a = ins.addr + ins.size
    return seen


def translate(o, fname):
    """-> list of (lean_instr, asm_text) for function `fname` of object `o`, or None"""
    sym = o.symbols.get(fname)
    if sym is None:
        return None
    sec = sym[0]
    ins = reachable(o, sec, sym[1])
    if ins is None:
        return None
    addrs = sorted(ins)
    idx = {a: i for i, a in enumerate(addrs)}
    out = []
    for n, a in enumerate(addrs):
        i = ins[a]
        mn, ops = i.mnem, i.ops
        t = [x.strip() for x in ops.split(",")] if ops else []
        lean = None
        falls = True
        if i.prefix and not (i.prefix == ["lock"] and mn == "cmpxchg") and not (mn == "nop"):
            lean = None
        elif mn in ("nop", "endbr64") or (mn == "xchg" and t == ["ax", "ax"]):
            lean = ".nop"
        elif mn == "pause":
            lean = ".pause"
        elif mn in ("push", "pop") and len(t) == 1 and t[0] in REG64:
            lean = ".%s .%s" % (mn, REG64[t[0]])
        elif mn == "mov" and len(t) == 2 and t[0] in REG32 and IMM_RE.match(t[1]):
            lean = ".movImm .%s %d" % (REG32[t[0]], int(t[1], 0) & MASK32)
        elif mn == "mov" and len(t) == 2 and t[0] in REG32 and t[1] in REG32:
            lean = ".movRR .%s .%s" % (REG32[t[0]], REG32[t[1]])
        elif mn == "mov" and len(t) == 2 and t[0] in REG32 and mem_is_status(o, i, t[1]):
            lean = ".load .%s" % REG32[t[0]]
        elif mn == "mov" and len(t) == 2 and t[1] in REG32 and mem_is_status(o, i, t[0]):
            lean = ".store .%s" % REG32[t[1]]
        elif mn == "xor" and len(t) == 2 and t[0] == t[1] and t[0] in REG32:
            lean = ".xorSelf .%s" % REG32[t[0]]
        elif mn == "or" and len(t) == 2 and t[0] in REG32 and t[1] in REG32:
            lean = ".orRR .%s .%s" % (REG32[t[0]], REG32[t[1]])
        elif mn == "test" and len(t) == 2 and t[0] in REG32 and t[1] in REG32:
            lean = ".testRR .%s .%s" % (REG32[t[0]], REG32[t[1]])
        elif mn == "test" and len(t) == 2 and t[0] in REG32 and IMM_RE.match(t[1]):
            lean = ".testImm .%s %d" % (REG32[t[0]], int(t[1], 0) & MASK32)
        elif mn == "cmp" and len(t) == 2 and t[0] in REG32 and IMM_RE.match(t[1]):
            lean = ".cmpImm .%s %d" % (REG32[t[0]], int(t[1], 0) & MASK32)
        elif mn == "cmp" and len(t) == 2 and IMM_RE.match(t[1]) and mem_is_status(o, i, t[0]):
            lean = ".cmpMemImm %d" % (int(t[1], 0) & MASK32)
        elif mn == "cmpxchg" and i.prefix == ["lock"] and len(t) == 2 and t[1] in REG32 and mem_is_status(o, i, t[0]):
            lean = ".lockCmpxchg .%s" % REG32[t[1]]
        elif mn in ("je", "jz", "jne", "jnz", "jmp") and i.reloc is None:
            m = re.match(r"^([0-9a-f]+) <", ops)
            if m and int(m.group(1), 16) in idx:
                lean = ".%s %d" % ({"je": "je", "jz": "je", "jne": "jne", "jnz": "jne", "jmp": "jmp"}[mn],
                                   idx[int(m.group(1), 16)])
            falls = mn != "jmp"
        elif mn == "call" and i.reloc is not None and i.reloc[0] in ("R_X86_64_PLT32", "R_X86_64_PC32") \
                and i.reloc[2] == -4 and i.reloc[1] in FUNCS:
            lean = ".call .%s" % FUNCS[i.reloc[1]]
        elif mn == "ret" and not t:
            lean = ".ret"
            falls = False
        # fall-through must lead to the next translated instruction
        if falls and lean is not None and (n + 1 >= len(addrs) or addrs[n + 1] != a + i.size):
            lean = None
        text = (" ".join(i.prefix + [mn]) + " " + ops).strip()
        if i.reloc:
            text += "   {%s %s%+d}" % (i.reloc[0], i.reloc[1], i.reloc[2])
        out.append((lean or ".unsupported", "%x: %s" % (a, text)))
    return out


def read_initial_status(path, o):
    """the 32-bit little-endian content of the status word in the object file, or 999"""
    loc = status_location(o)
    if loc is None:
        return UNKNOWN
    r = subprocess.run(["objdump", "-s", "-j", loc[0], path], capture_output=True, text=True).stdout
    data = {}
    for line in r.split("\n"):
        m = re.match(r"^ ([0-9a-f]+) ((?:[0-9a-f]+ ){1,4})", line)
        if m:
            base = int(m.group(1), 16)
            b = bytes.fromhex(m.group(2).replace(" ", ""))
            for k, x in enumerate(b):
                data[base + k] = x
    try:
        return sum(data[loc[1] + k] << (8 * k) for k in range(4))
    except KeyError:
        return UNKNOWN


def stray_status_refs(o, translated_addrs):
    """.text instructions of asm_self_tests.o outside the translated functions that carry a relocation
    against the section of the status word"""
    loc = status_location(o)
    res = []
    for sec, code in o.insns.items():
        for a, i in sorted(code.items()):
            if i.reloc and a not in translated_addrs:
                sym = i.reloc[1]
                if loc and (sym == loc[0] or sym == STATUS_SYM or (sym in o.symbols and o.symbols[sym][0] == loc[0])):
                    res.append("%s+%x" % (sec, a))
    return res


# ----------------------------------------------------------------------------- (c) return values

def strip_c(src):
    """remove comments, string/char literals and preprocessor lines, keeping line structure"""
    out, i, n = [], 0, len(src)
    while i < n:
        c = src[i]
        if src.startswith("/*", i):
            j = src.find("*/", i + 2)
            j = n if j < 0 else j + 2
            out.append(re.sub(r"[^\n]", " ", src[i:j]))
            i = j
        elif src.startswith("//", i):
            j = src.find("\n", i)
            j = n if j < 0 else j
            i = j
        elif c in "\"'":
            j = i + 1
            while j < n and src[j] != c:
                j += 2 if src[j] == "\\" else 1
            out.append(c + c)
            i = j + 1
        else:
            out.append(c)
            i += 1
    text = "".join(out)
    lines, cont = [], False
    for line in text.split("\n"):
        if cont or line.lstrip().startswith("#"):
            cont = line.rstrip().endswith("\\")
            lines.append("")
        else:
            lines.append(line)
    return "\n".join(lines)


def find_functions(text):
    """{name: (body_text, line_of_body_start)} for every function definition at file scope"""
    funcs, depth, i, n = {}, 0, 0, len(text)
    while i < n:
        c = text[i]
        if c == "{":
            if depth == 0:
                j = i - 1
                while j >= 0 and text[j].isspace():
                    j -= 1
                if j >= 0 and text[j] == ")":
                    # match the parameter list backwards
                    d, k = 0, j
                    while k >= 0:
                        if text[k] == ")":
                            d += 1
                        elif text[k] == "(":
                            d -= 1
                            if d == 0:
                                break
                        k -= 1
                    m = re.search(r"([A-Za-z_]\w*)\s*$", text[:k])
                    # find the end of the body
                    d2, e = 0, i
                    while e < n:
                        if text[e] == "{":
                            d2 += 1
                        elif text[e] == "}":
                            d2 -= 1
                            if d2 == 0:
                                break
                        e += 1
                    if m:
                        funcs[m.group(1)] = (text[i:e + 1], text.count("\n", 0, i) + 1)
            depth += 1
        elif c == "}":
            depth -= 1
        i += 1
    return funcs


class RetAnalysis:
    """value sets of `return` expressions: integer literals (with unary minus / casts / parentheses),
    calls of functions defined in the same file, local variables assigned at the top level of the body by
    `x = e;` / `x |= e;` (evaluated in order), and `e1 | e2`.  Everything else yields {999}."""

    def __init__(self, path):
        self.path = path
        self.file = os.path.basename(path)
        self.text = strip_c(open(path, encoding="utf-8", errors="replace").read())
        self.funcs = find_functions(self.text)
        self.memo = {}

    def values(self, fname, stack=()):
        """{value: set(sources)} for function `fname`"""
        if fname in self.memo:
            return self.memo[fname]
        if fname not in self.funcs or fname in stack:
            return {UNKNOWN: {"%s: %s() not analysable" % (self.file, fname)}}
        body, line0 = self.funcs[fname]
        res = {}
        depth = 0
        # statements with their brace depth and line
        for m in re.finditer(r"[{}]|\breturn\b([^;]*);", body):
            tok = m.group(0)
            if tok == "{":
                depth += 1
            elif tok == "}":
                depth -= 1
            else:
                line = line0 + body.count("\n", 0, m.start())
                expr = m.group(1).strip()
                vs = self.eval(expr, fname, body, m.start(), stack + (fname,))
                for v, src in vs.items():
                    tag = "%s:%d %s(): return %s" % (self.file, line, fname, expr)
                    for s in src or {""}:
                        res.setdefault(v, set()).add(tag + (" <- " + s if s else ""))
        if not res:
            res = {UNKNOWN: {"%s: %s() has no return statement" % (self.file, fname)}}
        self.memo[fname] = res
        return res

    def eval(self, e, fname, body, pos, stack):
        """{value: set(sources)} of expression `e` evaluated at offset `pos` of `body`"""
        e = e.strip()
        while e.startswith("(") and self._matching(e, 0) == len(e) - 1:
            e = e[1:-1].strip()
        m = re.match(r"^\(\s*(?:int|int32_t|long)\s*\)\s*(.*)$", e)
        if m:
            return self.eval(m.group(1), fname, body, pos, stack)
        parts = self._split_top(e, "|")
        if len(parts) > 1:
            acc = {0: set()}
            for p in parts:
                acc = self._or(acc, self.eval(p, fname, body, pos, stack))
            return acc
        m = re.match(r"^(-?)\s*(0[xX][0-9a-fA-F]+|\d+)[uUlL]*$", e)
        if m:
            v = int(m.group(2), 0) if not re.match(r"^0\d+$", m.group(2)) else int(m.group(2), 8)
            return {(-v if m.group(1) else v): set()}
        m = re.match(r"^([A-Za-z_]\w*)\s*\(\s*(?:void)?\s*\)$", e)
        if m and m.group(1) in self.funcs:
            return {v: set(s) for v, s in self.values(m.group(1), stack).items()}
        m = re.match(r"^[A-Za-z_]\w*$", e)
        if m:
            return self.var(e, fname, body, pos, stack)
        return {UNKNOWN: {"expression not understood: " + e}}

    def var(self, name, fname, body, pos, stack):
        """value set of local variable `name` at offset `pos`: replay its top-level assignments"""
        cur, depth = None, 0
        rx = re.compile(r"[{}]|\b%s\s*(\|=|=(?!=))\s*([^;]*);|\b%s\s*(\+\+|--|[-+*/&^%%]=|<<=|>>=)" % (name, name))
        for m in rx.finditer(body[:pos]):
            tok = m.group(0)
            if tok == "{":
                depth += 1
            elif tok == "}":
                depth -= 1
            elif m.group(3) or depth != 1:
                return {UNKNOWN: {"%s(): %s is modified in a way the extractor does not follow" % (fname, name)}}
            else:
                rhs = self.eval(m.group(2), fname, body, m.start(), stack)
                cur = rhs if m.group(1) == "=" else self._or(cur if cur is not None else {UNKNOWN: set()}, rhs)
        if cur is None or re.search(r"&\s*%s\b" % name, body):
            return {UNKNOWN: {"%s(): %s is not a plainly assigned local" % (fname, name)}}
        return cur

    @staticmethod
    def _or(a, b):
        res = {}
        for x, sx in a.items():
            for y, sy in b.items():
                v = UNKNOWN if UNKNOWN in (x, y) else (x | y)
                # provenance of a value: the operands that contribute bits (or are not understood)
                res.setdefault(v, set()).update((sx if x else set()) | (sy if y else set()))
        return res

    @staticmethod
    def _matching(e, i):
        d = 0
        for k in range(i, len(e)):
            if e[k] == "(":
                d += 1
            elif e[k] == ")":
                d -= 1
                if d == 0:
                    return k
        return -1

    @staticmethod
    def _split_top(e, op):
        parts, d, cur, k = [], 0, "", 0
        while k < len(e):
            c = e[k]
            if c == "(":
                d += 1
            elif c == ")":
                d -= 1
            if c == op and d == 0 and e[k:k + 2] != op * 2 and (k == 0 or e[k - 1] != op) and e[k + 1:k + 2] != "=":
                parts.append(cur)
                cur = ""
            else:
                cur += c
            k += 1
        parts.append(cur)
        return parts if len(parts) > 1 else [e]


def return_values(srcdir):
    """[(function, value, source text)] for the two self-test functions, sorted"""
    rows = []
    for fn, rel in (("_aes_self_tests", "fips/aes_self_tests.c"), ("_sha_self_tests", "fips/sha_self_tests.c")):
        path = os.path.join(srcdir, rel)
        if not os.path.exists(path):
            rows.append((fn, UNKNOWN, rel + " not found"))
            continue
        vals = RetAnalysis(path).values(fn)
        for v in sorted(vals):
            # keep the innermost origin of each value (the `return <literal>` statements)
            def by_line(t):
                m = re.match(r"^(\S+):(\d+) ", t)
                return (m.group(1), int(m.group(2))) if m else (t, 0)
            leaves = sorted({s.split(" <- ")[-1] for s in vals[v]}, key=by_line) or ["%s()" % fn]
            rows.append((fn, v, "; ".join(leaves[:8]) + (" ..." if len(leaves) > 8 else "")))
    return rows


# ----------------------------------------------------------------------------- (d) closed world

def importers(objdir):
    """{symbol: [objects that import it]} for the four internal functions"""
    res = {s: [] for s in FUNCS}
    objs = sorted(f for f in os.listdir(objdir) if f.endswith(".o"))
    r = subprocess.run(["nm", "-A", "-u"] + objs, cwd=objdir, capture_output=True, text=True).stdout
    for line in r.split("\n"):
        m = re.match(r"^([^:]+):\s+U\s+(\S+)$", line)
        if m and m.group(2) in res:
            res[m.group(2)].append(m.group(1))
    return res


def isal_imports(objdir, names):
    res = []
    for nme in names:
        p = os.path.join(objdir, nme)
        if not os.path.exists(p):
            res.append(nme + ":missing")
            continue
        r = subprocess.run(["nm", "-u", p], capture_output=True, text=True).stdout
        res += ["%s:%s" % (nme, x.split()[-1]) for x in r.split("\n") if x.split() and x.split()[-1].startswith("isal_")]
    return res


# ----------------------------------------------------------------------------- output

def lean_str(s):
    return '"' + s.replace("\\", "\\\\").replace('"', '\\"') + '"'


def lean_prog(name, doc, prog):
    L = ["/-- %s -/" % doc, "def %s : List Instr := [" % name]
    if prog is None:
        prog = [(".unsupported", "function not found")]
    w = max(len(p[0]) for p in prog)
    for k, (ins, text) in enumerate(prog):
        L.append("  %s%s -- %2d  %s" % (ins.ljust(w), "," if k + 1 < len(prog) else " ", k, text))
    L.append("]")
    return L


def generate(build):
    objdir = os.path.join(build, "objs")
    asm_path = os.path.join(objdir, "asm_self_tests.o")
    top_path = os.path.join(objdir, "self_tests.o")
    oa = disasm.Obj(asm_path) if os.path.exists(asm_path) else None
    ot = disasm.Obj(top_path) if os.path.exists(top_path) else None
    check = translate(oa, "asm_check_self_tests_status") if oa else None
    setp = translate(oa, "asm_set_self_tests_status") if oa else None
    top = translate(ot, "isal_self_tests") if ot else None
    init = read_initial_status(asm_path, oa) if oa else UNKNOWN
    translated = set()
    for p in (check, setp):
        for _, text in p or []:
            translated.add(int(text.split(":")[0], 16))
    stray = stray_status_refs(oa, translated) if oa else ["asm_self_tests.o missing"]
    local = bool(oa and STATUS_SYM in oa.symbols and oa.symbols[STATUS_SYM][2] in ("d", "b"))
    rows = return_values(os.path.join(build, "src"))
    imp = importers(objdir)
    gated = isal_imports(objdir, ["aes_self_tests.o", "sha_self_tests.o"])

    L = ["import IsalVerif.Impl.SelfTestMachine",
         "/-! GENERATED by tools/gen_selftest.py from the FIPS build of the current tree — do not edit.",
         "    Instruction comments: address, disassembly, relocation. -/",
         "namespace IsalVerif.Gen.SelfTest",
         "open IsalVerif.SelfTest", ""]
    L += lean_prog("checkProg", "`asm_check_self_tests_status` (objs/asm_self_tests.o)", check) + [""]
    L += lean_prog("setProg", "`asm_set_self_tests_status` (objs/asm_self_tests.o)", setp) + [""]
    L += lean_prog("topProg", "`isal_self_tests` (objs/self_tests.o)", top) + [""]
    L += ["/-- content of `self_test_status` in `.data` of asm_self_tests.o -/",
          "def initialStatus : Nat := %d" % init, "",
          "def program : Program := ⟨topProg, checkProg, setProg, initialStatus⟩", ""]
    L += ["/-- (function, possible C `int` return value, where it comes from); 999 = not understood -/",
          "def returnTable : List (String × Int × String) := ["]
    L += [",\n".join("  (%s, %d, %s)" % (lean_str(f), v, lean_str(s)) for f, v, s in rows), "]", ""]
    for fn, nm_ in (("_aes_self_tests", "aesReturnValues"), ("_sha_self_tests", "shaReturnValues")):
        L += ["def %s : List Int := [%s]" % (nm_, ", ".join(str(v) for f, v, s in rows if f == fn))]
    L += ["/-- all values that can be OR-ed into the status word -/",
          "def selfTestReturnValues : List Int := aesReturnValues ++ shaReturnValues", ""]
    L += ["/-- objects that import each internal function (closed world: only self_tests.o may) -/",
          "def importers : List (String × List String) := ["]
    L += [",\n".join("  (%s, [%s])" % (lean_str(s), ", ".join(lean_str(x) for x in imp[s])) for s in sorted(imp)), "]"]
    L += ["/-- `self_test_status` is a file-local symbol of asm_self_tests.o -/",
          "def statusSymbolLocal : Bool := %s" % ("true" if local else "false"),
          "/-- instructions of asm_self_tests.o outside the two functions that reference the status word -/",
          "def strayStatusRefs : List String := [%s]" % ", ".join(lean_str(x) for x in stray),
          "/-- `isal_*` symbols imported by aes_self_tests.o / sha_self_tests.o (re-entering the gate would deadlock) -/",
          "def selfTestIsalImports : List String := [%s]" % ", ".join(lean_str(x) for x in gated),
          "", "end IsalVerif.Gen.SelfTest", ""]
    summary = {"check": check, "set": setp, "top": top, "init": init, "rows": rows, "importers": imp,
               "local": local, "stray": stray, "gated": gated}
    return "\n".join(L), summary


def main(argv):
    out = os.path.join(os.path.dirname(HERE), "IsalVerif", "Gen", "SelfTest.lean")
    if not os.path.isdir(os.path.dirname(out)):
        out = os.path.join(os.path.dirname(HERE), "lean", "IsalVerif", "Gen", "SelfTest.lean")
    build, quiet = None, False
    k = 0
    while k < len(argv):
        if argv[k] == "--out":
            out = argv[k + 1]; k += 2
        elif argv[k] == "--build":
            build = argv[k + 1]; k += 2
        elif argv[k] == "--quiet":
            quiet = True; k += 1
        else:
            sys.exit(__doc__)
    if build is None:
        import build_repo
        build = build_repo.get_build("fips")
    text, s = generate(build)
    old = open(out).read() if os.path.exists(out) else None
    if old != text:
        tmp = out + ".tmp%d" % os.getpid()
        with open(tmp, "w") as fh:
            fh.write(text)
        os.replace(tmp, out)
    if not quiet:
        print("build: %s" % build)
        for nm_, p in (("asm_check_self_tests_status", s["check"]), ("asm_set_self_tests_status", s["set"]),
                       ("isal_self_tests", s["top"])):
            print("%s:" % nm_)
            for k, (ins, t) in enumerate(p or [(".unsupported", "function not found")]):
                print("  %2d  %-22s %s" % (k, ins, t))
        print("initial status word: %d" % s["init"])
        print("return values:")
        for f, v, src in s["rows"]:
            flag = "" if v in (0, 1) else "   <-- not 0/1"
            print("  %-16s %4d  %s%s" % (f, v, src, flag))
        print("importers: %s" % s["importers"])
        print("status symbol local: %s; stray refs: %s; isal_ imports of self-test objects: %s"
              % (s["local"], s["stray"], s["gated"]))
        n_uns = sum(1 for p in (s["check"], s["set"], s["top"]) for ins, _ in (p or [(".unsupported", "")]) if ins == ".unsupported")
        print("unsupported instructions: %d" % n_uns)
        print("%s %s" % ("wrote" if old != text else "unchanged", out))
    return 0


if __name__ == "__main__":
    sys.exit(main(sys.argv[1:]))
