#!/usr/bin/env python3
"""Regenerate every lean/IsalVerif/Gen/*.lean from the current /repo working tree (used by setup_cmd;
every check regenerates what it needs itself)."""
import os, sys
sys.path.insert(0, os.path.dirname(os.path.abspath(__file__)))
import gen_dispatch
gen_dispatch.main()

import subprocess, build_repo, vlib
b = build_repo.get_build("default")
subprocess.run(["python3", os.path.join(vlib.VERIF, "tools", "gen_rolling_table.py"),
                os.path.join(b, "src", "rolling_hash", "rolling_hash2_table.h"), vlib.LEAN], check=True)

import gen_selftest
gen_selftest.main(["--quiet"])
import gen_selftest_generic
gen_selftest_generic.main(["--quiet"])

import check
check.wrap_generate()

import gen_hashpad
gen_hashpad.main([os.path.join(b, "src"), vlib.LEAN])

import gen_submit
gen_submit.main([os.path.join(b, "src"), vlib.LEAN])

import gen_resubmit
gen_resubmit.main([os.path.join(b, "src"), vlib.LEAN])

import gen_topup
gen_topup.main([os.path.join(b, "src"), vlib.LEAN])

import gen_mhupdate
gen_mhupdate.main([os.path.join(b, "src"), vlib.LEAN])
gen_mhupdate.main_tail([os.path.join(b, "src"), vlib.LEAN])
import gen_mhfin
gen_mhfin.main([os.path.join(b, "src"), vlib.LEAN])
import gen_mhinit
gen_mhinit.main([os.path.join(b, "src"), vlib.LEAN])
import gen_rollstep
gen_rollstep.main([os.path.join(b, "src"), vlib.LEAN])
import gen_murmur
gen_murmur.main([os.path.join(b, "src"), vlib.LEAN])

import gen_flush
gen_flush.main([os.path.join(b, "src"), vlib.LEAN])
