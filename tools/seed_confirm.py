#!/usr/bin/env python3
"""Development tool (not a registered check): confirm a seeded change produced by a mutation
sub-agent and record which checks catch it.

  seed_confirm.py <PROP> <worktree> <seeddir> <name> [--checks C01,C06] [--tier quick]

1. in the scratch worktree (outside /repo and /verif): check out /repo's HEAD, apply the patch,
   `make check` must pass 37/37, the demonstration must fail; without the patch it must pass;
2. apply the patch to /repo, run the checks, undo it (git checkout -- .) straight afterwards;
3. store /verif/seeded/<name>/{patch.diff, demo files, meta.json}.
"""
import argparse, json, os, re, shutil, subprocess, sys, time

V = os.path.dirname(os.path.dirname(os.path.abspath(__file__)))


def sh(cmd, cwd=None, timeout=3600):
    r = subprocess.run(cmd, shell=True, cwd=cwd, capture_output=True, text=True, timeout=timeout)
    return r.returncode, r.stdout + r.stderr


def make_check(wt):
    rc, out = sh("make check -j16 2>&1 | grep -E '^# (TOTAL|PASS|FAIL)|^FAIL:'", cwd=wt)
    m = {k: int(v) for k, v in re.findall(r"# (TOTAL|PASS|FAIL):\s+(\d+)", out)}
    return m, out


def main():
    ap = argparse.ArgumentParser()
    ap.add_argument("prop"); ap.add_argument("worktree"); ap.add_argument("seeddir"); ap.add_argument("name")
    ap.add_argument("--checks", default=None); ap.add_argument("--tier", default="quick")
    ap.add_argument("--demo", default="sh build.sh")
    ap.add_argument("--skip-confirm", action="store_true")
    a = ap.parse_args()
    wt, sd = a.worktree, os.path.abspath(a.seeddir)
    patch = os.path.join(sd, "patch.diff")
    head = sh("git -C /repo rev-parse HEAD")[1].strip()
    meta = {"property": a.prop, "name": a.name, "repo_head": head, "time": time.strftime("%Y-%m-%d %H:%M:%S")}
    rd = os.path.join(sd, "README.md")
    if os.path.exists(rd):
        meta["description"] = open(rd).read()[:3000]
    meta["files_touched"] = re.findall(r"^\+\+\+ b/(\S+)", open(patch).read(), flags=re.M)
    if not a.skip_confirm:
        sh("git checkout -q -- . ; git checkout -q --detach %s" % head, cwd=wt)
        rc, out = sh("git apply --check %s" % patch, cwd=wt)
        if rc:
            print("patch does not apply to current HEAD:", out); return 2
        sh("rm -rf bin; make -f Makefile.unx -j16 lib", cwd=wt)      # rebuilt from scratch for each demo run
        rc0, out0 = sh(a.demo, cwd=sd)
        meta["demo_clean_exit"] = rc0
        sh("git apply %s" % patch, cwd=wt)
        inc = any(f.startswith("include/") or f.endswith(".inc") or "/include/" in f for f in meta["files_touched"])
        if inc:   # nasm include dependencies are not tracked by the makefiles
            sh("find . -name '*.asm' -not -path './include/*' | xargs touch", cwd=wt)
        m, out = make_check(wt)
        meta["tests_with_patch"] = m
        sh("rm -rf bin; make -f Makefile.unx -j16 lib", cwd=wt)
        rc1, out1 = sh(a.demo, cwd=sd)
        meta["demo_patched_exit"] = rc1
        meta["demo_patched_tail"] = out1[-600:]
        sh("git checkout -q -- .", cwd=wt)
        if inc:
            sh("find . -name '*.asm' -not -path './include/*' | xargs touch", cwd=wt)
        ok = rc0 == 0 and rc1 != 0 and m.get("PASS") == 37 and m.get("FAIL") == 0
        meta["confirmed"] = ok
        print("confirm: demo clean=%d patched=%d tests=%s -> %s" % (rc0, rc1, m, "CONFIRMED" if ok else "NOT CONFIRMED"))
        if not ok:
            print(out0[-400:], out1[-400:], out[-400:])
            json.dump(meta, open(os.path.join(sd, "meta_unconfirmed.json"), "w"), indent=1)
            return 1
    # run the checks against /repo with the patch applied
    checks = (a.checks or a.prop).split(",")
    st = sh("git -C /repo status --porcelain --untracked-files=no")[1].strip()
    if st:
        print("/repo has tracked changes, refusing:", st); return 2
    if sh("git status --porcelain --untracked-files=no lean tools/scrub_expected.json", cwd=V)[1].strip():
        print("uncommitted changes under lean/ (the restore after the run would destroy them): commit first"); return 2
    rc, out = sh("git -C /repo apply %s" % patch)
    if rc:
        print("apply to /repo failed", out); return 2
    res = {}
    try:
        for c in checks:
            t0 = time.time()
            rc, out = sh("python3 tools/check.py %s --tier %s" % (c, a.tier), cwd=V, timeout=7200)
            vio = [l for l in out.split("\n") if l.startswith("VIOLATION")]
            res[c] = {"exit": rc, "violations": [v[:300] for v in vio[:6]], "n_violations": len(vio), "wall_s": round(time.time() - t0, 1)}
            print("  check %s: exit=%d violations=%d %s" % (c, rc, len(vio), vio[0][:200] if vio else ""))
    finally:
        sh("git -C /repo checkout -- .")
    dst = os.path.join(V, "seeded", a.name)
    os.makedirs(dst, exist_ok=True)
    oldp = os.path.join(dst, "meta.json")
    if a.skip_confirm and os.path.exists(oldp):
        old = json.load(open(oldp))
        hist = old.get("earlier_runs", []) + [{"time": old.get("time"), "checks": old.get("checks"), "caught_by": old.get("caught_by")}]
        for k in ("confirmed", "demo_clean_exit", "demo_patched_exit", "demo_patched_tail", "tests_with_patch", "description"):
            if k in old:
                meta[k] = old[k]
        meta["earlier_runs"] = hist
    meta["checks"] = res
    meta["caught_by"] = [c for c, r in res.items() if r["exit"] == 1 and r["n_violations"]]
    for f in ([] if os.path.abspath(sd) == os.path.abspath(dst) else os.listdir(sd)):
        p = os.path.join(sd, f)
        if os.path.isfile(p) and os.path.getsize(p) < 200000 and not f.startswith("meta") and open(p, "rb").read(4) != b"\x7fELF":
            shutil.copy(p, os.path.join(dst, f))
    json.dump(meta, open(os.path.join(dst, "meta.json"), "w"), indent=1)
    # restore evidence written against the mutated tree
    sh("git checkout -- evidence lean/IsalVerif/Gen lean/IsalVerif/GenProps tools/scrub_expected.json 2>/dev/null; git clean -fdq evidence/replays 2>/dev/null", cwd=V)
    print("stored", dst, "caught_by", meta["caught_by"])
    return 0


if __name__ == "__main__":
    sys.exit(main())
