"""C12: dispatch.  Regenerate the resolver programs, re-check the Lean obligations, validate the
translator against the real resolvers under the virtual-CPUID hook, and when an obligation fails
search for a concrete failing configuration."""
import os, re, subprocess, json, random
import vlib, build_repo, gen_dispatch, disasm

L1_SSE41, L1_SSE42, L1_OSXSAVE, L1_AVX, L1_AES, L1_PCLMUL, L1_SSSE3 = 1 << 19, 1 << 20, 1 << 27, 1 << 28, 1 << 25, 1 << 1, 1 << 9
L7_AVX2, L7_F, L7_DQ, L7_CD, L7_BW, L7_VL, L7_SHA, L7_BMI1, L7_BMI2 = 1 << 5, 1 << 16, 1 << 17, 1 << 28, 1 << 30, 1 << 31, 1 << 29, 1 << 3, 1 << 8
G1 = L7_F | L7_DQ | L7_CD | L7_BW | L7_VL
G2 = (1 << 6) | (1 << 8) | (1 << 9) | (1 << 10) | (1 << 11) | (1 << 12) | (1 << 14)
RELEVANT = {1: [19, 20, 27, 28, 25, 1, 9], 2: [5, 16, 17, 28, 30, 31, 29, 3, 8, 21], 3: [6, 8, 9, 10, 11, 12, 14], 4: [1, 2, 5, 6, 7]}

ARCH = [((1, 20), [(1, 19)]), ((1, 19), [(1, 9)]), ((1, 28), [(1, 20)]), ((2, 5), [(1, 28)]), ((2, 16), [(2, 5)]),
        ((2, 17), [(2, 16)]), ((2, 28), [(2, 16)]), ((2, 30), [(2, 16)]), ((2, 31), [(2, 16)]), ((3, 6), [(2, 16)]),
        ((3, 11), [(2, 16)]), ((3, 12), [(2, 16)]), ((3, 14), [(2, 16)]), ((4, 2), [(4, 1), (1, 27)]), ((4, 5), [(4, 2)]),
        ((4, 6), [(4, 2)]), ((4, 7), [(4, 2)]),
        # conventions (untested by the dispatchers)
        ((1, 19), [(1, 25), (1, 1)]), ((2, 5), [(2, 3), (2, 8)]), ((3, 9), [(1, 25)]), ((3, 10), [(1, 1)])]


def close(cfg):
    """smallest superset of the set bits that satisfies the architectural rules + conventions"""
    cfg = list(cfg)
    changed = True
    while changed:
        changed = False
        for (f, b), concl in ARCH:
            if cfg[f] >> b & 1:
                for (g, c) in concl:
                    if not cfg[g] >> c & 1:
                        cfg[g] |= 1 << c
                        changed = True
    return cfg


def gen_configs(rng, n):
    """consistent configurations: a feature level, then a few random relevant bits removed/added (re-closed)"""
    levels = []
    base = [0x000306a9, 0, 0, 0, 0]
    sse = [base[0], L1_SSE41 | L1_SSE42 | L1_SSSE3 | L1_AES | L1_PCLMUL, 0, 0, 0]
    avx = [base[0], sse[1] | L1_OSXSAVE | L1_AVX, 0, 0, 6]
    avx2 = [base[0], avx[1], L7_AVX2 | L7_BMI1 | L7_BMI2, 0, 6]
    a512 = [base[0], avx[1], avx2[2] | G1, 0, 0xE6]
    a512g2 = [base[0], avx[1], avx2[2] | G1, G2, 0xE6]
    # CPUs whose OS leaves XSAVE off (CPUID.1:ECX.OSXSAVE = 0, XCR0 unreadable): AVX/AVX2/AVX-512 still reported by CPUID
    avx_nox = [base[0], sse[1] | L1_AVX, 0, 0, 0]
    avx2_nox = [base[0], sse[1] | L1_AVX, avx2[2], 0, 0]
    a512_nox = [base[0], sse[1] | L1_AVX, avx2[2] | G1, G2, 0]
    for l in (base, sse, avx, avx2, a512, a512g2, avx_nox, avx2_nox, a512_nox):
        levels.append(l)
    out = [list(l) for l in levels]
    for l in levels:        # with SHA
        x = list(l); x[2] |= L7_SHA; out.append(x)
    while len(out) < n:
        c = list(rng.choice(levels))
        if rng.random() < 0.5:
            c[2] |= L7_SHA
        # add a few bits and close; or drop a few bits WITHOUT closing upwards (dropping a premise keeps consistency
        # only if nothing depends on it: so rebuild from the kept bits)
        if rng.random() < 0.6:
            bits = [(f, b) for f in (1, 2, 3, 4) for b in RELEVANT[f] if c[f] >> b & 1]
            drop = set(rng.sample(bits, min(len(bits), rng.randint(0, 3))))
            keep = [x for x in bits if x not in drop]
            c2 = [c[0], 0, 0, 0, 0]
            # re-add kept bits whose premises are all still present: iterate in dependency order (drop removes dependants)
            depends = {}
            for (p, concl) in ARCH[:17]:
                depends.setdefault(p, []).extend(concl)
            def ok(bit, seen=()):
                if bit in drop:
                    return False
                return all(ok(q, seen + (bit,)) for q in depends.get(bit, []) if q not in seen)
            for (f, b) in keep:
                if ok((f, b)):
                    c2[f] |= 1 << b
            c = c2
        for _ in range(rng.randint(0, 2)):
            f = rng.choice((1, 2, 3, 4))
            c[f] |= 1 << rng.choice(RELEVANT[f])
        if rng.random() < 0.1:
            c[0] = rng.choice([0x000406D0, 0x000406D8, 0x000306a9, 0x000806EC])   # incl. an Avoton-like model id
        out.append(close(c))
    return out[:n]


EVAL_TMPL = '''import IsalVerif.GenProps.Dispatch
open IsalVerif.Dispatch IsalVerif.Gen.Dispatch IsalVerif.GenProps.Dispatch
def fieldName : Field → String | .l1eax => "0" | .l1ecx => "1" | .l7ebx => "2" | .l7ecx => "3" | .xcr0 => "4"
def showCond : Cond → String
  | (.atom f m c, b) => s!"{fieldName f}:{m.toNat}:{c.toNat}:{if b then 1 else 0}"
  | (.known k, b) => s!"k:{k}:{b}"
def diag (e : Entry) : List String :=
  match paths e.prog (4*e.prog.length) s0 [] with
  | none => [s!"{e.name}|paths-none||"]
  | some res => res.filterMap fun r =>
    if checkPath e.prog need (minBitsOf e) r then none else
    match r.2.cell with
    | some (.sym s) =>
      let known := closure allRules 8 (minBitsOf e ++ knownOnes r.1)
      let missing := (need s).filter fun i => !((reqBits i).all fun b => known.contains b)
      some s!"{e.name}|{symNames.getD s "?"}|{repr missing}|{" ".intercalate (r.1.map showCond)}"
    | _ => some s!"{e.name}|no-cell||"
#eval IO.println ("\\n".intercalate ((entries.filter (fun e => !entryOk e)).flatMap diag))
#eval IO.println s!"GROUPOK {groupOk}"
'''


def failing_paths():
    """evaluate (outside the kernel) which resolver paths fail the check, with their conditions"""
    path = os.path.join(vlib.scratch(), "dispeval.lean")
    src = EVAL_TMPL.replace("import IsalVerif.GenProps.Dispatch", "import IsalVerif.Gen.Dispatch\nimport IsalVerif.Lemmas.DispatchCheckSound\nimport IsalVerif.Lemmas.DispatchFamily")
    src = src.replace("open IsalVerif.Dispatch IsalVerif.Gen.Dispatch IsalVerif.GenProps.Dispatch", "open IsalVerif.Dispatch IsalVerif.Gen.Dispatch\n"
                      "def minBitsOf (e : Entry) : List Bit := if e.aesMin then aesMinBits else []\n"
                      "def entryOk (e : Entry) : Bool := e.stub == \"call;jmp[cell]\" && checkResolver e.prog need (minBitsOf e)\n"
                      "def groupOk : Bool := entries.all fun e1 => entries.all fun e2 => e1.group == \"\" || e1.group != e2.group || sameSkeleton famOf famOf e1.prog e2.prog")
    open(path, "w").write(src)
    r = vlib.run(["lake", "env", "lean", path], cwd=vlib.LEAN)
    out = []
    groupok = "GROUPOK true" in r.stdout
    for line in r.stdout.split("\n"):
        f = line.split("|")
        if len(f) == 4 and f[0]:
            out.append({"entry": f[0], "target": f[1], "missing": f[2], "conds": f[3]})
    return out, groupok, r.stdout + r.stderr


def witness_for(conds, aesmin):
    """a consistent configuration that follows the path described by `conds`"""
    cfg = [0, 0, 0, 0, 0]
    if aesmin:
        cfg[1] |= L1_SSE41 | L1_SSSE3 | L1_AES | L1_PCLMUL
    neg = []
    for c in conds.split():
        f, m, k, b = c.split(":")
        if f == "k":
            continue
        f, m, k, b = int(f), int(m), int(k), int(b)
        if b == 1:
            cfg[f] |= k
        else:
            neg.append((f, m, k))
    cfg = close(cfg)
    for (f, m, k) in neg:
        if (cfg[f] & m) == k:
            if k == 0:
                cfg[f] |= m & -m
                cfg = close(cfg)
            # k != 0: would need to clear a bit: leave (validated below anyway)
    return cfg


def build_dispatch_harness():
    """drv_dispatch linked against the hook build, plus the address->symbol map of the binary"""
    b = build_repo.get_build("hook")
    nm = vlib.run(["nm", os.path.join(b, "isa-l_crypto.a")]).stdout
    ents = sorted(set(m.group(1) for m in re.finditer(r" [DdBb] (\w+)_dispatched$", nm, re.M)))
    inc = os.path.join(b, "dispatch_entries.inc")
    txt = "".join("X(%s)\n" % e for e in ents)
    if not os.path.exists(inc) or open(inc).read() != txt:
        open(inc, "w").write(txt)
    drv = vlib.harness_bin("drv_dispatch", variant="hook", extra_src=("verif_cpuid.asm",), libs=(), cflags=("-no-pie", "-I", b))
    syms = {}
    for line in vlib.run(["nm", drv]).stdout.split("\n"):
        f = line.split()
        if len(f) == 3 and f[1] in "TtWw":
            syms.setdefault(int(f[0], 16), []).append(f[2])
    return drv, syms, ents
