#!/usr/bin/env python3
"""Entry point of every registered check:  python3 tools/check.py <Cnn> [--tier quick|thorough] [--replay file]"""
import sys, os, json, argparse
sys.path.insert(0, os.path.dirname(os.path.abspath(__file__)))
import vlib, hashcheck


# ----------------------------------------------------------------------------- hash family

HASH_PROPS = {
    # pid: (monitor prefixes that decide this property, reject %, Lean module, theorems)
    "C06": (("C06-", "C08-"), 8, "IsalVerif.Props.C06",
            ["IsalVerif.HashMB.C06_step", "IsalVerif.HashMB.C06_inflight_iff_lane",
             "IsalVerif.HashMB.C06_flush_none_iff", "IsalVerif.HashMB.C06_status"]),
    "C11": (("C11-",), 30, "IsalVerif.Props.C11",
            ["IsalVerif.HashMB.C11_reject", "IsalVerif.HashMB.C11_unchanged", "IsalVerif.HashMB.C11_history",
             "IsalVerif.HashMB.C11_nopoison", "IsalVerif.HashMB.C11_reject_code",
             "IsalVerif.HashMB.C11_unfixed_poisons"]),
    "C01": (("C01-",), 0, "IsalVerif.Props.C01",
            ["IsalVerif.HashMB.C01", "IsalVerif.HashMB.C01_reuse", "IsalVerif.HashMB.C01_append",
             "IsalVerif.HashMB.C01_segmentation", "IsalVerif.HashMB.C01_is_standard",
             "IsalVerif.HashMB.C01_params_ok"]),
}


def check_hash(pid, tier, replay=None):
    prefixes, rej, module, thms = HASH_PROPS[pid]
    chk = vlib.Check(pid, tier)
    failed = vlib.lean_obligations(chk, module, thms, extra_targets=["isal_model"])
    for name, detail in failed:
        chk.violation("Lean obligation no longer checks: %s" % name,
                      {"kind": "obligation", "obligation": name, "detail": detail}, no_input=True)
    drv = vlib.harness_bin("drv_hash")
    if replay:
        rp = json.load(open(replay))
        a = rp["args"]
        r = hashcheck.run_one(drv, a[0], a[1], int(a[2]), int(a[3]), int(a[4]), int(a[5]), int(a[6]))
        bad = [m for m in r["monitors"] if any(p in m for p in prefixes)] or r["diffs"]
        print("replay: monitors=%s diffs=%d" % (r["monitors"][:3], len(r["diffs"])))
        return 1 if bad else 0
    if tier == "quick":
        nops, maxlen, seeds = 2500, 6000, [chk.seed]
    else:
        nops, maxlen, seeds = 40000, 300000, [chk.seed * 100 + k for k in range(6)]
    fams = hashcheck.FAMILIES + (hashcheck.PUB if pid in ('C11', 'C06') else [])
    results = hashcheck.sweep(chk, drv, nops, maxlen, rej, seeds, families=fams)
    total_ops = 0
    hist = {}
    fam_ops = {}
    for r in results:
        key = "%s/%s" % (r["alg"], r["fam"])
        total_ops += r["ops"]
        fam_ops[key] = fam_ops.get(key, 0) + r["ops"]
        for k, v in r["hist"].items():
            hist[k] = hist.get(k, 0) + v
        mine = [m for m in r["monitors"] if any(p in m for p in prefixes) or m.startswith("CRASH")]
        ok = not mine and not r["diffs"]
        chk.oblige("correspondence+monitor %s seed=%s" % (key, r["args"][2]), ok,
                   "ops=%d diffs=%d monitors=%d" % (r["ops"], len(r["diffs"]), len(mine)))
        if mine:
            kind = mine[0].split()[1] if len(mine[0].split()) > 1 else mine[0]
            rmin = hashcheck.minimize(drv, r, maxlen, kind.split("-")[0] + "-") if not r.get("crash") else r
            chk.violation("%s in %s" % (kind, key),
                          {"kind": "history", "family": key, "args": rmin["args"], "monitor": rmin["monitors"][:3],
                           "note": "drv_hash regenerates the operation history from these args (seed-deterministic)",
                           "minimized": True},
                          match={"family": key, "monitor": kind})
        elif r["diffs"]:
            # correspondence broke without a property monitor failing: targeted search with 10x budget
            found = None
            for s2 in range(3):
                rr = hashcheck.run_one(drv, r["alg"], r["fam"], int(r["args"][2]) * 7 + s2 + 1, nops * 10, maxlen, rej)
                m2 = [m for m in rr["monitors"] if any(p in m for p in prefixes)]
                if m2:
                    found = (rr, m2)
                    break
            if found:
                rr, m2 = found
                kind = m2[0].split()[1]
                rmin = hashcheck.minimize(drv, rr, maxlen, kind.split("-")[0] + "-")
                chk.violation("%s in %s" % (kind, key),
                              {"kind": "history", "family": key, "args": rmin["args"], "monitor": rmin["monitors"][:3],
                               "first_disagreement": r["diffs"][0], "minimized": True},
                              match={"family": key, "monitor": kind})
            else:
                chk.violation("model/implementation correspondence broke for %s" % key,
                              {"kind": "obligation", "obligation": "correspondence stream %s" % key, "args": r["args"],
                               "first_disagreement": r["diffs"][0]}, no_input=True,
                              match={"family": key, "monitor": "correspondence"})
        if r.get("sample") and len(chk.samples) < 8:
            chk.samples.append({"family": key, "ops": r["sample"]})
    chk.cov["correspondence"] = {"calls": total_ops, "families": fam_ops, "input_histogram": hist,
                                 "rejected_submits": sum(r.get("rejected", 0) for r in results)}
    chk.cov["evaluations"] = total_ops
    chk.cov["distinct_nontrivial"] = len([k for k in hist if hist[k] > 0]) * len(fam_ops)
    chk.trusted = ["Lean 4.33.0 kernel; axioms allowed: propext, Classical.choice, Quot.sound",
                   "hand-written model lean/IsalVerif/Impl/HashMB.lean tied by per-call correspondence (harness/drv_hash.c)",
                   "SIMD kernels modelled as 'advance lane by n blocks with compress' (Spec/*.lean), not verified",
                   "OpenSSL libcrypto as independent digest oracle in the harness monitor"]
    chk.assumptions = ["buffers stay readable while a context is in flight (API contract)",
                       "host CPU executes every family (avx512, sha_ni present)"]
    return chk.finish(level="proof",
                      rule="op histories from xorshift PRNG (seeded by VERIF_SEED) per (alg,family): submit/flush with "
                           "length classes 0,<B,=B,kB,<4B,big x flags x lane occupancy; distinct_nontrivial = "
                           "non-empty (op,flags,length-class) cells x families")


CHECKS = {"C01": check_hash, "C06": check_hash, "C11": check_hash}


def main():
    ap = argparse.ArgumentParser()
    ap.add_argument("pid")
    ap.add_argument("--tier", default=os.environ.get("VERIF_TIER", "quick"))
    ap.add_argument("--replay")
    a = ap.parse_args()
    if a.pid not in CHECKS:
        print("unknown property", a.pid)
        return 2
    try:
        return CHECKS[a.pid](a.pid, a.tier, a.replay)
    except Exception as e:  # machinery failure: report, do not pretend the property held
        import traceback
        traceback.print_exc()
        print("CHECK-ERROR property=%s %s" % (a.pid, e))
        return 2


if __name__ == "__main__":
    sys.exit(main())
